COMMON_NOTE = ("Trusted: Coq 8.16.1 kernel (vm_compute used, native_compute not); no axioms (Print Assumptions of every theorem: closed under the global context); "
               "extraction with ExtrOcamlBasic only + OCaml driver, bounded by a vm_compute cross-check of sampled cases; the Go correspondence harness and toolchain. "
               "The model is hand-written; its tie to /repo is the correspondence check run by this command on every invocation. ")
ALL = ["C%02d" % i for i in range(1, 21)]
CHECKS = [
    {"property_id": "C17", "design_ref": "DESIGN.md §6 C17",
     "technique": "Coq proof by induction over error trees (no nesting bound) that Flatten/ErrorCode emit the outermost decoration per field + differential check of the real ErrorCode bytes (exhaustive decorator sequences + random trees) + extracted oracle",
     "text": "Theorems (coq/Props/C17.v): for every error tree (any nesting/order/repetition of the six decorators and %w wrapping) the emitted field list equals the specification built from 'first decoration met from the outside' "
             "(severity default ERROR, SQLSTATE default XXUUU, message = error text, H/D/F L R/n exactly when set and non-empty), every field code occurs at most once, the line is decimal text that reads back for every int32, nil gives FATAL/XX000. "
             "The real wire.ErrorCode is run on every decorator sequence up to depth 4 and thousands of random trees; its bytes must parse under the strict backend grammar, carry exactly the specified fields (oracle) and equal the model's bytes.",
     "note": COMMON_NOTE + "Error values other than the package's decorators and single-%w wrapping are modelled as base errors."},
    {"property_id": "C20", "design_ref": "DESIGN.md §6 C20",
     "technique": "Coq proof about an executable model of ParseParameters + differential correspondence check against /repo (exhaustive small strings + grammar) + extracted oracle",
     "text": "Theorems (coq/Props/C20.v) prove for every byte string that the modelled ParseParameters performs no out-of-range slice, returns between 0 and 65535 zero OIDs, "
             "returns min(65535, highest $n index) for queries without '?', min(65535, number of '?') for queries without $n, and performs at most |?|+65535 appends. "
             "The model is compared with the real function on every string of length <=5 over {$,?,0,1,9,a} and thousands of grammar-generated queries; the extracted oracle is evaluated on the implementation's results.",
     "note": COMMON_NOTE + "Go regexp/strconv are modelled by a byte scanner (compared on every case). The clause 'what a subsequent Describe announces' is covered by C08's ParameterDescription check."},
]
claimed = {c["property_id"] for c in CHECKS}
NOT_APPLICABLE = [{"property_id": p, "reason": "not yet claimed: model, theorems and correspondence sub-command for this property are still being built (see DESIGN.md §9); the technique applies"} for p in ALL if p not in claimed]
NOTES = "See DESIGN.md. bin/check <ID> quick|thorough; KNOWN_FINDINGS.txt lists repaired defects (fixed:) and recorded findings (finding:)."
