# per-property configuration of bin/check
TRUSTED_BASE = [
    "Coq 8.16.1 kernel (coqc; vm_compute used in Examples, finite sweeps and the cross-check; no native_compute)",
    "axioms: none declared; Print Assumptions of every property theorem is recorded in coverage.axioms_reported / print_assumptions_closed",
    "extraction to OCaml with ExtrOcamlBasic only (bool, option, unit, list, prod, sumbool, sumor mapped; andb/orb inlined); N, Z, positive, nat, byte stay inductive; OCaml 4.13.1; ocaml/driver (S-expression reader, differ)",
    "correspondence harness /verif/harness (Go, built with -tags verif against /repo): in-memory transport, scripted callbacks, generators; Go toolchain 1.23",
    "hand-written model coq/Wire/*.v tied to /repo only by the correspondence check of this run",
]

PROPS = {
    "C20": {
        "projection": "returned length of ParseParameters (and OID 0 everywhere), panic flag",
        "rule": "corpus of boundary queries, then ALL strings of length <= 5 (quick) / 7 (thorough) over {$,?,0,1,9,a} (exhaustive), then grammar-generated queries "
                "($n with n in {0..39, 65534, 65535, 65536, 2^31, 2^63-1, 2^63, 30 digits, leading zeros}, ?, bare $, $$, NUL, non-ASCII digits, random bytes); "
                "non-trivial = contains '$' or '?'; distinct = by query bytes",
        "exhaustive": True,
        "assumptions": ["regexp (RE2 leftmost-first matching of \\$(\\d+)|\\?) and strconv.Atoi are modelled by the byte scanner in coq/Wire/Params.v; the correspondence check compares them on every generated query"],
        "trusted": ["Go regexp and strconv (modelled, compared on every case)"],
    },
    "C17": {
        "projection": "raw bytes written by the real wire.ErrorCode for the same error value",
        "rule": "corpus (nil error, repaired-defect witnesses, source lines at byte/int32 boundaries), then ALL decorator sequences of depth <= 4 (quick) / 6 (thorough) over 7 decorator kinds incl. fmt.Errorf %w wrapping (exhaustive), "
                "then random trees of depth <= 8 with empty/unicode texts, repeated and shadowed decorators; the library's own constructors; non-trivial = at least one decorator; distinct = by error tree",
        "exhaustive": True,
        "assumptions": ["errors.Unwrap of error types other than the package's decorators and single-%w fmt.Errorf is a base error (joined errors, custom Unwrap are outside the model)"],
        "trusted": ["Go fmt/errors wrapping semantics as written into coq/Wire/Errors.v (compared on every case)"],
    },
}
