# per-property configuration of bin/check
TRUSTED_BASE = [
    "Coq 8.16.1 kernel (coqc; vm_compute used in Examples, finite sweeps and the cross-check; no native_compute)",
    "axioms: none declared; Print Assumptions of every property theorem is recorded in coverage.axioms_reported / print_assumptions_closed",
    "extraction to OCaml with ExtrOcamlBasic only (bool, option, unit, list, prod, sumbool, sumor mapped; andb/orb inlined); N, Z, positive, nat, byte stay inductive; OCaml 4.13.1; ocaml/driver (S-expression reader, differ)",
    "correspondence harness /verif/harness (Go, built with -tags verif against /repo): in-memory transport, scripted callbacks, generators; Go toolchain 1.23",
    "hand-written model coq/Wire/*.v tied to /repo only by the correspondence check of this run",
]

PROPS = {
    "C20": {
        "projection": "returned length of ParseParameters (and OID 0 everywhere), panic flag",
        "rule": "corpus of boundary queries, then ALL strings of length <= 5 (quick) / 7 (thorough) over {$,?,0,1,9,a} (exhaustive), then grammar-generated queries "
                "($n with n in {0..39, 65534, 65535, 65536, 2^31, 2^63-1, 2^63, 30 digits, leading zeros}, ?, bare $, $$, NUL, non-ASCII digits, random bytes); "
                "non-trivial = contains '$' or '?'; distinct = by query bytes",
        "exhaustive": True,
        "assumptions": ["regexp (RE2 leftmost-first matching of \\$(\\d+)|\\?) and strconv.Atoi are modelled by the byte scanner in coq/Wire/Params.v; the correspondence check compares them on every generated query"],
        "trusted": ["Go regexp and strconv (modelled, compared on every case)"],
    },
    "C17": {
        "projection": "raw bytes written by the real wire.ErrorCode for the same error value",
        "rule": "corpus (nil error, repaired-defect witnesses, source lines at byte/int32 boundaries), then ALL decorator sequences of depth <= 4 (quick) / 6 (thorough) over 7 decorator kinds incl. fmt.Errorf %w wrapping (exhaustive), "
                "then random trees of depth <= 8 with empty/unicode texts, repeated and shadowed decorators; the library's own constructors; non-trivial = at least one decorator; distinct = by error tree",
        "exhaustive": True,
        "assumptions": ["errors.Unwrap of error types other than the package's decorators and single-%w fmt.Errorf is a base error (joined errors, custom Unwrap are outside the model)"],
        "trusted": ["Go fmt/errors wrapping semantics as written into coq/Wire/Errors.v (compared on every case)"],
    },
    'C01': {
        "projection": 'log of one connection (messages, callback events with arguments, end of connection) after sorting ParameterStatus blocks',
        "rule": 'startup parameter sets (incl. missing user/database, duplicates) x validator {password-compare, accept, reject, fail} x password-message variants (correct, wrong, empty, NUL-less, length 0/3, oversized, every client type byte, truncated at every byte) x continuation (none, Query, Parse/Bind/Execute/Sync, Terminate, garbage, second password) x delivery (lock-step, pipelined in one segment, one byte per read); plus random credentials; non-trivial = client sent more than the startup packet; distinct = by configuration and byte stream' + "; non-trivial = the client sent more than its first packet or a callback ran; distinct = by configuration and client byte stream",
        "exhaustive": False,
        "assumptions": ["user callbacks are scripts (handler programs, parser table, validator/middleware/hook outcomes); transport writes succeed while the connection is open; no concurrent Close"],
        "trusted": ['pgx v5.4.3 pgtype.Map.Encode modelled by coq/Wire/Codec.v for bool/int2/4/8/text/varchar/bytea and the three NULL kinds (compared on every row of every case)'],
    },
    'C05': {
        "projection": 'per-message log with Consume markers (lock-step): messages, parser/statement callbacks, every DataWriter return value and Written() value',
        "rule": 'corpus (pinned counter defect, every Unicode-blank and near-blank query), ALL handler programs of length <= 3 (quick) / 5 (thorough) over {good row, wrong-arity row, unencodable row, Written, Empty, Complete} x {0,2 columns} x {stop-on-error, continue} (exhaustive), random multi-statement queries with decorated errors and all modelled value types' + "; non-trivial = the client sent more than its first packet or a callback ran; distinct = by configuration and client byte stream",
        "exhaustive": True,
        "assumptions": ["user callbacks are scripts (handler programs, parser table, validator/middleware/hook outcomes); transport writes succeed while the connection is open; no concurrent Close"],
        "trusted": ['pgx v5.4.3 pgtype.Map.Encode modelled by coq/Wire/Codec.v for bool/int2/4/8/text/varchar/bytea and the three NULL kinds (compared on every row of every case)'],
    },
    'C06': {
        "projection": 'per-message log with Consume markers (lock-step delivery: message k+1 is sent only after the server went idle after message k)',
        "rule": 'corpus (the pinned witnesses: failing Parse + Bind/Execute/Sync, Bind to unknown statement, Execute of unknown portal, oversized Parse/Sync), ALL histories of length 3 (quick) / 4 (thorough) over a 22-symbol alphabet (Parse ok/fail/multi, Bind known/unknown, Describe S/P known/unknown, Execute ok/unknown, Close, Flush, Sync, Query ok/fail, oversized P/Q/S, unknown type) (exhaustive), random histories of length 3..14 over random configurations' + "; non-trivial = the client sent more than its first packet or a callback ran; distinct = by configuration and client byte stream",
        "exhaustive": True,
        "assumptions": ["user callbacks are scripts (handler programs, parser table, validator/middleware/hook outcomes); transport writes succeed while the connection is open; no concurrent Close"],
        "trusted": ['pgx v5.4.3 pgtype.Map.Encode modelled by coq/Wire/Codec.v for bool/int2/4/8/text/varchar/bytea and the three NULL kinds (compared on every row of every case)'],
    },
    'C07': {
        "projection": 'per-message log with Consume markers; statement identity and parameters of every execution',
        "rule": 'corpus, ALL histories of length 3 (quick) / 4 (thorough) over {Parse x 2 names x 2 queries, Bind x 2 portals x 2 statements, Describe S/P, Execute, Close S/P x 2 names, Sync} followed by probes of both names (exhaustive), random histories of length 4..17' + "; non-trivial = the client sent more than its first packet or a callback ran; distinct = by configuration and client byte stream",
        "exhaustive": True,
        "assumptions": ["user callbacks are scripts (handler programs, parser table, validator/middleware/hook outcomes); transport writes succeed while the connection is open; no concurrent Close"],
        "trusted": ['pgx v5.4.3 pgtype.Map.Encode modelled by coq/Wire/Codec.v for bool/int2/4/8/text/varchar/bytea and the three NULL kinds (compared on every row of every case)'],
    },
    'C08': {
        "projection": 'per-message log with Consume markers; format tag and value (or NULL) of every parameter seen by the handler; RowDescription formats',
        "rule": 'parameter counts {0,1,2,3,17; thorough: 300, 65535} x NULL position x parameter-format list {none, [1], [0], positional, wrong count} x columns {0,1,3} x result-format list (same five kinds); values: empty, NUL-containing, long; inadmissible codes; random' + "; non-trivial = the client sent more than its first packet or a callback ran; distinct = by configuration and client byte stream",
        "exhaustive": False,
        "assumptions": ["user callbacks are scripts (handler programs, parser table, validator/middleware/hook outcomes); transport writes succeed while the connection is open; no concurrent Close"],
        "trusted": ['pgx v5.4.3 pgtype.Map.Encode modelled by coq/Wire/Codec.v for bool/int2/4/8/text/varchar/bytea and the three NULL kinds (compared on every row of every case)'],
    },
    'C10': {
        "projection": 'per-message log with Consume markers',
        "rule": 'limits {1,2,5,16,40} (thorough: 1..40, 4095, 4096, 4097, default via 0 and -1 at 2^24 and 2^24+1) x message type x every declared body length 0..L+70 x position in a 3-message session (exhaustive per limit), declared lengths 0..3, 2^31-1, 2^31, 2^32-1 with truncated input, skipped region split across reads, oversize during startup and authentication' + "; non-trivial = the client sent more than its first packet or a callback ran; distinct = by configuration and client byte stream",
        "exhaustive": True,
        "assumptions": ["user callbacks are scripts (handler programs, parser table, validator/middleware/hook outcomes); transport writes succeed while the connection is open; no concurrent Close"],
        "trusted": ['pgx v5.4.3 pgtype.Map.Encode modelled by coq/Wire/Codec.v for bool/int2/4/8/text/varchar/bytea and the three NULL kinds (compared on every row of every case)'],
    },
    'C12': {
        "projection": 'log of one connection; ParameterStatus block compared as a set',
        "rule": 'startup bodies from 7 pair sets (duplicates, empty values, no user) x 4 configurations (keys colliding with the forced ones, version set/unset, middleware) delivered at once and byte-wise, junk after the terminator, body cut at every position (missing terminator/value), CancelRequest first / after SSLRequest+N, repeated SSLRequest, short/oversized/bad-length packets, random pair lists' + "; non-trivial = the client sent more than its first packet or a callback ran; distinct = by configuration and client byte stream",
        "exhaustive": False,
        "assumptions": ["user callbacks are scripts (handler programs, parser table, validator/middleware/hook outcomes); transport writes succeed while the connection is open; no concurrent Close"],
        "trusted": ['pgx v5.4.3 pgtype.Map.Encode modelled by coq/Wire/Codec.v for bool/int2/4/8/text/varchar/bytea and the three NULL kinds (compared on every row of every case)'],
    },
    'C13': {
        "projection": 'per-message log with Consume markers; every CopyReader.Read result with payload',
        "rule": 'ALL COPY sub-histories of length 3 (quick) / 4 (thorough) over {CopyData x 4 payloads (incl. empty, limit-sized), CopyDone, CopyFail, Flush, Sync, Query, Terminate, oversized CopyData, CopyFail without NUL} x handler variants (reads 0..5, stop/continue, return nil/last/own error, complete after) x {simple, extended} (exhaustive), zero columns, stray COPY messages, random' + "; non-trivial = the client sent more than its first packet or a callback ran; distinct = by configuration and client byte stream",
        "exhaustive": True,
        "assumptions": ["user callbacks are scripts (handler programs, parser table, validator/middleware/hook outcomes); transport writes succeed while the connection is open; no concurrent Close"],
        "trusted": ['pgx v5.4.3 pgtype.Map.Encode modelled by coq/Wire/Codec.v for bool/int2/4/8/text/varchar/bytea and the three NULL kinds (compared on every row of every case)'],
    },
    'C19': {
        "projection": 'log of one connection (lock-step and pipelined delivery)',
        "rule": '0..5 middlewares x failure at every position x terminate hook {absent, ok, failing} x 4 command histories x 4 continuations pipelined behind Terminate (incl. a second Terminate), each pipelined in one segment and lock-step; random histories with Terminate inside skip-to-Sync mode' + "; non-trivial = the client sent more than its first packet or a callback ran; distinct = by configuration and client byte stream",
        "exhaustive": False,
        "assumptions": ["user callbacks are scripts (handler programs, parser table, validator/middleware/hook outcomes); transport writes succeed while the connection is open; no concurrent Close"],
        "trusted": ['pgx v5.4.3 pgtype.Map.Encode modelled by coq/Wire/Codec.v for bool/int2/4/8/text/varchar/bytea and the three NULL kinds (compared on every row of every case)'],
    },
    "C02": {
        "projection": "raw server bytes: (a) every write of the real buffer.Writer under arbitrary call sequences, (b) the whole output of generated sessions parsed by the strict grammar",
        "rule": "(a) 3000 (quick) / 60000 (thorough) Writer call sequences mixing completed and abandoned messages, Reset between messages, 10% on a broken transport; (b) 1500 / 30000 random sessions (simple+extended, rows failing at a column, wrong arity, decorated errors, inadmissible format codes) and wide tables (0..300 columns); non-trivial = >= 3 calls / client sent more than the startup packet; distinct = by call sequence / configuration+stream",
        "exhaustive": False,
        "assumptions": ["handler-supplied protocol strings (column names, tags, error texts, parameter keys/values) are NUL-free and counts fit 16 bits: a Go string cannot express the restriction; strings the library derives from client bytes are in scope without hypothesis", "Writer.End without a preceding Start is outside the library's call patterns (the model reports it as a panic)"],
        "trusted": ["bytes.Buffer / io.Writer semantics as written into coq/Wire/WriterModel.v (compared on every call sequence)"],
    },
    "C15": {
        "projection": "per-connection log of N connections served by ONE server, each compared with the model of that connection alone",
        "race": True,
        "rule": "60 (quick) / 1500 (thorough) rounds of 2..8 (every tenth: 16) connections with the same statement/portal names, different users and row types; half of the rounds deliver the messages lock-step in a random interleaving, half let all clients run freely in parallel; the harness is built with -race and any report fails the check; non-trivial/distinct as for sessions",
        "exhaustive": False,
        "assumptions": ["the Go race detector's happens-before analysis on the generated traffic stands for 'no unsynchronised access'; the Go memory model is not formalised"],
        "trusted": ["Go race detector (go build -race)"],
    },
    "C03": {
        "projection": "(i) log of the same byte stream under 8 segmentations, all compared with each other and with the model; (ii) result of every buffer.Reader call and the slice layout of Msg afterwards",
        "rule": "(i) 250 (quick) / 5000 (thorough) streams (random sessions; every fifth: surplus-carrying Parse/Execute/Describe/Close/Sync/Flush/Query messages followed by empty-body messages) each delivered at once, one byte per read, split inside the first headers and under 4 random cut sets; (ii) 2500 / 50000 reader call sequences (typed/untyped reads, Slurp, GetString/GetBytes n/GetUint16/32/GetPrepareType with n from 0 to 2^31) on streams with bodies of size 0..2L+3 around 4095/4096/4097 and the limit, bad lengths, truncated streams; non-trivial = >= 2 calls / client sent more than the startup packet",
        "exhaustive": False,
        "assumptions": ["bufio.Reader + io.ReadFull are modelled as read_full over a segment list (coq/Wire/Transport.v); sizes passed to GetBytes are non-negative (the library only passes unsigned wire values)"],
        "trusted": ["Go slice semantics (s[len(s):], cap, append-free reslicing) as written into coq/Wire/ReaderModel.v, compared on every call"],
    },
    "C18": {
        "projection": "slice layout (allocation, offset, length, capacity) of reader.Msg after every call; content of every view handed out, re-checked after every later call; data retained by callbacks re-checked at every later callback and at the end",
        "rule": "3000 (quick) / 60000 (thorough) reader call sequences as for C03 with every returned string/[]byte retained (aliasing the buffer) next to a private copy; 60 / 1500 sessions whose validator, parser and statement callbacks retain password, database, user, client parameters, query texts and parameter values while 10+ later messages of sizes 4085..4097, L-1, L, L+1, L+50, 3L, 0, 1 (unknown type, Query, COPY data, Flush) are processed",
        "exhaustive": False,
        "assumptions": ["Go's garbage collector does not move heap objects (allocation identity is observed through slice end addresses)"],
        "trusted": ["Go slice semantics as written into coq/Wire/ReaderModel.v"],
    },
    "C09": {
        "projection": "per-message log (lock-step) of sessions whose statement writes typed rows; DataRow bytes vs the codec model; fields decoded by the extracted decoder in the announced format",
        "rule": "every supported type (bool, int2/4/8, text, varchar, bytea, uuid; float4/8 binary only) x every listed boundary value x the three NULL kinds (untyped nil, typed nil pointer, invalid pgtype value) x {simple query, Execute with result formats none/[0]/[1]}; every placement of the three NULL kinds in rows of width <= 3 (quick) / 5 (thorough) (4^w rows each, exhaustive); random tables of 1..5 columns with positional format lists",
        "exhaustive": True,
        "assumptions": ["text formatting of floats, numeric, date/time, arrays and all other pgx types are outside the codec model (partial): for them only the framing and NULL theorems apply"],
        "trusted": ["pgx v5.4.3 pgtype codecs, compared with coq/Wire/Codec.v on every generated value"],
    },
    "C14": {
        "projection": "rows (decoded values) and final outcome returned by BinaryCopyReader.Read inside a real COPY session",
        "rule": "40 (quick) / 800 (thorough) streams over 6 table shapes (int2/4/8, bool, text, varchar, bytea, uuid), 0..3 rows with NULLs and boundary values, header and trailer optional; each stream split at EVERY single position (streams <= 48 bytes; all streams in thorough), 20 double/triple cuts, byte-wise, with Flush/Sync noise in a third of the variants; corruptions (field count +1/0, length +1, 0xFFFFFFFE, just above the limit, truncation) and aborted streams (CopyFail) under the same splits; all splits of one stream must agree (direct oracle)",
        "exhaustive": True,
        "assumptions": ["field values above the message-size limit are rejected (design decision of the repaired reader)"],
        "trusted": ["pgx binary decoders for the listed types (compared on every row)"],
    },
}
