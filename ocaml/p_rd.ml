open Model
open Base
open Sess
type string = Stdlib.String.t

(* (rd id class (limit L) (stream x..) (ops ...) (obs (res ...) (layout (a o l c)...) (changed b) (panic b))) *)
let xop_of (s : sexp) : xop = match s with
  | A "typed" -> XTyped | A "untyped" -> XUntyped
  | L [A "slurp"; n] -> XSlurp (z_of n)
  | A "string" -> XAcc AString
  | L [A "bytes"; n] -> XAcc (ABytes (z_of n))
  | A "u16" -> XAcc AU16 | A "u32" -> XAcc AU32 | A "prepare" -> XAcc APrepare
  | s -> failwith ("xop: " ^ show_sexp s)

let show_xres = function
  | XMsg (t, n) -> Printf.sprintf "(msg %s %s)" (string_of_z t) (string_of_z n)
  | XSizeErr (t, n) -> Printf.sprintf "(sizeerr %s %s)" (string_of_z t) (string_of_z n)
  | XReadErr -> "readerr"
  | XRes (ROkBytes b) -> "(bytes " ^ atom_of_bytes b ^ ")"
  | XRes (ROkNum z) -> "(num " ^ string_of_z z ^ ")"
  | XRes RFail -> "fail"
  | XDone -> "done"

let check_gen (with_layout : bool) (fields : sexp list) : verdict * string option =
  let limit = z_of (field1 "limit" fields) in
  let stream = b_of (field1 "stream" fields) in
  let ops = List.map xop_of (field "ops" fields) in
  let o = field "obs" fields in
  let res = List.map show_sexp (field "res" o) in
  let layout = List.map show_sexp (field "layout" o) in
  let changed = atom (field1 "changed" o) = "1" and panicked = atom (field1 "panic" o) = "1" in
  if panicked then (OracleFail "an accessor / reader call panicked", None)
  else if changed then (OracleFail "a view returned earlier changed its content after a later reader call", None)
  else begin
    let m = xrun (x_init limit stream) ops in
    let mres = List.map (fun (r, _) -> show_xres r) m in
    (* the harness sees allocations only after a call completed: number them by first
       appearance and measure offsets from the first offset seen in each *)
    let seen : (int, int * int) Hashtbl.t = Hashtbl.create 8 in
    let mlay = List.map (fun (_, (((a, o), l), c)) ->
      let a = int_of_nat a and o = int_of_nat o and l = int_of_nat l and c = int_of_nat c in
      if a = 0 && o = 0 && l = 0 && c = 0 && Hashtbl.length seen = 0 then "(0 0 0 0)"
      else if c = 0 then Printf.sprintf "(-1 0 %d 0)" l else begin
        let (idx, base) = match Hashtbl.find_opt seen a with
          | Some x -> x
          | None -> let x = (Hashtbl.length seen, o) in Hashtbl.replace seen a x; x in
        Printf.sprintf "(%d %d %d %d)" idx (o - base) l c end) m in
    if mres <> res then
      (Diff (Printf.sprintf "results differ\n    model: %s\n    impl:  %s" (String.concat " " mres) (String.concat " " res)), None)
    else if with_layout && mlay <> layout then
      (Diff (Printf.sprintf "slice layout of Msg differs\n    model: %s\n    impl:  %s" (String.concat " " mlay) (String.concat " " layout)), None)
    else (Ok_, None)
  end

(* C18 (memory handed out is never reused) compares where every Msg lies in the allocated chunks; C03 (what is parsed)
   compares the results of the calls only: how the Reader lays out its memory is not C03's business *)
let check = check_gen true
let check_results = check_gen false

let nontrivial (fields : sexp list) : string option =
  if List.length (field "ops" fields) >= 2 then
    Some (Digest.to_hex (Digest.string (atom (field1 "stream" fields) ^ show_sexp (L (field "ops" fields)))))
  else None
