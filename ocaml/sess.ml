(* sess.ml — reading session cases/observations, running the model, building
   the implementation's log, printing cases as Coq terms. *)
open Model
open Base
type string = Stdlib.String.t

(* id of the case being checked (set by the driver) *)
let cur_id = ref ""

let b_of s = bytes_of_atom (atom s)
let z_of s = z_of_atom (atom s)

let rec err_of (s : sexp) : err = match s with
  | L [A "base"; t] -> EBase (b_of t)
  | L [A "wrap"; a; b; e] -> EWrap (b_of a, b_of b, err_of e)
  | L [A "code"; a; e] -> ECode (b_of a, err_of e)
  | L [A "sev"; a; e] -> ESev (b_of a, err_of e)
  | L [A "hint"; a; e] -> EHint (b_of a, err_of e)
  | L [A "detail"; a; e] -> EDetail (b_of a, err_of e)
  | L [A "source"; f; l; fn; e] -> ESource (b_of f, z_of l, b_of fn, err_of e)
  | L [A "constraint"; a; e] -> EConstraint (b_of a, err_of e)
  (* errors.Join: the library's walkers follow single Unwrap only, so a joined error is a base error whose text
     is the texts of its parts, one per line (decorations inside the parts are not seen) *)
  | L [A "join"; e1; e2] -> EBase (err_text (err_of e1) @ [byte_of_int 10] @ err_text (err_of e2))
  | s -> failwith ("err_of: " ^ show_sexp s)

let val_of (s : sexp) : value = match s with
  | A "nil" -> VNil | A "nilptr" -> VNilPtr | A "invalid" -> VInvalid | A "unenc" -> VUnenc
  | L [A "text"; b] -> VText (b_of b)
  | L [A "bytea"; b] -> VBytea (b_of b)
  | L [A "int2"; n] -> VInt2 (z_of n)
  | L [A "int4"; n] -> VInt4 (z_of n)
  | L [A "int8"; n] -> VInt8 (z_of n)
  | L [A "bool"; n] -> VBool (atom n <> "0")
  | L [A "uuid"; b] -> VUuid (b_of b)
  | L [A "float4"; n] -> VFloat4 (z_of n)
  | L [A "float8"; n] -> VFloat8 (z_of n)
  | s -> failwith ("val_of: " ^ show_sexp s)

let op_of (s : sexp) : hop = match s with
  | L (A "row" :: vs) -> HRow (List.map val_of vs)
  | A "written" -> HWritten | A "empty" -> HEmpty | A "copyread" -> HCopyRead
  | L [A "complete"; t] -> HComplete (b_of t)
  | L [A "copyin"; f] -> HCopyIn (z_of f)
  | s -> failwith ("op_of: " ^ show_sexp s)

let stmt_of (s : sexp) : stmt = match s with
  | L (A "stmt" :: id :: rest) ->
      let cols = List.map (function
        | L [n; t; a; o; w] -> { c_name = b_of n; c_table = z_of t; c_attrno = z_of a; c_oid = z_of o; c_width = z_of w }
        | s -> failwith ("col: " ^ show_sexp s)) (field "cols" rest) in
      let ret = match field1 "ret" rest with
        | A "nil" -> RetNil | A "last" -> RetLast
        | L [A "err"; e] -> RetErr (err_of e)
        | s -> failwith ("ret: " ^ show_sexp s) in
      { s_id = z_of id; s_cols = cols; s_poids = List.map z_of (field "poids" rest);
        s_prog = List.map op_of (field "prog" rest); s_stop = atom (field1 "stop" rest) = "1"; s_ret = ret }
  | s -> failwith ("stmt_of: " ^ show_sexp s)

let case_of (fields : sexp list) : scase =
  let cf = field "cfg" fields in
  let auth = match field "auth" cf with
    | [A "none"] -> None
    | [A m; pw] -> Some (z_of_int (match m with "pw" -> 0 | "accept" -> 1 | "reject" -> 2 | _ -> 3), b_of pw)
    | _ -> failwith "auth" in
  let parse = List.map (function
    | L [q; L [A "err"; e]] -> (b_of q, PErr (err_of e))
    | L [q; L (A "stmts" :: ss)] -> (b_of q, POk (List.map stmt_of ss))
    | s -> failwith ("parse entry: " ^ show_sexp s)) (field "parse" cf) in
  { sc_limit = z_of (field1 "limit" cf); sc_auth = auth;
    sc_params = List.map (function L [k; v] -> (b_of k, b_of v) | _ -> failwith "param") (field "params" cf);
    sc_version = b_of (field1 "version" cf); sc_tls = atom (field1 "tls" cf) = "1";
    sc_mws = List.map (fun m -> atom m = "1") (field "mws" cf);
    sc_term = (match atom (field1 "term" cf) with "none" -> None | "ok" -> Some true | _ -> Some false);
    sc_parse = parse; sc_raw = b_of (field1 "raw" fields);
    sc_tlsin = (match field1 "tlsin" fields with A "none" -> None | a -> Some (b_of a)) }

(* ---- the implementation's log ---- *)
let impl_err code sev msg : err = ECode (code, ESev (sev, EBase msg))

let opres_of (s : sexp) : opres = match s with
  | A "ok" -> OOk | A "eof" -> OEof | A "noreader" -> ONoReader
  | L [A "err"; c; sv; m] -> OErr (impl_err (b_of c) (b_of sv) (b_of m))
  | L [A "data"; b] -> OData (b_of b)
  | L [A "written"; n] -> OWritten (z_of n)
  | s -> failwith ("opres: " ^ show_sexp s)

let event_of (s : sexp) : int * int * ev =
  let i a = int_of_string (atom a) in
  match s with
  | L [A "validate"; off; t; a; b; c] -> (i off, i t, CbValidate (b_of a, b_of b, b_of c))
  | L [A "mw"; off; t; n] -> (i off, i t, CbMw (z_of n))
  | L [A "parse"; off; t; q] -> (i off, i t, CbParse (b_of q))
  | L [A "exec"; off; t; sid; L (A "params" :: ps)] ->
      (i off, i t,
       CbExec (z_of sid, List.map (function
         | L [f; A "null"] -> (z_of f, None)
         | L [f; v] -> (z_of f, Some (b_of v))
         | s -> failwith ("param: " ^ show_sexp s)) ps))
  | L [A "op"; off; t; r] -> (i off, i t, CbOp (opres_of r))
  | L [A "terminate"; off; t] -> (i off, i t, CbTerminate)
  | L [A "ctxbad"; _; _; why] ->
      failwith ("a check of the harness on the running connection failed: " ^
                String.concat "" (List.map (fun b -> String.make 1 (Char.chr (int_of_byte b))) (b_of why)))
  | s -> failwith ("event_of: " ^ show_sexp s)

type obs = { out : byte list; events : (int * int * ev) list; closed : bool; panicked : bool; hang : bool;
             steps : int list; sslreq : bool }

let obs_of (fields : sexp list) : obs =
  let o = field "obs" fields in
  { out = b_of (field1 "out" o); events = List.map event_of (field "events" o);
    closed = atom (field1 "closed" o) = "1"; panicked = atom (field1 "panic" o) = "1";
    hang = atom (field1 "hang" o) = "1";
    steps = List.map (fun a -> int_of_string (atom a)) (field "steps" o);
    sslreq = atom (field1 "sslreq" o) = "1" }

(* cut the output into frames with their end offsets; None if malformed *)
let split_out (start : int) (out : byte list) : (int * byte * byte list) list option =
  let a = Array.of_list out in
  let n = Array.length a in
  let rec go pos acc =
    if pos = n then Some (List.rev acc)
    else if pos + 5 > n then None
    else
      let len = (int_of_byte a.(pos+1) lsl 24) lor (int_of_byte a.(pos+2) lsl 16)
                lor (int_of_byte a.(pos+3) lsl 8) lor int_of_byte a.(pos+4) in
      if len < 4 || pos + 1 + len > n then None
      else
        let body = Array.to_list (Array.sub a (pos+5) (len-4)) in
        go (pos + 1 + len) ((start + pos + 1 + len, a.(pos), body) :: acc)
  in go 0 []

(* merge messages (with end offsets) and callbacks (with the output offset at
   which they happened) into one chronological list *)
let rec merge msgs evs acc = match evs with
  | [] -> List.rev_append acc (List.map (fun (_, m) -> Out m) msgs)
  | (off, e) :: er ->
      let rec take ms acc = match ms with
        | (eo, m) :: mr when eo <= off -> take mr (Out m :: acc)
        | _ -> (ms, acc) in
      let (ms', acc') = take msgs acc in
      merge ms' er (e :: acc')

(* Some log, or None when the output is not a well-formed message stream.
   In lock-step mode ([lock]) the log carries a [Consume] marker in front of
   the events of every delivered client chunk after the startup chunk. *)
let impl_log ?(pre = 1) (lock : bool) (o : obs) : ev list option =
  let raw_prefix, rest, start = match o.sslreq, o.out with
    | true, b :: r -> ([RawOut b], r, 1)
    | _, out -> ([], out, 0) in
  match split_out start rest with
  | None -> None
  | Some frames ->
      let msgs = List.map (fun (e, t, body) -> (e, parse_bmsg t body)) frames in
      if List.exists (fun (_, m) -> m = None) msgs then None
      else
        let msgs = List.map (fun (e, m) -> match m with Some m -> (e, m) | None -> assert false) msgs in
        let tail = (if o.panicked then [Crash] else []) @ (if o.closed then [Closed] else []) in
        if not lock then
          Some (raw_prefix @ merge msgs (List.map (fun (off, _, e) -> (off, e)) o.events) [] @ tail)
        else begin
          let steps = Array.of_list o.steps in
          let n = Array.length steps in
          (* turn k (1-based) owns the messages ending in (steps[k-2], steps[k-1]]; the last turn also owns the rest *)
          let turn_of_msg eo =
            let rec go k = if k >= n then max n 1 else if eo <= steps.(k) then k + 1 else go (k + 1) in go 0 in
          let body = ref [] in
          for k = 1 to max n 1 do
            let ms = List.filter (fun (eo, _) -> turn_of_msg eo = k) msgs in
            let es = List.filter_map (fun (off, t, e) ->
              if t = k || (k = max n 1 && t > k) || (k = 1 && t < 1) then Some (off, e) else None) o.events in
            body := !body @ (if k > pre then [Consume] else []) @ merge ms es []
          done;
          Some (raw_prefix @ !body @ tail)
        end

(* ---- printing ---- *)
let show_bytes b = atom_of_bytes b
let show_z z = string_of_z z
let rec show_err = function
  | EBase t -> "(base " ^ show_bytes t ^ ")"
  | EWrap (a, b, e) -> "(wrap " ^ show_bytes a ^ " " ^ show_bytes b ^ " " ^ show_err e ^ ")"
  | ECode (a, e) -> "(code " ^ show_bytes a ^ " " ^ show_err e ^ ")"
  | ESev (a, e) -> "(sev " ^ show_bytes a ^ " " ^ show_err e ^ ")"
  | EHint (a, e) -> "(hint " ^ show_bytes a ^ " " ^ show_err e ^ ")"
  | EDetail (a, e) -> "(detail " ^ show_bytes a ^ " " ^ show_err e ^ ")"
  | ESource (a, l, b, e) -> "(source " ^ show_bytes a ^ " " ^ show_z l ^ " " ^ show_bytes b ^ " " ^ show_err e ^ ")"
  | EConstraint (a, e) -> "(constraint " ^ show_bytes a ^ " " ^ show_err e ^ ")"
let show_flat e =
  "(" ^ show_bytes (get_code e) ^ " " ^ show_bytes (default_severity (get_severity e)) ^ " " ^ show_bytes (err_text e) ^ ")"
let show_msg (m : bmsg) : string = match m with
  | BAuth c -> "R(" ^ show_z c ^ ")"
  | BParamStatus (k, v) -> "S(" ^ show_bytes k ^ "=" ^ show_bytes v ^ ")"
  | BReady s -> "Z(" ^ show_bytes [s] ^ ")"
  | BRowDesc cols -> "T(" ^ String.concat "," (List.map (fun c -> show_bytes c.cd_name ^ ":" ^ show_z c.cd_oid ^ ":" ^ show_z c.cd_fmt) cols) ^ ")"
  | BDataRow fs -> "D(" ^ String.concat "," (List.map (function None -> "null" | Some b -> show_bytes b) fs) ^ ")"
  | BComplete t -> "C(" ^ show_bytes t ^ ")"
  | BEmptyQuery -> "I"
  | BError fs -> "E(" ^ String.concat "," (List.map (fun (c, t) -> show_bytes [c] ^ "=" ^ show_bytes t) fs) ^ ")"
  | BParseComplete -> "1" | BBindComplete -> "2" | BCloseComplete -> "3" | BNoData -> "n"
  | BParamDesc os -> "t(" ^ String.concat "," (List.map show_z os) ^ ")"
  | BCopyIn (f, cs) -> "G(" ^ show_z f ^ ";" ^ String.concat "," (List.map show_z cs) ^ ")"
let show_opres = function
  | OOk -> "ok" | OErr e -> "err" ^ show_flat e | OEof -> "eof" | OData b -> "data(" ^ show_bytes b ^ ")"
  | OWritten n -> "written(" ^ show_z n ^ ")" | ONoReader -> "noreader"
let show_ev = function
  | Out m -> show_msg m
  | RawOut b -> "raw(" ^ show_bytes [b] ^ ")"
  | Consume -> "<"
  | CbValidate (a, b, c) -> "validate(" ^ show_bytes a ^ "," ^ show_bytes b ^ "," ^ show_bytes c ^ ")"
  | CbMw i -> "mw(" ^ show_z i ^ ")"
  | CbParse q -> "parse(" ^ show_bytes q ^ ")"
  | CbExec (s, ps) -> "exec(" ^ show_z s ^ ";" ^ String.concat "," (List.map (fun (f, v) -> show_z f ^ ":" ^ (match v with None -> "null" | Some b -> show_bytes b)) ps) ^ ")"
  | CbOp r -> "op:" ^ show_opres r
  | CbTerminate -> "terminate" | Crash -> "CRASH" | Closed -> "closed" | OutOfFuel -> "OUTOFFUEL"
let show_log l = String.concat " " (List.map show_ev l)

(* ---- Coq term printing (for the vm_compute cross-check) ---- *)
let cq_bytes b = "(hx \"" ^ hex_of_bytes b ^ "\")"
let cq_z z = "(" ^ show_z z ^ ")"
let cq_list f l = "[" ^ String.concat "; " (List.map f l) ^ "]"
let cq_bool b = if b then "true" else "false"
let cq_opt f = function None -> "None" | Some x -> "(Some " ^ f x ^ ")"
let rec cq_err = function
  | EBase t -> "(EBase " ^ cq_bytes t ^ ")"
  | EWrap (a, b, e) -> "(EWrap " ^ cq_bytes a ^ " " ^ cq_bytes b ^ " " ^ cq_err e ^ ")"
  | ECode (a, e) -> "(ECode " ^ cq_bytes a ^ " " ^ cq_err e ^ ")"
  | ESev (a, e) -> "(ESev " ^ cq_bytes a ^ " " ^ cq_err e ^ ")"
  | EHint (a, e) -> "(EHint " ^ cq_bytes a ^ " " ^ cq_err e ^ ")"
  | EDetail (a, e) -> "(EDetail " ^ cq_bytes a ^ " " ^ cq_err e ^ ")"
  | ESource (a, l, b, e) -> "(ESource " ^ cq_bytes a ^ " " ^ cq_z l ^ " " ^ cq_bytes b ^ " " ^ cq_err e ^ ")"
  | EConstraint (a, e) -> "(EConstraint " ^ cq_bytes a ^ " " ^ cq_err e ^ ")"
let cq_val = function
  | VNil -> "VNil" | VNilPtr -> "VNilPtr" | VInvalid -> "VInvalid" | VUnenc -> "VUnenc"
  | VText b -> "(VText " ^ cq_bytes b ^ ")" | VBytea b -> "(VBytea " ^ cq_bytes b ^ ")"
  | VInt2 z -> "(VInt2 " ^ cq_z z ^ ")" | VInt4 z -> "(VInt4 " ^ cq_z z ^ ")" | VInt8 z -> "(VInt8 " ^ cq_z z ^ ")"
  | VBool b -> "(VBool " ^ cq_bool b ^ ")"
  | VUuid b -> "(VUuid " ^ cq_bytes b ^ ")"
  | VFloat4 z -> "(VFloat4 " ^ cq_z z ^ ")" | VFloat8 z -> "(VFloat8 " ^ cq_z z ^ ")"
let cq_op = function
  | HRow vs -> "(HRow " ^ cq_list cq_val vs ^ ")" | HWritten -> "HWritten" | HEmpty -> "HEmpty"
  | HComplete t -> "(HComplete " ^ cq_bytes t ^ ")" | HCopyIn f -> "(HCopyIn " ^ cq_z f ^ ")" | HCopyRead -> "HCopyRead"
let cq_col c = Printf.sprintf "{| c_name := %s; c_table := %s; c_attrno := %s; c_oid := %s; c_width := %s |}"
  (cq_bytes c.c_name) (cq_z c.c_table) (cq_z c.c_attrno) (cq_z c.c_oid) (cq_z c.c_width)
let cq_stmt s = Printf.sprintf "{| s_id := %s; s_cols := %s; s_poids := %s; s_prog := %s; s_stop := %s; s_ret := %s |}"
  (cq_z s.s_id) (cq_list cq_col s.s_cols) (cq_list cq_z s.s_poids) (cq_list cq_op s.s_prog) (cq_bool s.s_stop)
  (match s.s_ret with RetNil -> "RetNil" | RetLast -> "RetLast" | RetErr e -> "(RetErr " ^ cq_err e ^ ")")
let cq_case (c : scase) : string =
  Printf.sprintf "{| sc_limit := %s; sc_auth := %s; sc_params := %s; sc_version := %s; sc_tls := %s; sc_mws := %s; sc_term := %s; sc_parse := %s; sc_raw := %s; sc_tlsin := %s |}"
    (cq_z c.sc_limit) (cq_opt (fun (m, pw) -> "(" ^ cq_z m ^ ", " ^ cq_bytes pw ^ ")") c.sc_auth)
    (cq_list (fun (k, v) -> "(" ^ cq_bytes k ^ ", " ^ cq_bytes v ^ ")") c.sc_params)
    (cq_bytes c.sc_version) (cq_bool c.sc_tls) (cq_list cq_bool c.sc_mws) (cq_opt cq_bool c.sc_term)
    (cq_list (fun (q, r) -> "(" ^ cq_bytes q ^ ", " ^ (match r with PErr e -> "PErr " ^ cq_err e | POk ss -> "POk " ^ cq_list cq_stmt ss) ^ ")") c.sc_parse)
    (cq_bytes c.sc_raw) (cq_opt cq_bytes c.sc_tlsin)

let sess_cross_header = "Require Import Wire.Bytes Spec.BackendSpec Wire.Errors Wire.Framing Wire.Session Wire.Codec Wire.Case.\nFrom Coq Require Import String.\nLocal Open Scope string_scope.\nLocal Open Scope list_scope.\nLocal Open Scope Z_scope.\nDefinition cases : list (scase * bytes) := [\n"
let sess_cross_footer = "].\nDefinition bad := Eval vm_compute in\n  map (fun c => log_digest (run_case (fst c))) (filter (fun c => negb (bytes_eqb (log_digest (run_case (fst c))) (snd c))) cases).\nPrint bad.\n"

(* the generic correspondence check of a session case *)
type sess_result = { case_ : scase; obs_ : obs; model : ev list; impl : ev list option }

let is_lock (fields : sexp list) : bool = (try atom (field1 "lock" fields) = "1" with _ -> false)

let run_sess (fields : sexp list) : sess_result =
  let c = case_of fields in
  let o = obs_of fields in
  let pre = (try int_of_string (atom (field1 "pre" fields)) with _ -> 1) in
  { case_ = c; obs_ = o; model = run_case c; impl = impl_log ~pre (is_lock fields) o }

let cross_of (r : sess_result) : string option =
  (* only small cases go to the vm_compute cross-check *)
  if List.length r.case_.sc_raw > 600 then None
  else Some ("(" ^ cq_case r.case_ ^ ", " ^ cq_bytes (log_digest r.model) ^ ")")

let correspondence (fields : sexp list) (r : sess_result) : verdict =
  match r.impl with
  | None -> Diff "implementation output is not a well-formed message stream"
  | Some il ->
      if r.obs_.hang then Diff "implementation hangs"
      else
        let lock = is_lock fields in
        let m = if lock then r.model else strip_consume r.model in
        if not (log_match m il) then
          Diff (Printf.sprintf "log mismatch\n    model: %s\n    impl:  %s" (show_log m) (show_log il))
        else Ok_
