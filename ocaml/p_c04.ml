open Model
open Base
open Sess
type string = Stdlib.String.t

let check_wf (fields : sexp list) : verdict * string option =
  let b k = atom (field1 k fields) = "1" in
  if b "panic" then (OracleFail "the server panicked when the transport started failing writes", None)
  else if b "hang" then (OracleFail "handling of the connection did not end after its transport failed", None)
  else if not (b "closed") then (OracleFail "the connection was not closed after its transport failed", None)
  else (Ok_, None)

let check_alloc (fields : sexp list) : verdict * string option =
  let i k = int_of_string (atom (field1 k fields)) in
  if atom (field1 "panic" fields) = "1" then (OracleFail "the server panicked", None)
  else if i "delta" > i "bound" then
    (OracleFail (Printf.sprintf "one message caused %d bytes to be allocated, bound for limit %d is %d" (i "delta") (i "limit") (i "bound")), None)
  else (Ok_, None)

(* C10: a body streamed in full (up to 4 GiB): the message types the server sent behind it *)
let check_streamed (fields : sexp list) : verdict * string option =
  let b k = atom (field1 k fields) = "1" in
  let want = atom (field1 "want" fields) and got = atom (field1 "got" fields) in
  if b "panic" then (OracleFail "the server panicked", None)
  else if b "hang" then (OracleFail "the connection did not end", None)
  else if want <> got then
    (OracleFail (Printf.sprintf "a message of %s body bytes under limit %s: the replies behind it are %s (hex), expected %s = E Z | Z | T D C Z: the body was not skipped in full and answered with one non-fatal error"
                   (atom (field1 "size" fields)) (atom (field1 "limit" fields)) got want), None)
  else (Ok_, None)

let nontrivial_other (fields : sexp list) : string option = Some (show_sexp (L fields))
