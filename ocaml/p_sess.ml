open Model
open Base
open Sess
type string = Stdlib.String.t

(* SESS: pure correspondence (no property oracle) — used while developing the model *)
let check (fields : sexp list) : verdict * string option =
  let r = run_sess fields in
  (correspondence fields r, cross_of r)

let nontrivial (fields : sexp list) : string option =
  let o = field "obs" fields in
  match field "events" o with
  | [] -> None
  | _ -> Some (Digest.to_hex (Digest.string (show_sexp (L (field "cfg" fields)) ^ atom (field1 "raw" fields))))
