open Model
open Base
open Sess
type string = Stdlib.String.t

(* SESS: pure correspondence (no property oracle) — used while developing the model *)
let check (fields : sexp list) : verdict * string option =
  let r = run_sess fields in
  (correspondence fields r, cross_of r)

(* non-trivial: the client sent something after its first packet (or a callback
   ran); distinct: by configuration and client byte stream *)
let nontrivial (fields : sexp list) : string option =
  let o = field "obs" fields in
  let raw = atom (field1 "raw" fields) in
  let n = (String.length raw - 1) / 2 in
  let first_len =
    if n < 4 then max_int
    else int_of_string ("0x" ^ String.sub raw 1 8) in
  if field "events" o <> [] || n > first_len then
    Some (Digest.to_hex (Digest.string (show_sexp (L (field "cfg" fields)) ^ raw)))
  else None

(* property checks: the oracle on the implementation's log first (a failing
   oracle is a concrete counterexample), then the correspondence with the model *)
let check_with (needs_lock : bool) (oracle : scase -> ev list -> bool) (fields : sexp list) : verdict * string option =
  let r = run_sess fields in
  let cross = cross_of r in
  match r.impl with
  | None -> (OracleFail "implementation output is not a well-formed backend message stream", cross)
  | Some il ->
      if r.obs_.hang then (OracleFail "implementation hangs (no reply / connection not ended within the timeout)", cross)
      else if (is_lock fields || not needs_lock) && not (oracle r.case_ il) then
        (OracleFail (Printf.sprintf "property oracle rejects the observed log (rule %s)\n    impl:  %s\n    model: %s"
                       (string_of_z (turn_verdict r.case_ il).t_why ^ "/" ^ string_of_z (names_verdict r.case_ il).ns_why) (show_log il)
                       (show_log (if is_lock fields then r.model else strip_consume r.model))), cross)
      else (correspondence fields r, cross)

(* the parse function is handed only texts the client sent as the query of a complete Query or Parse message
   within the limit, each at most once and in order (nothing out of a skipped, truncated or malformed message,
   nothing twice): the texts seen by the parser are a subsequence of the texts sent *)
let parse_budget (sc : scase) (il : ev list) : string option =
  (* [oracle_parse_budget] is extracted from Coq (and proven of the model); the numbers are for the report only *)
  if oracle_parse_budget sc il then None
  else
    let seen = List.length (List.filter (function CbParse _ -> true | _ -> false) il) in
    let sent = List.length (List.filter (fun f -> query_of f <> None) (client_frames sc)) in
    Some (Printf.sprintf "the parse function was called with %d texts that are not, in order, query texts of complete Query/Parse messages within the limit (%d such messages were sent)" seen sent)
(* likewise for COPY data: the payloads handed to a handler are, in order and each at most once, bodies of complete
   CopyData messages within the limit that the client sent *)
let data_budget (sc : scase) (il : ev list) : string option =
  (* [oracle_data_budget] is extracted from Coq (and proven of the model); the numbers are for the report only *)
  if oracle_data_budget sc il then None
  else
    let sent = List.length (List.filter (function FMsg (t, _) when int_of_byte t = 100 -> true | _ -> false) (client_frames sc)) in
    let seen = List.length (List.filter (function CbOp (OData _) -> true | _ -> false) il) in
    Some (Printf.sprintf "a COPY handler was handed %d payloads that are not, in order, bodies of the %d complete CopyData messages the client sent" seen sent)
let with_budget (check : sexp list -> verdict * string option) (fields : sexp list) : verdict * string option =
  let (v, cross) = check fields in
  match v with
  | OracleFail _ -> (v, cross)
  | _ ->
      let r = run_sess fields in
      (match r.impl with
       | Some il when not r.obs_.sslreq ->
           (match parse_budget r.case_ il with
            | Some why -> (OracleFail why, cross)
            | None -> (match data_budget r.case_ il with
                       | Some why -> (OracleFail why, cross)
                       | None -> (v, cross)))
       | _ -> (v, cross))
let check_C05 = check_with true oracle_C05
let check_C06 = with_budget (check_with true oracle_turns)
let check_C01 (fields : sexp list) : verdict * string option =
  if field_opt "serverclosed" fields = None then check_with false oracle_C01 fields
  else
    (* the server had been closed before this connection was served: the authentication oracle alone (the model
       knows no shutdown; what a closing server does with an authenticated connection belongs to C16) *)
    let r = run_sess fields in
    match r.impl with
    | None -> (OracleFail "implementation output is not a well-formed backend message stream", None)
    | Some il ->
        if r.obs_.sslreq then
          (* behind an SSLRequest the oracle's view of the startup packet does not apply: no session events at all
             unless a validation accepted *)
          let accepted = List.exists (function CbValidate _ -> true | _ -> false) il in
          let session = List.exists (function Out (BParamStatus _) | Out (BReady _) | CbMw _ | CbParse _ | CbExec _ -> true | _ -> false) il in
          if session && not accepted then (OracleFail "a closing server gave a session to a connection whose credentials no validator was asked about", None)
          else (Ok_, None)
        else if not (oracle_C01 r.case_ il) then
          (OracleFail (Printf.sprintf "a closing server: the authentication oracle rejects the observed log\n    impl:  %s" (show_log il)), None)
        else (Ok_, None)
let check_C12 = check_with false oracle_C12
let check_C07 = check_with true oracle_names
let check_C08 = check_with true oracle_names
(* sessions behind an SSLRequest (inside TLS, or continued in plaintext after 'N'): no callback is ever handed a
   query text longer than the limit (a concrete counterexample), then the turn-wise correspondence of C11 *)
let check_C10_tls (fields : sexp list) : verdict * string option =
  let c0 = case_of fields in
  let o = obs_of fields in
  let lim = eff_limit c0.sc_limit in
  let too_long q = List.length q + 1 > int_of_z lim in
  if List.exists (fun (_, _, e) -> match e with CbParse q -> too_long q | _ -> false) o.events then
    (OracleFail (Printf.sprintf "a message above the configured limit of %s bytes was buffered and handed to the parse callback (session behind an SSLRequest)" (string_of_z lim)), None)
  else begin
    (* conversely: with the session alive to its Terminate, exactly the Query / Parse texts of the messages
       within the limit reach the parser, in order (a message within the limit is never refused) *)
    let tlo = field "tlsobs" fields in
    let hs_ok = atom (field1 "handshake" tlo) = "ok" || not c0.sc_tls in
    let tlsin = (match c0.sc_tlsin with Some b -> b | None -> []) in
    let after_su = (match untyped c0.sc_limit tlsin with Some (_, rest) -> Some rest | None -> None) in
    match after_su with
    | Some rest when hs_ok && not o.hang ->
        let (fs, _) = frames c0.sc_limit rest in
        let fs = (match c0.sc_auth, fs with Some _, _ :: r -> r | _, l -> l) in
        let tb t = int_of_byte t in
        let expected = List.filter_map (function
          | FMsg (t, body) when tb t = 81 -> (match take_cstr body with Some (q, _) -> Some q | None -> None)
          | FMsg (t, body) when tb t = 80 ->
              (match take_cstr body with Some (_, l1) -> (match take_cstr l1 with Some (q, _) -> Some q | None -> None) | None -> None)
          | _ -> None) fs in
        let well_formed = List.for_all (function FMsg _ | FOver (_, _, None) -> true | _ -> false) fs in
        let ended_by_terminate = (match List.rev fs with FMsg (t, _) :: _ -> tb t = 88 | _ -> false) in
        let observed = List.filter_map (fun (_, _, e) -> match e with CbParse q -> Some q | _ -> None) o.events in
        let short b = let a = atom_of_bytes b in if String.length a > 40 then String.sub a 0 40 ^ "..(" ^ string_of_int (List.length b) ^ " bytes)" else a in
        if well_formed && ended_by_terminate && expected <> observed then
          (OracleFail (Printf.sprintf "behind the SSLRequest the parser saw [%s] while the messages within the limit of %s bytes carry [%s]"
                         (String.concat "; " (List.map short observed)) (string_of_z lim) (String.concat "; " (List.map short expected))), None)
        else P_c11.check fields
    | _ -> P_c11.check fields
  end
(* every CopyIn call of a handler that succeeded was announced: the result "ok" of a CopyIn operation is preceded
   immediately by this call's own CopyInResponse. The operations of the running statement are followed along its
   program (looked up by the id the CbExec event carries; skipped when two configured statements share an id). *)
let copyin_announced (sc : scase) (il : ev list) : bool =
  let stmts = List.concat_map (fun (_, r) -> match r with POk ss -> ss | PErr _ -> []) sc.sc_parse in
  let prog_of id = (match List.filter (fun s -> s.s_id = id) stmts with
    | [] -> None
    | s :: rest -> if List.for_all (fun s' -> s'.s_prog = s.s_prog) rest then Some s.s_prog else None) in
  let rec go prev pending = function
    | [] -> true
    | (CbExec (id, _) as e) :: r -> go (Some e) (prog_of id) r
    | (CbOp res as e) :: r ->
        (match pending with
         | Some (o :: ops) ->
             let ok = (match o, res with
               | HCopyIn _, OOk -> (match prev with Some (Out (BCopyIn _)) -> true | _ -> false)
               | _ -> true) in
             ok && go (Some e) (Some ops) r
         | _ -> go (Some e) pending r)
    | Consume :: r -> go prev pending r
    | e :: r -> go (Some e) pending r in
  go None None il
let check_C13 = check_with true (fun sc log -> oracle_C13 sc log && oracle_C13_turns sc log && oracle_C13_strict sc log && oracle_early_end sc log && oracle_early_scan sc log && copyin_announced sc log)
let has_copy (sc : scase) : bool =
  List.exists (fun (_, r) -> match r with
    | POk ss -> List.exists (fun s -> List.exists (function HCopyIn _ | HCopyRead -> true | _ -> false) s.s_prog) ss
    | PErr _ -> false) sc.sc_parse
(* a client stream delivered in any segmentation (also all in one write) that consists of Sync and Flush messages
   within the limit and of rejected messages (oversized and present in full, or with a length below the minimum):
   every Sync is answered by its ReadyForQuery — a rejected message is skipped in exactly its declared length and what follows it is served *)
let syncs_answered (sc : scase) (il : ev list) : bool =
  if sc.sc_auth <> None || sc.sc_tls then true else
  match untyped sc.sc_limit sc.sc_raw with
  | Some (_, rest) ->
      let (fs, _) = frames sc.sc_limit rest in
      (* [plain_frame], [syncs], [readies]: extracted from Spec/Oracles.v; for logs with one turn per frame the bound is
         a theorem about every log the reply-discipline oracle accepts and about the model
         (Props/C10.v, C10_accepted_logs_answer_every_sync / C10_rejected_messages_swallow_nothing); here it is
         applied to the whole log of a stream delivered in any segmentation, the startup's ReadyForQuery included *)
      let complete = List.for_all plain_frame fs in
      let syncs = int_of_nat (syncs fs) in
      let readies = int_of_nat (readies il) in
      (not complete) || readies >= 1 + syncs
  | None -> true
let check_C10 fields =
  if field_opt "tlsobs" fields <> None then check_C10_tls fields else
  (* configurations with COPY handlers are outside [oracle_C10] (its model theorem assumes none): the oversized
     messages inside a COPY are judged by the COPY oracles *)
  if has_copy (case_of fields) then check_C13 fields else
  (* lock-step cases: the per-message discipline; all cases: a startup packet within the limit is served *)
  check_with false (fun sc log -> if is_lock fields then oracle_C10 sc log else startup_served sc log && syncs_answered sc log) fields
let check_C19 fields =
  if field_opt "tlsobs" fields <> None then P_c11.check fields else
  if field_opt "serverclosed" fields <> None then begin
    (* the server had been closed before this connection was served: the lifecycle oracle alone (the model knows no
       shutdown); whether commands are still admitted belongs to C16 *)
    let r = run_sess fields in
    match r.impl with
    | None -> (OracleFail "implementation output is not a well-formed backend message stream", None)
    | Some il ->
        if oracle_C19 r.case_ il then (Ok_, None)
        else (OracleFail (Printf.sprintf "a closing server: the lifecycle oracle rejects the observed log (middlewares run once, in order, before the first ReadyForQuery; a failing one ends the connection)\n    impl:  %s" (show_log il)), None)
  end else
  (* lock-step cases are also judged by the per-message discipline (Terminate rule) *)
  check_with false (fun sc log -> oracle_C19 sc log && (not (is_lock fields) || oracle_turns sc log)) fields
let check_C02 fields =
  (* sessions behind an SSLRequest with a completed handshake: the secure stream is judged as the C11 transcript is *)
  if field_opt "tlsobs" fields <> None then P_c11.check fields else
  check_with false (fun _ _ -> true) fields   (* the oracle is the strict grammar itself: an unparsable output is an oracle failure *)
(* every ParameterDescription announces exactly the declared parameter types of a configured statement *)
let paramdesc_from_config (sc : scase) (il : ev list) : bool =
  let stmts = List.concat_map (fun (_, r) -> match r with POk ss -> ss | PErr _ -> []) sc.sc_parse in
  let two32 = z_of_atom "4294967296" in
  let norm l = List.map (fun o -> Z.modulo o two32) l in
  List.for_all (function
    | Out (BParamDesc l) -> List.exists (fun s -> norm s.s_poids = l) stmts
    | _ -> true) il
(* several connections on one server: each is judged on its own (the reply discipline, and the validator is asked
   about this connection's own database, user and password) *)
let alone_first : (string, string) Hashtbl.t = Hashtbl.create 256
let check_C15 (fields : sexp list) : verdict * string option =
  if field_opt "tlsobs" fields <> None then P_c11.check fields else
  let (v, cross) = check_with true (fun sc log -> oracle_turns sc log && (sc.sc_auth = None || oracle_C01 sc log) && paramdesc_from_config sc log) fields in
  match v with
  | OracleFail _ -> (v, cross)
  | _ ->
      (* the connection served next to others (id G.k) and the same traffic served alone by a server of its own
         (id G.k.alone): the same transcript and callback trace (ParameterStatus blocks compared as sets) *)
      let r = run_sess fields in
      let id = !cur_id in
      let suffix = ".alone" in
      let n = String.length id and m = String.length suffix in
      let group = if n > m && String.sub id (n - m) m = suffix then String.sub id 0 (n - m) else id in
      let canon (l : ev list) : string =
        let rec go acc blk = function
          | (Out (BParamStatus _) as e) :: r -> go acc (show_ev e :: blk) r
          | e :: r -> go (show_ev e :: (List.rev (List.sort compare blk)) @ acc) [] r
          | [] -> List.rev ((List.rev (List.sort compare blk)) @ acc) in
        String.concat " " (go [] [] l) in
      (match r.impl with
       | None -> (v, cross)
       | Some l ->
           let log = canon l in
           (match Hashtbl.find_opt alone_first group with
            | None -> Hashtbl.replace alone_first group log; (v, cross)
            | Some first ->
                if first <> log then
                  (OracleFail (Printf.sprintf "a connection served next to other connections has another transcript than the same client traffic served alone\n    %s: %s\n    other: %s"
                                 (if group = id then "next to others" else "alone") log first), cross)
                else (v, cross)))

(* C03: the variants of one byte stream (ids <n>.v<k>) must produce the identical log *)
let seg_first : (string, string) Hashtbl.t = Hashtbl.create 1024
let check_C03 (fields : sexp list) : verdict * string option =
  (* with authentication configured: the validator is asked about exactly what the password message holds *)
  let (v, cross) = check_with false (fun sc log -> sc.sc_auth = None || oracle_C01 sc log) fields in
  match v with
  | OracleFail _ -> (v, cross)
  | _ ->
      let r = run_sess fields in
      let id = !cur_id in
      (* variants of one stream are named <group>.v<k>; any other id stands for itself *)
      let group = (try let i = String.index id '.' in if i + 1 < String.length id && id.[i + 1] = 'v' then String.sub id 0 i else id with Not_found -> id) in
      (* Go map iteration order is unspecified: ParameterStatus blocks are compared as sets *)
      let canon (l : ev list) : string =
        let rec go acc blk = function
          | (Out (BParamStatus _) as e) :: r -> go acc (show_ev e :: blk) r
          | e :: r -> go (show_ev e :: (List.rev (List.sort compare blk)) @ acc) [] r
          | [] -> List.rev ((List.rev (List.sort compare blk)) @ acc) in
        String.concat " " (go [] [] l) in
      let log = (match r.impl with Some l -> canon l | None -> "unparsable") in
      (match Hashtbl.find_opt seg_first group with
       | None -> Hashtbl.replace seg_first group log; (v, cross)
       | Some first ->
           if first <> log then
             (OracleFail (Printf.sprintf "the same byte stream delivered in another segmentation gives a different transcript\n    this:  %s\n    first: %s" log first), cross)
           else (v, cross))
(* C11, server without certificates: the variants of a group are one client stream with and without a leading
   SSLRequest, in several segmentations. The request is answered with the single byte 'N' and everything behind
   it is the transcript of the stream without the request. *)
let declined_first : (string, string) Hashtbl.t = Hashtbl.create 64
let check_C11 (fields : sexp list) : verdict * string option =
  if field_opt "tlsobs" fields <> None then P_c11.check fields else
  let (v, cross) = check_with false (fun _ _ -> true) fields in
  match v with
  | OracleFail _ -> (v, cross)
  | _ ->
      let r = run_sess fields in
      let id = !cur_id in
      let group = (try String.sub id 0 (String.index id '.') with Not_found -> id) in
      let is_ref = (try String.sub id (String.index id '.') (String.length id - String.index id '.') = ".v0" with Not_found -> true) in
      let canon (l : ev list) : string =
        let rec go acc blk = function
          | (Out (BParamStatus _) as e) :: r -> go acc (show_ev e :: blk) r
          | e :: r -> go (show_ev e :: (List.rev (List.sort compare blk)) @ acc) [] r
          | [] -> List.rev ((List.rev (List.sort compare blk)) @ acc) in
        String.concat " " (go [] [] l) in
      (match r.impl with
       | None -> (v, cross)
       | Some l ->
           let n_ok, rest = (match l with
             | RawOut b :: tl when int_of_byte b = 78 -> (true, tl)
             | _ -> (is_ref, l)) in
           (* the Consume markers count client segments, not messages: they are not part of the transcript *)
           let log = canon (List.filter (function Consume -> false | _ -> true) rest) in
           if not n_ok then (OracleFail "an SSLRequest on a server without certificates was not answered with the single byte 'N'", cross)
           else (match Hashtbl.find_opt declined_first group with
             | None -> Hashtbl.replace declined_first group log; (v, cross)
             | Some first ->
                 if first <> log then
                   (OracleFail (Printf.sprintf "after the refusal 'N' the plaintext the client had already sent was not served like the same stream without the SSLRequest\n    this:  %s\n    plain: %s" log first), cross)
                 else (v, cross)))
let check_C18 = check_with false (fun _ _ -> true)
let check_C09 = check_with false oracle_C09
(* C04: no crash, no hang, the connection ends (the oracle), and the log equals the model's (in particular: no callback with fabricated data) *)
let check_C04 = with_budget @@ check_with false (fun _ log -> List.for_all (function Crash | OutOfFuel -> false | _ -> true) log && List.exists (function Closed -> true | _ -> false) log)
