(* driver.ml <PROP> <obs file> <result file> <cross .v file> <cross sample size>
   For every observation line: run the extracted model, evaluate the oracle on
   the implementation's observation, compare projections. *)
open Base

type prop = {
  tag : string;
  check : sexp list -> verdict * string option;
  cross_header : string; cross_footer : string;
  nontrivial : sexp list -> string option;
}

let sess_prop check nontrivial = { tag = "sess"; check; cross_header = Sess.sess_cross_header;
  cross_footer = Sess.sess_cross_footer; nontrivial }

let props : (string * prop) list = [
  "C17", { tag = "c17"; check = P_c17.check; cross_header = P_c17.cross_header;
           cross_footer = P_c17.cross_footer; nontrivial = P_c17.nontrivial };
  "SESS", sess_prop P_sess.check P_sess.nontrivial;
  "C02", sess_prop P_sess.check_C02 P_sess.nontrivial;
  "C02", { tag = "wops"; check = P_c02.check_wops; cross_header = ""; cross_footer = ""; nontrivial = P_c02.nontrivial_wops };
  "C15", sess_prop P_sess.check_C15 P_sess.nontrivial;
  "C04", sess_prop P_sess.check_C04 P_sess.nontrivial;
  "C04", { tag = "wf"; check = P_c04.check_wf; cross_header = ""; cross_footer = ""; nontrivial = P_c04.nontrivial_other };
  "C04", { tag = "alloc"; check = P_c04.check_alloc; cross_header = ""; cross_footer = ""; nontrivial = P_c04.nontrivial_other };
  "C04", { tag = "c20"; check = (fun f -> (fst (P_c20.check f), None)); cross_header = ""; cross_footer = ""; nontrivial = P_c20.nontrivial };
  "C11", { tag = "sess"; check = P_sess.check_C11; cross_header = ""; cross_footer = "";
           nontrivial = (fun f -> if field_opt "tlsobs" f <> None then P_c11.nontrivial f else P_sess.nontrivial f) };
  "C09", sess_prop P_sess.check_C09 P_sess.nontrivial;
  "C09", { tag = "c09f"; cross_header = ""; cross_footer = "";
           check = (fun f -> (match Sess.b_of (field1 "why" f) with
                              | [] -> (Ok_, None)
                              | w -> (OracleFail ("floats in text format do not round-trip through the client's decoder: " ^
                                                  String.concat "" (List.map (fun b -> String.make 1 (Char.chr (int_of_byte b))) w)), None)));
           nontrivial = (fun f -> Some (show_sexp (L f))) };
  "C14", { tag = "c14"; check = P_c14.check; cross_header = P_c14.cross_header; cross_footer = P_c14.cross_footer; nontrivial = P_c14.nontrivial };
  "C03", sess_prop (P_sess.with_budget P_sess.check_C03) P_sess.nontrivial;
  "C03", { tag = "rd"; check = P_rd.check_results; cross_header = ""; cross_footer = ""; nontrivial = P_rd.nontrivial };
  "C03", { tag = "c14"; check = (fun f -> (fst (P_c14.check f), None)); cross_header = ""; cross_footer = ""; nontrivial = P_c14.nontrivial };
  "C18", sess_prop P_sess.check_C18 P_sess.nontrivial;
  "C18", { tag = "rd"; check = P_rd.check; cross_header = ""; cross_footer = ""; nontrivial = P_rd.nontrivial };
  "RD", { tag = "rd"; check = P_rd.check; cross_header = ""; cross_footer = ""; nontrivial = P_rd.nontrivial };
  "C05", sess_prop P_sess.check_C05 P_sess.nontrivial;
  "C06", sess_prop P_sess.check_C06 P_sess.nontrivial;
  "C01", sess_prop P_sess.check_C01 P_sess.nontrivial;
  "C12", sess_prop P_sess.check_C12 P_sess.nontrivial;
  "C07", sess_prop P_sess.check_C07 P_sess.nontrivial;
  "C08", sess_prop P_sess.check_C08 P_sess.nontrivial;
  "C10", sess_prop P_sess.check_C10 P_sess.nontrivial;
  "C10", { tag = "c14"; check = (fun f -> (fst (P_c14.check f), None)); cross_header = ""; cross_footer = ""; nontrivial = P_c14.nontrivial };
  "C10", { tag = "c10huge"; check = P_c04.check_streamed; cross_header = ""; cross_footer = ""; nontrivial = P_c04.nontrivial_other };
  "C13", sess_prop P_sess.check_C13 P_sess.nontrivial;
  "C13", { tag = "c14"; check = (fun f -> (fst (P_c14.check f), None)); cross_header = ""; cross_footer = ""; nontrivial = P_c14.nontrivial };
  "C19", sess_prop P_sess.check_C19 P_sess.nontrivial;
  "C20", { tag = "c20"; check = P_c20.check; cross_header = P_c20.cross_header;
           cross_footer = P_c20.cross_footer; nontrivial = P_c20.nontrivial };
  "C20", { tag = "sess"; check = (fun f -> (fst (P_sess.check_C08 f), None)); cross_header = ""; cross_footer = ""; nontrivial = P_sess.nontrivial };
]

let () =
  let pname = Sys.argv.(1) and obs = Sys.argv.(2) and resf = Sys.argv.(3)
  and crossf = Sys.argv.(4) and nsample = int_of_string Sys.argv.(5) in
  let ps = List.filter (fun (n, _) -> n = pname) props in
  let p = snd (List.hd ps) in
  let ic = open_in obs in
  let oc = open_out resf in
  let total = ref 0 and ok = ref 0 and ofail = ref 0 and diff = ref 0 in
  let seen = Hashtbl.create 1024 in
  let crosses = ref [] in
  (try while true do
    let line = input_line ic in
    if String.length line > 0 then
    match parse_sexp line with
    | L (A "stat" :: A k :: A v :: _) -> Printf.fprintf oc "STAT %s %s\n" k v
    | L (A t :: A id :: A cls :: fields) when List.exists (fun (_, q) -> q.tag = t) ps ->
        let p = snd (List.find (fun (_, q) -> q.tag = t) ps) in
        Sess.cur_id := id;
        incr total;
        (match p.nontrivial fields with
         | Some key -> Hashtbl.replace seen key ()
         | None -> ());
        let v, cross = (try p.check fields with e -> (OracleFail ("driver exception: " ^ Printexc.to_string e), None)) in
        (* very large cases (65535-entry vectors, multi-megabyte bodies) overflow coqc's parser stack: they are
           checked by the extracted model only, the vm_compute cross-check samples the others *)
        (match cross with Some c when String.length c <= 40000 -> crosses := c :: !crosses | _ -> ());
        (match v with
         | Ok_ -> incr ok
         | OracleFail d -> incr ofail; Printf.fprintf oc "FAIL %s %s oracle %s\n" id cls d
         | Diff d -> incr diff; Printf.fprintf oc "DIFF %s %s %s\n" id cls d)
    | _ -> ()
  done with End_of_file -> ());
  Printf.fprintf oc "SUMMARY total=%d ok=%d oracle_fail=%d diff=%d distinct_nontrivial=%d\n"
    !total !ok !ofail !diff (Hashtbl.length seen);
  close_out oc;
  (* cross-check sample: evenly spaced *)
  let cs = Array.of_list (List.rev !crosses) in
  let n = Array.length cs in
  let oc = open_out crossf in
  let p = (try snd (List.find (fun (_, q) -> q.cross_header <> "") ps) with Not_found -> p) in
  if p.cross_header = "" then begin output_string oc "Definition bad : list nat := nil.\nPrint bad.\n"; close_out oc; exit 0 end;
  output_string oc p.cross_header;
  let k = min nsample n in
  (* coqc parses the sample as one list literal: its total size is bounded as well (evenly spaced cases are taken
     until about 100 kB are reached) *)
  let budget = ref 100000 and first = ref true in
  for i = 0 to k - 1 do
    let j = if k = 0 then 0 else i * n / k in
    let c = cs.(j) in
    if String.length c <= !budget then begin
      budget := !budget - String.length c;
      output_string oc ((if !first then "  " else ";\n  ") ^ c);
      first := false
    end
  done;
  output_string oc "\n";
  output_string oc p.cross_footer;
  close_out oc
