open Model
open Base
open Sess
type string = Stdlib.String.t

let dval_of (s : sexp) : dval = match s with
  | A "null" -> DNull
  | L [A "int"; n] -> DInt (z_of n)
  | L [A "bool"; b] -> DBool (atom b = "1")
  | L [A "bytes"; b] -> DBytes (b_of b)
  | s -> failwith ("dval: " ^ show_sexp s)
let show_dval = function
  | DNull -> "null" | DInt z -> "(int " ^ string_of_z z ^ ")"
  | DBool b -> if b then "(bool 1)" else "(bool 0)"
  | DBytes b -> "(bytes " ^ atom_of_bytes b ^ ")"
let show_row r = "(row " ^ String.concat " " (List.map show_dval r) ^ ")"
let row_of (s : sexp) : dval list = match s with
  | L (A "row" :: vs) -> List.map dval_of vs
  | s -> failwith ("row: " ^ show_sexp s)

(* group id -> first observed outcome: every split of one stream must give the same result *)
let first_of_group : (string, string) Hashtbl.t = Hashtbl.create 256

let has_sub (s : Stdlib.String.t) (sub : Stdlib.String.t) : bool =
  let n = Stdlib.String.length s and m = Stdlib.String.length sub in
  let rec go i = i + m <= n && (Stdlib.String.sub s i m = sub || go (i + 1)) in
  go 0

let check (fields : sexp list) : verdict * string option =
  let limit = z_of (field1 "limit" fields) in
  let oids = List.map z_of (field "oids" fields) in
  let chunks = List.map b_of (field "chunks" fields) in
  (* "fail": CopyFail; "over": an oversized message — both end the copy with an error where they stand *)
  let ending = if atom (field1 "ending" fields) = "done" then EDone else EAbort in
  let o = field "obs" fields in
  let rows = List.map row_of (field "rows" o) in
  let final = atom (field1 "final" o) in
  let panicked = atom (field1 "panic" o) = "1" and hang = atom (field1 "hang" o) = "1" in
  let (mrows, mfin) = decode_all (eff_limit limit) oids ending chunks in
  let mfinal = (match mfin with CEnd -> "eof" | _ -> "err") in
  let impl_s = String.concat " " (List.map show_row rows) ^ " => " ^ final in
  let model_s = String.concat " " (List.map show_row mrows) ^ " => " ^ mfinal in
  let id = !cur_id in
  let group = (try String.sub id 0 (String.index id '.') with Not_found -> id) in
  let same_as_first = (match Hashtbl.find_opt first_of_group group with
    | None -> Hashtbl.replace first_of_group group impl_s; true
    | Some f -> f = impl_s) in
  let expect_ok = (match field1 "expect" fields with
    | A "none" -> true
    | L (A "rows" :: es) -> final = "eof" && List.map row_of es = rows
    | _ -> true) in
  if panicked then (OracleFail "the server panicked while reading binary COPY data", None)
  else if hang then (OracleFail "the connection did not end", None)
  else if final = "retained-row-changed" then (OracleFail "a row the handler had read and kept changed its content while later rows were read", None)
  else if (match List.filter_map (function L [A "must"; A m] -> Some m | _ -> None) fields with "err" :: _ -> true | _ -> false) && final <> "err" then
    (OracleFail ("a stream cut inside a row, interrupted by a message above the limit or aborted with CopyFail was reported as complete: " ^ impl_s), None)
  else if atom (field1 "ending" fields) = "over" && (final = "err" || final = "reader-error") && not (has_sub (Stdlib.String.concat "" (List.map (fun b -> Stdlib.String.make 1 (Char.chr (int_of_byte b))) (b_of (field1 "out" o)))) "C54000\000") then
    (OracleFail ("the copy was interrupted by a message above the limit, and the error reported for it is not of class 54000 (program_limit_exceeded): " ^ impl_s), None)
  else if not expect_ok then (OracleFail ("the rows returned differ from the rows the client encoded: " ^ impl_s), None)
  else if not same_as_first then (OracleFail ("another split of the same stream into CopyData messages gives a different result: " ^ impl_s ^ "  vs  " ^ (Hashtbl.find first_of_group group)), None)
  else
  let cq_dval = function
    | DNull -> "DNull" | DInt z -> "(DInt " ^ cq_z z ^ ")" | DBool b -> "(DBool " ^ cq_bool b ^ ")"
    | DBytes b -> "(DBytes " ^ cq_bytes b ^ ")" in
  let cross =
    if List.length (List.concat chunks) > 300 then None else
    Some (Printf.sprintf "(%s, %s, %s, %s, (%s, %s))" (cq_z limit) (cq_list cq_z oids)
            (match ending with EDone -> "EDone" | EAbort -> "EAbort") (cq_list cq_bytes chunks)
            (cq_list (cq_list cq_dval) mrows) (match mfin with CEnd -> "CEnd" | CFail -> "CFail" | CRow _ -> "CFail")) in
  if impl_s <> model_s then (Diff (Printf.sprintf "impl:  %s\n    model: %s" impl_s model_s), cross)
  else (Ok_, cross)

let cross_header = "Require Import Wire.Bytes Wire.Framing Wire.Transport Wire.Copy.\nFrom Coq Require Import String.\nLocal Open Scope string_scope.\nLocal Open Scope list_scope.\nLocal Open Scope Z_scope.\nDefinition cases : list (Z * list Z * ending * list bytes * (list (list dval) * rowres)) := [\n"
let cross_footer = "].\nDefinition dval_eqb (a b : dval) : bool := match a, b with DNull, DNull => true | DInt x, DInt y => x =? y | DBool x, DBool y => Bool.eqb x y | DBytes x, DBytes y => bytes_eqb x y | _, _ => false end.\nFixpoint leqb {A} (e : A -> A -> bool) (a b : list A) : bool := match a, b with [], [] => true | x :: a', y :: b' => e x y && leqb e a' b' | _, _ => false end.\nDefinition res_eqb (a b : list (list dval) * rowres) : bool := leqb (leqb dval_eqb) (fst a) (fst b) && match snd a, snd b with CEnd, CEnd => true | CFail, CFail => true | _, _ => false end.\nDefinition bad := Eval vm_compute in\n  map (fun c => fst (fst (fst (fst c)))) (filter (fun c => match c with (L, oids, e, chunks, expected) => negb (res_eqb (decode_all (eff_limit L) oids e chunks) expected) end) cases).\nPrint bad.\n"

let nontrivial (fields : sexp list) : string option =
  match field "chunks" fields with
  | [] -> None
  | cs -> Some (Digest.to_hex (Digest.string (show_sexp (L cs) ^ show_sexp (L (field "oids" fields)) ^ atom (field1 "ending" fields))))
