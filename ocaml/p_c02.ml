open Model
open Base
open Sess
type string = Stdlib.String.t

(* (wops id class (ops ...) (broken b) (writes x..) (results ok err ..) (panic b)) *)
let wop_of (s : sexp) : wop = match s with
  | L [A "start"; n] -> WStart (byte_of_int (int_of_string (atom n)))
  | L [A "byte"; n] -> WByte (byte_of_int (int_of_string (atom n)))
  | L [A "i16"; n] -> WInt16 (z_of n)
  | L [A "i32"; n] -> WInt32 (z_of n)
  | L [A "bytes"; b] -> WBytes (b_of b)
  | L [A "str"; b] -> WBytes (b_of b)
  | A "nul" -> WNul | A "end" -> WEnd | A "reset" -> WReset
  | s -> failwith ("wop: " ^ show_sexp s)

let check_wops (fields : sexp list) : verdict * string option =
  let ops = List.map wop_of (field "ops" fields) in
  let broken = atom (field1 "broken" fields) = "1" in
  let writes = List.map b_of (field "writes" fields) in
  let results = List.map atom (field "results" fields) in
  let panicked = atom (field1 "panic" fields) = "1" in
  let w0 = { w_frame = []; w_latch = false; w_sink = []; w_broken = broken } in
  let (w', rs) = wrun w0 ops in
  let mres = List.map (function WOk -> "ok" | WErr -> "err" | WPanic -> "panic") rs in
  let mpanic = List.mem "panic" mres in
  (* oracle: what reached the transport is, in total, a concatenation of complete, correctly framed messages
     (the transport of this class accepts everything or fails every write, so how the Writer cuts a message
     into Write calls cannot leave a partial message in front of the next one) *)
  let rec drop n l = if n = 0 then Some l else match l with [] -> None | _ :: t -> drop (n - 1) t in
  let rec framed (w : byte list) = match w with
    | [] -> true
    | _ :: a :: b :: c :: d :: body ->
        let n = (int_of_byte a lsl 24) lor (int_of_byte b lsl 16) lor (int_of_byte c lsl 8) lor int_of_byte d in
        n >= 4 && (match drop (n - 4) body with Some rest -> framed rest | None -> false)
    | _ -> false in
  let sent = List.concat writes in
  if field_opt "failat" fields <> None then begin
    (* a transient fault (one Write call failed and delivered nothing, the calls went on): the writer model knows the
       permanently broken transport only, so this class is judged by the oracle alone *)
    if panicked then (OracleFail "the Writer panicked after a Write call of the transport had failed", None)
    else if not (framed sent) then
      (OracleFail "one Write call of the transport failed (delivering nothing) and the bytes delivered before and after it are not a concatenation of complete length-framed messages: part of a message reached the transport without the rest", None)
    else (Ok_, None)
  end else
  if not mpanic && (panicked || not (framed sent)) then
    (OracleFail "the bytes that reached the transport are not a concatenation of complete length-framed messages (or the Writer panicked)", None)
  else if mpanic <> panicked || (not mpanic && (List.concat w'.w_sink <> sent || mres <> results)) then
    (Diff (Printf.sprintf "writer model and implementation differ: model %d bytes %s, impl %d bytes %s"
             (List.length (List.concat w'.w_sink)) (String.concat "," mres) (List.length sent) (String.concat "," results)), None)
  else (Ok_, None)

let nontrivial_wops (fields : sexp list) : string option =
  if List.length (field "ops" fields) >= 3 then Some (show_sexp (L (field "ops" fields)) ^ atom (field1 "broken" fields)) else None
