open Model
open Base
open Sess
type string = Stdlib.String.t

(* (wops id class (ops ...) (broken b) (writes x..) (results ok err ..) (panic b)) *)
let wop_of (s : sexp) : wop = match s with
  | L [A "start"; n] -> WStart (byte_of_int (int_of_string (atom n)))
  | L [A "byte"; n] -> WByte (byte_of_int (int_of_string (atom n)))
  | L [A "i16"; n] -> WInt16 (z_of n)
  | L [A "i32"; n] -> WInt32 (z_of n)
  | L [A "bytes"; b] -> WBytes (b_of b)
  | L [A "str"; b] -> WBytes (b_of b)
  | A "nul" -> WNul | A "end" -> WEnd | A "reset" -> WReset
  | s -> failwith ("wop: " ^ show_sexp s)

let check_wops (fields : sexp list) : verdict * string option =
  let ops = List.map wop_of (field "ops" fields) in
  let broken = atom (field1 "broken" fields) = "1" in
  let writes = List.map b_of (field "writes" fields) in
  let results = List.map atom (field "results" fields) in
  let panicked = atom (field1 "panic" fields) = "1" in
  let w0 = { w_frame = []; w_latch = false; w_sink = []; w_broken = broken } in
  let (w', rs) = wrun w0 ops in
  let mres = List.map (function WOk -> "ok" | WErr -> "err" | WPanic -> "panic") rs in
  let mpanic = List.mem "panic" mres in
  (* oracle: every write that reached the transport is one complete, correctly framed message *)
  let framed (w : byte list) = match w with
    | _ :: a :: b :: c :: d :: body ->
        (int_of_byte a lsl 24) lor (int_of_byte b lsl 16) lor (int_of_byte c lsl 8) lor int_of_byte d = 4 + List.length body
    | _ -> false in
  if not mpanic && (panicked || not (List.for_all framed writes)) then
    (OracleFail "a write that reached the transport is not one complete length-framed message (or the Writer panicked)", None)
  else if mpanic <> panicked || (not mpanic && (w'.w_sink <> writes || mres <> results)) then
    (Diff (Printf.sprintf "writer model and implementation differ: model %d writes %s, impl %d writes %s"
             (List.length w'.w_sink) (String.concat "," mres) (List.length writes) (String.concat "," results)), None)
  else (Ok_, None)

let nontrivial_wops (fields : sexp list) : string option =
  if List.length (field "ops" fields) >= 3 then Some (show_sexp (L (field "ops" fields)) ^ atom (field1 "broken" fields)) else None
