(* base.ml — S-expression reader, conversions between OCaml values and the
   extracted Coq datatypes. *)
open Model
type string = Stdlib.String.t

type sexp = A of string | L of sexp list

let parse_sexp (s : string) : sexp =
  let n = String.length s in
  let pos = ref 0 in
  let rec skip () = while !pos < n && (s.[!pos] = ' ' || s.[!pos] = '\t' || s.[!pos] = '\n') do incr pos done
  and item () =
    skip ();
    if !pos >= n then failwith "sexp: eof"
    else if s.[!pos] = '(' then begin
      incr pos;
      let acc = ref [] in
      let fin = ref false in
      while not !fin do
        skip ();
        if !pos >= n then failwith "sexp: unclosed"
        else if s.[!pos] = ')' then (incr pos; fin := true)
        else acc := item () :: !acc
      done;
      L (List.rev !acc)
    end else begin
      let st = !pos in
      while !pos < n && s.[!pos] <> ' ' && s.[!pos] <> '(' && s.[!pos] <> ')' && s.[!pos] <> '\n' do incr pos done;
      A (String.sub s st (!pos - st))
    end
  in
  item ()

let rec show_sexp = function
  | A a -> a
  | L l -> "(" ^ String.concat " " (List.map show_sexp l) ^ ")"

(* field lookup: (tag v...) inside a list *)
let field (tag : string) (l : sexp list) : sexp list =
  let rec go = function
    | [] -> failwith ("missing field " ^ tag)
    | L (A t :: r) :: _ when t = tag -> r
    | _ :: r -> go r
  in go l
let field_opt tag l = try Some (field tag l) with Failure _ -> None
let atom = function A a -> a | s -> failwith ("atom expected: " ^ show_sexp s)
let field1 tag l = match field tag l with [x] -> x | _ -> failwith ("field arity " ^ tag)

(* bytes *)
let tbl : byte array = Array.of_list all_bytes
let () =
  assert (Array.length tbl = 256);
  Array.iteri (fun i b -> assert ((Obj.magic b : int) = i)) tbl
let byte_of_int (i : int) : byte = tbl.(i land 255)
let int_of_byte (b : byte) : int = (Obj.magic b : int)

let hexv c = match c with
  | '0'..'9' -> Char.code c - 48
  | 'a'..'f' -> Char.code c - 87
  | 'A'..'F' -> Char.code c - 55
  | _ -> failwith "hex"
(* "x<hex>" -> byte list *)
let bytes_of_atom (a : string) : byte list =
  if String.length a = 0 || a.[0] <> 'x' then failwith ("bytes atom: " ^ a);
  let n = (String.length a - 1) / 2 in
  let rec go i acc = if i < 0 then acc else
    go (i-1) (byte_of_int (hexv a.[1+2*i] * 16 + hexv a.[2+2*i]) :: acc) in
  go (n-1) []
let hexd = "0123456789abcdef"
let atom_of_bytes (l : byte list) : string =
  let b = Buffer.create 16 in
  Buffer.add_char b 'x';
  List.iter (fun x -> let i = int_of_byte x in
    Buffer.add_char b hexd.[i lsr 4]; Buffer.add_char b hexd.[i land 15]) l;
  Buffer.contents b
let hex_of_bytes l = let a = atom_of_bytes l in String.sub a 1 (String.length a - 1)

(* numbers *)
let rec pos_of_int n =
  if n = 1 then XH else if n land 1 = 0 then XO (pos_of_int (n lsr 1)) else XI (pos_of_int (n lsr 1))
let z_of_int n = if n = 0 then Z0 else if n > 0 then Zpos (pos_of_int n) else Zneg (pos_of_int (-n))
let n_of_int n = if n = 0 then N0 else Npos (pos_of_int n)
let rec int_of_pos = function XH -> 1 | XO p -> 2 * int_of_pos p | XI p -> 2 * int_of_pos p + 1
let int_of_z = function Z0 -> 0 | Zpos p -> int_of_pos p | Zneg p -> - (int_of_pos p)
let int_of_n = function N0 -> 0 | Npos p -> int_of_pos p
let rec nat_of_int n = if n <= 0 then O else S (nat_of_int (n-1))
let rec int_of_nat = function O -> 0 | S n -> 1 + int_of_nat n
(* arbitrary precision decimal <-> Z through the extracted arithmetic *)
let z_of_atom (a : string) : z =
  let neg = String.length a > 0 && a.[0] = '-' in
  let st = if neg then 1 else 0 in
  let ten = z_of_int 10 in
  let acc = ref Z0 in
  for i = st to String.length a - 1 do
    acc := Z.add (Z.mul !acc ten) (z_of_int (Char.code a.[i] - 48))
  done;
  if neg then Z.opp !acc else !acc
let string_of_z (z : z) : string =
  String.concat "" (List.map (fun b -> String.make 1 (Char.chr (int_of_byte b))) (itoa z))

(* result of checking one case *)
type verdict =
  | Ok_
  | OracleFail of string      (* the property's oracle rejects the implementation's observation *)
  | Diff of string            (* oracle accepts, but implementation and model differ on the projection *)
