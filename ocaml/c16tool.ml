(* c16tool gen <seed> <n> <file>          — schedules for the shutdown protocol, generated from the model
   c16tool check <schedules> <obs> <res>  — compare what the real goroutines did with the model
   Schedule items:  (step A)  release actor A whose next step the model enables: it must reach its next point
                    (probe A) release actor A whose next step the model does NOT enable: it must stay blocked
                    (await A) a released, blocked actor has become enabled: it must now reach its next point
   Actors: c<i> closers, w<i> connection goroutines, h the accept helper. *)
open Closemodel

type string = Stdlib.String.t
let rec nat_of_int n = if n <= 0 then O else S (nat_of_int (n-1))
let rec int_of_nat = function O -> 0 | S n -> 1 + int_of_nat n
let rec int_of_pos = function XH -> 1 | XO p -> 2 * int_of_pos p | XI p -> 2 * int_of_pos p + 1
let int_of_z = function Z0 -> 0 | Zpos p -> int_of_pos p | Zneg p -> - (int_of_pos p)

let actor_name = function ACloser i -> "c" ^ string_of_int (int_of_nat i) | AWorker i -> "w" ^ string_of_int (int_of_nat i) | AHelper -> "h"
let actor_of (s : string) = match s.[0] with
  | 'c' -> ACloser (nat_of_int (int_of_string (String.sub s 1 (String.length s - 1))))
  | 'w' -> AWorker (nat_of_int (int_of_string (String.sub s 1 (String.length s - 1))))
  | _ -> AHelper

(* the point a goroutine waits at (or "idle"/"returned") for a pc *)
let cpoint = function CEnter -> "close.enter" | CLock -> "close.lock" | CStore -> "close.store" | CUnlock -> "close.unlock"
  | CChan -> "close.chan" | CWait -> "close.wait" | CRet -> "close.return"
let wpoint = function WRead -> "idle" | WRLock -> "cmd.rlock" | WLoad -> "cmd.load" | WSkipUnlock -> "cmd.skip" | WAdd -> "cmd.add"
  | WRUnlock -> "cmd.runlock" | WStart -> "cmd.start" | WEnd -> "handler" | WDone -> "cmd.done"
let point_of (s : st) (a : actor) : string = match a with
  | ACloser i -> cpoint (List.nth s.closers (int_of_nat i))
  | AWorker i -> wpoint (List.nth s.workers (int_of_nat i))
  | AHelper -> if s.helper_alive then "serve.helper" else "helper.done"

let actors (s : st) : actor list =
  List.mapi (fun i _ -> ACloser (nat_of_int i)) s.closers @ List.mapi (fun i _ -> AWorker (nat_of_int i)) s.workers @ [AHelper]

let finished (s : st) (a : actor) = match a with
  | ACloser i -> List.nth s.closers (int_of_nat i) = CRet
  | AWorker i -> List.nth s.workers (int_of_nat i) = WRead && List.nth s.budgets (int_of_nat i) = O
  | AHelper -> not s.helper_alive

(* is a closer in flight at Lock? Go's RWMutex then holds back new readers *)
let writer_pending (s : st) (inflight : actor list) =
  List.exists (fun a -> match a with ACloser i -> List.nth s.closers (int_of_nat i) = CLock | _ -> false) inflight

type item = Step of actor | Probe of actor | Await of actor

(* after a state change: in-flight actors that became enabled take their step now *)
let rec settle (s : st) (inflight : actor list) (acc : item list) : st * actor list * item list =
  match List.find_opt (fun a -> enabled s a) inflight with
  | Some a -> (match exec s a with
      | Some s' -> settle s' (List.filter (fun b -> b <> a) inflight) (Await a :: acc)
      | None -> (s, inflight, acc))
  | None -> (s, inflight, acc)

let gen_one (rng : Random.State.t) (nc : int) (budgets : int list) (maxlen : int) : item list =
  let s = ref (init (nat_of_int nc) (List.map nat_of_int budgets)) in
  let inflight = ref [] in
  let items = ref [] in
  let continue = ref true in
  let n = ref 0 in
  while !continue && !n < maxlen do
    incr n;
    let cand = List.filter (fun a -> not (finished !s a) && not (List.mem a !inflight)) (actors !s) in
    (* the helper only exists at its point once the channel is closed *)
    let cand = List.filter (fun a -> a <> AHelper || !s.chan_closed) cand in
    let en = List.filter (fun a -> enabled !s a &&
                (match a with AWorker i -> not (List.nth !s.workers (int_of_nat i) = WRLock && writer_pending !s !inflight) | _ -> true)) cand in
    let dis = List.filter (fun a -> not (enabled !s a) &&
                (match a with AWorker i -> List.nth !s.workers (int_of_nat i) <> WRead | _ -> true)) cand in
    let pick l = List.nth l (Random.State.int rng (List.length l)) in
    if dis <> [] && (en = [] || Random.State.int rng 4 = 0) && List.length !inflight < 3 then begin
      let a = pick dis in
      items := Probe a :: !items; inflight := a :: !inflight
    end else if en <> [] then begin
      let a = pick en in
      (match exec !s a with
       | Some s' ->
           let (s2, infl, acc) = settle s' !inflight (Step a :: !items) in
           s := s2; inflight := infl; items := acc
       | None -> ())
    end else continue := false
  done;
  List.rev !items

let show_item = function Step a -> "(step " ^ actor_name a ^ ")" | Probe a -> "(probe " ^ actor_name a ^ ")" | Await a -> "(await " ^ actor_name a ^ ")"

let gen seed n file =
  let rng = Random.State.make [| seed |] in
  let oc = open_out file in
  let shapes = [ (1, [1]); (2, [1]); (2, [1; 1]); (1, [2]); (2, [2; 1]); (3, [1; 1]); (2, [1; 1; 1]); (3, [2; 2; 1]); (1, []); (2, []) ] in
  for i = 0 to n - 1 do
    let (nc, budgets) = List.nth shapes (i mod List.length shapes) in
    let items = gen_one rng nc budgets 120 in
    Printf.fprintf oc "(sched %d (nc %d) (budgets %s) (items %s))\n" i nc
      (String.concat " " (List.map string_of_int budgets)) (String.concat " " (List.map show_item items))
  done;
  close_out oc

(* ---- checking ---- *)
let split_ws s = List.filter (fun x -> x <> "") (String.split_on_char ' ' s)

(* very small parser for the two line formats (flat lists of atoms inside known fields) *)
let between (s : string) (tag : string) : string =
  let t = "(" ^ tag ^ " " in
  match Str.search_forward (Str.regexp_string t) s 0 with
  | exception Not_found -> (match Str.search_forward (Str.regexp_string ("(" ^ tag ^ ")")) s 0 with _ -> "" | exception Not_found -> failwith ("field " ^ tag))
  | i ->
      let st = i + String.length t in
      let depth = ref 1 and j = ref st in
      while !depth > 0 do
        (match s.[!j] with '(' -> incr depth | ')' -> decr depth | _ -> ());
        incr j
      done;
      String.sub s st (!j - 1 - st)

let parse_items (s : string) : item list =
  let re = Str.regexp "(\\(step\\|probe\\|await\\) \\([a-z0-9]+\\))" in
  let rec go pos acc =
    match Str.search_forward re s pos with
    | exception Not_found -> List.rev acc
    | _ ->
        let k = Str.matched_group 1 s and a = Str.matched_group 2 s in
        let e = Str.match_end () in
        go e ((match k with "step" -> Step (actor_of a) | "probe" -> Probe (actor_of a) | _ -> Await (actor_of a)) :: acc)
  in go 0 []

let check schedf obsf resf =
  let sched = Hashtbl.create 64 in
  let ic = open_in schedf in
  (try while true do
    let l = input_line ic in
    if String.length l > 6 && String.sub l 0 6 = "(sched" then begin
      let id = List.nth (split_ws l) 1 in
      Hashtbl.replace sched id l
    end
  done with End_of_file -> ());
  close_in ic;
  let ic = open_in obsf and oc = open_out resf in
  let total = ref 0 and ofail = ref 0 and diff = ref 0 and okc = ref 0 in
  let seen = Hashtbl.create 64 in
  (try while true do
    let l = input_line ic in
    if String.length l > 5 && String.sub l 0 5 = "(c16x" then begin
      (* scenarios beside the schedules: the direct oracles only *)
      incr total;
      let id = List.nth (split_ws l) 1 and cls = List.nth (split_ws l) 2 in
      Hashtbl.replace seen ("extra " ^ id) ();
      let nc = int_of_string (between l "nc") in
      let final = between l "final" in
      let panicked = between final "panic" <> "0" in
      let closers_returned = int_of_string (between final "returned") in
      let serve_nil = between final "servenil" = "1" in
      let hang = between final "hang" = "1" in
      let late_start = between final "latestart" = "1" in
      if panicked then (incr ofail; Printf.fprintf oc "FAIL %s %s oracle a goroutine of the server panicked\n" id cls)
      else if late_start then (incr ofail; Printf.fprintf oc "FAIL %s %s oracle a parser ran on an idle connection after Close had returned\n" id cls)
      else if closers_returned <> nc then (incr ofail; Printf.fprintf oc "FAIL %s %s oracle only %d of %d Close calls returned although no command handler was running (Close waits for a client that stopped sending / for a listener)\n" id cls closers_returned nc)
      else if not serve_nil then (incr ofail; Printf.fprintf oc "FAIL %s %s oracle a Serve call did not return nil after Close (its listener was left open / its accept loop still runs)\n" id cls)
      else if hang then (incr ofail; Printf.fprintf oc "FAIL %s %s oracle Close / Serve did not end within the time-out\n" id cls)
      else incr okc
    end else
    if String.length l > 4 && String.sub l 0 4 = "(c16" then begin
      incr total;
      let id = List.nth (split_ws l) 1 in
      let sl = Hashtbl.find sched id in
      let nc = int_of_string (between sl "nc") in
      let budgets = List.map int_of_string (split_ws (between sl "budgets")) in
      let items = parse_items (between sl "items") in
      Hashtbl.replace seen (between sl "items") ();
      (* observation: (arr a point) per item, in order; then the final block *)
      let arr = split_ws (between l "arrivals") in
      let final = between l "final" in
      let panicked = between final "panic" <> "0" in
      let closers_returned = int_of_string (between final "returned") in
      let serve_nil = between final "servenil" = "1" in
      let late_start = between final "latestart" = "1" in
      let running_at_return = between final "runningatreturn" = "1" in
      let hang = between final "hang" = "1" in
      (* direct oracles on what the real goroutines did *)
      if panicked then (incr ofail; Printf.fprintf oc "FAIL %s sched oracle a Close call panicked (close of closed channel / negative WaitGroup)\n" id)
      else if late_start then (incr ofail; Printf.fprintf oc "FAIL %s sched oracle a command handler started after a Close call had returned\n" id)
      else if running_at_return then (incr ofail; Printf.fprintf oc "FAIL %s sched oracle a Close call returned while a command handler was still running\n" id)
      else if hang then (incr ofail; Printf.fprintf oc "FAIL %s sched oracle Close did not return / Serve did not end once all handlers had finished (deadlock)\n" id)
      else if closers_returned <> nc then (incr ofail; Printf.fprintf oc "FAIL %s sched oracle only %d of %d Close calls returned\n" id closers_returned nc)
      else if not serve_nil then (incr ofail; Printf.fprintf oc "FAIL %s sched oracle Serve did not return nil after Close\n" id)
      else begin
        (* correspondence: replay the schedule in the model and compare point by point *)
        let s = ref (init (nat_of_int nc) (List.map nat_of_int budgets)) in
        let bad = ref None in
        List.iteri (fun k it ->
          if !bad = None then begin
            let obs = (try List.nth arr k with _ -> "missing") in
            match it with
            | Step a | Await a ->
                (match exec !s a with
                 | Some s' ->
                     s := s';
                     let want = point_of !s a in
                     let want = if want = "helper.done" then "done" else want in
                     if obs <> want then bad := Some (Printf.sprintf "item %d %s: implementation reached '%s', model '%s'" k (show_item it) obs want)
                 | None -> bad := Some (Printf.sprintf "item %d %s: not enabled in the model (generator/model mismatch)" k (show_item it)))
            | Probe a ->
                if obs <> "blocked" then bad := Some (Printf.sprintf "item %d %s: the model blocks this step, the implementation proceeded to '%s'" k (show_item it) obs)
          end) items;
        match !bad with
        | Some d -> incr diff; Printf.fprintf oc "DIFF %s sched %s\n" id d
        | None -> incr okc
      end
    end
  done with End_of_file -> ());
  Printf.fprintf oc "SUMMARY total=%d ok=%d oracle_fail=%d diff=%d distinct_nontrivial=%d\n" !total !okc !ofail !diff (Hashtbl.length seen);
  close_out oc

let () =
  match Array.to_list Sys.argv with
  | [_; "gen"; seed; n; file] -> gen (int_of_string seed) (int_of_string n) file
  | [_; "check"; s; o; r] -> check s o r
  | _ -> prerr_endline "usage: c16tool gen <seed> <n> <file> | check <schedules> <obs> <res>"; exit 2
