open Model
open Base
open Sess
type string = Stdlib.String.t

(* (c17 id class (err ERR|nil|(lib unimplemented T)) (out x..) (panic b)) *)
let err_of_field (s : sexp) : err option = match s with
  | A "nil" -> None
  | L [A "lib"; A "unimplemented"; t] -> Some (e_unimplemented (byte_of_int (int_of_string (atom t))))
  | e -> Some (err_of e)

let check (fields : sexp list) : verdict * string option =
  let e = err_of_field (field1 "err" fields) in
  let out = b_of (field1 "out" fields) in
  let panicked = atom (field1 "panic" fields) = "1" in
  let model = model_errorcode e in
  let cross = Some (Printf.sprintf "(%s, %s)" (cq_opt cq_err e) (cq_bytes model)) in
  if panicked || not (oracle_C17 e out) then
    (OracleFail (Printf.sprintf "panic=%b impl=%s model=%s" panicked (atom_of_bytes out) (atom_of_bytes model)), cross)
  else if out <> model then
    (Diff (Printf.sprintf "impl=%s model=%s" (atom_of_bytes out) (atom_of_bytes model)), cross)
  else (Ok_, cross)

let cross_header = "Require Import Wire.Bytes Spec.BackendSpec Wire.Errors Spec.OracleC17.\nFrom Coq Require Import String.\nLocal Open Scope string_scope.\nLocal Open Scope list_scope.\nLocal Open Scope Z_scope.\nDefinition cases : list (option err * bytes) := [\n"
let cross_footer = "].\nDefinition bad := Eval vm_compute in\n  filter (fun c => negb (bytes_eqb (model_errorcode (fst c)) (snd c))) cases.\nPrint bad.\n"

let nontrivial (fields : sexp list) : string option =
  match field1 "err" fields with
  | A "nil" -> None
  | L [A "base"; _] -> None
  | e -> Some (show_sexp e)
