open Model
open Base
open Sess
type string = Stdlib.String.t

(* within one turn the relative order of messages and callbacks cannot be observed
   through TLS (offsets are ciphertext offsets): raw reply, messages, callbacks, end *)
let canon_turn (evs : ev list) : ev list =
  let raws = List.filter (function RawOut _ -> true | _ -> false) evs in
  let outs = List.filter (function Out _ -> true | _ -> false) evs in
  let cbs = List.filter (function CbValidate _ | CbMw _ | CbParse _ | CbExec _ | CbOp _ | CbTerminate -> true | _ -> false) evs in
  let tl = List.filter (function Closed | Crash | OutOfFuel -> true | _ -> false) evs in
  raws @ outs @ cbs @ tl

let canon (log : ev list) : ev list =
  let rec split cur acc = function
    | [] -> List.rev (List.rev cur :: acc)
    | Consume :: r -> split [] (List.rev cur :: acc) r
    | e :: r -> split (e :: cur) acc r in
  let turns = split [] [] log in
  match turns with
  | [] -> []
  | t0 :: rest -> canon_turn t0 @ List.concat (List.map (fun t -> Consume :: canon_turn t) rest)

let check (fields : sexp list) : verdict * string option =
  let c0 = case_of fields in
  let o = obs_of fields in
  let tlo = field "tlsobs" fields in
  let hs = atom (field1 "handshake" tlo) in
  let rawok = atom (field1 "rawok" tlo) = "1" in
  let base = int_of_string (atom (field1 "turnbase" tlo)) in
  let pre = int_of_string (atom (field1 "prechunks" tlo)) in
  let tlsin = (match c0.sc_tlsin with Some b -> b | None -> []) in
  let c = if c0.sc_tls then { c0 with sc_tlsin = (if hs = "ok" then Some tlsin else None) }
          else { c0 with sc_raw = c0.sc_raw @ tlsin; sc_tlsin = None } in
  let model = run_case c in
  (* implementation log: messages by plaintext offsets per turn, callbacks by turn number *)
  let first = (match o.out with b :: _ -> Some b | [] -> None) in
  let want_first = if c0.sc_tls then 83 else 78 in
  if o.panicked then (OracleFail "the server panicked", None)
  else if o.hang then (OracleFail "the connection did not make progress", None)
  else if (match first with Some b -> int_of_byte b <> want_first | None -> true) then
    (OracleFail (Printf.sprintf "the SSLRequest was not answered with the single byte '%c'" (Char.chr want_first)), None)
  else if not rawok then (OracleFail "bytes sent after 'S' are not TLS records: something travelled outside the TLS session", None)
  else if hs = "ok" && (match field_opt "readend" tlo with Some [A "closed"] | None -> false | _ -> true) &&
          (* a CancelRequest as the first packet inside TLS is closed in an orderly way, like its plaintext equivalent
             (the library closes the TLS connection itself: its closing record is the last thing on the wire) *)
          (match List.map int_of_byte tlsin with 0 :: 0 :: 0 :: 16 :: 4 :: 210 :: 22 :: 46 :: _ -> true | _ -> false) then
    (OracleFail "a CancelRequest inside the TLS session was not closed in an orderly way: no closing record (close_notify) was sent", None)
  else if hs = "ok" && c0.sc_tls && (match field_opt "readend" tlo with Some [A "closed"] | None -> false | _ -> true) &&
          (* a Terminate the server got to in lock-step (every message before it was answered, the connection still
             open; not judged when a terminate hook fails: the session then ends as on any other error): the server closes the connection — the TLS connection, with its closing record — as it closes the
             plaintext one *)
          (let nmsgs = int_of_string (atom (field1 "nmsgs" tlo)) in
           List.length o.steps = nmsgs && c0.sc_term <> Some false &&
           (match List.rev (List.map int_of_byte tlsin) with 4 :: 0 :: 0 :: 0 :: 88 :: _ -> true | _ -> false) &&
           List.exists (fun e -> e = Closed) model &&
           List.exists (function Out (BReady _) -> true | _ -> false) model) then
    (OracleFail "Terminate inside the TLS session: the transport was cut underneath the session, no closing record (close_notify) was sent", None)
  else if (let raw_hex = atom (field1 "raw" fields) in
           (try ignore (Str.search_forward (Str.regexp_string "53545546464544") raw_hex 0); true with Not_found -> false)) &&
          List.exists (fun (_, _, e) -> match e with CbParse q -> atom_of_bytes q = "x53545546464544" | _ -> false) o.events then
    (OracleFail "plaintext stuffed ahead of the TLS handshake was interpreted as a protocol message", None)
  else begin
    let rest = (match o.out with _ :: r -> r | [] -> []) in
    match split_out 1 rest with
    | None -> (OracleFail "the (decrypted) output is not a well-formed backend message stream", None)
    | Some frames ->
        let msgs = List.map (fun (e, t, body) -> (e, parse_bmsg t body)) frames in
        if List.exists (fun (_, m) -> m = None) msgs then (OracleFail "the (decrypted) output contains an ill-formed backend message", None)
        else begin
          let msgs = List.map (fun (e, m) -> match m with Some m -> (e, m) | None -> assert false) msgs in
          let steps = Array.of_list o.steps in
          let n = Array.length steps in
          let turn_of_msg eo = let rec go k = if k >= n then max n 1 else if eo <= steps.(k) then k + 1 else go (k + 1) in go 0 in
          let body = ref [] in
          for k = 1 to max n 1 do
            let ms = List.filter_map (fun (eo, m) -> if turn_of_msg eo = k then Some (Out m) else None) msgs in
            let es = List.filter_map (fun (_, t, e) ->
              let tk = t - base in
              if tk = k || (k = max n 1 && tk > k) || (k = 1 && tk < 1) then Some e else None) o.events in
            body := !body @ (if k > pre then [Consume] else []) @ ms @ es
          done;
          let tail = if o.closed then [Closed] else [] in
          let il = canon ((match first with Some b -> [RawOut b] | None -> []) @ !body @ tail) in
          let m = canon model in
          if not (log_match m il) then
            (Diff (Printf.sprintf "log mismatch (handshake %s)\n    model: %s\n    impl:  %s" hs (show_log m) (show_log il)), None)
          else (Ok_, None)
        end
  end

let nontrivial (fields : sexp list) : string option =
  Some (Digest.to_hex (Digest.string (show_sexp (L (field "cfg" fields)) ^ atom (field1 "raw" fields) ^ atom (field1 "tlsin" fields))))
