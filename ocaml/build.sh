#!/bin/bash
# builds the extracted model + driver into /verif/build/ocaml
set -e
B=/verif/build/ocaml
mkdir -p $B
cd $B
coqc -Q /verif/coq/Wire Wire -Q /verif/coq/Spec Spec -Q /verif/coq/Props Props -Q /verif/coq/Extract Extract /verif/coq/Extract/Extract.v > extract.log 2>&1 || { cat extract.log; exit 1; }
cp /verif/ocaml/*.ml .
ocamlfind ocamlopt -O3 -package str -linkpkg -w -a model.mli model.ml base.ml sess.ml p_*.ml driver.ml -o driver 2>/dev/null || \
ocamlfind ocamlopt -package str -linkpkg -w -a model.mli model.ml base.ml sess.ml p_*.ml driver.ml -o driver
ocamlfind ocamlopt -O3 -package str -linkpkg -w -a closemodel.mli closemodel.ml c16tool.ml -o c16tool 2>/dev/null || \
ocamlfind ocamlopt -package str -linkpkg -w -a closemodel.mli closemodel.ml c16tool.ml -o c16tool
