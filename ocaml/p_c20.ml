open Model
open Base
type string = Stdlib.String.t

(* (c20 id class (q x..) (len n) (panic b)) *)
let check (fields : sexp list) : verdict * string option =
  let q = bytes_of_atom (atom (field1 "q" fields)) in
  let len = int_of_string (atom (field1 "len" fields)) in
  let panicked = atom (field1 "panic" fields) = "1" in
  let m = int_of_z (parse_parameters_len q) in
  let cross = Some (Printf.sprintf "(hx \"%s\", %d%%Z)" (hex_of_bytes q) m) in
  let alloc = match List.filter_map (function L (A "alloc" :: A a :: _) -> Some a | _ -> None) fields with a :: _ -> z_of_atom a | [] -> z_of_int 0 in
  if not (oracle_C20 q (z_of_int len) panicked) then
    (OracleFail (Printf.sprintf "impl len=%d panic=%b model=%d" len panicked m), cross)
  else if not (oracle_C20_alloc q alloc) then
    (OracleFail (Printf.sprintf "impl allocated %s bytes for a %d-byte query (budget 8 MiB + 1 KiB per byte)" (string_of_z alloc) (List.length q)), cross)
  else if len <> m then (Diff (Printf.sprintf "impl len=%d model len=%d" len m), cross)
  else (Ok_, cross)

let cross_header = "Require Import Wire.Bytes Wire.Params.\nFrom Coq Require Import String.\nLocal Open Scope string_scope.\nDefinition cases : list (bytes * Z) := [\n"
let cross_footer = "].\nDefinition bad := Eval vm_compute in\n  filter (fun c => negb (Z.eqb (parse_parameters_len (fst c)) (snd c))) cases.\nPrint bad.\n"
let nontrivial (fields : sexp list) : string option =
  (* non-trivial: contains at least one marker character; distinct by query text *)
  let q = atom (field1 "q" fields) in
  let has s sub = try ignore (Str.search_forward (Str.regexp_string sub) s 0); true with Not_found -> false in
  if has q "24" || has q "3f" then Some q else None
