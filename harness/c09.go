package main

import (
	"bytes"
	"fmt"
	"math"
	"os"

	"github.com/jackc/pgx/v5/pgtype"
)

func init() { runners["C09"] = runC09 }

// values of a column type incl. boundaries
func typeValues(o int) []valT {
	switch o {
	case 16:
		return []valT{{kind: "bool", n: 0}, {kind: "bool", n: 1}}
	case 21:
		return []valT{{kind: "int2", n: 0}, {kind: "int2", n: 1}, {kind: "int2", n: -1}, {kind: "int2", n: 32767}, {kind: "int2", n: -32768}, {kind: "int2", n: 258}}
	case 23:
		return []valT{{kind: "int4", n: 0}, {kind: "int4", n: -1}, {kind: "int4", n: 2147483647}, {kind: "int4", n: -2147483648}, {kind: "int4", n: 16909060}, {kind: "int4", n: 100000}}
	case 20:
		return []valT{{kind: "int8", n: 0}, {kind: "int8", n: -1}, {kind: "int8", n: 9223372036854775807}, {kind: "int8", n: -9223372036854775808}, {kind: "int8", n: 72623859790382856}, {kind: "int8", n: 4294967296}}
	case 25, 1043:
		return []valT{{kind: "text", b: []byte{}}, {kind: "text", b: []byte("a")}, {kind: "text", b: []byte("héllo ✓ wörld")}, {kind: "text", b: []byte("with\ttab\nnewline\\ and 'quotes'")}, {kind: "text", b: []byte("NULL")}, {kind: "text", b: []byte("\\x00")}}
	case 17:
		return []valT{{kind: "bytea", b: []byte{}}, {kind: "bytea", b: []byte{0}}, {kind: "bytea", b: []byte{0, 1, 2, 254, 255}}, {kind: "bytea", b: []byte("\\x41")}, {kind: "bytea", b: []byte{0x5c, 0x78}}}
	case 2950:
		return []valT{{kind: "uuid", b: make([]byte, 16)}, {kind: "uuid", b: []byte{0x12, 0x34, 0x56, 0x78, 0x9a, 0xbc, 0xde, 0xf0, 0x0f, 0xed, 0xcb, 0xa9, 0x87, 0x65, 0x43, 0x21}}, {kind: "uuid", b: []byte{255, 255, 255, 255, 255, 255, 255, 255, 255, 255, 255, 255, 255, 255, 255, 255}}}
	case 700:
		return []valT{{kind: "float4", n: 0}, {kind: "float4", n: 0x3f800000}, {kind: "float4", n: 0xc0490fdb}, {kind: "float4", n: 0x7f800000}, {kind: "float4", n: 0x00000001}, {kind: "float4", n: 0x80000000}}
	case 701:
		return []valT{{kind: "float8", n: 0}, {kind: "float8", n: 0x3ff0000000000000}, {kind: "float8", n: -4611686018427387904}, {kind: "float8", n: 0x7ff0000000000000}, {kind: "float8", n: 1}, {kind: "float8", n: 0x400921fb54442d18}}
	}
	return nil
}

// float_text: float4/float8 columns in text format, every special value and range end
func runC09floats(c *runCfg) {
	f8 := []uint64{0, 0x8000000000000000, 0x3ff0000000000000, 0xbff0000000000000, 0x7ff0000000000000, 0xfff0000000000000, 0x7ff8000000000000, 0x7fefffffffffffff, 0xffefffffffffffff,
		1, 0x8000000000000001, 0x0010000000000000, 0x400921fb54442d18, 0x3fb999999999999a, 0x4340000000000000, 0x7e37e43c8800759c, 0x3e112e0be826d695}
	f4 := []uint32{0, 0x80000000, 0x3f800000, 0xbf800000, 0x7f800000, 0xff800000, 0x7fc00000, 0x7f7fffff, 0xff7fffff, 1, 0x80000001, 0x00800000, 0x40490fdb, 0x3dcccccd, 0x4b800000}
	id := 9700000
	for variant := 0; variant < 3; variant++ {
		cols := []colT{{name: []byte("d"), oid: 701}, {name: []byte("f"), oid: 700}}
		if variant == 1 {
			cols = cols[:1]
		} else if variant == 2 {
			cols = cols[1:]
		}
		st := stmtT{id: 1, cols: cols, ret: "nil"}
		n := len(f8)
		for i := 0; i < n; i++ {
			var row []valT
			for _, cc := range cols {
				if cc.oid == 701 {
					row = append(row, valT{kind: "float8", n: int64(f8[i%len(f8)])})
				} else {
					row = append(row, valT{kind: "float4", n: int64(f4[i%len(f4)])})
				}
			}
			st.prog = append(st.prog, opT{kind: "row", vals: row})
		}
		st.prog = append(st.prog, opT{kind: "complete", tag: []byte(fmt.Sprintf("SELECT %d", n))})
		cfg := cfgT{limit: 4096, auth: "none", term: "none", parse: []parseEntry{{query: []byte("q"), stmts: []stmtT{st}}}}
		cs := lockCase(id, "float_text", cfg, stdStartup, [][]byte{mQuery([]byte("q"))})
		setInflight("(c09f " + cs.id + " float_text)")
		o := runSession(cs)
		why := floatTextCheck(cs, o)
		if o.panicv != "" {
			why = "panic: " + o.panicv
		}
		c.out.line(sx("c09f", id, "float_text", sx("cols", len(cols)), sx("rows", n), sx("why", []byte(why))))
		c.stat("class_float_text")
		id++
	}
}

func runC09(c *runCfg) error {
	if c.replay != "" {
		if b, err := os.ReadFile(c.replay); err == nil && bytes.Contains(b, []byte("(c09f ")) {
			runC09floats(c)
			return nil
		}
		return replaySessions(c)
	}
	runC09floats(c)
	g := &gen{rng: c.rng}
	id := 0
	types := []int{16, 21, 23, 20, 25, 1043, 17, 2950, 700, 701}
	nulls := []valT{{kind: "nil"}, {kind: "nilptr"}, {kind: "invalid"}}
	run := func(class string, cols []colT, rows [][]valT, rfs [][]int) {
		st := stmtT{id: 1, cols: cols, ret: "nil"}
		for ri, r := range rows {
			st.prog = append(st.prog, opT{kind: "row", vals: r})
			if len(cols) >= 2 && ri%2 == 0 && (id+ri)%3 == 0 {
				// a row that fails at its last column after the first fields have been encoded: the writer
				// rejects it, sends nothing, and the next row must arrive intact
				bad := append([]valT{}, r...)
				bad[len(bad)-1] = valT{kind: "unenc"}
				st.prog = append(st.prog, opT{kind: "row", vals: bad})
			}
		}
		st.prog = append(st.prog, opT{kind: "complete", tag: []byte(fmt.Sprintf("SELECT %d", len(rows)))})
		_ = id
		cfg := cfgT{limit: 4096, auth: "none", term: "none", parse: []parseEntry{{query: []byte("q"), stmts: []stmtT{st}}}}
		msgs := [][]byte{mParse(nil, []byte("q"), 0)}
		for _, rf := range rfs {
			msgs = append(msgs, mBind(nil, nil, nil, nil, rf), mDescribe('P', nil), mExecute(nil, 0), mSync())
		}
		hasFloat := false
		for _, cc := range cols {
			if cc.oid == 700 || cc.oid == 701 {
				hasFloat = true
			}
		}
		if !hasFloat {
			msgs = append(msgs, mQuery([]byte("q")))
		}
		emitSession(c, lockCase(id, class, cfg, stdStartup, msgs))
		id++
		if len(rfs) >= 2 {
			// several portals of the statement alive at once, each with its own result formats:
			// each bound and described (the last one also with parameter formats), then all executed
			pm := [][]byte{mParse([]byte("s"), []byte("q"), 0)}
			for k, rf := range rfs {
				var pf []int
				if k == len(rfs)-1 {
					pf = []int{1, 0, 1, 0, 1, 0}[:len(cols)%7]
				}
				pm = append(pm, mBind([]byte(fmt.Sprintf("p%d", k)), []byte("s"), pf, nil, rf), mDescribe('P', []byte(fmt.Sprintf("p%d", k))))
			}
			for k := range rfs {
				// the row-count field of Execute is not a reason to lose rows the handler wrote
				pm = append(pm, mExecute([]byte(fmt.Sprintf("p%d", k)), []uint32{0, 1, 2, 0x7fffffff, 0xffffffff}[(k+id)%5]))
			}
			pm = append(pm, mSync())
			emitSession(c, lockCase(id, class+"_portals", cfg, stdStartup, pm))
			id++
		}
	}
	// every type: every listed value and each NULL kind, in both formats
	for _, o := range types {
		cols := []colT{{name: []byte("v"), oid: o}}
		var rows [][]valT
		for _, v := range typeValues(o) {
			rows = append(rows, []valT{v})
		}
		for _, n := range nulls {
			rows = append(rows, []valT{n})
		}
		if o == 700 || o == 701 {
			run("type", cols, rows, [][]int{{1}})
		} else {
			run("type", cols, rows, [][]int{nil, {0}, {1}})
		}
	}
	// every encoded length around small internal buffers (a field is framed with its own length whatever its size)
	{
		cols := []colT{{name: []byte("t"), oid: 25}, {name: []byte("b"), oid: 17}, {name: []byte("n"), oid: 23}}
		var lens []int
		for l := 0; l <= 140; l++ {
			lens = append(lens, l)
		}
		lens = append(lens, 250, 251, 252, 253, 254, 255, 256, 257, 258, 259, 260, 508, 509, 510, 511, 512, 513, 514, 515, 516,
			1019, 1020, 1021, 1022, 1023, 1024, 1025, 1026, 1027, 1028, 2047, 2048, 2049, 4091, 4092, 4093, 4094, 4095, 4096, 4097, 4098, 4099, 4100, 8192, 8193, 65535, 65536, 65537)
		for i := 0; i < len(lens); i += 12 {
			var rows [][]valT
			for _, l := range lens[i:min(i+12, len(lens))] {
				t := make([]byte, l)
				b := make([]byte, l)
				for j := range t {
					t[j] = byte('a' + (j+l)%26)
					b[j] = byte(j*31 + l)
				}
				rows = append(rows, []valT{{kind: "text", b: t}, {kind: "bytea", b: b}, {kind: "int4", n: int64(l)}})
			}
			run("lengths", cols, rows, [][]int{nil, {1}, {0, 1, 0}})
		}
	}
	// integer columns are sized by the column type, whatever the width of the Go integer written (int16, int32 and
	// int64 values into int2, int4 and int8 columns, both formats)
	{
		cols := []colT{{name: []byte("s"), oid: 21}, {name: []byte("i"), oid: 23}, {name: []byte("b"), oid: 20}}
		var rows [][]valT
		for _, n := range []int64{0, 1, -1, 12, 255, 256, 32767, -32768} {
			for _, kinds := range [][3]string{{"int2", "int2", "int2"}, {"int4", "int4", "int4"}, {"int8", "int8", "int8"}, {"int8", "int2", "int4"}, {"int4", "int8", "int2"}} {
				rows = append(rows, []valT{{kind: kinds[0], n: n}, {kind: kinds[1], n: n}, {kind: kinds[2], n: n}})
			}
		}
		for i := 0; i < len(rows); i += 10 {
			run("int_widths", cols, rows[i:min(i+10, len(rows))], [][]int{nil, {1}, {1, 0, 1}})
		}
	}
	// a portal keeps the statement it was bound to: the statement name is prepared again with another query
	// (other columns, other rows) between Bind/Describe and Execute — the rows that arrive are the rows of the
	// statement the portal was described with, NULLs included
	{
		cols := []colT{{name: []byte("n"), oid: 23}, {name: []byte("t"), oid: 25}}
		st := stmtT{id: 1, cols: cols, ret: "nil", prog: []opT{{kind: "row", vals: []valT{{kind: "int4", n: 1}, tv("one")}}, {kind: "row", vals: []valT{{kind: "nil"}, {kind: "nilptr"}}},
			{kind: "row", vals: []valT{{kind: "int4", n: -3}, tv("")}}, {kind: "complete", tag: []byte("SELECT 3")}}}
		other := stmtT{id: 2, cols: []colT{{name: []byte("a"), oid: 25}, {name: []byte("b"), oid: 25}, {name: []byte("c"), oid: 16}}, ret: "nil",
			prog: []opT{{kind: "row", vals: []valT{tv("x"), tv("y"), {kind: "bool", n: 1}}}, {kind: "complete", tag: []byte("SELECT 1")}}}
		cfg := cfgT{limit: 4096, auth: "none", term: "none", parse: []parseEntry{{query: []byte("q"), stmts: []stmtT{st}}, {query: []byte("q2"), stmts: []stmtT{other}}}}
		for _, sn := range [][]byte{nil, []byte("s")} {
			for _, rf := range [][]int{nil, {1}, {1, 0}} {
				pn := []byte("p")
				emitSession(c, lockCase(id, "reprepare", cfg, stdStartup, [][]byte{mParse(sn, []byte("q"), 0), mBind(pn, sn, nil, nil, rf), mDescribe('P', pn),
					mParse(sn, []byte("q2"), 0), mExecute(pn, 0), mSync(), mParse(sn, []byte("q"), 0), mBind(nil, sn, nil, nil, rf), mDescribe('P', nil), mClose('S', sn), mParse(sn, []byte("q2"), 0), mExecute(nil, 0), mSync()}))
				id++
			}
		}
	}
	// every placement of the three NULL kinds in rows of width <= W
	W := 3
	if c.tier == "thorough" {
		W = 5
	}
	for w := 1; w <= W; w++ {
		var cols []colT
		for i := 0; i < w; i++ {
			cols = append(cols, colT{name: []byte(fmt.Sprintf("c%d", i)), oid: []int{25, 23, 17, 16, 20}[i%5]})
		}
		// each cell: value or one of 3 NULL kinds -> 4^w rows
		total := 1
		for i := 0; i < w; i++ {
			total *= 4
		}
		var rows [][]valT
		for k := 0; k < total; k++ {
			var row []valT
			x := k
			for i := 0; i < w; i++ {
				d := x % 4
				x /= 4
				if d == 3 {
					vs := typeValues(cols[i].oid)
					row = append(row, vs[(k+i)%len(vs)])
				} else {
					row = append(row, nulls[d])
				}
			}
			rows = append(rows, row)
		}
		var pos []int
		for i := 0; i < w; i++ {
			pos = append(pos, i%2)
		}
		run("nulls", cols, rows, [][]int{nil, {1}, pos})
	}
	// random tables
	n := 150
	if c.tier == "thorough" {
		n = 4000
	}
	for i := 0; i < n; i++ {
		w := 1 + g.rng.Intn(5)
		var cols []colT
		hasFloat := false
		for j := 0; j < w; j++ {
			o := types[g.rng.Intn(len(types))]
			if o == 700 || o == 701 {
				hasFloat = true
			}
			cols = append(cols, colT{name: []byte(fmt.Sprintf("c%d", j)), oid: o})
		}
		var rows [][]valT
		for r := g.rng.Intn(5); r >= 0; r-- {
			var row []valT
			for _, cc := range cols {
				if g.chance(0.2) {
					row = append(row, nulls[g.rng.Intn(3)])
				} else {
					vs := typeValues(cc.oid)
					row = append(row, vs[g.rng.Intn(len(vs))])
				}
			}
			rows = append(rows, row)
		}
		if hasFloat {
			run("random", cols, rows, [][]int{{1}})
		} else {
			var pos []int
			for j := 0; j < w; j++ {
				pos = append(pos, g.rng.Intn(2))
			}
			run("random", cols, rows, [][]int{nil, {1}, pos})
		}
	}
	return nil
}

// floatTextCheck: class float_text — a statement whose columns are all float4/float8, executed once by a simple Query
// (text format). The client decodes every DataRow field with pgx's own text scanner and must get the float the
// handler wrote, bit for bit (any NaN for a NaN). Float-to-text conversion is not part of the Coq model (C09 is
// partial there); this round trip through a real client decoder is judged by the harness.
func floatTextCheck(cs *caseT, o *obsT) string {
	if cs.class != "float_text" || len(cs.cfg.parse) != 1 || len(cs.cfg.parse[0].stmts) != 1 {
		return ""
	}
	st := cs.cfg.parse[0].stmts[0]
	var rows [][]valT
	for _, op := range st.prog {
		if op.kind == "row" {
			rows = append(rows, op.vals)
		}
	}
	m := pgtype.NewMap()
	k := 0
	for b := o.out; len(b) >= 5; {
		l := int(uint32(b[1])<<24 | uint32(b[2])<<16 | uint32(b[3])<<8 | uint32(b[4]))
		if l < 4 || len(b) < 1+l {
			break
		}
		if b[0] == 'D' {
			if k >= len(rows) {
				return "more DataRow messages than rows written"
			}
			body := b[5 : 1+l]
			n := int(body[0])<<8 | int(body[1])
			body = body[2:]
			if n != len(rows[k]) {
				return fmt.Sprintf("row %d has %d fields, %d values were written", k, n, len(rows[k]))
			}
			for j := 0; j < n; j++ {
				fl := int(int32(uint32(body[0])<<24 | uint32(body[1])<<16 | uint32(body[2])<<8 | uint32(body[3])))
				body = body[4:]
				if fl < 0 {
					return fmt.Sprintf("row %d field %d is NULL, a float was written", k, j)
				}
				txt := body[:fl]
				body = body[fl:]
				v := rows[k][j]
				if v.kind == "float8" {
					var got float64
					if err := m.Scan(701, pgtype.TextFormatCode, txt, &got); err != nil {
						return fmt.Sprintf("row %d field %d: the text %q does not scan as float8: %v", k, j, txt, err)
					}
					want := math.Float64frombits(uint64(v.n))
					if math.Float64bits(got) != math.Float64bits(want) && !(math.IsNaN(got) && math.IsNaN(want)) {
						return fmt.Sprintf("row %d field %d: float8 %v was written, the client decodes the text %q as %v", k, j, want, txt, got)
					}
				} else {
					var got float32
					if err := m.Scan(700, pgtype.TextFormatCode, txt, &got); err != nil {
						return fmt.Sprintf("row %d field %d: the text %q does not scan as float4: %v", k, j, txt, err)
					}
					want := math.Float32frombits(uint32(v.n))
					if math.Float32bits(got) != math.Float32bits(want) && !(got != got && want != want) {
						return fmt.Sprintf("row %d field %d: float4 %v was written, the client decodes the text %q as %v", k, j, want, txt, got)
					}
				}
			}
			k++
		}
		b = b[1+l:]
	}
	if k != len(rows) {
		return fmt.Sprintf("%d DataRow messages for %d rows written", k, len(rows))
	}
	return ""
}
