package main

import "fmt"

func init() { runners["C09"] = runC09 }

// values of a column type incl. boundaries
func typeValues(o int) []valT {
	switch o {
	case 16:
		return []valT{{kind: "bool", n: 0}, {kind: "bool", n: 1}}
	case 21:
		return []valT{{kind: "int2", n: 0}, {kind: "int2", n: 1}, {kind: "int2", n: -1}, {kind: "int2", n: 32767}, {kind: "int2", n: -32768}, {kind: "int2", n: 258}}
	case 23:
		return []valT{{kind: "int4", n: 0}, {kind: "int4", n: -1}, {kind: "int4", n: 2147483647}, {kind: "int4", n: -2147483648}, {kind: "int4", n: 16909060}, {kind: "int4", n: 100000}}
	case 20:
		return []valT{{kind: "int8", n: 0}, {kind: "int8", n: -1}, {kind: "int8", n: 9223372036854775807}, {kind: "int8", n: -9223372036854775808}, {kind: "int8", n: 72623859790382856}, {kind: "int8", n: 4294967296}}
	case 25, 1043:
		return []valT{{kind: "text", b: []byte{}}, {kind: "text", b: []byte("a")}, {kind: "text", b: []byte("héllo ✓ wörld")}, {kind: "text", b: []byte("with\ttab\nnewline\\ and 'quotes'")}, {kind: "text", b: []byte("NULL")}, {kind: "text", b: []byte("\\x00")}}
	case 17:
		return []valT{{kind: "bytea", b: []byte{}}, {kind: "bytea", b: []byte{0}}, {kind: "bytea", b: []byte{0, 1, 2, 254, 255}}, {kind: "bytea", b: []byte("\\x41")}, {kind: "bytea", b: []byte{0x5c, 0x78}}}
	case 2950:
		return []valT{{kind: "uuid", b: make([]byte, 16)}, {kind: "uuid", b: []byte{0x12, 0x34, 0x56, 0x78, 0x9a, 0xbc, 0xde, 0xf0, 0x0f, 0xed, 0xcb, 0xa9, 0x87, 0x65, 0x43, 0x21}}, {kind: "uuid", b: []byte{255, 255, 255, 255, 255, 255, 255, 255, 255, 255, 255, 255, 255, 255, 255, 255}}}
	case 700:
		return []valT{{kind: "float4", n: 0}, {kind: "float4", n: 0x3f800000}, {kind: "float4", n: 0xc0490fdb}, {kind: "float4", n: 0x7f800000}, {kind: "float4", n: 0x00000001}, {kind: "float4", n: 0x80000000}}
	case 701:
		return []valT{{kind: "float8", n: 0}, {kind: "float8", n: 0x3ff0000000000000}, {kind: "float8", n: -4611686018427387904}, {kind: "float8", n: 0x7ff0000000000000}, {kind: "float8", n: 1}, {kind: "float8", n: 0x400921fb54442d18}}
	}
	return nil
}

func runC09(c *runCfg) error {
	if c.replay != "" {
		return replaySessions(c)
	}
	g := &gen{rng: c.rng}
	id := 0
	types := []int{16, 21, 23, 20, 25, 1043, 17, 2950, 700, 701}
	nulls := []valT{{kind: "nil"}, {kind: "nilptr"}, {kind: "invalid"}}
	run := func(class string, cols []colT, rows [][]valT, rfs [][]int) {
		st := stmtT{id: 1, cols: cols, ret: "nil"}
		for ri, r := range rows {
			st.prog = append(st.prog, opT{kind: "row", vals: r})
			if len(cols) >= 2 && ri%2 == 0 && (id+ri)%3 == 0 {
				// a row that fails at its last column after the first fields have been encoded: the writer
				// rejects it, sends nothing, and the next row must arrive intact
				bad := append([]valT{}, r...)
				bad[len(bad)-1] = valT{kind: "unenc"}
				st.prog = append(st.prog, opT{kind: "row", vals: bad})
			}
		}
		st.prog = append(st.prog, opT{kind: "complete", tag: []byte(fmt.Sprintf("SELECT %d", len(rows)))})
		_ = id
		cfg := cfgT{limit: 4096, auth: "none", term: "none", parse: []parseEntry{{query: []byte("q"), stmts: []stmtT{st}}}}
		msgs := [][]byte{mParse(nil, []byte("q"), 0)}
		for _, rf := range rfs {
			msgs = append(msgs, mBind(nil, nil, nil, nil, rf), mDescribe('P', nil), mExecute(nil, 0), mSync())
		}
		hasFloat := false
		for _, cc := range cols {
			if cc.oid == 700 || cc.oid == 701 {
				hasFloat = true
			}
		}
		if !hasFloat {
			msgs = append(msgs, mQuery([]byte("q")))
		}
		emitSession(c, lockCase(id, class, cfg, stdStartup, msgs))
		id++
		if len(rfs) >= 2 {
			// several portals of the statement alive at once, each with its own result formats:
			// each bound and described (the last one also with parameter formats), then all executed
			pm := [][]byte{mParse([]byte("s"), []byte("q"), 0)}
			for k, rf := range rfs {
				var pf []int
				if k == len(rfs)-1 {
					pf = []int{1, 0, 1, 0, 1, 0}[:len(cols)%7]
				}
				pm = append(pm, mBind([]byte(fmt.Sprintf("p%d", k)), []byte("s"), pf, nil, rf), mDescribe('P', []byte(fmt.Sprintf("p%d", k))))
			}
			for k := range rfs {
				// the row-count field of Execute is not a reason to lose rows the handler wrote
				pm = append(pm, mExecute([]byte(fmt.Sprintf("p%d", k)), []uint32{0, 1, 2, 0x7fffffff, 0xffffffff}[(k+id)%5]))
			}
			pm = append(pm, mSync())
			emitSession(c, lockCase(id, class+"_portals", cfg, stdStartup, pm))
			id++
		}
	}
	// every type: every listed value and each NULL kind, in both formats
	for _, o := range types {
		cols := []colT{{name: []byte("v"), oid: o}}
		var rows [][]valT
		for _, v := range typeValues(o) {
			rows = append(rows, []valT{v})
		}
		for _, n := range nulls {
			rows = append(rows, []valT{n})
		}
		if o == 700 || o == 701 {
			run("type", cols, rows, [][]int{{1}})
		} else {
			run("type", cols, rows, [][]int{nil, {0}, {1}})
		}
	}
	// every encoded length around small internal buffers (a field is framed with its own length whatever its size)
	{
		cols := []colT{{name: []byte("t"), oid: 25}, {name: []byte("b"), oid: 17}, {name: []byte("n"), oid: 23}}
		var lens []int
		for l := 0; l <= 140; l++ {
			lens = append(lens, l)
		}
		lens = append(lens, 250, 251, 252, 253, 254, 255, 256, 257, 258, 259, 260, 508, 509, 510, 511, 512, 513, 514, 515, 516,
			1019, 1020, 1021, 1022, 1023, 1024, 1025, 1026, 1027, 1028, 2047, 2048, 2049, 4091, 4092, 4093, 4094, 4095, 4096, 4097, 4098, 4099, 4100, 8192, 8193, 65535, 65536, 65537)
		for i := 0; i < len(lens); i += 12 {
			var rows [][]valT
			for _, l := range lens[i:min(i+12, len(lens))] {
				t := make([]byte, l)
				b := make([]byte, l)
				for j := range t {
					t[j] = byte('a' + (j+l)%26)
					b[j] = byte(j*31 + l)
				}
				rows = append(rows, []valT{{kind: "text", b: t}, {kind: "bytea", b: b}, {kind: "int4", n: int64(l)}})
			}
			run("lengths", cols, rows, [][]int{nil, {1}, {0, 1, 0}})
		}
	}
	// integer columns are sized by the column type, whatever the width of the Go integer written (int16, int32 and
	// int64 values into int2, int4 and int8 columns, both formats)
	{
		cols := []colT{{name: []byte("s"), oid: 21}, {name: []byte("i"), oid: 23}, {name: []byte("b"), oid: 20}}
		var rows [][]valT
		for _, n := range []int64{0, 1, -1, 12, 255, 256, 32767, -32768} {
			for _, kinds := range [][3]string{{"int2", "int2", "int2"}, {"int4", "int4", "int4"}, {"int8", "int8", "int8"}, {"int8", "int2", "int4"}, {"int4", "int8", "int2"}} {
				rows = append(rows, []valT{{kind: kinds[0], n: n}, {kind: kinds[1], n: n}, {kind: kinds[2], n: n}})
			}
		}
		for i := 0; i < len(rows); i += 10 {
			run("int_widths", cols, rows[i:min(i+10, len(rows))], [][]int{nil, {1}, {1, 0, 1}})
		}
	}
	// a portal keeps the statement it was bound to: the statement name is prepared again with another query
	// (other columns, other rows) between Bind/Describe and Execute — the rows that arrive are the rows of the
	// statement the portal was described with, NULLs included
	{
		cols := []colT{{name: []byte("n"), oid: 23}, {name: []byte("t"), oid: 25}}
		st := stmtT{id: 1, cols: cols, ret: "nil", prog: []opT{{kind: "row", vals: []valT{{kind: "int4", n: 1}, tv("one")}}, {kind: "row", vals: []valT{{kind: "nil"}, {kind: "nilptr"}}},
			{kind: "row", vals: []valT{{kind: "int4", n: -3}, tv("")}}, {kind: "complete", tag: []byte("SELECT 3")}}}
		other := stmtT{id: 2, cols: []colT{{name: []byte("a"), oid: 25}, {name: []byte("b"), oid: 25}, {name: []byte("c"), oid: 16}}, ret: "nil",
			prog: []opT{{kind: "row", vals: []valT{tv("x"), tv("y"), {kind: "bool", n: 1}}}, {kind: "complete", tag: []byte("SELECT 1")}}}
		cfg := cfgT{limit: 4096, auth: "none", term: "none", parse: []parseEntry{{query: []byte("q"), stmts: []stmtT{st}}, {query: []byte("q2"), stmts: []stmtT{other}}}}
		for _, sn := range [][]byte{nil, []byte("s")} {
			for _, rf := range [][]int{nil, {1}, {1, 0}} {
				pn := []byte("p")
				emitSession(c, lockCase(id, "reprepare", cfg, stdStartup, [][]byte{mParse(sn, []byte("q"), 0), mBind(pn, sn, nil, nil, rf), mDescribe('P', pn),
					mParse(sn, []byte("q2"), 0), mExecute(pn, 0), mSync(), mParse(sn, []byte("q"), 0), mBind(nil, sn, nil, nil, rf), mDescribe('P', nil), mClose('S', sn), mParse(sn, []byte("q2"), 0), mExecute(nil, 0), mSync()}))
				id++
			}
		}
	}
	// every placement of the three NULL kinds in rows of width <= W
	W := 3
	if c.tier == "thorough" {
		W = 5
	}
	for w := 1; w <= W; w++ {
		var cols []colT
		for i := 0; i < w; i++ {
			cols = append(cols, colT{name: []byte(fmt.Sprintf("c%d", i)), oid: []int{25, 23, 17, 16, 20}[i%5]})
		}
		// each cell: value or one of 3 NULL kinds -> 4^w rows
		total := 1
		for i := 0; i < w; i++ {
			total *= 4
		}
		var rows [][]valT
		for k := 0; k < total; k++ {
			var row []valT
			x := k
			for i := 0; i < w; i++ {
				d := x % 4
				x /= 4
				if d == 3 {
					vs := typeValues(cols[i].oid)
					row = append(row, vs[(k+i)%len(vs)])
				} else {
					row = append(row, nulls[d])
				}
			}
			rows = append(rows, row)
		}
		var pos []int
		for i := 0; i < w; i++ {
			pos = append(pos, i%2)
		}
		run("nulls", cols, rows, [][]int{nil, {1}, pos})
	}
	// random tables
	n := 150
	if c.tier == "thorough" {
		n = 4000
	}
	for i := 0; i < n; i++ {
		w := 1 + g.rng.Intn(5)
		var cols []colT
		hasFloat := false
		for j := 0; j < w; j++ {
			o := types[g.rng.Intn(len(types))]
			if o == 700 || o == 701 {
				hasFloat = true
			}
			cols = append(cols, colT{name: []byte(fmt.Sprintf("c%d", j)), oid: o})
		}
		var rows [][]valT
		for r := g.rng.Intn(5); r >= 0; r-- {
			var row []valT
			for _, cc := range cols {
				if g.chance(0.2) {
					row = append(row, nulls[g.rng.Intn(3)])
				} else {
					vs := typeValues(cc.oid)
					row = append(row, vs[g.rng.Intn(len(vs))])
				}
			}
			rows = append(rows, row)
		}
		if hasFloat {
			run("random", cols, rows, [][]int{{1}})
		} else {
			var pos []int
			for j := 0; j < w; j++ {
				pos = append(pos, g.rng.Intn(2))
			}
			run("random", cols, rows, [][]int{nil, {1}, pos})
		}
	}
	return nil
}
