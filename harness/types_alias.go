package main

import "github.com/jeroenrinzema/psql-wire/pkg/types"

func typesClientMessage(b byte) types.ClientMessage { return types.ClientMessage(b) }
