package main

import (
	"os"
	"bytes"
	"fmt"
	"strings"
)

// ---------------- C07 ----------------
func init() { runners["C07"] = runC07 }

func namesCfg() cfgT {
	mk := func(id int, ncols int, tag string) stmtT {
		cols := textCols(ncols)
		row := opT{kind: "row"}
		for i := 0; i < ncols; i++ {
			row.vals = append(row.vals, tv(fmt.Sprintf("%s%d", tag, i)))
		}
		prog := []opT{}
		if ncols > 0 {
			prog = append(prog, row)
		}
		prog = append(prog, opT{kind: "complete", tag: []byte(tag)})
		return stmtT{id: id, cols: cols, poids: []int{23, 25}[:id%3%2+0], prog: prog, ret: "nil"}
	}
	return cfgT{limit: 512, auth: "none", term: "none", parse: []parseEntry{
		{query: []byte("q1"), stmts: []stmtT{{id: 1, cols: []colT{{name: []byte("n"), oid: 23}}, poids: []int{23},
			prog: []opT{{kind: "row", vals: []valT{{kind: "int4", n: 42}}}, {kind: "complete", tag: []byte("one")}}, ret: "nil"}}},
		{query: []byte("q2"), stmts: []stmtT{mk(2, 2, "two")}},
		{query: []byte("q3"), stmts: []stmtT{mk(3, 0, "three")}},
	}}
}

func runC07(c *runCfg) error {
	if c.replay != "" {
		return replaySessions(c)
	}
	g := &gen{rng: c.rng}
	id := 0
	cfg := namesCfg()
	names := [][]byte{[]byte(""), []byte("a")}
	var alphabet [][]byte
	for _, n := range names {
		for _, q := range []string{"q1", "q2"} {
			alphabet = append(alphabet, mParse(n, []byte(q), 0))
		}
	}
	for _, p := range names {
		for _, s := range names {
			alphabet = append(alphabet, mBind(p, s, nil, []bindP{{v: append([]byte("p"), append(p, s...)...)}}, nil))
		}
	}
	// binds that differ only in their result formats (re-binding, two live portals)
	for _, p := range names {
		alphabet = append(alphabet, mBind(p, names[0], nil, nil, []int{1}), mBind(p, names[1], []int{1}, []bindP{{v: []byte{0, 0, 0, 7}}}, []int{0}))
	}
	for _, n := range names {
		alphabet = append(alphabet, mDescribe('S', n), mDescribe('P', n), mExecute(n, 0), mClose('S', n), mClose('P', n))
	}
	alphabet = append(alphabet, mSync())
	// corpus: the witnesses — rebind after re-parse, execute after close
	corpus := [][]int{
		{0, 4, 1, 12, 19},  // Parse ""=q1, Bind, Parse ""=q2, Execute runs q1
		{0, 4, 11, 12, 19}, // Close S "" then Execute still runs the bound statement
		{0, 4, 13 - 1, 12, 19},
		{0, 4, 9 + 4, 12, 19}, // Close P "" then Execute errs
	}
	for _, h := range corpus {
		var msgs [][]byte
		for _, k := range h {
			msgs = append(msgs, alphabet[k%len(alphabet)])
		}
		emitSession(c, lockCase(id, "corpus", cfg, stdStartup, msgs))
		id++
	}
	L := 3
	if c.tier == "thorough" {
		L = 4
	}
	idx := make([]int, L)
	for {
		var msgs [][]byte
		for _, k := range idx {
			msgs = append(msgs, alphabet[k])
		}
		// a final Execute of both portals shows what the names resolve to
		msgs = append(msgs, mSync(), mDescribe('P', names[0]), mExecute(names[0], 0), mSync(), mDescribe('P', names[1]), mExecute(names[1], 0), mSync(), mDescribe('S', names[0]), mSync(), mDescribe('S', names[1]), mSync())
		if c.shards <= 1 || id%c.shards == c.shard {
			emitSession(c, lockCase(id, "exhaustive", cfg, stdStartup, msgs))
		}
		id++
		p := L - 1
		for p >= 0 {
			idx[p]++
			if idx[p] < len(alphabet) {
				break
			}
			idx[p] = 0
			p--
		}
		if p < 0 {
			break
		}
	}
	// long names: 63, 64, 65 and 300 bytes, and pairs of names that share their first 63 (and 64) bytes are
	// different names — defining, re-defining and closing one does not touch the other
	{
		lcfg := namesCfg()
		lcfg.limit = 4096
		for _, n := range []int{62, 63, 64, 65, 300} {
			a := []byte(strings.Repeat("n", n) + "_one")
			b := []byte(strings.Repeat("n", n) + "_two")
			for _, h := range [][][]byte{
				{mParse(a, []byte("q1"), 0), mParse(b, []byte("q2"), 0), mDescribe('S', a), mDescribe('S', b), mBind(a, a, nil, nil, nil), mBind(b, b, nil, nil, nil), mExecute(a, 0), mExecute(b, 0), mSync()},
				{mParse(a, []byte("q1"), 0), mParse(b, []byte("q2"), 0), mClose('S', b), mDescribe('S', a), mBind(a, a, nil, nil, nil), mClose('P', b), mExecute(a, 0), mSync(), mDescribe('S', b), mSync()},
				{mParse(a, []byte("q2"), 0), mBind(a, a, nil, nil, nil), mBind(b, a, nil, nil, []int{1}), mClose('P', a), mExecute(b, 0), mDescribe('P', a), mSync()},
			} {
				emitSession(c, lockCase(id, "long_names", lcfg, stdStartup, h))
				id++
			}
		}
	}
	// names, portals and bound values are used again after kilobytes of other traffic on the connection (queries
	// of 100..1500 bytes each, 2..40 KiB in total, with and without longer names): they still resolve to what was defined
	{
		fcfg := namesCfg()
		fcfg.limit = 8192
		for _, total := range []int{2000, 4000, 4096, 5000, 9000, 20000, 40000} {
			for _, each := range []int{100, 1000, 1500} {
				for _, nm := range [][]byte{[]byte("a"), []byte("portal_with_a_longer_name"), nil} {
					msgs := [][]byte{mParse(nm, []byte("q2"), 0), mBind(nm, nm, nil, []bindP{{v: bytes.Repeat([]byte("v"), 40)}, {v: []byte("second")}}, nil), mSync()}
					for sent := 0; sent < total; sent += each {
						msgs = append(msgs, mQuery(append([]byte("q1 "), bytes.Repeat([]byte{byte('a' + sent/each%26)}, each)...)))
					}
					msgs = append(msgs, mDescribe('P', nm), mExecute(nm, 0), mDescribe('S', nm), mSync(), mBind([]byte("other"), nm, nil, nil, nil), mExecute([]byte("other"), 0), mSync())
					emitSession(c, lockCase(id, "far", fcfg, stdStartup, msgs))
					id++
				}
			}
		}
	}
	// several connections deliberately using the same names, every interleaving of their messages sampled
	rounds := 150
	if c.tier == "thorough" {
		rounds = 3000
	}
	for r := 0; r < rounds; r++ {
		var cases []*caseT
		for k := 0; k < 2+g.rng.Intn(2); k++ {
			var msgs [][]byte
			for j := 3 + g.rng.Intn(5); j > 0; j-- {
				msgs = append(msgs, alphabet[g.rng.Intn(len(alphabet))])
			}
			msgs = append(msgs, mSync(), mExecute(names[0], 0), mExecute(names[1], 0), mSync())
			cs := lockCase(0, "concurrent", cfg, startupMsg("user", fmt.Sprintf("u%d", k)), msgs)
			cs.id = fmt.Sprintf("%d.%d", id, k)
			cases = append(cases, cs)
		}
		emitMulti(c, "concurrent", cases, g.schedule(cases), false)
		id++
	}
	// connections that have come and gone (Terminate, or just a hang-up) before the next ones start:
	// whatever the server keeps of a finished connection must not reach a later one
	rounds = 60
	if c.tier == "thorough" {
		rounds = 1200
	}
	for r := 0; r < rounds; r++ {
		var cases []*caseT
		var sched []int
		early := 1 + g.rng.Intn(2)
		for k := 0; k < early+2; k++ {
			var msgs [][]byte
			for j := 2 + g.rng.Intn(4); j > 0; j-- {
				msgs = append(msgs, alphabet[g.rng.Intn(len(alphabet))])
			}
			if k < early {
				if (r+k)%3 != 0 {
					msgs = append(msgs, mTerminate())
				}
			} else {
				msgs = append(msgs, mSync(), mExecute(names[0], 0), mExecute(names[1], 0), mDescribe('S', names[1]), mSync())
			}
			cs := lockCase(0, "after_gone", cfg, startupMsg("user", fmt.Sprintf("u%d", k)), msgs)
			cs.id = fmt.Sprintf("%d.%d", id, k)
			cases = append(cases, cs)
			if k < early {
				for range cs.chunks {
					sched = append(sched, k)
				}
			}
		}
		sched = append(sched, g.schedule(cases[early:])...)
		// g.schedule numbers the later connections from 0: shift them
		for i := len(sched) - 1; i >= 0 && i >= len(sched)-len(g.scheduleLen(cases[early:])); i-- {
			sched[i] += early
		}
		emitMulti(c, "after_gone", cases, sched, false)
		id++
	}
	n := 500
	if c.tier == "thorough" {
		n = 10000
	}
	for i := 0; i < n; i++ {
		var msgs [][]byte
		for k := 4 + g.rng.Intn(14); k > 0; k-- {
			msgs = append(msgs, alphabet[g.rng.Intn(len(alphabet))])
		}
		emitSession(c, lockCase(id, "random", cfg, stdStartup, msgs))
		id++
	}
	return nil
}

// ---------------- C08 ----------------
func init() { runners["C08"] = runC08 }

func runC08(c *runCfg) error {
	if c.replay != "" {
		return replaySessions(c)
	}
	g := &gen{rng: c.rng}
	id := 0
	mkCfg := func(ncols int, poids []int) cfgT {
		cols := textCols(ncols)
		row := opT{kind: "row"}
		for i := 0; i < ncols; i++ {
			row.vals = append(row.vals, tv("v"))
		}
		st := stmtT{id: 7, cols: cols, poids: poids, prog: []opT{row, {kind: "complete", tag: []byte("SELECT 1")}}, ret: "nil"}
		if ncols == 0 {
			st.prog = st.prog[1:]
		}
		return cfgT{limit: 1 << 20, auth: "none", term: "none", parse: []parseEntry{{query: []byte("q"), stmts: []stmtT{st}}}}
	}
	values := func(n int, nullAt int) []bindP {
		var ps []bindP
		for i := 0; i < n; i++ {
			switch {
			case i == nullAt:
				ps = append(ps, bindP{null: true})
			case i%5 == 1:
				ps = append(ps, bindP{v: []byte{}})
			case i%5 == 2:
				ps = append(ps, bindP{v: []byte{0, 1, 0, 255}})
			case i%5 == 3:
				ps = append(ps, bindP{v: []byte(fmt.Sprintf("value-%d-with-some-length", i))})
			case i%10 == 4:
				ps = append(ps, bindP{v: []byte("ends with NUL\x00")})
			case i%10 == 9:
				ps = append(ps, bindP{v: []byte{0}})
			default:
				ps = append(ps, bindP{v: []byte(fmt.Sprint(i))})
			}
		}
		return ps
	}
	run := func(class string, cfg cfgT, pf []int, ps []bindP, rf []int) {
		msgs := [][]byte{mParse(nil, []byte("q"), 0), mDescribe('S', nil), mBind(nil, nil, pf, ps, rf), mDescribe('P', nil), mExecute(nil, 0), mSync()}
		emitSession(c, lockCase(id, class, cfg, stdStartup, msgs))
		id++
	}
	counts := []int{0, 1, 2, 3, 17}
	if c.tier == "thorough" {
		counts = append(counts, 300, 65535)
	}
	fmts := func(n int, kind int) []int {
		switch kind {
		case 0:
			return nil
		case 1:
			return []int{1}
		case 2:
			return []int{0}
		case 3: // positional
			var f []int
			for i := 0; i < n; i++ {
				f = append(f, i%2)
			}
			return f
		default: // a count that is neither 0, 1 nor n
			return []int{1, 0}
		}
	}
	for _, n := range counts {
		for nullAt := -1; nullAt < n && nullAt < 4; nullAt++ {
			for pk := 0; pk < 5; pk++ {
				for _, ncols := range []int{0, 1, 3} {
					for rk := 0; rk < 5; rk++ {
						if c.tier != "thorough" && (n+nullAt+pk+ncols+rk)%3 != 0 {
							continue
						}
						if n >= 300 && n < 65535 && (nullAt+pk+ncols+rk)%5 != 0 {
							continue // the large vectors (megabytes per case): a fifth of the combinations
						}
						if n >= 65535 && !(ncols == 1 && rk == 0 && (nullAt == -1 || nullAt == 2) && (pk == 0 || pk == 1 || pk == 3)) {
							continue // the model and the oracle are quadratic in positional format lists: six cases at the protocol maximum
						}
						poids := []int{}
						for i := 0; i < n && i < 5; i++ {
							poids = append(poids, []int{23, 25, 16, 0}[i%4])
						}
						run("enum", mkCfg(ncols, poids), fmts(n, pk), values(n, nullAt), fmts(ncols, rk))
					}
				}
			}
		}
	}
	// value lengths: around typical internal buffer sizes (a value is never cut, padded or shared)
	for _, n := range []int{255, 256, 1023, 1024, 1025, 2048, 3000, 4095, 4096, 4097, 8193, 65535, 65536, 70001} {
		for _, f := range []int{0, 1} {
			big := make([]byte, n)
			for i := range big {
				big[i] = byte('a' + (i*7+n)%26)
			}
			other := make([]byte, n/2+1)
			for i := range other {
				other[i] = byte(i * 13)
			}
			ps := []bindP{{v: []byte("head")}, {v: big}, {null: true}, {v: other}, {v: big[:n-1]}}
			poids := []int{25, 25, 0, 17, 25}
			run("longvalue", mkCfg(1, poids), []int{f}, ps, nil)
			run("longvalue", mkCfg(1, poids), []int{0, f, 1, 1, f}, ps, []int{1})
		}
	}
	// re-binding a portal with other result formats; two live portals with different formats
	{
		intCfg := cfgT{limit: 1 << 20, auth: "none", term: "none", parse: []parseEntry{{query: []byte("q"), stmts: []stmtT{{id: 9,
			cols: []colT{{name: []byte("n"), oid: 23}, {name: []byte("t"), oid: 25}}, poids: []int{23},
			prog: []opT{{kind: "row", vals: []valT{{kind: "int4", n: 20}, tv("x")}}, {kind: "complete", tag: []byte("SELECT 1")}}, ret: "nil"}}}}}
		for _, a := range [][]int{nil, {0}, {1}, {1, 0}, {0, 1}} {
			for _, b := range [][]int{nil, {0}, {1}, {1, 0}, {0, 1}} {
				msgs := [][]byte{mParse([]byte("s"), []byte("q"), 0),
					mBind([]byte("x"), []byte("s"), nil, nil, a), mBind([]byte("x"), []byte("s"), nil, nil, b),
					mDescribe('P', []byte("x")), mExecute([]byte("x"), 0), mSync(),
					mBind([]byte("p1"), []byte("s"), nil, nil, a), mBind([]byte("p2"), []byte("s"), nil, nil, b),
					mDescribe('P', []byte("p1")), mExecute([]byte("p1"), 0), mDescribe('P', []byte("p2")), mExecute([]byte("p2"), 0), mSync()}
				emitSession(c, lockCase(id, "rebind", intCfg, stdStartup, msgs))
				id++
			}
		}
	}
	// every Bind message: also those naming statements and portals by long names that agree in their first 63, 64,
	// 127 or 255 bytes — each portal keeps ITS statement, parameters and formats
	for _, pre := range []int{62, 63, 64, 127, 255} {
		one := stmtT{id: 21, cols: textCols(1), poids: []int{23}, prog: []opT{{kind: "row", vals: []valT{tv("one")}}, {kind: "complete", tag: []byte("SELECT 1")}}, ret: "nil"}
		two := stmtT{id: 22, cols: textCols(2), poids: []int{25, 16}, prog: []opT{{kind: "row", vals: []valT{tv("two"), tv("2")}}, {kind: "complete", tag: []byte("SELECT 2")}}, ret: "nil"}
		cfg := cfgT{limit: 1 << 20, auth: "none", term: "none", parse: []parseEntry{{query: []byte("select one"), stmts: []stmtT{one}}, {query: []byte("select two"), stmts: []stmtT{two}}}}
		stem := bytes.Repeat([]byte("n"), pre)
		sA, sB := append(append([]byte{}, stem...), 'A'), append(append([]byte{}, stem...), 'B')
		pA, pB := append(append([]byte{}, stem...), "_pa"...), append(append([]byte{}, stem...), "_pb"...)
		msgs := [][]byte{mParse(sA, []byte("select one"), 0), mParse(sB, []byte("select two"), 0), mDescribe('S', sA), mDescribe('S', sB),
			mBind(pA, sA, []int{0}, []bindP{{v: []byte("1")}}, nil), mBind(pB, sB, []int{0, 1}, []bindP{{v: []byte("text")}, {v: []byte{1}}}, []int{1}),
			mDescribe('P', pA), mExecute(pA, 0), mDescribe('P', pB), mExecute(pB, 0), mSync(),
			mClose('P', pB), mExecute(pA, 0), mClose('S', sB), mDescribe('S', sA), mSync()}
		emitSession(c, lockCase(id, "long_prefix_names", cfg, stdStartup, msgs))
		id++
	}
	// statements declaring many parameter types (the 16-bit count of ParameterDescription)
	for _, n := range []int{255, 256, 32767, 32768, 40000, 65535} {
		poids := make([]int, n)
		for i := range poids {
			poids[i] = []int{0, 23, 25}[i%3]
		}
		cfg := mkCfg(1, poids)
		emitSession(c, lockCase(id, "manyparams", cfg, stdStartup, [][]byte{mParse(nil, []byte("q"), 0), mDescribe('S', nil), mSync()}))
		id++
	}
	// Parse messages that prespecify parameter types (fewer, as many, more than declared; zero and
	// non-zero OIDs): the statement's Describe still announces the declared types
	for pi, poids := range [][]int{nil, {23}, {23, 25}, {0, 0, 0}, {16, 17, 20, 21}} {
		for oi, oids := range [][]uint32{{25}, {25, 0}, {0, 17, 16}, {23, 23, 23, 23, 23, 23}, {4294967295}, {0}} {
			if c.tier != "thorough" && (pi+oi)%2 != 0 {
				continue
			}
			cfg := mkCfg(1, poids)
			msgs := [][]byte{mParseOids([]byte("s"), []byte("q"), oids), mDescribe('S', []byte("s")), mBind(nil, []byte("s"), nil, values(len(poids), -1), nil),
				mDescribe('P', nil), mExecute(nil, 0), mSync(), mParseOids(nil, []byte("q"), oids), mDescribe('S', nil), mSync()}
			emitSession(c, lockCase(id, "parseoids", cfg, stdStartup, msgs))
			id++
		}
	}
	// two (three) portals alive at once: each must keep the values, NULLs and format tags of its own Bind
	// whatever later Binds carry (fewer, as many, more parameters; other formats)
	for _, n1 := range []int{1, 3, 17} {
		for _, n2 := range []int{0, 1, 3, 17, 20} {
			for k1 := 0; k1 < 4; k1++ {
				if c.tier != "thorough" && (n1+n2+k1)%2 != 0 {
					continue
				}
				cfg := mkCfg(2, nil)
				ps2 := values(n2, n2/2)
				for i := range ps2 {
					if !ps2[i].null {
						ps2[i].v = append([]byte("second-"), ps2[i].v...)
					}
				}
				msgs := [][]byte{mParse([]byte("s"), []byte("q"), 0),
					mBind([]byte("p1"), []byte("s"), fmts(n1, k1), values(n1, 0), []int{0}),
					mBind([]byte("p2"), []byte("s"), fmts(n2, (k1+1)%4), ps2, []int{1}),
					mBind(nil, []byte("s"), fmts(n1, (k1+2)%4), values(n1, n1-1), nil),
					mExecute([]byte("p1"), 0), mDescribe('P', []byte("p1")), mExecute([]byte("p2"), 0), mExecute(nil, 0), mExecute([]byte("p1"), 0), mSync()}
				emitSession(c, lockCase(id, "portals", cfg, stdStartup, msgs))
				id++
			}
		}
	}
	// inadmissible codes: outside {0,1}
	run("badcode", mkCfg(2, nil), []int{2}, values(2, -1), []int{7, 65535})
	run("badcode", mkCfg(1, nil), []int{65535, 3}, values(2, 0), []int{2})
	nr := 300
	if c.tier == "thorough" {
		nr = 6000
	}
	for i := 0; i < nr; i++ {
		n := g.rng.Intn(8)
		var ps []bindP
		for j := 0; j < n; j++ {
			ps = append(ps, bindP{null: g.chance(0.2), v: g.bytesN(g.rng.Intn(12))})
		}
		ncols := g.rng.Intn(4)
		var poids []int
		for j := g.rng.Intn(4); j > 0; j-- {
			poids = append(poids, g.rng.Intn(3000))
		}
		run("random", mkCfg(ncols, poids), fmts(n, g.rng.Intn(5)), ps, fmts(ncols, g.rng.Intn(5)))
	}
	return nil
}

// Sync and Flush messages that carry a body (legal framing) inside a COPY: within the limit the body belongs to the
// ignored message — whatever it spells (a CopyData smuggling a row in, a CopyDone ending the copy early); above the
// limit the message is refused like any oversized message, its body skipped in full. Used by C13, C03 and C10.
func copyBodyCases(limit int) (cfgT, [][][]byte) {
	prog := []opT{{kind: "copyin", fmt: 0}}
	for i := 0; i < 6; i++ {
		prog = append(prog, opT{kind: "copyread"})
	}
	prog = append(prog, opT{kind: "complete", tag: []byte("COPY")})
	st := stmtT{id: 8, cols: textCols(1), prog: prog, stop: true, ret: "last"}
	cfg := cfgT{limit: limit, auth: "none", term: "none", parse: []parseEntry{{query: []byte("copy"), stmts: []stmtT{st}}, {query: []byte("select 1"), stmts: simpleCfg(limit).parse[0].stmts}}}
	smuggleData := mCopyData([]byte("666"))
	smuggleDone := mCopyDone()
	big := make([]byte, limit+9)
	copy(big, cat(mCopyData([]byte("777")), mCopyDone(), mQuery([]byte("select 1"))))
	var out [][][]byte
	for _, t := range []byte{'S', 'H'} {
		for _, ext := range []bool{false, true} {
			lead := [][]byte{mQuery([]byte("copy"))}
			if ext {
				lead = [][]byte{mParse(nil, []byte("copy"), 0), mBind(nil, nil, nil, nil, nil), mExecute(nil, 0)}
			}
			for _, body := range [][]byte{smuggleData, smuggleDone, {0}, cat(smuggleDone, mQuery([]byte("select 1"))), big} {
				msgs := append([][]byte{}, lead...)
				msgs = append(msgs, mCopyData([]byte("1")), msg(t, body), mCopyData([]byte("2")), mCopyDone(), mSync(), mQuery([]byte("select 1")))
				out = append(out, msgs)
			}
		}
	}
	return cfg, out
}

// ---------------- C13 ----------------
func init() { runners["C13"] = runC13 }

func runC13(c *runCfg) error {
	if c.replay != "" {
		if b, err := os.ReadFile(c.replay); err == nil && bytes.Contains(b, []byte("(c14 ")) {
			return replayC14(c)
		}
		return replaySessions(c)
	}
	runC13binary(c)
	g := &gen{rng: c.rng}
	id := 0
	limit := 48
	mkCfg := func(ncols, fmtc, reads int, ret string, stop bool, after []opT) cfgT {
		prog := []opT{{kind: "copyin", fmt: fmtc}}
		for i := 0; i < reads; i++ {
			prog = append(prog, opT{kind: "copyread"})
		}
		prog = append(prog, after...)
		st := stmtT{id: 5, cols: textCols(ncols), prog: prog, stop: stop, ret: ret}
		if ret == "err" {
			st.rerr = &errT{kind: "code", a: []byte("57014"), inner: &errT{kind: "base", a: []byte("copy handler failed")}}
		}
		return cfgT{limit: limit, auth: "none", term: "none", parse: []parseEntry{{query: []byte("copy"), stmts: []stmtT{st}}, {query: []byte("select 1"), stmts: simpleCfg(limit).parse[0].stmts}}}
	}
	payloads := [][]byte{[]byte("a,b\n"), {}, []byte("second chunk"), make([]byte, limit)}
	alphabet := [][]byte{
		mCopyData(payloads[0]), mCopyData(payloads[1]), mCopyData(payloads[2]), mCopyData(payloads[3]),
		mCopyDone(), mCopyFail([]byte("client gave up")), mFlush(), mSync(),
		mQuery([]byte("select 1")), mTerminate(), msg('d', make([]byte, limit+9)), msg('f', []byte("no terminator")),
	}
	L := 3
	if c.tier == "thorough" {
		L = 4
	}
	complete := []opT{{kind: "complete", tag: []byte("COPY 1")}}
	variants := []struct {
		reads int
		ret   string
		stop  bool
		after []opT
	}{
		{0, "nil", false, complete}, {1, "last", true, complete}, {2, "last", true, complete}, {3, "nil", false, complete},
		{4, "last", false, complete}, {2, "err", false, nil}, {5, "last", true, nil},
	}
	idx := make([]int, L)
	for {
		var sub [][]byte
		for _, k := range idx {
			sub = append(sub, alphabet[k])
		}
		for vi, v := range variants {
			if c.tier != "thorough" && (id+vi)%3 != 0 {
				continue
			}
			for _, ext := range []bool{false, true} {
				cfg := mkCfg(1+vi%3, vi%2, v.reads, v.ret, v.stop, v.after)
				var msgs [][]byte
				if ext {
					rf := [][]int{nil, {1}, {0}, {1, 0, 1}}[(id+vi)%4]
					msgs = append(msgs, mParse(nil, []byte("copy"), 0), mBind(nil, nil, nil, nil, rf), mExecute(nil, 0))
				} else {
					msgs = append(msgs, mQuery([]byte("copy")))
				}
				msgs = append(msgs, sub...)
				msgs = append(msgs, mSync(), mQuery([]byte("select 1")))
				emitSession(c, lockCase(id, "exhaustive", cfg, stdStartup, msgs))
			}
		}
		id++
		p := L - 1
		for p >= 0 {
			idx[p]++
			if idx[p] < len(alphabet) {
				break
			}
			idx[p] = 0
			p--
		}
		if p < 0 {
			break
		}
	}
	// payloads that look like something else: the textual end-of-data marker, line ends, the binary signature
	// and trailer, protocol messages, a lone NUL. A payload is data whatever it spells, in both formats.
	{
		special := [][]byte{[]byte("\\.\n"), []byte("\\."), []byte("\\.\r\n"), []byte("\n"), []byte("\r\n"), {0}, {0xff, 0xff}, []byte("PGCOPY\n\377\r\n\000"),
			mCopyDone(), mSync(), mCopyFail([]byte("x")), []byte("1\tfoo"), []byte("\\N"), []byte("\\.\n\\.\n")}
		for si, sp := range special {
			for _, f := range []int{0, 1} {
				for _, ext := range []bool{false, true} {
					cfg := mkCfg(2, f, 5, "last", true, complete)
					var msgs [][]byte
					if ext {
						msgs = append(msgs, mParse(nil, []byte("copy"), 0), mBind(nil, nil, nil, nil, nil), mExecute(nil, 0))
					} else {
						msgs = append(msgs, mQuery([]byte("copy")))
					}
					msgs = append(msgs, mCopyData([]byte("1\tfoo")), mCopyData(sp), mCopyData([]byte("2\tbar\n")), mCopyData(special[(si+1)%len(special)]), mCopyDone(), mSync(), mQuery([]byte("select 1")))
					emitSession(c, lockCase(id, "payloads", cfg, stdStartup, msgs))
					id++
				}
			}
		}
	}
	// a COPY handler that fails with (or wraps) one of the well-known reader/connection errors while the connection
	// is alive: reported like any other error — one ErrorResponse, one ReadyForQuery — and the session goes on
	for _, e := range []*errT{{kind: "base", a: []byte("EOF")}, {kind: "base", a: []byte("unexpected EOF")}, {kind: "base", a: []byte("use of closed network connection")},
		{kind: "wrap", a: []byte("copy: "), inner: &errT{kind: "base", a: []byte("unexpected EOF")}},
		{kind: "code", a: []byte("57014"), inner: &errT{kind: "wrap", a: []byte("reading row 2: "), inner: &errT{kind: "base", a: []byte("EOF")}}}} {
		for _, ext := range []bool{false, true} {
			for _, reads := range []int{0, 2} {
				cfg := mkCfg(2, 1, reads, "err", false, nil)
				cfg.parse[0].stmts[0].rerr = e
				var msgs [][]byte
				if ext {
					msgs = append(msgs, mParse(nil, []byte("copy"), 0), mBind(nil, nil, nil, nil, nil), mExecute(nil, 0))
				} else {
					msgs = append(msgs, mQuery([]byte("copy")))
				}
				msgs = append(msgs, mCopyData([]byte("ab")), mCopyData([]byte("cd")), mCopyDone(), mSync(), mQuery([]byte("select 1")), mQuery([]byte("copy")), mSync())
				emitSession(c, lockCase(id, "eof_like_error", cfg, stdStartup, msgs))
				id++
			}
		}
	}
	{
		bcfg, hs := copyBodyCases(limit)
		for _, h := range hs {
			emitSession(c, lockCase(id, "sync_flush_bodies", bcfg, stdStartup, h))
			id++
		}
	}
	// a handler that copies in twice on one result writer (two rounds, other format): each round is announced by its
	// own CopyInResponse with the format requested for that round
	for _, f := range [][2]int{{0, 1}, {1, 0}, {0, 0}, {1, 1}} {
		for _, ext := range []bool{false, true} {
			prog := []opT{{kind: "copyin", fmt: f[0]}, {kind: "copyread"}, {kind: "copyread"}, {kind: "copyin", fmt: f[1]}, {kind: "copyread"}, {kind: "copyread"}, {kind: "copyread"}, {kind: "complete", tag: []byte("COPY 3")}}
			st := stmtT{id: 6, cols: textCols(2), prog: prog, stop: false, ret: "nil"}
			cfg := cfgT{limit: limit, auth: "none", term: "none", parse: []parseEntry{{query: []byte("copy"), stmts: []stmtT{st}}, {query: []byte("select 1"), stmts: simpleCfg(limit).parse[0].stmts}}}
			var msgs [][]byte
			if ext {
				msgs = append(msgs, mParse(nil, []byte("copy"), 0), mBind(nil, nil, nil, nil, []int{1}), mExecute(nil, 0))
			} else {
				msgs = append(msgs, mQuery([]byte("copy")))
			}
			msgs = append(msgs, mCopyData([]byte("first")), mCopyDone(), mCopyData([]byte("second")), mFlush(), mCopyData([]byte("third")), mCopyDone(), mSync(), mQuery([]byte("select 1")))
			emitSession(c, lockCase(id, "two_copies", cfg, stdStartup, msgs))
			id++
		}
	}
	// wide tables: the CopyInResponse announces one format code per declared column, whatever the count
	for _, ncols := range []int{8, 16, 31, 32, 33, 63, 64, 65, 96, 97, 100, 255, 256, 257, 1000, 1600} {
		for _, f := range []int{0, 1} {
			cfg := mkCfg(ncols, f, 2, "last", true, complete)
			emitSession(c, lockCase(id, "wide_copy", cfg, stdStartup, [][]byte{mQuery([]byte("copy")), mCopyData([]byte("x")), mCopyDone(), mSync(),
				mParse(nil, []byte("copy"), 0), mBind(nil, nil, nil, nil, []int{1 - f}), mExecute(nil, 0), mCopyFail([]byte("no")), mSync()}))
			id++
		}
	}
	// "the requested format for each declared column": whatever the declared types — built-in ones, types the
	// connection's type map does not know (user-defined types, enums), zero
	for _, oids := range [][]int{{23, 99999, 25}, {99999}, {0, 23}, {16, 600000, 700000, 25}, {2950, 3802, 16384}} {
		for _, f := range []int{0, 1} {
			cfg := mkCfg(len(oids), f, 2, "last", true, complete)
			for i, o := range oids {
				cfg.parse[0].stmts[0].cols[i].oid = o
			}
			emitSession(c, lockCase(id, "copy_unknown_types", cfg, stdStartup, [][]byte{mQuery([]byte("copy")), mCopyData([]byte("x")), mCopyDone(), mSync(),
				mParse(nil, []byte("copy"), 0), mBind(nil, nil, nil, nil, nil), mExecute(nil, 0), mCopyFail([]byte("no")), mSync()}))
			id++
		}
	}
	// zero columns: CopyIn must fail; stray copy messages outside copy mode
	emitSession(c, lockCase(id, "nocols", mkCfg(0, 0, 1, "last", true, nil), stdStartup, [][]byte{mQuery([]byte("copy")), mCopyData([]byte("x")), mCopyDone(), mSync()}))
	id++
	emitSession(c, lockCase(id, "stray", mkCfg(1, 0, 0, "nil", false, complete), stdStartup, [][]byte{mCopyData([]byte("x")), mCopyDone(), mCopyFail([]byte("f")), mSync(), mQuery([]byte("select 1"))}))
	id++
	n := 300
	if c.tier == "thorough" {
		n = 8000
	}
	for i := 0; i < n; i++ {
		v := variants[g.rng.Intn(len(variants))]
		cfg := mkCfg(1+g.rng.Intn(3), []int{0, 1, 1, 7}[g.rng.Intn(4)], g.rng.Intn(7), v.ret, g.chance(0.5), v.after)
		var msgs [][]byte
		msgs = append(msgs, mQuery([]byte("copy")))
		for k := g.rng.Intn(8); k > 0; k-- {
			if g.chance(0.5) {
				msgs = append(msgs, mCopyData(g.bytesN(g.rng.Intn(limit))))
			} else {
				msgs = append(msgs, alphabet[g.rng.Intn(len(alphabet))])
			}
		}
		msgs = append(msgs, mSync())
		emitSession(c, lockCase(id, "random", cfg, stdStartup, msgs))
		id++
	}
	return nil
}
