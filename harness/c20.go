package main

import (
	"bufio"
	"encoding/hex"
	"fmt"
	"os"
	"runtime/metrics"
	"strings"

	wire "github.com/jeroenrinzema/psql-wire"
)

func init() { runners["C20"] = runC20 }

var allocSample = []metrics.Sample{{Name: "/gc/heap/allocs:bytes"}}

func heapAllocs() uint64 {
	metrics.Read(allocSample)
	return allocSample[0].Value.Uint64()
}

// ppObserve calls the real ParseParameters: length of the result (-1 if an OID is not 0),
// whether it panicked, and the bytes it allocated (runtime/metrics, cumulative heap allocations).
func ppObserve(q []byte) (n int, panicked bool, alloc uint64) {
	a0 := heapAllocs()
	defer func() {
		if r := recover(); r != nil {
			panicked = true
		}
		alloc = heapAllocs() - a0
	}()
	res := wire.ParseParameters(string(q))
	for _, o := range res {
		if o != 0 {
			return -1, false, 0
		}
	}
	n = len(res)
	// the caller owns the result: a parse function fills in the types it knows. What it writes must not show
	// up in the result of any other call (every call is followed by this scribble, every result is checked above)
	for i := range res {
		res[i] = 23
	}
	if cap(res) > len(res) {
		ext := res[:cap(res)]
		for i := len(res); i < len(ext); i++ {
			ext[i] = 25
		}
	}
	return n, false, 0
}

// hostile placeholder texts: what a client can put into a Query/Parse message to make the
// statement parser's call of ParseParameters expensive
func hostileQueries() []string {
	return []string{"select $5", "$65535", "$65536", "$70000", "$1000000", "$99999999", "$2147483647", "$2147483648", "$4294967296",
		"$9223372036854775807", "$9223372036854775808", "select $99999999999999999999", "$123456789012345678901234567890",
		strings.Repeat("?", 70000), "$3" + strings.Repeat("?,", 66000), strings.Repeat("$1", 40000), strings.Repeat("$65535,", 3000),
		// the highest index appears only after more than 65535 markers
		strings.Repeat("$1,", 65535) + "$2", strings.Repeat("$1,", 65534) + "$2", strings.Repeat("$1,", 70000) + "$9 $3", strings.Repeat("$2 ", 65536) + "$40000"}
}

func emitPP(c *runCfg, id int, class string, q []byte) {
	setInflight("(c20 " + class + " " + sx("q", q) + ")")
	n, p, a := ppObserve(q)
	c.out.line(sx("c20", id, class, sx("q", q), sx("len", n), sx("panic", p), sx("alloc", int(a))))
	c.stat("class_" + class)
}

func runC20(c *runCfg) error {
	id := 0
	emit := func(class string, q []byte) {
		emitPP(c, id, class, q)
		id++
	}
	if c.replay != "" {
		if err := replaySessions(c); err != nil {
			return err
		}
		f, err := os.Open(c.replay)
		if err != nil {
			return err
		}
		defer f.Close()
		sc := bufio.NewScanner(f)
		sc.Buffer(make([]byte, 1<<20), 1<<26)
		// a result is judged after other calls have been made (and their results written into)
		ppObserve([]byte("select $1, $2, $3 where x = $70"))
		for sc.Scan() {
			l := sc.Text()
			i := strings.Index(l, "(q x")
			if i < 0 {
				continue
			}
			rest := l[i+4:]
			j := strings.IndexByte(rest, ')')
			q, err := hex.DecodeString(rest[:j])
			if err != nil {
				return err
			}
			emit("replay", q)
		}
		return nil
	}
	// corpus: the witnesses of the repaired defect and edge cases
	for _, s := range []string{"select $5", "select $99999999999999999999", "$$1", "$1$2", "?$", "$0", "$01", "", "$65536", "$65535", "$65534",
		"$9223372036854775807", "$9223372036854775808", "١ $١ ?", "$1?$3?", "??$1", "$3 ? ?"} {
		emit("corpus", []byte(s))
	}
	for _, s := range hostileQueries() {
		emit("hostile", []byte(s))
	}
	// "the length it reports is what a subsequent statement Describe announces": the statement is
	// declared with exactly what the real ParseParameters returned for its query text, then
	// prepared, described (statement and portal) and executed over the wire
	{
		qs := []string{"$1", "select $5", "select $2, $1", "? and ?", "$300", "$32767", "$32768", "$40000, $1", "$65534", "$65535", "$65536",
			"select $99999999999999999999", strings.Repeat("?,", 33000), strings.Repeat("?", 70000)}
		if c.tier == "thorough" {
			for _, n := range []int{127, 128, 255, 256, 32766, 49152, 65533} {
				qs = append(qs, fmt.Sprintf("select $%d", n), strings.Repeat("? ", n))
			}
		}
		for i, q := range qs {
			n, _, _ := ppObserve([]byte(q))
			if n < 0 {
				n = 0
			}
			st := stmtT{id: 1, cols: textCols(1), poids: make([]int, n), prog: []opT{{kind: "row", vals: []valT{tv("r")}}, {kind: "complete", tag: []byte("SELECT 1")}}, ret: "nil"}
			cfg := cfgT{limit: 0, auth: "none", term: "none", parse: []parseEntry{{query: []byte(q), stmts: []stmtT{st}}}}
			msgs := [][]byte{mParse([]byte("s"), []byte(q), 0), mDescribe('S', []byte("s")), mSync(),
				mParse(nil, []byte(q), 0), mDescribe('S', nil), mBind(nil, nil, nil, nil, nil), mDescribe('P', nil), mExecute(nil, 0), mSync()}
			emitSession(c, lockCase(800000+i, "describe", cfg, stdStartup, msgs))
			// the same with parameter types prespecified in the Parse message (fewer than, or other than, the placeholders)
			if len(q) < 100 {
				for k, oids := range [][]uint32{{23}, {0, 25}} {
					pm := [][]byte{mParseOids([]byte("s"), []byte(q), oids), mDescribe('S', []byte("s")), mSync()}
					emitSession(c, lockCase(810000+2*i+k, "describe_oids", cfg, stdStartup, pm))
				}
			}
		}
	}
	// a statement name prepared again with a query of another placeholder count (no Close in between): Describe
	// announces the count of the query prepared last; named and unnamed; declared with ParseParameters itself
	{
		qs := []string{"select 1", "select $1", "select $2, $1", "? ? ? ? ?", "select $7"}
		var entries []parseEntry
		for qi, q := range qs {
			n, _, _ := ppObserve([]byte(q))
			if n < 0 {
				n = 0
			}
			entries = append(entries, parseEntry{query: []byte(q), stmts: []stmtT{{id: 70 + qi, cols: textCols(1), poids: make([]int, n), prog: []opT{{kind: "complete", tag: []byte("OK")}}, ret: "nil"}}})
		}
		cfg := cfgT{limit: 0, auth: "none", term: "none", ppDeclare: true, parse: entries}
		k := 0
		for a := range qs {
			for b := range qs {
				if a == b {
					continue
				}
				for _, nm := range [][]byte{[]byte("users"), nil} {
					msgs := [][]byte{mParse(nm, []byte(qs[a]), 0), mDescribe('S', nm), mParse(nm, []byte(qs[b]), 0), mDescribe('S', nm), mSync(),
						mClose('S', nm), mParse(nm, []byte(qs[a]), 0), mDescribe('S', nm), mSync()}
					emitSession(c, lockCase(820000+k, "reprepare", cfg, stdStartup, msgs))
					k++
				}
			}
		}
	}
	// ... per connection: two connections of one server prepare different queries under the same name (named and
	// unnamed); each Describe announces the count of the query THIS connection prepared
	{
		qs := []string{"select $2, $1", "? ? ? ? ?", "select 1", "select $3"}
		var entries []parseEntry
		for qi, q := range qs {
			n, _, _ := ppObserve([]byte(q))
			if n < 0 {
				n = 0
			}
			entries = append(entries, parseEntry{query: []byte(q), stmts: []stmtT{{id: 80 + qi, cols: textCols(1), poids: make([]int, n), prog: []opT{{kind: "complete", tag: []byte("OK")}}, ret: "nil"}}})
		}
		cfg := cfgT{limit: 0, auth: "none", term: "none", ppDeclare: true, parse: entries}
		k := 0
		for a := range qs {
			for _, nm := range [][]byte{[]byte("users"), nil} {
				b := (a + 1) % len(qs)
				ca := lockCase(0, "two_connections", cfg, startupMsg("user", "a"), [][]byte{mParse(nm, []byte(qs[a]), 0), mDescribe('S', nm), mSync(), mDescribe('S', nm), mSync()})
				ca.id = fmt.Sprintf("%d.0", 830000+k)
				cb := lockCase(0, "two_connections", cfg, startupMsg("user", "b"), [][]byte{mParse(nm, []byte(qs[b]), 0), mDescribe('S', nm), mSync(), mDescribe('S', nm), mSync()})
				cb.id = fmt.Sprintf("%d.1", 830000+k)
				emitMulti(c, "two_connections", []*caseT{ca, cb}, []int{0, 1, 0, 1, 1, 0, 0, 1, 0, 1, 0, 1}, false)
				k++
			}
		}
	}
	// exhaustive: all strings of length <= L over a 6 letter alphabet
	alpha := []byte("$?019a")
	L := 5
	if c.tier == "thorough" {
		L = 7
	}
	var rec func(cur []byte)
	rec = func(cur []byte) {
		emit("exhaustive", cur)
		if len(cur) == L {
			return
		}
		for _, a := range alpha {
			rec(append(append([]byte{}, cur...), a))
		}
	}
	rec(nil)
	// grammar based
	N := 3000
	if c.tier == "thorough" {
		N = 60000
	}
	nums := []string{"0", "1", "2", "3", "7", "10", "99", "65534", "65535", "65536", "70000", "2147483648", "9223372036854775807", "9223372036854775808", "123456789012345678901234567890", "007"}
	for i := 0; i < N; i++ {
		var sb strings.Builder
		k := c.rng.Intn(12)
		for j := 0; j < k; j++ {
			switch c.rng.Intn(9) {
			case 0, 1:
				sb.WriteString("$" + nums[c.rng.Intn(len(nums))])
			case 2:
				sb.WriteString(fmt.Sprintf("$%d", c.rng.Intn(40)))
			case 3, 4:
				sb.WriteString("?")
			case 5:
				sb.WriteString("$")
			case 6:
				sb.WriteString([]string{" ", "select ", " and a = ", ",", "'", "\x00", "\xff", "٣", "$$"}[c.rng.Intn(9)])
			case 7:
				b := make([]byte, c.rng.Intn(4))
				c.rng.Read(b)
				sb.Write(b)
			case 8:
				sb.WriteString(fmt.Sprintf("%d", c.rng.Intn(1000)))
			}
		}
		emit("grammar", []byte(sb.String()))
	}
	// many question marks: the clamp at 65535
	if c.tier == "thorough" {
		for _, n := range []int{65534, 65535, 65536, 70000} {
			emit("manyq", []byte(strings.Repeat("?", n)))
			emit("manyq", []byte("$3"+strings.Repeat("?,", n)))
		}
	}
	return nil
}
