package main

import (
	"bufio"
	"bytes"
	"fmt"
	"os"
	"strings"

	wire "github.com/jeroenrinzema/psql-wire"
	"github.com/jeroenrinzema/psql-wire/pkg/buffer"
)

func init() { runners["C17"] = runC17 }

// direct: the real ErrorCode on a fresh writer
func errorCodeBytes(e *errT) (out []byte, panicked bool) {
	defer func() {
		if r := recover(); r != nil {
			panicked = true
		}
	}()
	var sink bytes.Buffer
	w := buffer.NewWriter(quiet, &sink)
	var err error
	if e != nil {
		err = mkErr(e)
	}
	wire.ErrorCode(w, err)
	return sink.Bytes(), false
}

// emitC17Paths reports error [e] through the four paths of a real connection and writes one line per path.
func emitC17Paths(c *runCfg, idp *int, e *errT) {
	st := stmtT{id: 1, ret: "err", rerr: e}
	// ... and behind a row the handler had to abandon (its second value cannot be encoded for the declared type)
	rowst := stmtT{id: 2, cols: textCols(2), prog: []opT{{kind: "row", vals: []valT{tv("fine"), tv("fine")}}, {kind: "row", vals: []valT{tv("a"), {kind: "unenc"}}}}, ret: "err", rerr: e}
	cfg := cfgT{limit: 4096, auth: "none", term: "none", parse: []parseEntry{{query: []byte("perr"), err: e}, {query: []byte("herr"), stmts: []stmtT{st}}, {query: []byte("rowerr"), stmts: []stmtT{rowst}}}}
	raw := cat(stdStartup, mQuery([]byte("perr")), mParse(nil, []byte("perr"), 0), mSync(),
		mParse(nil, []byte("herr"), 0), mBind(nil, nil, nil, nil, nil), mExecute(nil, 0), mSync(), mQuery([]byte("herr")),
		mParse(nil, []byte("rowerr"), 0), mBind(nil, nil, nil, nil, nil), mExecute(nil, 0), mSync(), mQuery([]byte("rowerr")), mTerminate())
	o := runSession(flatCase(0, "path", cfg, raw, nil))
	var found [][]byte
	for b := o.out; len(b) >= 5; {
		l := int(uint32(b[1])<<24 | uint32(b[2])<<16 | uint32(b[3])<<8 | uint32(b[4]))
		if l < 4 || len(b) < 1+l {
			break
		}
		if b[0] == 'E' {
			found = append(found, b[:1+l])
		}
		b = b[1+l:]
	}
	for k, path := range []string{"path_simple_parse", "path_extended_parse", "path_execute", "path_simple_statement", "path_execute_abandoned_row", "path_simple_abandoned_row"} {
		var out []byte
		if k < len(found) && len(found) == 6 {
			out = cat(found[k], []byte{'Z', 0, 0, 0, 5, 'I'})
		}
		c.out.line(sx("c17", *idp, path, sx("err", e.sx()), sx("out", out), sx("panic", o.panicv != "")))
		c.stat("class_" + path)
		*idp++
	}
}

// emitC17Shared: error values are shared (package-level sentinels, errors kept in a table): decorating a value
// again — also with the decoration it already carries outermost — yields a new value and leaves the decorated
// one as it was. The value is reported, decorated, the result reported, and the value reported once more.
func emitC17Shared(c *runCfg, idp *int) {
	base := func(t string) *errT { return &errT{kind: "base", a: []byte(t)} }
	id := *idp
	defer func() { *idp = id }()
	{
		decos := []*errT{{kind: "sev", a: []byte("WARNING")}, {kind: "sev", a: []byte("")}, {kind: "code", a: []byte("42P01")}, {kind: "hint", a: []byte("other hint")},
			{kind: "detail", a: []byte("other detail")}, {kind: "source", a: []byte("other.go"), line: 99, b: []byte("g")}, {kind: "constraint", a: []byte("other_c")}, {kind: "wrap", a: []byte("again: ")}}
		var shared []*errT
		for _, d := range decos {
			// the shared value already carries that decoration outermost, or somewhere inside, or not at all
			for _, mk := range []func() *errT{
				func() *errT { c := *d; c.a = []byte("FATAL"); c.inner = base("shared"); return &c },
				func() *errT { c := *d; c.a = []byte("FATAL"); c.inner = base("shared"); return &errT{kind: "hint", a: []byte("outer hint"), inner: &c} },
				func() *errT { return base("shared") },
			} {
				shared = append(shared, mk())
			}
		}
		for si, e := range shared {
			d := decos[si/3]
			func() {
				defer func() { recover() }()
				report := func(x error) []byte {
					var sink bytes.Buffer
					w := buffer.NewWriter(quiet, &sink)
					wire.ErrorCode(w, x)
					return sink.Bytes()
				}
				x := mkErr(e)
				report(x)
				y := decorate(d, x)
				de := *d
				de.inner = e
				out2, out3 := report(y), report(x)
				c.out.line(sx("c17", id, "shared_decorated", sx("err", de.sx()), sx("out", out2), sx("panic", false)))
				id++
				c.out.line(sx("c17", id, "shared_again", sx("err", e.sx()), sx("out", out3), sx("panic", false)))
				id++
				c.stat("class_shared")
			}()
		}
	}
}

func runC17(c *runCfg) error {
	id := 0
	emit := func(class string, e *errT) {
		out, p := errorCodeBytes(e)
		es := "nil"
		if e != nil {
			es = e.sx()
		}
		c.out.line(sx("c17", id, class, sx("err", es), sx("out", out), sx("panic", p)))
		c.stat("class_" + class)
		id++
	}
	if c.replay != "" {
		f, err := os.Open(c.replay)
		if err != nil {
			return err
		}
		defer f.Close()
		sc := bufio.NewScanner(f)
		sc.Buffer(make([]byte, 1<<20), 1<<26)
		sharedDone := false
		for sc.Scan() {
			l := sc.Text()
			if !strings.HasPrefix(l, "(c17 ") {
				continue
			}
			n, err := parseSexp(l)
			if err != nil {
				return err
			}
			en := n.field("err").list[1]
			if strings.HasPrefix(n.list[2].atom, "shared_") {
				if !sharedDone {
					sharedDone = true
					emitC17Shared(c, &id)
				}
			} else if en.leaf {
				emit("replay", nil)
			} else if strings.HasPrefix(n.list[2].atom, "path_") {
				emitC17Paths(c, &id, errFrom(en))
			} else {
				emit("replay", errFrom(en))
			}
		}
		return nil
	}
	g := &gen{rng: c.rng}
	base := func(t string) *errT { return &errT{kind: "base", a: []byte(t)} }
	// corpus: witnesses of the repaired defects, the nil error
	emit("corpus", nil)
	emit("corpus", &errT{kind: "source", a: []byte("a.go"), line: 42, b: []byte("f"), inner: base("x")})
	emit("corpus", &errT{kind: "constraint", a: []byte("pk"), inner: base("x")})
	for _, l := range []int{0, 1, 255, 256, 65535, 65536, 16777215, 16777216, 2147483647, -1, -2147483648} {
		emit("corpus", &errT{kind: "source", a: []byte("f.go"), line: l, b: []byte("fn"), inner: base("line")})
	}
	// long decoration texts: every field arrives as set, whatever its length (identifier-length limits of a real
	// PostgreSQL do not apply to what a handler sets)
	for _, n := range []int{62, 63, 64, 65, 100, 128, 255, 256, 1024, 5000} {
		long := []byte(strings.Repeat("c", n-1) + "Z")
		emit("long_texts", &errT{kind: "constraint", a: long, inner: base("x")})
		emit("long_texts", &errT{kind: "constraint", a: []byte("outer_" + string(long)), inner: &errT{kind: "constraint", a: long, inner: base("nested")}})
		emit("long_texts", &errT{kind: "hint", a: long, inner: &errT{kind: "detail", a: long, inner: base(string(long))}})
		emit("long_texts", &errT{kind: "source", a: long, line: n, b: long, inner: base("x")})
	}
	// exhaustive: every sequence of <= D decorators over a 7-letter alphabet (each with a fixed value pair)
	type dk struct {
		kind string
		a, b string
		line int
	}
	alpha := []dk{{"wrap", "w: ", "", 0}, {"code", "23505", "", 0}, {"sev", "FATAL", "", 0}, {"hint", "h", "", 0}, {"detail", "d", "", 0}, {"source", "s.go", "fn", 7}, {"constraint", "c", "", 0}}
	alpha2 := []dk{{"wrap", "", " (w2)", 0}, {"code", "42P01", "", 0}, {"sev", "", "", 0}, {"hint", "", "", 0}, {"detail", "d2", "", 0}, {"source", "t.go", "g", 300}, {"constraint", "", "", 0}}
	D := 4
	if c.tier == "thorough" {
		D = 6
	}
	var rec func(e *errT, depth int)
	rec = func(e *errT, depth int) {
		emit("exhaustive", e)
		if depth == D {
			return
		}
		for i, k := range alpha {
			if depth%2 == 1 {
				k = alpha2[i]
			}
			rec(&errT{kind: k.kind, a: []byte(k.a), b: []byte(k.b), line: k.line, inner: e}, depth+1)
		}
	}
	rec(base("boom"), 0)
	// random deep trees
	n := 3000
	if c.tier == "thorough" {
		n = 60000
	}
	for i := 0; i < n; i++ {
		emit("random", g.errTree(g.rng.Intn(9)))
	}
	// every exported severity level and unusual severity texts, outermost and shadowed; codes likewise
	for _, sv := range []string{"ERROR", "FATAL", "PANIC", "WARNING", "NOTICE", "DEBUG", "INFO", "LOG", "error", "Log", "X", "LOGGING", "Nötice", " ", "ERROR "} {
		emit("severities", &errT{kind: "sev", a: []byte(sv), inner: base("s")})
		emit("severities", &errT{kind: "sev", a: []byte(sv), inner: &errT{kind: "sev", a: []byte("FATAL"), inner: base("s")}})
		emit("severities", &errT{kind: "sev", a: []byte("WARNING"), inner: &errT{kind: "sev", a: []byte(sv), inner: base("s")}})
		emit("severities", &errT{kind: "wrap", a: []byte("w: "), inner: &errT{kind: "code", a: []byte("22012"), inner: &errT{kind: "sev", a: []byte(sv), inner: base("s")}}})
		emit("severities", &errT{kind: "sev", a: []byte(""), inner: &errT{kind: "sev", a: []byte(sv), inner: base("s")}})
	}
	// joined errors (errors.Join): one error whose text is the texts of its parts, one per line; decorations inside
	// the parts are not decorations of the joined error, decorations around it are
	for _, j := range []*errT{{kind: "join", inner: base("a"), inner2: base("b")},
		{kind: "join", inner: &errT{kind: "code", a: []byte("23505"), inner: base("dup")}, inner2: &errT{kind: "sev", a: []byte("FATAL"), inner: base("f")}},
		{kind: "hint", a: []byte("h"), inner: &errT{kind: "join", inner: base("a"), inner2: &errT{kind: "wrap", a: []byte("w: "), inner: base("b")}}}} {
		emit("joined", j)
		emit("joined", &errT{kind: "code", a: []byte("42P01"), inner: j})
	}
	for _, cd := range []string{"XXUUU", "42601", "00000", "XX000", "P0001", "abcde", "4260", "426011", " "} {
		emit("codes", &errT{kind: "code", a: []byte(cd), inner: base("c")})
		emit("codes", &errT{kind: "code", a: []byte(cd), inner: &errT{kind: "code", a: []byte("23505"), inner: base("c")}})
		emit("codes", &errT{kind: "code", a: []byte("XXUUU"), inner: &errT{kind: "code", a: []byte(cd), inner: base("c")}})
		emit("codes", &errT{kind: "code", a: []byte(""), inner: &errT{kind: "code", a: []byte(cd), inner: base("c")}})
	}
	emitC17Shared(c, &id)
	// the same error through every path of a real connection: returned by the parse function for a simple query
	// and for an extended Parse, returned by the statement function under Execute and under a simple query.
	// Each ErrorResponse on the wire is judged like the direct call (the path adds and changes nothing).
	if c.replay == "" {
		var errs []*errT
		errs = append(errs, base("plain"), &errT{kind: "code", a: []byte("XXUUU"), inner: &errT{kind: "code", a: []byte("23505"), inner: base("shadowed")}},
			&errT{kind: "sev", a: []byte("LOG"), inner: base("log")}, &errT{kind: "hint", a: []byte("h"), inner: &errT{kind: "detail", a: []byte("d"), inner: base("hd")}},
			&errT{kind: "source", a: []byte("f.go"), line: 7, b: []byte("fn"), inner: &errT{kind: "constraint", a: []byte("pk"), inner: base("sc")}},
			&errT{kind: "wrap", a: []byte("outer: "), inner: &errT{kind: "code", a: []byte("42P01"), inner: base("wrapped")}})
		np := 24
		if c.tier == "thorough" {
			np = 400
		}
		for i := 0; i < np; i++ {
			errs = append(errs, g.errTree(1+g.rng.Intn(6)))
		}
		for _, e := range errs {
			emitC17Paths(c, &id, e)
		}
	}
	// the library's own constructors
	for _, t := range []byte{0, 'p', 'z', 255} {
		out, p := func() (o []byte, pn bool) {
			defer func() {
				if r := recover(); r != nil {
					pn = true
				}
			}()
			var sink bytes.Buffer
			w := buffer.NewWriter(quiet, &sink)
			wire.ErrorCode(w, wire.NewErrUnimplementedMessageType(typesClientMessage(t)))
			return sink.Bytes(), false
		}()
		c.out.line(sx("c17", id, "library", sx("err", sx("lib", "unimplemented", int(t))), sx("out", out), sx("panic", p)))
		id++
	}
	_ = fmt.Sprint
	return nil
}
