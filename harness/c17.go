package main

import (
	"bufio"
	"bytes"
	"fmt"
	"os"
	"strings"

	wire "github.com/jeroenrinzema/psql-wire"
	"github.com/jeroenrinzema/psql-wire/pkg/buffer"
)

func init() { runners["C17"] = runC17 }

// direct: the real ErrorCode on a fresh writer
func errorCodeBytes(e *errT) (out []byte, panicked bool) {
	defer func() {
		if r := recover(); r != nil {
			panicked = true
		}
	}()
	var sink bytes.Buffer
	w := buffer.NewWriter(quiet, &sink)
	var err error
	if e != nil {
		err = mkErr(e)
	}
	wire.ErrorCode(w, err)
	return sink.Bytes(), false
}

func runC17(c *runCfg) error {
	id := 0
	emit := func(class string, e *errT) {
		out, p := errorCodeBytes(e)
		es := "nil"
		if e != nil {
			es = e.sx()
		}
		c.out.line(sx("c17", id, class, sx("err", es), sx("out", out), sx("panic", p)))
		c.stat("class_" + class)
		id++
	}
	if c.replay != "" {
		f, err := os.Open(c.replay)
		if err != nil {
			return err
		}
		defer f.Close()
		sc := bufio.NewScanner(f)
		sc.Buffer(make([]byte, 1<<20), 1<<26)
		for sc.Scan() {
			l := sc.Text()
			if !strings.HasPrefix(l, "(c17 ") {
				continue
			}
			n, err := parseSexp(l)
			if err != nil {
				return err
			}
			en := n.field("err").list[1]
			if en.leaf {
				emit("replay", nil)
			} else {
				emit("replay", errFrom(en))
			}
		}
		return nil
	}
	g := &gen{rng: c.rng}
	base := func(t string) *errT { return &errT{kind: "base", a: []byte(t)} }
	// corpus: witnesses of the repaired defects, the nil error
	emit("corpus", nil)
	emit("corpus", &errT{kind: "source", a: []byte("a.go"), line: 42, b: []byte("f"), inner: base("x")})
	emit("corpus", &errT{kind: "constraint", a: []byte("pk"), inner: base("x")})
	for _, l := range []int{0, 1, 255, 256, 65535, 65536, 16777215, 16777216, 2147483647, -1, -2147483648} {
		emit("corpus", &errT{kind: "source", a: []byte("f.go"), line: l, b: []byte("fn"), inner: base("line")})
	}
	// exhaustive: every sequence of <= D decorators over a 7-letter alphabet (each with a fixed value pair)
	type dk struct {
		kind string
		a, b string
		line int
	}
	alpha := []dk{{"wrap", "w: ", "", 0}, {"code", "23505", "", 0}, {"sev", "FATAL", "", 0}, {"hint", "h", "", 0}, {"detail", "d", "", 0}, {"source", "s.go", "fn", 7}, {"constraint", "c", "", 0}}
	alpha2 := []dk{{"wrap", "", " (w2)", 0}, {"code", "42P01", "", 0}, {"sev", "", "", 0}, {"hint", "", "", 0}, {"detail", "d2", "", 0}, {"source", "t.go", "g", 300}, {"constraint", "", "", 0}}
	D := 4
	if c.tier == "thorough" {
		D = 6
	}
	var rec func(e *errT, depth int)
	rec = func(e *errT, depth int) {
		emit("exhaustive", e)
		if depth == D {
			return
		}
		for i, k := range alpha {
			if depth%2 == 1 {
				k = alpha2[i]
			}
			rec(&errT{kind: k.kind, a: []byte(k.a), b: []byte(k.b), line: k.line, inner: e}, depth+1)
		}
	}
	rec(base("boom"), 0)
	// random deep trees
	n := 3000
	if c.tier == "thorough" {
		n = 60000
	}
	for i := 0; i < n; i++ {
		emit("random", g.errTree(g.rng.Intn(9)))
	}
	// the library's own constructors
	for _, t := range []byte{0, 'p', 'z', 255} {
		out, p := func() (o []byte, pn bool) {
			defer func() {
				if r := recover(); r != nil {
					pn = true
				}
			}()
			var sink bytes.Buffer
			w := buffer.NewWriter(quiet, &sink)
			wire.ErrorCode(w, wire.NewErrUnimplementedMessageType(typesClientMessage(t)))
			return sink.Bytes(), false
		}()
		c.out.line(sx("c17", id, "library", sx("err", sx("lib", "unimplemented", int(t))), sx("out", out), sx("panic", p)))
		id++
	}
	_ = fmt.Sprint
	return nil
}
