package main

import (
	"bytes"
	"context"
	"fmt"
	"io"
	"os"
	"runtime"
	"runtime/debug"
)

func init() { runners["C04"] = runC04 }

// copyCfg adds statements whose handlers use the library's helpers on client data
func (g *gen) robustCfg() cfgT {
	cfg := g.baseCfg()
	cfg.limit = []int{64, 256, 1024}[g.rng.Intn(3)]
	cp := stmtT{id: 900, cols: textCols(2), prog: []opT{{kind: "copyin", fmt: g.rng.Intn(2)}, {kind: "copyread"}, {kind: "copyread"}, {kind: "copyread"}, {kind: "complete", tag: []byte("COPY")}}, stop: g.chance(0.5), ret: "last"}
	cfg.parse = append(cfg.parse, parseEntry{query: []byte("copy"), stmts: []stmtT{cp}})
	return cfg
}

func healthyCase(cfg cfgT, id string) *caseT {
	cs := lockCase(0, "healthy", cfg, startupMsg("user", "healthy"), [][]byte{mQuery(cfg.parse[0].query), mSync(), mTerminate()})
	cs.id = id
	return cs
}

// runFaulty serves one connection whose transport starts failing at the k-th read / write
func runFaulty(cs *caseT, readFail, writeFail int) *obsT {
	reg := &registry{recs: map[string]*recorder{}}
	conn, rec := newSession(cs, reg)
	conn.readFail = readFail
	conn.failAt = writeFail
	srv, err := buildServer(&cs.cfg, reg)
	if err != nil {
		panic(err)
	}
	o := &obsT{}
	serveAsync(srv, conn, o)
	conn.push(cs.raw)
	conn.setEOF()
	if !conn.waitFinished(idleTimeout) {
		o.hang = true
	}
	collect(conn, rec, o)
	return o
}

// runC04stalled: see the comment inside
func runC04stalled(c *runCfg, g *gen) {
	// a client that stops talking — silent after its startup packet (at the password prompt), inside a message, inside
	// a COPY — keeps its own connection waiting and nobody else's: a second client of the same server is served
	for si, stall := range [][]byte{stdStartup, cat(stdStartup, mPassword([]byte("pw"))[:3]), cat(stdStartup, mPassword([]byte("pw")), mQuery([]byte("select 1"))[:7]),
		cat(stdStartup, mPassword([]byte("pw")), mQuery([]byte("copy")), mCopyData([]byte("a,b"))), stdStartup[:5]} {
		for ai, auth := range []string{"pw", "accept"} {
			cfg := g.robustCfg()
			cfg.auth = auth
			cfg.authPW = []byte("pw")
			reg := &registry{recs: map[string]*recorder{}}
			silent := flatCase(0, "stalled_peer", cfg, stall, nil)
			sconn, _ := newSession(silent, reg)
			srv, err := buildServer(&cfg, reg)
			if err != nil {
				panic(err)
			}
			so := &obsT{}
			serveAsync(srv, sconn, so)
			sconn.push(stall)
			sconn.waitIdle(idleTimeout)
			other := lockCase(0, "stalled_peer", cfg, startupMsg("user", "second"), [][]byte{mPassword([]byte("pw")), mQuery([]byte("select 1")), mTerminate()})
			other.pre = 2
			other.id = fmt.Sprintf("%d", 950000+2*si+ai)
			oconn, orec := newSession(other, reg)
			o := driveSession(other, oconn, orec, srv)
			c.out.line("(sess " + other.id + " " + other.class + " " + other.sxHead() + " " + o.sx(false) + ")")
			c.stat("class_stalled_peer")
			sconn.setEOF()
			sconn.waitFinished(idleTimeout)
		}
	}
}

func runC04(c *runCfg) error {
	if c.replay != "" {
		if b, err := os.ReadFile(c.replay); err == nil && bytes.Contains(b, []byte(" stalled_peer ")) {
			// a connection judged next to a silent peer: the scenarios are run again as a whole
			runC04stalled(c, &gen{rng: c.rng})
			return nil
		}
		return replaySessions(c)
	}
	g := &gen{rng: c.rng}
	id := 0
	emitPair := func(class string, cs *caseT) {
		// the hostile connection and a healthy one on the same server: the server must go on serving
		cs.id = fmt.Sprintf("%d.0", id)
		cs.class = class
		h := healthyCase(cs.cfg, fmt.Sprintf("%d.1", id))
		var sched []int
		for range cs.chunks {
			sched = append(sched, 0)
		}
		for range h.chunks {
			sched = append(sched, 1)
		}
		if !cs.lock {
			// not lock-step: deliver the hostile bytes as given, then the healthy session
			o := runSession(cs)
			c.out.line("(sess " + cs.id + " " + class + " " + cs.sxHead() + " " + o.sx(isSSLRequest(cs.raw)) + ")")
			c.stat("class_" + class)
			emitSession(c, h)
		} else {
			emitMulti(c, class, []*caseT{cs, h}, sched, false)
		}
		id++
	}
	n := 400
	if c.tier == "thorough" {
		n = 12000
	}
	for i := 0; i < n; i++ {
		cfg := g.robustCfg()
		switch i % 4 {
		case 0: // arbitrary bytes on a fresh connection
			raw := g.bytesN(g.rng.Intn(60))
			if g.chance(0.5) { // plausible length prefix
				raw = cat(be32b(uint32(8+g.rng.Intn(40))), raw)
			}
			emitPair("rawfuzz", flatCase(0, "rawfuzz", cfg, raw, nil))
		case 1: // valid startup, then arbitrary bytes
			raw := cat(stdStartup, g.bytesN(g.rng.Intn(80)))
			emitPair("afterstartup", flatCase(0, "afterstartup", cfg, raw, nil))
		default: // mostly valid message sequences with one corrupted length / count / terminator or a truncation
			raw := append([]byte{}, stdStartup...)
			k := 2 + g.rng.Intn(8)
			for j := 0; j < k; j++ {
				if g.chance(0.15) {
					raw = append(raw, mQuery([]byte("copy"))...)
					raw = append(raw, mCopyData(g.bytesN(g.rng.Intn(20)))...)
					raw = append(raw, []byte{'c', 0, 0, 0, 4}...)
				} else {
					raw = append(raw, g.clientMsg(&cfg)...)
				}
			}
			if len(raw) > len(stdStartup)+1 {
				pos := len(stdStartup) + g.rng.Intn(len(raw)-len(stdStartup))
				switch g.rng.Intn(5) {
				case 0:
					raw[pos] ^= byte(1 << uint(g.rng.Intn(8)))
				case 1:
					raw[pos] = 0xff
				case 2:
					raw[pos] = 0
				case 3:
					raw = raw[:pos]
				case 4:
					raw = cat(raw[:pos], g.bytesN(1+g.rng.Intn(3)), raw[pos:])
				}
			}
			emitPair("corrupt", flatCase(0, "corrupt", cfg, raw, nil))
		}
	}
	// integer fields at their boundaries: in a valid extended-query exchange every 2- and 4-byte
	// window of one message body (names, counts, lengths, format codes, OIDs, row limits) is
	// overwritten with sign/width boundary values
	{
		cfg := g.robustCfg()
		q := g.queryName(&cfg)
		victims := [][]byte{
			mParse([]byte("s"), q, 2),
			mBind([]byte("p"), []byte("s"), []int{0, 1}, []bindP{{v: []byte("abc")}, {null: true}}, []int{0}),
			mBind(nil, nil, nil, []bindP{{v: []byte("v")}}, nil),
			mExecute([]byte("p"), 0),
			mDescribe('P', []byte("p")),
			mQuery(q),
		}
		vals4 := []uint32{0x7fffffff, 0x80000000, 0xfffffffe, 0xfffffffd, 0xffff0000, 0x0000ffff}
		vals2 := []uint16{0x7fff, 0x8000, 0xffff, 0xfffe}
		step := 1
		if c.tier != "thorough" {
			step = 2
		}
		for vi, victim := range victims {
			body := victim[5:]
			for pos := 0; pos < len(body); pos++ {
				var variants [][]byte
				if pos+4 <= len(body) {
					for k, v := range vals4 {
						if (pos+k+vi)%step != 0 {
							continue
						}
						b := append([]byte{}, body...)
						copy(b[pos:], be32b(v))
						variants = append(variants, b)
					}
				}
				if pos+2 <= len(body) {
					for k, v := range vals2 {
						if (pos+k+vi)%step != 0 {
							continue
						}
						b := append([]byte{}, body...)
						copy(b[pos:], be16b(int(v)))
						variants = append(variants, b)
					}
				}
				for _, b := range variants {
					raw := cat(stdStartup, mParse([]byte("s"), q, 0), msg(victim[0], b), mBind([]byte("p"), []byte("s"), nil, nil, nil), mExecute([]byte("p"), 0), mSync())
					emitPair("intfields", flatCase(0, "intfields", cfg, raw, nil))
				}
			}
		}
	}
	// bodies cut short with a consistent length field: every prefix of the body of each message of a valid
	// extended-query exchange (and of a simple Query). A message whose fields are incomplete is rejected; the
	// parser, the statement function and the caches never see anything of it.
	{
		st := stmtT{id: 4, cols: textCols(1), poids: []int{23}, prog: []opT{{kind: "row", vals: []valT{tv("v")}}, {kind: "complete", tag: []byte("SELECT 1")}}, ret: "nil"}
		cfg := cfgT{limit: 4096, auth: "none", term: "none", parse: []parseEntry{{query: []byte("q"), stmts: []stmtT{st}}}}
		valid := [][]byte{
			msg('P', cat(cs0([]byte("s")), cs0([]byte("q")), be16b(1), be32b(23))),
			mBind([]byte("p"), []byte("s"), []int{0}, []bindP{{v: []byte("12")}}, []int{0}),
			mDescribe('P', []byte("p")), mExecute([]byte("p"), 0), mClose('P', []byte("p")), mQuery([]byte("q")),
		}
		for vi, m := range valid {
			body := m[5:]
			for k := 0; k < len(body); k++ {
				var raw []byte
				raw = append(raw, stdStartup...)
				for j := 0; j < vi && j < 4; j++ {
					raw = append(raw, valid[j]...)
				}
				raw = append(raw, msg(m[0], body[:k])...)
				for j := vi + 1; j < 4; j++ {
					raw = append(raw, valid[j]...)
				}
				raw = append(raw, mSync()...)
				emitPair("cut_body", flatCase(0, "cut_body", cfg, raw, nil))
			}
		}
	}
	// result-format lists of every length against statements of 1..5 columns (fewer, as many, more codes
	// than columns), described and executed through the portal and the statement
	for ncols := 1; ncols <= 5; ncols++ {
		for k := 0; k <= ncols+2; k++ {
			row := opT{kind: "row"}
			for i := 0; i < ncols; i++ {
				row.vals = append(row.vals, tv("v"))
			}
			st := stmtT{id: 4, cols: textCols(ncols), prog: []opT{row, {kind: "complete", tag: []byte("SELECT 1")}}, ret: "nil"}
			cfg := cfgT{limit: 4096, auth: "none", term: "none", parse: []parseEntry{{query: []byte("q"), stmts: []stmtT{st}}}}
			var rf []int
			for i := 0; i < k; i++ {
				rf = append(rf, i%2)
			}
			raw := cat(stdStartup, mParse([]byte("s"), []byte("q"), 0), mBind([]byte("p"), []byte("s"), nil, nil, rf), mDescribe('P', []byte("p")),
				mExecute([]byte("p"), 0), mDescribe('S', []byte("s")), mSync())
			emitPair("rfcount", flatCase(0, "rfcount", cfg, raw, nil))
		}
	}
	// fault enumeration: the connection breaks at every read (= every byte offset) and at every write
	sessions := 3
	if c.tier == "thorough" {
		sessions = 25
	}
	for s := 0; s < sessions; s++ {
		cfg := g.robustCfg()
		cfg.auth = []string{"none", "accept", "pw"}[s%3]
		cfg.authPW = []byte("pw")
		raw := startupMsg("user", "u", "database", "d")
		if cfg.auth != "none" {
			raw = append(raw, mPassword([]byte("pw"))...)
		}
		for j := 0; j < 6; j++ {
			raw = append(raw, g.clientMsg(&cfg)...)
		}
		raw = append(raw, mQuery([]byte("copy"))...)
		raw = append(raw, mCopyData([]byte("a,b"))...)
		raw = append(raw, mCopyDone()...)
		raw = append(raw, mSync()...)
		// reads: the stream ends (with an error) after every prefix — compared with the model of the prefix
		step := 1
		if c.tier != "thorough" && len(raw) > 150 {
			step = 2
		}
		for cut := 0; cut <= len(raw); cut += step {
			cs := flatCase(0, "readfault", cfg, raw[:cut], nil)
			cs.id = fmt.Sprintf("%d", id)
			emitSession(c, cs)
			id++
		}
		// writes: the k-th write and all later ones fail
		full := flatCase(0, "writefault", cfg, raw, nil)
		probe := runFaulty(full, -1, -1)
		nwrites := 0
		{
			reg := &registry{recs: map[string]*recorder{}}
			conn, _ := newSession(full, reg)
			srv, _ := buildServer(&full.cfg, reg)
			o := &obsT{}
			serveAsync(srv, conn, o)
			conn.push(full.raw)
			conn.setEOF()
			conn.waitFinished(idleTimeout)
			nwrites = conn.writes
		}
		_ = probe
		for k := 0; k <= nwrites; k++ {
			o := runFaulty(full, -1, k)
			c.out.line(sx("wf", id, "writefault", sx("failat", k), sx("of", nwrites), sx("panic", o.panicv != ""), sx("hang", o.hang), sx("closed", o.closed), sx("outlen", len(o.out)), sx("events", len(o.events))))
			c.stat("class_writefault")
			id++
		}
	}
	runC04stalled(c, g)
	// the library's binary COPY row reader on a transport that breaks with a persistent non-EOF error after
	// EVERY byte offset (header, rows, trailer, bytes behind the trailer, CopyDone): handling ends, no retry loop
	{
		oids := []int{23, 25}
		rows := [][]bval{{g.bval(23), g.bval(25)}, {g.bval(23), g.bval(25)}}
		stream, _ := encodeRows(oids, rows, true, true)
		chunks := fitChunks([][]byte{stream, []byte("behind the trailer")}, 64)
		total := len(stdStartup) + 5 + 5
		for _, ch := range chunks {
			total += 5 + len(ch)
		}
		total += 5 + 5
		hangs := 0
		step := 1
		if c.tier != "thorough" {
			step = 2
		}
		for cut := len(stdStartup) + 1; cut <= total && hangs < 3; cut += step {
			cs := &c14case{id: fmt.Sprint(id), class: "readerr_bincopy", limit: 64, oids: oids, chunks: chunks, ending: "done", cutAt: cut, rdErr: true}
			_, _, p, _, hang := runC14case(cs)
			if hang {
				hangs++
			}
			c.out.line(sx("wf", id, "readerr_bincopy", sx("failat", cut), sx("of", total), sx("panic", p), sx("hang", hang), sx("closed", !hang), sx("outlen", 0), sx("events", 0)))
			c.stat("class_readerr_bincopy")
			id++
		}
	}
	// allocation on behalf of one message
	for _, L := range []int{1024, 65536, 1 << 20} {
		cfg := simpleCfg(L)
		hostile := [][]byte{
			msgLen('Q', 0xffffffff, []byte("x")),
			msgLen('B', 0x7fffffff, []byte("x")),
			msg('B', cat(cs0(nil), cs0(nil), be16b(65535))),
			msg('B', cat(cs0(nil), cs0(nil), be16b(0), be16b(65535), be32b(0x7ffffff0))),
			msg('B', cat(cs0(nil), cs0(nil), be16b(0), be16b(65535))),
			msg('P', cat(cs0(nil), cs0([]byte("select 1")), be16b(65535))),
			msg('Q', make([]byte, L+1)),
			msg('z', make([]byte, 3*L+5)),
			msg('Q', append(make([]byte, L-1), 0)),
			// declared lengths between the configured limit and the default limit of 16 MiB, the input ends early
			msgLen('Q', 8<<20, []byte("x")),
			msgLen('d', 12<<20, []byte("x")),
		}
		for hi, m := range hostile {
			if hi >= 9 && L >= 1<<20 {
				continue
			}
			reg := &registry{recs: map[string]*recorder{}}
			cs := flatCase(0, "alloc", cfg, nil, nil)
			conn, _ := newSession(cs, reg)
			srv, _ := buildServer(&cs.cfg, reg)
			o := &obsT{}
			serveAsync(srv, conn, o)
			conn.push(stdStartup)
			conn.push(mQuery([]byte("select 1"))) // warm up
			conn.waitIdle(idleTimeout)
			old := debug.SetGCPercent(-1)
			var before, after runtime.MemStats
			runtime.ReadMemStats(&before)
			conn.push(m)
			conn.waitIdle(idleTimeout)
			runtime.ReadMemStats(&after)
			debug.SetGCPercent(old)
			conn.setEOF()
			conn.waitFinished(idleTimeout)
			delta := after.TotalAlloc - before.TotalAlloc
			// the constant factor of the limit plus the protocol's 65535-entry vectors
			bound := uint64(3*L + 65535*64 + 65536)
			c.out.line(sx("alloc", id, "alloc", sx("limit", L), sx("which", hi), sx("delta", delta), sx("bound", bound), sx("panic", o.panicv != "")))
			c.stat("class_alloc")
			id++
		}
	}
	// ignored messages cost nothing that accumulates: a long run of Sync / Flush inside a COPY (the server must ignore
	// them) leaves the stack of the connection's goroutine where it was (measured: stack memory in use)
	{
		cfg := g.robustCfg()
		cfg.auth = "none"
		cfg.limit = 1024
		reg := &registry{recs: map[string]*recorder{}}
		cs := flatCase(0, "stack", cfg, nil, nil)
		conn, _ := newSession(cs, reg)
		srv, _ := buildServer(&cs.cfg, reg)
		o := &obsT{}
		serveAsync(srv, conn, o)
		conn.push(stdStartup)
		conn.push(mQuery([]byte("copy")))
		conn.push(mCopyData([]byte("a,b")))
		conn.waitIdle(idleTimeout)
		var before, after runtime.MemStats
		runtime.ReadMemStats(&before)
		n := 150000
		noise := make([]byte, 0, 5*n)
		for i := 0; i < n; i++ {
			if i%2 == 0 {
				noise = append(noise, mSync()...)
			} else {
				noise = append(noise, mFlush()...)
			}
		}
		conn.push(noise)
		conn.waitIdle(idleTimeout)
		runtime.ReadMemStats(&after)
		conn.push(mCopyDone())
		conn.setEOF()
		conn.waitFinished(idleTimeout)
		var delta uint64
		if after.StackInuse > before.StackInuse {
			delta = after.StackInuse - before.StackInuse
		}
		c.out.line(sx("alloc", id, "stack_copy_noise", sx("limit", 1024), sx("which", 0), sx("delta", delta), sx("bound", 2<<20), sx("panic", o.panicv != "")))
		c.stat("class_stack_copy_noise")
		id++
	}
	// the same measurement inside a TLS session: the reader of the upgraded connection obeys the configured limit
	for _, L := range []int{1024, 65536} {
		cfg := simpleCfg(L)
		cfg.tls = true
		hostile := [][]byte{
			msgLen('Q', 0xffffffff, []byte("x")),
			msgLen('Q', 8<<20, []byte("x")),
			msgLen('B', 4<<20, []byte("x")),
			msg('Q', make([]byte, L+1)),
			msg('z', make([]byte, 3*L+5)),
		}
		for hi, m := range hostile {
			reg := &registry{recs: map[string]*recorder{}}
			cs := flatCase(0, "alloc_tls", cfg, nil, nil)
			conn, _ := newSession(cs, reg)
			conn.encrypted = true
			srv, _ := buildServer(&cs.cfg, reg)
			o := &obsT{}
			serveAsync(srv, conn, o)
			tc, side, ok := tlsDial(conn)
			var delta uint64
			if ok {
				go io.Copy(io.Discard, tc)
				tc.Write(stdStartup)
				tc.Write(mQuery([]byte("select 1"))) // warm up
				side.settle(idleTimeout)
				old := debug.SetGCPercent(-1)
				var before, after runtime.MemStats
				runtime.ReadMemStats(&before)
				tc.Write(m)
				side.settle(idleTimeout)
				runtime.ReadMemStats(&after)
				debug.SetGCPercent(old)
				delta = after.TotalAlloc - before.TotalAlloc
			}
			conn.setEOF()
			conn.waitFinished(idleTimeout)
			// as above, plus the record buffers of crypto/tls on both sides (the client lives in this process)
			bound := uint64(3*L + 65535*64 + 65536 + 8*(16384+2048) + 2*len(m))
			c.out.line(sx("alloc", id, "alloc_tls", sx("limit", L), sx("which", hi), sx("delta", delta), sx("bound", bound), sx("panic", o.panicv != "" || !ok)))
			c.stat("class_alloc_tls")
			id++
		}
	}
	// the placeholder counter that statement parsers apply to the client's query text:
	// hostile index values and marker counts must neither panic nor allocate beyond the budget
	for i, q := range hostileQueries() {
		emitPP(c, 900000+i, "pp_hostile", []byte(q))
	}
	_ = context.Background
	return nil
}
