package main

import (
	"bufio"
	"bytes"
	"errors"
	"fmt"
	"os"
	"strings"

	"github.com/jeroenrinzema/psql-wire/pkg/buffer"
	"github.com/jeroenrinzema/psql-wire/pkg/types"
)

func init() { runners["C02"] = runC02 }

type sinkT struct {
	writes [][]byte
	broken bool
	failAt int // >= 0: exactly the Write call with this number fails and delivers nothing (a transient fault)
	calls  int
}

func (s *sinkT) Write(p []byte) (int, error) {
	n := s.calls
	s.calls++
	if s.broken {
		return 0, errors.New("broken transport")
	}
	if s.failAt >= 0 && n == s.failAt {
		return 0, errors.New("write: resource temporarily unavailable")
	}
	s.writes = append(s.writes, append([]byte{}, p...))
	return len(p), nil
}

type wopT struct {
	kind string // start byte i16 i32 bytes str nul end reset
	n    int64
	b    []byte
}

func (o wopT) sx() string {
	switch o.kind {
	case "start", "byte", "i16", "i32":
		return sx(o.kind, o.n)
	case "bytes", "str":
		return sx(o.kind, o.b)
	default:
		return o.kind
	}
}

// runWops performs the calls on a real buffer.Writer.
func runWops(ops []wopT, broken bool, failAt int) (writes [][]byte, results []string, panicked bool) {
	sink := &sinkT{broken: broken, failAt: failAt}
	w := buffer.NewWriter(quiet, sink)
	defer func() {
		if r := recover(); r != nil {
			panicked = true
			writes = sink.writes
		}
	}()
	for _, o := range ops {
		switch o.kind {
		case "start":
			w.Start(types.ServerMessage(byte(o.n)))
		case "byte":
			w.AddByte(byte(o.n))
		case "i16":
			w.AddInt16(int16(uint16(o.n)))
		case "i32":
			w.AddInt32(int32(uint32(o.n)))
		case "bytes":
			w.AddBytes(o.b)
		case "str":
			w.AddString(string(o.b))
		case "nul":
			w.AddNullTerminate()
		case "end":
			if err := w.End(); err != nil {
				results = append(results, "err")
			} else {
				results = append(results, "ok")
			}
		case "reset":
			w.Reset()
		}
	}
	return sink.writes, results, false
}

func (g *gen) wops() []wopT {
	var ops []wopT
	nmsg := 1 + g.rng.Intn(5)
	for m := 0; m < nmsg; m++ {
		ops = append(ops, wopT{kind: "start", n: int64([]byte("ZTDCESRt123nGI")[g.rng.Intn(14)])})
		for k := g.rng.Intn(8); k > 0; k-- {
			switch g.rng.Intn(7) {
			case 0:
				ops = append(ops, wopT{kind: "byte", n: int64(g.rng.Intn(256))})
			case 1:
				ops = append(ops, wopT{kind: "i16", n: []int64{0, 1, 255, 256, 65535, 32768}[g.rng.Intn(6)]})
			case 2:
				ops = append(ops, wopT{kind: "i32", n: []int64{0, 1, 4294967295, 2147483648, 65536, 16777216}[g.rng.Intn(6)]})
			case 3:
				ops = append(ops, wopT{kind: "bytes", b: g.bytesN(g.rng.Intn(9))})
			case 4:
				ops = append(ops, wopT{kind: "str", b: g.text()})
			case 5:
				ops = append(ops, wopT{kind: "nul"})
			case 6:
			}
		}
		abandoned := false
		// most messages are completed; some are abandoned (no End) like a rejected row
		if g.chance(0.75) {
			ops = append(ops, wopT{kind: "end"})
		} else {
			abandoned = true
		}
		// Reset is only ever called between messages (as Start/End do themselves)
		if g.chance(0.1) {
			ops = append(ops, wopT{kind: "reset"})
		}
		_ = abandoned
	}
	return ops
}

func wopsFrom(n *node) []wopT {
	var ops []wopT
	for _, o := range n.list[1:] {
		if o.leaf {
			ops = append(ops, wopT{kind: o.atom})
			continue
		}
		k := o.head()
		if k == "bytes" || k == "str" {
			ops = append(ops, wopT{kind: k, b: unhx(o.list[1].atom)})
		} else {
			var v int64
			fmt.Sscan(o.list[1].atom, &v)
			ops = append(ops, wopT{kind: k, n: v})
		}
	}
	return ops
}

func runC02(c *runCfg) error {
	id := 0
	emitW := func(class string, ops []wopT, broken bool, failAt ...int) {
		fa := -1
		if len(failAt) > 0 {
			fa = failAt[0]
		}
		writes, results, p := runWops(ops, broken, fa)
		os := []any{"ops"}
		for _, o := range ops {
			os = append(os, o.sx())
		}
		ws := []any{"writes"}
		for _, w := range writes {
			ws = append(ws, hx(w))
		}
		if fa >= 0 {
			c.out.line(sx("wops", id, class, sx(os...), sx("broken", broken), sx("failat", fa), sx(ws...), sx("results", results), sx("panic", p)))
		} else {
			c.out.line(sx("wops", id, class, sx(os...), sx("broken", broken), sx(ws...), sx("results", results), sx("panic", p)))
		}
		c.stat("class_" + class)
		id++
	}
	if c.replay != "" {
		if b, err := os.ReadFile(c.replay); err == nil && bytes.Contains(b, []byte("(tlsobs ")) {
			runC02TLS(c, tlsOnly(c))
			return nil
		}
		f, err := os.Open(c.replay)
		if err != nil {
			return err
		}
		sc := bufio.NewScanner(f)
		sc.Buffer(make([]byte, 1<<20), 1<<28)
		for sc.Scan() {
			l := sc.Text()
			if strings.HasPrefix(l, "(wops ") {
				n, err := parseSexp(l)
				if err != nil {
					return err
				}
				if fa := n.field("failat"); fa != nil {
					emitW("replay", wopsFrom(n.field("ops")), false, atoi(fa.list[1].atom))
				} else {
					emitW("replay", wopsFrom(n.field("ops")), n.field("broken").list[1].atom == "1")
				}
			}
		}
		f.Close()
		return replaySessions(c)
	}
	g := &gen{rng: c.rng}
	// (a) the Writer itself: call sequences with completed and abandoned messages
	nw := 3000
	if c.tier == "thorough" {
		nw = 60000
	}
	for i := 0; i < nw; i++ {
		emitW("writer", g.wops(), g.chance(0.1))
	}
	// a transient fault: exactly one Write call of the transport fails, delivering nothing (an expired write deadline,
	// a transport temporarily unavailable), the caller goes on writing: whatever was delivered before and after is
	// whole messages — "a failed write never leaves partial bytes that corrupt the next message"
	for i := 0; i < nw/10; i++ {
		emitW("transient_fault", g.wops(), false, i%6)
	}
	// (b) whole sessions: every byte the server sends must parse under the strict grammar
	ns := 1500
	if c.tier == "thorough" {
		ns = 30000
	}
	for i := 0; i < ns; i++ {
		cs := g.randomSession(id, "session")
		if i%8 == 3 && !cs.cfg.tls {
			// the optional SSL negotiation in front: after the one-byte reply everything must parse,
			// also when the client repeats the SSLRequest or sends a CancelRequest
			pre := sslRequest()
			switch (i / 8) % 4 {
			case 1:
				pre = cat(pre, sslRequest())
			case 2:
				pre = cat(pre, sslRequest(), sslRequest())
			case 3:
				pre = cat(pre, cancelRequest())
			}
			cs = flatCase(id, "ssl_session", cs.cfg, cat(pre, cs.raw), nil)
			cs.id = fmt.Sprint(id)
		}
		emitSession(c, cs)
		id++
	}
	runC02TLS(c, nil)
	// COPY-in that the client aborts, the handler handing the reader's error back: the reason the client
	// gave travels into an ErrorResponse
	for _, reason := range [][]byte{[]byte("client gave up"), {}, []byte("with \"quotes\" and \xc3\xa9"), bytes.Repeat([]byte("r"), 300)} {
		for _, ext := range []bool{false, true} {
			st := stmtT{id: 5, cols: textCols(2), prog: []opT{{kind: "copyin", fmt: 0}, {kind: "copyread"}, {kind: "copyread"}, {kind: "complete", tag: []byte("COPY 1")}}, stop: true, ret: "last"}
			cfg := cfgT{limit: 1024, auth: "none", term: "none", parse: []parseEntry{{query: []byte("copy"), stmts: []stmtT{st}}}}
			var msgs [][]byte
			if ext {
				msgs = append(msgs, mParse(nil, []byte("copy"), 0), mBind(nil, nil, nil, nil, nil), mExecute(nil, 0))
			} else {
				msgs = append(msgs, mQuery([]byte("copy")))
			}
			msgs = append(msgs, mCopyData([]byte("a,b\n")), mCopyFail(reason), mSync(), msg('f', []byte("no terminator")), mSync())
			emitSession(c, lockCase(id, "copyfail", cfg, stdStartup, msgs))
			id++
		}
	}
	// statements declared with exactly what the real ParseParameters returns, at the 16-bit boundary of the
	// ParameterDescription count, prepared and described over the wire
	for _, q := range []string{"SELECT $65535 WHERE ?", "SELECT $65534 WHERE ? AND ?", strings.Repeat("?,", 65535) + "$1", "$65535 $65535 ?", "select $3"} {
		n, _, _ := ppObserve([]byte(q))
		if n < 0 {
			n = 0
		}
		st := stmtT{id: 1, cols: textCols(1), poids: make([]int, n), prog: []opT{{kind: "complete", tag: []byte("SELECT 0")}}, ret: "nil"}
		cfg := cfgT{limit: 0, auth: "none", term: "none", parse: []parseEntry{{query: []byte(q), stmts: []stmtT{st}}}}
		emitSession(c, lockCase(id, "paramdesc", cfg, stdStartup, [][]byte{mParse([]byte("s"), []byte(q), 0), mDescribe('S', []byte("s")), mSync()}))
		id++
	}
	// wide tables, long and unusual names, many decorated errors
	for _, ncols := range []int{0, 1, 2, 17, 255, 256, 300} {
		var cols []colT
		row := opT{kind: "row"}
		for i := 0; i < ncols; i++ {
			cols = append(cols, colT{name: []byte(fmt.Sprintf("column_%d_%s", i, strings.Repeat("x", i%40))), oid: 25, table: i * 1000, attr: i, width: i % 70000})
			if i%7 == 3 {
				row.vals = append(row.vals, valT{kind: "nil"})
			} else {
				row.vals = append(row.vals, tv(strings.Repeat("v", i%9)))
			}
		}
		bad := opT{kind: "row", vals: append([]valT{}, row.vals...)}
		if ncols > 0 {
			bad.vals[ncols-1] = valT{kind: "unenc"}
		}
		st := stmtT{id: 1, cols: cols, poids: nil, prog: []opT{row, bad, row, {kind: "complete", tag: []byte("SELECT 2")}}, ret: "err", rerr: g.errTree(6)}
		cfg := cfgT{limit: 1024, auth: "none", term: "none", parse: []parseEntry{{query: []byte("wide"), stmts: []stmtT{st}}}}
		emitSession(c, lockCase(id, "wide", cfg, stdStartup, [][]byte{mQuery([]byte("wide")), mParse(nil, []byte("wide"), 0), mDescribe('S', nil), mBind(nil, nil, nil, nil, []int{1}), mDescribe('P', nil), mExecute(nil, 0), mSync()}))
		id++
		// result-format lists of every length 0..ncols+2 (fewer codes than columns, more codes than columns):
		// the declared field counts of RowDescription and DataRow match the fields that follow
		if ncols >= 1 && ncols <= 17 {
			for k := 0; k <= ncols+2 && k <= 8; k++ {
				rf := make([]int, k)
				for i := range rf {
					rf[i] = (i + k) % 2
				}
				emitSession(c, lockCase(id, "rfcount", cfg, stdStartup, [][]byte{mParse([]byte("s"), []byte("wide"), 0), mBind([]byte("p"), []byte("s"), nil, nil, rf),
					mDescribe('P', []byte("p")), mExecute([]byte("p"), 0), mSync(), mBind(nil, []byte("s"), nil, nil, rf), mExecute(nil, 0), mDescribe('P', nil), mSync()}))
				id++
			}
		}
	}
	return nil
}

// the same inside TLS: what the client reads from the secure stream after the one-byte 'S' must be the
// well-formed messages of the plaintext equivalent (and nothing is written underneath the TLS session)
func runC02TLS(c *runCfg, only map[string]bool) {
	tid := 7000000
	for k := 0; k < 6; k++ {
		rerr := &errT{kind: "code", a: []byte("22012"), inner: &errT{kind: "base", a: []byte("division by zero")}}
		st := stmtT{id: 1, cols: textCols(2), prog: []opT{{kind: "row", vals: []valT{tv("a"), {kind: "nil"}}}, {kind: "row", vals: []valT{tv("b"), {kind: "unenc"}}}, {kind: "complete", tag: []byte("SELECT 1")}}, ret: "err", rerr: rerr}
		cfg := simpleCfg(1024)
		cfg.tls = true
		cfg.parse = append(cfg.parse, parseEntry{query: []byte("failing"), stmts: []stmtT{st}})
		if k%2 == 1 {
			cfg.auth = "pw"
			cfg.authPW = []byte("secret")
		}
		msgs := [][]byte{startupMsg("user", "u", "database", "d")}
		if cfg.auth != "none" {
			msgs = append(msgs, mPassword([]byte("secret")))
		}
		msgs = append(msgs, mQuery([]byte("select 1")), mQuery([]byte("failing")), mParse(nil, []byte("failing"), 0), mBind(nil, nil, nil, nil, nil), mDescribe('P', nil), mExecute(nil, 0), mSync(), mQuery([]byte("nothing")), mTerminate())
		emitTLS(c, only, &tid, "tls_session", cfg, sslRequest(), nil, msgs, "")
	}
}
