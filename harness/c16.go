package main

import (
	"bufio"
	"bytes"
	"context"
	"errors"
	"fmt"
	"net"
	"os"
	"regexp"
	"runtime"
	"strconv"
	"strings"
	"sync"
	"sync/atomic"
	"time"

	wire "github.com/jeroenrinzema/psql-wire"
)

func init() { runners["C16"] = runC16 }

func goid() int64 {
	var buf [64]byte
	n := runtime.Stack(buf[:], false)
	f := bytes.Fields(buf[:n])
	id, _ := strconv.ParseInt(string(f[1]), 10, 64)
	return id
}

// ctrl holds every registered goroutine at each scheduling point until released.
type ctrl struct {
	mu      sync.Mutex
	cond    *sync.Cond
	actors  map[int64]string  // goroutine -> actor name
	at      map[string]string // actor -> point it waits at ("" = running)
	seq     map[string]int    // actor -> number of arrivals so far
	permits map[string]int    // actor -> releases granted and not yet consumed
	free    bool
	// direct observations for the oracles
	closeReturned bool
	lateStart     bool
	runningAtRet  bool
}

func newCtrl() *ctrl {
	c := &ctrl{actors: map[int64]string{}, at: map[string]string{}, seq: map[string]int{}, permits: map[string]int{}}
	c.cond = sync.NewCond(&c.mu)
	return c
}

func (c *ctrl) register(name string) {
	c.mu.Lock()
	c.actors[goid()] = name
	c.mu.Unlock()
}

func counted(p string) bool {
	return p == "cmd.runlock" || p == "cmd.start" || p == "handler" || p == "cmd.done"
}

func (c *ctrl) hook(srv *wire.Server, point string) {
	id := goid()
	c.mu.Lock()
	name, ok := c.actors[id]
	if !ok && point == "serve.helper" {
		name, ok = "h", true
	}
	if !ok {
		c.mu.Unlock()
		return
	}
	c.at[name] = point
	c.seq[name]++
	if point == "handler" && c.closeReturned {
		c.lateStart = true
	}
	if point == "close.return" {
		c.closeReturned = true
		for a, p := range c.at {
			if strings.HasPrefix(a, "w") && counted(p) {
				c.runningAtRet = true
			}
		}
	}
	c.cond.Broadcast()
	if point != "close.return" {
		for !c.free && c.permits[name] == 0 {
			c.cond.Wait()
		}
		if c.permits[name] > 0 {
			c.permits[name]--
		}
		c.at[name] = ""
	}
	c.mu.Unlock()
}

func (c *ctrl) release(name string) {
	c.mu.Lock()
	c.permits[name]++
	c.cond.Broadcast()
	c.mu.Unlock()
}

// waitArrival waits until the actor has arrived at a new point (arrival count > since).
func (c *ctrl) waitArrival(name string, since int, d time.Duration) (string, bool) {
	deadline := time.Now().Add(d)
	t := time.AfterFunc(d, func() { c.mu.Lock(); c.cond.Broadcast(); c.mu.Unlock() })
	defer t.Stop()
	c.mu.Lock()
	defer c.mu.Unlock()
	for c.seq[name] <= since {
		if time.Now().After(deadline) {
			return "", false
		}
		c.cond.Wait()
	}
	return c.at[name], true
}

func (c *ctrl) arrivals(name string) int {
	c.mu.Lock()
	defer c.mu.Unlock()
	return c.seq[name]
}

type memListener struct {
	closed chan struct{}
	once   sync.Once
}

func (l *memListener) Accept() (net.Conn, error) { <-l.closed; return nil, net.ErrClosed }
func (l *memListener) Close() error              { l.once.Do(func() { close(l.closed) }); return nil }
func (l *memListener) Addr() net.Addr            { return memAddr("listener") }

// scriptedListener hands out one connection, then (once told to) fails with an error that is not net.ErrClosed
type scriptedListener struct {
	first  net.Conn
	fail   chan struct{}
	closed chan struct{}
	once   sync.Once
	mu     sync.Mutex
	n      int
}

func (l *scriptedListener) Accept() (net.Conn, error) {
	l.mu.Lock()
	k := l.n
	l.n++
	l.mu.Unlock()
	switch k {
	case 0:
		return l.first, nil
	case 1:
		select {
		case <-l.fail:
			return nil, errors.New("accept tcp 127.0.0.1:5432: accept4: too many open files")
		case <-l.closed:
			return nil, net.ErrClosed
		}
	}
	<-l.closed
	return nil, net.ErrClosed
}
func (l *scriptedListener) Close() error   { l.once.Do(func() { close(l.closed) }); return nil }
func (l *scriptedListener) Addr() net.Addr { return memAddr("listener") }

type c16sched struct {
	id      string
	nc      int
	budgets []int
	items   [][2]string // kind, actor
}

var itemRe = regexp.MustCompile(`\((step|probe|await) ([a-z0-9]+)\)`)

func parseSched(l string) *c16sched {
	n, err := parseSexp(l)
	if err != nil {
		return nil
	}
	s := &c16sched{id: n.list[1].atom, nc: atoi(n.field("nc").list[1].atom)}
	for _, b := range n.field("budgets").list[1:] {
		s.budgets = append(s.budgets, atoi(b.atom))
	}
	for _, m := range itemRe.FindAllStringSubmatch(l, -1) {
		s.items = append(s.items, [2]string{m[1], m[2]})
	}
	return s
}

const probeWait = 40 * time.Millisecond
const stepWait = 1200 * time.Millisecond

func runC16sched(s *c16sched) (arr []string, final string) {
	ct := newCtrl()
	// "select 1": the parser is the handler whose start is observed (simple Query, Parse);
	// "ext": prepared while the controller lets everything pass, its statement function is the
	// handler observed when a portal bound to it is executed
	parse := func(ctx context.Context, query string) (wire.PreparedStatements, error) {
		if query == "ext" {
			return wire.Prepared(wire.NewStatement(func(ctx context.Context, w wire.DataWriter, p []wire.Parameter) error {
				ct.hook(nil, "handler")
				return w.Complete("OK")
			})), nil
		}
		ct.hook(nil, "handler")
		return wire.Prepared(wire.NewStatement(func(ctx context.Context, w wire.DataWriter, p []wire.Parameter) error {
			return w.Complete("OK")
		})), nil
	}
	sid := 0
	for _, ch := range s.id {
		if ch >= '0' && ch <= '9' {
			sid = sid*10 + int(ch-'0')
		}
	}
	srv, err := wire.NewServer(parse, wire.Logger(quiet), wire.MessageBufferSize(256))
	if err != nil {
		panic(err)
	}
	wire.SetVerifHook(ct.hook)
	defer wire.SetVerifHook(nil)
	lst := &memListener{closed: make(chan struct{})}
	serveDone := make(chan error, 1)
	go func() { serveDone <- srv.Serve(lst) }()
	// the connection goroutines, idle after the startup exchange
	conns := make([]*memConn, len(s.budgets))
	var panics int32
	var pmu sync.Mutex
	for i := range s.budgets {
		conn := newMemConn()
		conn.addr = fmt.Sprintf("w%d", i)
		conns[i] = conn
		name := fmt.Sprintf("w%d", i)
		go func() {
			defer conn.markFinished()
			defer func() {
				if p := recover(); p != nil {
					pmu.Lock()
					panics++
					pmu.Unlock()
				}
			}()
			ct.register(name)
			srv.ServeConn(context.Background(), conn)
		}()
		conn.push(stdStartup)
		conn.waitIdle(stepWait)
	}
	// every other connection has an extended-query batch open (Parse, Bind, no Sync yet) when
	// the schedule starts: its scheduled messages execute the bound portal
	warmed := make([]bool, len(s.budgets))
	nsent := make([]int, len(s.budgets))
	for i := range s.budgets {
		if (sid+i)%3 == 0 {
			// this connection has been through a failed extended batch whose remaining messages were
			// skipped up to the Sync: whatever was counted for them must have been released again
			ct.mu.Lock()
			ct.free = true
			ct.mu.Unlock()
			conns[i].push(cat(mBind([]byte("x"), []byte("nosuch"), nil, nil, nil), mDescribe('P', []byte("x")), mExecute([]byte("x"), 0), mFlush(), mSync()))
			conns[i].waitIdle(stepWait)
			ct.mu.Lock()
			ct.free = false
			ct.mu.Unlock()
		}
		if (sid+i)%2 == 0 {
			continue
		}
		warmed[i] = true
		ct.mu.Lock()
		ct.free = true
		ct.mu.Unlock()
		conns[i].push(cat(mParse([]byte("s"), []byte("ext"), 0), mBind([]byte("p"), []byte("s"), nil, nil, nil)))
		conns[i].waitIdle(stepWait)
		ct.mu.Lock()
		ct.free = false
		ct.mu.Unlock()
	}
	nextMsg := func(wi int) []byte {
		k := nsent[wi]
		nsent[wi]++
		switch {
		case warmed[wi]:
			return mExecute([]byte("p"), 0)
		case (sid+wi+k)%3 == 1:
			return mParse([]byte("t"), []byte("select 1"), 0)
		default:
			return mQuery([]byte("select 1"))
		}
	}
	// the Close callers, parked at close.enter
	closerDone := make([]chan struct{}, s.nc)
	for i := 0; i < s.nc; i++ {
		name := fmt.Sprintf("c%d", i)
		closerDone[i] = make(chan struct{})
		done := closerDone[i]
		go func() {
			defer close(done)
			defer func() {
				if p := recover(); p != nil {
					pmu.Lock()
					panics++
					pmu.Unlock()
				}
			}()
			ct.register(name)
			srv.Close()
		}()
		ct.waitArrival(name, 0, stepWait)
	}
	time.Sleep(2 * time.Millisecond) // let Serve's helper goroutine reach <-srv.closer
	hang := false
	inflightSince := map[string]int{}
	for _, it := range s.items {
		kind, a := it[0], it[1]
		widle := func(i int) bool { return conns[i].waitIdle(stepWait) }
		switch kind {
		case "step", "probe":
			since := ct.arrivals(a)
			isWorker := a[0] == 'w'
			var wi int
			if isWorker {
				wi = atoi(a[1:])
			}
			ct.mu.Lock()
			cur := ct.at[a]
			ct.mu.Unlock()
			if isWorker && cur == "" {
				// idle in Read: its next step is the arrival of a client message
				conns[wi].push(nextMsg(wi))
			} else {
				ct.release(a)
			}
			if kind == "probe" {
				if p, ok := ct.waitArrival(a, since, probeWait); ok {
					arr = append(arr, p)
					// the implementation proceeded where the protocol must block: search this
					// neighbourhood for a violation — let that goroutine run on first, then all others
					attack(ct, a, s)
					hang = false
					goto finish
				} else {
					arr = append(arr, "blocked")
					inflightSince[a] = since
				}
				continue
			}
			if a == "h" {
				// the helper has no further point: it closes the listener and leaves
				select {
				case <-lst.closed:
					arr = append(arr, "done")
				case <-time.After(stepWait):
					arr = append(arr, "timeout")
					hang = true
				}
				continue
			}
			if isWorker && (cur == "cmd.skip" || cur == "cmd.done") {
				if widle(wi) {
					arr = append(arr, "idle")
				} else {
					arr = append(arr, "timeout")
					hang = true
				}
				continue
			}
			if p, ok := ct.waitArrival(a, since, stepWait); ok {
				arr = append(arr, p)
			} else {
				arr = append(arr, "timeout")
				hang = true
			}
		case "await":
			since := inflightSince[a]
			delete(inflightSince, a)
			if p, ok := ct.waitArrival(a, since, stepWait); ok {
				arr = append(arr, p)
			} else {
				arr = append(arr, "timeout")
				hang = true
			}
		}
		if hang {
			break
		}
	}
finish:
	// let everything run to completion: every Close call must return, Serve must end with nil
	ct.mu.Lock()
	ct.free = true
	ct.cond.Broadcast()
	ct.mu.Unlock()
	for _, c := range conns {
		c.setEOF()
	}
	returned := 0
	for _, d := range closerDone {
		select {
		case <-d:
			returned++
		case <-time.After(stepWait):
			hang = true
		}
	}
	serveNil := false
	select {
	case err := <-serveDone:
		serveNil = err == nil
	case <-time.After(stepWait):
		hang = true
	}
	for _, c := range conns {
		c.waitFinished(stepWait)
	}
	ct.mu.Lock()
	late, rar := ct.lateStart, ct.runningAtRet
	ct.mu.Unlock()
	pmu.Lock()
	np := panics
	pmu.Unlock()
	// a panicking Close leaves its goroutine "returned" through the recover: do not count it
	final = sx("final", sx("panic", int(np)), sx("returned", returned-int(np)), sx("servenil", serveNil), sx("latestart", late), sx("runningatreturn", rar), sx("hang", hang))
	if np > 0 {
		final = sx("final", sx("panic", int(np)), sx("returned", returned), sx("servenil", serveNil), sx("latestart", late), sx("runningatreturn", rar), sx("hang", hang))
	}
	return
}

// attack drives the goroutines greedily after an unexpected step: first the
// goroutine that should have been blocked, then everybody else, one step at a time.
func attack(ct *ctrl, first string, s *c16sched) {
	names := []string{first, "h"}
	for i := 0; i < s.nc; i++ {
		names = append(names, fmt.Sprintf("c%d", i))
	}
	for i := range s.budgets {
		names = append(names, fmt.Sprintf("w%d", i))
	}
	for round := 0; round < 60; round++ {
		progress := false
		for k, n := range names {
			if k > 0 && n == first {
				continue
			}
			// run this goroutine as far as it gets
			for step := 0; step < 12; step++ {
				ct.mu.Lock()
				waiting := ct.at[n] != ""
				since := ct.seq[n]
				ct.mu.Unlock()
				if !waiting {
					break
				}
				ct.release(n)
				progress = true
				if _, ok := ct.waitArrival(n, since, 60*time.Millisecond); !ok {
					break
				}
			}
		}
		if !progress {
			break
		}
	}
}

// Scenarios beside the scheduled ones, judged by the direct oracles only (every Close returns, every Serve
// returns nil, nothing panics, nothing hangs):
//   listeners_k   one server serving k listeners (TCP + unix socket, two ports): Close ends every accept loop;
//   stalled_*     a connection that stopped sending in the middle of a message (inside the header, inside a
//                 body within the limit, inside the body of a message above the limit that is being skipped):
//                 no command has started, Close does not wait for that client.
// generous: a slow machine must not look like a deadlock (the wait is only spent when something is wrong)
const extraWait = 6 * time.Second

func runC16extras(c *runCfg) {
	id := 0
	emit := func(class string, nc, returned int, serveNil, hang bool, panics int) {
		c.out.line(sx("c16x", fmt.Sprintf("x%d", id), class, sx("nc", nc), sx("final", sx("panic", panics), sx("returned", returned), sx("servenil", serveNil), sx("latestart", false), sx("runningatreturn", false), sx("hang", hang))))
		c.stat("class_" + class)
		id++
	}
	var parsed atomic.Int64
	parse := func(ctx context.Context, query string) (wire.PreparedStatements, error) {
		parsed.Add(1)
		return wire.Prepared(wire.NewStatement(func(ctx context.Context, w wire.DataWriter, p []wire.Parameter) error {
			if query == "boom" {
				panic("statement function panics")
			}
			return w.Complete("OK")
		})), nil
	}
	wire.SetVerifHook(nil)
	for _, k := range []int{2, 3} {
		for _, nclose := range []int{1, 2} {
			srv, err := wire.NewServer(parse, wire.Logger(quiet), wire.MessageBufferSize(256))
			if err != nil {
				panic(err)
			}
			var lsts []*memListener
			serveDone := make(chan error, k)
			for i := 0; i < k; i++ {
				l := &memListener{closed: make(chan struct{})}
				lsts = append(lsts, l)
				go func() { serveDone <- srv.Serve(l) }()
				time.Sleep(5 * time.Millisecond) // the earlier accept loop is running when the next one starts
			}
			closed := make(chan struct{}, nclose)
			for i := 0; i < nclose; i++ {
				go func() { srv.Close(); closed <- struct{}{} }()
			}
			returned, hang, allNil := 0, false, true
			for i := 0; i < nclose; i++ {
				select {
				case <-closed:
					returned++
				case <-time.After(extraWait):
					hang = true
				}
			}
			for i := 0; i < k; i++ {
				select {
				case err := <-serveDone:
					allNil = allNil && err == nil
				case <-time.After(extraWait):
					allNil, hang = false, true
				}
			}
			for _, l := range lsts {
				select {
				case <-l.closed:
				default:
					allNil = false // a listener handed to Serve is still open after Close
				}
				l.Close()
			}
			emit(fmt.Sprintf("listeners_%d", k), nclose, returned, allNil, hang, 0)
		}
	}
	// a fault before Close: the accept loop ends with an error of its listener (file descriptors exhausted, ...) while a
	// connection it had accepted is idle. Close, called afterwards, returns — and from then on no parser runs on that
	// connection either
	for round := 0; round < 2; round++ {
		srv, err := wire.NewServer(parse, wire.Logger(quiet), wire.MessageBufferSize(256))
		if err != nil {
			panic(err)
		}
		conn := newMemConn()
		lst := &scriptedListener{first: conn, fail: make(chan struct{}), closed: make(chan struct{})}
		serveDone := make(chan error, 1)
		go func() { serveDone <- srv.Serve(lst) }()
		conn.push(stdStartup)
		conn.waitIdle(extraWait)
		if round == 1 {
			conn.push(mQuery([]byte("select 1")))
			conn.waitIdle(extraWait)
		}
		close(lst.fail)
		returned, hang, serveAsExpected := 0, false, false
		select {
		case err := <-serveDone:
			serveAsExpected = err != nil // Serve hands the listener's error to its caller
		case <-time.After(extraWait):
			hang = true
		}
		closed := make(chan struct{}, 1)
		go func() { srv.Close(); closed <- struct{}{} }()
		select {
		case <-closed:
			returned = 1
		case <-time.After(extraWait):
			hang = true
		}
		before := parsed.Load()
		late := false
		if returned == 1 {
			conn.push(mQuery([]byte("select 1")))
			conn.waitIdle(extraWait)
			late = parsed.Load() != before
		}
		conn.setEOF()
		conn.Close()
		lst.Close()
		c.out.line(sx("c16x", fmt.Sprintf("x%d", id), "accept_error_then_close", sx("nc", 1), sx("final", sx("panic", 0), sx("returned", returned), sx("servenil", serveAsExpected), sx("latestart", late), sx("runningatreturn", false), sx("hang", hang))))
		c.stat("class_accept_error_then_close")
		id++
	}
	big := msg('Q', make([]byte, 1000))
	within := mQuery(bytes.Repeat([]byte("x"), 100))
	stalls := []struct {
		class string
		part  []byte
	}{
		{"stalled_header", within[:3]},
		{"stalled_body", within[:40]},
		{"stalled_oversize_header", big[:5]},
		{"stalled_oversize_body", big[:300]},
		{"stalled_oversize_discarding", cat(mBind(nil, []byte("nosuch"), nil, nil, nil), big[:300])},
		// commands that ended badly earlier on this connection (a statement function that panicked under Execute, a
		// failed batch) are over: nothing of them is still counted when Close is called
		{"after_panic_in_execute", cat(mParse(nil, []byte("boom"), 0), mBind(nil, nil, nil, nil, nil), mExecute(nil, 0), mSync())},
		{"after_panic_then_idle", cat(mParse(nil, []byte("boom"), 0), mBind(nil, nil, nil, nil, nil), mExecute(nil, 0), mSync(), mQuery([]byte("select 1")))},
		{"after_failed_batch", cat(mExecute([]byte("nosuch"), 0), mParse(nil, []byte("x"), 0), mSync())},
	}
	for _, st := range stalls {
		srv, err := wire.NewServer(parse, wire.Logger(quiet), wire.MessageBufferSize(256))
		if err != nil {
			panic(err)
		}
		lst := &memListener{closed: make(chan struct{})}
		serveDone := make(chan error, 1)
		go func() { serveDone <- srv.Serve(lst) }()
		conn := newMemConn()
		panics := 0
		var pmu sync.Mutex
		go func() {
			defer conn.markFinished()
			defer func() {
				if p := recover(); p != nil {
					pmu.Lock()
					panics++
					pmu.Unlock()
				}
			}()
			srv.ServeConn(context.Background(), conn)
		}()
		conn.push(stdStartup)
		conn.waitIdle(extraWait)
		conn.push(mQuery([]byte("select 1")))
		conn.waitIdle(extraWait)
		conn.push(st.part)
		conn.waitIdle(extraWait) // the server waits for the rest of the message
		closed := make(chan struct{}, 1)
		go func() { srv.Close(); closed <- struct{}{} }()
		returned, hang, serveNil := 0, false, false
		select {
		case <-closed:
			returned = 1
		case <-time.After(extraWait):
			hang = true
		}
		select {
		case err := <-serveDone:
			serveNil = err == nil
		case <-time.After(extraWait):
			hang = true
		}
		conn.setEOF()
		conn.waitFinished(extraWait)
		if returned == 0 {
			select {
			case <-closed:
			case <-time.After(extraWait):
			}
		}
		pmu.Lock()
		np := panics
		pmu.Unlock()
		emit(st.class, 1, returned, serveNil, hang, np)
	}
}

func runC16(c *runCfg) error {
	if c.replay == "" {
		runC16extras(c)
	} else if b, err := os.ReadFile(c.replay); err == nil && bytes.Contains(b, []byte("c16x")) {
		runC16extras(c)
	}
	path := os.Getenv("C16_SCHEDULES")
	if c.replay != "" {
		path = c.replay
	}
	if path == "" {
		return errors.New("C16_SCHEDULES not set")
	}
	f, err := os.Open(path)
	if err != nil {
		return err
	}
	defer f.Close()
	sc := bufio.NewScanner(f)
	sc.Buffer(make([]byte, 1<<20), 1<<26)
	troubled := 0
	for sc.Scan() {
		l := sc.Text()
		if !strings.HasPrefix(l, "(sched ") {
			continue
		}
		s := parseSched(l)
		if s == nil {
			continue
		}
		if troubled >= 6 {
			break // enough evidence: do not wait through the time-outs of every remaining schedule
		}
		arr, final := runC16sched(s)
		if strings.Contains(final, "(hang 1)") || strings.Contains(final, "(latestart 1)") || strings.Contains(final, "(runningatreturn 1)") || !strings.Contains(final, "(panic 0)") {
			troubled++
		}
		as := []any{"arrivals"}
		for _, a := range arr {
			as = append(as, a)
		}
		c.out.line(sx("c16", s.id, "sched", sx(as...), final))
		c.stat("class_sched")
	}
	return sc.Err()
}
