package main

import (
	"bufio"
	"bytes"
	"fmt"
	"os"
	"strings"
	"unsafe"

	"github.com/jeroenrinzema/psql-wire/pkg/buffer"
)

func init() { runners["RD"] = runRD; runners["C03"] = runC03; runners["C18"] = runC18 }

type rdOp struct {
	kind string // typed untyped slurp string bytes u16 u32 prepare
	n    int
}

func (o rdOp) sx() string {
	if o.kind == "slurp" || o.kind == "bytes" {
		return sx(o.kind, o.n)
	}
	return o.kind
}

type view struct {
	s    string // aliases the reader's buffer
	b    []byte // aliases the reader's buffer
	copy []byte
}

// runReader performs the calls on a real buffer.Reader and records results,
// the slice layout of Msg after every call and whether any retained view changed.
func runReader(limit int, stream []byte, ops []rdOp) (res []string, layout []string, changed bool, panicked bool) {
	r := buffer.NewReader(quiet, bytes.NewReader(stream), limit)
	type allocT struct {
		base uintptr
		id   int
	}
	allocs := map[uintptr]allocT{}
	var keepAlive [][]byte
	defer func() { _ = len(keepAlive) }()
	var views []view
	lay := func() string {
		if r.Msg == nil {
			return sx(0, 0, 0, 0)
		}
		if cap(r.Msg) == 0 {
			// a zero-capacity slice keeps no usable position inside its allocation
			return sx(-1, 0, len(r.Msg), 0)
		}
		// every block ever seen stays referenced: a block the Reader has dropped must not be collected and its
		// address range handed out again, or two blocks would be taken for one (they are told apart by where they end)
		keepAlive = append(keepAlive, r.Msg)
		addr := uintptr(unsafe.Pointer(unsafe.SliceData(r.Msg)))
		end := addr + uintptr(cap(r.Msg))
		a, ok := allocs[end]
		if !ok {
			a = allocT{base: addr, id: len(allocs)}
			allocs[end] = a
		}
		return sx(a.id, int(addr-a.base), len(r.Msg), cap(r.Msg))
	}
	check := func() {
		for _, v := range views {
			if v.b != nil {
				if !bytes.Equal(v.b, v.copy) {
					changed = true
				}
			} else if v.s != string(v.copy) {
				changed = true
			}
		}
	}
	for _, o := range ops {
		var out string
		func() {
			defer func() {
				if p := recover(); p != nil {
					panicked = true
					out = "panic"
				}
			}()
			switch o.kind {
			case "typed", "untyped":
				t := -1
				var n int
				var err error
				if o.kind == "typed" {
					var tt interface{ String() string }
					typed, nn, e := r.ReadTypedMsg()
					_ = tt
					t, n, err = int(typed), nn, e
				} else {
					n, err = r.ReadUntypedMsg()
				}
				if err == nil {
					out = sx("msg", t, n)
				} else if ex, ok := buffer.UnwrapMessageSizeExceeded(err); ok {
					out = sx("sizeerr", t, ex.Size)
				} else {
					out = "readerr"
				}
			case "slurp":
				if err := r.Slurp(o.n); err != nil {
					out = "readerr"
				} else {
					out = "done"
				}
			case "string":
				s, err := r.GetString()
				if err != nil {
					out = "fail"
				} else {
					out = sx("bytes", []byte(s))
					views = append(views, view{s: s, copy: []byte(strings.Clone(s))})
				}
			case "bytes":
				b, err := r.GetBytes(o.n)
				if err != nil {
					out = "fail"
				} else {
					out = sx("bytes", b)
					views = append(views, view{b: b, copy: append([]byte{}, b...)})
					if b == nil {
						views[len(views)-1].b = []byte{}
					}
				}
			case "u16":
				v, err := r.GetUint16()
				if err != nil {
					out = "fail"
				} else {
					out = sx("num", int(v))
				}
			case "u32":
				v, err := r.GetUint32()
				if err != nil {
					out = "fail"
				} else {
					out = sx("num", int(v))
				}
			case "prepare":
				v, err := r.GetPrepareType()
				if err != nil {
					out = "fail"
				} else {
					out = sx("num", int(v))
				}
			}
		}()
		res = append(res, out)
		if panicked {
			layout = append(layout, sx(0, 0, 0, 0))
			break
		}
		layout = append(layout, lay())
		check()
	}
	return
}

func (g *gen) rdCase(limit int) (stream []byte, ops []rdOp) {
	sizes := []int{0, 1, 2, 5, 17, limit - 1, limit, limit + 1, limit + 7, 2*limit + 3, 4095, 4096, 4097, 8192}
	if limit < 64 {
		// a tiny limit turns a large skipped body into thousands of windows: keep those bodies moderate
		sizes = []int{0, 1, 2, 5, 17, limit - 1, limit, limit + 1, limit + 7, 2*limit + 3, 30 * limit, 100, 300}
	}
	nm := 1 + g.rng.Intn(6)
	for m := 0; m < nm; m++ {
		n := sizes[g.rng.Intn(len(sizes))]
		if n < 0 {
			n = 0
		}
		body := make([]byte, n)
		for i := range body {
			switch g.rng.Intn(5) {
			case 0:
				body[i] = 0
			default:
				body[i] = byte('a' + g.rng.Intn(26))
			}
		}
		typed := g.chance(0.85)
		declared := uint32(n + 4)
		if g.chance(0.05) {
			declared = uint32(g.rng.Intn(4))
			body = nil
			n = 0
		}
		if typed {
			stream = append(stream, byte("QPBDECHSXdcfz"[g.rng.Intn(13)]))
			ops = append(ops, rdOp{kind: "typed"})
		} else {
			ops = append(ops, rdOp{kind: "untyped"})
		}
		stream = append(stream, be32b(declared)...)
		stream = append(stream, body...)
		if n > limit && declared >= 4 {
			// the server skips an exceeding message
			if g.chance(0.9) {
				ops = append(ops, rdOp{kind: "slurp", n: n})
			}
			continue
		}
		for k := g.rng.Intn(7); k > 0; k-- {
			switch g.rng.Intn(6) {
			case 0, 1:
				ops = append(ops, rdOp{kind: "string"})
			case 2:
				ops = append(ops, rdOp{kind: "bytes", n: []int{0, 1, 2, 3, 4, 8, n, n + 1, 4096, 1 << 20, 1 << 31}[g.rng.Intn(11)]})
			case 3:
				ops = append(ops, rdOp{kind: "u16"})
			case 4:
				ops = append(ops, rdOp{kind: "u32"})
			case 5:
				ops = append(ops, rdOp{kind: "prepare"})
			}
		}
	}
	// sometimes the stream is cut short
	if g.chance(0.15) && len(stream) > 0 {
		stream = stream[:g.rng.Intn(len(stream))]
	}
	if g.chance(0.3) {
		ops = append(ops, rdOp{kind: "typed"})
	}
	return
}

func emitRD(c *runCfg, id int, class string, limit int, stream []byte, ops []rdOp) {
	res, layout, changed, p := runReader(limit, stream, ops)
	os := []any{"ops"}
	for _, o := range ops {
		os = append(os, o.sx())
	}
	c.out.line(sx("rd", id, class, sx("limit", limit), sx("stream", stream), sx(os...),
		sx("obs", sx("res", res), sx("layout", layout), sx("changed", changed), sx("panic", p))))
	c.stat("class_" + class)
}

func rdOpsFrom(n *node) []rdOp {
	var ops []rdOp
	for _, o := range n.list[1:] {
		if o.leaf {
			ops = append(ops, rdOp{kind: o.atom})
		} else {
			ops = append(ops, rdOp{kind: o.head(), n: atoi(o.list[1].atom)})
		}
	}
	return ops
}

func replayRD(c *runCfg) (bool, error) {
	f, err := os.Open(c.replay)
	if err != nil {
		return false, err
	}
	defer f.Close()
	sc := bufio.NewScanner(f)
	sc.Buffer(make([]byte, 1<<20), 1<<28)
	any := false
	id := 0
	for sc.Scan() {
		l := sc.Text()
		if !strings.HasPrefix(l, "(rd ") {
			continue
		}
		n, err := parseSexp(l)
		if err != nil {
			return any, err
		}
		emitRD(c, id, "replay", atoi(n.field("limit").list[1].atom), unhx(n.field("stream").list[1].atom), rdOpsFrom(n.field("ops")))
		id++
		any = true
	}
	return any, sc.Err()
}

func runRDn(c *runCfg, quick, thorough int) error {
	g := &gen{rng: c.rng}
	n := quick
	if c.tier == "thorough" {
		n = thorough
	}
	for i := 0; i < n; i++ {
		limit := []int{1, 8, 64, 100, 4096, 5000}[g.rng.Intn(6)]
		stream, ops := g.rdCase(limit)
		emitRD(c, 1000000+i, "reader", limit, stream, ops)
	}
	// corpus: the allocation granule and the message limit
	for _, L := range []int{64, 4096, 5000} {
		var stream []byte
		var ops []rdOp
		for _, n := range []int{10, 4000, 90, 7, L, 0, 4095, 2, 4096, 4097, 1} {
			if n > L {
				continue
			}
			body := bytes.Repeat([]byte("ab\x00"), n/3+1)[:n]
			stream = append(stream, 'Q')
			stream = append(stream, be32b(uint32(n+4))...)
			stream = append(stream, body...)
			ops = append(ops, rdOp{kind: "typed"}, rdOp{kind: "string"}, rdOp{kind: "bytes", n: 1}, rdOp{kind: "string"})
		}
		emitRD(c, 2000000+L, "granule", L, stream, ops)
	}
	return nil
}

func runRD(c *runCfg) error {
	if c.replay != "" {
		_, err := replayRD(c)
		return err
	}
	return runRDn(c, 3000, 60000)
}

var _ = fmt.Sprint

// ---------------- C03 ----------------
func (g *gen) cuts(n int, k int) []int {
	// k random cut points -> chunk sizes
	if n == 0 {
		return nil
	}
	pts := map[int]bool{}
	for i := 0; i < k; i++ {
		pts[1+g.rng.Intn(n)] = true
	}
	var chunks []int
	last := 0
	for i := 1; i <= n; i++ {
		if pts[i] {
			chunks = append(chunks, i-last)
			last = i
		}
	}
	return chunks
}

func runC03(c *runCfg) error {
	if c.replay != "" {
		any, err := replayRD(c)
		if err != nil {
			return err
		}
		_ = any
		if err := replayC14(c); err != nil {
			return err
		}
		return replaySessions(c)
	}
	g := &gen{rng: c.rng}
	// (i) the same byte stream in different segmentations
	n := 250
	if c.tier == "thorough" {
		n = 5000
	}
	for i := 0; i < n; i++ {
		cs := g.randomSession(i, "seg")
		if i%5 == 0 {
			// surplus-carrying and short messages: unread fields must not leak into the next message
			cfg := cs.cfg
			raw := append([]byte{}, stdStartup...)
			junk := []byte("select 1\x00q0\x00\x00\x01\x00\x00\x00\x00")
			for k := 0; k < 6; k++ {
				switch g.rng.Intn(8) {
				case 0:
					raw = append(raw, msg('P', cat(cs0(g.name()), cs0(g.queryName(&cfg)), be16b(2), be32b(23), be32b(25), junk))...)
				case 1:
					raw = append(raw, msg('E', cat(cs0(g.name()), be32b(0), junk))...)
				case 2:
					raw = append(raw, msg('S', junk)...)
				case 3:
					raw = append(raw, msg('H', junk)...)
				case 4:
					raw = append(raw, msg('D', cat([]byte{'S'}, cs0(g.name()), junk))...)
				case 5:
					raw = append(raw, msg(byte("QPBDEC"[g.rng.Intn(6)]), nil)...)
				case 6:
					raw = append(raw, msg('Q', cat(cs0(g.queryName(&cfg)), junk))...)
				case 7:
					raw = append(raw, msg('C', cat([]byte{'P'}, cs0(g.name()), junk))...)
				}
			}
			raw = append(raw, mSync()...)
			cs = flatCase(i, "surplus", cfg, raw, nil)
		}
		if i%10 == 2 {
			// the password message obeys its declared length like every other message: without a terminator inside it
			// (unterminated, body-less, terminator only behind the declared end) it is refused — the bytes behind it are
			// not part of the password
			cfg := cs.cfg
			cfg.auth = []string{"pw", "accept"}[(i/10)%2]
			cfg.authPW = []byte("abc")
			pws := [][]byte{msg('p', []byte("abc")), msg('p', nil), msg('p', []byte("ab")), mPassword([]byte("abc")), msg('p', []byte("abc\x00surplus"))}
			raw := cat(stdStartup, pws[(i/20)%len(pws)], mQuery(g.queryName(&cfg)), []byte{0}, mSync(), mTerminate())
			cs = flatCase(i, "password_framing", cfg, raw, nil)
		}
		if i%10 == 4 {
			// Sync / Flush carrying a body inside a COPY: the body is consumed with its message, in every segmentation
			bcfg, hs := copyBodyCases(64)
			h := hs[(i/10)%len(hs)]
			raw := append([]byte{}, stdStartup...)
			for _, m := range h {
				raw = append(raw, m...)
			}
			cs = flatCase(i, "copy_bodies", bcfg, raw, nil)
		}
		if i%10 == 9 {
			// while the session skips to the next Sync (a failed Bind / Parse / Execute before it), a message above the
			// limit is still consumed in exactly its declared length: its body — which spells Sync, Query, Parse messages —
			// is never interpreted
			cfg := cs.cfg
			L := cfg.limit
			if L <= 0 {
				L = 1 << 24
			}
			smuggled := cat(mSync(), mQuery(g.queryName(&cfg)), mParse(nil, g.queryName(&cfg), 0), mSync())
			body := append(append([]byte{}, smuggled...), make([]byte, L+1+(i/10)%7)...)
			fail := [][]byte{mBind(nil, []byte("no such statement"), nil, nil, nil), mExecute([]byte("no such portal"), 0), mParse(nil, []byte("unknown query"), 0)}[(i/10)%3]
			raw := cat(stdStartup, fail, msg(byte("QBPEDz"[(i/30)%6]), body), mFlush(), mSync(), mQuery(g.queryName(&cfg)))
			cs = flatCase(i, "oversize_while_discarding", cfg, raw, nil)
		}
		if i%10 == 7 {
			// a declared length at the edges of the 32-bit range (above every limit): exactly that many bytes belong to
			// the message — here: everything the client still sends — and none of them is ever interpreted
			cfg := cs.cfg
			dl := []uint32{0x7fffffff, 0x80000000, 0x80000003, 0xfffffffb, 0xffffffff}[(i/10)%5]
			smuggled := cat(mSync(), mQuery(g.queryName(&cfg)), mParse(nil, g.queryName(&cfg), 0), mSync())
			raw := cat(stdStartup, mQuery(g.queryName(&cfg)), msgLen(byte("QPBEz"[(i/50)%5]), dl, smuggled), mSync(), mQuery(g.queryName(&cfg)))
			cs = flatCase(i, "huge_length", cfg, raw, nil)
		}
		if i%5 == 1 && !cs.cfg.tls {
			// negotiation prefix: an SSLRequest answered 'N', then the same stream
			cs = flatCase(i, "ssl_n_seg", cs.cfg, cat(sslRequest(), cs.raw), nil)
		}
		raw := cs.raw
		variants := [][]int{nil, bytewise(len(raw)), {8}, {9}, {7, 2}, {8 + len(stdStartup)}}
		// split inside every header of the first few messages
		variants = append(variants, []int{len(stdStartup) + 1, 2, 1, 3}, []int{1, 3, len(stdStartup) - 2, 3})
		for k := 0; k < 4; k++ {
			variants = append(variants, g.cuts(len(raw), 1+g.rng.Intn(8)))
		}
		for v, ch := range variants {
			vc := *cs
			vc.id = fmt.Sprintf("%d.v%d", i, v)
			vc.lock = false
			vc.chunks = ch
			emitSession(c, &vc)
		}
	}
	// (ii-b) "a function of the client's byte stream alone": the transcript of a connection served next to another
	// connection of the same server — one whose batch has failed and which has not sent its Sync yet — is the
	// transcript of the same stream served alone (variant .v0)
	{
		ok := stmtT{id: 1, cols: textCols(1), prog: []opT{{kind: "row", vals: []valT{tv("r")}}, {kind: "complete", tag: []byte("SELECT 1")}}, ret: "nil"}
		cfg := cfgT{limit: 1024, auth: "none", term: "none", parse: []parseEntry{{query: []byte("ok"), stmts: []stmtT{ok}}}}
		for r := 0; r < 4; r++ {
			healthyMsgs := [][]byte{mQuery([]byte("ok")), mParse(nil, []byte("ok"), 0), mBind(nil, nil, nil, nil, nil), mDescribe('P', nil), mExecute(nil, 0), mSync(), mQuery([]byte("ok"))}
			solo := lockCase(0, "beside_failed_batch", cfg, startupMsg("user", "healthy"), healthyMsgs)
			solo.id = fmt.Sprintf("%d.v0", 900000+r)
			emitSession(c, solo)
			failing := lockCase(0, "beside_failed_batch", cfg, startupMsg("user", "failing"), [][]byte{
				[][]byte{mBind(nil, []byte("missing"), nil, nil, nil), mExecute([]byte("nope"), 0)}[r%2],
				mParse(nil, []byte("ok"), 0), mBind(nil, nil, nil, nil, nil), mExecute(nil, 0), mSync(), mQuery([]byte("ok"))})
			failing.id = fmt.Sprintf("%d.failing", 900000+r)
			healthy := lockCase(0, "beside_failed_batch", cfg, startupMsg("user", "healthy"), healthyMsgs)
			healthy.id = fmt.Sprintf("%d.v1", 900000+r)
			sched := []int{0, 1, 0, 1, 1, 1, 1, 1, 1, 1, 0, 0, 0, 0, 0}
			if r >= 2 {
				sched = []int{1, 0, 0, 1, 1, 0, 1, 1, 0, 1, 1, 0, 1, 0, 0}
			}
			emitMulti(c, "beside_failed_batch", []*caseT{failing, healthy}, sched, false)
		}
	}
	// (iii) surplus behind the last field of the message that starts a binary COPY: the row reader of the
	// library must not see it (reference run without surplus first, then the variants of the same group)
	for k := 0; k < 12; k++ {
		shapes := [][]int{{23}, {25}, {23, 25}, {21, 23}}
		oids := shapes[k%len(shapes)]
		var rows [][]bval
		for r := k % 3; r > 0; r-- {
			var row []bval
			for _, o := range oids {
				row = append(row, g.bval(o))
			}
			rows = append(rows, row)
		}
		stream, expect := encodeRows(oids, rows, k%2 == 0, k%4 < 2)
		gid := 700000 + k
		emitC14(c, &c14case{id: fmt.Sprintf("%d.v0", gid), class: "surplus_ref", limit: 64, oids: oids, chunks: fitChunks([][]byte{stream}, 64), ending: "done", expect: expect})
		emitC14Surplus(c, gid, 64, oids, stream, expect)
	}
	// (ii) the field accessors on arbitrary message bodies
	return runRDn(c, 2500, 50000)
}

func cs0(b []byte) []byte { return append(append([]byte{}, b...), 0) }

// ---------------- C18 ----------------
func runC18(c *runCfg) error {
	if c.replay != "" {
		if _, err := replayRD(c); err != nil {
			return err
		}
		// twice: what the callbacks of the first run retained must survive the traffic of the second connection
		if err := replaySessions(c); err != nil {
			return err
		}
		return replaySessions(c)
	}
	g := &gen{rng: c.rng}
	// sessions whose callbacks retain what they were given while messages of every size follow
	n := 60
	if c.tier == "thorough" {
		n = 1500
	}
	for i := 0; i < n; i++ {
		L := []int{4096, 5000, 9000}[g.rng.Intn(3)]
		cfg := simpleCfg(L)
		cfg.auth = "accept"
		st := stmtT{id: 2, cols: textCols(1), poids: []int{25}, prog: []opT{{kind: "row", vals: []valT{tv("r")}}, {kind: "complete", tag: []byte("SELECT 1")}}, ret: "nil"}
		copySt := stmtT{id: 3, cols: textCols(1), prog: []opT{{kind: "copyin", fmt: 0}, {kind: "copyread"}, {kind: "copyread"}, {kind: "copyread"}, {kind: "complete", tag: []byte("COPY")}}, ret: "nil"}
		longQ := []byte("select " + strings.Repeat("x", 30+g.rng.Intn(300)))
		brokenQ := []byte("SELECT broken FROM " + strings.Repeat("a", 40+g.rng.Intn(200)))
		cfg.parse = append(cfg.parse, parseEntry{query: longQ, stmts: []stmtT{st}}, parseEntry{query: []byte("copy"), stmts: []stmtT{copySt}},
			parseEntry{query: brokenQ, err: &errT{kind: "code", a: []byte("42601"), inner: &errT{kind: "base", a: []byte("syntax error")}}})
		su := startupMsg("user", "alice-with-a-long-name", "database", "the-database", "application_name", strings.Repeat("app", 20))
		msgs := [][]byte{mPassword([]byte("a fairly long password 0123456789")), mQuery(longQ),
			mParse([]byte("s"), longQ, 0), mBind([]byte("p"), []byte("s"), nil, []bindP{{v: bytes.Repeat([]byte("P"), 50)}, {v: []byte("second")}}, nil), mExecute([]byte("p"), 0), mSync()}
		sizes := []int{4085, 4090, 4095, 4096, 4097, L - 1, L, L + 1, L + 50, 3 * L, 0, 1, 17}
		for k := 0; k < 10; k++ {
			sz := sizes[g.rng.Intn(len(sizes))]
			body := bytes.Repeat([]byte{byte('A' + k)}, sz)
			switch g.rng.Intn(4) {
			case 0:
				msgs = append(msgs, msg('z', body))
			case 1:
				if sz > 0 {
					body[sz-1] = 0
				}
				msgs = append(msgs, msg('Q', body))
			case 2:
				msgs = append(msgs, mQuery([]byte("copy")), mCopyData(body), mCopyData(body[:len(body)/2]), mCopyDone())
			case 3:
				msgs = append(msgs, msg('H', body), mExecute([]byte("p"), 0), mSync())
			}
		}
		// a Parse that fails after the parser has seen (and kept) its query text; what follows is skipped up to
		// the Sync — ordinary, oversized and empty messages — and must not disturb what was kept
		if i%2 == 0 {
			msgs = append(msgs, mParse([]byte("b"), brokenQ, 0))
			for k := 0; k < 1+g.rng.Intn(3); k++ {
				sz := []int{L + 1, 3 * L, 10, 0, 4097}[g.rng.Intn(5)]
				msgs = append(msgs, msg(byte("zQBH"[g.rng.Intn(4)]), bytes.Repeat([]byte{byte('s' + k)}, sz)))
			}
			msgs = append(msgs, mSync(), mQuery(bytes.Repeat([]byte("Z"), 100+g.rng.Intn(3000))), msg('z', bytes.Repeat([]byte("Y"), 2000)))
		}
		// later traffic includes binding the same portal (and the unnamed one) again with as many, fewer and more
		// parameters of other values and formats: what an earlier execution was handed stays as it was
		if i%3 != 1 {
			for k, nm := range [][]byte{[]byte("p"), nil, []byte("p")} {
				var ps []bindP
				for j := 0; j < []int{2, 1, 3}[(k+i)%3]; j++ {
					ps = append(ps, bindP{v: bytes.Repeat([]byte{byte('k' + k + j)}, 7+j+k)})
				}
				msgs = append(msgs, mBind(nm, []byte("s"), []int{(k + i) % 2}, ps, nil), mExecute(nm, 0), mBind(nm, []byte("s"), nil, ps[:len(ps)-1], nil), mSync())
				// closing the portal (and the statement) releases names, not the data a callback still holds
				if (k+i)%2 == 0 {
					msgs = append(msgs, mClose('P', nm), mSync(), mClose('S', []byte("s")), mParse([]byte("s"), longQ, 0), mSync())
				} else {
					cp := []byte(fmt.Sprintf("closing%d", k))
					msgs = append(msgs, mBind(cp, []byte("s"), nil, []bindP{{v: bytes.Repeat([]byte{byte('c' + k)}, 9+k)}, {v: []byte("kept by the handler")}}, nil), mExecute(cp, 0), mClose('P', cp), mSync(), mQuery(longQ))
				}
			}
		}
		// volume: "for as long as the holder retains them" — a long run of ordinary messages below the allocation
		// granule (tens of granules' worth) after everything above has been handed out
		if i%6 == 5 {
			for k := 0; k < 70; k++ {
				sz := []int{3000, 2047, 4000, 1500}[(k+i)%4]
				body := bytes.Repeat([]byte{byte('a' + k%26)}, sz)
				body[sz-1] = 0
				msgs = append(msgs, msg(byte("Qz"[k%2]), body))
			}
		}
		msgs = append(msgs, mQuery(longQ), mExecute([]byte("p"), 0), mSync(), mTerminate())
		cs := lockCase(i, "retain", cfg, su, msgs)
		cs.pre = 2
		emitSession(c, cs)
	}
	// the reader itself: slice layout and view stability under arbitrary call sequences
	return runRDn(c, 3000, 60000)
}
