package main

import (
	"bufio"
	"encoding/hex"
	"fmt"
	"os"
	"strings"
	"sync"
)

// S-expression output: atoms are [^\s()]+ ; byte strings are written as
// x<hex> (x alone is the empty string); one case per line.

func hx(b []byte) string { return "x" + hex.EncodeToString(b) }

func sx(parts ...any) string {
	var sb strings.Builder
	sb.WriteByte('(')
	for i, p := range parts {
		if i > 0 {
			sb.WriteByte(' ')
		}
		switch v := p.(type) {
		case string:
			sb.WriteString(v)
		case []byte:
			sb.WriteString(hx(v))
		case int:
			fmt.Fprintf(&sb, "%d", v)
		case int64:
			fmt.Fprintf(&sb, "%d", v)
		case uint64:
			fmt.Fprintf(&sb, "%d", v)
		case bool:
			if v {
				sb.WriteString("1")
			} else {
				sb.WriteString("0")
			}
		case []string:
			sb.WriteString(strings.Join(v, " "))
		default:
			fmt.Fprintf(&sb, "%v", v)
		}
	}
	sb.WriteByte(')')
	return sb.String()
}

type outFile struct {
	mu sync.Mutex
	f  *os.File
	w  *bufio.Writer
	n  int
}

var theOut *outFile // flushed by the memory guard before it stops the process

func newOut(path string) *outFile {
	f, err := os.Create(path)
	if err != nil {
		panic(err)
	}
	theOut = &outFile{f: f, w: bufio.NewWriterSize(f, 1<<20)}
	return theOut
}
func (o *outFile) line(s string) {
	o.mu.Lock()
	o.w.WriteString(s)
	o.w.WriteByte('\n')
	o.n++
	o.mu.Unlock()
}
func (o *outFile) close() { o.mu.Lock(); o.w.Flush(); o.f.Close(); o.mu.Unlock() }
