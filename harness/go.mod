module verifharness

go 1.23.0

require (
	github.com/jackc/pgx/v5 v5.4.3
	github.com/jeroenrinzema/psql-wire v0.0.0
	github.com/lib/pq v1.10.9
)

replace github.com/jeroenrinzema/psql-wire => /repo
