package main

import (
	"bytes"
	"context"
	"crypto/tls"
	"fmt"
	"io"
	"net"
	"os"
	"strings"
	"sync"
	"time"
)

func init() { runners["C11"] = runC11 }

// clientSide is the client's end of a memConn: what the server wrote is read,
// what is written is queued for the server. Used by the real crypto/tls client.
type clientSide struct {
	c    *memConn
	pos  int
	idle bool
}

func (s *clientSide) Read(p []byte) (int, error) {
	s.c.mu.Lock()
	defer s.c.mu.Unlock()
	for s.pos >= len(s.c.out) && !s.c.closed && !s.c.finished {
		s.idle = true
		s.c.cond.Broadcast()
		s.c.cond.Wait()
	}
	s.idle = false
	if s.pos >= len(s.c.out) {
		return 0, io.EOF
	}
	n := copy(p, s.c.out[s.pos:])
	s.pos += n
	s.c.cond.Broadcast()
	return n, nil
}
func (s *clientSide) Write(p []byte) (int, error) {
	if s.c.over() {
		return 0, net.ErrClosed
	}
	s.c.push(p)
	return len(p), nil
}
func (s *clientSide) Close() error                       { return nil }
func (s *clientSide) LocalAddr() net.Addr                { return memAddr("client") }
func (s *clientSide) RemoteAddr() net.Addr               { return memAddr("server") }
func (s *clientSide) SetDeadline(t time.Time) error      { return nil }
func (s *clientSide) SetReadDeadline(t time.Time) error  { return nil }
func (s *clientSide) SetWriteDeadline(t time.Time) error { return nil }

// settled: the server waits for input and the client has consumed everything the server wrote
func (s *clientSide) settle(d time.Duration) bool {
	deadline := time.Now().Add(d)
	t := time.AfterFunc(d, func() { s.c.mu.Lock(); s.c.cond.Broadcast(); s.c.mu.Unlock() })
	defer t.Stop()
	s.c.mu.Lock()
	defer s.c.mu.Unlock()
	for !((s.c.closed || s.c.finished) && s.pos >= len(s.c.out)) &&
		!((s.c.idle && len(s.c.segs) == 0) && s.pos >= len(s.c.out) && s.idle) {
		if time.Now().After(deadline) {
			return false
		}
		s.c.cond.Wait()
	}
	return true
}

// tlsRecordsOK: raw bytes form a sequence of TLS records (content type 20..23, version 3.x, length <= 2^14+2048)
func tlsRecordsOK(raw []byte) bool {
	ok, _ := tlsRecords(raw)
	return ok
}

// tlsRecords also counts the records: a session the server ends is ended with a closing record of its own (the
// close_notify alert travels as one more encrypted record behind the last reply)
// closingRecord: the last record is an alert — in TLS 1.2 a record of type 21, in TLS 1.3 an encrypted record whose
// payload is the two alert bytes, the content type and the 16-byte tag (no protocol message is that short)
func closingRecord(raw []byte) bool {
	last, lastLen := -1, 0
	for len(raw) >= 5 {
		l := int(raw[3])<<8 | int(raw[4])
		if len(raw) < 5+l {
			break
		}
		last, lastLen = int(raw[0]), l
		raw = raw[5+l:]
	}
	return last == 21 || (last == 23 && lastLen == 19)
}

func tlsRecords(raw []byte) (bool, int) {
	n := 0
	for len(raw) > 0 {
		if len(raw) < 5 {
			return false, n
		}
		if raw[0] < 20 || raw[0] > 23 || raw[1] != 3 {
			return false, n
		}
		l := int(raw[3])<<8 | int(raw[4])
		if l > 16384+2048 || len(raw) < 5+l {
			return false, n
		}
		raw = raw[5+l:]
		n++
	}
	return true, n
}

// runTLS drives an SSLRequest + TLS session against the real server.
// pre: bytes sent in plaintext (SSLRequest, possibly followed by stuffed bytes; chunked per preChunks);
// msgs: plaintext protocol chunks sent inside the TLS session, lock-step.
// how the client's read side of the last TLS session ended: "eof" (the server's close_notify arrived), "cut" (the
// transport ended without it), "" (no TLS session / still open)
var lastTLSReadEnd string

// set by the C15 runner for its class beside_stalled_tls
var tlsBeside bool

func runTLS(cs *caseT, preChunks []int, msgs [][]byte) (o *obsT, handshake string, rawOK bool, turnBase int) {
	lastTLSReadEnd = ""
	reg := &registry{recs: map[string]*recorder{}}
	conn, rec := newSession(cs, reg)
	conn.encrypted = cs.cfg.tls
	srv, err := buildServer(&cs.cfg, reg)
	if err != nil {
		panic(err)
	}
	o = &obsT{}
	endOther := func() {}
	if tlsBeside {
		// another client of the same server has asked for TLS, has been told 'S', and now stalls before its
		// ClientHello (for as long as this session lasts)
		other := *cs
		other.id = cs.id + "stalled"
		connA, _ := newSession(&other, reg)
		connA.encrypted = cs.cfg.tls
		serveAsync(srv, connA, &obsT{})
		connA.push(sslRequest())
		connA.waitIdle(idleTimeout)
		var once sync.Once
		endOther = func() {
			once.Do(func() {
				connA.Close()
				connA.waitFinished(idleTimeout)
			})
		}
		defer endOther()
	}
	serveAsync(srv, conn, o)
	rest := cs.raw
	for _, n := range preChunks {
		if n > len(rest) {
			n = len(rest)
		}
		conn.push(rest[:n])
		rest = rest[n:]
		conn.waitIdle(idleTimeout)
	}
	conn.push(rest)
	conn.waitIdle(idleTimeout)
	side := &clientSide{c: conn}
	// the single-byte reply
	first := make([]byte, 1)
	firstDone := make(chan error, 1)
	go func() {
		_, err := io.ReadFull(side, first)
		firstDone <- err
	}()
	var ferr error
	select {
	case ferr = <-firstDone:
	case <-time.After(idleTimeout):
		// no answer to the SSLRequest at all
		o.hang = true
		conn.Close()
		ferr = <-firstDone
	}
	if ferr != nil {
		handshake = "noreply"
		endOther()
		conn.waitFinished(idleTimeout)
		collect(conn, rec, o)
		return o, handshake, false, 0
	}
	var plain []byte
	var pmu sync.Mutex
	handshake = "none"
	if first[0] == 'S' {
		tc := tls.Client(side, &tls.Config{InsecureSkipVerify: true})
		hsDone := make(chan error, 1)
		go func() { hsDone <- tc.HandshakeContext(context.Background()) }()
		select {
		case err := <-hsDone:
			if err != nil {
				handshake = "fail"
			} else {
				handshake = "ok"
			}
		case <-time.After(5 * time.Second):
			handshake = "fail"
			conn.Close()
		}
		if handshake == "ok" {
			_, turnBase = conn.outLenTurn()
			readerDone := make(chan struct{})
			go func() {
				defer close(readerDone)
				buf := make([]byte, 65536)
				for {
					n, err := tc.Read(buf)
					pmu.Lock()
					plain = append(plain, buf[:n]...)
					if err == io.EOF {
						lastTLSReadEnd = "eof"
					} else if err != nil {
						lastTLSReadEnd = "cut"
					}
					pmu.Unlock()
					if err != nil {
						return
					}
				}
			}()
			for k, m := range msgs {
				if conn.over() {
					break
				}
				conn.setTurn(turnBase + k + 1)
				if _, err := tc.Write(m); err != nil {
					break
				}
				if !side.settle(idleTimeout) {
					o.hang = true
					break
				}
				pmu.Lock()
				o.steps = append(o.steps, 1+len(plain))
				pmu.Unlock()
			}
			tA := time.Now()
			conn.setEOF()
			if !conn.waitFinished(idleTimeout) {
				o.hang = true
				conn.Close()
			}
			tB := time.Now()
			<-readerDone
			if os.Getenv("C11_TIMING") != "" {
				fmt.Fprintln(os.Stderr, "finish", tB.Sub(tA), "reader", time.Since(tB))
			}
		} else {
			conn.setEOF()
			conn.waitFinished(idleTimeout)
		}
	} else {
		// 'N': the same connection continues in plaintext
		_, turnBase = conn.outLenTurn()
		for _, m := range msgs {
			if conn.over() {
				break
			}
			conn.push(m)
			if !conn.waitIdle(idleTimeout) {
				o.hang = true
				break
			}
			o.steps = append(o.steps, conn.outLen())
		}
		conn.setEOF()
		if !conn.waitFinished(idleTimeout) {
			o.hang = true
		}
	}
	collect(conn, rec, o)
	raw := o.out
	rawOK = true
	if first[0] == 'S' {
		rawOK = len(raw) >= 1 && tlsRecordsOK(raw[1:])
		if len(raw) >= 1 && closingRecord(raw[1:]) {
			lastTLSReadEnd = "closed"
		}
		pmu.Lock()
		o.out = append([]byte{'S'}, plain...)
		pmu.Unlock()
	}
	return o, handshake, rawOK, turnBase
}

// tlsDial sends an SSLRequest on the connection and, when the server answers 'S', completes a TLS handshake.
func tlsDial(conn *memConn) (*tls.Conn, *clientSide, bool) {
	conn.push(sslRequest())
	conn.waitIdle(idleTimeout)
	side := &clientSide{c: conn}
	first := make([]byte, 1)
	if _, err := io.ReadFull(side, first); err != nil || first[0] != 'S' {
		return nil, side, false
	}
	tc := tls.Client(side, &tls.Config{InsecureSkipVerify: true})
	hsDone := make(chan error, 1)
	go func() { hsDone <- tc.HandshakeContext(context.Background()) }()
	select {
	case err := <-hsDone:
		if err != nil {
			return nil, side, false
		}
	case <-time.After(5 * time.Second):
		conn.Close()
		return nil, side, false
	}
	return tc, side, true
}

// tlsOnly: the ids named in a replay file (TLS sessions are re-generated with the same seed and
// only the named cases are run again)
func tlsOnly(c *runCfg) map[string]bool {
	only := map[string]bool{}
	if c.replay != "" {
		if b, err := os.ReadFile(c.replay); err == nil {
			for _, l := range strings.Split(string(b), "\n") {
				if strings.HasPrefix(l, "(sess ") {
					only[strings.Fields(l)[1]] = true
				}
			}
		}
	}
	return only
}

// emitTLS runs one SSLRequest (+ TLS) session and writes case + observation; [id] is advanced.
func emitTLS(c *runCfg, only map[string]bool, id *int, class string, cfg cfgT, pre []byte, preChunks []int, msgs [][]byte, pairID string) {
	cs := &caseT{id: fmt.Sprint(*id), class: class, cfg: cfg, raw: pre, lock: true}
	if pairID != "" {
		cs.id = pairID
	}
	if (len(only) > 0 && !only[cs.id]) || hangTotal.Load() >= maxHangs {
		*id++
		return
	}
	var tlsin []byte
	for _, m := range msgs {
		tlsin = append(tlsin, m...)
	}
	t0 := time.Now()
	o, hs, rawOK, base := runTLS(cs, preChunks, msgs)
	if o.hang {
		hangTotal.Add(1)
	}
	if d := time.Since(t0); d > time.Second && os.Getenv("C11_TIMING") != "" {
		fmt.Fprintln(os.Stderr, "slow", class, d)
	}
	cs.hasTLS = true
	cs.tls = tlsin
	cs.chunks = nil
	cs.pre = 1
	// the model is told whether the TLS handshake succeeded (crypto/tls is an oracle)
	head := cs.sxHead()
	c.out.line("(sess " + cs.id + " " + class + " " + head + " " + sx("tlsobs", sx("handshake", hs), sx("rawok", rawOK), sx("nmsgs", len(msgs)), sx("turnbase", base), sx("prechunks", map[bool]int{true: 2, false: 1}[cfg.auth != "none"]), sx("readend", lastTLSReadEnd)) + " " + o.sx(true) + ")")
	c.stat("class_" + class)
	c.stat("handshake_" + hs)
	*id++
}

func runC11(c *runCfg) error {
	if c.replay != "" {
		if b, err := os.ReadFile(c.replay); err == nil && !bytes.Contains(b, []byte("(tlsobs ")) {
			return replaySessions(c)
		}
	}
	only := tlsOnly(c)
	g := &gen{rng: c.rng}
	id := 0
	emit := func(class string, cfg cfgT, pre []byte, preChunks []int, msgs [][]byte, pairID string) {
		emitTLS(c, only, &id, class, cfg, pre, preChunks, msgs, pairID)
	}
	session := func() [][]byte {
		return [][]byte{startupMsg("user", "tlsuser", "database", "db"), mQuery([]byte("select 1")), mParse(nil, []byte("select 1"), 0), mBind(nil, nil, nil, nil, nil), mExecute(nil, 0), mSync(), mQuery([]byte("   ")), mTerminate()}
	}
	stuffed := cat(startupMsg("user", "mallory"), mQuery([]byte("STUFFED")))
	n := 40
	if c.tier == "thorough" {
		n = 2000
	}
	for i := 0; i < n; i++ {
		cfg := simpleCfg(1024)
		cfg.parse = append(cfg.parse, parseEntry{query: []byte("STUFFED"), stmts: simpleCfg(1024).parse[0].stmts})
		if i%3 == 1 {
			cfg.auth = "pw"
			cfg.authPW = []byte("secret")
		}
		msgs := session()
		if cfg.auth != "none" {
			msgs = append([][]byte{msgs[0], mPassword([]byte("secret"))}, msgs[1:]...)
		}
		if i%4 == 3 {
			msgs = [][]byte{msgs[0]}
			plain := simpleCfg(1024) // the legitimate session never mentions the stuffed query
			for k := 0; k < 5; k++ {
				msgs = append(msgs, g.clientMsg(&plain))
			}
			msgs = append(msgs, mSync())
		}
		// certificates configured: 'S' then TLS
		tcfg := cfg
		tcfg.tls = true
		emit("tls", tcfg, sslRequest(), nil, msgs, "")
		if i%5 == 0 {
			// the session inside TLS obeys the configured limit, not the size of a TLS record or of any
			// buffer: messages of 16 KiB .. 64 KiB under the default and under a 100000-byte limit
			big := tcfg
			big.limit = []int{0, 100000}[(i/5)%2]
			bm := [][]byte{msgs[0]}
			if cfg.auth != "none" {
				bm = append(bm, mPassword([]byte("secret")))
			}
			for _, n := range []int{16383, 16384, 16385, 20000, 40000, 65536} {
				bm = append(bm, mQuery(bytes.Repeat([]byte("x"), n)))
			}
			bm = append(bm, mParse(nil, bytes.Repeat([]byte("y"), 17000), 0), mBind(nil, nil, nil, []bindP{{v: bytes.Repeat([]byte("p"), 33000)}}, nil), mSync(), mQuery([]byte("select 1")), mTerminate())
			emit("tls_big", big, sslRequest(), nil, bm, "")
			nb := big
			nb.tls = false
			emit("no_certs_big", nb, sslRequest(), nil, bm, "")
		}
		// stuffed plaintext in the same segment as the SSLRequest / in a later segment
		emit("stuffed_same", tcfg, cat(sslRequest(), stuffed), nil, msgs, "")
		emit("stuffed_later", tcfg, cat(sslRequest(), stuffed), []int{8}, msgs, "")
		emit("stuffed_byte", tcfg, cat(sslRequest(), []byte{0x16}), nil, msgs, "")
		// inside TLS: a second SSLRequest, a CancelRequest
		emit("tls_ssl_again", tcfg, sslRequest(), nil, append([][]byte{sslRequest()}, msgs...), "")
		emit("tls_cancel", tcfg, sslRequest(), nil, append([][]byte{cancelRequest()}, msgs...), "")
		// no certificates: the refusal 'N' restarts nothing. Whatever the client sent behind the SSLRequest, in
		// whatever segmentation (same segment, split inside the startup packet, byte by byte), is the plaintext
		// continuation: the transcript behind 'N' equals the transcript of the same stream without the SSLRequest
		if len(only) == 0 && i%2 == 0 {
			// "a fresh startup packet": of any protocol version a plain connection is served with (3.0, a later minor
			// version as newer clients send, ...)
			dm := append([][]byte{append([]byte{}, msgs[0]...)}, msgs[1:]...)
			copy(dm[0][4:8], [][]byte{{0, 3, 0, 0}, {0, 3, 0, 2}, {0, 3, 0x27, 0x0f}, {0, 3, 0, 1}}[(i/2)%4])
			base := cat(dm...)
			gid := 800000 + i
			ref := flatCase(0, "declined", cfg, base, nil)
			ref.id = fmt.Sprintf("%d.v0", gid)
			emitSession(c, ref)
			raw := cat(sslRequest(), base)
			for v, ch := range [][]int{nil, {8}, {8 + len(msgs[0])}, {9}, {7, 1, 3}, {8, len(msgs[0]) - 1, 1}, bytewise(len(raw))} {
				if v == 6 && len(raw) > 600 {
					continue
				}
				vc := flatCase(0, "declined", cfg, raw, ch)
				vc.id = fmt.Sprintf("%d.v%d", gid, v+1)
				emitSession(c, vc)
			}
		}
		// no certificates: 'N', plaintext continues on the same connection — also when a TLS configuration exists
		// but holds no certificate (empty configuration, empty non-nil list, pre-sized empty list)
		ecfg := cfg
		ecfg.tlsEmpty = 1 + i%3
		emit("no_certs_empty_config", ecfg, sslRequest(), nil, msgs, "")
		emit("no_certs", cfg, sslRequest(), nil, msgs, "")
		emit("no_certs_ssl_again", cfg, sslRequest(), nil, append([][]byte{sslRequest()}, msgs...), "")
		emit("no_certs_cancel", cfg, sslRequest(), nil, append([][]byte{cancelRequest()}, msgs...), "")
	}
	return nil
}
