package main

import (
	"fmt"
)

// helpers shared by the per-property generators

func lockCase(id int, class string, cfg cfgT, startup []byte, msgs [][]byte) *caseT {
	cs := &caseT{id: fmt.Sprint(id), class: class, cfg: cfg, lock: true}
	cs.raw = append(cs.raw, startup...)
	cs.chunks = append(cs.chunks, len(startup))
	for _, m := range msgs {
		cs.raw = append(cs.raw, m...)
		cs.chunks = append(cs.chunks, len(m))
	}
	return cs
}

func textCols(n int) []colT {
	var cs []colT
	for i := 0; i < n; i++ {
		cs = append(cs, colT{name: []byte(fmt.Sprintf("c%d", i)), oid: 25})
	}
	return cs
}

func tv(s string) valT { return valT{kind: "text", b: []byte(s)} }

var stdStartup = startupMsg("user", "u", "database", "d")

// ---------------- C05 ----------------
func init() { runners["C05"] = runC05 }

func runC05(c *runCfg) error {
	if c.replay != "" {
		return replaySessions(c)
	}
	g := &gen{rng: c.rng}
	id := 0
	// corpus: the witness of the repaired counter defect, blank queries, parser outcomes
	{
		cols := textCols(2)
		st := stmtT{id: 1, cols: cols, prog: []opT{{kind: "row", vals: []valT{tv("only one")}}, {kind: "written"}, {kind: "empty"}, {kind: "complete", tag: []byte("SELECT 0")}}, ret: "nil"}
		cfg := cfgT{limit: 1024, auth: "none", term: "none", parse: []parseEntry{{query: []byte("q"), stmts: []stmtT{st}}, {query: []byte("none")}, {query: []byte("bad"), err: &errT{kind: "base", a: []byte("syntax error")}}}}
		var msgs [][]byte
		for _, q := range []string{"q", "", " ", "\t\n\v\f\r ", "\xc2\x85\xc2\xa0\xe1\x9a\x80\xe2\x80\x80\xe2\x80\x8a\xe2\x80\xa8\xe2\x80\xa9\xe2\x80\xaf\xe2\x81\x9f\xe3\x80\x80", "\xc2", "\x85", "\xe2\x80", " ;", "none", "bad", "missing", "q"} {
			msgs = append(msgs, mQuery([]byte(q)))
		}
		emitSession(c, lockCase(id, "corpus", cfg, stdStartup, msgs))
		id++
	}
	// every call after completion fails without emitting bytes — CopyIn included (no CopyInResponse behind a
	// CommandComplete or EmptyQueryResponse), in simple queries and through Execute
	{
		cols := textCols(2)
		row := opT{kind: "row", vals: []valT{tv("a"), tv("b")}}
		done := opT{kind: "complete", tag: []byte("DONE")}
		progs := [][]opT{
			{done, {kind: "copyin", fmt: 0}}, {{kind: "empty"}, {kind: "copyin", fmt: 1}}, {row, done, {kind: "copyin", fmt: 0}, {kind: "written"}},
			{row, done, {kind: "copyin", fmt: 1}, row, done}, {done, {kind: "copyin", fmt: 0}, {kind: "copyread"}, done},
		}
		for pi, prog := range progs {
			for _, stop := range []bool{false, true} {
				st := stmtT{id: 40 + pi, cols: cols, prog: prog, stop: stop, ret: "nil"}
				cfg := cfgT{limit: 1024, auth: "none", term: "none", parse: []parseEntry{{query: []byte("q"), stmts: []stmtT{st}}}}
				emitSession(c, lockCase(id, "after_completion", cfg, stdStartup, [][]byte{mQuery([]byte("q")), mParse(nil, []byte("q"), 0), mBind(nil, nil, nil, nil, nil), mExecute(nil, 0), mSync(), mQuery([]byte("q"))}))
				id++
			}
		}
	}
	// statement functions and parsers that return several errors joined into one (errors.Join): still ONE error —
	// a single ErrorResponse, then the one ReadyForQuery; later statements of the query do not run
	{
		b := func(t string) *errT { return &errT{kind: "base", a: []byte(t)} }
		joined := []*errT{{kind: "join", inner: b("first"), inner2: b("second")},
			{kind: "join", inner: &errT{kind: "code", a: []byte("23505"), inner: b("dup")}, inner2: &errT{kind: "hint", a: []byte("h"), inner: b("other")}},
			{kind: "code", a: []byte("22012"), inner: &errT{kind: "join", inner: b("x"), inner2: b("y")}},
			{kind: "wrap", a: []byte("outer: "), inner: &errT{kind: "join", inner: b("x"), inner2: &errT{kind: "join", inner: b("y"), inner2: b("z")}}}}
		for ji, e := range joined {
			cols := textCols(1)
			row := opT{kind: "row", vals: []valT{tv("r")}}
			failing := stmtT{id: 50 + ji, cols: cols, prog: []opT{row}, ret: "err", rerr: e}
			after := stmtT{id: 60 + ji, cols: cols, prog: []opT{row, {kind: "complete", tag: []byte("NEVER")}}, ret: "nil"}
			cfg := cfgT{limit: 1024, auth: "none", term: "none", parse: []parseEntry{{query: []byte("q"), stmts: []stmtT{failing, after}}, {query: []byte("perr"), err: e}}}
			emitSession(c, lockCase(id, "joined_errors", cfg, stdStartup, [][]byte{mQuery([]byte("q")), mQuery([]byte("perr")), mParse(nil, []byte("perr"), 0), mSync(), mQuery([]byte("q"))}))
			id++
		}
	}
	// exhaustive: every handler program of length <= L over the operation alphabet, two column layouts
	type sym struct{ op opT }
	alpha := func(cols []colT) []opT {
		good := opT{kind: "row"}
		for range cols {
			good.vals = append(good.vals, tv("v"))
		}
		short := opT{kind: "row", vals: append([]valT{}, good.vals...)}
		short.vals = append(short.vals, tv("extra"))
		unenc := opT{kind: "row"}
		for i := range cols {
			if i == len(cols)-1 {
				unenc.vals = append(unenc.vals, valT{kind: "unenc"})
			} else {
				unenc.vals = append(unenc.vals, tv("v"))
			}
		}
		if len(cols) == 0 {
			unenc = opT{kind: "row", vals: []valT{{kind: "nil"}}}
		}
		return []opT{good, short, unenc, {kind: "written"}, {kind: "empty"}, {kind: "complete", tag: []byte("TAG")}}
	}
	L := 3
	if c.tier == "thorough" {
		L = 5
	}
	for _, nc := range []int{2, 0} {
		cols := textCols(nc)
		al := alpha(cols)
		var progs [][]opT
		var rec func(cur []opT)
		rec = func(cur []opT) {
			progs = append(progs, append([]opT{}, cur...))
			if len(cur) == L {
				return
			}
			for _, o := range al {
				rec(append(append([]opT{}, cur...), o))
			}
		}
		rec(nil)
		// batch programs: several statements per configuration, one Query each
		const batch = 12
		for i := 0; i < len(progs); i += batch {
			cfg := cfgT{limit: 1024, auth: "none", term: "none"}
			var msgs [][]byte
			for j := i; j < i+batch && j < len(progs); j++ {
				for v := 0; v < 2; v++ {
					q := []byte(fmt.Sprintf("p%d_%d", j, v))
					st := stmtT{id: j*2 + v, cols: cols, prog: progs[j], stop: v == 1, ret: []string{"last", "nil"}[v]}
					cfg.parse = append(cfg.parse, parseEntry{query: q, stmts: []stmtT{st}})
					msgs = append(msgs, mQuery(q))
				}
			}
			emitSession(c, lockCase(id, "exhaustive", cfg, stdStartup, msgs))
			id++
		}
	}
	// random: multi-statement queries, decorated errors, value types
	n := 600
	if c.tier == "thorough" {
		n = 12000
	}
	for i := 0; i < n; i++ {
		cfg := g.baseCfg()
		var msgs [][]byte
		k := 1 + g.rng.Intn(6)
		for j := 0; j < k; j++ {
			if g.chance(0.12) {
				msgs = append(msgs, mQuery([]byte(g.pick("", " ", "\n\t", "\xc2\xa0", "\xa0", "; "))))
			} else {
				msgs = append(msgs, mQuery(g.queryName(&cfg)))
			}
		}
		emitSession(c, lockCase(id, "random", cfg, stdStartup, msgs))
		id++
	}
	return nil
}

// ---------------- C06 ----------------
func init() { runners["C06"] = runC06 }

func runC06(c *runCfg) error {
	if c.replay != "" {
		return replaySessions(c)
	}
	g := &gen{rng: c.rng}
	id := 0
	okStmt := stmtT{id: 1, cols: textCols(1), poids: []int{23}, prog: []opT{{kind: "row", vals: []valT{tv("a")}}, {kind: "row", vals: []valT{tv("b")}}, {kind: "complete", tag: []byte("SELECT 2")}}, ret: "nil"}
	noColStmt := stmtT{id: 2, prog: []opT{{kind: "complete", tag: []byte("OK")}}, ret: "nil"}
	failStmt := stmtT{id: 3, cols: textCols(1), prog: []opT{{kind: "row", vals: []valT{tv("a")}}}, ret: "err", rerr: &errT{kind: "code", a: []byte("22012"), inner: &errT{kind: "base", a: []byte("division by zero")}}}
	cfg := cfgT{limit: 64, auth: "none", term: "none", parse: []parseEntry{
		{query: []byte("ok"), stmts: []stmtT{okStmt}},
		{query: []byte("nocol"), stmts: []stmtT{noColStmt}},
		{query: []byte("fail"), stmts: []stmtT{failStmt}},
		{query: []byte("perr"), err: &errT{kind: "base", a: []byte("syntax error")}},
		{query: []byte("two"), stmts: []stmtT{okStmt, noColStmt}},
		{query: []byte("zero")},
	}}
	big := make([]byte, 80)
	alphabet := [][]byte{
		mParse([]byte(""), []byte("ok"), 0),
		mParse([]byte("s"), []byte("fail"), 1),
		mParse([]byte(""), []byte("perr"), 0),
		mParse([]byte("s"), []byte("two"), 0),
		mBind([]byte(""), []byte(""), nil, nil, nil),
		mBind([]byte("p"), []byte("s"), []int{0}, []bindP{{v: []byte("1")}}, []int{0}),
		mBind([]byte(""), []byte("missing"), nil, nil, nil),
		mDescribe('S', []byte("")),
		mDescribe('P', []byte("")),
		mDescribe('S', []byte("nope")),
		mExecute([]byte(""), 0),
		mExecute([]byte("p"), 0),
		mExecute([]byte("nope"), 0),
		mClose('S', []byte("")),
		mFlush(),
		mSync(),
		mQuery([]byte("ok")),
		mQuery([]byte("fail")),
		msg('P', big),
		msg('Q', big),
		msg('S', big),
		msg('z', []byte{1}),
	}
	// corpus: the pinned witnesses of the property text
	for _, h := range [][]int{{2, 4, 10, 15}, {6, 15}, {12, 15}, {0, 4, 7, 8, 10, 15}, {18, 15}, {20, 15}, {2, 20, 15, 16}} {
		var msgs [][]byte
		for _, k := range h {
			msgs = append(msgs, alphabet[k])
		}
		emitSession(c, lockCase(id, "corpus", cfg, stdStartup, msgs))
		id++
	}
	// statements without columns, declared with a nil and with an empty (non-nil) column set: Describe is
	// answered with NoData, never with silence; named and unnamed, described before and after Bind
	{
		emptyStmt := stmtT{id: 5, prog: []opT{{kind: "complete", tag: []byte("OK")}}, ret: "nil"}
		ncfg := cfg
		ncfg.parse = append(append([]parseEntry{}, cfg.parse...), parseEntry{query: []byte("empty"), stmts: []stmtT{emptyStmt}})
		for _, q := range []string{"nocol", "empty"} {
			for _, nm := range []string{"", "n"} {
				n := []byte(nm)
				for _, h := range [][][]byte{
					{mParse(n, []byte(q), 0), mDescribe('S', n), mBind(n, n, nil, nil, nil), mDescribe('P', n), mExecute(n, 0), mSync()},
					{mParse(n, []byte(q), 0), mBind(n, n, nil, nil, []int{1}), mDescribe('P', n), mDescribe('S', n), mSync(), mExecute(n, 0), mSync()},
					{mParse(n, []byte(q), 0), mDescribe('S', n), mFlush(), mDescribe('S', n), mSync(), mQuery([]byte(q))},
					{mQuery([]byte(q)), mParse(n, []byte(q), 0), mBind(n, n, nil, nil, nil), mExecute(n, 0), mDescribe('P', n), mSync()},
				} {
					emitSession(c, lockCase(id, "nocols", ncfg, stdStartup, h))
					id++
				}
			}
		}
	}
	// skipping until Sync is the business of the connection whose batch failed: other connections of the server are
	// answered normally meanwhile, and their Syncs end nobody else's skipping
	for r := 0; r < 6; r++ {
		failing := lockCase(0, "skip_is_per_connection", cfg, startupMsg("user", "failing"), [][]byte{
			[][]byte{mBind(nil, []byte("missing"), nil, nil, nil), mExecute([]byte("nope"), 0), msg('P', big)}[r%3],
			mParse(nil, []byte("ok"), 0), mBind(nil, nil, nil, nil, nil), mExecute(nil, 0), mSync(), mQuery([]byte("ok"))})
		failing.id = fmt.Sprintf("%d.0", 800000+r)
		healthy := lockCase(0, "skip_is_per_connection", cfg, startupMsg("user", "healthy"), [][]byte{
			mParse(nil, []byte("ok"), 0), mBind(nil, nil, nil, nil, nil), mDescribe('P', nil), mExecute(nil, 0), mSync(), mQuery([]byte("ok"))})
		healthy.id = fmt.Sprintf("%d.1", 800000+r)
		// the failing connection stops right behind its error; the healthy one runs its whole batch (Sync included);
		// then the failing one goes on: still skipping until its own Sync
		sched := []int{0, 1, 0, 1, 1, 1, 1, 1, 1, 0, 0, 0, 0, 0}
		if r >= 3 {
			sched = []int{1, 0, 0, 1, 1, 0, 1, 1, 0, 1, 0, 1, 0, 0}
		}
		emitMulti(c, "skip_is_per_connection", []*caseT{failing, healthy}, sched, false)
	}
	// a statement function that panics under Execute (an inadmissible result-format code makes the encoder panic):
	// exactly one ErrorResponse, no ReadyForQuery before the Sync, the rest of the batch skipped, one ReadyForQuery
	for _, code := range []int{2, 7, 65535} {
		for _, tail := range [][][]byte{
			{mParse(nil, []byte("ok"), 0), mBind(nil, nil, nil, nil, nil), mExecute(nil, 0), mSync(), mQuery([]byte("ok"))},
			{mSync(), mExecute(nil, 0), mSync()},
			{mFlush(), mDescribe('P', nil), mSync(), mBind(nil, nil, nil, nil, []int{1}), mExecute(nil, 0), mSync()},
		} {
			msgs := append([][]byte{mParse(nil, []byte("ok"), 0), mBind(nil, nil, nil, nil, []int{code}), mExecute(nil, 0)}, tail...)
			emitSession(c, lockCase(id, "panic_in_execute", cfg, stdStartup, msgs))
			id++
		}
	}
	// Execute with a row-count field: the portal runs to completion (no PortalSuspended exists in this server),
	// CommandComplete follows all rows
	for _, mr := range []uint32{1, 2, 3, 0x7fffffff, 0x80000000, 0xffffffff} {
		emitSession(c, lockCase(id, "maxrows", cfg, stdStartup, [][]byte{mParse(nil, []byte("ok"), 0), mBind(nil, nil, nil, nil, nil),
			mExecute(nil, mr), mExecute(nil, mr), mSync(), mBind([]byte("p"), nil, nil, nil, []int{1}), mExecute([]byte("p"), mr), mSync()}))
		id++
	}
	L := 3
	if c.tier == "thorough" {
		L = 4
	}
	// exhaustive histories of length exactly L (shorter ones are prefixes)
	idx := make([]int, L)
	for {
		var msgs [][]byte
		for _, k := range idx {
			msgs = append(msgs, alphabet[k])
		}
		if c.shards <= 1 || id%c.shards == c.shard {
			emitSession(c, lockCase(id, "exhaustive", cfg, stdStartup, msgs))
		}
		id++
		p := L - 1
		for p >= 0 {
			idx[p]++
			if idx[p] < len(alphabet) {
				break
			}
			idx[p] = 0
			p--
		}
		if p < 0 {
			break
		}
	}
	// random longer histories over random configurations
	n := 800
	if c.tier == "thorough" {
		n = 20000
	}
	for i := 0; i < n; i++ {
		rc := g.baseCfg()
		var msgs [][]byte
		k := 3 + g.rng.Intn(12)
		for j := 0; j < k; j++ {
			msgs = append(msgs, g.clientMsg(&rc))
		}
		emitSession(c, lockCase(id, "random", rc, stdStartup, msgs))
		id++
	}
	return nil
}
