package main

import (
	"encoding/binary"
	"fmt"
	"math/rand"
)

// ---- client message builders ----
func be16b(v int) []byte { return []byte{byte(v >> 8), byte(v)} }
func be32b(v uint32) []byte {
	b := make([]byte, 4)
	binary.BigEndian.PutUint32(b, v)
	return b
}
func cat(bs ...[]byte) []byte {
	var r []byte
	for _, b := range bs {
		r = append(r, b...)
	}
	return r
}
func cs(s []byte) []byte { return append(append([]byte{}, s...), 0) }
func msg(t byte, body []byte) []byte {
	return cat([]byte{t}, be32b(uint32(len(body)+4)), body)
}
func msgLen(t byte, declared uint32, body []byte) []byte {
	return cat([]byte{t}, be32b(declared), body)
}
func untypedMsg(body []byte) []byte { return cat(be32b(uint32(len(body)+4)), body) }
func startupMsg(kv ...string) []byte {
	body := be32b(196608)
	for _, s := range kv {
		body = append(body, cs([]byte(s))...)
	}
	body = append(body, 0)
	return untypedMsg(body)
}
func sslRequest() []byte     { return untypedMsg(be32b(80877103)) }
func cancelRequest() []byte  { return untypedMsg(cat(be32b(80877102), be32b(1), be32b(2))) }
func mQuery(q []byte) []byte { return msg('Q', cs(q)) }
func mParse(name, q []byte, noids int) []byte {
	b := cat(cs(name), cs(q), be16b(noids))
	for i := 0; i < noids; i++ {
		b = append(b, be32b(0)...)
	}
	return msg('P', b)
}

// a Parse message that prespecifies parameter types
func mParseOids(name, q []byte, oids []uint32) []byte {
	b := cat(cs(name), cs(q), be16b(len(oids)))
	for _, o := range oids {
		b = append(b, be32b(o)...)
	}
	return msg('P', b)
}

type bindP struct {
	null bool
	v    []byte
}

func mBind(portal, stmt []byte, pf []int, ps []bindP, rf []int) []byte {
	b := cat(cs(portal), cs(stmt), be16b(len(pf)))
	for _, f := range pf {
		b = append(b, be16b(f)...)
	}
	b = append(b, be16b(len(ps))...)
	for _, p := range ps {
		if p.null {
			b = append(b, be32b(0xffffffff)...)
		} else {
			b = append(b, be32b(uint32(len(p.v)))...)
			b = append(b, p.v...)
		}
	}
	b = append(b, be16b(len(rf))...)
	for _, f := range rf {
		b = append(b, be16b(f)...)
	}
	return msg('B', b)
}
func mDescribe(kind byte, name []byte) []byte { return msg('D', cat([]byte{kind}, cs(name))) }
func mClose(kind byte, name []byte) []byte    { return msg('C', cat([]byte{kind}, cs(name))) }
func mExecute(portal []byte, limit uint32) []byte {
	return msg('E', cat(cs(portal), be32b(limit)))
}
func mSync() []byte              { return msg('S', nil) }
func mFlush() []byte             { return msg('H', nil) }
func mTerminate() []byte         { return msg('X', nil) }
func mPassword(pw []byte) []byte { return msg('p', cs(pw)) }
func mCopyData(b []byte) []byte  { return msg('d', b) }
func mCopyDone() []byte          { return msg('c', nil) }
func mCopyFail(s []byte) []byte  { return msg('f', cs(s)) }

// ---- random case material ----
type gen struct {
	rng *rand.Rand
	sid int
}

func (g *gen) pick(xs ...string) string { return xs[g.rng.Intn(len(xs))] }
func (g *gen) chance(p float64) bool    { return g.rng.Float64() < p }
func (g *gen) bytesN(n int) []byte {
	b := make([]byte, n)
	g.rng.Read(b)
	return b
}
func (g *gen) text() []byte {
	switch g.rng.Intn(8) {
	case 0:
		return []byte{}
	case 1:
		return []byte("héllo wörld ✓")
	case 2:
		b := g.bytesN(g.rng.Intn(6))
		for i := range b {
			if b[i] == 0 {
				b[i] = 1
			}
		}
		return b
	default:
		return []byte(g.pick("a", "abc", "select 1", "x y", "42", "NULL", "on", "some longer text value 0123456789"))
	}
}

var oidPool = []int{25, 25, 25, 23, 23, 20, 21, 16, 17, 1043}

func (g *gen) column(i int) colT {
	c := colT{name: []byte(fmt.Sprintf("c%d", i)), oid: oidPool[g.rng.Intn(len(oidPool))]}
	switch g.rng.Intn(6) {
	case 0:
		c.name = []byte{}
	case 1:
		c.name = []byte("naïve column ☃")
	}
	if g.chance(0.3) {
		c.table = g.rng.Intn(70000)
		c.attr = g.rng.Intn(300)
		c.width = []int{0, 1, 4, 8, 256, 32767, 65535}[g.rng.Intn(7)]
	}
	if g.chance(0.05) {
		c.table = 4294967295
	}
	return c
}

func (g *gen) goodVal(oid int) valT {
	if g.chance(0.12) {
		return valT{kind: g.pick("nil", "nilptr", "invalid")}
	}
	switch oid {
	case 23:
		return valT{kind: "int4", n: []int64{0, 1, -1, 42, 2147483647, -2147483648, int64(g.rng.Int31())}[g.rng.Intn(7)]}
	case 20:
		return valT{kind: "int8", n: []int64{0, 1, -1, 9223372036854775807, -9223372036854775808, g.rng.Int63()}[g.rng.Intn(6)]}
	case 21:
		return valT{kind: "int2", n: []int64{0, 1, -1, 32767, -32768, int64(g.rng.Intn(1000))}[g.rng.Intn(6)]}
	case 16:
		return valT{kind: "bool", n: int64(g.rng.Intn(2))}
	case 17:
		return valT{kind: "bytea", b: g.bytesN(g.rng.Intn(9))}
	default:
		return valT{kind: "text", b: g.text()}
	}
}

func (g *gen) row(cols []colT) opT {
	o := opT{kind: "row"}
	n := len(cols)
	switch g.rng.Intn(12) {
	case 0:
		n++
	case 1:
		if n > 0 {
			n--
		}
	}
	for i := 0; i < n; i++ {
		oid := 25
		if i < len(cols) {
			oid = cols[i].oid
		}
		v := g.goodVal(oid)
		if g.chance(0.04) {
			v = valT{kind: "unenc"}
		}
		o.vals = append(o.vals, v)
	}
	return o
}

func (g *gen) errTree(depth int) *errT {
	e := &errT{kind: "base", a: []byte(g.pick("boom", "", "relation does not exist", "ünïcode failure", "x"))}
	for i := 0; i < depth; i++ {
		switch g.rng.Intn(8) {
		case 0:
			e = &errT{kind: "wrap", a: []byte(g.pick("outer: ", "", "ctx 100% ")), b: []byte(g.pick("", " (wrapped)")), inner: e}
		case 1:
			e = &errT{kind: "code", a: []byte(g.pick("42P01", "23505", "XX000", "XXUUU", "22012", "")), inner: e}
		case 2:
			e = &errT{kind: "sev", a: []byte(g.pick("ERROR", "FATAL", "WARNING", "PANIC", "")), inner: e}
		case 3:
			e = &errT{kind: "hint", a: []byte(g.pick("try again", "", "check the name")), inner: e}
		case 4:
			e = &errT{kind: "detail", a: []byte(g.pick("row 7", "", "détail")), inner: e}
		case 5:
			e = &errT{kind: "source", a: []byte(g.pick("file.go", "")), line: []int{0, 1, 42, 255, 256, 65536, 16777216, 2147483647, -1, -2147483648}[g.rng.Intn(10)], b: []byte(g.pick("fn", "pkg.Func", "")), inner: e}
		case 6:
			e = &errT{kind: "constraint", a: []byte(g.pick("users_pkey", "", "fk_1")), inner: e}
		case 7:
		}
	}
	return e
}

func (g *gen) prog(cols []colT) ([]opT, bool, string, *errT) {
	var ops []opT
	switch g.rng.Intn(10) {
	case 0: // anything goes
		n := g.rng.Intn(6)
		for i := 0; i < n; i++ {
			switch g.rng.Intn(6) {
			case 0, 1:
				ops = append(ops, g.row(cols))
			case 2:
				ops = append(ops, opT{kind: "written"})
			case 3:
				ops = append(ops, opT{kind: "empty"})
			case 4:
				ops = append(ops, opT{kind: "complete", tag: []byte(g.pick("SELECT 1", "OK", ""))})
			case 5:
				ops = append(ops, opT{kind: "written"})
			}
		}
	case 1: // empty result
		ops = append(ops, opT{kind: "empty"})
		if g.chance(0.5) {
			ops = append(ops, opT{kind: "complete", tag: []byte("SELECT 0")})
		}
	default: // rows then complete
		n := g.rng.Intn(4)
		for i := 0; i < n; i++ {
			ops = append(ops, g.row(cols))
			if g.chance(0.3) {
				ops = append(ops, opT{kind: "written"})
			}
		}
		ops = append(ops, opT{kind: "complete", tag: []byte(fmt.Sprintf("SELECT %d", n))})
		if g.chance(0.1) {
			ops = append(ops, g.row(cols))
		}
		if g.chance(0.1) {
			ops = append(ops, opT{kind: "complete", tag: []byte("AGAIN")})
		}
	}
	stop := g.chance(0.5)
	ret := "nil"
	var rerr *errT
	switch g.rng.Intn(8) {
	case 0:
		ret = "err"
		rerr = g.errTree(g.rng.Intn(5))
	case 1, 2:
		ret = "last"
	}
	return ops, stop, ret, rerr
}

func (g *gen) stmt() stmtT {
	g.sid++
	s := stmtT{id: g.sid}
	nc := []int{0, 1, 1, 2, 2, 3, 4}[g.rng.Intn(7)]
	for i := 0; i < nc; i++ {
		s.cols = append(s.cols, g.column(i))
	}
	np := []int{0, 0, 1, 2, 3}[g.rng.Intn(5)]
	for i := 0; i < np; i++ {
		s.poids = append(s.poids, []int{0, 23, 25, 16, 4294967295}[g.rng.Intn(5)])
	}
	s.prog, s.stop, s.ret, s.rerr = g.prog(s.cols)
	return s
}

// a configuration with a pool of queries
func (g *gen) baseCfg() cfgT {
	c := cfgT{limit: []int{256, 1024, 4096}[g.rng.Intn(3)], auth: "none", term: "none"}
	qn := 2 + g.rng.Intn(4)
	for i := 0; i < qn; i++ {
		pe := parseEntry{query: []byte(fmt.Sprintf("q%d", i))}
		switch g.rng.Intn(10) {
		case 0:
			pe.err = g.errTree(g.rng.Intn(4))
		case 1:
			// zero statements
		case 2:
			pe.stmts = []stmtT{g.stmt(), g.stmt()}
			if g.chance(0.3) {
				pe.stmts = append(pe.stmts, g.stmt())
			}
		default:
			pe.stmts = []stmtT{g.stmt()}
		}
		c.parse = append(c.parse, pe)
	}
	return c
}

func (g *gen) queryName(c *cfgT) []byte {
	if g.chance(0.06) {
		return []byte("unknown query")
	}
	return c.parse[g.rng.Intn(len(c.parse))].query
}

var namePool = [][]byte{[]byte(""), []byte("a"), []byte("b")}

func (g *gen) name() []byte { return namePool[g.rng.Intn(len(namePool))] }

// one random client message of the command phase
func (g *gen) clientMsg(c *cfgT) []byte {
	switch g.rng.Intn(20) {
	case 0, 1:
		return mQuery(g.queryName(c))
	case 2:
		return mQuery([]byte(g.pick("", " ", "\t\n ", "   ", "\xc2", " ;")))
	case 3, 4, 5:
		return mParse(g.name(), g.queryName(c), g.rng.Intn(3))
	case 6, 7, 8:
		var pf, rf []int
		for i := g.rng.Intn(3); i > 0; i-- {
			pf = append(pf, g.rng.Intn(2))
		}
		for i := g.rng.Intn(3); i > 0; i-- {
			rf = append(rf, []int{0, 0, 1, 1, 1, 2, 65535}[g.rng.Intn(7)])
		}
		var ps []bindP
		for i := g.rng.Intn(4); i > 0; i-- {
			ps = append(ps, bindP{null: g.chance(0.2), v: g.text()})
		}
		return mBind(g.name(), g.name(), pf, ps, rf)
	case 9, 10:
		return mDescribe([]byte{'S', 'P', 'S', 'P', 'x', 0}[g.rng.Intn(6)], g.name())
	case 11, 12, 13:
		return mExecute(g.name(), uint32(g.rng.Intn(3)))
	case 14:
		return mClose([]byte{'S', 'P', 'S', 'P', 'q'}[g.rng.Intn(5)], g.name())
	case 15:
		return mFlush()
	case 16, 17, 18:
		return mSync()
	default:
		switch g.rng.Intn(8) {
		case 0:
			return mCopyData(g.bytesN(3))
		case 1:
			return mCopyDone()
		case 2:
			return mCopyFail([]byte("nope"))
		case 3:
			return msg(byte(g.pick("p", "z", "R", "!", "\x00")[0]), g.bytesN(g.rng.Intn(4)))
		case 4: // oversized
			t := []byte{'Q', 'P', 'B', 'D', 'E', 'C', 'H', 'S', 'X', 'd', 'z'}[g.rng.Intn(11)]
			n := c.limit + 1 + g.rng.Intn(40)
			return msg(t, g.bytesN(n))
		case 5: // bad length
			return msgLen([]byte{'Q', 'P', 'S', 'z'}[g.rng.Intn(4)], uint32(g.rng.Intn(4)), nil)
		case 6: // malformed body
			t := []byte{'Q', 'P', 'B', 'D', 'E', 'C'}[g.rng.Intn(6)]
			return msg(t, g.bytesN(g.rng.Intn(5)))
		default:
			return mTerminate()
		}
	}
}
