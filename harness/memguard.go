package main

import (
	"fmt"
	"os"
	"runtime/metrics"
	"strconv"
	"sync/atomic"
	"time"
)

// Memory guard: the code under test may be changed so that hostile input makes it
// allocate without bound (that is what C04/C20 are about). The harness must not take
// the machine down with it: a watchdog samples the runtime's total memory and, when it
// exceeds the budget, records which case was being processed and exits with status 9.
// bin/check turns that into a violation whose replay is the recorded case.

var inflight atomic.Value // string: description of the case being processed

func setInflight(s string) { inflight.Store(s) }

func startMemGuard() {
	limitMB := 3072
	if v, err := strconv.Atoi(os.Getenv("WIRECHECK_MEM_MB")); err == nil && v > 0 {
		limitMB = v
	}
	sample := []metrics.Sample{{Name: "/memory/classes/total:bytes"}, {Name: "/memory/classes/heap/released:bytes"}}
	go func() {
		for {
			time.Sleep(5 * time.Millisecond)
			metrics.Read(sample)
			used := sample[0].Value.Uint64() - sample[1].Value.Uint64()
			if used > uint64(limitMB)<<20 {
				cur, _ := inflight.Load().(string)
				msg := fmt.Sprintf("MEMORY-GUARD: the process holds %d MiB (budget %d MiB) while processing:\n%s\n", used>>20, limitMB, cur)
				os.WriteFile("memguard.txt", []byte(msg), 0o644)
				if theOut != nil {
					theOut.mu.Lock()
					theOut.w.Flush()
				}
				fmt.Fprint(os.Stderr, msg)
				os.Exit(9)
			}
		}
	}()
}
