package main

import (
	"errors"
	"bufio"
	"context"
	"fmt"
	"io"
	"os"
	"strings"

	wire "github.com/jeroenrinzema/psql-wire"
	"github.com/lib/pq/oid"
)

func init() { runners["C14"] = runC14 }

type c14case struct {
	id     string
	class  string
	limit  int
	oids   []int
	chunks [][]byte
	ending string   // done | fail | over (an oversized message follows the chunks, then `after`, then CopyDone)
	must   string   // "err": whatever the rows, the copy must end with an error (cut inside a row, oversized message)
	after  [][]byte // ending "over": what the client goes on sending behind the oversized message
	expect []string // rows the client encoded (nil: not a well-formed stream)
	noise  bool     // Flush/Sync interleaved between the CopyData messages
	lead   []byte   // the messages that make the handler run (nil: Query "copy"); may carry surplus bytes behind their last field
	tail   []byte   // what the client pipelines behind the end of the copy (nil: Sync, Parse, Sync)
	cutAt  int      // > 0: the transport delivers only the first cutAt bytes of the client's stream ...
	rdErr  bool     // ... and then fails every read with a persistent error that is not io.EOF
}

// the value as pgx's binary decoders return it, in the case language
func fmtDecoded(v any) string {
	switch x := v.(type) {
	case nil:
		return "null"
	case int16:
		return sx("int", int64(x))
	case int32:
		return sx("int", int64(x))
	case int64:
		return sx("int", x)
	case bool:
		return sx("bool", x)
	case string:
		return sx("bytes", []byte(x))
	case []byte:
		return sx("bytes", x)
	case [16]byte:
		return sx("bytes", x[:])
	default:
		return sx("other", fmt.Sprintf("%T", v))
	}
}

func runC14case(cs *c14case) (rows []string, final string, panicked bool, out []byte, hang bool) {
	var cols wire.Columns
	for i, o := range cs.oids {
		cols = append(cols, wire.Column{Name: fmt.Sprintf("c%d", i), Oid: oid.Oid(uint32(o))})
	}
	final = "none"
	handler := func(ctx context.Context, w wire.DataWriter, params []wire.Parameter) error {
		cr, err := w.CopyIn(wire.BinaryFormat)
		if err != nil {
			final = "copyin-error"
			return err
		}
		br, err := wire.NewBinaryColumnReader(ctx, cr)
		if err != nil {
			final = "reader-error"
			return err
		}
		// rows are formatted when they are read AND once more when the copy is over: what a handler keeps of the rows
		// it has read stays what it was, whatever is read afterwards
		var kept [][]any
		defer func() {
			for i, vals := range kept {
				parts := []any{"row"}
				for _, v := range vals {
					parts = append(parts, fmtDecoded(v))
				}
				if i < len(rows) && sx(parts...) != rows[i] {
					final = "retained-row-changed"
					return
				}
			}
		}()
		for {
			vals, err := br.Read(ctx)
			if err == io.EOF {
				final = "eof"
				break
			}
			if err != nil {
				final = "err"
				return err
			}
			parts := []any{"row"}
			for _, v := range vals {
				parts = append(parts, fmtDecoded(v))
			}
			rows = append(rows, sx(parts...))
			kept = append(kept, vals)
		}
		return w.Complete(fmt.Sprintf("COPY %d", len(rows)))
	}
	parse := func(ctx context.Context, query string) (wire.PreparedStatements, error) {
		return wire.Prepared(wire.NewStatement(handler, wire.WithColumns(cols))), nil
	}
	srv, err := wire.NewServer(parse, wire.Logger(quiet), wire.MessageBufferSize(cs.limit))
	if err != nil {
		panic(err)
	}
	conn := newMemConn()
	done := make(chan struct{})
	go func() {
		defer close(done)
		defer conn.markFinished()
		defer func() {
			if p := recover(); p != nil {
				panicked = true
			}
		}()
		srv.ServeConn(context.Background(), conn)
	}()
	raw := append([]byte{}, stdStartup...)
	if cs.lead != nil {
		raw = append(raw, cs.lead...)
	} else {
		raw = append(raw, mQuery([]byte("copy"))...)
	}
	for i, ch := range cs.chunks {
		raw = append(raw, mCopyData(ch)...)
		if cs.noise && i%2 == 0 {
			raw = append(raw, mFlush()...)
			raw = append(raw, mSync()...)
		}
	}
	switch cs.ending {
	case "done":
		raw = append(raw, mCopyDone()...)
	case "over":
		// a message above the limit in the middle of the stream: the copy fails there, whatever follows
		raw = append(raw, mCopyData(make([]byte, cs.limit+1+len(cs.id)%7))...)
		for _, ch := range cs.after {
			raw = append(raw, mCopyData(ch)...)
		}
		raw = append(raw, mCopyDone()...)
	default:
		raw = append(raw, mCopyFail([]byte("client aborts"))...)
	}
	if cs.tail != nil {
		raw = append(raw, cs.tail...)
	} else {
		// the connection goes on behind the copy: nothing of what follows belongs to the copy stream
		raw = append(raw, mSync()...)
		raw = append(raw, mParse(nil, []byte("after"), 0)...)
		raw = append(raw, mSync()...)
	}
	if cs.cutAt > 0 && cs.cutAt < len(raw) {
		raw = raw[:cs.cutAt]
	}
	if cs.rdErr {
		conn.mu.Lock()
		conn.readErr = errors.New("read: connection reset by peer")
		conn.mu.Unlock()
	}
	conn.push(raw)
	conn.setEOF()
	if !conn.waitFinished(idleTimeout) {
		hang = true
		conn.Close()
		if cs.rdErr {
			// a handler that retries a failing transport for ever cannot be waited for
			return
		}
	}
	<-done
	conn.mu.Lock()
	out = append([]byte{}, conn.out...)
	conn.mu.Unlock()
	return
}

// a CopyData message may not exceed the limit: split further
func fitChunks(chunks [][]byte, L int) [][]byte {
	var fit [][]byte
	for _, ch := range chunks {
		for len(ch) > L {
			fit = append(fit, ch[:L])
			ch = ch[L:]
		}
		fit = append(fit, ch)
	}
	return fit
}

func emitC14(c *runCfg, cs *c14case) {
	rows, final, p, out, hang := runC14case(cs)
	oids := []any{"oids"}
	for _, o := range cs.oids {
		oids = append(oids, o)
	}
	chunks := []any{"chunks"}
	for _, ch := range cs.chunks {
		chunks = append(chunks, hx(ch))
	}
	exp := "none"
	if cs.expect != nil {
		exp = sx(append([]any{"rows"}, toAny(cs.expect)...)...)
	}
	must := cs.must
	if must == "" {
		must = "any"
	}
	c.out.line(sx("c14", cs.id, cs.class, sx("limit", cs.limit), sx(oids...), sx(chunks...), sx("ending", cs.ending), sx("noise", cs.noise), sx("expect", exp), sx("must", must), sx("lead", hx(cs.lead)), sx("tail", hx(cs.tail)),
		sx("obs", sx(append([]any{"rows"}, toAny(rows)...)...), sx("final", final), sx("panic", p), sx("hang", hang), sx("out", out))))
	c.stat("class_" + cs.class)
}

func toAny(ss []string) []any {
	var r []any
	for _, s := range ss {
		r = append(r, s)
	}
	return r
}

// ---- client-side encoder ----
type bval struct {
	null bool
	i    int64
	b    []byte
	kind string // int bool bytes
}

func (v bval) sx() string {
	if v.null {
		return "null"
	}
	switch v.kind {
	case "int":
		return sx("int", v.i)
	case "bool":
		return sx("bool", v.i != 0)
	default:
		return sx("bytes", v.b)
	}
}

func encBval(o int, v bval) []byte {
	if v.null {
		return be32b(0xffffffff)
	}
	switch o {
	case 16:
		return cat(be32b(1), []byte{byte(v.i)})
	case 21:
		return cat(be32b(2), be16b(int(uint16(v.i))))
	case 23:
		return cat(be32b(4), be32b(uint32(v.i)))
	case 20:
		return cat(be32b(8), be32b(uint32(uint64(v.i)>>32)), be32b(uint32(v.i)))
	default:
		return cat(be32b(uint32(len(v.b))), v.b)
	}
}

func (g *gen) bval(o int) bval {
	if g.chance(0.15) {
		return bval{null: true}
	}
	switch o {
	case 16:
		return bval{kind: "bool", i: int64(g.rng.Intn(2))}
	case 21:
		return bval{kind: "int", i: []int64{0, 1, -1, 32767, -32768, 258}[g.rng.Intn(6)]}
	case 23:
		return bval{kind: "int", i: []int64{0, 1, -1, 2147483647, -2147483648, 65536, 16909060}[g.rng.Intn(7)]}
	case 20:
		return bval{kind: "int", i: []int64{0, 1, -1, 9223372036854775807, -9223372036854775808, 4294967296, 72623859790382856}[g.rng.Intn(7)]}
	case 2950:
		return bval{kind: "bytes", b: g.bytesN(16)}
	default:
		return bval{kind: "bytes", b: g.bytesN([]int{0, 1, 3, 7, 20}[g.rng.Intn(5)])}
	}
}

var copySig = []byte("PGCOPY\n\377\r\n\000")

func encodeRows(oids []int, rows [][]bval, header, trailer bool) (stream []byte, expect []string) {
	if header {
		stream = cat(copySig, be32b(0), be32b(0))
	}
	for _, r := range rows {
		stream = append(stream, be16b(len(r))...)
		parts := []any{"row"}
		for i, v := range r {
			stream = append(stream, encBval(oids[i], v)...)
			parts = append(parts, v.sx())
		}
		expect = append(expect, sx(parts...))
	}
	if trailer {
		stream = append(stream, 0xff, 0xff)
	}
	if expect == nil {
		expect = []string{}
	}
	return
}

func splitAt(stream []byte, cuts []int) [][]byte {
	var out [][]byte
	last := 0
	for _, c := range cuts {
		if c < last {
			c = last
		}
		if c > len(stream) {
			c = len(stream)
		}
		out = append(out, stream[last:c])
		last = c
	}
	out = append(out, stream[last:])
	return out
}

// replayC14 re-runs the binary COPY cases of a replay file on the current tree
func replayC14(c *runCfg) error {
	f, err := os.Open(c.replay)
	if err != nil {
		return err
	}
	defer f.Close()
	sc := bufio.NewScanner(f)
	sc.Buffer(make([]byte, 1<<20), 1<<28)
	for sc.Scan() {
		l := sc.Text()
		if !strings.HasPrefix(l, "(c14 ") {
			continue
		}
		n, err := parseSexp(l)
		if err != nil {
			return err
		}
		cs := &c14case{id: n.list[1].atom, class: "replay", limit: atoi(n.field("limit").list[1].atom), ending: n.field("ending").list[1].atom, noise: n.field("noise").list[1].atom == "1"}
		for _, o := range n.field("oids").list[1:] {
			cs.oids = append(cs.oids, atoi(o.atom))
		}
		for _, ch := range n.field("chunks").list[1:] {
			cs.chunks = append(cs.chunks, unhx(ch.atom))
		}
		if f := n.field("lead"); f != nil && len(unhx(f.list[1].atom)) > 0 {
			cs.lead = unhx(f.list[1].atom)
		}
		if f := n.field("tail"); f != nil && len(unhx(f.list[1].atom)) > 0 {
			cs.tail = unhx(f.list[1].atom)
		}
		emitC14(c, cs)
	}
	return sc.Err()
}

// the message that starts the copy carries surplus bytes behind its last field (a tuple, the stream
// signature, noise, the stream itself): they belong to that message, never to the copy stream; simple and
// extended protocol. [gid] names the group whose reference run (no surplus) is "<gid>.v0".
func emitC14Surplus(c *runCfg, gid int, L int, oids []int, stream []byte, expect []string) {
	surplus := [][]byte{{0, 1, 0, 0, 0, 4, 0, 0, 0, 7}, []byte("PGCOPY\n\377\r\n\000"), {0xff, 0xff}, stream}
	for k, sp := range surplus {
		if len(sp) > 50 { // the leading message itself stays within the limit
			continue
		}
		leads := [][]byte{
			msg('Q', cat(cs([]byte("copy")), sp)),
			cat(mParse(nil, []byte("copy"), 0), mBind(nil, nil, nil, nil, nil), msg('E', cat(cs(nil), be32b(0), sp))),
		}
		for li, lead := range leads {
			chunks := fitChunks([][]byte{stream}, L)
			emitC14(c, &c14case{id: fmt.Sprintf("%d.s%d", gid, k*2+li), class: "surplus", limit: L, oids: oids, chunks: chunks, ending: "done", expect: expect, lead: lead})
		}
	}
}

func runC14(c *runCfg) error {
	if c.replay != "" {
		return replayC14(c)
	}
	runC14volume(c)
	g := &gen{rng: c.rng}
	id := 0
	L := 64
	shapes := [][]int{{23}, {25}, {23, 25}, {16, 20, 17}, {21, 1043, 23, 25}, {2950, 23}}
	groups := 40
	if c.tier == "thorough" {
		groups = 800
	}
	for gi := 0; gi < groups; gi++ {
		oids := shapes[g.rng.Intn(len(shapes))]
		var rows [][]bval
		for r := g.rng.Intn(4); r > 0; r-- {
			var row []bval
			for _, o := range oids {
				row = append(row, g.bval(o))
			}
			rows = append(rows, row)
		}
		header, trailer := g.chance(0.7), g.chance(0.6)
		stream, expect := encodeRows(oids, rows, header, trailer)
		emitGroup := func(class string, stream []byte, expect []string, ending string) {
			// every single cut, a sample of double cuts, random multi-cuts, noise
			var splits [][]int
			splits = append(splits, nil)
			if len(stream) <= 48 || c.tier == "thorough" {
				for a := 0; a <= len(stream); a++ {
					splits = append(splits, []int{a})
				}
			} else {
				for k := 0; k < 12; k++ {
					splits = append(splits, []int{g.rng.Intn(len(stream) + 1)})
				}
			}
			for k := 0; k < 10; k++ {
				a := g.rng.Intn(len(stream) + 1)
				b := a + g.rng.Intn(len(stream)-a+1)
				splits = append(splits, []int{a, b}, []int{a, a, b})
			}
			bytewiseCuts := []int{}
			for a := 1; a < len(stream) && a < 80; a++ {
				bytewiseCuts = append(bytewiseCuts, a)
			}
			splits = append(splits, bytewiseCuts)
			for v, cuts := range splits {
				chunks := splitAt(stream, cuts)
				// a CopyData message may not exceed the limit: split further
				var fit [][]byte
				for _, ch := range chunks {
					for len(ch) > L {
						fit = append(fit, ch[:L])
						ch = ch[L:]
					}
					fit = append(fit, ch)
				}
				emitC14(c, &c14case{id: fmt.Sprintf("%d.v%d", id, v), class: class, limit: L, oids: oids, chunks: fit, ending: ending, expect: expect, noise: v%3 == 1})
			}
			id++
		}
		emitGroup("valid", stream, expect, "done")
		if gi%4 == 0 {
			emitC14Surplus(c, id-1, L, oids, stream, expect)
		}
		// corruptions of counts and lengths, truncations, aborted streams
		if len(stream) > 0 {
			bad := append([]byte{}, stream...)
			switch g.rng.Intn(6) {
			case 0: // field count +1
				off := 0
				if header {
					off = 19
				}
				if off+1 < len(bad) {
					bad[off+1]++
				}
			case 1: // field count 0
				off := 0
				if header {
					off = 19
				}
				if off+1 < len(bad) {
					bad[off], bad[off+1] = 0, 0
				}
			case 2: // a length one too large / huge
				off := 2
				if header {
					off = 21
				}
				if off+3 < len(bad) {
					bad[off+3]++
				}
			case 3:
				off := 2
				if header {
					off = 21
				}
				if off+3 < len(bad) {
					bad[off], bad[off+1], bad[off+2], bad[off+3] = 0xff, 0xff, 0xff, 0xfe
				}
			case 4: // truncated
				bad = bad[:g.rng.Intn(len(bad))]
			case 5: // length just above the limit
				off := 2
				if header {
					off = 21
				}
				if off+3 < len(bad) {
					bad[off], bad[off+1], bad[off+2], bad[off+3] = 0, 0, 0, byte(L+1)
				}
			}
			emitGroup("corrupt", bad, nil, "done")
			emitGroup("aborted", stream, nil, "fail")
			// a wrong field count in a row that is NOT the first one (one more, one fewer, none, 65534): an error
			// where it stands, whatever came before — never a short row, never a panic
			if len(rows) >= 2 {
				for k := 1; k < len(rows); k++ {
					pfx, _ := encodeRows(oids, rows[:k], header, false)
					off := len(pfx)
					for vi, cnt := range []int{len(oids) + 1, len(oids) - 1, 0, 65534} {
						if cnt < 0 || cnt == len(oids) || off+1 >= len(stream) {
							continue
						}
						later := append([]byte{}, stream...)
						later[off], later[off+1] = byte(cnt>>8), byte(cnt)
						for si, cuts := range [][]int{nil, {off}, {off + 1}, {off + 2}} {
							emitC14(c, &c14case{id: fmt.Sprintf("%d.v%d", id, si), class: "corrupt_later", limit: L, oids: oids,
								chunks: fitChunks(splitAt(later, cuts), L), ending: "done", must: "err", noise: (si+vi)%3 == 1})
						}
						id++
					}
				}
			}
			// the stream cut after EVERY byte (one message, and one byte per message), then CopyDone:
			// only a cut at a row boundary / behind the trailer is a complete stream
			if len(stream) <= 120 || c.tier == "thorough" {
				// the cuts at which the stream is complete: nothing sent, after the header, after each row
				boundary := map[int]bool{0: true}
				for k := 0; k <= len(rows); k++ {
					pfx, _ := encodeRows(oids, rows[:k], header, false)
					boundary[len(pfx)] = true
				}
				for a := 0; a < len(stream); a++ {
					must := "err"
					if boundary[a] {
						must = ""
					}
					emitC14(c, &c14case{id: fmt.Sprintf("%dt%d.0", id, a), class: "cut", limit: L, oids: oids, chunks: fitChunks([][]byte{stream[:a]}, L), ending: "done", must: must})
					if a%3 == 1 {
						var bw [][]byte
						for k := 0; k < a; k++ {
							bw = append(bw, stream[k:k+1])
						}
						emitC14(c, &c14case{id: fmt.Sprintf("%dt%d.1", id, a), class: "cut", limit: L, oids: oids, chunks: bw, ending: "done", must: must})
					}
				}
			}
			// an oversized message at every chunk boundary of a two/three-way split
			for k := 0; k < 6 && len(stream) > 2; k++ {
				a := 1 + g.rng.Intn(len(stream)-1)
				emitC14(c, &c14case{id: fmt.Sprintf("%do%d.0", id, k), class: "oversize_inside", limit: L, oids: oids,
					chunks: fitChunks([][]byte{stream[:a]}, L), after: fitChunks([][]byte{stream[a:]}, L), ending: "over", must: "err"})
			}
			id++
		}
	}
	return nil
}

// C10: "every position of the oversized message in a session" — also between the CopyData messages of a binary
// COPY whose row is split across them (after the field count, inside a field length, inside a value): the copy
// ends with the one error of class 54000, the connection goes on
func runC10copyrows(c *runCfg) {
	oids := []int{23, 25, 20}
	rows := [][]bval{{{kind: "int", i: 7}, {kind: "bytes", b: []byte("seven")}, {kind: "int", i: 1 << 40}}, {{null: true}, {kind: "bytes", b: []byte{}}, {kind: "int", i: -1}}}
	for hi, header := range []bool{true, false} {
		stream, _ := encodeRows(oids, rows, header, true)
		for _, L := range []int{64, 1024} {
			for a := 1; a < len(stream); a++ {
				emitC14(c, &c14case{id: fmt.Sprintf("%do%d.%d", 9500000+hi, a, L), class: "oversize_in_row", limit: L, oids: oids,
					chunks: fitChunks([][]byte{stream[:a]}, L), after: fitChunks([][]byte{stream[a:]}, L), ending: "over", must: "err"})
			}
		}
	}
}

// C13: "a CopyFail surfaces as an error, reported once" — also when the binary stream in front of it was complete
// (end-of-data trailer included): the client may still abort until it has sent CopyDone
func runC13binary(c *runCfg) {
	oids := []int{23, 25}
	rows := [][]bval{{{kind: "int", i: 10}, {kind: "bytes", b: []byte("kilo")}}, {{kind: "int", i: 11}, {null: true}}}
	k := 0
	for _, header := range []bool{true, false} {
		for _, nrows := range []int{0, 1, 2} {
			stream, _ := encodeRows(oids, rows[:nrows], header, true)
			for _, chunks := range [][][]byte{{stream}, {stream[:len(stream)-2], stream[len(stream)-2:]}, {stream[:len(stream)/2], stream[len(stream)/2:]}} {
				for _, noise := range []bool{false, true} {
					emitC14(c, &c14case{id: fmt.Sprintf("%d", 9600000+k), class: "fail_after_trailer", limit: 1024, oids: oids, chunks: chunks, ending: "fail", must: "err", noise: noise})
					k++
				}
			}
		}
	}
}

// C14 volume: streams of several hundred rows (beyond 8 KiB) in CopyData messages of many sizes; the handler keeps every
// row it has read until the copy is over
func runC14volume(c *runCfg) {
	oids := []int{23, 25, 1043}
	var rows [][]bval
	for i := 0; i < 400; i++ {
		rows = append(rows, []bval{{kind: "int", i: int64(i)}, {kind: "bytes", b: []byte(fmt.Sprintf("name-%04d", i))}, {kind: "bytes", b: []byte(fmt.Sprintf("%04d-second-column", i))}})
	}
	stream, expect := encodeRows(oids, rows, true, true)
	for k, size := range []int{len(stream), 4096, 1000, 333, 4095, 8000} {
		var chunks [][]byte
		for rest := stream; len(rest) > 0; {
			n := min(size, len(rest))
			chunks = append(chunks, rest[:n])
			rest = rest[n:]
		}
		emitC14(c, &c14case{id: fmt.Sprintf("9800000.v%d", k), class: "retained_rows", limit: 65536, oids: oids, chunks: chunks, ending: "done", expect: expect})
	}
}
