package main

import (
	"flag"
	"fmt"
	"math/rand"
	"os"
)

// wirecheck <property> -tier quick|thorough -seed N -out FILE [-replay FILE]
// runs the implementation on generated (or replayed) cases and writes one
// observation per line; the OCaml driver compares them with the model.

type runner func(cfg *runCfg) error

type runCfg struct {
	tier   string
	seed   int64
	out    *outFile
	rng    *rand.Rand
	replay string
	shard  int
	shards int
	stats  map[string]int
}

func (c *runCfg) stat(k string) { c.stats[k]++ }

var runners = map[string]runner{}

func main() {
	if len(os.Args) < 2 {
		fmt.Fprintln(os.Stderr, "usage: wirecheck <property> [flags]")
		os.Exit(2)
	}
	prop := os.Args[1]
	fs := flag.NewFlagSet(prop, flag.ExitOnError)
	tier := fs.String("tier", "quick", "quick|thorough")
	seed := fs.Int64("seed", 1, "PRNG seed")
	out := fs.String("out", "", "observation file")
	replay := fs.String("replay", "", "case file to replay")
	shard := fs.Int("shard", 0, "shard index")
	shards := fs.Int("shards", 1, "number of shards")
	fs.Parse(os.Args[2:])
	r, ok := runners[prop]
	if !ok {
		fmt.Fprintln(os.Stderr, "unknown property", prop)
		os.Exit(2)
	}
	cfg := &runCfg{tier: *tier, seed: *seed, rng: rand.New(rand.NewSource(*seed)), replay: *replay, shard: *shard, shards: *shards, stats: map[string]int{}}
	cfg.out = newOut(*out)
	startMemGuard()
	err := r(cfg)
	for k, v := range cfg.stats {
		cfg.out.line(sx("stat", k, v))
	}
	cfg.out.close()
	if err != nil {
		fmt.Fprintln(os.Stderr, "harness error:", err)
		os.Exit(3)
	}
}
