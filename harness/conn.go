package main

import (
	"errors"
	"io"
	"net"
	"sync"
	"time"
)

// memConn is the in-memory transport between the scripted client and the
// real server: client bytes are delivered segment by segment (one Read never
// returns more than one segment), the server's output is collected, and the
// moments at which the server blocks waiting for input are observable.
type memConn struct {
	mu        sync.Mutex
	cond      *sync.Cond
	segs      [][]byte
	eof       bool // no more input will come: Read returns io.EOF once drained
	readErr   error
	out       []byte
	closed    bool
	finished  bool
	idle      bool
	writes    int
	failAt    int // fail the k-th write (0-based) and all later ones; -1: never
	reads     int
	readFail  int // fail the k-th read and later; -1: never
	closes    int
	pushed    int // number of client chunks handed to the transport so far
	useTurn   bool
	turn      int
	addr      string
	sslFirst  bool
	encrypted bool // the server's output is TLS ciphertext: it cannot be parsed by the recorder
	rdDeadline, wrDeadline time.Time
	// one run of zero bytes that is served without being materialised (bodies of a gigabyte and more)
	zmark []byte
	zleft int64
}

func newMemConn() *memConn {
	c := &memConn{failAt: -1, readFail: -1, addr: "client"}
	c.cond = sync.NewCond(&c.mu)
	return c
}

func (c *memConn) Read(p []byte) (int, error) {
	c.mu.Lock()
	defer c.mu.Unlock()
	if c.readFail >= 0 && c.reads >= c.readFail {
		c.reads++
		return 0, errors.New("injected read failure")
	}
	c.reads++
	for len(c.segs) == 0 && !c.eof && !c.closed {
		c.idle = true
		c.cond.Broadcast()
		c.cond.Wait()
	}
	c.idle = false
	if c.closed {
		return 0, net.ErrClosed
	}
	if len(c.segs) == 0 {
		if c.readErr != nil {
			return 0, c.readErr
		}
		return 0, io.EOF
	}
	if c.zmark != nil && len(c.segs[0]) == 1 && &c.segs[0][0] == &c.zmark[0] {
		n := int64(len(p))
		if n > c.zleft {
			n = c.zleft
		}
		clear(p[:n])
		c.zleft -= n
		if c.zleft == 0 {
			c.segs = c.segs[1:]
		}
		return int(n), nil
	}
	n := copy(p, c.segs[0])
	if n == len(c.segs[0]) {
		c.segs = c.segs[1:]
	} else {
		c.segs[0] = c.segs[0][n:]
	}
	return n, nil
}

func (c *memConn) Write(p []byte) (int, error) {
	c.mu.Lock()
	defer c.mu.Unlock()
	if c.closed {
		return 0, net.ErrClosed
	}
	k := c.writes
	c.writes++
	if c.failAt >= 0 && k >= c.failAt {
		return 0, errors.New("injected write failure")
	}
	c.out = append(c.out, p...)
	c.cond.Broadcast()
	return len(p), nil
}

func (c *memConn) Close() error {
	c.mu.Lock()
	defer c.mu.Unlock()
	c.closes++
	if c.closed {
		return net.ErrClosed
	}
	c.closed = true
	// the server closes the connection when it is done with it: through the accept loop that is the
	// only end-of-serving signal there is
	c.finished = true
	c.cond.Broadcast()
	return nil
}

func (c *memConn) outLen() int {
	c.mu.Lock()
	defer c.mu.Unlock()
	return len(c.out)
}

func (c *memConn) outLenTurn() (int, int) {
	c.mu.Lock()
	defer c.mu.Unlock()
	if c.useTurn {
		return len(c.out), c.turn
	}
	return len(c.out), c.pushed
}

// setTurn fixes the turn number reported with events: a client message that travels as several
// transport writes (TLS records) is still one turn
func (c *memConn) setTurn(t int) {
	c.mu.Lock()
	c.useTurn, c.turn = true, t
	c.mu.Unlock()
}

func (c *memConn) push(seg []byte) {
	if len(seg) == 0 {
		return
	}
	c.mu.Lock()
	c.segs = append(c.segs, append([]byte{}, seg...))
	c.pushed++
	c.cond.Broadcast()
	c.mu.Unlock()
}

func (c *memConn) over() bool {
	c.mu.Lock()
	defer c.mu.Unlock()
	return c.closed || c.finished
}

func (c *memConn) setEOF() {
	c.mu.Lock()
	c.eof = true
	c.cond.Broadcast()
	c.mu.Unlock()
}

func (c *memConn) markFinished() {
	c.mu.Lock()
	c.finished = true
	c.cond.Broadcast()
	c.mu.Unlock()
}

// waitIdle blocks until the server waits for input with nothing queued, or
// the connection is over. It reports false on timeout (the server hangs).
func (c *memConn) waitIdle(d time.Duration) bool {
	deadline := time.Now().Add(d)
	t := time.AfterFunc(d, func() { c.mu.Lock(); c.cond.Broadcast(); c.mu.Unlock() })
	defer t.Stop()
	c.mu.Lock()
	defer c.mu.Unlock()
	for !((c.idle && len(c.segs) == 0) || c.closed || c.finished) {
		if time.Now().After(deadline) {
			return false
		}
		c.cond.Wait()
	}
	return true
}

func (c *memConn) waitFinished(d time.Duration) bool {
	deadline := time.Now().Add(d)
	t := time.AfterFunc(d, func() { c.mu.Lock(); c.cond.Broadcast(); c.mu.Unlock() })
	defer t.Stop()
	c.mu.Lock()
	defer c.mu.Unlock()
	for !c.finished {
		if time.Now().After(deadline) {
			return false
		}
		c.cond.Wait()
	}
	return true
}

type memAddr string

func (a memAddr) Network() string { return "mem" }
func (a memAddr) String() string  { return string(a) }

func (c *memConn) LocalAddr() net.Addr { return memAddr("server") }
func (c *memConn) RemoteAddr() net.Addr {
	if c.addr == "" {
		return memAddr("client")
	}
	return memAddr(c.addr)
}
// deadlines are recorded: one that is still armed when the session is established (or over) makes every later
// read or write fail once it has passed, which no plaintext or TLS session may depend on the clock for
func (c *memConn) SetDeadline(t time.Time) error {
	c.mu.Lock()
	c.rdDeadline, c.wrDeadline = t, t
	c.mu.Unlock()
	return nil
}
func (c *memConn) SetReadDeadline(t time.Time) error {
	c.mu.Lock()
	c.rdDeadline = t
	c.mu.Unlock()
	return nil
}
func (c *memConn) SetWriteDeadline(t time.Time) error {
	c.mu.Lock()
	c.wrDeadline = t
	c.mu.Unlock()
	return nil
}

// armedDeadline reports a deadline that has been set on the connection and not cleared again
func (c *memConn) armedDeadline() string {
	c.mu.Lock()
	defer c.mu.Unlock()
	switch {
	case !c.wrDeadline.IsZero() && !c.rdDeadline.IsZero():
		return "read and write"
	case !c.wrDeadline.IsZero():
		return "write"
	case !c.rdDeadline.IsZero():
		return "read"
	}
	return ""
}

// pushZeros queues n zero bytes (once per connection) without allocating them.
func (c *memConn) pushZeros(n int64) {
	c.mu.Lock()
	c.zmark = []byte{0}
	c.zleft = n
	c.segs = append(c.segs, c.zmark)
	c.pushed++
	c.cond.Broadcast()
	c.mu.Unlock()
}
