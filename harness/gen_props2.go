package main

import (
	"bytes"
	"fmt"
	"os"
	"strings"

	wire "github.com/jeroenrinzema/psql-wire"
)

func flatCase(id int, class string, cfg cfgT, raw []byte, chunks []int) *caseT {
	return &caseT{id: fmt.Sprint(id), class: class, cfg: cfg, raw: raw, chunks: chunks}
}

func bytewise(n int) []int {
	var c []int
	for i := 0; i < n; i++ {
		c = append(c, 1)
	}
	return c
}

func simpleCfg(limit int) cfgT {
	st := stmtT{id: 1, cols: textCols(1), prog: []opT{{kind: "row", vals: []valT{tv("one")}}, {kind: "complete", tag: []byte("SELECT 1")}}, ret: "nil"}
	return cfgT{limit: limit, auth: "none", term: "none", parse: []parseEntry{{query: []byte("select 1"), stmts: []stmtT{st}}}}
}

// ---------------- C01 ----------------
func init() { runners["C01"] = runC01 }

func runC01(c *runCfg) error {
	if c.replay != "" {
		return replaySessions(c)
	}
	g := &gen{rng: c.rng}
	id := 0
	startups := [][]byte{
		startupMsg("user", "alice", "database", "db1"),
		startupMsg("database", "db1"),
		startupMsg("user", "bob"),
		startupMsg(),
		startupMsg("user", "a", "user", "b", "application_name", "psql"),
	}
	conts := [][][]byte{
		nil,
		{mQuery([]byte("select 1"))},
		{mParse(nil, []byte("select 1"), 0), mBind(nil, nil, nil, nil, nil), mExecute(nil, 0), mSync()},
		{mTerminate()},
		{[]byte{0xde, 0xad, 0xbe, 0xef, 0, 0, 0, 1, 2}},
		{mPassword([]byte("secret")), mQuery([]byte("select 1"))},
	}
	pwVariants := func(limit int) [][]byte {
		good := mPassword([]byte("secret"))
		v := [][]byte{good, mPassword([]byte("wrong")), mPassword([]byte("")), mPassword([]byte("secret\x00trailing")),
			msg('p', []byte("secret")),               // no NUL
			msg('p', nil),                            // empty body
			msgLen('p', 3, nil), msgLen('p', 0, nil), // length below the minimum
			msgLen('p', uint32(limit+5), []byte("secret\x00")),               // oversized declared length, short input
			msg('p', append([]byte("secret\x00"), make([]byte, limit+1)...)), // really oversized
		}
		for _, t := range []byte{'Q', 'P', 'X', 'S', 'R', 0, 'q'} {
			v = append(v, msg(t, []byte("secret\x00")))
		}
		for i := 0; i < len(good); i++ { // truncated at every byte
			v = append(v, good[:i])
		}
		return v
	}
	emit := func(class string, auth string, su []byte, pw []byte, cont [][]byte, mode int) {
		cfg := simpleCfg(64)
		cfg.auth = auth
		cfg.authPW = []byte("secret")
		// "session middleware" is part of the authenticated phase: two of three cases register middlewares, which
		// must not run for a connection whose credentials were not accepted
		if id%3 != 0 {
			cfg.mws = []bool{true, true}[:1+id%2]
		}
		var cs *caseT
		// lock-step delivery needs chunks that are whole messages
		whole := len(pw) >= 5 && int(uint32(pw[1])<<24|uint32(pw[2])<<16|uint32(pw[3])<<8|uint32(pw[4]))+1 == len(pw)
		if mode == 0 && !whole {
			mode = 1
		}
		switch mode {
		case 0: // lock-step
			msgs := append([][]byte{pw}, cont...)
			cs = lockCase(id, class, cfg, su, msgs)
			cs.pre = 2
		case 1: // everything at once (pipelined)
			raw := cat(su, pw)
			for _, m := range cont {
				raw = append(raw, m...)
			}
			cs = flatCase(id, class, cfg, raw, nil)
		default: // one byte per read
			raw := cat(su, pw)
			for _, m := range cont {
				raw = append(raw, m...)
			}
			cs = flatCase(id, class, cfg, raw, bytewise(len(raw)))
		}
		emitSession(c, cs)
		id++
	}
	// stale data: bytes behind the startup terminator must never be read as part of a later message
	junkSU := untypedMsg(startupBody([][2]string{{"user", "alice"}, {"database", "db1"}}, true, []byte("secret\x00")))
	for _, pw := range [][]byte{msg('p', nil), msg('p', []byte{}), mPassword([]byte("")), msg('p', []byte("x"))} {
		for mode := 0; mode < 3; mode++ {
			emit("stale", "pw", junkSU, pw, conts[1], mode)
			emit("stale", "accept", junkSU, pw, conts[2], mode)
		}
	}
	// large startup packets: the password message lands in the read buffer where the startup packet was;
	// its trailing bytes (behind the password's NUL, legal and ignored) re-spell the startup parameters with
	// another user at the very same offsets. The validator must see THIS connection's user and database.
	for _, total := range []int{3000, 3900, 4000, 4090, 4096, 4100, 5000, 8100, 9000} {
		body := startupBody([][2]string{{"user", "guest"}, {"database", "db"}, {"application_name", strings.Repeat("a", total)}}, true, nil)
		su := untypedMsg(body)
		// the same layout as the startup body (which begins with the 4-byte version): "apw\0" covers the version
		evil := append([]byte("apw\x00"), bytes.Replace(body[4:], []byte("guest"), []byte("admin"), 1)...)
		for _, pwm := range [][]byte{msg('p', evil), msg('p', evil[:len(evil)/2]), mPassword([]byte("apw"))} {
			for mode := 0; mode < 2; mode++ {
				for _, auth := range []string{"pw", "accept", "reject"} {
					cfg := simpleCfg(16384)
					cfg.auth = auth
					cfg.authPW = []byte("apw")
					var cs *caseT
					if mode == 0 {
						cs = lockCase(id, "aliasing", cfg, su, append([][]byte{pwm}, conts[1]...))
						cs.pre = 2
					} else {
						cs = flatCase(id, "aliasing", cfg, cat(su, pwm, conts[1][0]), nil)
					}
					emitSession(c, cs)
					id++
				}
			}
		}
	}
	// a server that is closing (Close has been called) still authenticates: a connection accepted around the
	// shutdown gets no session without credentials the validator accepted (what it may do afterwards is the business
	// of the shutdown protocol, C16: these cases are judged by the authentication oracle alone)
	for _, auth := range []string{"pw", "reject", "fail"} {
		for pi, pw := range [][]byte{mPassword([]byte("wrong")), mPassword([]byte("secret")), mQuery([]byte("select 1")), nil} {
			for _, ssl := range []bool{false, true} {
				cfg := simpleCfg(256)
				cfg.auth = auth
				cfg.authPW = []byte("secret")
				su := startupMsg("user", "late", "database", "db")
				var cs *caseT
				if pw == nil {
					cs = lockCase(id, "closing", cfg, su, [][]byte{mSync()})
				} else {
					cs = lockCase(id, "closing", cfg, su, [][]byte{pw, mQuery([]byte("select 1")), mTerminate()})
				}
				cs.pre = 2
				if ssl {
					cs.raw = cat(sslRequest(), cs.raw)
					cs.chunks = append([]int{8}, cs.chunks...)
					cs.pre = 3
				}
				_ = pi
				reg := &registry{recs: map[string]*recorder{}}
				conn, rec := newSession(cs, reg)
				srv, err := buildServer(&cs.cfg, reg)
				if err != nil {
					panic(err)
				}
				srv.Close()
				o := driveSession(cs, conn, rec, srv)
				c.out.line("(sess " + cs.id + " " + cs.class + " " + cs.sxHead() + " (serverclosed 1) " + o.sx(isSSLRequest(cs.raw)) + ")")
				c.stat("class_closing")
				id++
			}
		}
	}
	// long user and database names (63, 64, 65, 200 bytes; pairs that share their first 63 bytes): the validator is
	// asked about exactly the names of the startup packet
	for _, n := range []int{62, 63, 64, 65, 128, 200} {
		for _, tail := range []string{"", "-admin", "X"} {
			user := strings.Repeat("u", n) + tail
			db := strings.Repeat("d", n) + tail
			for _, auth := range []string{"pw", "accept", "reject"} {
				cfg := simpleCfg(1024)
				cfg.auth = auth
				cfg.authPW = []byte("secret")
				cs := lockCase(id, "long_names", cfg, startupMsg("user", user, "database", db), [][]byte{mPassword([]byte("secret")), mQuery([]byte("select 1"))})
				cs.pre = 2
				emitSession(c, cs)
				id++
			}
		}
	}
	// several users authenticate on one server at the same time: the startup of one falls between the password
	// request and the password of another, in every order; right and wrong passwords mixed. Each connection is
	// judged on its own credentials.
	{
		rounds := 24
		if c.tier == "thorough" {
			rounds = 400
		}
		for r := 0; r < rounds; r++ {
			cfg := simpleCfg(256)
			cfg.auth = []string{"pw", "pw", "reject", "accept"}[r%4]
			cfg.authPW = []byte("secret")
			n := 2 + r%3
			var cases []*caseT
			for k := 0; k < n; k++ {
				pw := []byte("secret")
				if (r+k)%3 == 1 {
					pw = []byte(fmt.Sprintf("wrong-%d", k))
				}
				cs := lockCase(0, "overlap", cfg, startupMsg("user", fmt.Sprintf("user%d", k), "database", fmt.Sprintf("db%d", k)), [][]byte{mPassword(pw), mQuery([]byte("select 1")), mTerminate()})
				cs.pre = 2
				cs.id = fmt.Sprintf("%d.%d", id, k)
				cases = append(cases, cs)
			}
			// all startups first, then the passwords in another order, then the rest
			var sched []int
			for k := 0; k < n; k++ {
				sched = append(sched, k)
			}
			for k := n - 1; k >= 0; k-- {
				sched = append(sched, (k+r)%n)
			}
			for j := 0; j < 2; j++ {
				for k := 0; k < n; k++ {
					sched = append(sched, k)
				}
			}
			if r%2 == 1 {
				sched = g.schedule(cases)
			}
			emitMulti(c, "overlap", cases, sched, false)
			id++
		}
	}
	// corpus: the pinned witness — wrong password followed by a query
	emit("corpus", "pw", startups[0], mPassword([]byte("bad")), conts[1], 1)
	emit("corpus", "pw", startups[0], mPassword([]byte("bad")), conts[2], 1)
	emit("corpus", "pw", startups[0], mPassword([]byte("secret")), conts[1], 0)
	// enumeration
	for _, auth := range []string{"pw", "accept", "reject", "fail", "failtrue"} {
		for si, su := range startups {
			for pi, pw := range pwVariants(64) {
				for ci, cont := range conts {
					if c.tier != "thorough" && (si+pi+ci)%3 != 0 && si > 0 {
						continue
					}
					for mode := 0; mode < 3; mode++ {
						if mode == 2 && c.tier != "thorough" && (pi+ci)%4 != 0 {
							continue
						}
						emit("enum_"+auth, auth, su, pw, cont, mode)
					}
				}
			}
		}
	}
	// random passwords / params
	n := 300
	if c.tier == "thorough" {
		n = 6000
	}
	for i := 0; i < n; i++ {
		su := startupMsg("user", string(g.text()), "database", string(g.text()))
		// NUL bytes cannot occur in startup strings
		pw := g.text()
		for j := range pw {
			if pw[j] == 0 {
				pw[j] = 'x'
			}
		}
		auth := g.pick("pw", "accept", "reject", "fail", "failtrue")
		p := mPassword(pw)
		if g.chance(0.3) {
			p = mPassword([]byte("secret"))
		}
		emit("random", auth, su, p, conts[g.rng.Intn(len(conts))], g.rng.Intn(3))
	}
	return nil
}

// ---------------- C12 ----------------
func init() { runners["C12"] = runC12 }

func startupBody(pairs [][2]string, terminator bool, junk []byte) []byte {
	body := be32b(196608)
	for _, kv := range pairs {
		body = append(body, cs([]byte(kv[0]))...)
		body = append(body, cs([]byte(kv[1]))...)
	}
	if terminator {
		body = append(body, 0)
	}
	return append(body, junk...)
}

func runC12(c *runCfg) error {
	if c.replay != "" {
		return replaySessions(c)
	}
	g := &gen{rng: c.rng}
	id := 0
	cfgs := func() []cfgT {
		var out []cfgT
		a := simpleCfg(256)
		out = append(out, a)
		b := simpleCfg(256)
		b.params = [][2][]byte{{[]byte("application_name"), []byte("verif")}, {[]byte("TimeZone"), []byte("UTC")}}
		b.version = []byte("15.2")
		out = append(out, b)
		d := simpleCfg(256)
		d.params = [][2][]byte{{[]byte("server_encoding"), []byte("LATIN1")}, {[]byte("session_authorization"), []byte("root")}, {[]byte("is_superuser"), []byte("on")}, {[]byte("x"), []byte("")}, {[]byte("server_version"), []byte("9.0")}}
		out = append(out, d)
		e := simpleCfg(256)
		e.params = [][2][]byte{}
		e.version = []byte("16")
		e.mws = []bool{true}
		out = append(out, e)
		return out
	}()
	cont := cat(mQuery([]byte("select 1")), mTerminate())
	emit := func(class string, cfg cfgT, raw []byte, chunks []int) {
		emitSession(c, flatCase(id, class, cfg, raw, chunks))
		id++
	}
	pairSets := [][][2]string{
		{},
		{{"user", "alice"}},
		{{"user", "alice"}, {"database", "db"}},
		{{"user", "a"}, {"user", "b"}},
		{{"user", ""}, {"database", ""}},
		{{"application_name", "psql"}, {"user", "bob"}, {"client_encoding", "UTF8"}, {"options", "-c x=y"}},
		{{"k", "v"}, {"k2", "v2"}, {"user", "zed"}, {"k", "override"}},
		// the client names keys the server announces itself: what the server reports about itself does not follow
		// the client (it never transcodes, the session user is the authenticated user, ...)
		{{"user", "eve"}, {"client_encoding", "LATIN1"}, {"server_encoding", "SQL_ASCII"}, {"is_superuser", "on"}, {"session_authorization", "postgres"}},
		{{"client_encoding", "utf8"}, {"user", "eve"}, {"server_version", "99"}, {"TimeZone", "Mars/Olympus"}, {"application_name", "evil"}},
		{{"user", "eve"}, {"client_encoding", "'UTF8'"}, {"DateStyle", "German"}, {"integer_datetimes", "off"}, {"standard_conforming_strings", "off"}},
	}
	for _, cfg := range cfgs {
		for _, ps := range pairSets {
			full := startupBody(ps, true, nil)
			emit("valid", cfg, cat(untypedMsg(full), cont), nil)
			emit("valid_bytewise", cfg, cat(untypedMsg(full), cont), bytewise(len(full)+4+len(cont)))
			emit("junk", cfg, cat(untypedMsg(startupBody(ps, true, []byte("junk\x00more"))), cont), nil)
			emit("junk_empty", cfg, cat(untypedMsg(startupBody(ps, true, []byte("select 1\x00"))), msg('Q', nil), mSync(), msg('P', nil), cont), nil)
			// missing terminator / value: cut the body at every position
			lim := len(full)
			step := 1
			if c.tier != "thorough" {
				step = 3
			}
			for cut := 4; cut < lim; cut += step {
				emit("cut", cfg, cat(untypedMsg(full[:cut]), cont), nil)
			}
		}
		// cancel requests at every negotiation stage, SSL negotiation without certificates
		emit("cancel", cfg, cat(cancelRequest(), cont), nil)
		emit("ssl_n", cfg, cat(sslRequest(), startupMsg("user", "u"), cont), nil)
		emit("ssl_n_cancel", cfg, cat(sslRequest(), cancelRequest(), cont), nil)
		emit("ssl_n_ssl", cfg, cat(sslRequest(), sslRequest(), startupMsg("user", "u"), cont), nil)
		// long parameter values: the pairs arrive intact whatever the packet size (within the limit)
		for _, n := range []int{200, 4096, 10001, 70000} {
			big := cfg
			big.limit = 0
			emit("long_value", big, cat(startupMsg("user", "u", "options", strings.Repeat("-c a=b ", n/7), "application_name", "x"), cont), nil)
		}
		// many parameters: every pair of the packet counts, the last assignment of a key included, however many
		// pairs come before it
		for _, n := range []int{60, 127, 128, 129, 400, 2000} {
			big := cfg
			big.limit = 0
			kv := []string{"user", "guest", "database", "first"}
			for k := 0; k < n; k++ {
				kv = append(kv, fmt.Sprintf("key%04d", k), fmt.Sprintf("value %d", k))
			}
			kv = append(kv, "user", "alice", "application_name", "late", "database", "last")
			emit("many_parameters", big, cat(startupMsg(kv...), cont), nil)
		}
		emit("short", cfg, []byte{0, 0, 0, 8, 0}, nil)
		emit("short", cfg, untypedMsg([]byte{0, 3}), nil)
		emit("badlen", cfg, cat(be32b(3), cont), nil)
		emit("oversize", cfg, cat(be32b(100000), make([]byte, 300)), nil)
	}
	// several users connecting to one server, their startup exchanges and queries interleaved
	rounds := 40
	if c.tier == "thorough" {
		rounds = 600
	}
	for r := 0; r < rounds; r++ {
		cfg := cfgs[r%len(cfgs)]
		nconn := 2 + g.rng.Intn(4)
		var cases []*caseT
		for k := 0; k < nconn; k++ {
			su := startupMsg("user", fmt.Sprintf("user%d", k), "database", fmt.Sprintf("db%d", k%2))
			cs := lockCase(0, "concurrent", cfg, su, [][]byte{mQuery([]byte("select 1")), mQuery([]byte("select 1")), mTerminate()})
			cs.id = fmt.Sprintf("%d.%d", id, k)
			cases = append(cases, cs)
		}
		emitMulti(c, "concurrent", cases, g.schedule(cases), false)
		id++
	}
	n := 300
	if c.tier == "thorough" {
		n = 8000
	}
	for i := 0; i < n; i++ {
		cfg := cfgs[g.rng.Intn(len(cfgs))]
		var ps [][2]string
		for k := g.rng.Intn(20); k > 0; k-- {
			key := g.pick("user", "database", "application_name", "k", "K", "options", "é")
			val := string(g.text())
			bad := false
			for j := 0; j < len(val); j++ {
				if val[j] == 0 {
					bad = true
				}
			}
			if bad {
				val = "v"
			}
			ps = append(ps, [2]string{key, val})
		}
		emit("random", cfg, cat(untypedMsg(startupBody(ps, true, nil)), cont), nil)
	}
	return nil
}

// ---------------- C10 ----------------
func init() { runners["C10"] = runC10 }

// the limit inside a TLS session (and on the plaintext continuation after 'N'): the reader constructed for
// the upgraded connection obeys the configured limit exactly like the first one
func runC10TLS(c *runCfg, only map[string]bool) {
	id := 5000000
	for _, L := range []int{100, 1024, 20000, 0, 100000} {
		eff := L
		if eff <= 0 {
			eff = 1 << 24
		}
		var sizes []int
		if L > 0 {
			sizes = []int{L - 1, L, L + 1, L + 100, 3*L + 7}
		}
		for _, n := range []int{16383, 16384, 16385, 40000, 65536} {
			if n > L+1 {
				sizes = append(sizes, n)
			}
		}
		for _, certs := range []bool{true, false} {
			for _, auth := range []string{"none", "pw"} {
				cfg := simpleCfg(L)
				cfg.tls = certs
				cfg.auth = auth
				cfg.authPW = []byte("secret")
				msgs := [][]byte{startupMsg("user", "u")}
				if auth != "none" {
					msgs = append(msgs, mPassword([]byte("secret")))
				}
				for k, n := range sizes {
					// bodies of exactly n bytes that are well formed for their type
					t := []byte{'Q', 'P', 'd', 'z', 'Q'}[(k+len(auth))%5]
					body := bytes.Repeat([]byte{'x'}, n)
					body[n-1] = 0
					if t == 'P' && n >= 5 {
						body = cat([]byte{0}, bytes.Repeat([]byte{'x'}, n-4), []byte{0, 0, 0})
					}
					msgs = append(msgs, msg(t, body))
					if t == 'P' {
						msgs = append(msgs, mSync())
					}
					msgs = append(msgs, mQuery([]byte("select 1")))
				}
				msgs = append(msgs, mTerminate())
				class := map[bool]string{true: "tls_limit", false: "no_certs_limit"}[certs]
				emitTLS(c, only, &id, class, cfg, sslRequest(), nil, msgs, "")
				// the startup packet inside TLS obeys the limit as well
				if L > 0 && L < 50000 {
					for _, n := range []int{L, L + 1} {
						pad := n - (4 + 5 + 2 + 8 + 1 + 1)
						su := startupMsg("user", "u", "options", strings.Repeat("o", pad))
						m2 := append([][]byte{su}, msgs[1:]...)
						emitTLS(c, only, &id, class+"_startup", cfg, sslRequest(), nil, m2, "")
					}
				}
			}
		}
	}
}

// runC10streamed: see the comment inside
func runC10streamed(c *runCfg) {
	// bodies that are really sent in full, from just above the limit to beyond a gigabyte (served without being
	// materialised): skipped in full, answered with one ErrorResponse + ReadyForQuery, and the session goes on — the
	// transcript of message types behind the first ReadyForQuery must be E Z | Z | T D C Z
	{
		sizes := []int64{5000, 1 << 20, 1<<24 + 1, 1<<30 - 1, 1 << 30, 1<<30 + 1}
		if c.tier == "thorough" {
			sizes = append(sizes, 1<<31-5, 1<<31, 1<<31+9, 1<<32-5)
		}
		for si, n := range sizes {
			for _, L := range []int{1024, 0} {
				if L == 0 && n <= 1<<24 {
					continue
				}
				cfg := simpleCfg(L)
				reg := &registry{recs: map[string]*recorder{}}
				cs := flatCase(0, "streamed", cfg, nil, nil)
				conn, rec := newSession(cs, reg)
				srv, err := buildServer(&cs.cfg, reg)
				if err != nil {
					panic(err)
				}
				o := &obsT{}
				serveAsync(srv, conn, o)
				conn.push(stdStartup)
				conn.waitIdle(idleTimeout)
				mark := conn.outLen()
				conn.push(msgLen('Q', uint32(n+4), nil))
				conn.pushZeros(n)
				conn.push(cat(mSync(), mQuery([]byte("select 1")), mTerminate()))
				conn.setEOF()
				hang := !conn.waitFinished(6 * idleTimeout)
				collect(conn, rec, o)
				var got []byte
				for b := o.out[min(mark, len(o.out)):]; len(b) >= 5; {
					l := int(uint32(b[1])<<24 | uint32(b[2])<<16 | uint32(b[3])<<8 | uint32(b[4]))
					if l < 4 || len(b) < 1+l {
						got = append(got, '?')
						break
					}
					got = append(got, b[0])
					b = b[1+l:]
				}
				c.out.line(sx("c10huge", 960000+2*si+min(L, 1), "streamed", sx("limit", L), sx("size", n), sx("want", []byte("EZZTDCZ")), sx("got", got), sx("hang", hang), sx("panic", o.panicv != "")))
				c.stat("class_streamed")
			}
		}
	}
}

func runC10(c *runCfg) error {
	if c.replay != "" {
		if b, err := os.ReadFile(c.replay); err == nil && bytes.Contains(b, []byte("(tlsobs ")) {
			runC10TLS(c, tlsOnly(c))
			return nil
		} else if err == nil && bytes.Contains(b, []byte("(c14 ")) {
			return replayC14(c)
		} else if err == nil && bytes.Contains(b, []byte("(c10huge ")) {
			runC10streamed(c)
			return nil
		}
		return replaySessions(c)
	}
	runC10TLS(c, nil)
	runC10copyrows(c)
	id := 0
	limits := []int{1, 2, 5, 8, 15, 16, 40}
	if c.tier == "thorough" {
		limits = nil
		for l := 1; l <= 40; l++ {
			limits = append(limits, l)
		}
		limits = append(limits, 4095, 4096, 4097)
	}
	types := []byte{'Q', 'P', 'B', 'D', 'E', 'C', 'H', 'S', 'X', 'd', 'c', 'f', 'z'}
	for _, L := range limits {
		cfg := simpleCfg(L)
		// the startup packet has to fit the limit as well: below 23 bytes the client sends no parameters (a body of 5 bytes)
		su := stdStartup
		if L < len(stdStartup)-4 {
			su = startupMsg()
		}
		// the follow-up messages must fit the limit: Sync and Flush have empty bodies
		max := L + 70
		if L > 1000 {
			max = L + 3
		}
		for _, t := range types {
			if c.tier != "thorough" && t != 'Q' && t != 'P' && t != 'S' && t != 'H' && t != 'z' && t != 'E' {
				continue
			}
			lo := 0
			if L > 1000 {
				lo = L - 2
			}
			for n := lo; n <= max; n++ {
				body := make([]byte, n)
				for i := range body {
					body[i] = byte('a' + i%26)
				}
				if n > 0 {
					body[n-1] = 0
				}
				m := msg(t, body)
				for pos := 0; pos < 3; pos++ {
					if c.tier != "thorough" && pos != (n+int(t))%3 {
						continue
					}
					msgs := [][]byte{mSync(), mFlush(), mSync()}
					msgs[pos] = m
					msgs = append(msgs, mSync())
					emitSession(c, lockCase(id, "boundary", cfg, su, msgs))
					id++
				}
			}
			// declared lengths below the minimum: 0..3 (the stream continues after the length field)
			for dl := 0; dl < 4; dl++ {
				emitSession(c, lockCase(id, "badlen", cfg, su, [][]byte{msgLen(t, uint32(dl), nil), mSync()}))
				id++
			}
			// the same and oversized messages with their followers in ONE client write (pipelined): the rejected message is
			// skipped in exactly its declared length, whatever else has already arrived behind it
			for dl := 0; dl < 4; dl++ {
				emitSession(c, flatCase(id, "pipelined_badlen", cfg, cat(su, msgLen(t, uint32(dl), nil), mSync(), mFlush(), mSync()), nil))
				id++
			}
			for _, extra := range []int{1, 7, 40} {
				body := bytes.Repeat([]byte{'x'}, L+extra)
				body[len(body)-1] = 0
				emitSession(c, flatCase(id, "pipelined_oversize", cfg, cat(su, msg(t, body), mSync(), mFlush(), mSync()), nil))
				id++
			}
			// huge declared lengths with truncated input
			for _, dl := range []uint32{0x7fffffff, 0x80000000, 0x80000003, 0xffffffff, 0xfffffffb} {
				emitSession(c, flatCase(id, "huge", cfg, cat(su, msgLen(t, dl, []byte("abc")), mSync()), nil))
				id++
			}
		}
		// exceeding messages while skipping to the next Sync, and after an exceeding extended message
		for _, t1 := range []byte{'P', 'B', 'E', 'C', 'H'} {
			for _, t2 := range types {
				if c.tier != "thorough" && (int(t1)+int(t2)+L)%3 != 0 {
					continue
				}
				body := make([]byte, L+9)
				// the skipped body looks like protocol messages: it must not be interpreted
				copy(body, cat(mSync(), mQuery([]byte("select 1")))[:min(L+9, 5+5+13)])
				msgs := [][]byte{msg(t1, make([]byte, L+3)), msg(t2, body), mFlush(), mSync(), mQuery([]byte("select 1"))}
				emitSession(c, lockCase(id, "discarding", cfg, su, msgs))
				id++
			}
		}
		// the Sync that ends a failed batch is itself above the limit: it is refused, but it is still the end of the
		// batch — what follows it is processed normally (also when the batch failed on an ordinary error)
		for _, first := range [][]byte{msg('P', make([]byte, L+3)), mExecute([]byte("nosuch"), 0), mBind(nil, []byte("nosuch"), nil, nil, nil)} {
			if len(first)-5 > L && first[0] != 'P' {
				continue
			}
			for _, after := range [][][]byte{{mQuery([]byte("select 1"))}, {mFlush(), mQuery([]byte("select 1"))}, {mParse(nil, []byte("select 1"), 0), mSync()}, {mSync(), mQuery([]byte("select 1"))}} {
				fits := true
				for _, m := range after {
					if len(m)-5 > L {
						fits = false
					}
				}
				if !fits {
					continue
				}
				msgs := append([][]byte{first, msg('S', make([]byte, L+1+len(after)))}, after...)
				emitSession(c, lockCase(id, "oversized_sync", cfg, su, msgs))
				id++
			}
		}
		// Sync / Flush with a body inside a COPY (within and above the limit)
		if L >= 40 || L == 16 {
			bcfg, hs := copyBodyCases(L)
			for _, h := range hs {
				fits := true
				for _, m := range h[:len(h)-1] {
					if len(m)-5 > L && m[0] != 'S' && m[0] != 'H' {
						fits = false
					}
				}
				if fits {
					emitSession(c, lockCase(id, "copy_bodies", bcfg, su, h))
					id++
				}
			}
		}
		// the skipped region split over several reads
		big := msg('Q', make([]byte, 3*L+7))
		raw := cat(su, big, mSync())
		var chunks []int
		chunks = append(chunks, len(su))
		for i := 0; i < len(big)+5; i += 3 {
			chunks = append(chunks, 3)
		}
		emitSession(c, flatCase(id, "split", cfg, raw, chunks))
		id++
		// oversize during startup / authentication: connection ends, no reply
		emitSession(c, flatCase(id, "startup", cfg, cat(be32b(uint32(L+4+300)), make([]byte, L+400)), nil))
		id++
		acfg := simpleCfg(L + 30)
		acfg.auth = "accept"
		emitSession(c, flatCase(id, "auth", acfg, cat(su, msg('p', make([]byte, L+31)), mSync()), nil))
		id++
	}
	// the startup packet obeys the same limit: bodies up to the limit are served whatever their size
	// (typical hard-coded caps: 4096, 8192, 10000, 16384, 65536), above it the connection ends
	for _, L := range []int{0, -1, 12000, 65536, 200000} {
		cfg := simpleCfg(L)
		eff := L
		if eff <= 0 {
			eff = 1 << 24
		}
		sizes := []int{4000, 4097, 8193, 10000, 10001, 16385, 65535, 65537, 131073}
		for _, n := range sizes {
			if n > eff+1000 {
				continue
			}
			// version + "user\0u\0options\0<pad>\0" + terminator = n bytes of body
			pad := n - (4 + 5 + 2 + 8 + 1 + 1)
			if pad < 0 {
				continue
			}
			su := startupMsg("user", "u", "options", strings.Repeat("o", pad))
			emitSession(c, lockCase(id, "startup_size", cfg, su, [][]byte{mQuery([]byte("select 1")), mTerminate()}))
			id++
		}
		for _, n := range []int{eff - 1, eff, eff + 1} {
			if n > 300000 {
				continue
			}
			pad := n - (4 + 5 + 2 + 8 + 1 + 1)
			su := startupMsg("user", "u", "options", strings.Repeat("o", pad))
			emitSession(c, lockCase(id, "startup_limit", cfg, su, [][]byte{mQuery([]byte("select 1")), mTerminate()}))
			id++
		}
	}
	runC10streamed(c)
	if c.tier == "thorough" {
		// default limit (non-positive setting): 16 MiB
		for _, L := range []int{0, -1} {
			cfg := simpleCfg(L)
			for _, n := range []int{1 << 24, 1<<24 + 1} {
				body := make([]byte, n)
				body[n-1] = 0
				emitSession(c, lockCase(id, "default", cfg, stdStartup, [][]byte{msg('Q', body), mSync()}))
				id++
			}
		}
	}
	return nil
}

// ---------------- C19 ----------------
func init() { runners["C19"] = runC19 }

// several servers created from one option list: the option values of the later middlewares are the same Go values
// for every server (an application builds "common options" once), the first middleware differs per server.
// A connection of either server runs that server's own chain, in registration order.
func runC19shared(c *runCfg, idp *int) {
	for _, nmw := range []int{2, 3, 4} {
		for _, served := range []int{0, 1, 2} {
			reg := &registry{recs: map[string]*recorder{}}
			var cases []*caseT
			for k := 0; k < 3; k++ {
				cfg := simpleCfg(256)
				cfg.tag = k + 1
				cfg.shareMw = true
				for i := 0; i < nmw; i++ {
					cfg.mws = append(cfg.mws, true)
				}
				cs := lockCase(*idp, "shared_options", cfg, stdStartup, [][]byte{mQuery([]byte("select 1")), mParse(nil, []byte("select 1"), 0), mSync(), mTerminate()})
				cases = append(cases, cs)
			}
			// all servers are configured (in order) before any connection is served
			var srvs []*wire.Server
			for _, cs := range cases {
				srv, err := buildServer(&cs.cfg, reg)
				if err != nil {
					panic(err)
				}
				srvs = append(srvs, srv)
			}
			cs := cases[served]
			conn, rec := newSession(cs, reg)
			o := driveSession(cs, conn, rec, srvs[served])
			c.out.line("(sess " + cs.id + " " + cs.class + " " + cs.sxHead() + " " + o.sx(false) + ")")
			c.stat("class_" + cs.class)
			*idp++
		}
	}
}

// the lifecycle inside TLS: middlewares before the first ReadyForQuery, the terminate hook once, and Terminate closes
// the connection — the secure one, with its closing record — like the plaintext one
func runC19TLS(c *runCfg, only map[string]bool) {
	id := 7100000
	for k := 0; k < 6; k++ {
		cfg := simpleCfg(1024)
		cfg.tls = true
		cfg.mws = []bool{true, true}[:k%3]
		cfg.term = []string{"none", "ok", "err"}[k%3]
		msgs := [][]byte{startupMsg("user", "u"), mQuery([]byte("select 1"))}
		if k%2 == 1 {
			msgs = append(msgs, mParse(nil, []byte("select 1"), 0), mBind(nil, nil, nil, nil, nil), mExecute(nil, 0), mSync())
		}
		msgs = append(msgs, mTerminate())
		emitTLS(c, only, &id, "tls_terminate", cfg, sslRequest(), nil, msgs, "")
	}
}

func runC19(c *runCfg) error {
	if c.replay != "" {
		if b, err := os.ReadFile(c.replay); err == nil && bytes.Contains(b, []byte("(tlsobs ")) {
			runC19TLS(c, tlsOnly(c))
			return nil
		}
		if b, err := os.ReadFile(c.replay); err == nil && bytes.Contains(b, []byte(" shared_options ")) {
			id := 0
			runC19shared(c, &id)
			return nil
		}
		return replaySessions(c)
	}
	g := &gen{rng: c.rng}
	runC19TLS(c, nil)
	id := 700000
	runC19shared(c, &id)
	// a connection set up while the server is closing (accepted just before Close): as long as it is served up to a
	// ReadyForQuery, the middlewares run — once, in order, before it — and a failing one ends the connection
	for nm := 1; nm <= 3; nm++ {
		for fail := -1; fail < nm; fail++ {
			for _, auth := range []string{"none", "pw"} {
				cfg := simpleCfg(256)
				for i := 0; i < nm; i++ {
					cfg.mws = append(cfg.mws, i != fail)
				}
				cfg.auth = auth
				cfg.authPW = []byte("secret")
				msgs := [][]byte{mQuery([]byte("select 1")), mTerminate()}
				if auth != "none" {
					msgs = append([][]byte{mPassword([]byte("secret"))}, msgs...)
				}
				cs := lockCase(id, "closing", cfg, startupMsg("user", "late"), msgs)
				if auth != "none" {
					cs.pre = 2
				}
				reg := &registry{recs: map[string]*recorder{}}
				conn, rec := newSession(cs, reg)
				srv, err := buildServer(&cs.cfg, reg)
				if err != nil {
					panic(err)
				}
				srv.Close()
				o := driveSession(cs, conn, rec, srv)
				c.out.line("(sess " + cs.id + " " + cs.class + " " + cs.sxHead() + " (serverclosed 1) " + o.sx(false) + ")")
				c.stat("class_closing")
				id++
			}
		}
	}
	id = 0
	hist := [][][]byte{
		{mQuery([]byte("select 1"))},
		{mParse(nil, []byte("select 1"), 0), mBind(nil, nil, nil, nil, nil), mExecute(nil, 0), mSync()},
		{},
		{mQuery([]byte("select 1")), mQuery([]byte("select 1"))},
	}
	after := [][][]byte{
		{},
		{mQuery([]byte("select 1"))},
		{mTerminate(), mQuery([]byte("select 1"))},
		{mParse(nil, []byte("select 1"), 0), mBind(nil, nil, nil, nil, nil), mExecute(nil, 0), mSync()},
	}
	for nm := 0; nm <= 5; nm++ {
		for fail := -1; fail < nm; fail++ {
			for _, term := range []string{"none", "ok", "err"} {
				for hi, h := range hist {
					for ai, a := range after {
						if c.tier != "thorough" && (nm+hi+ai+fail)%2 != 0 {
							continue
						}
						cfg := simpleCfg(256)
						for i := 0; i < nm; i++ {
							cfg.mws = append(cfg.mws, i != fail)
						}
						cfg.term = term
						msgs := append(append([][]byte{}, h...), mTerminate())
						msgs = append(msgs, a...)
						// pipelined: everything in one segment
						raw := append([]byte{}, stdStartup...)
						for _, m := range msgs {
							raw = append(raw, m...)
						}
						emitSession(c, flatCase(id, "pipelined", cfg, raw, nil))
						id++
						emitSession(c, lockCase(id, "lockstep", cfg, stdStartup, msgs))
						id++
					}
				}
			}
		}
	}
	// several connections on one server: every callback must see its own connection's context
	rounds := 30
	if c.tier == "thorough" {
		rounds = 500
	}
	for r := 0; r < rounds; r++ {
		cfg := simpleCfg(256)
		cfg.params = [][2][]byte{{[]byte("application_name"), []byte("verif")}}
		for k := g.rng.Intn(3); k > 0; k-- {
			cfg.mws = append(cfg.mws, true)
		}
		cfg.term = g.pick("none", "ok")
		var cases []*caseT
		for k := 0; k < 2+g.rng.Intn(3); k++ {
			su := startupMsg("user", fmt.Sprintf("user%d", k), "database", "db")
			cs := lockCase(0, "concurrent", cfg, su, [][]byte{mQuery([]byte("select 1")), mParse(nil, []byte("select 1"), 0), mBind(nil, nil, nil, nil, nil), mExecute(nil, 0), mSync(), mTerminate()})
			cs.id = fmt.Sprintf("%d.%d", id, k)
			cases = append(cases, cs)
		}
		emitMulti(c, "concurrent", cases, g.schedule(cases), false)
		id++
	}
	// terminate inside discard mode, random histories
	n := 200
	if c.tier == "thorough" {
		n = 5000
	}
	for i := 0; i < n; i++ {
		cfg := g.baseCfg()
		for k := g.rng.Intn(4); k > 0; k-- {
			cfg.mws = append(cfg.mws, g.chance(0.85))
		}
		cfg.term = g.pick("none", "ok", "err")
		var msgs [][]byte
		for k := g.rng.Intn(6); k > 0; k-- {
			msgs = append(msgs, g.clientMsg(&cfg))
		}
		msgs = append(msgs, mTerminate())
		for k := g.rng.Intn(3); k > 0; k-- {
			msgs = append(msgs, g.clientMsg(&cfg))
		}
		if g.chance(0.5) {
			emitSession(c, lockCase(id, "random", cfg, stdStartup, msgs))
		} else {
			raw := append([]byte{}, stdStartup...)
			for _, m := range msgs {
				raw = append(raw, m...)
			}
			emitSession(c, flatCase(id, "random", cfg, raw, nil))
		}
		id++
	}
	return nil
}
