package main

import (
	"sync/atomic"
	"bufio"
	"fmt"
	"os"
	"strings"
)

// emitSession runs the case on the real server and writes case + observation.
func emitSession(c *runCfg, cs *caseT) {
	// every hanging connection costs the full idle timeout: once several cases hung (each of them is
	// reported as a violation) the remaining cases of the run are not started any more
	if hangTotal.Load() >= maxHangs {
		c.stat("skipped_after_hangs")
		return
	}
	setInflight("(sess " + cs.id + " " + cs.class + " " + cs.sxHead() + ")")
	o := runSession(cs)
	if o.hang {
		hangTotal.Add(1)
	}
	c.out.line("(sess " + cs.id + " " + cs.class + " " + cs.sxHead() + " " + o.sx(isSSLRequest(cs.raw)) + ")")
	c.stat("class_" + cs.class)
	if o.hang {
		c.stat("hang")
	}
	if o.panicv != "" {
		c.stat("panic")
	}
}

// replaySessions re-runs the cases of a replay file on the current tree; the
// connections of a multi-connection case are run together again.
func replaySessions(c *runCfg) error {
	f, err := os.Open(c.replay)
	if err != nil {
		return err
	}
	defer f.Close()
	sc := bufio.NewScanner(f)
	sc.Buffer(make([]byte, 1<<20), 1<<28)
	type member struct {
		idx int
		cs  *caseT
	}
	groups := map[string][]member{}
	meta := map[string]*node{}
	var order []string
	for sc.Scan() {
		l := sc.Text()
		if !strings.HasPrefix(l, "(sess ") {
			continue
		}
		n, err := parseSexp(l)
		if err != nil {
			return err
		}
		cs := caseFrom(n)
		m := n.field("multi")
		if f := n.field("serverclosed"); f != nil && m == nil {
			// the server had been closed before the connection was served
			reg := &registry{recs: map[string]*recorder{}}
			conn, rec := newSession(cs, reg)
			srv, err := buildServer(&cs.cfg, reg)
			if err != nil {
				return err
			}
			srv.Close()
			o := driveSession(cs, conn, rec, srv)
			c.out.line("(sess " + cs.id + " " + cs.class + " " + cs.sxHead() + " (serverclosed 1) " + o.sx(isSSLRequest(cs.raw)) + ")")
			continue
		}
		if m == nil {
			emitSession(c, cs)
			continue
		}
		g := cs.id
		if i := strings.IndexByte(g, '.'); i >= 0 {
			g = g[:i]
		}
		if _, ok := groups[g]; !ok {
			order = append(order, g)
			meta[g] = m
		}
		groups[g] = append(groups[g], member{idx: atoi(m.list[1].atom), cs: cs})
	}
	for _, g := range order {
		ms := groups[g]
		m := meta[g]
		n := atoi(m.list[2].atom)
		free := m.list[3].atom == "1"
		cases := make([]*caseT, n)
		for _, mem := range ms {
			if mem.idx < n {
				cases[mem.idx] = mem.cs
			}
		}
		complete := true
		for _, cs := range cases {
			if cs == nil {
				complete = false
			}
		}
		if !complete { // not all connections of the group are in the file: run what is there alone
			for _, mem := range ms {
				emitSession(c, mem.cs)
			}
			continue
		}
		var sched []int
		for _, k := range m.field("sched").list[1:] {
			sched = append(sched, atoi(k.atom))
		}
		emitMulti(c, "replay", cases, sched, free)
	}
	return sc.Err()
}

func init() { runners["SESS"] = runSESS }

// a random session: startup, then a random message sequence
func (g *gen) randomSession(id int, class string) *caseT {
	cfg := g.baseCfg()
	cs := &caseT{id: fmt.Sprint(id), class: class, cfg: cfg}
	raw := startupMsg("user", "u", "database", "d")
	n := 1 + g.rng.Intn(10)
	var chunks []int
	chunks = append(chunks, len(raw))
	for i := 0; i < n; i++ {
		m := g.clientMsg(&cs.cfg)
		raw = append(raw, m...)
		chunks = append(chunks, len(m))
	}
	cs.raw = raw
	switch g.rng.Intn(3) {
	case 0:
		cs.chunks = chunks
		cs.lock = true
	case 1:
		cs.chunks = nil
	case 2:
		for i := 0; i < len(raw) && i < 400; i++ {
			cs.chunks = append(cs.chunks, 1)
		}
	}
	return cs
}

func runSESS(c *runCfg) error {
	if c.replay != "" {
		return replaySessions(c)
	}
	g := &gen{rng: c.rng}
	n := 2000
	if c.tier == "thorough" {
		n = 40000
	}
	for i := 0; i < n; i++ {
		emitSession(c, g.randomSession(i, "random"))
	}
	return nil
}

// number of connections which did not finish within the idle timeout in this run
var hangTotal atomic.Int64

const maxHangs = 6
