package main

import (
	"bufio"
	"fmt"
	"os"
	"strings"
)

// emitSession runs the case on the real server and writes case + observation.
func emitSession(c *runCfg, cs *caseT) {
	o := runSession(cs)
	c.out.line("(sess " + cs.id + " " + cs.class + " " + cs.sxHead() + " " + o.sx(isSSLRequest(cs.raw)) + ")")
	c.stat("class_" + cs.class)
	if o.hang {
		c.stat("hang")
	}
	if o.panicv != "" {
		c.stat("panic")
	}
}

// replaySessions re-runs the cases of a replay file on the current tree.
func replaySessions(c *runCfg) error {
	f, err := os.Open(c.replay)
	if err != nil {
		return err
	}
	defer f.Close()
	sc := bufio.NewScanner(f)
	sc.Buffer(make([]byte, 1<<20), 1<<28)
	for sc.Scan() {
		l := sc.Text()
		if !strings.HasPrefix(l, "(sess ") {
			continue
		}
		n, err := parseSexp(l)
		if err != nil {
			return err
		}
		emitSession(c, caseFrom(n))
	}
	return sc.Err()
}

func init() { runners["SESS"] = runSESS }

// a random session: startup, then a random message sequence
func (g *gen) randomSession(id int, class string) *caseT {
	cfg := g.baseCfg()
	cs := &caseT{id: fmt.Sprint(id), class: class, cfg: cfg}
	raw := startupMsg("user", "u", "database", "d")
	n := 1 + g.rng.Intn(10)
	var chunks []int
	chunks = append(chunks, len(raw))
	for i := 0; i < n; i++ {
		m := g.clientMsg(&cs.cfg)
		raw = append(raw, m...)
		chunks = append(chunks, len(m))
	}
	cs.raw = raw
	switch g.rng.Intn(3) {
	case 0:
		cs.chunks = chunks
		cs.lock = true
	case 1:
		cs.chunks = nil
	case 2:
		for i := 0; i < len(raw) && i < 400; i++ {
			cs.chunks = append(cs.chunks, 1)
		}
	}
	return cs
}

func runSESS(c *runCfg) error {
	if c.replay != "" {
		return replaySessions(c)
	}
	g := &gen{rng: c.rng}
	n := 2000
	if c.tier == "thorough" {
		n = 40000
	}
	for i := 0; i < n; i++ {
		emitSession(c, g.randomSession(i, "random"))
	}
	return nil
}
