package main

import (
	"crypto/ecdsa"
	"crypto/elliptic"
	"crypto/rand"
	"crypto/tls"
	"crypto/x509"
	"crypto/x509/pkix"
	"math/big"
	"sync"
	"time"
)

var (
	certOnce sync.Once
	certVal  tls.Certificate
)

// testCert generates a self-signed ECDSA certificate in memory.
func testCert() tls.Certificate {
	certOnce.Do(func() {
		key, err := ecdsa.GenerateKey(elliptic.P256(), rand.Reader)
		if err != nil {
			panic(err)
		}
		tmpl := &x509.Certificate{
			SerialNumber: big.NewInt(1),
			Subject:      pkix.Name{CommonName: "verif"},
			NotBefore:    time.Now().Add(-time.Hour),
			NotAfter:     time.Now().Add(24 * time.Hour),
			KeyUsage:     x509.KeyUsageDigitalSignature,
			ExtKeyUsage:  []x509.ExtKeyUsage{x509.ExtKeyUsageServerAuth},
			DNSNames:     []string{"verif"},
		}
		der, err := x509.CreateCertificate(rand.Reader, tmpl, tmpl, &key.PublicKey, key)
		if err != nil {
			panic(err)
		}
		certVal = tls.Certificate{Certificate: [][]byte{der}, PrivateKey: key}
	})
	return certVal
}
