package main

import (
	"bytes"
	"os"
	"fmt"
)

// emitMulti runs the cases concurrently on ONE server and writes one
// observation line per connection; each line is judged like a solo session
// (the model of a connection does not depend on other connections).
func emitMulti(c *runCfg, class string, cases []*caseT, schedule []int, free bool) {
	for _, cs := range cases {
		cs.class = class
	}
	if hangTotal.Load() >= maxHangs {
		c.stat("skipped_after_hangs")
		return
	}
	obs := runMulti(cases, schedule, free)
	for i, cs := range cases {
		if obs[i].hang {
			hangTotal.Add(1)
		}
		if free {
			cs.lock = false
		}
		sch := []any{"sched"}
		for _, k := range schedule {
			sch = append(sch, k)
		}
		multi := sx("multi", i, len(cases), free, sx(sch...))
		c.out.line("(sess " + cs.id + " " + cs.class + " " + cs.sxHead() + " " + multi + " " + obs[i].sx(isSSLRequest(cs.raw)) + ")")
		c.stat("class_" + class)
		if obs[i].hang {
			c.stat("hang")
		}
		if obs[i].panicv != "" {
			c.stat("panic")
		}
	}
	c.stat(fmt.Sprintf("connections_%d", len(cases)))
	// C15: "equal what the same client traffic produces on a server that serves it alone" — the same traffic is
	// served alone by a server of its own (the real one), the two transcripts are compared by the driver
	if multiAlone && !free {
		for _, cs := range cases {
			if hangTotal.Load() >= maxHangs {
				return
			}
			solo := *cs
			solo.id = cs.id + ".alone"
			o := runSession(&solo)
			if o.hang {
				hangTotal.Add(1)
			}
			c.out.line("(sess " + solo.id + " " + solo.class + " " + solo.sxHead() + " " + o.sx(isSSLRequest(solo.raw)) + ")")
			c.stat("class_" + class + "_alone")
		}
	}
}

// set by the C15 runner: every lock-step multi-connection case is followed by solo runs of its connections
var multiAlone bool

func (g *gen) schedule(cases []*caseT) []int {
	var s []int
	for i, cs := range cases {
		for range cs.chunks {
			s = append(s, i)
		}
	}
	g.rng.Shuffle(len(s), func(a, b int) { s[a], s[b] = s[b], s[a] })
	return s
}

// scheduleLen: one entry per chunk of the cases (the length of any schedule for them)
func (g *gen) scheduleLen(cases []*caseT) []int {
	var s []int
	for i, cs := range cases {
		for range cs.chunks {
			s = append(s, i)
		}
	}
	return s
}

// sessions for one shared configuration: every connection uses the same
// statement/portal names, a different user, and its own message sequence
func (g *gen) multiCases(id int, cfg cfgT, n int, msgsPer int) []*caseT {
	var out []*caseT
	for k := 0; k < n; k++ {
		su := startupMsg("user", fmt.Sprintf("user%d", k), "database", "db", "application_name", fmt.Sprintf("app%d", k))
		var msgs [][]byte
		for j := 0; j < msgsPer; j++ {
			msgs = append(msgs, g.clientMsg(&cfg))
		}
		msgs = append(msgs, mSync())
		if cfg.auth != "none" {
			// the password travels in its own segment: other connections start up in between
			msgs = append([][]byte{mPassword(cfg.authPW)}, msgs...)
		}
		cs := lockCase(0, "multi", cfg, su, msgs)
		if cfg.auth != "none" {
			cs.pre = 2
		}
		cs.id = fmt.Sprintf("%d.%d", id, k)
		out = append(out, cs)
	}
	return out
}

// ---------------- C15 ----------------
func init() { runners["C15"] = runC15 }

// a connection that upgrades to TLS next to a client that stalls in the middle of ITS upgrade is served as if alone
func runC15TLS(c *runCfg, only map[string]bool) {
	id := 7200000
	tlsBeside = true
	defer func() { tlsBeside = false }()
	for k := 0; k < 3; k++ {
		cfg := simpleCfg(1024)
		cfg.tls = true
		if k == 1 {
			cfg.auth = "pw"
			cfg.authPW = []byte("secret")
		}
		msgs := [][]byte{startupMsg("user", "u")}
		if cfg.auth != "none" {
			msgs = append(msgs, mPassword([]byte("secret")))
		}
		msgs = append(msgs, mQuery([]byte("select 1")), mParse(nil, []byte("select 1"), 0), mBind(nil, nil, nil, nil, nil), mExecute(nil, 0), mSync(), mTerminate())
		emitTLS(c, only, &id, "beside_stalled_tls", cfg, sslRequest(), nil, msgs, "")
	}
}

func runC15(c *runCfg) error {
	multiAlone = true
	if c.replay != "" {
		if b, err := os.ReadFile(c.replay); err == nil && bytes.Contains(b, []byte("(tlsobs ")) {
			runC15TLS(c, tlsOnly(c))
			return nil
		}
	} else {
		runC15TLS(c, nil)
	}
	if c.replay != "" {
		return replaySessions(c)
	}
	g := &gen{rng: c.rng}
	rounds := 60
	if c.tier == "thorough" {
		rounds = 1500
	}
	// messages above the 4 KiB granule of the read buffer, same statement and portal names on every connection:
	// what a connection bound is what it executes, whatever large messages the others send in between
	bigRounds := 12
	if c.tier == "thorough" {
		bigRounds = 200
	}
	for r := 0; r < bigRounds; r++ {
		cfg := g.baseCfg()
		cfg.limit = 20000
		q := cfg.parse[len(cfg.parse)-1].query
		cfg.parse = append(cfg.parse, parseEntry{query: []byte("echo"), stmts: []stmtT{{id: 77, cols: textCols(1), poids: []int{25}, prog: []opT{{kind: "row", vals: []valT{tv("r")}}, {kind: "complete", tag: []byte("SELECT 1")}}, ret: "nil"}}})
		n := 2 + r%3
		var cases []*caseT
		for k := 0; k < n; k++ {
			val := bytes.Repeat([]byte{byte('A' + k)}, 4097+1000*k+r)
			msgs := [][]byte{mParse([]byte("s"), []byte("echo"), 0), mBind([]byte("p"), []byte("s"), nil, []bindP{{v: val}}, nil), mSync(),
				mQuery(append(append([]byte{}, q...), bytes.Repeat([]byte{' '}, 4200+k)...)), mExecute([]byte("p"), 0), mSync(), mDescribe('P', []byte("p")), mExecute([]byte("p"), 0), mSync()}
			cs := lockCase(0, "big_values", cfg, startupMsg("user", fmt.Sprintf("user%d", k)), msgs)
			cs.id = fmt.Sprintf("%d.%d", 900000+r, k)
			cases = append(cases, cs)
		}
		// bind everywhere first, then the large messages of all, then the executions (and random orders)
		var sched []int
		for phase := 0; phase < 3; phase++ {
			for k := 0; k < n; k++ {
				for j := 0; j < []int{4, 1, 5}[phase]; j++ {
					sched = append(sched, k)
				}
			}
		}
		if r%2 == 1 {
			sched = g.schedule(cases)
		}
		emitMulti(c, "big_values", cases, sched, false)
	}
	// "different row types": one wide table (its declared columns are one Go value for the whole server), every
	// connection binding its own result formats — equal on the first columns, different on some column far to the
	// right (beyond 32, 64, 128 columns): each portal is described and sent with ITS formats
	for r, ncols := range []int{33, 65, 70, 129, 300} {
		row := opT{kind: "row"}
		for i := 0; i < ncols; i++ {
			row.vals = append(row.vals, tv(fmt.Sprintf("v%d", i)))
		}
		st := stmtT{id: 90, cols: textCols(ncols), prog: []opT{row, {kind: "complete", tag: []byte("SELECT 1")}}, ret: "nil"}
		cfg := cfgT{limit: 1 << 16, auth: "none", term: "none", parse: []parseEntry{{query: []byte("wide"), stmts: []stmtT{st}}}}
		var cases []*caseT
		for k := 0; k < 3; k++ {
			rf := make([]int, ncols)
			if k > 0 {
				rf[ncols-k] = 1
			}
			msgs := [][]byte{mParse(nil, []byte("wide"), 0), mBind(nil, nil, nil, nil, rf), mDescribe('P', nil), mExecute(nil, 0), mSync(),
				mBind([]byte("again"), nil, nil, nil, rf), mDescribe('P', []byte("again")), mSync()}
			cs := lockCase(0, "wide_formats", cfg, startupMsg("user", fmt.Sprintf("user%d", k)), msgs)
			cs.id = fmt.Sprintf("%d.%d", 920000+r, k)
			cases = append(cases, cs)
		}
		sched := g.scheduleLen(cases)
		if r%2 == 1 {
			sched = g.schedule(cases)
		}
		emitMulti(c, "wide_formats", cases, sched, false)
	}
	// statements declared with WithParameters(ParseParameters(query)), the same query text prepared on several
	// connections, some of them with parameter types prespecified in the Parse message: what one connection
	// prespecifies shows up in no other connection's ParameterDescription
	for r := 0; r < 8; r++ {
		q := []byte([]string{"select $1, $2", "select ? where x = ?", "select $3"}[r%3])
		np := []int{2, 2, 3}[r%3]
		st := stmtT{id: 88, cols: textCols(1), poids: make([]int, np), prog: []opT{{kind: "row", vals: []valT{tv("r")}}, {kind: "complete", tag: []byte("SELECT 1")}}, ret: "nil"}
		cfg := cfgT{limit: 1024, auth: "none", term: "none", ppDeclare: true, parse: []parseEntry{{query: q, stmts: []stmtT{st}}}}
		var cases []*caseT
		for k := 0; k < 3; k++ {
			pm := mParse([]byte("s"), q, 0)
			if k == r%3 {
				pm = mParseOids([]byte("s"), q, []uint32{20, 23, 1043}[:1+(r+k)%3])
			}
			cs := lockCase(0, "pp_shared", cfg, startupMsg("user", fmt.Sprintf("user%d", k)), [][]byte{pm, mDescribe('S', []byte("s")), mSync(), mParse(nil, q, 0), mDescribe('S', nil), mSync()})
			cs.id = fmt.Sprintf("%d.%d", 910000+r, k)
			cases = append(cases, cs)
		}
		sched := g.scheduleLen(cases)
		if r%2 == 1 {
			sched = g.schedule(cases)
		}
		emitMulti(c, "pp_shared", cases, sched, false)
	}
	for id := 0; id < rounds; id++ {
		cfg := g.baseCfg()
		cfg.params = [][2][]byte{{[]byte("application_name"), []byte("verif")}}
		if g.chance(0.3) {
			cfg.mws = []bool{true, true}
		}
		if id%3 == 1 {
			// password authentication: the connections overlap inside the authentication phase as well
			cfg.auth = []string{"pw", "accept"}[(id/3)%2]
			cfg.authPW = []byte("shared secret")
		}
		n := 2 + g.rng.Intn(7)
		if id%10 == 9 {
			n = 16
		}
		cases := g.multiCases(id, cfg, n, 3+g.rng.Intn(8))
		switch {
		case id%2 == 0:
			emitMulti(c, "interleaved", cases, g.schedule(cases), false)
		case id%4 == 1:
			emitMulti(c, "parallel", cases, nil, true)
		default:
			// through the real accept loop: all connections are waiting in the listener at once
			emitMulti(c, "listener_burst", cases, nil, true)
		}
	}
	return nil
}
