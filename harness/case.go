package main

import (
	"encoding/hex"
	"fmt"
	"strconv"
	"strings"
)

// ---- generic S-expression tree (reader side, for replays) ----
type node struct {
	atom string
	list []*node
	leaf bool
}

func parseSexp(s string) (*node, error) {
	pos := 0
	var item func() (*node, error)
	skip := func() {
		for pos < len(s) && (s[pos] == ' ' || s[pos] == '\t' || s[pos] == '\n') {
			pos++
		}
	}
	item = func() (*node, error) {
		skip()
		if pos >= len(s) {
			return nil, fmt.Errorf("sexp: eof")
		}
		if s[pos] == '(' {
			pos++
			n := &node{}
			for {
				skip()
				if pos >= len(s) {
					return nil, fmt.Errorf("sexp: unclosed")
				}
				if s[pos] == ')' {
					pos++
					return n, nil
				}
				c, err := item()
				if err != nil {
					return nil, err
				}
				n.list = append(n.list, c)
			}
		}
		st := pos
		for pos < len(s) && s[pos] != ' ' && s[pos] != '(' && s[pos] != ')' && s[pos] != '\n' {
			pos++
		}
		return &node{atom: s[st:pos], leaf: true}, nil
	}
	return item()
}

func (n *node) field(tag string) *node {
	for _, c := range n.list {
		if !c.leaf && len(c.list) > 0 && c.list[0].leaf && c.list[0].atom == tag {
			return c
		}
	}
	return nil
}
func (n *node) head() string {
	if n.leaf {
		return n.atom
	}
	if len(n.list) > 0 && n.list[0].leaf {
		return n.list[0].atom
	}
	return ""
}
func unhx(a string) []byte {
	b, err := hex.DecodeString(a[1:])
	if err != nil {
		panic(err)
	}
	return b
}
func atoi(a string) int { v, _ := strconv.Atoi(a); return v }

// ---- the case language (mirrors coq/Wire/Session.v) ----
type errT struct {
	kind  string // base wrap code sev hint detail source constraint
	a, b  []byte
	line  int
	inner *errT
	inner2 *errT // kind "join": errors.Join(inner, inner2)
}

type valT struct {
	kind string // nil nilptr invalid text int2 int4 int8 bool bytea unenc
	b    []byte
	n    int64
}

type opT struct {
	kind string // row written empty complete copyin copyread
	vals []valT
	tag  []byte
	fmt  int
}

type colT struct {
	name                    []byte
	table, attr, oid, width int
}

type stmtT struct {
	id    int
	cols  []colT
	poids []int
	prog  []opT
	stop  bool
	ret   string // nil last err
	rerr  *errT
}

type parseEntry struct {
	query []byte
	err   *errT
	stmts []stmtT
}

type cfgT struct {
	limit    int
	auth     string // none | pw | accept | reject | fail
	authPW   []byte
	params   [][2][]byte
	version  []byte
	tls      bool
	ppDeclare bool // statements whose parameter types are all unspecified are declared with wire.ParseParameters(query) itself
	tag      int  // which server of a group this configuration builds (several servers from one option list)
	shareMw  bool // middlewares 1.. are option VALUES shared with the other servers of the group
	tlsEmpty int // without certificates: 0 no TLS configuration at all, 1 an empty configuration, 2 an empty non-nil certificate list, 3 a pre-sized empty list
	mws      []bool
	term     string // none ok err
	parse    []parseEntry
	isolated bool
}

type caseT struct {
	id     string
	class  string
	cfg    cfgT
	raw    []byte
	tls    []byte
	hasTLS bool
	chunks []int // delivery: sizes of the segments of raw (rest in one piece)
	lock   bool  // lockstep delivery: wait for idle between chunks
	pre    int   // number of leading chunks that belong to the startup exchange (default 1)
}

func (e *errT) sx() string {
	switch e.kind {
	case "base":
		return sx("base", e.a)
	case "wrap":
		return sx("wrap", e.a, e.b, e.inner.sx())
	case "source":
		return sx("source", e.a, e.line, e.b, e.inner.sx())
	case "join":
		return sx("join", e.inner.sx(), e.inner2.sx())
	default:
		return sx(e.kind, e.a, e.inner.sx())
	}
}

func (v valT) sx() string {
	switch v.kind {
	case "nil", "nilptr", "invalid", "unenc":
		return v.kind
	case "text", "bytea", "uuid":
		return sx(v.kind, v.b)
	case "float4", "float8":
		return sx(v.kind, uint64(v.n))
	default:
		return sx(v.kind, v.n)
	}
}

func (o opT) sx() string {
	switch o.kind {
	case "row":
		parts := []any{"row"}
		for _, v := range o.vals {
			parts = append(parts, v.sx())
		}
		return sx(parts...)
	case "complete":
		return sx("complete", o.tag)
	case "copyin":
		return sx("copyin", o.fmt)
	default:
		return o.kind
	}
}

func (s stmtT) sx() string {
	cols := []any{"cols"}
	for _, c := range s.cols {
		cols = append(cols, sx(c.name, c.table, c.attr, c.oid, c.width))
	}
	po := []any{"poids"}
	for _, p := range s.poids {
		po = append(po, p)
	}
	prog := []any{"prog"}
	for _, o := range s.prog {
		prog = append(prog, o.sx())
	}
	var ret string
	switch s.ret {
	case "err":
		ret = sx("ret", sx("err", s.rerr.sx()))
	default:
		ret = sx("ret", s.ret)
	}
	return sx("stmt", s.id, sx(cols...), sx(po...), sx(prog...), sx("stop", s.stop), ret)
}

func (c cfgT) sx() string {
	var auth string
	if c.auth == "none" {
		auth = sx("auth", "none")
	} else {
		auth = sx("auth", c.auth, c.authPW)
	}
	ps := []any{"params"}
	for _, kv := range c.params {
		ps = append(ps, sx(kv[0], kv[1]))
	}
	mws := []any{"mws"}
	for _, m := range c.mws {
		mws = append(mws, m)
	}
	pt := []any{"parse"}
	for _, e := range c.parse {
		if e.err != nil {
			pt = append(pt, sx(e.query, sx("err", e.err.sx())))
		} else {
			ss := []any{"stmts"}
			for _, s := range e.stmts {
				ss = append(ss, s.sx())
			}
			pt = append(pt, sx(e.query, sx(ss...)))
		}
	}
	return sx("cfg", sx("limit", c.limit), auth, sx(ps...), sx("version", c.version), sx("tls", c.tls), sx(mws...), sx("term", c.term), sx(pt...), sx("tlsempty", c.tlsEmpty), sx("pp", c.ppDeclare))
}

func (c *caseT) sxHead() string {
	ch := []any{"chunks"}
	for _, n := range c.chunks {
		ch = append(ch, n)
	}
	t := "none"
	if c.hasTLS {
		t = hx(c.tls)
	}
	return strings.Join([]string{c.cfg.sx(), sx("raw", c.raw), sx("tlsin", t), sx(ch...), sx("lock", c.lock), sx("pre", c.preN())}, " ")
}

func (c *caseT) preN() int {
	if c.pre <= 0 {
		return 1
	}
	return c.pre
}

// ---- reading a case back (replay) ----
func errFrom(n *node) *errT {
	k := n.head()
	l := n.list
	switch k {
	case "base":
		return &errT{kind: "base", a: unhx(l[1].atom)}
	case "wrap":
		return &errT{kind: "wrap", a: unhx(l[1].atom), b: unhx(l[2].atom), inner: errFrom(l[3])}
	case "source":
		return &errT{kind: "source", a: unhx(l[1].atom), line: atoi(l[2].atom), b: unhx(l[3].atom), inner: errFrom(l[4])}
	case "join":
		return &errT{kind: "join", inner: errFrom(l[1]), inner2: errFrom(l[2])}
	default:
		return &errT{kind: k, a: unhx(l[1].atom), inner: errFrom(l[2])}
	}
}

func valFrom(n *node) valT {
	if n.leaf {
		return valT{kind: n.atom}
	}
	k := n.head()
	if k == "text" || k == "bytea" || k == "uuid" {
		return valT{kind: k, b: unhx(n.list[1].atom)}
	}
	if k == "float4" || k == "float8" {
		u, _ := strconv.ParseUint(n.list[1].atom, 10, 64)
		return valT{kind: k, n: int64(u)}
	}
	v, _ := strconv.ParseInt(n.list[1].atom, 10, 64)
	return valT{kind: k, n: v}
}

func opFrom(n *node) opT {
	if n.leaf {
		return opT{kind: n.atom}
	}
	switch n.head() {
	case "row":
		o := opT{kind: "row"}
		for _, v := range n.list[1:] {
			o.vals = append(o.vals, valFrom(v))
		}
		return o
	case "complete":
		return opT{kind: "complete", tag: unhx(n.list[1].atom)}
	case "copyin":
		return opT{kind: "copyin", fmt: atoi(n.list[1].atom)}
	}
	panic("bad op " + n.head())
}

func stmtFrom(n *node) stmtT {
	s := stmtT{id: atoi(n.list[1].atom)}
	for _, c := range n.field("cols").list[1:] {
		s.cols = append(s.cols, colT{name: unhx(c.list[0].atom), table: atoi(c.list[1].atom), attr: atoi(c.list[2].atom), oid: atoi(c.list[3].atom), width: atoi(c.list[4].atom)})
	}
	for _, p := range n.field("poids").list[1:] {
		s.poids = append(s.poids, atoi(p.atom))
	}
	for _, o := range n.field("prog").list[1:] {
		s.prog = append(s.prog, opFrom(o))
	}
	s.stop = n.field("stop").list[1].atom == "1"
	r := n.field("ret").list[1]
	if r.leaf {
		s.ret = r.atom
	} else {
		s.ret = "err"
		s.rerr = errFrom(r.list[1])
	}
	return s
}

func caseFrom(n *node) *caseT {
	c := &caseT{id: n.list[1].atom, class: n.list[2].atom}
	cf := n.field("cfg")
	c.cfg.limit = atoi(cf.field("limit").list[1].atom)
	a := cf.field("auth")
	c.cfg.auth = a.list[1].atom
	if len(a.list) > 2 {
		c.cfg.authPW = unhx(a.list[2].atom)
	}
	for _, kv := range cf.field("params").list[1:] {
		c.cfg.params = append(c.cfg.params, [2][]byte{unhx(kv.list[0].atom), unhx(kv.list[1].atom)})
	}
	c.cfg.version = unhx(cf.field("version").list[1].atom)
	c.cfg.tls = cf.field("tls").list[1].atom == "1"
	if f := cf.field("tlsempty"); f != nil {
		c.cfg.tlsEmpty = atoi(f.list[1].atom)
	}
	if f := cf.field("pp"); f != nil {
		c.cfg.ppDeclare = f.list[1].atom == "1"
	}
	for _, m := range cf.field("mws").list[1:] {
		c.cfg.mws = append(c.cfg.mws, m.atom == "1")
	}
	c.cfg.term = cf.field("term").list[1].atom
	for _, e := range cf.field("parse").list[1:] {
		pe := parseEntry{query: unhx(e.list[0].atom)}
		body := e.list[1]
		if body.head() == "err" {
			pe.err = errFrom(body.list[1])
		} else {
			for _, s := range body.list[1:] {
				pe.stmts = append(pe.stmts, stmtFrom(s))
			}
		}
		c.cfg.parse = append(c.cfg.parse, pe)
	}
	c.raw = unhx(n.field("raw").list[1].atom)
	t := n.field("tlsin").list[1].atom
	if t != "none" {
		c.hasTLS = true
		c.tls = unhx(t)
	}
	for _, k := range n.field("chunks").list[1:] {
		c.chunks = append(c.chunks, atoi(k.atom))
	}
	c.lock = n.field("lock").list[1].atom == "1"
	if pn := n.field("pre"); pn != nil {
		c.pre = atoi(pn.list[1].atom)
	}
	return c
}
