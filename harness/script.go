package main

import (
	"context"
	"crypto/tls"
	"errors"
	"fmt"
	"io"
	"log/slog"
	"strings"
	"time"

	"github.com/jackc/pgx/v5/pgtype"
	wire "github.com/jeroenrinzema/psql-wire"
	"github.com/jeroenrinzema/psql-wire/codes"
	psqlerr "github.com/jeroenrinzema/psql-wire/errors"
	"github.com/lib/pq/oid"
)

var quiet = slog.New(slog.NewTextHandler(io.Discard, nil))

// ---- building real Go values from the case language ----
func mkErr(e *errT) error {
	switch e.kind {
	case "base":
		return errors.New(string(e.a))
	case "wrap":
		// fmt.Errorf("pre%wpost") with literal percent signs escaped
		esc := func(b []byte) string { return strings.ReplaceAll(string(b), "%", "%%") }
		return fmt.Errorf(esc(e.a)+"%w"+esc(e.b), mkErr(e.inner))
	case "code":
		return psqlerr.WithCode(mkErr(e.inner), codes.Code(e.a))
	case "sev":
		return psqlerr.WithSeverity(mkErr(e.inner), psqlerr.Severity(e.a))
	case "hint":
		return psqlerr.WithHint(mkErr(e.inner), string(e.a))
	case "detail":
		return psqlerr.WithDetail(mkErr(e.inner), string(e.a))
	case "source":
		return psqlerr.WithSource(mkErr(e.inner), string(e.a), int32(e.line), string(e.b))
	case "constraint":
		return psqlerr.WithConstraintName(mkErr(e.inner), string(e.a))
	}
	panic("bad err kind " + e.kind)
}

type unencodable struct{ ch chan int }

func mkVal(v valT, colOid int) any {
	switch v.kind {
	case "nil":
		return nil
	case "nilptr":
		switch colOid {
		case 23:
			return (*int32)(nil)
		case 20:
			return (*int64)(nil)
		case 21:
			return (*int16)(nil)
		case 16:
			return (*bool)(nil)
		default:
			return (*string)(nil)
		}
	case "invalid":
		switch colOid {
		case 23:
			return pgtype.Int4{}
		case 20:
			return pgtype.Int8{}
		case 21:
			return pgtype.Int2{}
		case 16:
			return pgtype.Bool{}
		case 17:
			return []byte(nil)
		default:
			return pgtype.Text{}
		}
	case "text":
		return string(v.b)
	case "bytea":
		return append([]byte{}, v.b...)
	case "int2":
		return int16(v.n)
	case "int4":
		return int32(v.n)
	case "int8":
		return int64(v.n)
	case "bool":
		return v.n != 0
	case "unenc":
		return unencodable{}
	}
	panic("bad val kind " + v.kind)
}

// ---- recording ----
type recorder struct {
	conn   *memConn
	events []string
}

func (r *recorder) add(kind string, parts ...any) {
	off, turn := r.conn.outLenTurn()
	all := append([]any{kind, off, turn}, parts...)
	r.events = append(r.events, sx(all...))
}

func errRes(err error) string {
	d := psqlerr.Flatten(err)
	return sx("err", []byte(d.Code), []byte(d.Severity), []byte(d.Message))
}

type ctxKeyT int

// buildServer constructs the real server scripted by the case.
func buildServer(c *cfgT, r *recorder, extra ...wire.OptionFn) (*wire.Server, error) {
	parse := func(ctx context.Context, query string) (wire.PreparedStatements, error) {
		r.add("parse", []byte(query))
		var entry *parseEntry
		for i := range c.parse {
			if string(c.parse[i].query) == query {
				entry = &c.parse[i]
				break
			}
		}
		if entry == nil {
			return nil, errors.New("unknown query")
		}
		if entry.err != nil {
			return nil, mkErr(entry.err)
		}
		var out wire.PreparedStatements
		for i := range entry.stmts {
			s := &entry.stmts[i]
			cols := wire.Columns{}
			for _, cc := range s.cols {
				cols = append(cols, wire.Column{Name: string(cc.name), Table: int32(uint32(cc.table)), AttrNo: int16(uint16(cc.attr)), Oid: oid.Oid(uint32(cc.oid)), Width: int16(uint16(cc.width))})
			}
			var po []oid.Oid
			for _, p := range s.poids {
				po = append(po, oid.Oid(uint32(p)))
			}
			fn := func(ctx context.Context, w wire.DataWriter, params []wire.Parameter) error {
				ps := []any{"params"}
				for _, p := range params {
					if p.Value() == nil {
						ps = append(ps, sx(int(uint16(p.Format())), "null"))
					} else {
						ps = append(ps, sx(int(uint16(p.Format())), p.Value()))
					}
				}
				r.add("exec", s.id, sx(ps...))
				var last error
				var cr *wire.CopyReader
				for _, o := range s.prog {
					var err error
					switch o.kind {
					case "row":
						vals := make([]any, len(o.vals))
						for i, v := range o.vals {
							co := 25
							if i < len(s.cols) {
								co = s.cols[i].oid
							}
							vals[i] = mkVal(v, co)
						}
						err = w.Row(vals)
					case "written":
						r.add("op", sx("written", w.Written()))
						continue
					case "empty":
						err = w.Empty()
					case "complete":
						err = w.Complete(string(o.tag))
					case "copyin":
						var rd *wire.CopyReader
						rd, err = w.CopyIn(wire.FormatCode(int16(uint16(o.fmt))))
						if err == nil {
							cr = rd
						}
					case "copyread":
						if cr == nil {
							r.add("op", "noreader")
							continue
						}
						err = cr.Read()
						if err == nil {
							r.add("op", sx("data", cr.Msg))
							continue
						}
						if err == io.EOF {
							r.add("op", "eof")
							continue
						}
					}
					if err != nil {
						r.add("op", errRes(err))
						last = err
						if s.stop {
							return err
						}
					} else {
						r.add("op", "ok")
					}
				}
				switch s.ret {
				case "nil":
					return nil
				case "last":
					return last
				default:
					return mkErr(s.rerr)
				}
			}
			opts := []wire.PreparedOptionFn{wire.WithParameters(po)}
			if len(cols) > 0 {
				opts = append(opts, wire.WithColumns(cols))
			}
			out = append(out, wire.NewStatement(fn, opts...))
		}
		return out, nil
	}
	opts := []wire.OptionFn{wire.Logger(quiet), wire.MessageBufferSize(c.limit), wire.Version(string(c.version))}
	if c.params != nil {
		m := wire.Parameters{}
		for _, kv := range c.params {
			m[wire.ParameterStatus(kv[0])] = string(kv[1])
		}
		opts = append(opts, wire.GlobalParameters(m))
	}
	if c.auth != "none" {
		opts = append(opts, wire.SessionAuthStrategy(wire.ClearTextPassword(func(ctx context.Context, database, username, password string) (context.Context, bool, error) {
			r.add("validate", []byte(database), []byte(username), []byte(password))
			switch c.auth {
			case "pw":
				return ctx, password == string(c.authPW), nil
			case "accept":
				return ctx, true, nil
			case "reject":
				return ctx, false, nil
			default:
				return ctx, false, errors.New("validator failure")
			}
		})))
	}
	for i, ok := range c.mws {
		i, ok := i, ok
		opts = append(opts, wire.SessionMiddleware(func(ctx context.Context) (context.Context, error) {
			r.add("mw", i)
			if !ok {
				return ctx, errors.New("middleware failure")
			}
			return context.WithValue(ctx, ctxKeyT(i), i), nil
		}))
	}
	if c.term != "none" {
		opts = append(opts, wire.TerminateConn(func(ctx context.Context) error {
			r.add("terminate")
			if c.term == "err" {
				return errors.New("terminate hook failure")
			}
			return nil
		}))
	}
	if c.tls {
		opts = append(opts, wire.TLSConfig(&tls.Config{Certificates: []tls.Certificate{testCert()}}))
	}
	opts = append(opts, extra...)
	return wire.NewServer(parse, opts...)
}

type obsT struct {
	out     []byte
	events  []string
	closed  bool
	panicv  string
	hang    bool
	steps   []int
	serveOK bool
}

func (o *obsT) sx(sslreq bool) string {
	ev := []any{"events"}
	for _, e := range o.events {
		ev = append(ev, e)
	}
	st := []any{"steps"}
	for _, s := range o.steps {
		st = append(st, s)
	}
	return sx("obs", sx("out", o.out), sx(ev...), sx("closed", o.closed), sx("panic", o.panicv != ""), sx("hang", o.hang), sx(st...), sx("sslreq", sslreq))
}

const idleTimeout = 10 * time.Second

// runSession drives one real connection as the case prescribes.
func runSession(c *caseT) *obsT {
	conn := newMemConn()
	rec := &recorder{conn: conn}
	srv, err := buildServer(&c.cfg, rec)
	if err != nil {
		panic(err)
	}
	o := &obsT{}
	go func() {
		defer conn.markFinished()
		defer func() {
			if p := recover(); p != nil {
				o.panicv = fmt.Sprint(p)
			}
		}()
		srv.ServeConn(context.Background(), conn)
	}()
	rest := c.raw
	for _, n := range c.chunks {
		if n > len(rest) {
			n = len(rest)
		}
		if n == 0 {
			continue
		}
		if c.lock && conn.over() {
			break
		}
		conn.push(rest[:n])
		rest = rest[n:]
		if c.lock {
			if !conn.waitIdle(idleTimeout) {
				o.hang = true
				break
			}
			o.steps = append(o.steps, conn.outLen())
		}
	}
	if !o.hang {
		if !(c.lock && conn.over()) {
			conn.push(rest)
		}
		conn.setEOF()
		if !conn.waitFinished(idleTimeout) {
			o.hang = true
		}
	}
	conn.mu.Lock()
	o.out = append([]byte{}, conn.out...)
	o.closed = conn.closed
	o.events = append([]string{}, rec.events...)
	conn.mu.Unlock()
	if o.hang {
		conn.Close()
	}
	return o
}

func isSSLRequest(raw []byte) bool {
	return len(raw) >= 8 && raw[0] == 0 && raw[1] == 0 && raw[2] == 0 && raw[3] == 8 && raw[4] == 0x04 && raw[5] == 0xd2 && raw[6] == 0x16 && raw[7] == 0x2f
}
