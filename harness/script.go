package main

import (
	"context"
	"crypto/tls"
	"errors"
	"fmt"
	"io"
	"log/slog"
	"math"
	"net"
	"strings"
	"sync"
	"sync/atomic"
	"time"

	"github.com/jackc/pgx/v5/pgtype"
	wire "github.com/jeroenrinzema/psql-wire"
	"github.com/jeroenrinzema/psql-wire/codes"
	psqlerr "github.com/jeroenrinzema/psql-wire/errors"
	"github.com/lib/pq/oid"
)

var quiet = slog.New(slog.NewTextHandler(io.Discard, nil))

// ---- building real Go values from the case language ----
// decorate applies the outermost decoration of [e] to an error value that already exists
func decorate(e *errT, inner error) error {
	switch e.kind {
	case "wrap":
		esc := func(b []byte) string { return strings.ReplaceAll(string(b), "%", "%%") }
		return fmt.Errorf(esc(e.a)+"%w"+esc(e.b), inner)
	case "code":
		return psqlerr.WithCode(inner, codes.Code(e.a))
	case "sev":
		return psqlerr.WithSeverity(inner, psqlerr.Severity(e.a))
	case "hint":
		return psqlerr.WithHint(inner, string(e.a))
	case "detail":
		return psqlerr.WithDetail(inner, string(e.a))
	case "source":
		return psqlerr.WithSource(inner, string(e.a), int32(e.line), string(e.b))
	case "constraint":
		return psqlerr.WithConstraintName(inner, string(e.a))
	}
	panic("bad decoration " + e.kind)
}

func mkErr(e *errT) error {
	switch e.kind {
	case "base":
		// handlers pass on the errors of readers and connections: the well-known sentinel values, not copies of
		// their texts (the text is what the model sees; errors.Is sees the difference)
		switch string(e.a) {
		case "EOF":
			return io.EOF
		case "unexpected EOF":
			return io.ErrUnexpectedEOF
		case "use of closed network connection":
			return net.ErrClosed
		}
		return errors.New(string(e.a))
	case "join":
		return errors.Join(mkErr(e.inner), mkErr(e.inner2))
	case "wrap":
		// fmt.Errorf("pre%wpost") with literal percent signs escaped
		esc := func(b []byte) string { return strings.ReplaceAll(string(b), "%", "%%") }
		return fmt.Errorf(esc(e.a)+"%w"+esc(e.b), mkErr(e.inner))
	case "code":
		return psqlerr.WithCode(mkErr(e.inner), codes.Code(e.a))
	case "sev":
		return psqlerr.WithSeverity(mkErr(e.inner), psqlerr.Severity(e.a))
	case "hint":
		return psqlerr.WithHint(mkErr(e.inner), string(e.a))
	case "detail":
		return psqlerr.WithDetail(mkErr(e.inner), string(e.a))
	case "source":
		return psqlerr.WithSource(mkErr(e.inner), string(e.a), int32(e.line), string(e.b))
	case "constraint":
		return psqlerr.WithConstraintName(mkErr(e.inner), string(e.a))
	}
	panic("bad err kind " + e.kind)
}

type unencodable struct{ ch chan int }

func mkVal(v valT, colOid int) any {
	switch v.kind {
	case "nil":
		return nil
	case "nilptr":
		switch colOid {
		case 23:
			return (*int32)(nil)
		case 20:
			return (*int64)(nil)
		case 21:
			return (*int16)(nil)
		case 16:
			return (*bool)(nil)
		case 17:
			return (*[]byte)(nil)
		case 2950:
			return (*[16]byte)(nil)
		case 700:
			return (*float32)(nil)
		case 701:
			return (*float64)(nil)
		default:
			return (*string)(nil)
		}
	case "invalid":
		switch colOid {
		case 23:
			return pgtype.Int4{}
		case 20:
			return pgtype.Int8{}
		case 21:
			return pgtype.Int2{}
		case 16:
			return pgtype.Bool{}
		case 17:
			return []byte(nil)
		case 2950:
			return pgtype.UUID{}
		case 700:
			return pgtype.Float4{}
		case 701:
			return pgtype.Float8{}
		default:
			return pgtype.Text{}
		}
	case "text":
		return string(v.b)
	case "bytea":
		return append([]byte{}, v.b...)
	case "int2":
		return int16(v.n)
	case "int4":
		return int32(v.n)
	case "int8":
		return int64(v.n)
	case "bool":
		return v.n != 0
	case "uuid":
		var u [16]byte
		copy(u[:], v.b)
		return u
	case "float4":
		return math.Float32frombits(uint32(v.n))
	case "float8":
		return math.Float64frombits(uint64(v.n))
	case "unenc":
		return unencodable{}
	}
	panic("bad val kind " + v.kind)
}

// ---- recording ----
type recorder struct {
	reg      *registry
	conn     *memConn
	events   []string
	cfg      *cfgT
	cparams  map[string]string // the client's startup parameters, read off its own byte stream
	cparamOK bool
	lastCtx  context.Context
	kept     []keptT
	keptPs   []keptParamsT
	armed    string
}

// data handed to callbacks, retained as handed over (it may alias the reader's
// buffer) together with a private copy made at that moment
type keptT struct {
	what string
	s    string
	b    []byte
	isB  bool
	copy []byte
}

func (r *recorder) keepS(what, s string) {
	r.kept = append(r.kept, keptT{what: what, s: s, copy: []byte(strings.Clone(s))})
}
func (r *recorder) keepB(what string, b []byte) {
	if b == nil {
		return
	}
	r.kept = append(r.kept, keptT{what: what, b: b, isB: true, copy: append([]byte{}, b...)})
}
// the parameter slice a statement function was called with, retained as handed over, and what its
// elements said at that moment
type keptParamsT struct {
	ps   []wire.Parameter
	vals [][]byte
	null []bool
	fmts []wire.FormatCode
}

func (r *recorder) keepParams(ps []wire.Parameter) {
	k := keptParamsT{ps: ps}
	for _, p := range ps {
		k.vals = append(k.vals, append([]byte{}, p.Value()...))
		k.null = append(k.null, p.Value() == nil)
		k.fmts = append(k.fmts, p.Format())
	}
	r.keptPs = append(r.keptPs, k)
}

// recorders of connections that are over: what their callbacks were handed is still retained by its holders
var (
	retiredMu sync.Mutex
	retired   []*recorder
)

// keptIntact is checkKept without a report: for recorders whose connection is over
func (r *recorder) keptIntact() (string, bool) {
	for _, k := range r.keptPs {
		for i, p := range k.ps {
			if (p.Value() == nil) != k.null[i] || string(p.Value()) != string(k.vals[i]) || p.Format() != k.fmts[i] {
				return fmt.Sprintf("parameter %d of a retained parameter slice", i+1), false
			}
		}
	}
	for _, k := range r.kept {
		if (k.isB && string(k.b) != string(k.copy)) || (!k.isB && k.s != string(k.copy)) {
			return fmt.Sprintf("%s (now %q, was %q)", k.what, k.s+string(k.b), k.copy), false
		}
	}
	return "", true
}

func (r *recorder) checkKept(when string) {
	for _, k := range r.keptPs {
		for i, p := range k.ps {
			if (p.Value() == nil) != k.null[i] || string(p.Value()) != string(k.vals[i]) || p.Format() != k.fmts[i] {
				r.bad("parameter %d of a parameter slice handed to a statement function changed afterwards (%s): now %q (format %d), was %q (format %d)",
					i+1, when, p.Value(), p.Format(), k.vals[i], k.fmts[i])
				return
			}
		}
	}
	for _, k := range r.kept {
		if (k.isB && string(k.b) != string(k.copy)) || (!k.isB && k.s != string(k.copy)) {
			r.bad("%s handed to a callback changed afterwards (%s): now %q, was %q", k.what, when, k.s+string(k.b), k.copy)
			return
		}
	}
}

// registry routes callbacks of one server to the recorder of the connection
// they belong to (identified by the remote address stored in the context).
type registry struct {
	mu   sync.Mutex
	recs map[string]*recorder
	// the parameter map handed to GlobalParameters and a private copy of it taken at that moment
	gparams     wire.Parameters
	gparamsCopy map[string]string
	// option values handed to more than one server (an application builds its option list once and creates
	// several servers from it): middleware index -> the option value created for the first server
	sharedMw map[int]wire.OptionFn
	// invocations of the CloseConn handler on the servers built with this registry
	closeConnRuns int
}

// the user-supplied global parameter map is never modified by serving connections
func (g *registry) paramsChanged() string {
	g.mu.Lock()
	defer g.mu.Unlock()
	if g.gparamsCopy == nil {
		return ""
	}
	if len(g.gparams) != len(g.gparamsCopy) {
		return fmt.Sprintf("it has %d entries, %d were configured", len(g.gparams), len(g.gparamsCopy))
	}
	for k, v := range g.gparamsCopy {
		if cur, ok := g.gparams[wire.ParameterStatus(k)]; !ok || cur != v {
			return fmt.Sprintf("key %q: now %q (present %v), configured %q", k, cur, ok, v)
		}
	}
	return ""
}

func (g *registry) add(r *recorder) {
	g.mu.Lock()
	g.recs[r.conn.addr] = r
	g.mu.Unlock()
}

func (g *registry) of(ctx context.Context) *recorder {
	a := wire.RemoteAddress(ctx)
	g.mu.Lock()
	defer g.mu.Unlock()
	if a == nil {
		for _, r := range g.recs {
			return r
		}
		return nil
	}
	return g.recs[a.String()]
}

func (r *recorder) bad(format string, a ...any) {
	r.add("ctxbad", []byte(fmt.Sprintf(format, a...)))
}

// statusParams reads the ParameterStatus messages the server has sent so far.
func statusParams(out []byte) map[string]string {
	m := map[string]string{}
	for len(out) >= 5 {
		l := int(uint32(out[1])<<24 | uint32(out[2])<<16 | uint32(out[3])<<8 | uint32(out[4]))
		if l < 4 || len(out) < 1+l {
			break
		}
		if out[0] == 'S' {
			body := out[5 : 1+l]
			if i := bytesIndex0(body); i >= 0 {
				k := string(body[:i])
				rest := body[i+1:]
				if j := bytesIndex0(rest); j >= 0 {
					m[k] = string(rest[:j])
				}
			}
		}
		out = out[1+l:]
	}
	return m
}

func bytesIndex0(b []byte) int {
	for i, x := range b {
		if x == 0 {
			return i
		}
	}
	return -1
}

// checkCtx verifies what the context handed to a parser / statement / hook call carries.
func (r *recorder) checkCtx(ctx context.Context, command bool) {
	if ctx.Err() != nil {
		r.bad("context already cancelled during the callback")
	}
	if a := wire.RemoteAddress(ctx); a == nil || a.String() != r.conn.addr {
		r.bad("remote address %v, want %s", a, r.conn.addr)
	}
	if wire.TypeMap(ctx) == nil {
		r.bad("type map missing")
	}
	if r.cparamOK {
		got := wire.ClientParameters(ctx)
		if len(got) != len(r.cparams) {
			r.bad("client parameters %v, want %v", got, r.cparams)
		} else {
			for k, v := range r.cparams {
				if gv, ok := got[wire.ParameterStatus(k)]; !ok || gv != v {
					r.bad("client parameter %q = %q, want %q", k, gv, v)
				}
			}
		}
	}
	if command && !r.conn.encrypted {
		r.conn.mu.Lock()
		out := append([]byte{}, r.conn.out...)
		r.conn.mu.Unlock()
		if len(out) > 0 && r.conn.sslFirst {
			out = out[1:]
		}
		want := statusParams(out)
		got := wire.ServerParameters(ctx)
		if len(got) != len(want) {
			r.bad("server parameters %v, want %v", got, want)
		} else {
			for k, v := range want {
				if gv, ok := got[wire.ParameterStatus(k)]; !ok || gv != v {
					r.bad("server parameter %q = %q, want %q", k, gv, v)
				}
			}
		}
	}
	if command {
		for i, ok := range r.cfg.mws {
			if ok {
				if v, _ := ctx.Value(ctxKeyT(i)).(int); ctx.Value(ctxKeyT(i)) == nil || v != i {
					r.bad("value of middleware %d missing from the context", i)
				}
			}
		}
		// the context of the previous command must be cancelled once that command ended
		if r.lastCtx != nil && r.lastCtx.Done() != ctx.Done() && r.lastCtx.Err() == nil {
			r.bad("context of the previous command is still alive")
		}
		r.lastCtx = ctx
	}
}

func (r *recorder) add(kind string, parts ...any) {
	if kind != "ctxbad" && r.armed == "" {
		// a deadline armed while callbacks of the session run (crypto/tls arms one itself when it closes:
		// that is after the last callback)
		r.armed = r.conn.armedDeadline()
	}
	off, turn := r.conn.outLenTurn()
	all := append([]any{kind, off, turn}, parts...)
	r.events = append(r.events, sx(all...))
}

func errRes(err error) string {
	d := psqlerr.Flatten(err)
	return sx("err", []byte(d.Code), []byte(d.Severity), []byte(d.Message))
}

type ctxKeyT int

// buildServer constructs the real server scripted by the case.
func buildServer(c *cfgT, reg *registry, extra ...wire.OptionFn) (*wire.Server, error) {
	// the declared columns of a statement are built once per server and shared by every connection and every
	// preparation (an application declares its tables once)
	var colMu sync.Mutex
	colCache := map[*stmtT]wire.Columns{}
	parse := func(ctx context.Context, query string) (wire.PreparedStatements, error) {
		r := reg.of(ctx)
		r.checkCtx(ctx, true)
		r.checkKept("at a later parser call")
		r.keepS("query text", query)
		for k, v := range wire.ClientParameters(ctx) {
			r.keepS("client parameter "+string(k), v)
		}
		r.add("parse", []byte(query))
		var entry *parseEntry
		for i := range c.parse {
			if string(c.parse[i].query) == query {
				entry = &c.parse[i]
				break
			}
		}
		if entry == nil {
			return nil, errors.New("unknown query")
		}
		if entry.err != nil {
			return nil, mkErr(entry.err)
		}
		var out wire.PreparedStatements
		for i := range entry.stmts {
			s := &entry.stmts[i]
			colMu.Lock()
			cols, built := colCache[s]
			if !built {
				cols = wire.Columns{}
				for _, cc := range s.cols {
					cols = append(cols, wire.Column{Name: string(cc.name), Table: int32(uint32(cc.table)), AttrNo: int16(uint16(cc.attr)), Oid: oid.Oid(uint32(cc.oid)), Width: int16(uint16(cc.width))})
				}
				colCache[s] = cols
			}
			colMu.Unlock()
			var po []oid.Oid
			allZero := true
			for _, p := range s.poids {
				po = append(po, oid.Oid(uint32(p)))
				if p != 0 {
					allZero = false
				}
			}
			if c.ppDeclare && allZero {
				// the documented idiom: WithParameters(ParseParameters(query)) — the very slice the library returned
				if pp := wire.ParseParameters(query); len(pp) == len(po) {
					po = pp
				}
			}
			fn := func(ctx context.Context, w wire.DataWriter, params []wire.Parameter) error {
				r := reg.of(ctx)
				r.checkCtx(ctx, true)
				r.checkKept("at a later statement call")
				ps := []any{"params"}
				r.keepParams(params)
				for pi, p := range params {
					// the parameter's own decoder: as text it is the value byte for byte (whatever the bytes are: NUL,
					// blanks, invalid UTF-8), as binary bytea likewise
					if p.Value() != nil {
						if v, err := p.Scan(25); err != nil {
							r.bad("parameter %d: Scan as text failed: %v", pi+1, err)
						} else if sv, ok := v.(string); !ok || sv != string(p.Value()) {
							r.bad("parameter %d: Scan as text gives %q, the value is %q", pi+1, v, p.Value())
						}
						if p.Format() == wire.BinaryFormat {
							if v, err := p.Scan(17); err != nil {
								r.bad("parameter %d: Scan as binary bytea failed: %v", pi+1, err)
							} else if bv, ok := v.([]byte); !ok || string(bv) != string(p.Value()) {
								r.bad("parameter %d: Scan as binary bytea gives %q, the value is %q", pi+1, v, p.Value())
							}
						}
					}
					r.keepB("parameter value", p.Value())
					if p.Value() == nil {
						ps = append(ps, sx(int(uint16(p.Format())), "null"))
					} else {
						ps = append(ps, sx(int(uint16(p.Format())), p.Value()))
					}
				}
				r.add("exec", s.id, sx(ps...))
				var last error
				var cr *wire.CopyReader
				for _, o := range s.prog {
					var err error
					switch o.kind {
					case "row":
						vals := make([]any, len(o.vals))
						for i, v := range o.vals {
							co := 25
							if i < len(s.cols) {
								co = s.cols[i].oid
							}
							vals[i] = mkVal(v, co)
						}
						err = w.Row(vals)
					case "written":
						r.add("op", sx("written", w.Written()))
						continue
					case "empty":
						err = w.Empty()
					case "complete":
						err = w.Complete(string(o.tag))
					case "copyin":
						var rd *wire.CopyReader
						rd, err = w.CopyIn(wire.FormatCode(int16(uint16(o.fmt))))
						if err == nil {
							cr = rd
						}
					case "copyread":
						if cr == nil {
							r.add("op", "noreader")
							continue
						}
						err = cr.Read()
						if err == nil {
							r.add("op", sx("data", cr.Msg))
							// the handler keeps the chunk (batching rows until CopyDone): later chunks do not change it
							r.keepB("COPY payload", cr.Msg)
							r.checkKept("at a later CopyReader.Read")
							continue
						}
						if err == io.EOF {
							r.add("op", "eof")
							continue
						}
					}
					if err != nil {
						r.add("op", errRes(err))
						last = err
						if s.stop {
							return err
						}
					} else {
						r.add("op", "ok")
					}
				}
				switch s.ret {
				case "nil":
					return nil
				case "last":
					return last
				default:
					return mkErr(s.rerr)
				}
			}
			opts := []wire.PreparedOptionFn{wire.WithParameters(po)}
			if len(cols) > 0 {
				opts = append(opts, wire.WithColumns(cols))
			} else if s.id%2 == 1 {
				// a column set that is empty but not nil (a filtered or pre-sized slice) is "no columns" as well
				opts = append(opts, wire.WithColumns(make(wire.Columns, 0, 4)))
			}
			out = append(out, wire.NewStatement(fn, opts...))
		}
		return out, nil
	}
	opts := []wire.OptionFn{wire.Logger(quiet), wire.MessageBufferSize(c.limit), wire.Version(string(c.version))}
	if c.params != nil {
		m := wire.Parameters{}
		cp := map[string]string{}
		for _, kv := range c.params {
			m[wire.ParameterStatus(kv[0])] = string(kv[1])
			cp[string(kv[0])] = string(kv[1])
		}
		reg.mu.Lock()
		reg.gparams, reg.gparamsCopy = m, cp
		reg.mu.Unlock()
		opts = append(opts, wire.GlobalParameters(m))
	}
	if c.auth != "none" {
		opts = append(opts, wire.SessionAuthStrategy(wire.ClearTextPassword(func(ctx context.Context, database, username, password string) (context.Context, bool, error) {
			r := reg.of(ctx)
			r.checkCtx(ctx, false)
			r.keepS("password", password)
			r.keepS("database", database)
			r.keepS("user", username)
			r.add("validate", []byte(database), []byte(username), []byte(password))
			switch c.auth {
			case "pw":
				return ctx, password == string(c.authPW), nil
			case "accept":
				return ctx, true, nil
			case "reject":
				return ctx, false, nil
			case "failtrue":
				// a validator that fails although its boolean says yes has not accepted
				return ctx, true, errors.New("validator failure")
			default:
				return ctx, false, errors.New("validator failure")
			}
		})))
	}
	for i, ok := range c.mws {
		i, ok := i, ok
		tag := c.tag
		shared := c.shareMw && i >= 1
		if shared && reg.sharedMw != nil {
			if o, has := reg.sharedMw[i]; has {
				opts = append(opts, o) // the very option value the first server was configured with
				continue
			}
		}
		o := wire.SessionMiddleware(func(ctx context.Context) (context.Context, error) {
			r := reg.of(ctx)
			r.checkCtx(ctx, false)
			for j := 0; j < i; j++ {
				if ctx.Value(ctxKeyT(j)) == nil {
					r.bad("middleware %d did not receive the context of middleware %d", i, j)
				}
			}
			if !shared && tag != r.cfg.tag {
				r.bad("middleware %d registered on server %d ran for a connection of server %d", i, tag, r.cfg.tag)
			}
			r.add("mw", i)
			if !ok {
				return ctx, errors.New("middleware failure")
			}
			return context.WithValue(ctx, ctxKeyT(i), i), nil
		})
		if shared {
			if reg.sharedMw == nil {
				reg.sharedMw = map[int]wire.OptionFn{}
			}
			reg.sharedMw[i] = o
		}
		opts = append(opts, o)
	}
	if c.term != "none" {
		opts = append(opts, wire.TerminateConn(func(ctx context.Context) error {
			r := reg.of(ctx)
			r.checkCtx(ctx, true)
			r.add("terminate")
			if c.term == "err" {
				return errors.New("terminate hook failure")
			}
			return nil
		}))
	}
	// the close handler is always registered. The library accepts it; whenever it decides to call it, a connection
	// that never became a session (CancelRequest, refused or bare SSLRequest, unreadable startup packet — nothing
	// but the one-byte SSL reply was ever sent to it) has no callbacks at all
	opts = append(opts, wire.CloseConn(func(ctx context.Context) error {
		reg.mu.Lock()
		reg.closeConnRuns++
		reg.mu.Unlock()
		return nil
	}))
	switch {
	case !c.tls && c.tlsEmpty == 1:
		opts = append(opts, wire.TLSConfig(&tls.Config{}))
	case !c.tls && c.tlsEmpty == 2:
		opts = append(opts, wire.TLSConfig(&tls.Config{Certificates: []tls.Certificate{}}))
	case !c.tls && c.tlsEmpty == 3:
		opts = append(opts, wire.TLSConfig(&tls.Config{Certificates: make([]tls.Certificate, 0, 2)}))
	}
	if c.tls {
		opts = append(opts, wire.TLSConfig(&tls.Config{Certificates: []tls.Certificate{testCert()}}))
	}
	opts = append(opts, extra...)
	return wire.NewServer(parse, opts...)
}

type obsT struct {
	out     []byte
	events  []string
	closed  bool
	panicv  string
	hang    bool
	steps   []int
	serveOK bool
}

func (o *obsT) sx(sslreq bool) string {
	ev := []any{"events"}
	for _, e := range o.events {
		ev = append(ev, e)
	}
	st := []any{"steps"}
	for _, s := range o.steps {
		st = append(st, s)
	}
	return sx("obs", sx("out", o.out), sx(ev...), sx("closed", o.closed), sx("panic", o.panicv != ""), sx("hang", o.hang), sx(st...), sx("sslreq", sslreq))
}

const idleTimeout = 10 * time.Second

var connSeq int64

func newSession(c *caseT, reg *registry) (*memConn, *recorder) {
	conn := newMemConn()
	conn.addr = fmt.Sprintf("client-%d", atomic.AddInt64(&connSeq, 1))
	conn.sslFirst = isSSLRequest(c.raw)
	rec := &recorder{conn: conn, cfg: &c.cfg, reg: reg}
	rec.cparams, rec.cparamOK = startupParams(c.raw, c.cfg.tls)
	reg.add(rec)
	return conn, rec
}

// startupParams reads the client's startup pairs off its own byte stream.
func startupParams(raw []byte, tlsOn bool) (map[string]string, bool) {
	pkt := func(b []byte) (body, rest []byte, ok bool) {
		if len(b) < 4 {
			return nil, nil, false
		}
		l := int(uint32(b[0])<<24 | uint32(b[1])<<16 | uint32(b[2])<<8 | uint32(b[3]))
		if l < 8 || len(b) < l {
			return nil, nil, false
		}
		return b[4:l], b[l:], true
	}
	body, rest, ok := pkt(raw)
	if !ok {
		return nil, false
	}
	if isSSLRequest(raw) {
		if tlsOn {
			return nil, false
		}
		body, _, ok = pkt(rest)
		if !ok {
			return nil, false
		}
	}
	m := map[string]string{}
	b := body[4:]
	for {
		i := bytesIndex0(b)
		if i < 0 {
			return nil, false
		}
		if i == 0 {
			return m, true
		}
		k := string(b[:i])
		b = b[i+1:]
		j := bytesIndex0(b)
		if j < 0 {
			return nil, false
		}
		m[k] = string(b[:j])
		b = b[j+1:]
	}
}

func serveAsync(srv *wire.Server, conn *memConn, o *obsT) {
	go func() {
		defer conn.markFinished()
		defer func() {
			if p := recover(); p != nil {
				o.panicv = fmt.Sprint(p)
			}
		}()
		srv.ServeConn(context.Background(), conn)
	}()
}

func collect(conn *memConn, rec *recorder, o *obsT) {
	rec.checkKept("at the end of the connection")
	// data handed to the callbacks of EARLIER connections (closed by now) has survived this connection's traffic
	retiredMu.Lock()
	for i, old := range retired {
		if what, ok := old.keptIntact(); !ok {
			rec.bad("%s handed to a callback of an earlier, closed connection was overwritten by the traffic of a later connection", what)
			// reported once, with the connection during which it happened
			retired = append(retired[:i:i], retired[i+1:]...)
			break
		}
	}
	// (a connection whose data changed during its own lifetime has reported that itself: it is not watched further)
	if _, intact := rec.keptIntact(); intact && len(rec.kept)+len(rec.keptPs) > 0 {
		retired = append(retired, rec)
		if len(retired) > 6 {
			retired = retired[1:]
		}
	}
	retiredMu.Unlock()
	if rec.reg != nil && len(rec.reg.recs) == 1 {
		rec.reg.mu.Lock()
		runs := rec.reg.closeConnRuns
		rec.reg.mu.Unlock()
		conn.mu.Lock()
		sent := len(conn.out)
		conn.mu.Unlock()
		if runs > 0 && sent <= 1 && !conn.encrypted {
			rec.bad("the close handler ran %d time(s) for a connection that never became a session (%d byte(s) were sent to it)", runs, sent)
		}
	}
	if rec.armed != "" {
		rec.bad("a %s deadline set on the connection was still armed while callbacks of the session ran: the session depends on the clock", rec.armed)
	}
	if rec.reg != nil {
		if d := rec.reg.paramsChanged(); d != "" {
			rec.bad("the configured global parameter map was modified while serving (%s)", d)
		}
	}
	// the context of the last command must be cancelled once the connection is over
	if rec.lastCtx != nil && rec.lastCtx.Err() == nil {
		rec.bad("context of the last command is still alive after the connection ended")
	}
	conn.mu.Lock()
	o.out = append([]byte{}, conn.out...)
	o.closed = conn.closed
	o.events = append([]string{}, rec.events...)
	conn.mu.Unlock()
	if o.hang {
		conn.Close()
	}
}

// runSession drives one real connection as the case prescribes.
func runSession(c *caseT) *obsT {
	reg := &registry{recs: map[string]*recorder{}}
	conn, rec := newSession(c, reg)
	srv, err := buildServer(&c.cfg, reg)
	if err != nil {
		panic(err)
	}
	return driveSession(c, conn, rec, srv)
}

// driveSession delivers the case's byte stream to [srv] over [conn] as the case prescribes.
func driveSession(c *caseT, conn *memConn, rec *recorder, srv *wire.Server) *obsT {
	o := &obsT{}
	serveAsync(srv, conn, o)
	rest := c.raw
	for _, n := range c.chunks {
		if n > len(rest) {
			n = len(rest)
		}
		if n == 0 {
			continue
		}
		if c.lock && conn.over() {
			break
		}
		conn.push(rest[:n])
		rest = rest[n:]
		if c.lock {
			if !conn.waitIdle(idleTimeout) {
				o.hang = true
				break
			}
			o.steps = append(o.steps, conn.outLen())
		}
	}
	if !o.hang {
		if !(c.lock && conn.over()) {
			conn.push(rest)
		}
		conn.setEOF()
		if !conn.waitFinished(idleTimeout) {
			o.hang = true
		}
	}
	collect(conn, rec, o)
	return o
}

// runMulti serves several connections on ONE server (all cases must share the
// configuration). In lock-step mode chunks are delivered one at a time in the
// order of [schedule] (indices into cases); otherwise all clients run freely
// in parallel.
func runMulti(cases []*caseT, schedule []int, free bool) []*obsT {
	reg := &registry{recs: map[string]*recorder{}}
	srv, err := buildServer(&cases[0].cfg, reg)
	if err != nil {
		panic(err)
	}
	n := len(cases)
	conns := make([]*memConn, n)
	recs := make([]*recorder, n)
	obs := make([]*obsT, n)
	rests := make([][]byte, n)
	next := make([]int, n)
	for i, c := range cases {
		conns[i], recs[i] = newSession(c, reg)
		obs[i] = &obsT{}
		rests[i] = c.raw
	}
	// a connection is accepted when its first bytes are due and hung up right after its last
	// chunk: connections of one group overlap, follow each other, or both, as the schedule says
	started := make([]bool, n)
	ended := make([]bool, n)
	start := func(i int) {
		if !started[i] {
			started[i] = true
			serveAsync(srv, conns[i], obs[i])
		}
	}
	finish := func(i int) {
		if ended[i] {
			return
		}
		ended[i] = true
		conns[i].setEOF()
		if !obs[i].hang && !conns[i].waitFinished(idleTimeout) {
			obs[i].hang = true
		}
	}
	// classes named "listener…": the connections come in through the real accept loop, Server.Serve
	// on an in-memory listener that hands them out back to back (a connection burst)
	viaListener := free && strings.HasPrefix(cases[0].class, "listener")
	if viaListener {
		lst := &burstListener{conns: conns, closed: make(chan struct{})}
		serveDone := make(chan error, 1)
		go func() { serveDone <- srv.Serve(lst) }()
		for i := range started {
			started[i] = true
		}
		defer func() {
			srv.Close()
			select {
			case <-serveDone:
			case <-time.After(idleTimeout):
			}
		}()
	}
	if free {
		for i := range cases {
			start(i)
		}
		var wg sync.WaitGroup
		for i := range cases {
			wg.Add(1)
			go func(i int) {
				defer wg.Done()
				c := cases[i]
				rest := c.raw
				for _, k := range c.chunks {
					if k > len(rest) {
						k = len(rest)
					}
					conns[i].push(rest[:k])
					rest = rest[k:]
				}
				conns[i].push(rest)
				conns[i].setEOF()
				if !conns[i].waitFinished(idleTimeout) {
					obs[i].hang = true
				}
			}(i)
		}
		wg.Wait()
	} else {
		for _, i := range schedule {
			c := cases[i]
			if next[i] >= len(c.chunks) || obs[i].hang || ended[i] {
				continue
			}
			start(i)
			if conns[i].over() {
				continue
			}
			k := c.chunks[next[i]]
			next[i]++
			if k > len(rests[i]) {
				k = len(rests[i])
			}
			if k == 0 {
				continue
			}
			conns[i].push(rests[i][:k])
			rests[i] = rests[i][k:]
			if !conns[i].waitIdle(idleTimeout) {
				obs[i].hang = true
				continue
			}
			obs[i].steps = append(obs[i].steps, conns[i].outLen())
			if next[i] >= len(c.chunks) {
				finish(i)
			}
		}
		for i := range cases {
			if obs[i].hang || ended[i] {
				continue
			}
			start(i)
			// whatever the schedule did not deliver is delivered now, still one chunk at a time
			c := cases[i]
			for next[i] < len(c.chunks) && !conns[i].over() {
				k := c.chunks[next[i]]
				next[i]++
				if k > len(rests[i]) {
					k = len(rests[i])
				}
				if k == 0 {
					continue
				}
				conns[i].push(rests[i][:k])
				rests[i] = rests[i][k:]
				if !conns[i].waitIdle(idleTimeout) {
					obs[i].hang = true
					break
				}
				obs[i].steps = append(obs[i].steps, conns[i].outLen())
			}
			finish(i)
		}
	}
	for i := range cases {
		collect(conns[i], recs[i], obs[i])
	}
	return obs
}

// burstListener hands out the prepared connections without waiting in between, then blocks until closed
type burstListener struct {
	mu     sync.Mutex
	conns  []*memConn
	next   int
	closed chan struct{}
	once   sync.Once
}

func (l *burstListener) Accept() (net.Conn, error) {
	l.mu.Lock()
	if l.next < len(l.conns) {
		c := l.conns[l.next]
		l.next++
		l.mu.Unlock()
		return c, nil
	}
	l.mu.Unlock()
	<-l.closed
	return nil, net.ErrClosed
}
func (l *burstListener) Close() error   { l.once.Do(func() { close(l.closed) }); return nil }
func (l *burstListener) Addr() net.Addr { return memAddr("burst-listener") }

func isSSLRequest(raw []byte) bool {
	return len(raw) >= 8 && raw[0] == 0 && raw[1] == 0 && raw[2] == 0 && raw[3] == 8 && raw[4] == 0x04 && raw[5] == 0xd2 && raw[6] == 0x16 && raw[7] == 0x2f
}
