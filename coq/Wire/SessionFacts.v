(* SessionFacts.v — lemmas about the session model (Wire/Session.v). *)
Require Import Wire.Bytes Spec.BackendSpec Wire.Errors Wire.Framing Wire.Session.
Local Open Scope list_scope.
Local Open Scope Z_scope.

(* ---------- vocabulary ---------- *)
Definition outs (evs : list ev) : list bmsg :=
  flat_map (fun e => match e with Out m => [m] | _ => [] end) evs.
Definition is_ready (m : bmsg) : bool := match m with BReady _ => true | _ => false end.
Definition is_error (m : bmsg) : bool := match m with BError _ => true | _ => false end.
Definition is_datarow (m : bmsg) : bool := match m with BDataRow _ => true | _ => false end.
Definition is_complete (m : bmsg) : bool := match m with BComplete _ => true | _ => false end.
Definition countb {A} (p : A -> bool) (l : list A) : nat := length (filter p l).
Definition is_cb (e : ev) : bool :=
  match e with
  | CbValidate _ _ _ | CbMw _ | CbParse _ | CbExec _ _ | CbOp _ | CbTerminate => true
  | _ => false
  end.
(* messages a statement function can cause: DataRow, CommandComplete, CopyInResponse *)
Definition handler_msg (m : bmsg) : bool :=
  match m with BDataRow _ | BComplete _ | BCopyIn _ _ => true | _ => false end.

Lemma filter_length_le' {A} (p : A -> bool) (l : list A) : (length (filter p l) <= length l)%nat.
Proof. induction l as [|x l IH]; cbn [filter length]; [lia|]. destruct (p x); cbn [length]; lia. Qed.

Lemma outs_app a b : outs (a ++ b) = outs a ++ outs b.
Proof. unfold outs. apply flat_map_app. Qed.
Lemma outs_cons_out m l : outs (Out m :: l) = m :: outs l.
Proof. reflexivity. Qed.
Lemma countb_app {A} (p : A -> bool) a b : countb p (a ++ b) = (countb p a + countb p b)%nat.
Proof. unfold countb. rewrite filter_app, app_length. reflexivity. Qed.
Lemma forallb_app' {A} (p : A -> bool) a b : forallb p (a ++ b) = forallb p a && forallb p b.
Proof. apply forallb_app. Qed.

(* ---------- CopyReader.Read ---------- *)
(* a read never writes to the client and only takes frames off the front *)
Lemma copy_read_spec L fs tl :
  forall evs r rest, copy_read L fs tl = (evs, r, rest) ->
    outs evs = [] /\ filter is_cb evs = [] /\ (length rest <= length fs)%nat.
Proof.
  induction fs as [|f fr IH]; intros evs r rest H; cbn [copy_read] in H.
  - injection H as <- <- <-. repeat split; reflexivity || (cbn; lia).
  - assert (One : forall r0, ([Consume], r0, fr) = (evs, r, rest) ->
                  outs evs = [] /\ filter is_cb evs = [] /\ (length rest <= length (f :: fr))%nat).
    { intros r0 E. injection E as <- <- <-. repeat split; try reflexivity. cbn [length]. lia. }
    assert (Nil : forall r0, ([Consume], r0, @nil frame) = (evs, r, rest) ->
                  outs evs = [] /\ filter is_cb evs = [] /\ (length rest <= length (f :: fr))%nat).
    { intros r0 E. injection E as <- <- <-. repeat split; try reflexivity. cbn [length]. lia. }
    destruct f as [t body|t size [tr|]|t size|]; try (eapply One; exact H); try (eapply Nil; exact H).
    destruct (Byte.eqb t x48 || Byte.eqb t x53).
    + destruct (copy_read L fr tl) as [[evs' r'] rest'] eqn:E.
      injection H as <- <- <-. destruct (IH _ _ _ eq_refl) as (A & B & C).
      repeat split.
      * exact A.
      * exact B.
      * cbn [length]. lia.
    + destruct (Byte.eqb t x64); [eapply One; exact H|].
      destruct (Byte.eqb t x63); [eapply One; exact H|].
      destruct (Byte.eqb t x66); [|eapply One; exact H].
      destruct (take_cstr body) as [[d l]|]; eapply One; exact H.
Qed.

(* what the handler gets for the message at the head of the stream *)
Lemma copy_read_data L body rest tl :
  copy_read L (FMsg x64 body :: rest) tl = ([Consume], OData body, rest).
Proof. reflexivity. Qed.
Lemma copy_read_done L body rest tl :
  copy_read L (FMsg x63 body :: rest) tl = ([Consume], OEof, rest).
Proof. reflexivity. Qed.
Lemma copy_read_fail L desc junk rest tl :
  nul_free desc = true ->
  copy_read L (FMsg x66 (desc ++ x00 :: junk) :: rest) tl = ([Consume], OErr (e_copy_failed desc), rest).
Proof.
  intros H. cbn [copy_read]. replace (Byte.eqb x66 x48 || Byte.eqb x66 x53) with false by reflexivity.
  replace (Byte.eqb x66 x64) with false by reflexivity. replace (Byte.eqb x66 x63) with false by reflexivity.
  replace (Byte.eqb x66 x66) with true by reflexivity.
  assert (T : take_cstr (desc ++ x00 :: junk) = Some (desc, junk)).
  { induction desc as [|b r IH]; cbn [app take_cstr nul_free] in *.
    - reflexivity.
    - apply andb_prop in H as [H1 H2]. destruct (Byte.eqb b x00); [discriminate|]. rewrite IH by exact H2. reflexivity. }
  rewrite T. reflexivity.
Qed.
Lemma copy_read_skip L t body rest tl :
  Byte.eqb t x48 || Byte.eqb t x53 = true ->
  copy_read L (FMsg t body :: rest) tl =
  let '(evs, r, rest') := copy_read L rest tl in (Consume :: evs, r, rest').
Proof. intros H. cbn [copy_read]. rewrite H. reflexivity. Qed.
(* any other message is a non-nil, non-EOF error *)
Lemma copy_read_foreign L t body rest tl :
  Byte.eqb t x48 || Byte.eqb t x53 = false -> Byte.eqb t x64 = false -> Byte.eqb t x63 = false -> Byte.eqb t x66 = false ->
  copy_read L (FMsg t body :: rest) tl = ([Consume], OErr (e_unimplemented t), rest).
Proof. intros A B C D. cbn [copy_read]. rewrite A, B, C, D. reflexivity. Qed.

(* ---------- one DataWriter operation ---------- *)
Definition delivered_rows (evs : list ev) : Z := Z.of_nat (countb is_datarow (outs evs)).

Lemma run_op_spec c cols fmts o w fs tl evs w' fs' st :
  run_op c cols fmts o w fs tl = (evs, w', fs', st) ->
  (* only handler messages, at most one *)
  forallb handler_msg (outs evs) = true /\ (length (outs evs) <= 1)%nat /\
  (* the counter counts exactly the rows delivered *)
  w_written w' = w_written w + delivered_rows evs /\
  (* a closed writer stays closed and emits nothing *)
  (w_closed w = true -> w_closed w' = true /\ outs evs = []) /\
  (* CommandComplete is emitted exactly when the writer goes from open to closed with a message *)
  (countb is_complete (outs evs) = 1%nat -> w_closed w = false /\ w_closed w' = true) /\
  (* a failed operation emits nothing *)
  (st <> StOk -> outs evs = []) /\
  (length fs' <= length fs)%nat.
Proof.
  unfold delivered_rows. destruct o as [vs| | |tag|f|]; cbn [run_op]; intros H.
  - destruct (w_closed w) eqn:Ec.
    + injection H as <- <- <- <-. cbn. repeat split; auto; try lia; try discriminate.
    + destruct (write_row (cfg_encode c) cols fmts vs) as [fields|e|]; injection H as <- <- <- <-; cbn;
        repeat split; auto; try lia; try discriminate; try congruence.
  - injection H as <- <- <- <-. cbn. repeat split; auto; try lia; try discriminate; try congruence.
  - destruct (w_closed w) eqn:Ec; [|destruct (negb (w_written w =? 0))]; injection H as <- <- <- <-; cbn;
      repeat split; auto; try lia; try discriminate; try congruence.
  - destruct (w_closed w) eqn:Ec; injection H as <- <- <- <-; cbn;
      repeat split; auto; try lia; try discriminate; try congruence.
  - destruct (w_closed w) eqn:Ec; [|destruct cols]; injection H as <- <- <- <-; cbn;
      repeat split; auto; try lia; try discriminate; try congruence.
  - destruct (negb (w_copy w)).
    + injection H as <- <- <- <-. cbn. repeat split; auto; try lia; try discriminate; try congruence.
    + destruct (copy_read (cfg_limit c) fs tl) as [[evs0 r] rest] eqn:E.
      destruct (copy_read_spec _ _ _ _ _ _ E) as (A & _ & C).
      assert (O : outs (evs0 ++ [CbOp r]) = []) by (rewrite outs_app, A; reflexivity).
      destruct r; injection H as <- <- <- <-; rewrite O; cbn;
        repeat split; auto; try lia; try discriminate; try congruence.
Qed.

(* ---------- a handler program ---------- *)
Lemma run_ops_spec c cols fmts stop : forall ops w fs tl evs w' fs' res,
  run_ops c cols fmts stop ops w fs tl = (evs, w', fs', res) ->
  forallb handler_msg (outs evs) = true /\
  w_written w' = w_written w + delivered_rows evs /\
  (w_closed w = true -> w_closed w' = true /\ outs evs = []) /\
  (w_closed w = false -> (countb is_complete (outs evs) <= 1)%nat) /\
  (length fs' <= length fs)%nat.
Proof.
  unfold delivered_rows.
  induction ops as [|o r IH]; intros w fs tl evs w' fs' res H; cbn [run_ops] in H.
  - injection H as <- <- <- <-. cbn. repeat split; auto; lia.
  - destruct (run_op c cols fmts o w fs tl) as [[[evs1 w1] fs1] st] eqn:E1.
    destruct (run_op_spec _ _ _ _ _ _ _ _ _ _ _ E1) as (A1 & L1 & W1 & C1 & K1 & F1 & S1).
    unfold delivered_rows in W1.
    assert (Base : forallb handler_msg (outs evs1) = true /\
                   w_written w1 = w_written w + Z.of_nat (countb is_datarow (outs evs1)) /\
                   (w_closed w = true -> w_closed w1 = true /\ outs evs1 = []) /\
                   (w_closed w = false -> (countb is_complete (outs evs1) <= 1)%nat) /\
                   (length fs1 <= length fs)%nat).
    { repeat split; auto; try (apply C1; assumption).
      intros _. unfold countb. pose proof (filter_length_le' is_complete (outs evs1)). lia. }
    assert (Step : forall evs2 w2 fs2 res2,
              run_ops c cols fmts stop r w1 fs1 tl = (evs2, w2, fs2, res2) ->
              forallb handler_msg (outs (evs1 ++ evs2)) = true /\
              w_written w2 = w_written w + Z.of_nat (countb is_datarow (outs (evs1 ++ evs2))) /\
              (w_closed w = true -> w_closed w2 = true /\ outs (evs1 ++ evs2) = []) /\
              (w_closed w = false -> (countb is_complete (outs (evs1 ++ evs2)) <= 1)%nat) /\
              (length fs2 <= length fs)%nat).
    { intros evs2 w2 fs2 res2 E2. destruct (IH _ _ _ _ _ _ _ E2) as (A2 & W2 & C2 & K2 & S2).
      rewrite outs_app, countb_app, forallb_app', countb_app.
      repeat split.
      - rewrite A1, A2. reflexivity.
      - lia.
      - apply C2. apply C1. assumption.
      - destruct (C1 H0) as [Hc1 O1]. destruct (C2 Hc1) as [_ O2]. rewrite O1, O2. reflexivity.
      - intros Hopen. destruct (w_closed w1) eqn:Ew1.
        + destruct (C2 eq_refl) as [_ O2]. rewrite O2. cbn.
          unfold countb. pose proof (filter_length_le' is_complete (outs evs1)). lia.
        + specialize (K2 eq_refl).
          assert (countb is_complete (outs evs1) = 0)%nat.
          { destruct (countb is_complete (outs evs1)) as [|[|n]] eqn:En; auto.
            - destruct (K1 eq_refl) as [_ X]. congruence.
            - exfalso. unfold countb in En. pose proof (filter_length_le' is_complete (outs evs1)). lia. }
          lia.
      - lia. }
    destruct st.
    + destruct (run_ops c cols fmts stop r w1 fs1 tl) as [[[evs2 w2] fs2] res2] eqn:E2.
      injection H as <- <- <- <-. eapply Step; eauto.
    + destruct stop.
      * injection H as <- <- <- <-. exact Base.
      * destruct (run_ops c cols fmts false r w1 fs1 tl) as [[[evs2 w2] fs2] res2] eqn:E2.
        injection H as <- <- <- <-. eapply Step; eauto.
    + injection H as <- <- <- <-. exact Base.
Qed.
