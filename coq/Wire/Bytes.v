(* Bytes.v — byte strings, big-endian integers, C strings.
   Model conventions (DESIGN §2.2): a Go []byte / string is a [list byte];
   lengths on the wire are [N]/[Z]; list positions are [nat]. *)
From Coq Require Export List NArith ZArith Bool Lia.
From Coq.Strings Require Export Byte.
Export ListNotations.

Definition bytes := list byte.

Definition bN (b : byte) : N := Byte.to_N b.
Definition bZ (b : byte) : Z := Z.of_N (Byte.to_N b).

(* byte of a number, taken modulo 256 (Go's byte(x) conversion) *)
Definition byte_of_N (n : N) : byte :=
  match Byte.of_N (n mod 256) with Some b => b | None => x00 end.
Definition byte_of_Z (z : Z) : byte := byte_of_N (Z.to_N (z mod 256)%Z).

Definition byte_eqb (a b : byte) : bool := Byte.eqb a b.

Fixpoint bytes_eqb (a b : bytes) : bool :=
  match a, b with
  | [], [] => true
  | x :: a', y :: b' => Byte.eqb x y && bytes_eqb a' b'
  | _, _ => false
  end.

(* big-endian encodings; the argument is reduced modulo 2^16 / 2^32, which is
   what Go's uint16(x)/uint32(x) conversions do for two's complement input *)
Definition be16 (z : Z) : bytes :=
  let m := (z mod 65536)%Z in [byte_of_Z (m / 256)%Z; byte_of_Z m].
Definition be32 (z : Z) : bytes :=
  let m := (z mod 4294967296)%Z in
  [byte_of_Z (m / 16777216)%Z; byte_of_Z (m / 65536)%Z; byte_of_Z (m / 256)%Z; byte_of_Z m].

(* unsigned readers *)
Definition rd16 (a b : byte) : Z := (bZ a * 256 + bZ b)%Z.
Definition rd32 (a b c d : byte) : Z :=
  (bZ a * 16777216 + bZ b * 65536 + bZ c * 256 + bZ d)%Z.

(* signed reinterpretation (int32(x), int16(x)) *)
Definition s32 (z : Z) : Z := if (z >=? 2147483648)%Z then (z - 4294967296)%Z else z.
Definition s16 (z : Z) : Z := if (z >=? 32768)%Z then (z - 65536)%Z else z.

Definition lenZ {A} (l : list A) : Z := Z.of_nat (length l).

(* take exactly n elements, or fail: the checked form of Go's l[:n], l[n:] *)
Fixpoint take_exact {A} (n : nat) (l : list A) : option (list A * list A) :=
  match n with
  | O => Some ([], l)
  | S n' =>
      match l with
      | [] => None
      | x :: r =>
          match take_exact n' r with
          | Some (a, b) => Some (x :: a, b)
          | None => None
          end
      end
  end.

(* C strings *)
Definition cstr (s : bytes) : bytes := s ++ [x00].

Fixpoint nul_free (s : bytes) : bool :=
  match s with
  | [] => true
  | b :: r => negb (Byte.eqb b x00) && nul_free r
  end.

(* split at the first NUL: Some (before, after) — bytes.IndexByte(msg, 0) *)
Fixpoint take_cstr (l : bytes) : option (bytes * bytes) :=
  match l with
  | [] => None
  | b :: r =>
      if Byte.eqb b x00 then Some ([], r)
      else match take_cstr r with
           | Some (s, t) => Some (b :: s, t)
           | None => None
           end
  end.

(* ASCII helpers *)
Definition is_digit (b : byte) : bool := ((48 <=? bN b) && (bN b <=? 57))%N.
Definition digit_val (b : byte) : Z := (bZ b - 48)%Z.

(* decimal value of a digit string, unbounded *)
Definition dec_val (ds : bytes) : Z :=
  fold_left (fun acc b => acc * 10 + digit_val b)%Z ds 0%Z.

(* strconv.Itoa: decimal text of an integer *)
Fixpoint dec_digits_pos (fuel : nat) (n : N) (acc : bytes) : bytes :=
  match fuel with
  | O => acc
  | S f =>
      let d := byte_of_N (48 + n mod 10)%N in
      if (n <? 10)%N then d :: acc else dec_digits_pos f (n / 10)%N (d :: acc)
  end.
Definition itoa (z : Z) : bytes :=
  if (z <? 0)%Z then x2d :: dec_digits_pos 40 (Z.to_N (- z)%Z) []
  else dec_digits_pos 40 (Z.to_N z) [].

(* hex, for the interchange with the harness and for compact test vectors *)
Definition hex_digit (n : N) : byte :=
  if (n <? 10)%N then byte_of_N (48 + n)%N else byte_of_N (87 + n)%N.
Definition hex_of_bytes (l : bytes) : bytes :=
  flat_map (fun b => [hex_digit (bN b / 16)%N; hex_digit (bN b mod 16)%N]) l.
Definition hex_val (b : byte) : N :=
  let n := bN b in
  if ((48 <=? n) && (n <=? 57))%N then (n - 48)%N
  else if ((97 <=? n) && (n <=? 102))%N then (n - 87)%N
  else if ((65 <=? n) && (n <=? 70))%N then (n - 55)%N else 0%N.
Fixpoint bytes_of_hex (l : bytes) : bytes :=
  match l with
  | a :: b :: r => byte_of_N (hex_val a * 16 + hex_val b)%N :: bytes_of_hex r
  | _ => []
  end.

(* bytes of a Coq string literal: used only in examples/constants *)
From Coq Require Import String Ascii.
Fixpoint bs (s : string) : bytes :=
  match s with
  | EmptyString => []
  | String a r => byte_of_ascii a :: bs r
  end.
Definition hx (s : string) : bytes := bytes_of_hex (bs s).
