(* Copy.v — model of BinaryCopyReader (copy.go): decoding binary COPY rows from
   the sequence of CopyData payloads the client sent.

   The reader keeps the undecoded bytes ([pending]) and pulls further CopyData
   payloads on demand; [fill n]/[next n] are exact-length reads over
   "pending followed by the remaining payloads", i.e. [read_full] over a segment
   list (Transport.v).  [ending] says how the client ended the stream: CopyDone
   (end-of-stream) or an abort (CopyFail / foreign message / read error). *)
Require Import Wire.Bytes Spec.BackendSpec Wire.Transport.
Local Open Scope list_scope.
Local Open Scope Z_scope.

Inductive ending := EDone | EAbort.

(* decoded values *)
Inductive dval := DNull | DInt (z : Z) | DBool (b : bool) | DBytes (b : bytes).

(* binary-format decoders of pgx for the modelled column types *)
Definition s64 (z : Z) : Z := if z >=? 9223372036854775808 then z - 18446744073709551616 else z.
Definition rd64 (l : bytes) : Z := fold_left (fun acc b => acc * 256 + bZ b) l 0.

Definition decode_binary (oid : Z) (v : bytes) : option dval :=
  if oid =? 16 then match v with [b] => Some (DBool (negb (Byte.eqb b x00))) | _ => None end
  else if oid =? 21 then match v with [a; b] => Some (DInt (s16 (rd16 a b))) | _ => None end
  else if oid =? 23 then match v with [a; b; c; d] => Some (DInt (s32 (rd32 a b c d))) | _ => None end
  else if oid =? 20 then if (lenZ v =? 8) then Some (DInt (s64 (rd64 v))) else None
  else if (oid =? 25) || (oid =? 1043) || (oid =? 17) then Some (DBytes v)
  else if oid =? 2950 then if (lenZ v =? 16) then Some (DBytes v) else None
  else None.

Definition copy_signature : bytes := [x50; x47; x43; x4f; x50; x59; x0a; xff; x0d; x0a; x00].

Inductive rowres := CRow (vs : list dval) | CEnd | CFail.

(* the fields of one row, for the remaining column OIDs *)
Fixpoint read_fields (L : Z) (oids : list Z) (segs : list bytes) : option (list dval) * list bytes :=
  match oids with
  | [] => (Some [], segs)
  | oid :: rest =>
      match read_full 4 segs with
      | Some ([a; b; c; d], segs1) =>
          let len := rd32 a b c d in
          if len =? 4294967295 then
            match read_fields L rest segs1 with
            | (Some vs, segs2) => (Some (DNull :: vs), segs2)
            | (None, segs2) => (None, segs2)
            end
          else if len >? L then (None, segs1)
          else match read_full (Z.to_nat len) segs1 with
               | Some (v, segs2) =>
                   match decode_binary oid v with
                   | Some d => match read_fields L rest segs2 with
                               | (Some vs, segs3) => (Some (d :: vs), segs3)
                               | (None, segs3) => (None, segs3)
                               end
                   | None => (None, segs2)
                   end
               | None => (None, segs1)
               end
      | _ => (None, segs)
      end
  end.

Record bstate := { b_segs : list bytes; b_started : bool; b_over : bool (* trailer seen / stream finished *) }.

(* the optional stream header, handled by the first Read *)
Definition header_segs (started : bool) (e : ending) (segs : list bytes) : option (list bytes) :=
  if started then Some segs
  else match read_full 11 segs with
       | Some (p, _) =>
           if bytes_eqb p copy_signature then
             match read_full 19 segs with
             | Some (_, segs') => Some segs'
             | None => None       (* signature but the stream ends inside the header *)
             end
           else Some segs
       | None => (* fewer than 11 bytes in the whole stream *)
           match e with EDone => Some segs | EAbort => None end
       end.

(* BinaryCopyReader.Read *)
Definition read_row (L : Z) (oids : list Z) (e : ending) (s : bstate) : rowres * bstate :=
  let at_end := match e with EDone => CEnd | EAbort => CFail end in
  if b_over s then (at_end, s) else
  match header_segs (b_started s) e (b_segs s) with
  | None => (CFail, {| b_segs := b_segs s; b_started := true; b_over := true |})
  | Some segs =>
      match read_full 1 segs with
      | None => (at_end, {| b_segs := segs; b_started := true; b_over := true |})
      | Some _ =>
          match read_full 2 segs with
          | Some ([a; b], segs1) =>
              let fields := rd16 a b in
              if fields =? 65535 then (at_end, {| b_segs := segs1; b_started := true; b_over := true |})
              else if negb (fields =? lenZ oids) then (CFail, {| b_segs := segs1; b_started := true; b_over := false |})
              else match read_fields L oids segs1 with
                   | (Some vs, segs2) => (CRow vs, {| b_segs := segs2; b_started := true; b_over := false |})
                   | (None, segs2) => (CFail, {| b_segs := segs2; b_started := true; b_over := false |})
                   end
          | _ => (CFail, {| b_segs := segs; b_started := true; b_over := true |})
          end
      end
  end.

(* a handler that reads until end-of-stream or the first error *)
Fixpoint read_all (fuel : nat) (L : Z) (oids : list Z) (e : ending) (s : bstate) : list (list dval) * rowres :=
  match fuel with
  | O => ([], CFail)
  | S f =>
      match read_row L oids e s with
      | (CRow vs, s') => let (rows, fin) := read_all f L oids e s' in (vs :: rows, fin)
      | (r, _) => ([], r)
      end
  end.

Definition decode_all (L : Z) (oids : list Z) (e : ending) (chunks : list bytes) : list (list dval) * rowres :=
  read_all (S (length (concat chunks))) L oids e {| b_segs := chunks; b_started := false; b_over := false |}.

(* ---------- the client's encoder (specification side) ---------- *)
Definition enc_dval (oid : Z) (d : dval) : bytes :=
  match d with
  | DNull => be32 4294967295
  | DBool b => be32 1 ++ [if b then x01 else x00]
  | DInt z =>
      if oid =? 21 then be32 2 ++ be16 z
      else if oid =? 23 then be32 4 ++ be32 z
      else be32 8 ++ (be32 ((z mod 18446744073709551616) / 4294967296) ++ be32 z)
  | DBytes b => be32 (lenZ b) ++ b
  end.

Fixpoint enc_fields (oids : list Z) (vs : list dval) : bytes :=
  match oids, vs with
  | o :: orest, v :: vrest => enc_dval o v ++ enc_fields orest vrest
  | _, _ => []
  end.
Definition enc_row (oids : list Z) (vs : list dval) : bytes := be16 (lenZ vs) ++ enc_fields oids vs.
Definition copy_header : bytes := copy_signature ++ be32 0 ++ be32 0.
Definition copy_trailer : bytes := be16 65535.
