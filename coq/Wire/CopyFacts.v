(* CopyFacts.v — the binary COPY decoder is a function of the concatenated
   stream (independent of the CopyData boundaries). *)
Require Import Wire.Bytes Spec.BackendSpec Wire.Transport Wire.TransportFacts Wire.Copy.
Local Open Scope list_scope.
Local Open Scope Z_scope.

Definition seq (a b : list bytes) : Prop := concat a = concat b.

Lemma read_full_cong n a b : seq a b ->
  match read_full n a, read_full n b with
  | Some (x, a'), Some (y, b') => x = y /\ seq a' b'
  | None, None => True
  | _, _ => False
  end.
Proof. exact (read_full_segmentation n a b). Qed.

Lemma read_fields_cong L oids : forall a b, seq a b ->
  fst (read_fields L oids a) = fst (read_fields L oids b) /\
  seq (snd (read_fields L oids a)) (snd (read_fields L oids b)).
Proof.
  induction oids as [|oid rest IH]; intros a b E; cbn [read_fields].
  - cbn. auto.
  - pose proof (read_full_cong 4 a b E) as R4.
    destruct (read_full 4 a) as [[x a1]|], (read_full 4 b) as [[y b1]|]; try contradiction; [|cbn; auto].
    destruct R4 as [-> E1].
    destruct y as [|q [|w [|e [|r [|? ?]]]]]; try (cbn; auto).
    destruct (rd32 q w e r =? 4294967295).
    { destruct (IH a1 b1 E1) as [F S]. destruct (read_fields L rest a1) as [[va|] a2], (read_fields L rest b1) as [[vb|] b2];
        cbn in *; try discriminate; auto. injection F as ->. auto. }
    destruct (rd32 q w e r >? L); [cbn; auto|].
    pose proof (read_full_cong (Z.to_nat (rd32 q w e r)) a1 b1 E1) as Rv.
    destruct (read_full (Z.to_nat (rd32 q w e r)) a1) as [[v a2]|], (read_full (Z.to_nat (rd32 q w e r)) b1) as [[v' b2]|];
      try contradiction; [|cbn; auto].
    destruct Rv as [-> E2]. destruct (decode_binary oid v') as [d|]; [|cbn; auto].
    destruct (IH a2 b2 E2) as [F S]. destruct (read_fields L rest a2) as [[va|] a3], (read_fields L rest b2) as [[vb|] b3];
      cbn in *; try discriminate; auto. injection F as ->. auto.
Qed.

Definition bseq (s t : bstate) : Prop :=
  seq (b_segs s) (b_segs t) /\ b_started s = b_started t /\ b_over s = b_over t.

Lemma header_cong st e a b : seq a b ->
  match header_segs st e a, header_segs st e b with
  | Some x, Some y => seq x y
  | None, None => True
  | _, _ => False
  end.
Proof.
  intros E. unfold header_segs. destruct st; [exact E|].
  pose proof (read_full_cong 11 _ _ E) as R11.
  destruct (read_full 11 a) as [[p a1]|], (read_full 11 b) as [[p' b1]|]; try contradiction.
  - destruct R11 as [-> _]. destruct (bytes_eqb p' copy_signature); [|exact E].
    pose proof (read_full_cong 19 _ _ E) as R19.
    destruct (read_full 19 a) as [[h a2]|], (read_full 19 b) as [[h' b2]|]; try contradiction; auto.
    destruct R19; auto.
  - destruct e; auto.
Qed.

Lemma read_row_cong L oids e s t : bseq s t ->
  fst (read_row L oids e s) = fst (read_row L oids e t) /\ bseq (snd (read_row L oids e s)) (snd (read_row L oids e t)).
Proof.
  intros (E & St & Ov). unfold read_row. rewrite <- St, <- Ov.
  destruct (b_over s) eqn:Eo; [unfold bseq; cbn; repeat split; auto; try exact E; try exact H; try exact E1; try congruence|].
  pose proof (header_cong (b_started s) e _ _ E) as H.
  destruct (header_segs (b_started s) e (b_segs s)) as [x|], (header_segs (b_started s) e (b_segs t)) as [y|]; try contradiction.
  2:{ unfold bseq; cbn; repeat split; auto; try exact E; try exact H; try exact E1; try congruence. }
  pose proof (read_full_cong 1 _ _ H) as R1.
  destruct (read_full 1 x) as [[? ?]|], (read_full 1 y) as [[? ?]|]; try contradiction.
  2:{ unfold bseq; cbn; repeat split; auto; try exact E; try exact H; try exact E1; try congruence. }
  pose proof (read_full_cong 2 _ _ H) as R2.
  destruct (read_full 2 x) as [[h a1]|], (read_full 2 y) as [[h' b1]|]; try contradiction.
  2:{ unfold bseq; cbn; repeat split; auto; try exact E; try exact H; try exact E1; try congruence. }
  destruct R2 as [-> E1].
  destruct h' as [|q [|w [|? ?]]]; try solve [unfold bseq; cbn; repeat split; auto; try exact E; try exact H; try exact E1; try congruence].
  destruct (rd16 q w =? 65535); [unfold bseq; cbn; repeat split; auto; try exact E; try exact H; try exact E1; try congruence|].
  destruct (negb (rd16 q w =? lenZ oids)); [unfold bseq; cbn; repeat split; auto; try exact E; try exact H; try exact E1; try congruence|].
  destruct (read_fields_cong L oids a1 b1 E1) as [F S].
  destruct (read_fields L oids a1) as [[va|] a2], (read_fields L oids b1) as [[vb|] b2]; cbn in *; try discriminate.
  - injection F as ->. unfold bseq; cbn; repeat split; auto.
  - unfold bseq; cbn; repeat split; auto.
Qed.

Lemma read_all_cong L oids e : forall fuel s t, bseq s t -> read_all fuel L oids e s = read_all fuel L oids e t.
Proof.
  induction fuel as [|f IH]; intros s t B; cbn [read_all]; [reflexivity|].
  destruct (read_row_cong L oids e s t B) as [F S].
  destruct (read_row L oids e s) as [r1 s1], (read_row L oids e t) as [r2 t1]. cbn in F, S. subst r2.
  destruct r1; auto. rewrite (IH s1 t1 S). reflexivity.
Qed.

(* the rows (and the final outcome) depend only on the concatenation of the
   CopyData payloads: every split of the stream, including empty payloads and cuts
   inside the signature, a count, a length or a value, decodes identically *)
Theorem decode_all_chunking L oids e chunks1 chunks2 :
  concat chunks1 = concat chunks2 -> decode_all L oids e chunks1 = decode_all L oids e chunks2.
Proof.
  intros E. unfold decode_all. rewrite E. apply read_all_cong. repeat split; auto.
Qed.

(* never a crash: [decode_all] is total; a malformed row is a failure result, not a row *)
Lemma read_row_bad_count L oids e segs a b rest :
  read_full 1 segs <> None -> read_full 2 segs = Some ([a; b], rest) ->
  rd16 a b <> 65535 -> rd16 a b <> lenZ oids ->
  fst (read_row L oids e {| b_segs := segs; b_started := true; b_over := false |}) = CFail.
Proof.
  intros H1 H2 Ht Hc. unfold read_row, header_segs. cbn [b_over b_started b_segs].
  destruct (read_full 1 segs); [|contradiction]. rewrite H2.
  destruct (Z.eqb_spec (rd16 a b) 65535); [contradiction|].
  destruct (Z.eqb_spec (rd16 a b) (lenZ oids)); [contradiction|]. reflexivity.
Qed.
