(* CloseModel.v — executable small-step model of the shutdown protocol
   (Server.Close / consumeSingleCommand / the accept helper of Serve).

   Definitions only; every function is structurally recursive or a plain
   match, so the file extracts to OCaml as is.  Proofs are in CloseFacts.v,
   the property statements in Props/C16.v.

   Threads ("actors"):
     ACloser i  — the i-th concurrent caller of Server.Close
     AWorker i  — the i-th connection goroutine; it loops over client
                  messages and owns a budget of messages still to be read
     AHelper    — the goroutine started by Serve: <-srv.closer; listener.Close();
                  wg.Done().  Serve's wg.Add(1) for it has already happened in
                  the initial state (wg = 1).

   Atomic steps of the REPAIRED protocol.

     closer   CEnter   closeOnce.Do entry: first caller -> CLock (once := running);
                       once done -> CWait; once running -> BLOCKED
              CLock    srv.mu.Lock()          needs no writer and no reader
              CStore   srv.closing.Store(true)
              CUnlock  srv.mu.Unlock()
              CChan    close(srv.closer); the Once function ends (once := done);
                       closing a closed channel sets the ghost [panicked]
              CWait    srv.wg.Wait()          needs wg = 0; Close returns
              CRet     finished

     worker   WRead        a client message is read   (needs budget > 0)
              WRLock       srv.mu.RLock()             needs no writer
              WLoad        srv.closing.Load()         true -> WSkipUnlock (dropped)
                                                      false -> WAdd
              WSkipUnlock  srv.mu.RUnlock(); return   -> WRead
              WAdd         srv.wg.Add(1)
              WRUnlock     srv.mu.RUnlock()
              WStart       handler start (ghost: started_after_return, handled)
              WEnd         handler end
              WDone        srv.wg.Done()              -> WRead

   The PINNED (pre-repair) protocol reuses the state record and the pc types
   with a subset of the pcs:

     closer   CEnter  srv.closing.Load(): true -> return (CRet), false -> CStore
              CStore  srv.closing.Store(true)          -> CChan
              CChan   close(srv.closer)                -> CWait
              CWait   srv.wg.Wait()                    -> CRet
     worker   WRead -> WLoad -> (WRead | WAdd -> WStart -> WEnd -> WDone -> WRead)  *)
From Coq Require Import List Arith ZArith Bool.
Import ListNotations.

Inductive cpc := CEnter | CLock | CStore | CUnlock | CChan | CWait | CRet.
Inductive wpc :=
  WRead | WRLock | WLoad | WSkipUnlock | WAdd | WRUnlock | WStart | WEnd | WDone.
Inductive once_st := OIdle | ORunning | ODone.

Record st := mkst {
  closing : bool;               (* srv.closing *)
  once : once_st;               (* srv.closeOnce *)
  writer : bool;                (* srv.mu held for writing *)
  readers : nat;                (* number of read locks held on srv.mu *)
  chan_closed : bool;           (* srv.closer closed *)
  wg : Z;                       (* srv.wg counter *)
  helper_alive : bool;          (* accept helper has not yet done wg.Done() *)
  (* ghost state *)
  panicked : bool;              (* close of a closed channel happened *)
  returned : bool;              (* some Close call has returned *)
  started_after_return : bool;  (* a handler started after some Close returned *)
  handled : nat;                (* number of handler starts *)
  dropped : nat;                (* number of messages dropped because closing *)
  (* threads *)
  closers : list cpc;
  workers : list wpc;
  budgets : list nat            (* per worker: messages still to be read *)
}.

Inductive actor := ACloser (i : nat) | AWorker (i : nat) | AHelper.

Fixpoint upd {A} (l : list A) (i : nat) (x : A) : list A :=
  match l, i with
  | [], _ => []
  | _ :: l, O => x :: l
  | a :: l, S i => a :: upd l i x
  end.

Definition cnt {A} (p : A -> bool) (l : list A) : nat := length (filter p l).

(* ---- field updates ---- *)
Definition set_closing s v := mkst v (once s) (writer s) (readers s) (chan_closed s) (wg s)
  (helper_alive s) (panicked s) (returned s) (started_after_return s) (handled s) (dropped s)
  (closers s) (workers s) (budgets s).
Definition set_once s v := mkst (closing s) v (writer s) (readers s) (chan_closed s) (wg s)
  (helper_alive s) (panicked s) (returned s) (started_after_return s) (handled s) (dropped s)
  (closers s) (workers s) (budgets s).
Definition set_writer s v := mkst (closing s) (once s) v (readers s) (chan_closed s) (wg s)
  (helper_alive s) (panicked s) (returned s) (started_after_return s) (handled s) (dropped s)
  (closers s) (workers s) (budgets s).
Definition set_readers s v := mkst (closing s) (once s) (writer s) v (chan_closed s) (wg s)
  (helper_alive s) (panicked s) (returned s) (started_after_return s) (handled s) (dropped s)
  (closers s) (workers s) (budgets s).
Definition set_chan s v := mkst (closing s) (once s) (writer s) (readers s) v (wg s)
  (helper_alive s) (panicked s) (returned s) (started_after_return s) (handled s) (dropped s)
  (closers s) (workers s) (budgets s).
Definition set_wg s v := mkst (closing s) (once s) (writer s) (readers s) (chan_closed s) v
  (helper_alive s) (panicked s) (returned s) (started_after_return s) (handled s) (dropped s)
  (closers s) (workers s) (budgets s).
Definition set_helper s v := mkst (closing s) (once s) (writer s) (readers s) (chan_closed s) (wg s)
  v (panicked s) (returned s) (started_after_return s) (handled s) (dropped s)
  (closers s) (workers s) (budgets s).
Definition set_panicked s v := mkst (closing s) (once s) (writer s) (readers s) (chan_closed s) (wg s)
  (helper_alive s) v (returned s) (started_after_return s) (handled s) (dropped s)
  (closers s) (workers s) (budgets s).
Definition set_returned s v := mkst (closing s) (once s) (writer s) (readers s) (chan_closed s) (wg s)
  (helper_alive s) (panicked s) v (started_after_return s) (handled s) (dropped s)
  (closers s) (workers s) (budgets s).
Definition set_sar s v := mkst (closing s) (once s) (writer s) (readers s) (chan_closed s) (wg s)
  (helper_alive s) (panicked s) (returned s) v (handled s) (dropped s)
  (closers s) (workers s) (budgets s).
Definition set_handled s v := mkst (closing s) (once s) (writer s) (readers s) (chan_closed s) (wg s)
  (helper_alive s) (panicked s) (returned s) (started_after_return s) v (dropped s)
  (closers s) (workers s) (budgets s).
Definition set_dropped s v := mkst (closing s) (once s) (writer s) (readers s) (chan_closed s) (wg s)
  (helper_alive s) (panicked s) (returned s) (started_after_return s) (handled s) v
  (closers s) (workers s) (budgets s).
Definition set_closers s v := mkst (closing s) (once s) (writer s) (readers s) (chan_closed s) (wg s)
  (helper_alive s) (panicked s) (returned s) (started_after_return s) (handled s) (dropped s)
  v (workers s) (budgets s).
Definition set_workers s v := mkst (closing s) (once s) (writer s) (readers s) (chan_closed s) (wg s)
  (helper_alive s) (panicked s) (returned s) (started_after_return s) (handled s) (dropped s)
  (closers s) v (budgets s).
Definition set_budgets s v := mkst (closing s) (once s) (writer s) (readers s) (chan_closed s) (wg s)
  (helper_alive s) (panicked s) (returned s) (started_after_return s) (handled s) (dropped s)
  (closers s) (workers s) v.

(* move closer / worker i to a new pc *)
Definition cgo s i pc := set_closers s (upd (closers s) i pc).
Definition wgo s i pc := set_workers s (upd (workers s) i pc).

(* ---- repaired protocol ---- *)
Definition closer_step (s : st) (i : nat) (pc : cpc) : option st :=
  match pc with
  | CEnter =>
      match once s with
      | OIdle => Some (set_once (cgo s i CLock) ORunning)
      | ORunning => None
      | ODone => Some (cgo s i CWait)
      end
  | CLock =>
      if writer s then None
      else if readers s =? 0 then Some (set_writer (cgo s i CStore) true) else None
  | CStore => Some (set_closing (cgo s i CUnlock) true)
  | CUnlock => Some (set_writer (cgo s i CChan) false)
  | CChan =>
      Some (set_panicked (set_chan (set_once (cgo s i CWait) ODone) true)
                         (panicked s || chan_closed s))
  | CWait =>
      if (wg s =? 0)%Z then Some (set_returned (cgo s i CRet) true) else None
  | CRet => None
  end.

Definition worker_step (s : st) (i : nat) (pc : wpc) : option st :=
  match pc with
  | WRead =>
      match nth_error (budgets s) i with
      | Some (S n) => Some (set_budgets (wgo s i WRLock) (upd (budgets s) i n))
      | _ => None
      end
  | WRLock =>
      if writer s then None else Some (set_readers (wgo s i WLoad) (S (readers s)))
  | WLoad =>
      if closing s then Some (set_dropped (wgo s i WSkipUnlock) (S (dropped s)))
      else Some (wgo s i WAdd)
  | WSkipUnlock => Some (set_readers (wgo s i WRead) (pred (readers s)))
  | WAdd => Some (set_wg (wgo s i WRUnlock) (wg s + 1)%Z)
  | WRUnlock => Some (set_readers (wgo s i WStart) (pred (readers s)))
  | WStart =>
      Some (set_handled (set_sar (wgo s i WEnd) (started_after_return s || returned s))
                        (S (handled s)))
  | WEnd => Some (wgo s i WDone)
  | WDone => Some (set_wg (wgo s i WRead) (wg s - 1)%Z)
  end.

Definition helper_step (s : st) : option st :=
  if helper_alive s then
    if chan_closed s then Some (set_wg (set_helper s false) (wg s - 1)%Z) else None
  else None.

Definition exec (s : st) (a : actor) : option st :=
  match a with
  | ACloser i =>
      match nth_error (closers s) i with Some pc => closer_step s i pc | None => None end
  | AWorker i =>
      match nth_error (workers s) i with Some pc => worker_step s i pc | None => None end
  | AHelper => helper_step s
  end.

Definition enabled (s : st) (a : actor) : bool :=
  match exec s a with Some _ => true | None => false end.

Definition run (s : st) (sched : list actor) : st :=
  fold_left (fun s a => match exec s a with Some s' => s' | None => s end) sched s.

Definition init (nclosers : nat) (budgets : list nat) : st :=
  mkst false OIdle false 0 false 1%Z true false false false 0 0
       (repeat CEnter nclosers) (repeat WRead (length budgets)) budgets.

(* ---- observations used by the properties ---- *)
Definition w_running (pc : wpc) : bool := match pc with WEnd => true | _ => false end.
Definition w_counted (pc : wpc) : bool :=
  match pc with WRUnlock | WStart | WEnd | WDone => true | _ => false end.
(* number of workers between handler start and handler end *)
Definition running (s : st) : nat := cnt w_running (workers s).
(* number of workers whose wg.Add(1) is not yet matched by wg.Done() *)
Definition counted (s : st) : nat := cnt w_counted (workers s).

(* the action is not "a worker reads a new client message" *)
Definition not_fresh_read (s : st) (a : actor) : bool :=
  match a with
  | AWorker i => match nth_error (workers s) i with Some WRead => false | _ => true end
  | _ => true
  end.

Definition c_rank (pc : cpc) : nat :=
  match pc with
  | CEnter => 6 | CLock => 5 | CStore => 4 | CUnlock => 3 | CChan => 2 | CWait => 1 | CRet => 0
  end.
Definition w_rank (pc : wpc) : nat :=
  match pc with
  | WRead => 0 | WRLock => 7 | WLoad => 6 | WSkipUnlock => 1
  | WAdd => 5 | WRUnlock => 4 | WStart => 3 | WEnd => 2 | WDone => 1
  end.
Definition sum {A} (f : A -> nat) (l : list A) : nat := fold_right (fun x n => f x + n) 0 l.
(* termination measure: an upper bound on the number of steps that can still
   be taken without reading a new client message *)
Definition mu (s : st) : nat :=
  sum c_rank (closers s) + sum w_rank (workers s) + (if helper_alive s then 1 else 0).
(* ... and on the number of steps of any kind (budgets are finite) *)
Definition mu_total (s : st) : nat := mu s + 8 * sum (fun n => n) (budgets s).

(* every action of the schedule is enabled when its turn comes and none reads
   a new client message *)
Fixpoint nonread_sched (s : st) (sched : list actor) : bool :=
  match sched with
  | [] => true
  | a :: r =>
      match exec s a with
      | Some s' => not_fresh_read s a && nonread_sched s' r
      | None => false
      end
  end.

Definition c_pending (pc : cpc) : bool := match pc with CRet => false | _ => true end.
(* number of Close calls that have not yet returned *)
Definition pending (s : st) : nat := cnt c_pending (closers s).

(* ---- pinned (pre-repair) protocol ---- *)
Definition closer_step_pinned (s : st) (i : nat) (pc : cpc) : option st :=
  match pc with
  | CEnter =>
      if closing s then Some (set_returned (cgo s i CRet) true) else Some (cgo s i CStore)
  | CStore => Some (set_closing (cgo s i CChan) true)
  | CChan =>
      Some (set_panicked (set_chan (cgo s i CWait) true) (panicked s || chan_closed s))
  | CWait =>
      if (wg s =? 0)%Z then Some (set_returned (cgo s i CRet) true) else None
  | _ => None
  end.

Definition worker_step_pinned (s : st) (i : nat) (pc : wpc) : option st :=
  match pc with
  | WRead =>
      match nth_error (budgets s) i with
      | Some (S n) => Some (set_budgets (wgo s i WLoad) (upd (budgets s) i n))
      | _ => None
      end
  | WLoad =>
      if closing s then Some (set_dropped (wgo s i WRead) (S (dropped s)))
      else Some (wgo s i WAdd)
  | WAdd => Some (set_wg (wgo s i WStart) (wg s + 1)%Z)
  | WStart =>
      Some (set_handled (set_sar (wgo s i WEnd) (started_after_return s || returned s))
                        (S (handled s)))
  | WEnd => Some (wgo s i WDone)
  | WDone => Some (set_wg (wgo s i WRead) (wg s - 1)%Z)
  | _ => None
  end.

Definition exec_pinned (s : st) (a : actor) : option st :=
  match a with
  | ACloser i =>
      match nth_error (closers s) i with Some pc => closer_step_pinned s i pc | None => None end
  | AWorker i =>
      match nth_error (workers s) i with Some pc => worker_step_pinned s i pc | None => None end
  | AHelper => helper_step s
  end.

Definition enabled_pinned (s : st) (a : actor) : bool :=
  match exec_pinned s a with Some _ => true | None => false end.

Definition run_pinned (s : st) (sched : list actor) : st :=
  fold_left (fun s a => match exec_pinned s a with Some s' => s' | None => s end) sched s.

Definition init_pinned (nclosers : nat) (budgets : list nat) : st := init nclosers budgets.
