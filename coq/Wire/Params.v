(* Params.v — model of wire.ParseParameters (options.go).

   Go: matches := regexp(`\$(\d+)|\?`).FindAllStringSubmatch(query, -1)
       for each match: "?"  -> parameters = append(parameters, 0)
                       "$k" -> position := Atoi(k) clamped to 65535 (also on
                               overflow); append zeros until len >= position
       finally truncate to 65535 entries.

   RE2 leftmost-first, non-overlapping matching of this expression is the
   following byte scanner: at a '$' followed by at least one ASCII digit the
   maximal digit run is consumed (\d+ is greedy and ASCII-only in Go);
   otherwise a '?' matches alone; otherwise one byte is skipped.  Bytes >= 0x80
   never match, so working on bytes instead of runes is exact. *)
Require Import Wire.Bytes.

Inductive marker := MQ | MD (digits : bytes).

(* scanner state: [None] outside a marker, [Some ds] after '$' with the digits
   collected so far (in order) *)
Definition flush (st : option bytes) : list marker :=
  match st with
  | Some (d :: ds) => [MD (d :: ds)]
  | _ => []
  end.

Fixpoint scan (st : option bytes) (q : bytes) : list marker :=
  match q with
  | [] => flush st
  | b :: r =>
      match st with
      | Some ds =>
          if is_digit b then scan (Some (ds ++ [b])) r
          else flush st ++
               (if Byte.eqb b x24 then scan (Some []) r
                else if Byte.eqb b x3f then MQ :: scan None r
                else scan None r)
      | None =>
          if Byte.eqb b x24 then scan (Some []) r
          else if Byte.eqb b x3f then MQ :: scan None r
          else scan None r
      end
  end.

Definition markers (q : bytes) : list marker := scan None q.

Definition max_args : Z := 65535.

(* one loop iteration on the length of [parameters] *)
Definition pp_step (n : Z) (m : marker) : Z :=
  match m with
  | MQ => (n + 1)%Z
  | MD ds => Z.max n (Z.min max_args (dec_val ds))
  end.

(* length before the final truncation: also the number of appends performed *)
Definition pp_raw (q : bytes) : Z := fold_left pp_step (markers q) 0%Z.

Definition parse_parameters_len (q : bytes) : Z := Z.min max_args (pp_raw q).

(* the returned slice: that many unspecified (zero) OIDs *)
Definition parse_parameters (q : bytes) : list Z :=
  repeat 0%Z (Z.to_nat (parse_parameters_len q)).

(* pinned behaviour (before the fix): reslicing beyond the capacity panics.
   cap = number of matches; "?" appends; "$k" with k > len reslices to k, which
   panics when k > cap.  None = panic. *)
Definition pp_pinned_step (cap : Z) (acc : option Z) (m : marker) : option Z :=
  match acc with
  | None => None
  | Some n =>
      match m with
      | MQ => Some (n + 1)%Z
      | MD ds => let k := dec_val ds in
                 if (k >? n)%Z then (if (k >? cap)%Z then None else Some k) else Some n
      end
  end.
Definition pp_pinned (q : bytes) : option Z :=
  let ms := markers q in fold_left (pp_pinned_step (lenZ ms)) ms (Some 0%Z).
