(* WriterModel.v — model of pkg/buffer.Writer (writer.go) and of the message
   builders of the library as the exact sequences of Writer calls they make. *)
Require Import Wire.Bytes Spec.BackendSpec.
Local Open Scope list_scope.
Local Open Scope Z_scope.

Record writer := {
  w_frame : bytes;          (* the bytes.Buffer being filled *)
  w_latch : bool;           (* writer.err != nil *)
  w_sink : list bytes;      (* what reached the transport, one entry per Write *)
  w_broken : bool }.        (* the transport fails every Write *)

Inductive wop :=
| WStart (t : byte) | WByte (b : byte) | WInt16 (z : Z) | WInt32 (z : Z)
| WBytes (b : bytes) | WNul | WEnd | WReset.

Inductive wres := WOk | WErr | WPanic.

Definition add (w : writer) (b : bytes) : writer :=
  if w_latch w then w
  else {| w_frame := w_frame w ++ b; w_latch := false; w_sink := w_sink w; w_broken := w_broken w |}.

Definition reset (w : writer) : writer :=
  {| w_frame := []; w_latch := false; w_sink := w_sink w; w_broken := w_broken w |}.

(* End: defer Reset; latched error -> report it; else patch bytes[1:5] with
   len-1 and write the frame *)
Definition wend (w : writer) : writer * wres :=
  if w_latch w then (reset w, WErr)
  else match w_frame w with
       | t :: _ :: _ :: _ :: _ :: body =>
           let out := t :: be32 (lenZ (w_frame w) - 1) ++ body in
           if w_broken w then (reset w, WErr)
           else ({| w_frame := []; w_latch := false; w_sink := w_sink w ++ [out]; w_broken := false |}, WOk)
       | _ => (w, WPanic)
       end.

Definition wstep (w : writer) (o : wop) : writer * wres :=
  match o with
  | WStart t => (add (reset w) [t; x00; x00; x00; x00], WOk)
  | WByte b => (add w [b], WOk)
  | WInt16 z => (add w (be16 z), WOk)
  | WInt32 z => (add w (be32 z), WOk)
  | WBytes b => (add w b, WOk)
  | WNul => (add w [x00], WOk)
  | WEnd => wend w
  | WReset => (reset w, WOk)
  end.

(* run a call sequence; the results of the End calls are collected *)
Fixpoint wrun (w : writer) (ops : list wop) : writer * list wres :=
  match ops with
  | [] => (w, [])
  | o :: r =>
      let (w1, res) := wstep w o in
      match res with
      | WPanic => (w1, [WPanic])
      | _ => let (w2, rs) := wrun w1 r in
             (w2, match o with WEnd => res :: rs | _ => rs end)
      end
  end.

(* ---- the builders: what each library function calls, in order ---- *)
Definition col_ops (c : coldesc) : list wop :=
  [WBytes (cd_name c); WNul; WInt32 (cd_table c); WInt16 (cd_attr c); WInt32 (cd_oid c);
   WInt16 (cd_width c); WInt32 (cd_typmod c); WInt16 (cd_fmt c)].
Definition field_ops (f : option bytes) : list wop :=
  match f with
  | None => [WInt32 (-1); WBytes []]
  | Some v => [WInt32 (lenZ v); WBytes v]
  end.
Definition efield_ops (f : byte * bytes) : list wop := [WByte (fst f); WBytes (snd f); WNul].

Definition body_ops (m : bmsg) : list wop :=
  match m with
  | BAuth c => [WInt32 c]                                           (* writeAuthType *)
  | BParamStatus k v => [WBytes k; WNul; WBytes v; WNul]            (* writeParameters *)
  | BReady s => [WByte s]                                           (* readyForQuery *)
  | BRowDesc cols => WInt16 (lenZ cols) :: flat_map col_ops cols    (* Columns.Define *)
  | BDataRow fs => WInt16 (lenZ fs) :: flat_map field_ops fs        (* Columns.Write *)
  | BComplete tag => [WBytes tag; WNul]                             (* commandComplete *)
  | BError fs => flat_map efield_ops fs ++ [WNul]                   (* writeErrorResponse *)
  | BParamDesc oids => WInt16 (lenZ oids) :: map WInt32 oids        (* writeParameterDescription *)
  | BCopyIn f cols => WByte (byte_of_Z f) :: WInt16 (lenZ cols) :: map WInt16 cols   (* Columns.CopyIn *)
  | _ => []
  end.

Definition msg_ops (m : bmsg) : list wop := WStart (msg_type m) :: body_ops m ++ [WEnd].

(* an abandoned message: Start and some of the Add calls, no End *)
Definition is_add (o : wop) : bool :=
  match o with WStart _ | WEnd | WReset => false | _ => true end.
Definition add_bytes (o : wop) : bytes :=
  match o with
  | WByte b => [b] | WInt16 z => be16 z | WInt32 z => be32 z | WBytes b => b | WNul => [x00]
  | _ => []
  end.
