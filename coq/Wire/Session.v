(* Session.v — executable model of one client connection: Server.serve
   (wire.go), Handshake/readClientParameters/writeParameters (handshake.go),
   handleAuth/ClearTextPassword (auth.go), the command loop and every command
   handler (command.go), the statement and portal caches (cache.go), the
   DataWriter (writer.go, row.go) and CopyReader.Read (copy.go).

   The model works on the client's byte stream already cut into frames
   (Framing.v) and produces one chronological log: backend messages delivered
   ([Out]), callback invocations with their arguments and the values handed
   back to user code ([Cb*]), the points where a client message is taken off
   the stream ([Consume]) and the end of the connection ([Closed]).

   User code is data: ParseFn is the oracle [cfg_parse]; a statement function
   is a handler program (list of DataWriter/CopyReader operations plus a return
   clause); the password validator, the middlewares and the terminate hook are
   outcome oracles.  pgtype.Map.Encode is the oracle [cfg_encode]. *)
Require Import Wire.Bytes Spec.BackendSpec Wire.Errors Wire.Framing.
From Coq Require Import String.
Local Open Scope string_scope.
Local Open Scope list_scope.
Local Open Scope Z_scope.

(* ---------- user-visible data ---------- *)
Record column := { c_name : bytes; c_table : Z; c_attrno : Z; c_oid : Z; c_width : Z }.

Inductive value :=
| VNil | VNilPtr | VInvalid                      (* the three NULLs *)
| VText (s : bytes) | VInt2 (z : Z) | VInt4 (z : Z) | VInt8 (z : Z)
| VBool (b : bool) | VBytea (b : bytes) | VUnenc
| VUuid (b : bytes)                  (* [16]byte *)
| VFloat4 (bits : Z) | VFloat8 (bits : Z).   (* IEEE bit patterns *)

Inductive encres := EncBytes (b : bytes) | EncNull | EncErr | EncPanic.

Inductive hop :=
| HRow (vs : list value) | HWritten | HEmpty | HComplete (tag : bytes)
| HCopyIn (fmt : Z) | HCopyRead.

Inductive retc := RetNil | RetErr (e : err) | RetLast.

Record stmt := { s_id : Z; s_cols : list column; s_poids : list Z;
                 s_prog : list hop; s_stop : bool; s_ret : retc }.

Inductive parse_res := PErr (e : err) | POk (ss : list stmt).
Inductive vres := VAccept | VReject | VFail.

Record cfg := {
  cfg_limit : Z;
  cfg_auth : option (bytes -> bytes -> bytes -> vres);
  cfg_params : list (bytes * bytes);
  cfg_version : bytes;
  cfg_tls : bool;
  cfg_mws : list bool;
  cfg_term : option bool;
  cfg_parse : bytes -> parse_res;
  cfg_encode : Z -> Z -> value -> encres }.

(* what an operation hands back to the handler *)
Inductive opres :=
| OOk | OErr (e : err) | OEof | OData (b : bytes) | OWritten (n : Z) | ONoReader.

Inductive ev :=
| Out (m : bmsg)
| RawOut (b : byte)
| Consume
| CbValidate (db user pw : bytes)
| CbMw (i : Z)
| CbParse (q : bytes)
| CbExec (sid : Z) (params : list (Z * option bytes))
| CbOp (r : opres)
| CbTerminate
| Crash
| Closed
| OutOfFuel.

(* ---------- messages the library builds ---------- *)
Definition ready : bmsg := BReady x49.
Definition err_msg (e : option err) : bmsg := BError (err_fields e).

Definition fmt_for (fmts : list Z) (i : nat) : Z :=
  match fmts with
  | [] => 0
  | f0 :: _ => match nth_error fmts i with Some f => f | None => f0 end
  end.

Definition coldesc_of (c : column) (f : Z) : coldesc :=
  {| cd_name := c_name c; cd_table := c_table c mod 4294967296; cd_attr := c_attrno c mod 65536;
     cd_oid := c_oid c mod 4294967296; cd_width := c_width c mod 65536;
     cd_typmod := 4294967295; cd_fmt := f mod 65536 |}.

Fixpoint coldescs (cols : list column) (fmts : list Z) (i : nat) : list coldesc :=
  match cols with
  | [] => []
  | c :: r => coldesc_of c (fmt_for fmts i) :: coldescs r fmts (S i)
  end.

Definition row_desc (cols : list column) (fmts : list Z) : bmsg := BRowDesc (coldescs cols fmts 0).

(* Columns.Define: nothing for zero columns *)
Definition define_evs (cols : list column) (fmts : list Z) : list ev :=
  match cols with [] => [] | _ => [Out (row_desc cols fmts)] end.

(* writeColumnDescription *)
Definition describe_cols (cols : list column) (fmts : list Z) : bmsg :=
  match cols with [] => BNoData | _ => row_desc cols fmts end.

(* Columns.Write *)
Inductive rowres := RowOk (fields : list (option bytes)) | RowErr (e : err) | RowPanic.

Fixpoint enc_fields (encode : Z -> Z -> value -> encres) (cols : list column) (fmts : list Z)
         (i : nat) (vs : list value) : rowres :=
  match cols, vs with
  | c :: cr, v :: vr =>
      match encode (c_oid c) (fmt_for fmts i) v with
      | EncErr => RowErr e_encode
      | EncPanic => RowPanic
      | EncNull =>
          match enc_fields encode cr fmts (S i) vr with
          | RowOk fs => RowOk (None :: fs) | r => r end
      | EncBytes b =>
          match enc_fields encode cr fmts (S i) vr with
          | RowOk fs => RowOk (Some b :: fs) | r => r end
      end
  | _, _ => RowOk []
  end.

Definition write_row (encode : Z -> Z -> value -> encres) (cols : list column) (fmts : list Z)
           (vs : list value) : rowres :=
  if negb (lenZ vs =? lenZ cols) then RowErr (e_arity (lenZ cols) (lenZ vs))
  else enc_fields encode cols fmts 0 vs.

Fixpoint repeatZ (n : nat) (z : Z) : list Z := match n with O => [] | S k => z :: repeatZ k z end.

(* ---------- CopyReader.Read ---------- *)
Definition rderr_err (r : rderr) : err := match r with REof => e_eof | RUnexp => e_unexpected_eof end.
Definition rderr_res (r : rderr) : opres := match r with REof => OEof | RUnexp => OErr e_unexpected_eof end.

Fixpoint copy_read (L : Z) (fs : list frame) (tl : rderr) : list ev * opres * list frame :=
  match fs with
  | [] => ([], rderr_res tl, [])
  | f :: rest =>
      match f with
      | FBad t size => ([Consume], OErr (e_size_exceeded (eff_limit L) size), rest)
      | FOver t size None => ([Consume], OErr (e_size_exceeded (eff_limit L) size), rest)
      | FOver t size (Some r) => ([Consume], rderr_res r, [])
      | FTail => ([Consume], OErr e_unexpected_eof, [])
      | FMsg t body =>
          if Byte.eqb t x48 || Byte.eqb t x53 then          (* Flush, Sync: ignored *)
            let '(evs, r, rest') := copy_read L rest tl in (Consume :: evs, r, rest')
          else if Byte.eqb t x64 then ([Consume], OData body, rest)       (* CopyData *)
          else if Byte.eqb t x63 then ([Consume], OEof, rest)             (* CopyDone *)
          else if Byte.eqb t x66 then                                     (* CopyFail *)
            match take_cstr body with
            | Some (desc, _) => ([Consume], OErr (e_copy_failed desc), rest)
            | None => ([Consume], OErr e_missing_nul, rest)
            end
          else ([Consume], OErr (e_unimplemented t), rest)
      end
  end.

(* ---------- the DataWriter and the handler-program interpreter ---------- *)
Record wstate := { w_closed : bool; w_written : Z; w_copy : bool; w_last : option err }.
Definition w_init : wstate := {| w_closed := false; w_written := 0; w_copy := false; w_last := None |}.
Definition w_fail (w : wstate) (e : err) : wstate :=
  {| w_closed := w_closed w; w_written := w_written w; w_copy := w_copy w; w_last := Some e |}.
Definition w_close (w : wstate) : wstate :=
  {| w_closed := true; w_written := w_written w; w_copy := w_copy w; w_last := w_last w |}.

Inductive opstatus := StOk | StErr | StPanic.

(* one operation: events, new writer state, remaining frames, status *)
Definition run_op (c : cfg) (cols : list column) (fmts : list Z) (o : hop) (w : wstate)
           (fs : list frame) (tl : rderr) : list ev * wstate * list frame * opstatus :=
  match o with
  | HRow vs =>
      if w_closed w then ([CbOp (OErr e_closed_writer)], w_fail w e_closed_writer, fs, StErr)
      else match write_row (cfg_encode c) cols fmts vs with
           | RowOk fields =>
               ([Out (BDataRow fields); CbOp OOk],
                {| w_closed := false; w_written := w_written w + 1; w_copy := w_copy w; w_last := w_last w |},
                fs, StOk)
           | RowErr e => ([CbOp (OErr e)], w_fail w e, fs, StErr)
           | RowPanic => ([], w, fs, StPanic)
           end
  | HWritten => ([CbOp (OWritten (w_written w))], w, fs, StOk)
  | HEmpty =>
      if w_closed w then ([CbOp (OErr e_closed_writer)], w_fail w e_closed_writer, fs, StErr)
      else if negb (w_written w =? 0) then ([CbOp (OErr e_data_written)], w_fail w e_data_written, fs, StErr)
      else ([CbOp OOk], w_close w, fs, StOk)
  | HComplete tag =>
      if w_closed w then ([CbOp (OErr e_closed_writer)], w_fail w e_closed_writer, fs, StErr)
      else ([Out (BComplete tag); CbOp OOk], w_close w, fs, StOk)
  | HCopyIn f =>
      if w_closed w then ([CbOp (OErr e_closed_writer)], w_fail w e_closed_writer, fs, StErr)
      else match cols with
           | [] => ([CbOp (OErr e_no_columns)], w_fail w e_no_columns, fs, StErr)
           | _ => ([Out (BCopyIn (f mod 256) (repeatZ (List.length cols) (f mod 65536))); CbOp OOk],
                   {| w_closed := false; w_written := w_written w; w_copy := true; w_last := w_last w |},
                   fs, StOk)
           end
  | HCopyRead =>
      if negb (w_copy w) then ([CbOp ONoReader], w, fs, StOk)
      else let '(evs, r, rest) := copy_read (cfg_limit c) fs tl in
           match r with
           | OErr e => (evs ++ [CbOp r], w_fail w e, rest, StErr)
           | _ => (evs ++ [CbOp r], w, rest, StOk)
           end
  end.

Inductive progres := PNil | PErrR (e : err) | PPanic.

Fixpoint run_ops (c : cfg) (cols : list column) (fmts : list Z) (stop : bool) (ops : list hop)
         (w : wstate) (fs : list frame) (tl : rderr)
  : list ev * wstate * list frame * option progres :=
  match ops with
  | [] => ([], w, fs, None)
  | o :: r =>
      let '(evs, w', fs', st) := run_op c cols fmts o w fs tl in
      match st with
      | StPanic => (evs, w', fs', Some PPanic)
      | StErr =>
          if stop then (evs, w', fs', Some (match w_last w' with Some e => PErrR e | None => PNil end))
          else let '(evs2, w2, fs2, res) := run_ops c cols fmts stop r w' fs' tl in (evs ++ evs2, w2, fs2, res)
      | StOk =>
          let '(evs2, w2, fs2, res) := run_ops c cols fmts stop r w' fs' tl in (evs ++ evs2, w2, fs2, res)
      end
  end.

(* a statement function: CbExec, the program, the return clause *)
Definition run_stmt (c : cfg) (s : stmt) (fmts : list Z) (params : list (Z * option bytes))
           (fs : list frame) (tl : rderr) : list ev * list frame * progres :=
  let '(evs, w, fs', res) := run_ops c (s_cols s) fmts (s_stop s) (s_prog s) w_init fs tl in
  let r := match res with
           | Some r => r
           | None => match s_ret s with
                     | RetNil => PNil
                     | RetErr e => PErrR e
                     | RetLast => match w_last w with Some e => PErrR e | None => PNil end
                     end
           end in
  (CbExec (s_id s) params :: evs, fs', r).

(* ---------- caches ---------- *)
Fixpoint alist_get {A} (k : bytes) (l : list (bytes * A)) : option A :=
  match l with
  | [] => None
  | (k', v) :: r => if bytes_eqb k k' then Some v else alist_get k r
  end.
Fixpoint alist_del {A} (k : bytes) (l : list (bytes * A)) : list (bytes * A) :=
  match l with
  | [] => []
  | (k', v) :: r => if bytes_eqb k k' then alist_del k r else (k', v) :: alist_del k r
  end.
Definition alist_set {A} (k : bytes) (v : A) (l : list (bytes * A)) : list (bytes * A) :=
  (k, v) :: alist_del k l.

Record portal := { p_stmt : stmt; p_params : list (Z * option bytes); p_rfmts : list Z }.

Record sst := { st_stmts : list (bytes * stmt); st_portals : list (bytes * portal); st_discard : bool }.
Definition st_init : sst := {| st_stmts := []; st_portals := []; st_discard := false |}.
Definition set_discard (st : sst) (d : bool) : sst :=
  {| st_stmts := st_stmts st; st_portals := st_portals st; st_discard := d |}.

(* ---------- message bodies ---------- *)
Fixpoint p_u16s (n : nat) (l : bytes) : option (list Z * bytes) :=
  match n with
  | O => Some ([], l)
  | S k => match p_u16 l with
           | Some (x, r) => match p_u16s k r with Some (xs, r') => Some (x :: xs, r') | None => None end
           | None => None
           end
  end.

(* one Bind parameter value: uint32 length, 0xFFFFFFFF = NULL *)
Definition p_param (l : bytes) : option (option bytes * bytes) :=
  match p_u32 l with
  | Some (n, r) =>
      if n =? 4294967295 then Some (None, r)
      else match takeZ n r with Some (v, r') => Some (Some v, r') | None => None end
  | None => None
  end.
Fixpoint p_pvalues (n : nat) (l : bytes) : option (list (option bytes) * bytes) :=
  match n with
  | O => Some ([], l)
  | S k => match p_param l with
           | Some (x, r) => match p_pvalues k r with Some (xs, r') => Some (x :: xs, r') | None => None end
           | None => None
           end
  end.

(* readParameters' tagging rule *)
Definition param_fmt (pf : list Z) (i : nat) : Z :=
  match nth_error pf i with
  | Some f => f
  | None => match pf with [f] => f | _ => 0 end
  end.
Fixpoint tag_params (pf : list Z) (i : nat) (vs : list (option bytes)) : list (Z * option bytes) :=
  match vs with
  | [] => []
  | v :: r => (param_fmt pf i, v) :: tag_params pf (S i) r
  end.

Record bind_raw := { br_portal : bytes; br_stmt : bytes; br_pf : list Z;
                     br_vals : list (option bytes); br_rf : list Z }.

(* the fields of a Bind message as sent *)
Definition decode_bind_raw (body : bytes) : option bind_raw :=
  match take_cstr body with Some (pname, l1) =>
  match take_cstr l1 with Some (sname, l2) =>
  match p_u16 l2 with Some (nf, l3) =>
  match p_u16s (Z.to_nat nf) l3 with Some (pf, l4) =>
  match p_u16 l4 with Some (np, l5) =>
  match p_pvalues (Z.to_nat np) l5 with Some (vs, l6) =>
  match p_u16 l6 with Some (nr, l7) =>
  match p_u16s (Z.to_nat nr) l7 with Some (rf, _) =>
    Some {| br_portal := pname; br_stmt := sname; br_pf := pf; br_vals := vs; br_rf := rf |}
  | None => None end | None => None end | None => None end | None => None end
  | None => None end | None => None end | None => None end | None => None end.

Record bind_msg := { b_portal : bytes; b_stmt : bytes; b_params : list (Z * option bytes); b_rfmts : list Z }.

Definition decode_bind (body : bytes) : option bind_msg :=
  match decode_bind_raw body with
  | Some r => Some {| b_portal := br_portal r; b_stmt := br_stmt r;
                      b_params := tag_params (br_pf r) 0 (br_vals r); b_rfmts := br_rf r |}
  | None => None
  end.

(* ---------- strings.TrimSpace(query) == "" ---------- *)
Definition ws_seqs : list bytes :=
  map hx ["09"; "0a"; "0b"; "0c"; "0d"; "20"; "c285"; "c2a0"; "e19a80";
          "e28080"; "e28081"; "e28082"; "e28083"; "e28084"; "e28085"; "e28086"; "e28087";
          "e28088"; "e28089"; "e2808a"; "e280a8"; "e280a9"; "e280af"; "e2819f"; "e38080"].

Fixpoint strip_prefix (p l : bytes) : option bytes :=
  match p, l with
  | [], _ => Some l
  | a :: p', b :: l' => if Byte.eqb a b then strip_prefix p' l' else None
  | _, [] => None
  end.
Fixpoint strip_any (ps : list bytes) (l : bytes) : option bytes :=
  match ps with
  | [] => None
  | p :: r => match strip_prefix p l with Some l' => Some l' | None => strip_any r l end
  end.
(* every whitespace sequence is at most 3 bytes; fuel = |q| suffices *)
Fixpoint is_blank_fuel (fuel : nat) (q : bytes) : bool :=
  match q with
  | [] => true
  | _ => match fuel with
         | O => false
         | S f => match strip_any ws_seqs q with Some q' => is_blank_fuel f q' | None => false end
         end
  end.
Definition is_blank (q : bytes) : bool := is_blank_fuel (List.length q) q.

(* ---------- commands ---------- *)
Inductive cont := Continue | Stop.

Definition is_ext (t : byte) : bool :=
  Byte.eqb t x50 || Byte.eqb t x42 || Byte.eqb t x44 || Byte.eqb t x45 || Byte.eqb t x43 || Byte.eqb t x48.

(* extendedError *)
Definition ext_err (st : sst) (e : err) : list ev * sst :=
  ([Out (err_msg (Some e))], set_discard st true).

(* handleSimpleQuery: the statements of one query, in order *)
Fixpoint run_stmts (c : cfg) (ss : list stmt) (fs : list frame) (tl : rderr)
  : list ev * list frame * bool (* crashed *) :=
  match ss with
  | [] => ([Out ready], fs, false)
  | s :: r =>
      let '(evs, fs', res) := run_stmt c s [] [] fs tl in
      match res with
      | PNil => let '(evs2, fs2, cr) := run_stmts c r fs' tl in
                (define_evs (s_cols s) [] ++ evs ++ evs2, fs2, cr)
      | PErrR e => (define_evs (s_cols s) [] ++ evs ++ [Out (err_msg (Some e)); Out ready], fs', false)
      | PPanic => (define_evs (s_cols s) [] ++ evs ++ [Crash], fs', true)
      end
  end.

Definition simple_query (c : cfg) (body : bytes) (fs : list frame) (tl : rderr)
  : list ev * list frame * cont :=
  match take_cstr body with
  | None => ([], fs, Stop)
  | Some (q, _) =>
      if is_blank q then ([Out BEmptyQuery; Out ready], fs, Continue)
      else match cfg_parse c q with
           | PErr e => ([CbParse q; Out (err_msg (Some e)); Out ready], fs, Continue)
           | POk [] => ([CbParse q; Out (err_msg (Some e_undefined_stmt)); Out ready], fs, Continue)
           | POk ss => let '(evs, fs', crashed) := run_stmts c ss fs tl in
                       (CbParse q :: evs, fs', if crashed then Stop else Continue)
           end
  end.

Definition do_parse (c : cfg) (st : sst) (body : bytes) : list ev * sst * cont :=
  match take_cstr body with Some (name, l1) =>
  match take_cstr l1 with Some (q, l2) =>
  match p_u16 l2 with Some _ =>
    match cfg_parse c q with
    | PErr e => let '(evs, st') := ext_err st e in (CbParse q :: evs, st', Continue)
    | POk [] => let '(evs, st') := ext_err st e_undefined_stmt in (CbParse q :: evs, st', Continue)
    | POk [s] => ([CbParse q; Out BParseComplete],
                  {| st_stmts := alist_set name s (st_stmts st); st_portals := st_portals st;
                     st_discard := st_discard st |}, Continue)
    | POk _ => let '(evs, st') := ext_err st e_multiple_stmts in (CbParse q :: evs, st', Continue)
    end
  | None => ([], st, Stop) end | None => ([], st, Stop) end | None => ([], st, Stop) end.

Definition do_bind (st : sst) (body : bytes) : list ev * sst * cont :=
  match decode_bind body with
  | None => ([], st, Stop)
  | Some b =>
      match alist_get (b_stmt b) (st_stmts st) with
      | None => let '(evs, st') := ext_err st (e_unknown_stmt (b_stmt b)) in (evs, st', Continue)
      | Some s =>
          ([Out BBindComplete],
           {| st_stmts := st_stmts st;
              st_portals := alist_set (b_portal b)
                              {| p_stmt := s; p_params := b_params b; p_rfmts := b_rfmts b |} (st_portals st);
              st_discard := st_discard st |}, Continue)
      end
  end.

Definition do_describe (st : sst) (body : bytes) : list ev * sst * cont :=
  match body with
  | [] => ([], st, Stop)
  | k :: l1 =>
      match take_cstr l1 with
      | None => ([], st, Stop)
      | Some (name, _) =>
          if Byte.eqb k x53 then
            match alist_get name (st_stmts st) with
            | None => let '(evs, st') := ext_err st (EBase (bs "unknown statement")) in (evs, st', Continue)
            | Some s => ([Out (BParamDesc (map (fun o => o mod 4294967296) (s_poids s)));
                          Out (describe_cols (s_cols s) [])], st, Continue)
            end
          else if Byte.eqb k x50 then
            match alist_get name (st_portals st) with
            | None => let '(evs, st') := ext_err st (EBase (bs "unknown portal")) in (evs, st', Continue)
            | Some p => ([Out (describe_cols (s_cols (p_stmt p)) (p_rfmts p))], st, Continue)
            end
          else let '(evs, st') := ext_err st e_unknown_describe in (evs, st', Continue)
      end
  end.

Definition do_close (st : sst) (body : bytes) : list ev * sst * cont :=
  match body with
  | [] => ([], st, Stop)
  | k :: l1 =>
      match take_cstr l1 with
      | None => ([], st, Stop)
      | Some (name, _) =>
          if Byte.eqb k x53 then
            ([Out BCloseComplete],
             {| st_stmts := alist_del name (st_stmts st); st_portals := st_portals st;
                st_discard := st_discard st |}, Continue)
          else if Byte.eqb k x50 then
            ([Out BCloseComplete],
             {| st_stmts := st_stmts st; st_portals := alist_del name (st_portals st);
                st_discard := st_discard st |}, Continue)
          else let '(evs, st') := ext_err st e_unknown_close in (evs, st', Continue)
      end
  end.

Definition do_execute (c : cfg) (st : sst) (body : bytes) (fs : list frame) (tl : rderr)
  : list ev * sst * list frame * cont :=
  match take_cstr body with
  | None => ([], st, fs, Stop)
  | Some (name, l1) =>
      match p_u32 l1 with
      | None => ([], st, fs, Stop)
      | Some _ =>
          match alist_get name (st_portals st) with
          | None => let '(evs, st') := ext_err st (e_unknown_portal name) in (evs, st', fs, Continue)
          | Some p =>
              let '(evs, fs', res) := run_stmt c (p_stmt p) (p_rfmts p) (p_params p) fs tl in
              match res with
              | PNil => (evs, st, fs', Continue)
              | PErrR e => let '(evs2, st') := ext_err st e in (evs ++ evs2, st', fs', Continue)
              | PPanic => let '(evs2, st') := ext_err st e_panic in (evs ++ evs2, st', fs', Continue)
              end
          end
      end
  end.

(* handleMessageSizeExceeded, after the Slurp succeeded *)
Definition do_oversize (c : cfg) (st : sst) (t : byte) (size : Z) : list ev * sst :=
  let e := e_size_exceeded (eff_limit (cfg_limit c)) size in
  if st_discard st && negb (Byte.eqb t x53) then ([], st)
  else if is_ext t then ext_err st e
  else if Byte.eqb t x53 then ([Out (err_msg (Some e)); Out ready], set_discard st false)
  else ([Out (err_msg (Some e)); Out ready], st).

(* one iteration of consumeCommands on the frame [f]; [rest] are the frames after it *)
Definition cmd (c : cfg) (st : sst) (f : frame) (rest : list frame) (tl : rderr)
  : list ev * sst * list frame * cont :=
  match f with
  | FOver t size (Some _) => ([], st, [], Stop)
  | FTail => ([], st, [], Stop)
  | FOver t size None | FBad t size =>
      let '(evs, st') := do_oversize c st t size in (evs, st', rest, Continue)
  | FMsg t body =>
      if st_discard st && negb (Byte.eqb t x53) && negb (Byte.eqb t x58) then ([], st, rest, Continue)
      else if Byte.eqb t x51 then                                   (* Q *)
        let '(evs, fs', k) := simple_query c body rest tl in (evs, st, fs', k)
      else if Byte.eqb t x45 then do_execute c st body rest tl      (* E *)
      else if Byte.eqb t x50 then                                   (* P *)
        let '(evs, st', k) := do_parse c st body in (evs, st', rest, k)
      else if Byte.eqb t x44 then                                   (* D *)
        let '(evs, st', k) := do_describe st body in (evs, st', rest, k)
      else if Byte.eqb t x53 then ([Out ready], set_discard st false, rest, Continue)   (* S *)
      else if Byte.eqb t x42 then                                   (* B *)
        let '(evs, st', k) := do_bind st body in (evs, st', rest, k)
      else if Byte.eqb t x48 then ([], st, rest, Continue)          (* H *)
      else if Byte.eqb t x64 || Byte.eqb t x63 || Byte.eqb t x66 then ([], st, rest, Continue)
      else if Byte.eqb t x43 then                                   (* C *)
        let '(evs, st', k) := do_close st body in (evs, st', rest, k)
      else if Byte.eqb t x58 then                                   (* X *)
        match cfg_term c with
        | None => ([], st, rest, Stop)
        | Some _ => ([CbTerminate], st, rest, Stop)
        end
      else ([Out (err_msg (Some (e_unimplemented t))); Out ready], st, rest, Continue)
  end.

Fixpoint loop (fuel : nat) (c : cfg) (st : sst) (fs : list frame) (tl : rderr) : list ev :=
  match fuel with
  | O => [OutOfFuel]
  | S fuel' =>
      match fs with
      | [] => [Closed]
      | f :: rest =>
          let '(evs, st', fs', k) := cmd c st f rest tl in
          match k with
          | Stop => Consume :: evs ++ [Closed]
          | Continue => Consume :: evs ++ loop fuel' c st' fs' tl
          end
      end
  end.

(* ---------- startup ---------- *)
Definition version_cancel : Z := 80877102.
Definition version_ssl : Z := 80877103.

(* readClientParameters: key/value C strings until an empty key *)
Fixpoint read_params (fuel : nat) (l : bytes) : option (list (bytes * bytes)) :=
  match fuel with
  | O => None
  | S f =>
      match take_cstr l with
      | None => None
      | Some ([], _) => Some []
      | Some (k, l1) =>
          match take_cstr l1 with
          | None => None
          | Some (v, l2) => match read_params f l2 with Some ps => Some ((k, v) :: ps) | None => None end
          end
      end
  end.

(* Go map semantics: the last assignment to a key wins; missing key = "" *)
Fixpoint param_get (k : bytes) (ps : list (bytes * bytes)) : bytes :=
  match ps with
  | [] => []
  | (k', v) :: r => if existsb (fun kv => bytes_eqb k (fst kv)) r then param_get k r
                    else if bytes_eqb k k' then v else []
  end.

Definition forced_params (c : cfg) (user : bytes) : list (bytes * bytes) :=
  [(bs "server_encoding", bs "UTF8"); (bs "client_encoding", bs "UTF8")] ++
  (match cfg_version c with [] => [] | v => [(bs "server_version", v)] end) ++
  [(bs "is_superuser", bs "off"); (bs "session_authorization", user)].

(* the server parameter set: configured map overridden by the forced entries *)
Definition server_params (c : cfg) (user : bytes) : list (bytes * bytes) :=
  let forced := forced_params c user in
  filter (fun kv => negb (existsb (fun f => bytes_eqb (fst kv) (fst f)) forced)) (cfg_params c) ++ forced.

Fixpoint run_mws (mws : list bool) (i : Z) : list ev * bool :=
  match mws with
  | [] => ([], true)
  | ok :: r => if ok then let '(evs, res) := run_mws r (i + 1) in (CbMw i :: evs, res)
               else ([CbMw i], false)
  end.

(* handleAuth: events, remaining stream, authenticated? *)
Definition auth_phase (c : cfg) (cparams : list (bytes * bytes)) (s : bytes) : list ev * bytes * bool :=
  match cfg_auth c with
  | None => ([Out (BAuth 0)], s, true)
  | Some validate =>
      match s with
      | t :: a :: b :: c4 :: d :: r =>
          let size := rd32 a b c4 d - 4 in
          if (size <? 0) || (size >? eff_limit (cfg_limit c)) then ([Out (BAuth 3)], [], false)
          else match takeZ size r with
               | None => ([Out (BAuth 3)], [], false)
               | Some (body, rest) =>
                   if negb (Byte.eqb t x70) then ([Out (BAuth 3)], [], false)
                   else match take_cstr body with
                        | None => ([Out (BAuth 3)], [], false)
                        | Some (pw, _) =>
                            let db := param_get (bs "database") cparams in
                            let user := param_get (bs "user") cparams in
                            match validate db user pw with
                            | VAccept => ([Out (BAuth 3); CbValidate db user pw; Out (BAuth 0)], rest, true)
                            | VReject => ([Out (BAuth 3); CbValidate db user pw;
                                           Out (err_msg (Some e_invalid_password))], [], false)
                            | VFail => ([Out (BAuth 3); CbValidate db user pw], [], false)
                            end
                        end
               end
      | _ => ([Out (BAuth 3)], [], false)
      end
  end.

(* everything after the protocol version has been read from [body] *)
Definition session (c : cfg) (body_after_version : bytes) (s : bytes) : list ev :=
  match read_params (S (List.length body_after_version)) body_after_version with
  | None => [Closed]
  | Some cparams =>
      let '(aevs, s', ok) := auth_phase c cparams s in
      if negb ok then aevs ++ [Closed]
      else
        let user := param_get (bs "user") cparams in
        let pevs := map (fun kv => Out (BParamStatus (fst kv) (snd kv))) (server_params c user) in
        let '(mevs, mok) := run_mws (cfg_mws c) 0 in
        if negb mok then aevs ++ pevs ++ mevs ++ [Closed]
        else
          let '(fs, tl) := frames (cfg_limit c) s' in
          aevs ++ pevs ++ mevs ++ [Out ready] ++ loop (S (List.length fs)) c st_init fs tl
  end.

Definition start (c : cfg) (s : bytes) : option (Z * bytes * bytes) :=
  match untyped (cfg_limit c) s with
  | None => None
  | Some (body, rest) =>
      match p_u32 body with
      | None => None
      | Some (v, after) => Some (v, after, rest)
      end
  end.

(* [raw]: the bytes on the TCP connection; [tls]: the plaintext the client
   sends inside the TLS session ([None]: the TLS handshake fails) *)
Definition serve (c : cfg) (raw : bytes) (tls : option bytes) : list ev :=
  match start c raw with
  | None => [Closed]
  | Some (v, after, rest) =>
      if v =? version_cancel then [Closed]
      else if v =? version_ssl then
        if cfg_tls c then
          RawOut x53 ::
          match tls with
          | None => [Closed]
          | Some plain =>
              match start c plain with
              | None => [Closed]
              | Some (v2, after2, rest2) =>
                  if v2 =? version_cancel then [Closed] else session c after2 rest2
              end
          end
        else
          RawOut x4e ::
          match start c rest with
          | None => [Closed]
          | Some (v2, after2, rest2) =>
              if v2 =? version_cancel then [Closed] else session c after2 rest2
          end
      else session c after rest
  end.
