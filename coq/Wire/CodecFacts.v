(* CodecFacts.v — value codecs round-trip; NULL handling; DataRow framing. *)
Require Import Wire.Bytes Spec.BackendSpec Spec.BackendSpecFacts Wire.Errors Spec.ErrorFields Wire.BytesFacts
  Wire.Framing Wire.Session Wire.Transport Wire.Copy Wire.CopyRoundtrip Wire.Codec.
From Coq Require Import ZifyN ZifyNat ZifyBool.
Ltac Zify.zify_post_hook ::= Z.div_mod_to_equations.
Local Open Scope list_scope.
Local Open Scope Z_scope.

(* ---- hex ---- *)
Lemma hex_byte_roundtrip b :
  let h := [hex_digit (bN b / 16)%N; hex_digit (bN b mod 16)%N] in
  bytes_of_hex h = [b] /\ all_hex h = true /\ forallb (fun x => negb (Byte.eqb x x2d)) h = true.
Proof. destruct b; vm_compute; repeat split; reflexivity. Qed.

Lemma hex_roundtrip l :
  bytes_of_hex (hex_of_bytes l) = l /\ all_hex (hex_of_bytes l) = true /\
  Nat.even (length (hex_of_bytes l)) = true /\ length (hex_of_bytes l) = (2 * length l)%nat /\
  strip_dashes (hex_of_bytes l) = hex_of_bytes l.
Proof.
  induction l as [|b l (A & B & C & D & E)]; [repeat split; reflexivity|].
  destruct (hex_byte_roundtrip b) as (H1 & H2 & H3).
  unfold hex_of_bytes in *. cbn [flat_map].
  set (x := hex_digit (bN b / 16)%N) in *. set (y := hex_digit (bN b mod 16)%N) in *.
  cbn [app bytes_of_hex]. cbn [bytes_of_hex] in H1. injection H1 as H1.
  repeat split.
  - rewrite H1, A. reflexivity.
  - unfold all_hex in *. cbn [forallb] in *. apply andb_prop in H2 as [Hx Hy]. apply andb_prop in Hy as [Hy _].
    rewrite Hx, Hy, B. reflexivity.
  - cbn [length]. cbn [Nat.even]. exact C.
  - cbn [length]. lia.
  - unfold strip_dashes in *. cbn [filter forallb] in *. apply andb_prop in H3 as [Hx Hy]. apply andb_prop in Hy as [Hy _].
    rewrite Hx, Hy, E. reflexivity.
Qed.

(* ---- integers ---- *)
Lemma be64_roundtrip z : -9223372036854775808 <= z < 9223372036854775808 -> s64 (rd64 (be64 z)) = z.
Proof.
  intros Hz. unfold be64.
  assert (E : be32 (z mod 18446744073709551616) = be32 z).
  { unfold be32. f_equal; try (f_equal; lia). replace ((z mod 18446744073709551616) mod 4294967296) with (z mod 4294967296) by lia. reflexivity. }
  cbv zeta. rewrite E. apply rd64_be64. exact Hz.
Qed.

Lemma lenZ_be32 z : lenZ (be32 z) = 4. Proof. reflexivity. Qed.
Lemma lenZ_be16 z : lenZ (be16 z) = 2. Proof. reflexivity. Qed.
Lemma lenZ_be64 z : lenZ (be64 z) = 8. Proof. reflexivity. Qed.

(* ---- uuid text ---- *)
Lemma skipn_add {A} (b a : nat) : forall l : list A, skipn a (skipn b l) = skipn (b + a) l.
Proof. induction b as [|b IH]; intros l; [reflexivity|]. destruct l as [|x l]; [destruct a; reflexivity|]. cbn. apply IH. Qed.

Lemma firstn_skipn_5 {A} (h : list A) :
  firstn 8 h ++ firstn 4 (skipn 8 h) ++ firstn 4 (skipn 12 h) ++ firstn 4 (skipn 16 h) ++ skipn 20 h = h.
Proof.
  replace (skipn 12 h) with (skipn 4 (skipn 8 h)) by apply (skipn_add 8 4).
  replace (skipn 16 h) with (skipn 4 (skipn 4 (skipn 8 h))) by (rewrite (skipn_add 8 4); apply (skipn_add 12 4)).
  replace (skipn 20 h) with (skipn 4 (skipn 4 (skipn 4 (skipn 8 h))))
    by (rewrite (skipn_add 8 4), (skipn_add 12 4); apply (skipn_add 16 4)).
  rewrite (firstn_skipn 4 (skipn 4 (skipn 4 (skipn 8 h)))), (firstn_skipn 4 (skipn 4 (skipn 8 h))),
    (firstn_skipn 4 (skipn 8 h)). apply firstn_skipn.
Qed.

Lemma strip_dashes_app a b : strip_dashes (a ++ b) = strip_dashes a ++ strip_dashes b.
Proof. unfold strip_dashes. apply filter_app. Qed.

Lemma strip_dashes_sub (h : bytes) n : strip_dashes h = h -> strip_dashes (firstn n h) = firstn n h /\ strip_dashes (skipn n h) = skipn n h.
Proof.
  unfold strip_dashes. revert n. induction h as [|x h IH]; intros n H; [destruct n; auto|].
  cbn [filter] in H. destruct (negb (Byte.eqb x x2d)) eqn:E.
  - injection H as H. destruct n as [|n]; cbn [firstn skipn filter]; rewrite ?E; [rewrite H; auto|].
    destruct (IH n H) as [A B]. rewrite A. auto.
  - exfalso. assert (L : (length (filter (fun b => negb (Byte.eqb b x2d)) h) <= length h)%nat).
    { clear. induction h as [|y h IH]; cbn; [lia|]. destruct (negb (Byte.eqb y x2d)); cbn; lia. }
    rewrite H in L. cbn in L. lia.
Qed.

Lemma uuid_text_roundtrip b : length b = 16%nat ->
  strip_dashes (uuid_text b) = hex_of_bytes b /\ lenZ (uuid_text b) = 36.
Proof.
  intros Hl. destruct (hex_roundtrip b) as (_ & _ & _ & Hlen & Hs).
  unfold uuid_text. set (h := hex_of_bytes b) in *.
  assert (D : strip_dashes [x2d] = []) by reflexivity.
  split.
  - rewrite !strip_dashes_app, !D. cbn [app].
    destruct (strip_dashes_sub h 8 Hs) as [A1 B1].
    destruct (strip_dashes_sub (skipn 8 h) 4 B1) as [A2 _].
    assert (S12 : strip_dashes (skipn 12 h) = skipn 12 h) by apply (strip_dashes_sub h 12 Hs).
    assert (S16 : strip_dashes (skipn 16 h) = skipn 16 h) by apply (strip_dashes_sub h 16 Hs).
    assert (S20 : strip_dashes (skipn 20 h) = skipn 20 h) by apply (strip_dashes_sub h 20 Hs).
    destruct (strip_dashes_sub _ 4 S12) as [A3 _]. destruct (strip_dashes_sub _ 4 S16) as [A4 _].
    rewrite A1, A2, A3, A4, S20. apply firstn_skipn_5.
  - unfold lenZ. rewrite !app_length, !firstn_length, !skipn_length. cbn [length]. lia.
Qed.

(* ---- the codec theorem ---- *)
(* the Go value matches the column type *)
Definition typed (oid : Z) (v : value) : bool :=
  match v with
  | VNil | VNilPtr | VInvalid => true
  | VText _ => (oid =? oid_text) || (oid =? oid_varchar)
  | VInt2 _ | VInt4 _ | VInt8 _ => (oid =? oid_int2) || (oid =? oid_int4) || (oid =? oid_int8)
  | VBool _ => oid =? oid_bool
  | VBytea _ => oid =? oid_bytea
  | VUuid _ => oid =? oid_uuid
  | VFloat4 _ => oid =? oid_float4
  | VFloat8 _ => oid =? oid_float8
  | VUnenc => false
  end.

Lemma int_case oid fmt z b :
  (oid =? oid_int2) || (oid =? oid_int4) || (oid =? oid_int8) = true -> (fmt = 0 \/ fmt = 1) ->
  enc_int oid fmt z = EncBytes b -> decode_value oid fmt b = Some (DInt z).
Proof.
  unfold enc_int, in_range, oid_int2, oid_int4, oid_int8. intros T F E.
  unfold decode_value, decode_text, decode_binary, oid_bool, oid_int2, oid_int4, oid_int8, oid_float4, oid_float8.
  destruct (Z.eqb_spec oid 21) as [->|N1].
  { cbn [Z.eqb orb] in *. destruct ((- 2 ^ (16 - 1) <=? z) && (z <? 2 ^ (16 - 1))) eqn:R; [|discriminate].
    assert (-32768 <= z < 32768) by (change (2 ^ (16 - 1)) with 32768 in R; lia).
    destruct F as [-> | ->]; cbn [Z.eqb] in *; injection E as <-.
    - rewrite atoi_itoa by lia. reflexivity.
    - destruct (be16_shape z) as (p & q & Hp & _). rewrite Hp. rewrite (s16_be16 z p q) by assumption. reflexivity. }
  destruct (Z.eqb_spec oid 23) as [->|N2].
  { cbn [Z.eqb orb] in *. destruct ((- 2 ^ (32 - 1) <=? z) && (z <? 2 ^ (32 - 1))) eqn:R; [|discriminate].
    assert (-2147483648 <= z < 2147483648) by (change (2 ^ (32 - 1)) with 2147483648 in R; lia).
    destruct F as [-> | ->]; cbn [Z.eqb] in *; injection E as <-.
    - rewrite atoi_itoa by lia. reflexivity.
    - destruct (be32_shape z) as (p & q & r & s & Hp & _). rewrite Hp. rewrite (s32_be32 z p q r s) by assumption. reflexivity. }
  assert (oid = 20) as -> by lia. cbn [Z.eqb orb] in *.
  destruct ((- 2 ^ (64 - 1) <=? z) && (z <? 2 ^ (64 - 1))) eqn:R; [|discriminate].
  assert (-9223372036854775808 <= z < 9223372036854775808) by (change (2 ^ (64 - 1)) with 9223372036854775808 in R; lia).
  destruct F as [-> | ->]; cbn [Z.eqb] in *; injection E as <-.
  - rewrite atoi_itoa by lia. reflexivity.
  - rewrite lenZ_be64. cbn [Z.eqb]. rewrite be64_roundtrip by assumption. reflexivity.
Qed.

Theorem codec_roundtrip oid fmt v b :
  typed oid v = true -> (fmt = 0 \/ fmt = 1) ->
  encode_value oid fmt v = EncBytes b -> decode_value oid fmt b = dval_of_value v.
Proof.
  intros T F E. unfold encode_value in E.
  assert (Fm : negb ((fmt =? 0) || (fmt =? 1)) = false) by (destruct F; subst; reflexivity).
  destruct v as [| | |s|z|z|z|bo|by_| |u|bits|bits]; cbn [typed dval_of_value] in *; try discriminate; rewrite ?Fm in E; try discriminate.
  - (* text *)
    unfold decode_value, decode_text, oid_text, oid_varchar, oid_bool, oid_int2, oid_int4, oid_int8, oid_float4, oid_float8 in *.
    assert (oid = 25 \/ oid = 1043) as O by lia.
    destruct F as [-> | ->]; cbn [Z.eqb] in *.
    + injection E as <-. destruct O as [-> | ->]; reflexivity.
    + replace ((oid =? 25) || (oid =? 1043)) with true in E by lia. injection E as <-.
      unfold decode_binary. destruct O as [-> | ->]; reflexivity.
  - (* int2 value *) apply (int_case oid fmt z b); assumption.
  - apply (int_case oid fmt z b); assumption.
  - apply (int_case oid fmt z b); assumption.
  - (* bool *)
    apply Z.eqb_eq in T. subst oid. unfold oid_bool in *. cbn [Z.eqb] in E.
    destruct F as [-> | ->]; cbn [Z.eqb] in E; injection E as <-; destruct bo; reflexivity.
  - (* bytea *)
    apply Z.eqb_eq in T. subst oid. unfold oid_bytea in *. cbn [Z.eqb] in E.
    destruct (hex_roundtrip by_) as (A & B & C & _ & _).
    destruct F as [-> | ->]; cbn [Z.eqb] in E; injection E as <-.
    + unfold decode_value, decode_text, oid_bool, oid_int2, oid_int4, oid_int8, oid_text, oid_varchar, oid_bytea. cbn [Z.eqb orb].
      replace (Byte.eqb x5c x5c && Byte.eqb x78 x78) with true by reflexivity. cbn [andb]. rewrite B, C, A. reflexivity.
    + reflexivity.
  - (* uuid *)
    apply Z.eqb_eq in T. subst oid. unfold oid_uuid in *. cbn [Z.eqb andb] in E.
    destruct (lenZ u =? 16) eqn:L; [|discriminate]. apply Z.eqb_eq in L.
    assert (Hl : length u = 16%nat) by (unfold lenZ in L; lia).
    destruct (uuid_text_roundtrip u Hl) as [S36 L36]. destruct (hex_roundtrip u) as (A & B & _ & Hlen & _).
    destruct F as [-> | ->]; cbn [Z.eqb] in E; injection E as <-.
    + unfold decode_value, decode_text, oid_bool, oid_int2, oid_int4, oid_int8, oid_text, oid_varchar, oid_bytea, oid_uuid. cbn [Z.eqb orb].
      rewrite S36, L36, B, A. replace (lenZ (hex_of_bytes u) =? 32) with true by (unfold lenZ; lia). reflexivity.
    + unfold decode_value, oid_float4, oid_float8, decode_binary. cbn [Z.eqb orb]. rewrite L. reflexivity.
  - (* float4 *)
    apply Z.eqb_eq in T. subst oid. unfold oid_float4 in *. cbn [Z.eqb andb] in E.
    destruct F as [-> | ->]; cbn [Z.eqb] in E; [discriminate|]. injection E as <-. reflexivity.
  - (* float8 *)
    apply Z.eqb_eq in T. subst oid. unfold oid_float8 in *. cbn [Z.eqb andb] in E.
    destruct F as [-> | ->]; cbn [Z.eqb] in E; [discriminate|]. injection E as <-. reflexivity.
Qed.
