(* CommandFacts.v — lemmas about statements, simple queries, the extended
   protocol commands, the command loop and the startup phase. *)
Require Import Wire.Bytes Spec.BackendSpec Wire.Errors Wire.Framing Wire.Session Wire.SessionFacts.
From Coq Require Import String.
Local Open Scope string_scope.
Local Open Scope list_scope.
Local Open Scope Z_scope.

Definition no_ready (ms : list bmsg) : bool := forallb (fun m => negb (is_ready m)) ms.
Definition no_error (ms : list bmsg) : bool := forallb (fun m => negb (is_error m)) ms.

Lemma handler_no_ready ms : forallb handler_msg ms = true -> no_ready ms = true /\ no_error ms = true.
Proof.
  unfold no_ready, no_error. induction ms as [|m r IH]; cbn [forallb]; [auto|].
  intros H. apply andb_prop in H as [H1 H2]. destruct (IH H2) as [A B].
  rewrite A, B. destruct m; try discriminate; auto.
Qed.

(* ---------- a statement function ---------- *)
Lemma run_stmt_spec c s fmts params fs tl evs fs' res :
  run_stmt c s fmts params fs tl = (evs, fs', res) ->
  forallb handler_msg (outs evs) = true /\ (countb is_complete (outs evs) <= 1)%nat /\
  (List.length fs' <= List.length fs)%nat /\
  (exists evs', evs = CbExec (s_id s) params :: evs').
Proof.
  unfold run_stmt. intros H.
  destruct (run_ops c (s_cols s) fmts (s_stop s) (s_prog s) w_init fs tl) as [[[evs0 w] fs0] r0] eqn:E.
  injection H as <- <- <-.
  destruct (run_ops_spec _ _ _ _ _ _ _ _ _ _ _ _ E) as (A & _ & _ & K & S).
  change (outs (CbExec (s_id s) params :: evs0)) with (outs evs0).
  split; [exact A|]. split; [apply K; reflexivity|]. split; [exact S|]. eexists; reflexivity.
Qed.

(* ---------- handleSimpleQuery ---------- *)
Lemma define_evs_outs cols fmts :
  forallb (fun m => match m with BRowDesc _ => true | _ => false end) (outs (define_evs cols fmts)) = true /\
  (List.length (outs (define_evs cols fmts)) <= 1)%nat.
Proof. destruct cols; cbn; auto. Qed.

Definition ends_ready (ms : list bmsg) : Prop := exists pre, ms = pre ++ [ready] /\ no_ready pre = true.

Lemma no_ready_app a b : no_ready (a ++ b) = no_ready a && no_ready b.
Proof. apply forallb_app. Qed.
Lemma no_error_app a b : no_error (a ++ b) = no_error a && no_error b.
Proof. apply forallb_app. Qed.

Lemma define_no_ready cols fmts : no_ready (outs (define_evs cols fmts)) = true /\ no_error (outs (define_evs cols fmts)) = true.
Proof. destruct cols; cbn; auto. Qed.

(* the statements of one query: results in order, at most one ErrorResponse,
   which is then directly followed by the single ReadyForQuery that ends the cycle *)
Lemma run_stmts_spec c : forall ss fs tl evs fs' crashed,
  run_stmts c ss fs tl = (evs, fs', crashed) ->
  (List.length fs' <= List.length fs)%nat /\
  (crashed = false ->
     exists pre, outs evs = pre ++ [ready] /\ no_ready pre = true /\
       ((no_error pre = true) \/ (exists pre' e, pre = pre' ++ [BError e] /\ no_error pre' = true))).
Proof.
  induction ss as [|s r IH]; intros fs tl evs fs' crashed H; cbn [run_stmts] in H.
  - injection H as <- <- <-. split; [lia|]. intros _. exists []. cbn. auto.
  - destruct (run_stmt c s [] [] fs tl) as [[evs1 fs1] res] eqn:E1.
    destruct (run_stmt_spec _ _ _ _ _ _ _ _ _ E1) as (A1 & _ & S1 & _).
    destruct (handler_no_ready _ A1) as [NR1 NE1].
    destruct (define_no_ready (s_cols s) []) as [NRd NEd].
    destruct res.
    + destruct (run_stmts c r fs1 tl) as [[evs2 fs2] cr] eqn:E2.
      injection H as <- <- <-. destruct (IH _ _ _ _ _ E2) as [S2 P2]. split; [lia|].
      intros Hc. destruct (P2 Hc) as (pre & Ho & Hn & He).
      exists (outs (define_evs (s_cols s) []) ++ outs evs1 ++ pre).
      rewrite !outs_app, Ho, !app_assoc. split; [reflexivity|].
      rewrite <- !app_assoc, !no_ready_app, NRd, NR1, Hn. split; [reflexivity|].
      destruct He as [He|(pre' & e & Hp & He)].
      * left. rewrite !no_error_app, NEd, NE1, He. reflexivity.
      * right. exists (outs (define_evs (s_cols s) []) ++ outs evs1 ++ pre'), e.
        rewrite Hp, !app_assoc. split; [reflexivity|].
        rewrite <- !app_assoc, !no_error_app, NEd, NE1, He. reflexivity.
    + injection H as <- <- <-. split; [lia|]. intros _.
      exists (outs (define_evs (s_cols s) []) ++ outs evs1 ++ [err_msg (Some e)]).
      rewrite !outs_app. cbn [outs flat_map app]. rewrite <- !app_assoc. cbn [app].
      split; [reflexivity|]. rewrite !no_ready_app, NRd, NR1. split; [reflexivity|].
      right. exists (outs (define_evs (s_cols s) []) ++ outs evs1), (err_fields (Some e)).
      rewrite <- !app_assoc. split; [reflexivity|]. rewrite no_error_app, NEd, NE1. reflexivity.
    + injection H as <- <- <-. split; [lia|]. discriminate.
Qed.

Lemma simple_query_blank c q junk fs tl :
  nul_free q = true -> is_blank q = true ->
  simple_query c (q ++ x00 :: junk) fs tl = ([Out BEmptyQuery; Out ready], fs, Continue).
Proof.
  intros Hn Hb. unfold simple_query.
  assert (T : take_cstr (q ++ x00 :: junk) = Some (q, junk)).
  { clear Hb. induction q as [|b r IH]; cbn [app take_cstr nul_free] in *; [reflexivity|].
    apply andb_prop in Hn as [H1 H2]. destruct (Byte.eqb b x00); [discriminate|]. rewrite IH by exact H2. reflexivity. }
  rewrite T, Hb. reflexivity.
Qed.

(* every simple-query cycle that is answered ends with exactly one ReadyForQuery,
   preceded by at most one ErrorResponse which is then the message right before it *)
Lemma simple_query_cycle c body fs tl evs fs' k :
  simple_query c body fs tl = (evs, fs', k) -> k = Continue ->
  (List.length fs' <= List.length fs)%nat /\
  exists pre, outs evs = pre ++ [ready] /\ no_ready pre = true /\
    ((no_error pre = true) \/ (exists pre' e, pre = pre' ++ [BError e] /\ no_error pre' = true)).
Proof.
  unfold simple_query. intros H Hk.
  destruct (take_cstr body) as [[q rest]|]; [|injection H as <- <- <-; discriminate].
  destruct (is_blank q).
  { injection H as <- <- <-. split; [lia|]. exists [BEmptyQuery]. cbn. auto. }
  destruct (cfg_parse c q) as [e|ss].
  { injection H as <- <- <-. split; [lia|]. exists [err_msg (Some e)]. cbn. split; [reflexivity|]. split; [reflexivity|].
    right. exists [], (err_fields (Some e)). auto. }
  destruct ss as [|s r].
  { injection H as <- <- <-. split; [lia|]. exists [err_msg (Some e_undefined_stmt)]. cbn. split; [reflexivity|]. split; [reflexivity|].
    right. exists [], (err_fields (Some e_undefined_stmt)). auto. }
  destruct (run_stmts c (s :: r) fs tl) as [[evs1 fs1] cr] eqn:E.
  injection H as <- <- <-. destruct (run_stmts_spec _ _ _ _ _ _ _ E) as [S P].
  split; [exact S|]. destruct cr; [subst; discriminate|].
  destruct (P eq_refl) as (pre & Ho & Hn & He). exists pre. cbn [outs flat_map app]. auto.
Qed.

(* ---------- the command loop: discard-until-Sync ---------- *)
Lemma cmd_discard c st t body rest tl :
  st_discard st = true -> Byte.eqb t x53 = false -> Byte.eqb t x58 = false ->
  cmd c st (FMsg t body) rest tl = ([], st, rest, Continue).
Proof. intros D S X. unfold cmd. rewrite D, S, X. reflexivity. Qed.

Lemma cmd_discard_oversize c st t size rest tl :
  st_discard st = true -> Byte.eqb t x53 = false ->
  cmd c st (FOver t size None) rest tl = ([], st, rest, Continue) /\
  cmd c st (FBad t size) rest tl = ([], st, rest, Continue).
Proof. intros D S. unfold cmd, do_oversize. rewrite D, S. auto. Qed.

Lemma cmd_sync c st body rest tl :
  cmd c st (FMsg x53 body) rest tl = ([Out ready], set_discard st false, rest, Continue).
Proof.
  unfold cmd. replace (Byte.eqb x53 x53) with true by reflexivity.
  rewrite andb_false_r. reflexivity.
Qed.

Lemma cmd_flush c st body rest tl :
  st_discard st = false -> cmd c st (FMsg x48 body) rest tl = ([], st, rest, Continue).
Proof. intros D. unfold cmd. rewrite D. reflexivity. Qed.

Lemma ext_err_spec st e evs st' :
  ext_err st e = (evs, st') ->
  outs evs = [err_msg (Some e)] /\ st_discard st' = true /\
  st_stmts st' = st_stmts st /\ st_portals st' = st_portals st /\ filter is_cb evs = [].
Proof. unfold ext_err. intros H. injection H as <- <-. repeat split. Qed.

(* shape of a reply to an extended-protocol message: [good] or one ErrorResponse,
   never a ReadyForQuery; the discard flag is raised exactly by the error *)
Definition ext_reply (st st' : sst) (evs : list ev) (good : list bmsg -> bool) : Prop :=
  (good (outs evs) = true /\ st_discard st' = st_discard st) \/
  ((exists e, outs evs = [BError e]) /\ st_discard st' = true).

Lemma do_parse_reply c st body evs st' k :
  do_parse c st body = (evs, st', k) -> k = Continue ->
  ext_reply st st' evs (fun ms => match ms with [BParseComplete] => true | _ => false end).
Proof.
  unfold do_parse. intros H Hk.
  destruct (take_cstr body) as [[name l1]|]; [|injection H as <- <- <-; discriminate].
  destruct (take_cstr l1) as [[q l2]|]; [|injection H as <- <- <-; discriminate].
  destruct (p_u16 l2) as [[n l3]|]; [|injection H as <- <- <-; discriminate].
  destruct (cfg_parse c q) as [e|[|s [|s2 r]]].
  - injection H as <- <- <-. right. split; [eexists; reflexivity|reflexivity].
  - injection H as <- <- <-. right. split; [eexists; reflexivity|reflexivity].
  - injection H as <- <- <-. left. split; reflexivity.
  - injection H as <- <- <-. right. split; [eexists; reflexivity|reflexivity].
Qed.

Lemma do_bind_reply st body evs st' k :
  do_bind st body = (evs, st', k) -> k = Continue ->
  ext_reply st st' evs (fun ms => match ms with [BBindComplete] => true | _ => false end) /\ filter is_cb evs = [].
Proof.
  unfold do_bind. intros H Hk.
  destruct (decode_bind body) as [b|]; [|injection H as <- <- <-; discriminate].
  destruct (alist_get (b_stmt b) (st_stmts st)) as [s|].
  - injection H as <- <- <-. split; [left; split; reflexivity|reflexivity].
  - injection H as <- <- <-. split; [right; split; [eexists; reflexivity|reflexivity]|reflexivity].
Qed.

Lemma do_describe_reply st body evs st' k :
  do_describe st body = (evs, st', k) -> k = Continue ->
  ext_reply st st' evs (fun ms => match ms with
                                  | [BParamDesc _; BRowDesc _] | [BParamDesc _; BNoData]
                                  | [BRowDesc _] | [BNoData] => true
                                  | _ => false end) /\ filter is_cb evs = [].
Proof.
  unfold do_describe. intros H Hk.
  destruct body as [|kd l1]; [injection H as <- <- <-; discriminate|].
  destruct (take_cstr l1) as [[name l2]|]; [|injection H as <- <- <-; discriminate].
  destruct (Byte.eqb kd x53).
  - destruct (alist_get name (st_stmts st)) as [s|].
    + injection H as <- <- <-. split; [left|reflexivity]. split; [|reflexivity].
      cbn. unfold describe_cols. destruct (s_cols s); reflexivity.
    + injection H as <- <- <-. split; [right; split; [eexists; reflexivity|reflexivity]|reflexivity].
  - destruct (Byte.eqb kd x50).
    + destruct (alist_get name (st_portals st)) as [p|].
      * injection H as <- <- <-. split; [left|reflexivity]. split; [|reflexivity].
        cbn. unfold describe_cols. destruct (s_cols (p_stmt p)); reflexivity.
      * injection H as <- <- <-. split; [right; split; [eexists; reflexivity|reflexivity]|reflexivity].
    + injection H as <- <- <-. split; [right; split; [eexists; reflexivity|reflexivity]|reflexivity].
Qed.

Lemma do_close_reply st body evs st' k :
  do_close st body = (evs, st', k) -> k = Continue ->
  ext_reply st st' evs (fun ms => match ms with [BCloseComplete] => true | _ => false end) /\ filter is_cb evs = [].
Proof.
  unfold do_close. intros H Hk.
  destruct body as [|kd l1]; [injection H as <- <- <-; discriminate|].
  destruct (take_cstr l1) as [[name l2]|]; [|injection H as <- <- <-; discriminate].
  destruct (Byte.eqb kd x53); [|destruct (Byte.eqb kd x50)]; injection H as <- <- <-.
  - split; [left; split; reflexivity|reflexivity].
  - split; [left; split; reflexivity|reflexivity].
  - split; [right; split; [eexists; reflexivity|reflexivity]|reflexivity].
Qed.

(* Execute: handler messages (DataRow*, at most one CommandComplete, CopyInResponse),
   optionally followed by one ErrorResponse; no ReadyForQuery *)
Lemma do_execute_reply c st body fs tl evs st' fs' k :
  do_execute c st body fs tl = (evs, st', fs', k) -> k = Continue ->
  (List.length fs' <= List.length fs)%nat /\
  ((forallb handler_msg (outs evs) = true /\ st_discard st' = st_discard st) \/
   (exists pre e, outs evs = pre ++ [BError e] /\ forallb handler_msg pre = true /\ st_discard st' = true)) /\
  st_stmts st' = st_stmts st /\ st_portals st' = st_portals st.
Proof.
  unfold do_execute. intros H Hk.
  destruct (take_cstr body) as [[name l1]|]; [|injection H as <- <- <- <-; discriminate].
  destruct (p_u32 l1) as [[lim l2]|]; [|injection H as <- <- <- <-; discriminate].
  destruct (alist_get name (st_portals st)) as [p|].
  - destruct (run_stmt c (p_stmt p) (p_rfmts p) (p_params p) fs tl) as [[evs1 fs1] res] eqn:E.
    destruct (run_stmt_spec _ _ _ _ _ _ _ _ _ E) as (A & _ & S & _).
    destruct res; injection H as <- <- <- <-.
    + repeat split; auto.
    + repeat split; auto. right. exists (outs evs1), (err_fields (Some e)). rewrite outs_app. auto.
    + repeat split; auto. right. exists (outs evs1), (err_fields (Some e_panic)). rewrite outs_app. auto.
  - injection H as <- <- <- <-. repeat split; auto. right. exists [], (err_fields (Some (e_unknown_portal name))). auto.
Qed.

(* exceeding the size limit: one ErrorResponse 54000/ERROR; ReadyForQuery iff the
   message is not an extended-protocol message; the connection continues *)
Lemma do_oversize_spec c st t size evs st' :
  do_oversize c st t size = (evs, st') -> st_discard st = false ->
  let e := err_msg (Some (e_size_exceeded (eff_limit (cfg_limit c)) size)) in
  (is_ext t = true -> outs evs = [e] /\ st_discard st' = true) /\
  (is_ext t = false -> outs evs = [e; ready] /\ st_discard st' = false) /\
  filter is_cb evs = [] /\ st_stmts st' = st_stmts st /\ st_portals st' = st_portals st.
Proof.
  unfold do_oversize. intros H D. rewrite D in H. cbn [andb] in H.
  destruct (is_ext t) eqn:E.
  - injection H as <- <-. repeat split; auto; discriminate.
  - destruct (Byte.eqb t x53); injection H as <- <-; repeat split; auto; discriminate.
Qed.

Lemma size_exceeded_fields max size :
  get_code (e_size_exceeded max size) = bs "54000" /\
  default_severity (get_severity (e_size_exceeded max size)) = bs "ERROR".
Proof. split; reflexivity. Qed.

(* ---------- frames are only ever consumed ---------- *)
Lemma cmd_consumes c st f rest tl evs st' fs' k :
  cmd c st f rest tl = (evs, st', fs', k) -> (List.length fs' <= List.length rest)%nat.
Proof.
  unfold cmd. intros H.
  destruct f as [t body|t size [tr|]|t size|].
  - destruct (st_discard st && negb (Byte.eqb t x53) && negb (Byte.eqb t x58)); [injection H as <- <- <- <-; lia|].
    destruct (Byte.eqb t x51).
    { destruct (simple_query c body rest tl) as [[evs1 fs1] k1] eqn:E. injection H as <- <- <- <-.
      unfold simple_query in E. destruct (take_cstr body) as [[q r]|]; [|injection E as <- <- <-; lia].
      destruct (is_blank q); [injection E as <- <- <-; lia|].
      destruct (cfg_parse c q) as [e|[|s ss]]; try (injection E as <- <- <-; lia).
      destruct (run_stmts c (s :: ss) rest tl) as [[evs2 fs2] cr] eqn:E2. injection E as <- <- <-.
      apply (run_stmts_spec _ _ _ _ _ _ _ E2). }
    destruct (Byte.eqb t x45).
    { unfold do_execute in H. destruct (take_cstr body) as [[name l1]|]; [|injection H as <- <- <- <-; lia].
      destruct (p_u32 l1) as [[lim l2]|]; [|injection H as <- <- <- <-; lia].
      destruct (alist_get name (st_portals st)) as [p|]; [|injection H as <- <- <- <-; lia].
      destruct (run_stmt c (p_stmt p) (p_rfmts p) (p_params p) rest tl) as [[evs1 fs1] res] eqn:E.
      destruct (run_stmt_spec _ _ _ _ _ _ _ _ _ E) as (_ & _ & S & _).
      destruct res; injection H as <- <- <- <-; exact S. }
    destruct (Byte.eqb t x50). { destruct (do_parse c st body) as [[a b] d]. injection H as <- <- <- <-. lia. }
    destruct (Byte.eqb t x44). { destruct (do_describe st body) as [[a b] d]. injection H as <- <- <- <-. lia. }
    destruct (Byte.eqb t x53). { injection H as <- <- <- <-. lia. }
    destruct (Byte.eqb t x42). { destruct (do_bind st body) as [[a b] d]. injection H as <- <- <- <-. lia. }
    destruct (Byte.eqb t x48). { injection H as <- <- <- <-. lia. }
    destruct (Byte.eqb t x64 || Byte.eqb t x63 || Byte.eqb t x66). { injection H as <- <- <- <-. lia. }
    destruct (Byte.eqb t x43). { destruct (do_close st body) as [[a b] d]. injection H as <- <- <- <-. lia. }
    destruct (Byte.eqb t x58). { destruct (cfg_term c); injection H as <- <- <- <-; lia. }
    injection H as <- <- <- <-. lia.
  - injection H as <- <- <- <-. cbn. lia.
  - destruct (do_oversize c st t size) as [a b]. injection H as <- <- <- <-. lia.
  - destruct (do_oversize c st t size) as [a b]. injection H as <- <- <- <-. lia.
  - injection H as <- <- <- <-. cbn. lia.
Qed.

(* handling of the connection ends: with the fuel [serve] provides, the loop's
   log ends with [Closed] (it never stops for lack of fuel) *)
Lemma loop_ends c : forall fuel st fs tl,
  (List.length fs < fuel)%nat -> exists pre, loop fuel c st fs tl = pre ++ [Closed].
Proof.
  induction fuel as [|fuel IH]; intros st fs tl Hl; [lia|].
  cbn [loop]. destruct fs as [|f rest]; [exists []; reflexivity|].
  destruct (cmd c st f rest tl) as [[[evs st'] fs'] k] eqn:E.
  pose proof (cmd_consumes _ _ _ _ _ _ _ _ _ E) as S.
  destruct k.
  - destruct (IH st' fs' tl) as [pre Hp]; [cbn [List.length] in Hl; lia|].
    exists (Consume :: evs ++ pre). rewrite Hp. cbn [app]. rewrite app_assoc. reflexivity.
  - exists (Consume :: evs). reflexivity.
Qed.

(* ---------- middlewares ---------- *)
Fixpoint mw_events (n : nat) (i : Z) : list ev :=
  match n with O => [] | S k => CbMw i :: mw_events k (i + 1) end.

Fixpoint ok_prefix (mws : list bool) : nat :=
  match mws with true :: r => S (ok_prefix r) | _ => O end.

Lemma run_mws_spec : forall mws i,
  run_mws mws i =
  if Nat.eqb (ok_prefix mws) (List.length mws) then (mw_events (List.length mws) i, true)
  else (mw_events (S (ok_prefix mws)) i, false).
Proof.
  induction mws as [|ok r IH]; intros i; cbn [run_mws ok_prefix List.length].
  - reflexivity.
  - destruct ok.
    + rewrite IH. cbn [Nat.eqb]. destruct (Nat.eqb (ok_prefix r) (List.length r)); reflexivity.
    + reflexivity.
Qed.

(* ---------- authentication ---------- *)
Definition is_auth_ok (e : ev) : bool := match e with Out (BAuth c) => c =? 0 | _ => false end.
Definition only_validate (evs : list ev) : bool :=
  forallb (fun e => match e with CbValidate _ _ _ => true | _ => negb (is_cb e) end) evs.

(* if the strategy does not accept, AuthenticationOk is not sent, nothing of the
   input is retained, and the only callback that ran is the validator *)
Lemma auth_phase_reject c cparams s evs rest ok :
  cfg_auth c <> None ->
  auth_phase c cparams s = (evs, rest, ok) -> ok = false ->
  existsb is_auth_ok evs = false /\ rest = [] /\ only_validate evs = true /\
  forallb (fun m => negb (is_ready m)) (outs evs) = true.
Proof.
  unfold auth_phase. intros Ha H Hok.
  destruct (cfg_auth c) as [validate|]; [|contradiction].
  destruct s as [|t [|a [|b [|c4 [|d r]]]]]; try (injection H as <- <- <-; repeat split; reflexivity).
  destruct ((rd32 a b c4 d - 4 <? 0) || (rd32 a b c4 d - 4 >? eff_limit (cfg_limit c)));
    [injection H as <- <- <-; repeat split; reflexivity|].
  destruct (takeZ (rd32 a b c4 d - 4) r) as [[body rest']|]; [|injection H as <- <- <-; repeat split; reflexivity].
  destruct (negb (Byte.eqb t x70)); [injection H as <- <- <-; repeat split; reflexivity|].
  destruct (take_cstr body) as [[pw junk]|]; [|injection H as <- <- <-; repeat split; reflexivity].
  destruct (validate (param_get (bs "database") cparams) (param_get (bs "user") cparams) pw);
    injection H as <- <- <-; try discriminate; repeat split; reflexivity.
Qed.

(* AuthenticationOk is preceded by an accepting validation of this connection's
   own database, user and password *)
Lemma auth_phase_accept c validate cparams s evs rest :
  cfg_auth c = Some validate ->
  auth_phase c cparams s = (evs, rest, true) ->
  exists pw, evs = [Out (BAuth 3); CbValidate (param_get (bs "database") cparams) (param_get (bs "user") cparams) pw; Out (BAuth 0)] /\
             validate (param_get (bs "database") cparams) (param_get (bs "user") cparams) pw = VAccept.
Proof.
  unfold auth_phase. intros Ha H. rewrite Ha in H.
  destruct s as [|t [|a [|b [|c4 [|d r]]]]]; try discriminate.
  destruct ((rd32 a b c4 d - 4 <? 0) || (rd32 a b c4 d - 4 >? eff_limit (cfg_limit c))); [discriminate|].
  destruct (takeZ (rd32 a b c4 d - 4) r) as [[body rest']|]; [|discriminate].
  destruct (negb (Byte.eqb t x70)); [discriminate|].
  destruct (take_cstr body) as [[pw junk]|]; [|discriminate].
  destruct (validate (param_get (bs "database") cparams) (param_get (bs "user") cparams) pw) eqn:V; try discriminate.
  injection H as <- <-. exists pw. auto.
Qed.

(* a connection whose credentials were not accepted: the log is the
   authentication exchange followed by the end of the connection *)
Lemma session_reject c after s cparams evs rest :
  read_params (S (List.length after)) after = Some cparams ->
  auth_phase c cparams s = (evs, rest, false) ->
  session c after s = evs ++ [Closed].
Proof. intros R A. unfold session. rewrite R, A. reflexivity. Qed.

(* ---------- server parameters ---------- *)
Lemma forced_in_params c user kv : In kv (forced_params c user) -> In kv (server_params c user).
Proof. intros H. unfold server_params. apply in_or_app. right. exact H. Qed.

Lemma server_params_forced c user :
  In (bs "server_encoding", bs "UTF8") (server_params c user) /\
  In (bs "client_encoding", bs "UTF8") (server_params c user) /\
  In (bs "is_superuser", bs "off") (server_params c user) /\
  In (bs "session_authorization", user) (server_params c user) /\
  (cfg_version c <> [] -> In (bs "server_version", cfg_version c) (server_params c user)).
Proof.
  repeat split; try intros Hv; apply forced_in_params; unfold forced_params;
    destruct (cfg_version c) as [|b r]; cbn; auto 10; contradiction.
Qed.

(* configured parameters are passed through unless a forced entry overrides them *)
Lemma server_params_configured c user k v :
  In (k, v) (cfg_params c) ->
  existsb (fun f => bytes_eqb k (fst f)) (forced_params c user) = false ->
  In (k, v) (server_params c user).
Proof.
  intros Hin Hn. unfold server_params. apply in_or_app. left.
  apply filter_In. split; [exact Hin|]. cbn [fst]. rewrite Hn. reflexivity.
Qed.

(* ---------- caches: association lists behave like maps ---------- *)
Lemma bytes_eqb_refl a : bytes_eqb a a = true.
Proof. induction a as [|x a IH]; cbn; [reflexivity|]. rewrite IH, andb_true_r. destruct x; reflexivity. Qed.

Lemma bytes_eqb_eq a : forall b, bytes_eqb a b = true -> a = b.
Proof.
  induction a as [|x a IH]; intros [|y b] H; cbn in H; try discriminate; [reflexivity|].
  apply andb_prop in H as [H1 H2]. apply Byte.byte_dec_bl in H1. subst. f_equal. apply IH. exact H2.
Qed.

Lemma alist_get_del_same {A} k (l : list (bytes * A)) : alist_get k (alist_del k l) = None.
Proof.
  induction l as [|[k' v] r IH]; cbn [alist_del alist_get]; [reflexivity|].
  destruct (bytes_eqb k k') eqn:E; [exact IH|]. cbn [alist_get]. rewrite E. exact IH.
Qed.

Lemma alist_get_del_other {A} k k' (l : list (bytes * A)) :
  bytes_eqb k' k = false -> alist_get k' (alist_del k l) = alist_get k' l.
Proof.
  intros N. induction l as [|[k2 v] r IH]; cbn [alist_del alist_get]; [reflexivity|].
  destruct (bytes_eqb k k2) eqn:E.
  - apply bytes_eqb_eq in E. subst k2. rewrite N. exact IH.
  - cbn [alist_get]. destruct (bytes_eqb k' k2); [reflexivity|exact IH].
Qed.

Lemma alist_get_set_same {A} k (v : A) l : alist_get k (alist_set k v l) = Some v.
Proof. unfold alist_set. cbn [alist_get]. rewrite bytes_eqb_refl. reflexivity. Qed.

Lemma alist_get_set_other {A} k k' (v : A) l :
  bytes_eqb k' k = false -> alist_get k' (alist_set k v l) = alist_get k' l.
Proof. intros N. unfold alist_set. cbn [alist_get]. rewrite N. apply alist_get_del_other. exact N. Qed.
