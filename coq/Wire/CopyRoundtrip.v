(* CopyRoundtrip.v — decoding what a client encoded gives back the rows. *)
Require Import Wire.Bytes Spec.BackendSpec Spec.BackendSpecFacts Wire.Transport Wire.TransportFacts Wire.Copy Wire.CopyFacts.
From Coq Require Import ZifyN ZifyNat ZifyBool.
Ltac Zify.zify_post_hook ::= Z.div_mod_to_equations.
Local Open Scope list_scope.
Local Open Scope Z_scope.

Lemma read_full_single a r : read_full (length a) [a ++ r] = Some (a, [r]).
Proof.
  destruct a as [|x a]; [reflexivity|].
  set (n := length (x :: a)). assert (Hn : n = S (length a)) by reflexivity.
  rewrite Hn. cbn [read_full]. rewrite <- Hn.
  destruct (Nat.leb_spec n (length ((x :: a) ++ r))) as [_|H]; [|rewrite app_length in H; lia].
  unfold n. rewrite firstn_app, skipn_app, firstn_all, skipn_all, Nat.sub_diag. cbn [firstn skipn app].
  rewrite app_nil_r. reflexivity.
Qed.

Lemma read_full_single_n n a r : n = length a -> read_full n [a ++ r] = Some (a, [r]).
Proof. intros ->. apply read_full_single. Qed.

Lemma be32_len z : length (be32 z) = 4%nat. Proof. reflexivity. Qed.
Lemma be16_len z : length (be16 z) = 2%nat. Proof. reflexivity. Qed.

(* well-typed values for a column *)
Definition wf_dval (L : Z) (oid : Z) (d : dval) : bool :=
  match d with
  | DNull => true
  | DBool _ => (oid =? 16)
  | DInt z => ((oid =? 21) && (-32768 <=? z) && (z <? 32768)) ||
              ((oid =? 23) && (-2147483648 <=? z) && (z <? 2147483648)) ||
              ((oid =? 20) && (-9223372036854775808 <=? z) && (z <? 9223372036854775808))
  | DBytes b => (((oid =? 25) || (oid =? 1043) || (oid =? 17)) && (lenZ b <=? L) && (lenZ b <? 4294967295)) ||
                ((oid =? 2950) && (lenZ b =? 16))
  end.

Lemma s32_be32 z a b c d : -2147483648 <= z < 2147483648 -> be32 z = [a; b; c; d] -> s32 (rd32 a b c d) = z.
Proof.
  intros Hz E. destruct (be32_shape (z mod 4294967296)) as (a' & b' & c' & d' & Hs & Hv).
  assert (be32 (z mod 4294967296) = be32 z) as Eq by (unfold be32; rewrite Z.mod_mod by lia; reflexivity).
  rewrite Eq, E in Hs. injection Hs as <- <- <- <-.
  specialize (Hv ltac:(lia)). rewrite Hv. unfold s32. destruct (Z.geb_spec (z mod 4294967296) 2147483648); lia.
Qed.

Lemma s16_be16 z a b : -32768 <= z < 32768 -> be16 z = [a; b] -> s16 (rd16 a b) = z.
Proof.
  intros Hz E. destruct (be16_shape (z mod 65536)) as (a' & b' & Hs & Hv).
  assert (be16 (z mod 65536) = be16 z) as Eq by (unfold be16; rewrite Z.mod_mod by lia; reflexivity).
  rewrite Eq, E in Hs. injection Hs as <- <-.
  specialize (Hv ltac:(lia)). rewrite Hv. unfold s16. destruct (Z.geb_spec (z mod 65536) 32768); lia.
Qed.

Lemma rd64_be64 z : -9223372036854775808 <= z < 9223372036854775808 ->
  s64 (rd64 (be32 ((z mod 18446744073709551616) / 4294967296) ++ be32 z)) = z.
Proof.
  intros Hz.
  destruct (be32_shape ((z mod 18446744073709551616) / 4294967296)) as (a & b & c & d & Hs & Hv).
  destruct (be32_shape (z mod 4294967296)) as (e & f & g & h & Hs2 & Hv2).
  assert (be32 (z mod 4294967296) = be32 z) as Eq by (unfold be32; rewrite Z.mod_mod by lia; reflexivity).
  rewrite Eq in Hs2. rewrite Hs, Hs2. cbn [app].
  specialize (Hv ltac:(lia)). specialize (Hv2 ltac:(lia)).
  unfold rd64. cbn [fold_left]. unfold rd32 in Hv, Hv2.
  pose proof (bZ_range a). pose proof (bZ_range b). pose proof (bZ_range c). pose proof (bZ_range d).
  pose proof (bZ_range e). pose proof (bZ_range f). pose proof (bZ_range g). pose proof (bZ_range h).
  unfold s64.
  match goal with |- (if ?x >=? _ then _ else _) = _ => set (v := x) end.
  assert (v = z mod 18446744073709551616) by (unfold v; lia).
  destruct (Z.geb_spec v 9223372036854775808); lia.
Qed.

(* one field *)
Lemma read_field_enc L oid d rest_oids tail :
  16 <= L -> wf_dval L oid d = true ->
  read_fields L (oid :: rest_oids) [enc_dval oid d ++ tail] =
  match read_fields L rest_oids [tail] with
  | (Some vs, s) => (Some (d :: vs), s)
  | (None, s) => (None, s)
  end.
Proof.
  intros HL W. cbn [read_fields]. destruct d as [|z|b|v]; cbn [enc_dval wf_dval] in *.
  - (* NULL *)
    destruct (be32_shape 4294967295) as (a & b & c & d & Hs & Hv). specialize (Hv ltac:(lia)).
    rewrite Hs. change ([a; b; c; d] ++ tail) with ([a; b; c; d] ++ tail).
    rewrite (read_full_single_n 4 [a; b; c; d] tail eq_refl). rewrite Hv. cbn. reflexivity.
  - (* integers *)
    destruct (oid =? 21) eqn:E21; [apply Z.eqb_eq in E21; subst oid|].
    { cbn in W. assert (-32768 <= z < 32768) by lia.
      destruct (be32_shape 2) as (a & b & c & d & Hs & Hv). specialize (Hv ltac:(lia)).
      rewrite <- app_assoc, Hs. rewrite (read_full_single_n 4 [a; b; c; d] _ eq_refl). rewrite Hv.
      cbn [Z.eqb Z.gtb]. destruct (Z.gtb_spec 2 L); [lia|].
      change (Z.to_nat 2) with 2%nat.
      destruct (be16_shape z) as (p & q & Hp & _). rewrite Hp.
      rewrite (read_full_single_n 2 [p; q] tail eq_refl).
      unfold decode_binary. cbn [Z.eqb]. rewrite (s16_be16 z p q) by assumption. reflexivity. }
    destruct (oid =? 23) eqn:E23; [apply Z.eqb_eq in E23; subst oid|].
    { cbn in W. assert (-2147483648 <= z < 2147483648) by lia.
      destruct (be32_shape 4) as (a & b & c & d & Hs & Hv). specialize (Hv ltac:(lia)).
      rewrite <- app_assoc, Hs. rewrite (read_full_single_n 4 [a; b; c; d] _ eq_refl). rewrite Hv.
      cbn [Z.eqb Z.gtb]. destruct (Z.gtb_spec 4 L); [lia|].
      change (Z.to_nat 4) with 4%nat.
      destruct (be32_shape z) as (p & q & r & s & Hp & _). rewrite Hp.
      rewrite (read_full_single_n 4 [p; q; r; s] tail eq_refl).
      unfold decode_binary. cbn [Z.eqb]. rewrite (s32_be32 z p q r s) by assumption. reflexivity. }
    assert (oid = 20 /\ -9223372036854775808 <= z < 9223372036854775808) as [-> Hz] by (cbn in W; lia).
    destruct (be32_shape 8) as (a & b & c & d & Hs & Hv). specialize (Hv ltac:(lia)).
    rewrite <- app_assoc, Hs. rewrite (read_full_single_n 4 [a; b; c; d] _ eq_refl). rewrite Hv.
    cbn [Z.eqb Z.gtb]. destruct (Z.gtb_spec 8 L); [lia|].
    change (Z.to_nat 8) with 8%nat.
    set (w := be32 ((z mod 18446744073709551616) / 4294967296) ++ be32 z).
    rewrite (read_full_single_n 8 w tail eq_refl).
    unfold decode_binary. cbn [Z.eqb]. replace (lenZ w =? 8) with true by reflexivity.
    unfold w. rewrite rd64_be64 by assumption. reflexivity.
  - (* bool *)
    apply Z.eqb_eq in W. subst oid.
    destruct (be32_shape 1) as (a & b' & c & d & Hs & Hv). specialize (Hv ltac:(lia)).
    rewrite <- app_assoc, Hs. rewrite (read_full_single_n 4 [a; b'; c; d] _ eq_refl). rewrite Hv.
    cbn [Z.eqb Z.gtb]. destruct (Z.gtb_spec 1 L); [lia|].
    change (Z.to_nat 1) with 1%nat.
    rewrite (read_full_single_n 1 [if b then x01 else x00] tail eq_refl).
    unfold decode_binary. cbn [Z.eqb]. destruct b; reflexivity.
  - (* byte strings *)
    pose proof (lenZ_nonneg v) as Hn.
    assert (Hlen : lenZ v <= L /\ lenZ v < 4294967295) by (unfold lenZ in *; lia).
    destruct (be32_shape (lenZ v)) as (a & b & c & d & Hs & Hv). specialize (Hv ltac:(lia)).
    rewrite <- app_assoc, Hs. rewrite (read_full_single_n 4 [a; b; c; d] _ eq_refl). rewrite Hv.
    destruct (Z.eqb_spec (lenZ v) 4294967295); [lia|]. destruct (Z.gtb_spec (lenZ v) L); [lia|].
    rewrite (read_full_single_n (Z.to_nat (lenZ v)) v tail) by (unfold lenZ; lia).
    assert (D : decode_binary oid v = Some (DBytes v)).
    { unfold decode_binary.
      destruct (oid =? 16) eqn:A; [lia|]. destruct (oid =? 21) eqn:B; [lia|]. destruct (oid =? 23) eqn:C; [lia|].
      destruct (oid =? 20) eqn:D'; [lia|].
      destruct ((oid =? 25) || (oid =? 1043) || (oid =? 17)) eqn:F; [reflexivity|].
      assert (oid = 2950 /\ lenZ v = 16) as [-> Hl] by lia. cbn [Z.eqb]. rewrite Hl. reflexivity. }
    rewrite D. reflexivity.
Qed.

Fixpoint wf_row (L : Z) (oids : list Z) (vs : list dval) : bool :=
  match oids, vs with
  | [], [] => true
  | o :: orest, v :: vrest => wf_dval L o v && wf_row L orest vrest
  | _, _ => false
  end.

Lemma read_fields_enc L : forall oids vs tail,
  16 <= L -> wf_row L oids vs = true ->
  read_fields L oids [enc_fields oids vs ++ tail] = (Some vs, [tail]).
Proof.
  induction oids as [|o orest IH]; intros vs tail HL W; destruct vs as [|v vrest]; cbn [wf_row] in W; try discriminate.
  - reflexivity.
  - apply andb_prop in W as [W1 W2]. cbn [enc_fields]. rewrite <- app_assoc.
    rewrite read_field_enc by assumption. rewrite IH by assumption. reflexivity.
Qed.

Lemma wf_row_length L oids : forall vs, wf_row L oids vs = true -> lenZ vs = lenZ oids.
Proof.
  induction oids as [|o r IH]; intros [|v vs] W; cbn [wf_row] in W; try discriminate; [reflexivity|].
  apply andb_prop in W as [_ W]. unfold lenZ in *. cbn [length]. specialize (IH vs W). lia.
Qed.

(* one row from the front of a (started) flat stream *)
Lemma read_row_enc L oids e vs tail :
  16 <= L -> lenZ oids < 65535 -> wf_row L oids vs = true ->
  read_row L oids e {| b_segs := [enc_row oids vs ++ tail]; b_started := true; b_over := false |} =
  (CRow vs, {| b_segs := [tail]; b_started := true; b_over := false |}).
Proof.
  intros HL Hc W. unfold read_row, header_segs. cbn [b_over b_started b_segs].
  unfold enc_row. pose proof (wf_row_length _ _ _ W) as Hlen. pose proof (lenZ_nonneg vs).
  destruct (be16_shape (lenZ vs)) as (a & b & Hs & Hv). specialize (Hv ltac:(lia)).
  rewrite <- app_assoc, Hs.
  assert (R1 : read_full 1 [[a; b] ++ enc_fields oids vs ++ tail] <> None) by (cbn; discriminate).
  destruct (read_full 1 [[a; b] ++ enc_fields oids vs ++ tail]); [|contradiction].
  rewrite (read_full_single_n 2 [a; b] _ eq_refl). rewrite Hv.
  destruct (Z.eqb_spec (lenZ vs) 65535); [lia|]. rewrite Hlen, Z.eqb_refl. cbn [negb].
  rewrite read_fields_enc by assumption. reflexivity.
Qed.

(* all rows, then the end of the stream (with or without the trailer) *)
Lemma read_all_rows L oids : forall rows fuel tail,
  16 <= L -> lenZ oids < 65535 -> forallb (wf_row L oids) rows = true ->
  (length rows < fuel)%nat ->
  (tail = [] \/ exists junk, tail = copy_trailer ++ junk) ->
  read_all fuel L oids EDone {| b_segs := [flat_map (enc_row oids) rows ++ tail]; b_started := true; b_over := false |}
  = (rows, CEnd).
Proof.
  induction rows as [|vs rows IH]; intros fuel tail HL Hc W Hf Ht.
  - destruct fuel; [cbn in Hf; lia|]. cbn [flat_map app read_all].
    unfold read_row, header_segs. cbn [b_over b_started b_segs].
    destruct Ht as [->|[junk ->]].
    + reflexivity.
    + unfold copy_trailer. destruct (be16_shape 65535) as (a & b & Hs & Hv). specialize (Hv ltac:(lia)).
      rewrite Hs. cbn [app]. cbn [read_full Nat.leb length firstn skipn]. rewrite Hv. reflexivity.
  - destruct fuel; [cbn in Hf; lia|]. cbn [forallb] in W. apply andb_prop in W as [W1 W2].
    cbn [flat_map read_all]. rewrite <- app_assoc.
    rewrite read_row_enc by assumption.
    rewrite IH; auto. cbn [length] in Hf. lia.
Qed.

Lemma rows_le_bytes oids rows : (length rows <= length (flat_map (enc_row oids) rows))%nat.
Proof.
  induction rows as [|r rs IH]; cbn [flat_map length]; [lia|].
  unfold enc_row at 1. rewrite !app_length. pose proof (be16_len (lenZ r)). lia.
Qed.

Lemma header_skip e rest : header_segs false e [copy_header ++ rest] = Some [rest].
Proof.
  unfold header_segs, copy_header.
  assert (E11 : read_full 11 [(copy_signature ++ be32 0 ++ be32 0) ++ rest] =
                Some (copy_signature, [(be32 0 ++ be32 0) ++ rest])).
  { rewrite <- !app_assoc. apply (read_full_single_n 11 copy_signature). reflexivity. }
  rewrite E11. replace (bytes_eqb copy_signature copy_signature) with true by reflexivity.
  rewrite (read_full_single_n 19 (copy_signature ++ be32 0 ++ be32 0) rest) by reflexivity. reflexivity.
Qed.

(* reading through the library's row reader yields exactly the rows the client
   encoded, with the standard header, with or without the end-of-data trailer *)
Theorem decode_all_roundtrip L oids rows tail :
  16 <= L -> lenZ oids < 65535 -> forallb (wf_row L oids) rows = true ->
  (tail = [] \/ exists junk, tail = copy_trailer ++ junk) ->
  decode_all L oids EDone [copy_header ++ flat_map (enc_row oids) rows ++ tail] = (rows, CEnd).
Proof.
  intros HL Hc W Ht. unfold decode_all.
  set (fuel := S (length (concat [copy_header ++ flat_map (enc_row oids) rows ++ tail]))).
  assert (Hf : (S (length rows) < fuel)%nat).
  { unfold fuel. cbn [concat]. rewrite app_nil_r, !app_length.
    pose proof (rows_le_bytes oids rows).
    unfold copy_header. rewrite !app_length. cbn [length copy_signature]. lia. }
  destruct fuel as [|fuel]; [lia|]. cbn [read_all].
  (* the first Read handles the header, then behaves like a started reader *)
  destruct rows as [|vs rows].
  - unfold read_row. cbn [b_over b_started b_segs]. rewrite header_skip. cbn [flat_map app].
    destruct Ht as [->|[junk ->]].
    + reflexivity.
    + unfold copy_trailer. destruct (be16_shape 65535) as (a & b & Hs & Hv). specialize (Hv ltac:(lia)).
      rewrite Hs. cbn [app read_full Nat.leb length firstn skipn]. rewrite Hv. reflexivity.
  - cbn [forallb] in W. apply andb_prop in W as [W1 W2].
    assert (R : read_row L oids EDone {| b_segs := [copy_header ++ flat_map (enc_row oids) (vs :: rows) ++ tail]; b_started := false; b_over := false |}
              = (CRow vs, {| b_segs := [flat_map (enc_row oids) rows ++ tail]; b_started := true; b_over := false |})).
    { pose proof (read_row_enc L oids EDone vs (flat_map (enc_row oids) rows ++ tail) HL Hc W1) as RR.
      unfold read_row in *. cbn [b_over b_started b_segs] in *. rewrite header_skip.
      unfold header_segs in RR. cbn [flat_map]. rewrite <- app_assoc. exact RR. }
    rewrite R. rewrite read_all_rows; auto. cbn [length] in Hf. lia.
Qed.
