Require Import Wire.Bytes Spec.BackendSpec Spec.BackendSpecFacts Wire.ReaderModel.
Local Open Scope list_scope.

(* invariant: every non-empty view so far lies, if it is inside the current
   allocation, below the start of Msg; Msg fits its capacity *)
Definition view_ok (h : rheap) (v : range) : Prop :=
  r_lo v = r_hi v \/
  ((r_alloc v < h_next h)%nat /\ (r_alloc v = h_alloc h -> h_nil h = false /\ (r_hi v <= h_off h)%nat)).

Definition hinv (h : rheap) : Prop :=
  (h_nil h = false -> (h_alloc h < h_next h)%nat /\ (h_len h <= h_cap h)%nat) /\
  (h_nil h = true -> h_len h = 0%nat) /\
  Forall (view_ok h) (h_views h) /\
  writes_safe h = true.

Lemma hinv_init : hinv h_init.
Proof. unfold hinv, h_init; cbn. repeat split; auto; discriminate. Qed.

Lemma disjoint_intro a b :
  (r_alloc a <> r_alloc b \/ (r_hi a <= r_lo b)%nat \/ (r_hi b <= r_lo a)%nat \/ r_lo b = r_hi b) -> disjoint a b = true.
Proof.
  unfold disjoint. intros [H|[H|[H|H]]].
  - destruct (Nat.eqb_spec (r_alloc a) (r_alloc b)); [contradiction|reflexivity].
  - destruct (Nat.leb_spec (r_hi a) (r_lo b)); [|lia]. rewrite orb_true_r. reflexivity.
  - destruct (Nat.leb_spec (r_hi b) (r_lo a)); [|lia]. rewrite !orb_true_r. reflexivity.
  - rewrite H, Nat.eqb_refl, !orb_true_r. reflexivity.
Qed.

Lemma hinv_step h o : hinv h -> hinv (rstep h o).
Proof.
  intros (Hc & Hn & Hv & Hw). destruct o as [size|n skip]; cbn [rstep].
  - destruct (h_nil h && Nat.eqb size 0) eqn:E0; [exact (conj Hc (conj Hn (conj Hv Hw)))|].
    destruct (Nat.leb size (if h_nil h then 0 else h_cap h - h_len h) && negb (h_nil h)) eqn:E.
    + apply andb_prop in E as [E1 E2]. destruct (h_nil h) eqn:En; [discriminate|].
      destruct (Hc eq_refl) as [Ha Hl]. apply Nat.leb_le in E1.
      unfold hinv, writes_safe; cbn. split; [|split; [|split]].
      * intros _. split; [exact Ha|exact E1].
      * discriminate.
      * apply Forall_forall. intros v Hin. rewrite Forall_forall in Hv. destruct (Hv v Hin) as [V0|[V1 V2]]; [left; exact V0|].
        right. split; [exact V1|]. cbn. intros Ea. destruct (V2 Ea) as [_ V3]. split; [reflexivity|lia].
      * apply andb_true_intro. split; [|exact Hw].
        apply forallb_forall. intros v Hin. rewrite Forall_forall in Hv.
        apply disjoint_intro. cbn. destruct (Hv v Hin) as [V0|[V1 V2]]; [right; right; right; exact V0|].
        destruct (Nat.eq_dec (h_alloc h) (r_alloc v)) as [Ea|Na]; [|left; exact Na].
        right. right. left. destruct (V2 (eq_sym Ea)) as [_ V3]. lia.
    + unfold hinv, writes_safe; cbn. split; [|split; [|split]].
      * intros _. split; lia.
      * discriminate.
      * apply Forall_forall. intros v Hin. rewrite Forall_forall in Hv. destruct (Hv v Hin) as [V0|[V1 V2]]; [left; exact V0|].
        right. split; [cbn; lia|]. cbn. intros Ea. lia.
      * apply andb_true_intro. split; [|exact Hw].
        apply forallb_forall. intros v Hin. rewrite Forall_forall in Hv.
        apply disjoint_intro. cbn. destruct (Hv v Hin) as [V0|[V1 V2]]; [right; right; right; exact V0|].
        left. lia.
  - destruct (Nat.leb_spec (n + skip) (h_len h)) as [Hle|Hgt]; [|exact (conj Hc (conj Hn (conj Hv Hw)))].
    unfold hinv, writes_safe; cbn. split; [|split; [|split; [|exact Hw]]].
    + intros En. destruct (Hc En) as [Ha Hl]. split; [exact Ha|lia].
    + intros En. rewrite (Hn En). reflexivity.
    + constructor.
      * unfold view_ok. cbn. destruct (h_nil h) eqn:En.
        -- left. specialize (Hn eq_refl). lia.
        -- right. destruct (Hc eq_refl) as [Ha Hl]. split; [exact Ha|]. intros _. split; [reflexivity|lia].
      * apply Forall_forall. intros v Hin. rewrite Forall_forall in Hv. destruct (Hv v Hin) as [V0|[V1 V2]]; [left; exact V0|].
        right. split; [exact V1|]. cbn. intros Ea. destruct (V2 Ea) as [V3 V4]. split; [exact V3|lia].
Qed.

Lemma hinv_run ops : forall h, hinv h -> hinv (fold_left rstep ops h).
Proof. induction ops as [|o r IH]; intros h H; cbn; [exact H|]. apply IH. apply hinv_step. exact H. Qed.

(* for EVERY sequence of resets (of any sizes, with any pattern of getter calls in
   between): no read ever writes into a range a previously returned view covers *)
Theorem reader_never_overwrites ops : writes_safe (rrun ops) = true.
Proof. unfold rrun. apply (hinv_run ops h_init hinv_init). Qed.

(* ---------- list level accessors ---------- *)
(* an accessor never fails to terminate or panics (it is a total function), what it
   returns is a prefix-cut of the message, and what remains is a suffix *)
Definition consumed (r : ares) : bytes -> bytes -> Prop :=
  fun msg rest => exists used, msg = used ++ rest.

Lemma astep_suffix msg o : let (r, rest) := astep msg o in exists used, msg = used ++ rest.
Proof.
  destruct o as [|n| | |]; cbn [astep].
  - destruct (take_cstr msg) as [[s r]|] eqn:E; [|exists []; reflexivity].
    apply take_cstr_inv in E. exists (s ++ [x00]). rewrite <- app_assoc. apply E.
  - destruct (n <? 0)%Z; [exists []; reflexivity|]. destruct (lenZ msg <? n)%Z; [exists []; reflexivity|].
    destruct (takeZ n msg) as [[v r]|] eqn:E; [|exists []; reflexivity].
    apply takeZ_inv in E. exists v. apply E.
  - destruct (p_u16 msg) as [[z r]|] eqn:E; [|exists []; reflexivity].
    apply p_u16_inv in E. exists (be16 z). apply E.
  - destruct (p_u32 msg) as [[z r]|] eqn:E; [|exists []; reflexivity].
    apply p_u32_inv in E. exists (be32 z). apply E.
  - destruct msg as [|b r]; [exists []; reflexivity|]. exists [b]. reflexivity.
Qed.

(* GetString fails exactly when the remaining message has no NUL *)
Lemma astring_fails_iff msg : fst (astep msg AString) = RFail <-> nul_free msg = true.
Proof.
  cbn [astep]. induction msg as [|b r IH]; cbn [take_cstr nul_free].
  - split; reflexivity.
  - destruct (Byte.eqb b x00) eqn:E; cbn [negb andb fst].
    + split; discriminate.
    + destruct (take_cstr r) as [[s t]|]; cbn [fst] in *; rewrite <- IH; split; auto; discriminate.
Qed.

(* fixed-width getters fail exactly when fewer bytes remain *)
Lemma au16_fails_iff msg : fst (astep msg AU16) = RFail <-> (length msg < 2)%nat.
Proof. destruct msg as [|a [|b r]]; cbn; split; intros; try reflexivity; try lia; discriminate. Qed.
Lemma au32_fails_iff msg : fst (astep msg AU32) = RFail <-> (length msg < 4)%nat.
Proof. destruct msg as [|a [|b [|c [|d r]]]]; cbn; split; intros; try reflexivity; try lia; discriminate. Qed.
