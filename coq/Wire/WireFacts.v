(* WireFacts.v — byte-level facts: framing by declared length (C10, C03),
   the Bind message codec (C08), the startup parameter block (C12). *)
Require Import Wire.Bytes Spec.BackendSpec Spec.BackendSpecFacts Wire.Errors Wire.Framing Wire.Session.
Local Open Scope list_scope.
Local Open Scope Z_scope.

(* ---------- framing ---------- *)
Lemma eff_limit_default L : L <= 0 -> eff_limit L = 16777216.
Proof. intros H. unfold eff_limit, default_limit. destruct (Z.leb_spec L 0); [reflexivity|lia]. Qed.
Lemma eff_limit_pos L : 0 < L -> eff_limit L = L.
Proof. intros H. unfold eff_limit. destruct (Z.leb_spec L 0); [lia|reflexivity]. Qed.
Lemma eff_limit_positive L : 0 < eff_limit L.
Proof. unfold eff_limit, default_limit. destruct (Z.leb_spec L 0); lia. Qed.

(* one step of the framing loop on a stream that starts with a type byte and a
   declared length d (the uint32 on the wire), n = d - 4 the body size *)
Lemma frames_step_bad f L t d r :
  0 <= d < 4 ->
  frames_fuel (S f) L (t :: be32 d ++ r) =
  (FBad t (d - 4) :: fst (frames_fuel f L r), snd (frames_fuel f L r)).
Proof.
  intros Hd. destruct (be32_shape d) as (a & b & c & e & Hs & Hv). specialize (Hv ltac:(lia)).
  rewrite Hs. cbn [app frames_fuel]. rewrite Hv.
  destruct (Z.ltb_spec (d - 4) 0); [|lia].
  destruct (frames_fuel f L r). reflexivity.
Qed.

Lemma frames_step_over f L t d r skipped rest :
  4 <= d < 4294967296 -> d - 4 > eff_limit L ->
  takeZ (d - 4) r = Some (skipped, rest) ->
  frames_fuel (S f) L (t :: be32 d ++ r) =
  (FOver t (d - 4) None :: fst (frames_fuel f L rest), snd (frames_fuel f L rest)).
Proof.
  intros Hd Ho Ht. destruct (be32_shape d) as (a & b & c & e & Hs & Hv). specialize (Hv ltac:(lia)).
  rewrite Hs. cbn [app frames_fuel]. rewrite Hv.
  destruct (Z.ltb_spec (d - 4) 0); [lia|].
  destruct (Z.gtb_spec (d - 4) (eff_limit L)); [|lia].
  rewrite Ht. destruct (frames_fuel f L rest). reflexivity.
Qed.

Lemma frames_step_msg f L t d r body rest :
  4 <= d < 4294967296 -> d - 4 <= eff_limit L ->
  takeZ (d - 4) r = Some (body, rest) ->
  frames_fuel (S f) L (t :: be32 d ++ r) =
  (FMsg t body :: fst (frames_fuel f L rest), snd (frames_fuel f L rest)).
Proof.
  intros Hd Ho Ht. destruct (be32_shape d) as (a & b & c & e & Hs & Hv). specialize (Hv ltac:(lia)).
  rewrite Hs. cbn [app frames_fuel]. rewrite Hv.
  destruct (Z.ltb_spec (d - 4) 0); [lia|].
  destruct (Z.gtb_spec (d - 4) (eff_limit L)); [lia|].
  rewrite Ht. destruct (frames_fuel f L rest). reflexivity.
Qed.

(* a complete message within the limit is framed exactly as sent, whatever its
   body contains, and the rest of the stream is framed independently of it *)
Lemma frames_step_client_msg f L t body rest :
  lenZ body <= eff_limit L -> 4 + lenZ body < 4294967296 ->
  frames_fuel (S f) L (client_msg t body ++ rest) =
  (FMsg t body :: fst (frames_fuel f L rest), snd (frames_fuel f L rest)).
Proof.
  intros Hl Hs. unfold client_msg. cbn [app]. rewrite <- app_assoc.
  pose proof (lenZ_nonneg body).
  apply frames_step_msg; try lia.
  replace (4 + lenZ body - 4) with (lenZ body) by lia. apply takeZ_app.
Qed.

(* the truncated / stream-end cases never fabricate a message *)
Lemma frames_step_trunc f L t d r :
  4 <= d < 4294967296 -> d - 4 <= eff_limit L -> takeZ (d - 4) r = None ->
  forall x, In x (fst (frames_fuel (S f) L (t :: be32 d ++ r))) -> x = FTail.
Proof.
  intros Hd Ho Ht. destruct (be32_shape d) as (a & b & c & e & Hs & Hv). specialize (Hv ltac:(lia)).
  rewrite Hs. cbn [app frames_fuel]. rewrite Hv.
  destruct (Z.ltb_spec (d - 4) 0); [lia|].
  destruct (Z.gtb_spec (d - 4) (eff_limit L)); [lia|].
  rewrite Ht. destruct r; cbn; intuition.
Qed.

(* ---------- Bind ---------- *)
Definition enc_pvalue (v : option bytes) : bytes :=
  match v with None => be32 4294967295 | Some b => be32 (lenZ b) ++ b end.

Definition enc_bind (r : bind_raw) : bytes :=
  cstr (br_portal r) ++ cstr (br_stmt r) ++
  be16 (lenZ (br_pf r)) ++ flat_map be16 (br_pf r) ++
  be16 (lenZ (br_vals r)) ++ flat_map enc_pvalue (br_vals r) ++
  be16 (lenZ (br_rf r)) ++ flat_map be16 (br_rf r).

Definition wf_pvalue (v : option bytes) : bool :=
  match v with None => true | Some b => lenZ b <? 4294967295 end.

Definition wf_bind (r : bind_raw) : bool :=
  nul_free (br_portal r) && nul_free (br_stmt r) &&
  (lenZ (br_pf r) <? 65536) && forallb u16_ok (br_pf r) &&
  (lenZ (br_vals r) <? 65536) && forallb wf_pvalue (br_vals r) &&
  (lenZ (br_rf r) <? 65536) && forallb u16_ok (br_rf r).

Lemma p_u16s_enc xs : forall r, forallb u16_ok xs = true ->
  p_u16s (length xs) (flat_map be16 xs ++ r) = Some (xs, r).
Proof.
  induction xs as [|x xs IH]; intros r H; cbn [length p_u16s flat_map app forallb] in *; [reflexivity|].
  apply andb_prop in H as [H1 H2]. rewrite <- app_assoc, (p_u16_ok _ _ H1), IH by exact H2. reflexivity.
Qed.

Lemma p_param_enc v r : wf_pvalue v = true -> p_param (enc_pvalue v ++ r) = Some (v, r).
Proof.
  intros H. unfold p_param, enc_pvalue. destruct v as [b|].
  - cbn [wf_pvalue] in H. apply Z.ltb_lt in H. pose proof (lenZ_nonneg b).
    rewrite <- app_assoc, p_u32_be32 by lia.
    destruct (Z.eqb_spec (lenZ b) 4294967295); [lia|]. rewrite takeZ_app. reflexivity.
  - rewrite p_u32_be32 by lia. reflexivity.
Qed.

Lemma p_pvalues_enc vs : forall r, forallb wf_pvalue vs = true ->
  p_pvalues (length vs) (flat_map enc_pvalue vs ++ r) = Some (vs, r).
Proof.
  induction vs as [|v vs IH]; intros r H; cbn [length p_pvalues flat_map app forallb] in *; [reflexivity|].
  apply andb_prop in H as [H1 H2]. rewrite <- app_assoc, (p_param_enc _ _ H1), IH by exact H2. reflexivity.
Qed.

(* every Bind message is read back exactly: names, the format codes, every
   parameter value byte for byte with NULL distinct from empty, the result
   format codes; anything behind the message body is ignored *)
Lemma decode_bind_raw_enc r junk :
  wf_bind r = true -> decode_bind_raw (enc_bind r ++ junk) = Some r.
Proof.
  unfold wf_bind. intros H.
  repeat (apply andb_prop in H as [H ?]).
  repeat match goal with H : (_ <? _) = true |- _ => apply Z.ltb_lt in H end.
  unfold decode_bind_raw, enc_bind, cstr.
  rewrite <- !app_assoc. cbn [app].
  rewrite take_cstr_app by assumption. rewrite take_cstr_app by assumption.
  pose proof (lenZ_nonneg (br_pf r)). pose proof (lenZ_nonneg (br_vals r)). pose proof (lenZ_nonneg (br_rf r)).
  rewrite p_u16_be16 by lia. rewrite to_nat_lenZ, p_u16s_enc by assumption.
  rewrite p_u16_be16 by lia. rewrite to_nat_lenZ, p_pvalues_enc by assumption.
  rewrite p_u16_be16 by lia. rewrite to_nat_lenZ, p_u16s_enc by assumption.
  destruct r; reflexivity.
Qed.

(* the protocol's tagging rule *)
Lemma param_fmt_none i : param_fmt [] i = 0.
Proof. unfold param_fmt. destruct i; reflexivity. Qed.
Lemma param_fmt_one f i : param_fmt [f] i = f.
Proof. unfold param_fmt. destruct i as [|[|i]]; reflexivity. Qed.
Lemma param_fmt_positional pf i f : nth_error pf i = Some f -> param_fmt pf i = f.
Proof. unfold param_fmt. intros ->. reflexivity. Qed.

Lemma tag_params_values pf : forall vs i, map snd (tag_params pf i vs) = vs.
Proof. induction vs as [|v vs IH]; intros i; cbn [tag_params map snd]; [reflexivity|]. rewrite IH. reflexivity. Qed.
Lemma tag_params_length pf : forall vs i, length (tag_params pf i vs) = length vs.
Proof. induction vs as [|v vs IH]; intros i; cbn [tag_params length]; [reflexivity|]. rewrite IH. reflexivity. Qed.
Lemma tag_params_nth pf : forall vs i k v,
  nth_error vs k = Some v -> nth_error (tag_params pf i vs) k = Some (param_fmt pf (i + k), v).
Proof.
  induction vs as [|x vs IH]; intros i k v H; destruct k; cbn [nth_error tag_params] in *; try discriminate.
  - injection H as ->. rewrite Nat.add_0_r. reflexivity.
  - rewrite (IH (S i) k v H). f_equal. f_equal. f_equal. lia.
Qed.

(* result formats: the same rule decides the announced and the used code *)
Lemma fmt_for_none i : fmt_for [] i = 0.
Proof. reflexivity. Qed.
Lemma fmt_for_one f i : fmt_for [f] i = f.
Proof. unfold fmt_for. destruct i as [|[|i]]; reflexivity. Qed.
Lemma fmt_for_positional rf i f : nth_error rf i = Some f -> fmt_for rf i = f.
Proof. unfold fmt_for. intros H. destruct rf; [destruct i; discriminate|]. rewrite H. reflexivity. Qed.

(* ---------- startup parameters ---------- *)
Definition enc_pair (kv : bytes * bytes) : bytes := cstr (fst kv) ++ cstr (snd kv).
Definition wf_pair (kv : bytes * bytes) : bool :=
  nul_free (fst kv) && nul_free (snd kv) && match fst kv with [] => false | _ => true end.

Lemma read_params_enc ps : forall fuel junk,
  forallb wf_pair ps = true -> (length ps < fuel)%nat ->
  read_params fuel (flat_map enc_pair ps ++ x00 :: junk) = Some ps.
Proof.
  induction ps as [|[k v] ps IH]; intros fuel junk H Hf.
  - destruct fuel; [lia|]. reflexivity.
  - destruct fuel; [cbn in Hf; lia|].
    cbn [forallb] in H. apply andb_prop in H as [H1 H2].
    unfold wf_pair in H1. cbn [fst snd] in H1. apply andb_prop in H1 as [H1 Hne]. apply andb_prop in H1 as [Hk Hv].
    cbn [flat_map read_params]. unfold enc_pair. cbn [fst snd]. unfold cstr. rewrite <- !app_assoc. cbn [app].
    rewrite take_cstr_app by exact Hk.
    destruct k as [|k0 kr]; [discriminate|].
    rewrite take_cstr_app by exact Hv.
    rewrite IH; [reflexivity|exact H2|cbn in Hf; lia].
Qed.

Lemma CommandFactsAux_refl a : bytes_eqb a a = true.
Proof. induction a as [|x a IH]; cbn; [reflexivity|]. rewrite IH, andb_true_r. destruct x; reflexivity. Qed.

(* Go map semantics: the last assignment wins; an absent key reads as "" *)
Lemma param_get_last k v ps : param_get k (ps ++ [(k, v)]) = v.
Proof.
  induction ps as [|[k' v'] ps IH]; cbn [app param_get].
  - cbn [existsb]. rewrite CommandFactsAux_refl. reflexivity.
  - assert (E : existsb (fun kv => bytes_eqb k (fst kv)) (ps ++ [(k, v)]) = true).
    { rewrite existsb_app. cbn. rewrite CommandFactsAux_refl. rewrite orb_true_r. reflexivity. }
    rewrite E. exact IH.
Qed.
