(* RobustFacts.v — no crash, handling ends, nothing is buffered for an exceeding message. *)
Require Import Wire.Bytes Spec.BackendSpec Wire.Errors Wire.Framing Wire.Session Wire.SessionFacts Wire.CommandFacts
  Wire.ReaderModel Wire.ReaderExec.
Local Open Scope list_scope.
Local Open Scope Z_scope.

(* the encoder never panics for the text format (pgx: only format codes outside {0,1} index out of range) *)
Definition text_safe (c : cfg) : Prop := forall oid v, cfg_encode c oid 0 v <> EncPanic.

Lemma enc_fields_text_safe c cols : forall i vs, text_safe c ->
  Session.enc_fields (cfg_encode c) cols [] i vs <> RowPanic.
Proof.
  induction cols as [|col cr IH]; intros i vs T; destruct vs as [|v vr]; cbn [Session.enc_fields]; try discriminate.
  change (fmt_for [] i) with 0. pose proof (T (c_oid col) v) as Tv. specialize (IH (S i) vr T).
  destruct (cfg_encode c (c_oid col) 0 v); try discriminate; try contradiction;
    destruct (Session.enc_fields (cfg_encode c) cr [] (S i) vr); try discriminate; contradiction.
Qed.

Lemma run_op_text_safe c cols o w fs tl evs w' fs' st :
  text_safe c -> run_op c cols [] o w fs tl = (evs, w', fs', st) -> st <> StPanic.
Proof.
  intros T H. destruct o as [vs| | |tag|f|]; cbn [run_op] in H.
  - destruct (w_closed w); [injection H as <- <- <- <-; discriminate|].
    unfold write_row in H. destruct (negb (lenZ vs =? lenZ cols)); [injection H as <- <- <- <-; discriminate|].
    pose proof (enc_fields_text_safe c cols 0%nat vs T) as N.
    destruct (Session.enc_fields (cfg_encode c) cols [] 0 vs); try contradiction; injection H as <- <- <- <-; discriminate.
  - injection H as <- <- <- <-. discriminate.
  - destruct (w_closed w); [|destruct (negb (w_written w =? 0))]; injection H as <- <- <- <-; discriminate.
  - destruct (w_closed w); injection H as <- <- <- <-; discriminate.
  - destruct (w_closed w); [|destruct cols]; injection H as <- <- <- <-; discriminate.
  - destruct (negb (w_copy w)); [injection H as <- <- <- <-; discriminate|].
    destruct (copy_read (cfg_limit c) fs tl) as [[e r] rest]. destruct r; injection H as <- <- <- <-; discriminate.
Qed.

Lemma run_ops_text_safe c cols stop : forall ops w fs tl evs w' fs' res,
  text_safe c -> run_ops c cols [] stop ops w fs tl = (evs, w', fs', res) -> res <> Some PPanic.
Proof.
  induction ops as [|o r IH]; intros w fs tl evs w' fs' res T H; cbn [run_ops] in H.
  - injection H as <- <- <- <-. discriminate.
  - destruct (run_op c cols [] o w fs tl) as [[[e1 w1] f1] st] eqn:E.
    pose proof (run_op_text_safe _ _ _ _ _ _ _ _ _ _ T E) as N.
    destruct st; try contradiction.
    + destruct (run_ops c cols [] stop r w1 f1 tl) as [[[e2 w2] f2] r2] eqn:E2. injection H as <- <- <- <-. eapply IH; eauto.
    + destruct stop.
      * injection H as <- <- <- <-. destruct (w_last w1); discriminate.
      * destruct (run_ops c cols [] false r w1 f1 tl) as [[[e2 w2] f2] r2] eqn:E2. injection H as <- <- <- <-. eapply IH; eauto.
Qed.

(* a simple query never crashes the process *)
Lemma run_stmts_no_crash c : forall ss fs tl evs fs' crashed,
  text_safe c -> run_stmts c ss fs tl = (evs, fs', crashed) -> crashed = false.
Proof.
  induction ss as [|s r IH]; intros fs tl evs fs' crashed T H; cbn [run_stmts] in H.
  - injection H as <- <- <-. reflexivity.
  - unfold run_stmt in H.
    destruct (run_ops c (s_cols s) [] (s_stop s) (s_prog s) w_init fs tl) as [[[e w] f] res] eqn:E.
    pose proof (run_ops_text_safe _ _ _ _ _ _ _ _ _ _ _ T E) as N.
    destruct res as [[| |]|]; try contradiction.
    + destruct (run_stmts c r f tl) as [[e2 f2] cr] eqn:E2. injection H as <- <- <-. eapply IH; eauto.
    + injection H as <- <- <-. reflexivity.
    + destruct (s_ret s) as [|e0|].
      * destruct (run_stmts c r f tl) as [[e2 f2] cr] eqn:E2. injection H as <- <- <-. eapply IH; eauto.
      * injection H as <- <- <-. reflexivity.
      * destruct (w_last w).
        -- injection H as <- <- <-. reflexivity.
        -- destruct (run_stmts c r f tl) as [[e2 f2] cr] eqn:E2. injection H as <- <- <-. eapply IH; eauto.
Qed.

(* handling of every connection ends, whatever the client sends and however the
   configuration's oracles answer: the log of [serve] ends with [Closed] *)
Lemma session_ends c after s : exists pre, session c after s = pre ++ [Closed].
Proof.
  unfold session. destruct (read_params (S (length after)) after) as [cp|]; [|exists []; reflexivity].
  destruct (auth_phase c cp s) as [[aevs s'] ok]. destruct ok; cbn [negb].
  - destruct (run_mws (cfg_mws c) 0) as [mevs mok]. destruct mok; cbn [negb].
    + destruct (frames (cfg_limit c) s') as [fs tl].
      destruct (loop_ends c (S (length fs)) st_init fs tl) as [pre Hp]; [lia|].
      rewrite Hp. eexists. rewrite !app_assoc. reflexivity.
    + eexists. rewrite !app_assoc. reflexivity.
  - exists aevs. reflexivity.
Qed.

Theorem serve_ends c raw tls : exists pre, serve c raw tls = pre ++ [Closed].
Proof.
  unfold serve. destruct (start c raw) as [[[v after] rest]|]; [|exists []; reflexivity].
  destruct (v =? version_cancel); [exists []; reflexivity|].
  destruct (v =? version_ssl).
  - destruct (cfg_tls c).
    + destruct tls as [plain|]; [|exists [RawOut x53]; reflexivity].
      destruct (start c plain) as [[[v2 a2] r2]|]; [|exists [RawOut x53]; reflexivity].
      destruct (v2 =? version_cancel); [exists [RawOut x53]; reflexivity|].
      destruct (session_ends c a2 r2) as [pre Hp]. rewrite Hp. exists (RawOut x53 :: pre). reflexivity.
    + destruct (start c rest) as [[[v2 a2] r2]|]; [|exists [RawOut x4e]; reflexivity].
      destruct (v2 =? version_cancel); [exists [RawOut x4e]; reflexivity|].
      destruct (session_ends c a2 r2) as [pre Hp]. rewrite Hp. exists (RawOut x4e :: pre). reflexivity.
  - apply session_ends.
Qed.

(* a message whose declared body exceeds the limit (or is negative) allocates
   nothing: Msg and the heap are untouched, only the 4 length bytes are consumed *)
Lemma size_error_allocates_nothing s t s' t' size :
  x_untyped s t = (s', XSizeErr t' size) ->
  x_heap s' = x_heap s /\ x_msg s' = x_msg s /\
  ((size > eff_limit (x_limit s)) \/ size < 0).
Proof.
  unfold x_untyped. destruct (x_stream s) as [|a [|b [|c [|d r]]]]; try discriminate.
  destruct ((rd32 a b c d - 4 >? eff_limit (x_limit s)) || (rd32 a b c d - 4 <? 0)) eqn:E.
  - intros H. injection H as <- _ <-. cbn. repeat split; auto. lia.
  - destruct (takeZ (rd32 a b c d - 4) r) as [[body rest]|]; discriminate.
Qed.

(* a message within the limit allocates at most max(size, 4096) <= max(limit, 4096) bytes *)
Lemma reset_alloc_bound h size :
  let h' := rstep h (RReset size) in
  h_next h' = h_next h \/ (h_next h' = S (h_next h) /\ h_cap h' = Nat.max size granule).
Proof.
  cbn [rstep]. destruct (h_nil h && Nat.eqb size 0); [left; reflexivity|].
  destruct (Nat.leb size (if h_nil h then 0 else h_cap h - h_len h) && negb (h_nil h)); [left; reflexivity|right; split; reflexivity].
Qed.
