(* Codec.v — PostgreSQL text/binary encodings for the value types the model
   covers, as pgx v5.4.3's pgtype.Map.Encode / Codec.DecodeValue produce and
   accept them.  [encode_value] is the concrete instance of [cfg_encode]. *)
Require Import Wire.Bytes Spec.BackendSpec Wire.Errors Wire.Framing Wire.Session.
Local Open Scope Z_scope.

Definition oid_bool := 16.  Definition oid_bytea := 17.  Definition oid_int8 := 20.
Definition oid_int2 := 21.  Definition oid_int4 := 23.   Definition oid_text := 25.
Definition oid_varchar := 1043.

Definition be64 (z : Z) : bytes :=
  let m := z mod 18446744073709551616 in be32 (m / 4294967296) ++ be32 m.

Definition in_range (bits : Z) (z : Z) : bool := (- 2 ^ (bits - 1) <=? z) && (z <? 2 ^ (bits - 1)).

(* an integer Go value written to an integer column *)
Definition enc_int (oid fmt z : Z) : encres :=
  if oid =? oid_int2 then
    if in_range 16 z then EncBytes (if fmt =? 0 then itoa z else be16 z) else EncErr
  else if oid =? oid_int4 then
    if in_range 32 z then EncBytes (if fmt =? 0 then itoa z else be32 z) else EncErr
  else if oid =? oid_int8 then
    if in_range 64 z then EncBytes (if fmt =? 0 then itoa z else be64 z) else EncErr
  else EncErr.

Definition encode_value (oid fmt : Z) (v : value) : encres :=
  match v with
  | VNil => EncNull
  | _ =>
      if negb ((fmt =? 0) || (fmt =? 1)) then EncPanic
      else match v with
           | VNil | VNilPtr | VInvalid => EncNull
           | VUnenc => EncErr
           | VText s =>
               if fmt =? 0 then EncBytes s
               else if (oid =? oid_text) || (oid =? oid_varchar) then EncBytes s else EncErr
           | VInt2 z | VInt4 z | VInt8 z => enc_int oid fmt z
           | VBool b =>
               if oid =? oid_bool then
                 EncBytes (if fmt =? 0 then (if b then [x74] else [x66]) else (if b then [x01] else [x00]))
               else EncErr
           | VBytea b =>
               if oid =? oid_bytea then
                 EncBytes (if fmt =? 0 then x5c :: x78 :: hex_of_bytes b else b)
               else EncErr
           end
  end.
