(* Codec.v — PostgreSQL text/binary encodings for the value types the model
   covers, as pgx v5.4.3's pgtype.Map.Encode / Codec.DecodeValue produce and
   accept them.  [encode_value] is the concrete instance of [cfg_encode]. *)
Require Import Wire.Bytes Spec.BackendSpec Wire.Errors Spec.ErrorFields Wire.Framing Wire.Session Wire.Transport Wire.Copy.
Local Open Scope Z_scope.

Definition oid_bool := 16.  Definition oid_bytea := 17.  Definition oid_int8 := 20.
Definition oid_int2 := 21.  Definition oid_int4 := 23.   Definition oid_text := 25.
Definition oid_varchar := 1043.
Definition oid_uuid := 2950.  Definition oid_float4 := 700.  Definition oid_float8 := 701.

Definition be64 (z : Z) : bytes :=
  let m := z mod 18446744073709551616 in be32 (m / 4294967296) ++ be32 m.

(* uuid text form 8-4-4-4-12 *)
Definition uuid_text (b : bytes) : bytes :=
  let h := hex_of_bytes b in
  firstn 8 h ++ [x2d] ++ firstn 4 (skipn 8 h) ++ [x2d] ++ firstn 4 (skipn 12 h) ++ [x2d] ++
  firstn 4 (skipn 16 h) ++ [x2d] ++ skipn 20 h.

Definition in_range (bits : Z) (z : Z) : bool := (- 2 ^ (bits - 1) <=? z) && (z <? 2 ^ (bits - 1)).

(* an integer Go value written to an integer column *)
Definition enc_int (oid fmt z : Z) : encres :=
  if oid =? oid_int2 then
    if in_range 16 z then EncBytes (if fmt =? 0 then itoa z else be16 z) else EncErr
  else if oid =? oid_int4 then
    if in_range 32 z then EncBytes (if fmt =? 0 then itoa z else be32 z) else EncErr
  else if oid =? oid_int8 then
    if in_range 64 z then EncBytes (if fmt =? 0 then itoa z else be64 z) else EncErr
  else EncErr.

Definition encode_value (oid fmt : Z) (v : value) : encres :=
  match v with
  | VNil => EncNull
  | _ =>
      if negb ((fmt =? 0) || (fmt =? 1)) then EncPanic
      else match v with
           | VNil | VNilPtr | VInvalid => EncNull
           | VUnenc => EncErr
           | VText s =>
               if fmt =? 0 then EncBytes s
               else if (oid =? oid_text) || (oid =? oid_varchar) then EncBytes s else EncErr
           | VInt2 z | VInt4 z | VInt8 z => enc_int oid fmt z
           | VBool b =>
               if oid =? oid_bool then
                 EncBytes (if fmt =? 0 then (if b then [x74] else [x66]) else (if b then [x01] else [x00]))
               else EncErr
           | VBytea b =>
               if oid =? oid_bytea then
                 EncBytes (if fmt =? 0 then x5c :: x78 :: hex_of_bytes b else b)
               else EncErr
           | VUuid b =>
               if (oid =? oid_uuid) && (lenZ b =? 16) then
                 EncBytes (if fmt =? 0 then uuid_text b else b)
               else EncErr
           | VFloat4 bits => if (oid =? oid_float4) && (fmt =? 1) then EncBytes (be32 bits) else EncErr
           | VFloat8 bits => if (oid =? oid_float8) && (fmt =? 1) then EncBytes (be64 bits) else EncErr
           end
  end.

(* ---------- decoding (the independent decoder of C09 and the scanners of C14) ---------- *)
Definition strip_dashes (t : bytes) : bytes := filter (fun b => negb (Byte.eqb b x2d)) t.
Definition all_hex (t : bytes) : bool :=
  forallb (fun b => let n := bN b in ((48 <=? n) && (n <=? 57) || (97 <=? n) && (n <=? 102))%N) t.

Definition decode_text (oid : Z) (v : bytes) : option dval :=
  if oid =? oid_bool then
    match v with [b] => if Byte.eqb b x74 then Some (DBool true) else if Byte.eqb b x66 then Some (DBool false) else None | _ => None end
  else if (oid =? oid_int2) || (oid =? oid_int4) || (oid =? oid_int8) then
    match Spec.ErrorFields.atoi_text v with Some z => Some (DInt z) | None => None end
  else if (oid =? oid_text) || (oid =? oid_varchar) then Some (DBytes v)
  else if oid =? oid_bytea then
    match v with
    | a :: b :: r => if Byte.eqb a x5c && Byte.eqb b x78 && all_hex r && Nat.even (length r)
                     then Some (DBytes (bytes_of_hex r)) else None
    | _ => None
    end
  else if oid =? oid_uuid then
    let h := strip_dashes v in
    if (lenZ v =? 36) && (lenZ h =? 32) && all_hex h then Some (DBytes (bytes_of_hex h)) else None
  else None.

Definition decode_value (oid fmt : Z) (v : bytes) : option dval :=
  if fmt =? 0 then decode_text oid v
  else if (oid =? oid_float4) then (if lenZ v =? 4 then Some (DBytes v) else None)
  else if (oid =? oid_float8) then (if lenZ v =? 8 then Some (DBytes v) else None)
  else decode_binary oid v.

(* what a written value must decode to *)
Definition dval_of_value (v : value) : option dval :=
  match v with
  | VNil | VNilPtr | VInvalid => Some DNull
  | VText s => Some (DBytes s)
  | VInt2 z | VInt4 z | VInt8 z => Some (DInt z)
  | VBool b => Some (DBool b)
  | VBytea b => Some (DBytes b)
  | VUuid b => Some (DBytes b)
  | VFloat4 bits => Some (DBytes (be32 bits))
  | VFloat8 bits => Some (DBytes (be64 bits))
  | VUnenc => None
  end.
