(* ReaderModel.v — pkg/buffer.Reader at the level of Go slices.

   reader.Msg is a slice: (allocation, offset, length, capacity).  [reset size]
   advances Msg to its own end (Msg[len(Msg):]) and re-slices it to [size] if the
   spare capacity suffices, else allocates max(size, 4096) bytes; the message is
   then read INTO Msg (io.ReadFull) — a write of [offset, offset+size).
   GetString/GetBytes/... return views of a prefix of Msg and advance Msg.

   Contents do not matter for where reads write and what views cover, so the
   heap model tracks ranges only; the list-level accessors (what the views
   contain) are below. *)
Require Import Wire.Bytes Spec.BackendSpec.
Local Open Scope list_scope.

Record range := { r_alloc : nat; r_lo : nat; r_hi : nat }.   (* [lo, hi) of an allocation *)

Record rheap := {
  h_next : nat;             (* next allocation id *)
  h_alloc : nat;            (* allocation of Msg *)
  h_off : nat;              (* start of Msg inside it *)
  h_len : nat;
  h_cap : nat;              (* capacity of Msg (from h_off) *)
  h_nil : bool;             (* Msg == nil *)
  h_views : list range;     (* ghost: every view handed out so far *)
  h_writes : list (range * list range) }.  (* ghost: every write, with the views that existed before it *)

Definition h_init : rheap :=
  {| h_next := 0; h_alloc := 0; h_off := 0; h_len := 0; h_cap := 0; h_nil := true; h_views := []; h_writes := [] |}.

Inductive rop :=
| RReset (size : nat)        (* reset(size) followed by io.ReadFull(reader.Buffer, reader.Msg) *)
| RTake (n : nat) (skip : nat).  (* a getter: view of the first n bytes, Msg advanced by n + skip
                                    (GetString: skip = 1 for the NUL; others: 0); requires n + skip <= len *)

Definition granule : nat := 4096.

Definition rstep (h : rheap) (o : rop) : rheap :=
  match o with
  | RReset size =>
      (* Msg = Msg[len(Msg):] *)
      let off := if h_nil h then 0 else h_off h + h_len h in
      let cap := if h_nil h then 0 else h_cap h - h_len h in
      if h_nil h && Nat.eqb size 0 then h      (* nil[:0] stays nil: nothing allocated, nothing written *)
      else if Nat.leb size cap && negb (h_nil h) then
        {| h_next := h_next h; h_alloc := h_alloc h; h_off := off; h_len := size; h_cap := cap; h_nil := false;
           h_views := h_views h;
           h_writes := ({| r_alloc := h_alloc h; r_lo := off; r_hi := off + size |}, h_views h) :: h_writes h |}
      else
        {| h_next := S (h_next h); h_alloc := h_next h; h_off := 0; h_len := size; h_cap := Nat.max size granule;
           h_nil := false; h_views := h_views h;
           h_writes := ({| r_alloc := h_next h; r_lo := 0; r_hi := size |}, h_views h) :: h_writes h |}
  | RTake n skip =>
      if Nat.leb (n + skip) (h_len h) then
        {| h_next := h_next h; h_alloc := h_alloc h; h_off := h_off h + n + skip; h_len := h_len h - (n + skip);
           h_cap := h_cap h - (n + skip); h_nil := h_nil h;
           h_views := {| r_alloc := h_alloc h; r_lo := h_off h; r_hi := h_off h + n |} :: h_views h;
           h_writes := h_writes h |}
      else h   (* the getter reports an error and leaves Msg alone *)
  end.

Definition rrun (ops : list rop) : rheap := fold_left rstep ops h_init.

Definition disjoint (a b : range) : bool :=
  negb (Nat.eqb (r_alloc a) (r_alloc b)) || Nat.leb (r_hi a) (r_lo b) || Nat.leb (r_hi b) (r_lo a) ||
  Nat.eqb (r_lo a) (r_hi a) || Nat.eqb (r_lo b) (r_hi b).

(* every write is disjoint from every view that existed when it happened *)
Definition writes_safe (h : rheap) : bool :=
  forallb (fun wv => forallb (disjoint (fst wv)) (snd wv)) (h_writes h).

(* ---------- list level: what the accessors return ---------- *)
Inductive aop := AString | ABytes (n : Z) | AU16 | AU32 | APrepare.
Inductive ares := ROkBytes (b : bytes) | ROkNum (z : Z) | RFail.

Definition astep (msg : bytes) (o : aop) : ares * bytes :=
  match o with
  | AString => match take_cstr msg with Some (s, r) => (ROkBytes s, r) | None => (RFail, msg) end
  | ABytes n =>
      if (n <? 0)%Z then (RFail, msg)   (* not reachable from the library: sizes are unsigned *)
      else if (lenZ msg <? n)%Z then (RFail, msg)
      else match takeZ n msg with Some (v, r) => (ROkBytes v, r) | None => (RFail, msg) end
  | AU16 => match p_u16 msg with Some (z, r) => (ROkNum z, r) | None => (RFail, msg) end
  | AU32 => match p_u32 msg with Some (z, r) => (ROkNum z, r) | None => (RFail, msg) end
  | APrepare => match msg with b :: r => (ROkNum (bZ b), r) | [] => (RFail, msg) end
  end.

Fixpoint arun (msg : bytes) (ops : list aop) : list ares * bytes :=
  match ops with
  | [] => ([], msg)
  | o :: r => let (x, m') := astep msg o in let (xs, m'') := arun m' r in (x :: xs, m'')
  end.
