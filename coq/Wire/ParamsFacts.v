(* ParamsFacts.v — lemmas about the ParseParameters model. *)
Require Import Wire.Bytes Wire.Params Spec.ParamsSpec.
Local Open Scope Z_scope.

Definition mds (ms : list marker) : list bytes :=
  flat_map (fun m => match m with MD ds => [ds] | MQ => [] end) ms.
Definition nq (ms : list marker) : Z :=
  lenZ (filter (fun m => match m with MQ => true | _ => false end) ms).

Definition piece_digits (piece : bytes) : list bytes :=
  match leading_digits piece with [] => [] | ds => [ds] end.
Definition digs (pieces : list bytes) : list bytes := flat_map piece_digits pieces.

Lemma dollar_indices_digs q :
  dollar_indices q = map dec_val (digs (tl (split_dollar [] q))).
Proof.
  unfold dollar_indices, digs. induction (tl (split_dollar [] q)) as [|p ps IH]; simpl; auto.
  rewrite map_app, <- IH. f_equal. unfold piece_digits. destruct (leading_digits p); reflexivity.
Qed.

Lemma mds_app a b : mds (a ++ b) = mds a ++ mds b.
Proof. unfold mds. apply flat_map_app. Qed.

Lemma is_digit_not_dollar b : is_digit b = true -> Byte.eqb b x24 = false.
Proof. destruct b; simpl; intros H; try reflexivity; discriminate. Qed.
Lemma is_digit_not_qmark b : is_digit b = true -> Byte.eqb b x3f = false.
Proof. destruct b; simpl; intros H; try reflexivity; discriminate. Qed.

Lemma leading_digits_all ds : forallb is_digit ds = true -> leading_digits ds = ds.
Proof.
  induction ds as [|d ds IH]; simpl; auto. intros H. apply andb_prop in H as [H1 H2].
  rewrite H1. f_equal. auto.
Qed.

Lemma leading_digits_app_stop ds b x :
  forallb is_digit ds = true -> is_digit b = false ->
  leading_digits (ds ++ b :: x) = ds.
Proof.
  induction ds as [|d ds IH]; simpl; intros H Hb.
  - rewrite Hb. reflexivity.
  - apply andb_prop in H as [H1 H2]. rewrite H1. f_equal. auto.
Qed.

Lemma split_dollar_cur cur q :
  split_dollar cur q =
  match split_dollar [] q with
  | p :: rest => (cur ++ p) :: rest
  | [] => [cur]
  end.
Proof.
  revert cur. induction q as [|b r IH]; intros cur; simpl.
  - rewrite app_nil_r. reflexivity.
  - destruct (Byte.eqb b x24).
    + rewrite app_nil_r. reflexivity.
    + rewrite (IH (cur ++ [b])). rewrite (IH [b]).
      destruct (split_dollar [] r) as [|p rest]; simpl.
      * reflexivity.
      * rewrite <- app_assoc. reflexivity.
Qed.

Lemma split_dollar_nonempty cur q : split_dollar cur q <> [].
Proof.
  revert cur. induction q as [|b r IH]; intros cur; simpl.
  - discriminate.
  - destruct (Byte.eqb b x24); [discriminate|apply IH].
Qed.

Lemma tl_split_dollar_cur cur q : tl (split_dollar cur q) = tl (split_dollar [] q).
Proof.
  rewrite split_dollar_cur. destruct (split_dollar [] q) eqn:E; simpl; auto.
Qed.

Lemma flush_mds ds : forallb is_digit ds = true -> mds (flush (Some ds)) = piece_digits ds.
Proof.
  intros H. unfold piece_digits. rewrite (leading_digits_all _ H).
  destruct ds; reflexivity.
Qed.

Lemma forallb_snoc {A} (f : A -> bool) l x :
  forallb f (l ++ [x]) = forallb f l && f x.
Proof. rewrite forallb_app. simpl. rewrite andb_true_r. reflexivity. Qed.

Lemma scan_mds q :
  (forall ds, forallb is_digit ds = true -> mds (scan (Some ds) q) = digs (split_dollar ds q))
  /\ (mds (scan None q) = digs (tl (split_dollar [] q))).
Proof.
  induction q as [|b r [IHs IHn]].
  - split.
    + intros ds H. cbn [scan]. rewrite flush_mds by exact H. simpl. rewrite app_nil_r. reflexivity.
    + reflexivity.
  - assert (Hnone : mds (if Byte.eqb b x24 then scan (Some []) r
                         else if Byte.eqb b x3f then MQ :: scan None r else scan None r)
                    = digs (tl (split_dollar [] (b :: r)))).
    { cbn [split_dollar]. destruct (Byte.eqb b x24) eqn:Ed.
      - simpl tl. apply IHs. reflexivity.
      - rewrite tl_split_dollar_cur.
        destruct (Byte.eqb b x3f); [change (MQ :: scan None r) with ([MQ] ++ scan None r); rewrite mds_app|]; simpl; exact IHn. }
    split.
    + intros ds H. cbn [scan]. destruct (is_digit b) eqn:Eb.
      * cbn [split_dollar]. rewrite (is_digit_not_dollar _ Eb).
        apply IHs. rewrite forallb_snoc, H, Eb. reflexivity.
      * rewrite mds_app, Hnone, flush_mds by exact H.
        cbn [split_dollar]. destruct (Byte.eqb b x24) eqn:Ed.
        -- reflexivity.
        -- rewrite (split_dollar_cur (ds ++ [b]) r).
           destruct (split_dollar [] r) as [|p rest] eqn:Es.
           { exfalso. eapply split_dollar_nonempty; eauto. }
           rewrite tl_split_dollar_cur, Es. cbn [tl]. unfold digs at 2. cbn [flat_map].
           fold (digs rest). f_equal.
           unfold piece_digits. rewrite <- app_assoc. cbn [app].
           rewrite leading_digits_app_stop by assumption.
           rewrite (leading_digits_all _ H). reflexivity.
    + cbn [scan]. exact Hnone.
Qed.

Lemma markers_mds q : map dec_val (mds (markers q)) = dollar_indices q.
Proof. unfold markers. rewrite dollar_indices_digs. f_equal. apply scan_mds. Qed.

Lemma nq_app a b : nq (a ++ b) = nq a + nq b.
Proof. unfold nq, lenZ. rewrite filter_app, app_length. lia. Qed.

Lemma nq_flush st : nq (flush st) = 0.
Proof. destruct st as [[|d ds]|]; reflexivity. Qed.

Lemma scan_nq q : forall st, nq (scan st q) = count_qmark q.
Proof.
  induction q as [|b r IH]; intros st.
  - simpl. apply nq_flush.
  - assert (Hnone : nq (if Byte.eqb b x24 then scan (Some []) r
                        else if Byte.eqb b x3f then MQ :: scan None r else scan None r)
                    = count_qmark (b :: r)).
    { unfold count_qmark. simpl filter. destruct (Byte.eqb b x24) eqn:Ed.
      - assert (Byte.eqb b x3f = false) as ->.
        { destruct b; try reflexivity; discriminate. }
        apply IH.
      - destruct (Byte.eqb b x3f).
        + change (MQ :: scan None r) with ([MQ] ++ scan None r). rewrite nq_app, IH.
          unfold nq, count_qmark, lenZ. cbn [filter length]. lia.
        + apply IH. }
    cbn [scan]. destruct st as [ds|].
    + destruct (is_digit b) eqn:Eb.
      * rewrite IH. unfold count_qmark. simpl. rewrite (is_digit_not_qmark _ Eb). reflexivity.
      * rewrite nq_app, nq_flush, Hnone. reflexivity.
    + exact Hnone.
Qed.

Lemma markers_nq q : nq (markers q) = count_qmark q.
Proof. apply scan_nq. Qed.

(* ---- folds ---- *)
Lemma nq_cons_q ms : nq (MQ :: ms) = 1 + nq ms.
Proof. unfold nq, lenZ. cbn [filter length]. lia. Qed.
Lemma nq_cons_d ds ms : nq (MD ds :: ms) = nq ms.
Proof. reflexivity. Qed.

Lemma nq_nonneg ms : 0 <= nq ms.
Proof. unfold nq, lenZ. lia. Qed.

Lemma fold_only_q ms n :
  mds ms = [] -> fold_left pp_step ms n = n + nq ms.
Proof.
  revert n. induction ms as [|m ms IH]; intros n H; simpl.
  - unfold nq, lenZ. simpl. lia.
  - destruct m as [|ds]; simpl in H.
    + rewrite IH by exact H. rewrite nq_cons_q. cbn [pp_step]. lia.
    + discriminate.
Qed.

Definition clampmax (n : Z) (vs : list Z) : Z :=
  fold_left (fun a v => Z.max a (Z.min max_args v)) vs n.

Lemma fold_only_d ms n :
  nq ms = 0 -> fold_left pp_step ms n = clampmax n (map dec_val (mds ms)).
Proof.
  revert n. induction ms as [|m ms IH]; intros n H; simpl; auto.
  destruct m as [|ds].
  - exfalso. rewrite nq_cons_q in H. pose proof (nq_nonneg ms). lia.
  - simpl. apply IH. exact H.
Qed.

Lemma fold_max_min_congr vs : forall a b,
  Z.min max_args a = Z.min max_args b ->
  Z.min max_args (fold_left Z.max vs a) = Z.min max_args (fold_left Z.max vs b).
Proof.
  induction vs as [|v vs IH]; intros a b H; simpl; auto.
  apply IH. unfold max_args in *. lia.
Qed.

Lemma clampmax_min vs : forall n,
  Z.min max_args (clampmax n vs) = Z.min max_args (fold_left Z.max vs n).
Proof.
  induction vs as [|v vs IH]; intros n; auto.
  unfold clampmax in *. cbn [fold_left]. rewrite IH.
  apply fold_max_min_congr. unfold max_args. lia.
Qed.

Lemma pp_raw_bound_gen ms n :
  0 <= n -> n <= fold_left pp_step ms n <= Z.max n max_args + nq ms.
Proof.
  revert n. induction ms as [|m ms IH]; intros n Hn; simpl.
  - pose proof (nq_nonneg []). unfold max_args. lia.
  - destruct m as [|ds]; simpl.
    + specialize (IH (n + 1) ltac:(lia)).
      rewrite nq_cons_q.
      unfold max_args in *. lia.
    + specialize (IH (Z.max n (Z.min max_args (dec_val ds))) ltac:(lia)).
      rewrite nq_cons_d.
      unfold max_args in *. lia.
Qed.

(* ---- the property lemmas ---- *)
Lemma pp_len_range q : 0 <= parse_parameters_len q <= max_args.
Proof.
  unfold parse_parameters_len, pp_raw.
  pose proof (pp_raw_bound_gen (markers q) 0 ltac:(lia)). unfold max_args in *. lia.
Qed.

Lemma pp_length q : lenZ (parse_parameters q) = parse_parameters_len q.
Proof.
  unfold parse_parameters, lenZ. rewrite repeat_length.
  pose proof (pp_len_range q). lia.
Qed.

Lemma pp_all_zero q : Forall (fun o => o = 0) (parse_parameters q).
Proof. unfold parse_parameters. apply Forall_forall. intros x H. eapply repeat_spec; eauto. Qed.

Lemma pp_qmark q :
  has_dollar_index q = false ->
  parse_parameters_len q = Z.min max_args (count_qmark q).
Proof.
  unfold has_dollar_index. intros H. unfold parse_parameters_len, pp_raw.
  rewrite fold_only_q.
  - rewrite markers_nq. reflexivity.
  - pose proof (markers_mds q) as M. destruct (dollar_indices q); [|discriminate].
    destruct (mds (markers q)); [reflexivity|discriminate].
Qed.

Lemma has_qmark_count q : has_qmark q = false -> count_qmark q = 0.
Proof.
  unfold has_qmark, count_qmark, lenZ. induction q as [|b r IH]; simpl; auto.
  destruct (Byte.eqb b x3f); simpl; [discriminate|auto].
Qed.

Lemma pp_dollar q :
  has_qmark q = false ->
  parse_parameters_len q = Z.min max_args (max_index q).
Proof.
  intros H. unfold parse_parameters_len, pp_raw, max_index.
  rewrite fold_only_d by (rewrite markers_nq; apply has_qmark_count; exact H).
  rewrite markers_mds. apply clampmax_min.
Qed.

Lemma pp_work q : pp_raw q <= count_qmark q + max_args.
Proof.
  unfold pp_raw. pose proof (pp_raw_bound_gen (markers q) 0 ltac:(lia)) as B.
  rewrite markers_nq in B. unfold max_args in *. lia.
Qed.

(* the final truncation parameters[:65535], as a checked slice, never fails *)
Definition pp_checked (q : bytes) : option (list Z) :=
  let raw := repeat 0 (Z.to_nat (pp_raw q)) in
  if (lenZ raw >? max_args) then
    match take_exact (Z.to_nat max_args) raw with
    | Some (a, _) => Some a
    | None => None
    end
  else Some raw.

Lemma take_exact_repeat {A} (x : A) n m : (n <= m)%nat ->
  take_exact n (repeat x m) = Some (repeat x n, repeat x (m - n)).
Proof.
  revert m. induction n as [|n IH]; intros m H; simpl.
  - rewrite Nat.sub_0_r. reflexivity.
  - destruct m as [|m]; [lia|]. simpl. rewrite IH by lia. reflexivity.
Qed.

Lemma pp_checked_total q : pp_checked q = Some (parse_parameters q).
Proof.
  unfold pp_checked, parse_parameters, parse_parameters_len, lenZ.
  rewrite repeat_length.
  pose proof (pp_raw_bound_gen (markers q) 0 ltac:(lia)) as B. fold (pp_raw q) in B.
  destruct (Z.gtb_spec (Z.of_nat (Z.to_nat (pp_raw q))) max_args) as [E|E].
  - rewrite take_exact_repeat by (unfold max_args in *; lia).
    f_equal. f_equal. unfold max_args in *. lia.
  - f_equal. f_equal. unfold max_args in *. lia.
Qed.

(* the linear-time splitter of the oracle computes the specification *)
Lemma split_dollar_fast_eq q : forall cur_rev, split_dollar_fast cur_rev q = split_dollar (rev cur_rev) q.
Proof.
  induction q as [|b r IH]; intros cur_rev; cbn [split_dollar_fast split_dollar];
    rewrite rev_append_rev, app_nil_r; [reflexivity|].
  destruct (Byte.eqb b x24).
  - rewrite (IH []). reflexivity.
  - rewrite (IH (b :: cur_rev)). reflexivity.
Qed.
Lemma dollar_indices_fast_eq q : dollar_indices_fast q = dollar_indices q.
Proof. unfold dollar_indices_fast, dollar_indices. rewrite (split_dollar_fast_eq q []). reflexivity. Qed.
Lemma max_index_fast_eq q : max_index_fast q = max_index q.
Proof. unfold max_index_fast, max_index. rewrite dollar_indices_fast_eq. reflexivity. Qed.
Lemma has_dollar_index_fast_eq q : has_dollar_index_fast q = has_dollar_index q.
Proof. unfold has_dollar_index_fast, has_dollar_index. rewrite dollar_indices_fast_eq. reflexivity. Qed.

Lemma count_qmark_le_len q : count_qmark q <= lenZ q.
Proof.
  unfold count_qmark, lenZ. induction q as [|b r IH]; cbn [filter length]; [lia|].
  destruct (Byte.eqb b x3f); cbn [length]; lia.
Qed.

(* the geometric growth of the appended result (at most twice the final size, 4 bytes
   per entry) stays within the budget the allocation oracle allows *)
Lemma pp_alloc_within_budget q : 2 * 4 * pp_raw q <= alloc_budget q.
Proof.
  pose proof (pp_work q) as W. pose proof (count_qmark_le_len q) as L.
  assert (0 <= lenZ q) by (unfold lenZ; lia).
  unfold alloc_budget, max_args in *. lia.
Qed.
