(* Transport.v — the client's byte stream as it arrives: a list of segments, one
   Read never returns more than (the rest of) one segment.  io.ReadFull loops
   over Reads.  Everything the library reads goes through ReadFull/ReadByte on a
   bufio.Reader, i.e. through [read_full]. *)
Require Import Wire.Bytes.
Local Open Scope list_scope.

(* read exactly n bytes: Some (bytes, remaining segments), None on short input *)
Fixpoint read_full (n : nat) (segs : list bytes) : option (bytes * list bytes) :=
  match n with
  | O => Some ([], segs)
  | S _ =>
      match segs with
      | [] => None
      | s :: tail =>
          if Nat.leb n (length s) then Some (firstn n s, skipn n s :: tail)
          else match read_full (n - length s) tail with
               | Some (a, segs') =>
                   (* an empty segment (a zero-length Read) changes nothing *)
                   Some (s ++ a, segs')
               | None => None
               end
      end
  end.

(* a deterministic consumer that only sees what its reads returned: after the
   results so far it asks for the next size, or stops *)
Definition consumer := list bytes -> option nat.

Fixpoint consume (fuel : nat) (k : consumer) (sofar : list bytes) (segs : list bytes)
  : list bytes * bool (* stopped by itself (true) or by short input / fuel (false) *) :=
  match fuel with
  | O => (sofar, false)
  | S f =>
      match k sofar with
      | None => (sofar, true)
      | Some n =>
          match read_full n segs with
          | Some (a, segs') => consume f k (sofar ++ [a]) segs'
          | None => (sofar, false)
          end
      end
  end.
