(* Framing.v — how buffer.Reader cuts the client byte stream into messages
   (ReadTypedMsg / ReadUntypedMsg / Slurp in pkg/buffer/reader.go).

   A typed message is: type byte, uint32 length (which includes itself), body.
   size := int(length) - 4.  size < 0  -> size error, nothing further is read;
   size > limit -> size error, the caller skips [size] bytes (Slurp);
   otherwise exactly [size] body bytes are read (io.ReadFull). *)
Require Import Wire.Bytes Spec.BackendSpec.
Local Open Scope Z_scope.

Definition default_limit : Z := 16777216.
Definition eff_limit (L : Z) : Z := if L <=? 0 then default_limit else L.

(* what a read at the end of the input returns: io.EOF or io.ErrUnexpectedEOF *)
Inductive rderr := REof | RUnexp.

Inductive frame :=
| FMsg (t : byte) (body : bytes)
| FOver (t : byte) (size : Z) (trunc : option rderr)
| FBad (t : byte) (size : Z)
| FTail.   (* the stream ends inside a message: reading it fails with io.ErrUnexpectedEOF and exhausts the input *)

Definition frame_type (f : frame) : byte :=
  match f with FMsg t _ | FOver t _ _ | FBad t _ => t | FTail => x00 end.

Fixpoint frames_fuel (fuel : nat) (L : Z) (s : bytes) : list frame * rderr :=
  match fuel with
  | O => ([], REof)
  | S fuel' =>
      match s with
      | [] => ([], REof)
      | [_] => ([], REof)
      | t :: a :: b :: c :: d :: r =>
          let size := rd32 a b c d - 4 in
          if size <? 0 then
            let (fs, tl) := frames_fuel fuel' L r in (FBad t size :: fs, tl)
          else if size >? eff_limit L then
            match takeZ size r with
            | Some (_, rest) =>
                let (fs, tl) := frames_fuel fuel' L rest in (FOver t size None :: fs, tl)
            | None =>
                ([FOver t size (Some (if lenZ r mod eff_limit L =? 0 then REof else RUnexp))], REof)
            end
          else
            match takeZ size r with
            | Some (body, rest) =>
                let (fs, tl) := frames_fuel fuel' L rest in (FMsg t body :: fs, tl)
            | None => (match r with [] => [] | _ => [FTail] end, REof)
            end
      | _ => ([FTail], REof)
      end
  end.

Definition frames (L : Z) (s : bytes) : list frame * rderr := frames_fuel (length s) L s.

(* one untyped (startup) message: Some (body, rest), or None when the
   connection ends (short input, negative or oversized length) *)
Definition untyped (L : Z) (s : bytes) : option (bytes * bytes) :=
  match s with
  | a :: b :: c :: d :: r =>
      let size := rd32 a b c d - 4 in
      if (size <? 0) || (size >? eff_limit L) then None else takeZ size r
  | _ => None
  end.

(* encoders used by examples and by the harness-independent client side *)
Definition client_msg (t : byte) (body : bytes) : bytes := t :: be32 (4 + lenZ body) ++ body.
