(* BytesFacts.v — arithmetic facts about bytes and decimal text. *)
Require Import Wire.Bytes Spec.ErrorFields.
From Coq Require Import ZifyN ZifyNat ZifyBool.
Ltac Zify.zify_post_hook ::= Z.div_mod_to_equations.
Local Open Scope Z_scope.

Lemma bN_byte_of_N n : (n < 256)%N -> bN (byte_of_N n) = n.
Proof.
  intros H. unfold bN, byte_of_N.
  rewrite N.mod_small by exact H.
  destruct (Byte.of_N n) as [b|] eqn:E.
  - apply Byte.to_of_N in E. exact E.
  - exfalso. pose proof (Byte.of_N_None_iff n) as I. apply I in E. lia.
Qed.

Lemma bZ_byte_of_N n : (n < 256)%N -> bZ (byte_of_N n) = Z.of_N n.
Proof. intros H. unfold bZ. fold (bN (byte_of_N n)). rewrite bN_byte_of_N by exact H. reflexivity. Qed.

Lemma bN_lt b : (bN b < 256)%N.
Proof. unfold bN. pose proof (Byte.to_N_bounded b). lia. Qed.

Definition dv (init : Z) (l : bytes) : Z := fold_left (fun acc b => acc * 10 + digit_val b) l init.

Lemma dec_val_dv l : dec_val l = dv 0 l.
Proof. reflexivity. Qed.

Lemma digit_char n : (n < 10)%N ->
  digit_val (byte_of_N (48 + n)) = Z.of_N n /\ is_digit (byte_of_N (48 + n)) = true.
Proof.
  intros H. unfold digit_val, is_digit.
  rewrite bZ_byte_of_N by lia. rewrite bN_byte_of_N by lia. split; lia.
Qed.

Lemma digits_dv fuel : forall n acc,
  (Z.of_N n < 10 ^ Z.of_nat fuel) ->
  dv 0 (dec_digits_pos fuel n acc) = dv (Z.of_N n) acc.
Proof.
  induction fuel as [|f IH]; intros n acc H.
  - cbn [dec_digits_pos]. change (10 ^ Z.of_nat 0) with 1 in H. replace (Z.of_N n) with 0 by lia. reflexivity.
  - cbn [dec_digits_pos].
    assert (Hm : (n mod 10 < 10)%N) by (apply N.mod_lt; lia).
    destruct (digit_char _ Hm) as [Hd _].
    destruct (N.ltb_spec n 10) as [Hlt|Hge].
    + unfold dv at 1. cbn [fold_left]. fold (dv (0 * 10 + digit_val (byte_of_N (48 + n mod 10))) acc).
      rewrite Hd. f_equal. rewrite N.mod_small by exact Hlt. lia.
    + rewrite IH.
      * unfold dv at 1. cbn [fold_left]. fold (dv (Z.of_N (n / 10) * 10 + digit_val (byte_of_N (48 + n mod 10))) acc).
        rewrite Hd. f_equal. lia.
      * rewrite Nat2Z.inj_succ, Z.pow_succ_r in H by lia. lia.
Qed.

Lemma digits_all fuel : forall n acc,
  forallb is_digit acc = true -> forallb is_digit (dec_digits_pos fuel n acc) = true.
Proof.
  induction fuel as [|f IH]; intros n acc H; cbn [dec_digits_pos]; [exact H|].
  assert (Hm : (n mod 10 < 10)%N) by (apply N.mod_lt; lia).
  destruct (digit_char _ Hm) as [_ Hd].
  destruct (n <? 10)%N.
  - cbn [forallb]. rewrite Hd, H. reflexivity.
  - apply IH. cbn [forallb]. rewrite Hd, H. reflexivity.
Qed.

Lemma digits_nonempty f n acc : dec_digits_pos (S f) n acc <> [].
Proof.
  revert n acc. induction f as [|f IH]; intros n acc.
  - cbn [dec_digits_pos]. destruct (n <? 10)%N; discriminate.
  - change (dec_digits_pos (S (S f)) n acc) with
      (let d := byte_of_N (48 + n mod 10)%N in
       if (n <? 10)%N then d :: acc else dec_digits_pos (S f) (n / 10)%N (d :: acc)).
    cbv zeta. destruct (n <? 10)%N; [discriminate|apply IH].
Qed.

Lemma pow10_40 : 10 ^ Z.of_nat 40 = 10000000000000000000000000000000000000000.
Proof. reflexivity. Qed.

Lemma digit_not_minus l : forallb is_digit l = true -> match l with b :: _ => Byte.eqb b x2d = false | [] => True end.
Proof.
  destruct l as [|b r]; [trivial|]. cbn [forallb]. intros H. apply andb_prop in H as [H _].
  unfold is_digit in H. destruct b; try reflexivity; discriminate.
Qed.

(* strconv.Itoa followed by a decimal parse is the identity (in particular for every int32) *)
Theorem atoi_itoa z : - 10 ^ 39 < z < 10 ^ 39 -> atoi_text (itoa z) = Some z.
Proof.
  intros Hz. unfold itoa.
  destruct (Z.ltb_spec z 0) as [Hneg|Hpos].
  - unfold atoi_text. replace (Byte.eqb x2d x2d) with true by reflexivity.
    pose proof (digits_nonempty 39 (Z.to_N (- z)) []) as NE.
    destruct (dec_digits_pos 40 (Z.to_N (- z)) []) as [|d ds] eqn:E; [contradiction|].
    rewrite <- E. rewrite digits_all by reflexivity.
    rewrite dec_val_dv, digits_dv.
    + unfold dv. cbn [fold_left]. f_equal. lia.
    + rewrite pow10_40. lia.
  - unfold atoi_text.
    pose proof (digits_nonempty 39 (Z.to_N z) []) as NE.
    pose proof (digits_all 40 (Z.to_N z) [] eq_refl) as AD.
    pose proof (digit_not_minus _ AD) as NM.
    destruct (dec_digits_pos 40 (Z.to_N z) []) as [|d ds] eqn:E; [contradiction|].
    rewrite NM, AD. rewrite <- E.
    rewrite dec_val_dv, digits_dv.
    + unfold dv. cbn [fold_left]. f_equal. lia.
    + rewrite pow10_40. lia.
Qed.
