(* Case.v — first-order description of one correspondence case (what the Go
   harness scripts the real server with), its translation to a [cfg], and a
   canonical serialisation of logs used to cross-check the extracted code
   against evaluation inside Coq. *)
Require Import Wire.Bytes Spec.BackendSpec Wire.Errors Wire.Framing Wire.Session Wire.Codec.
From Coq Require Import String.
Local Open Scope string_scope.
Local Open Scope list_scope.
Local Open Scope Z_scope.

Record scase := {
  sc_limit : Z;
  sc_auth : option (Z * bytes);      (* mode: 0 accept iff password = the bytes, 1 accept, 2 reject, 3 fail *)
  sc_params : list (bytes * bytes);
  sc_version : bytes;
  sc_tls : bool;
  sc_mws : list bool;
  sc_term : option bool;
  sc_parse : list (bytes * parse_res);
  sc_raw : bytes;
  sc_tlsin : option bytes }.

(* the first entry for a query wins, as in the harness *)
Definition lookup_parse (tbl : list (bytes * parse_res)) (q : bytes) : parse_res :=
  match alist_get q tbl with
  | Some r => r
  | None => PErr (EBase (bs "unknown query"))
  end.

Definition validator (mode : Z) (pw : bytes) : bytes -> bytes -> bytes -> vres :=
  fun _ _ given =>
    if mode =? 0 then (if bytes_eqb given pw then VAccept else VReject)
    else if mode =? 1 then VAccept
    else if mode =? 2 then VReject
    else VFail.

Definition cfg_of_case (sc : scase) : cfg :=
  {| cfg_limit := sc_limit sc;
     cfg_auth := match sc_auth sc with Some (m, pw) => Some (validator m pw) | None => None end;
     cfg_params := sc_params sc; cfg_version := sc_version sc; cfg_tls := sc_tls sc;
     cfg_mws := sc_mws sc; cfg_term := sc_term sc;
     cfg_parse := lookup_parse (sc_parse sc);
     cfg_encode := encode_value |}.

Definition run_case (sc : scase) : list ev := serve (cfg_of_case sc) (sc_raw sc) (sc_tlsin sc).

(* ---- canonical serialisation (digest) ---- *)
Definition ser_bytes (b : bytes) : bytes := be32 (lenZ b) ++ b.
Definition ser_Z (z : Z) : bytes := itoa z ++ [x00].
Definition ser_opt (o : option bytes) : bytes :=
  match o with None => [x00] | Some b => x01 :: ser_bytes b end.
Definition ser_err (e : err) : bytes :=
  ser_bytes (get_code e) ++ ser_bytes (default_severity (get_severity e)) ++ ser_bytes (err_text e).
Definition ser_opres (r : opres) : bytes :=
  match r with
  | OOk => [x00] | OErr e => x01 :: ser_err e | OEof => [x02] | OData b => x03 :: ser_bytes b
  | OWritten n => x04 :: ser_Z n | ONoReader => [x05]
  end.
Definition ser_ev (e : ev) : bytes :=
  match e with
  | Out m => x01 :: enc_bmsg m
  | RawOut b => [x02; b]
  | Consume => [x03]
  | CbValidate a b c => x04 :: ser_bytes a ++ ser_bytes b ++ ser_bytes c
  | CbMw i => x05 :: ser_Z i
  | CbParse q => x06 :: ser_bytes q
  | CbExec sid ps => x07 :: ser_Z sid ++ ser_Z (lenZ ps) ++
                     flat_map (fun p => ser_Z (fst p) ++ ser_opt (snd p)) ps
  | CbOp r => x08 :: ser_opres r
  | CbTerminate => [x09]
  | Crash => [x0a]
  | Closed => [x0b]
  | OutOfFuel => [x0c]
  end.
Definition log_digest (l : list ev) : bytes := flat_map ser_ev l.
