(* ReaderExec.v — executable model of a buffer.Reader over a byte stream: what
   each call returns (list level) and where Msg lives afterwards (slice level). *)
Require Import Wire.Bytes Spec.BackendSpec Wire.Framing Wire.ReaderModel.
Local Open Scope list_scope.
Local Open Scope Z_scope.

Inductive xop := XTyped | XUntyped | XSlurp (n : Z) | XAcc (a : aop).

Inductive xres :=
| XMsg (t : Z) (n : Z)       (* type byte (or -1 for untyped), number of bytes read *)
| XSizeErr (t : Z) (size : Z)
| XReadErr
| XRes (r : ares)
| XDone.

Record xstate := { x_stream : bytes; x_msg : bytes; x_heap : rheap; x_limit : Z }.

Definition x_init (L : Z) (stream : bytes) : xstate :=
  {| x_stream := stream; x_msg := []; x_heap := h_init; x_limit := L |}.

Fixpoint zeros (n : nat) : bytes := match n with O => [] | S k => x00 :: zeros k end.

(* ReadUntypedMsg on a stream positioned at the length field *)
Definition x_untyped (s : xstate) (t : Z) : xstate * xres :=
  match x_stream s with
  | a :: b :: c :: d :: r =>
      let size := rd32 a b c d - 4 in
      if (size >? eff_limit (x_limit s)) || (size <? 0) then
        ({| x_stream := r; x_msg := x_msg s; x_heap := x_heap s; x_limit := x_limit s |}, XSizeErr t size)
      else
        let h' := rstep (x_heap s) (RReset (Z.to_nat size)) in
        match takeZ size r with
        | Some (body, rest) =>
            ({| x_stream := rest; x_msg := body; x_heap := h'; x_limit := x_limit s |}, XMsg t (4 + size))
        | None =>
            ({| x_stream := []; x_msg := r ++ zeros (Z.to_nat size - length r); x_heap := h'; x_limit := x_limit s |}, XReadErr)
        end
  | _ => ({| x_stream := []; x_msg := x_msg s; x_heap := x_heap s; x_limit := x_limit s |}, XReadErr)
  end.

(* Slurp: read and drop [n] bytes in windows of at most the limit *)
Fixpoint x_slurp (fuel : nat) (s : xstate) (remaining : Z) : xstate * xres :=
  match fuel with
  | O => (s, XDone)
  | S f =>
      if remaining <=? 0 then (s, XDone)
      else
        let reading := Z.min remaining (eff_limit (x_limit s)) in
        let h' := rstep (x_heap s) (RReset (Z.to_nat reading)) in
        match takeZ reading (x_stream s) with
        | Some (chunk, rest) =>
            x_slurp f {| x_stream := rest; x_msg := chunk; x_heap := h'; x_limit := x_limit s |} (remaining - reading)
        | None =>
            ({| x_stream := []; x_msg := x_stream s ++ zeros (Z.to_nat reading - length (x_stream s));
                x_heap := h'; x_limit := x_limit s |}, XReadErr)
        end
  end.

Definition take_of (msg : bytes) (a : aop) (r : ares) : rop :=
  match a, r with
  | AString, ROkBytes s => RTake (length s) 1
  | ABytes _, ROkBytes v => RTake (length v) 0
  | AU16, ROkNum _ => RTake 0 2
  | AU32, ROkNum _ => RTake 0 4
  | APrepare, ROkNum _ => RTake 0 1
  | _, _ => RTake 0 0
  end.

Definition xstep (s : xstate) (o : xop) : xstate * xres :=
  match o with
  | XTyped =>
      match x_stream s with
      | t :: r => x_untyped {| x_stream := r; x_msg := x_msg s; x_heap := x_heap s; x_limit := x_limit s |} (bZ t)
      | [] => (s, XReadErr)
      end
  | XUntyped => x_untyped s (-1)
  | XSlurp n => x_slurp (S (Z.to_nat (n / eff_limit (x_limit s)) + 1)) s n
  | XAcc a =>
      let (r, msg') := astep (x_msg s) a in
      match r with
      | RFail => (s, XRes RFail)
      | _ => ({| x_stream := x_stream s; x_msg := msg'; x_heap := rstep (x_heap s) (take_of (x_msg s) a r);
                 x_limit := x_limit s |}, XRes r)
      end
  end.

(* run: per call the result and the slice (allocation, offset, length, capacity) of Msg afterwards *)
Fixpoint xrun (s : xstate) (ops : list xop) : list (xres * (nat * nat * nat * nat)) :=
  match ops with
  | [] => []
  | o :: r =>
      let (s', res) := xstep s o in
      (res, (h_alloc (x_heap s'), h_off (x_heap s'), h_len (x_heap s'), h_cap (x_heap s'))) :: xrun s' r
  end.
