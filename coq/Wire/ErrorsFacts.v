(* ErrorsFacts.v — the Get* walkers of package errors compute the outermost
   decoration; the emitted fields are the specified ones. *)
Require Import Wire.Bytes Wire.Errors Spec.ErrorSpec Spec.ErrorFields.
Local Open Scope list_scope.

Lemma combine_uncat c : combine_codes c uncategorized = c.
Proof. unfold combine_codes. replace (bytes_eqb uncategorized uncategorized) with true by reflexivity. reflexivity. Qed.

Lemma get_code_spec e : get_code e = spec_code e.
Proof.
  unfold spec_code, outer_code.
  induction e as [t|pre post e IH|c e IH|s e IH|h e IH|d e IH|f l fn e IH|c e IH];
    cbn [get_code decos first_some]; rewrite ?combine_uncat; try exact IH; reflexivity.
Qed.

Lemma match_id (b : bytes) : match b with [] => [] | s => s end = b.
Proof. destruct b; reflexivity. Qed.

Lemma get_severity_spec e : get_severity e = or_empty (outer_sev e).
Proof.
  unfold outer_sev.
  induction e as [t|pre post e IH|c e IH|s e IH|h e IH|d e IH|f l fn e IH|c e IH];
    cbn [get_severity decos first_some or_empty];
    try (rewrite <- IH; destruct (get_severity e); reflexivity); reflexivity.
Qed.

Lemma get_hint_spec e : get_hint e = or_empty (outer_hint e).
Proof.
  unfold outer_hint.
  induction e as [t|pre post e IH|c e IH|s e IH|h e IH|d e IH|f l fn e IH|c e IH];
    cbn [get_hint decos first_some or_empty]; try exact IH; reflexivity.
Qed.

Lemma get_detail_spec e : get_detail e = or_empty (outer_detail e).
Proof.
  unfold outer_detail.
  induction e as [t|pre post e IH|c e IH|s e IH|h e IH|d e IH|f l fn e IH|c e IH];
    cbn [get_detail decos first_some or_empty]; try exact IH; reflexivity.
Qed.

Lemma get_constraint_spec e : get_constraint e = or_empty (outer_constraint e).
Proof.
  unfold outer_constraint.
  induction e as [t|pre post e IH|c e IH|s e IH|h e IH|d e IH|f l fn e IH|c e IH];
    cbn [get_constraint decos first_some or_empty];
    try (rewrite <- IH; destruct (get_constraint e); reflexivity); reflexivity.
Qed.

Lemma get_source_spec e : get_source e = outer_source e.
Proof.
  unfold outer_source.
  induction e as [t|pre post e IH|c e IH|s e IH|h e IH|d e IH|f l fn e IH|c e IH];
    cbn [get_source decos first_some]; try exact IH; reflexivity.
Qed.

Lemma default_severity_spec e : default_severity (get_severity e) = spec_severity e.
Proof.
  rewrite get_severity_spec. unfold spec_severity, default_severity, or_empty.
  destruct (outer_sev e) as [[|b r]|]; reflexivity.
Qed.

Lemma opt_field_spec code o :
  (if nonempty (or_empty o) then [(code, or_empty o)] else []) = opt_field code o.
Proof. destruct o as [[|b r]|]; reflexivity. Qed.

Lemma err_fields_spec e : err_fields (Some e) = spec_fields e.
Proof.
  unfold err_fields, spec_fields, flatten.
  cbn [f_severity f_code f_message f_hint f_detail f_source f_constraint].
  rewrite default_severity_spec, get_code_spec, get_hint_spec, get_detail_spec,
    get_constraint_spec, get_source_spec, !opt_field_spec.
  reflexivity.
Qed.

Lemma err_fields_nil : err_fields None = nil_fields.
Proof. reflexivity. Qed.

(* each field code occurs at most once *)
Lemma opt_field_codes code o : map fst (opt_field code o) = [] \/ map fst (opt_field code o) = [code].
Proof. destruct o as [[|b r]|]; simpl; auto. Qed.

Lemma spec_fields_nodup e : NoDup (map fst (spec_fields e)).
Proof.
  unfold spec_fields. rewrite !map_app.
  destruct (opt_field_codes x48 (outer_hint e)) as [-> | ->];
  destruct (opt_field_codes x44 (outer_detail e)) as [-> | ->];
  destruct (opt_field_codes x6e (outer_constraint e)) as [-> | ->];
  destruct (outer_source e) as [[[f l] fn]|]; cbn [map fst app];
  repeat constructor; cbn [In]; intuition discriminate.
Qed.

(* the message field is the error's own text *)
Lemma spec_fields_message e : In (x4d, err_text e) (spec_fields e).
Proof. unfold spec_fields. cbn. auto. Qed.

(* wrapping with fmt.Errorf("pre%wpost") changes the text only *)
Lemma wrap_transparent pre post e :
  spec_fields (EWrap pre post e) =
  match spec_fields e with
  | s :: c :: (m, _) :: rest => s :: c :: (m, (pre ++ err_text e ++ post)) :: rest
  | l => l
  end.
Proof. reflexivity. Qed.
