(* WriterFacts.v — every builder, started in ANY writer state, delivers exactly
   the encoding of its message or nothing; abandoned frames never leak. *)
Require Import Wire.Bytes Spec.BackendSpec Spec.BackendSpecFacts Wire.WriterModel.
Local Open Scope list_scope.
Local Open Scope Z_scope.

Lemma wrun_adds : forall ops w,
  forallb is_add ops = true -> w_latch w = false ->
  wrun w ops = ({| w_frame := w_frame w ++ flat_map add_bytes ops; w_latch := false;
                   w_sink := w_sink w; w_broken := w_broken w |}, []).
Proof.
  induction ops as [|o r IH]; intros w H L; cbn [wrun flat_map forallb] in *.
  - rewrite app_nil_r. destruct w; cbn in *; subst; reflexivity.
  - apply andb_prop in H as [Ho Hr].
    assert (S1 : wstep w o = (add w (add_bytes o), WOk)) by (destruct o; try discriminate; reflexivity).
    rewrite S1. unfold add at 1. rewrite L.
    rewrite IH by (auto; reflexivity). cbn [w_frame w_sink w_broken].
    rewrite <- app_assoc. destruct o; try discriminate; reflexivity.
Qed.

Lemma wrun_app : forall a b w,
  forallb is_add a = true -> w_latch w = false ->
  wrun w (a ++ b) = wrun {| w_frame := w_frame w ++ flat_map add_bytes a; w_latch := false;
                            w_sink := w_sink w; w_broken := w_broken w |} b.
Proof.
  induction a as [|o r IH]; intros b w H L; cbn [app forallb flat_map] in *.
  - rewrite app_nil_r. destruct w; cbn in *; subst; reflexivity.
  - apply andb_prop in H as [Ho Hr]. cbn [wrun].
    assert (S1 : wstep w o = (add w (add_bytes o), WOk)) by (destruct o; try discriminate; reflexivity).
    rewrite S1. unfold add at 1. rewrite L.
    rewrite IH by (auto; reflexivity). cbn [w_frame w_sink w_broken]. rewrite <- app_assoc.
    destruct (wrun _ b) as [w2 rs]. destruct o; try discriminate; reflexivity.
Qed.

Lemma body_ops_adds m : forallb is_add (body_ops m) = true.
Proof.
  destruct m; cbn [body_ops forallb is_add andb]; try reflexivity.
  - induction cols as [|c r IH]; cbn; auto.
  - induction fields as [|f r IH]; cbn; [reflexivity|]. destruct f; cbn; exact IH.
  - rewrite forallb_app. cbn. rewrite andb_true_r. induction fields as [|f r IH]; cbn; auto.
  - induction oids as [|o r IH]; cbn; auto.
  - induction cols as [|o r IH]; cbn; auto.
Qed.

Lemma flat_map_flat_map {A B C} (f : A -> list B) (g : B -> list C) l :
  flat_map g (flat_map f l) = flat_map (fun x => flat_map g (f x)) l.
Proof. induction l as [|x l IH]; cbn; [reflexivity|]. rewrite flat_map_app, IH. reflexivity. Qed.

Lemma flat_map_map {A B C} (f : A -> B) (g : B -> list C) l :
  flat_map g (map f l) = flat_map (fun x => g (f x)) l.
Proof. induction l as [|x l IH]; cbn; [reflexivity|]. rewrite IH. reflexivity. Qed.

Lemma flat_map_ext' {A B} (f g : A -> list B) l : (forall x, f x = g x) -> flat_map f l = flat_map g l.
Proof. intros H. induction l as [|x l IH]; cbn; [reflexivity|]. rewrite H, IH. reflexivity. Qed.

(* the bytes the builder's Add calls append are the body of the message *)
Lemma body_ops_bytes m : flat_map add_bytes (body_ops m) = msg_body m.
Proof.
  destruct m as [c|k v|s|cols|fields|tag| |fields| | | | |oids|f cols]; cbn [body_ops msg_body].
  - cbn [flat_map add_bytes]. apply app_nil_r.
  - cbn [flat_map add_bytes]. unfold cstr. rewrite app_nil_r, <- !app_assoc. reflexivity.
  - reflexivity.
  - cbn [flat_map add_bytes]. f_equal. rewrite flat_map_flat_map. apply flat_map_ext'. intros c.
    cbn [col_ops flat_map add_bytes]. unfold enc_col, cstr. rewrite app_nil_r, <- !app_assoc. reflexivity.
  - cbn [flat_map add_bytes]. f_equal. rewrite flat_map_flat_map. apply flat_map_ext'. intros [v|]; cbn [field_ops flat_map add_bytes enc_field]; rewrite ?app_nil_r; reflexivity.
  - cbn [flat_map add_bytes]. unfold cstr. rewrite app_nil_r. reflexivity.
  - reflexivity.
  - rewrite flat_map_app. cbn [flat_map add_bytes app]. f_equal. rewrite flat_map_flat_map. apply flat_map_ext'. intros [c t].
    cbn [efield_ops flat_map add_bytes fst snd]. unfold enc_efield, cstr. cbn [fst snd app]. rewrite ?app_nil_r. reflexivity.
  - reflexivity.
  - reflexivity.
  - reflexivity.
  - reflexivity.
  - cbn [flat_map add_bytes]. f_equal. rewrite flat_map_map. reflexivity.
  - cbn [flat_map add_bytes app]. f_equal. f_equal. rewrite flat_map_map. reflexivity.
Qed.

(* the central statement: for EVERY initial writer state — leftover bytes of an
   abandoned frame, latched error or not — the builder of message m either
   delivers exactly enc_bmsg m as one write, or (broken transport) nothing;
   afterwards the frame is empty and the latch clear *)
Theorem builder_correct m w :
  let (w', rs) := wrun w (msg_ops m) in
  w_frame w' = [] /\ w_latch w' = false /\ w_broken w' = w_broken w /\
  (if w_broken w then w_sink w' = w_sink w /\ rs = [WErr]
   else w_sink w' = w_sink w ++ [enc_bmsg m] /\ rs = [WOk]).
Proof.
  unfold msg_ops. cbn [wrun wstep].
  set (w0 := add (reset w) [msg_type m; x00; x00; x00; x00]).
  assert (L0 : w_latch w0 = false) by reflexivity.
  rewrite wrun_app by (auto using body_ops_adds).
  rewrite body_ops_bytes. cbn [wrun wstep wend w_latch w_frame w0 add reset app w_sink w_broken].
  assert (Len : lenZ (msg_type m :: x00 :: x00 :: x00 :: x00 :: msg_body m) - 1 = 4 + lenZ (msg_body m)).
  { unfold lenZ. cbn [length]. lia. }
  rewrite Len. destruct (w_broken w); cbn; repeat split; reflexivity.
Qed.

(* an abandoned message (Start, some Add calls, never End) delivers nothing *)
Theorem abandoned_silent t adds w :
  forallb is_add adds = true ->
  let (w', rs) := wrun w (WStart t :: adds) in
  w_sink w' = w_sink w /\ rs = [] /\ w_broken w' = w_broken w.
Proof.
  intros H. cbn [wrun wstep].
  rewrite wrun_adds by (auto; reflexivity). cbn. auto.
Qed.

(* ... and whatever it leaves behind is erased by the next message: after any
   sequence of complete and abandoned messages the transport has received exactly
   the encodings of the completed ones, in order *)
Inductive item := Done (m : bmsg) | Abandoned (t : byte) (adds : list wop).
Definition item_ops (i : item) : list wop :=
  match i with Done m => msg_ops m | Abandoned t adds => WStart t :: adds end.
Definition item_ok (i : item) : bool := match i with Done _ => true | Abandoned _ adds => forallb is_add adds end.
Definition delivered (is : list item) : list bytes :=
  flat_map (fun i => match i with Done m => [enc_bmsg m] | _ => [] end) is.

Lemma wrun_seq a b w :
  ~ In WPanic (snd (wrun w a)) ->
  wrun w (a ++ b) = (fst (wrun (fst (wrun w a)) b), snd (wrun w a) ++ snd (wrun (fst (wrun w a)) b)).
Proof.
  revert w. induction a as [|o r IH]; intros w NP; cbn [app wrun].
  - cbn. destruct (wrun w b); reflexivity.
  - cbn [wrun] in NP. destruct (wstep w o) as [w1 res] eqn:S1.
    destruct res; cbn [snd] in NP.
    + destruct (wrun w1 r) as [w2 rs] eqn:R. cbn [snd fst] in *.
      rewrite IH by (rewrite R; cbn; destruct o; cbn in NP; intuition).
      rewrite R. cbn [fst snd]. destruct o; reflexivity.
    + destruct (wrun w1 r) as [w2 rs] eqn:R. cbn [snd fst] in *.
      rewrite IH by (rewrite R; cbn; destruct o; cbn in NP; intuition).
      rewrite R. cbn [fst snd]. destruct o; reflexivity.
    + exfalso. apply NP. left. reflexivity.
Qed.

Theorem render_correct : forall is w,
  forallb item_ok is = true -> w_broken w = false ->
  w_sink (fst (wrun w (flat_map item_ops is))) = w_sink w ++ delivered is /\
  w_broken (fst (wrun w (flat_map item_ops is))) = false /\
  ~ In WPanic (snd (wrun w (flat_map item_ops is))).
Proof.
  induction is as [|i r IH]; intros w H B; cbn [flat_map delivered forallb] in *.
  - cbn. rewrite app_nil_r. auto.
  - apply andb_prop in H as [Hi Hr].
    assert (One : w_sink (fst (wrun w (item_ops i))) = w_sink w ++ match i with Done m => [enc_bmsg m] | _ => [] end /\
                  w_broken (fst (wrun w (item_ops i))) = false /\ ~ In WPanic (snd (wrun w (item_ops i)))).
    { destruct i as [m|t adds]; cbn [item_ops].
      - pose proof (builder_correct m w) as BC. destruct (wrun w (msg_ops m)) as [w' rs]. cbn [fst snd].
        destruct BC as (_ & _ & Bk & S). rewrite B in *. destruct S as [S R]. subst rs.
        repeat split; auto. cbn. intuition discriminate.
      - pose proof (abandoned_silent t adds w Hi) as AB. destruct (wrun w (WStart t :: adds)) as [w' rs]. cbn [fst snd].
        destruct AB as (S & R & Bk). subst rs. rewrite app_nil_r, Bk. auto. }
    destruct One as (S1 & B1 & P1).
    rewrite wrun_seq by exact P1. cbn [fst snd].
    destruct (IH (fst (wrun w (item_ops i))) Hr B1) as (S2 & B2 & P2).
    rewrite S2, S1, <- app_assoc. repeat split; auto.
    intros Hin. apply in_app_or in Hin. tauto.
Qed.
