Require Import Wire.Bytes Wire.Transport.
Local Open Scope list_scope.

Lemma read_full_spec : forall segs n,
  match read_full n segs with
  | Some (a, segs') => a = firstn n (concat segs) /\ concat segs' = skipn n (concat segs) /\ length a = n
  | None => (length (concat segs) < n)%nat
  end.
Proof.
  induction segs as [|s tail IH]; intros n.
  - destruct n; cbn; [auto|lia].
  - destruct n as [|n']; [cbn; auto|].
    cbn [read_full concat]. set (n := S n').
    destruct (Nat.leb_spec n (length s)) as [Hle|Hgt].
    + cbn [concat]. rewrite firstn_app, skipn_app.
      replace (n - length s)%nat with 0%nat by lia. cbn [firstn skipn]. rewrite app_nil_r.
      repeat split; auto. rewrite firstn_length. lia.
    + specialize (IH (n - length s)%nat).
      destruct (read_full (n - length s) tail) as [[a segs']|].
      * destruct IH as (A & B & C). rewrite firstn_app, skipn_app.
        rewrite firstn_all2 by lia. rewrite skipn_all2 by lia. cbn [app].
        repeat split; [rewrite A; reflexivity|exact B|rewrite app_length; lia].
      * rewrite app_length. lia.
Qed.

(* the outcome of a read depends only on the concatenation of the segments *)
Lemma read_full_segmentation n segs1 segs2 :
  concat segs1 = concat segs2 ->
  match read_full n segs1, read_full n segs2 with
  | Some (a1, r1), Some (a2, r2) => a1 = a2 /\ concat r1 = concat r2
  | None, None => True
  | _, _ => False
  end.
Proof.
  intros E. pose proof (read_full_spec segs1 n) as S1. pose proof (read_full_spec segs2 n) as S2.
  destruct (read_full n segs1) as [[a1 r1]|], (read_full n segs2) as [[a2 r2]|]; auto.
  - destruct S1 as (A1 & B1 & _), S2 as (A2 & B2 & _). rewrite A1, A2, B1, B2, E. auto.
  - destruct S1 as (A1 & _ & L1). rewrite <- E in S2.
    assert (H : length (firstn n (concat segs1)) = n) by (rewrite <- A1; exact L1).
    rewrite firstn_length in H. lia.
  - destruct S2 as (A2 & _ & L2). rewrite E in S1.
    assert (H : length (firstn n (concat segs2)) = n) by (rewrite <- A2; exact L2).
    rewrite firstn_length in H. lia.
Qed.

(* no deterministic consumer built on ReadFull can tell two segmentations of the
   same stream apart *)
Theorem consume_segmentation : forall fuel k sofar segs1 segs2,
  concat segs1 = concat segs2 ->
  consume fuel k sofar segs1 = consume fuel k sofar segs2.
Proof.
  induction fuel as [|f IH]; intros k sofar segs1 segs2 E; cbn [consume]; [reflexivity|].
  destruct (k sofar) as [n|]; [|reflexivity].
  pose proof (read_full_segmentation n segs1 segs2 E) as R.
  destruct (read_full n segs1) as [[a1 r1]|], (read_full n segs2) as [[a2 r2]|]; try contradiction; [|reflexivity].
  destruct R as [-> Er]. apply IH. exact Er.
Qed.
