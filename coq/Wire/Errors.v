(* Errors.v — model of package errors (decorators, Flatten) and of the
   ErrorResponse fields ErrorCode writes (error.go).

   A Go error value is modelled as a tree: a base error with a text, ordinary
   wrapping fmt.Errorf("pre%wpost", e) (one %w), and the six decorators.  Any
   other error type (joined errors, custom types without Unwrap) is a base. *)
Require Import Wire.Bytes.
Local Open Scope Z_scope.
From Coq Require Import String.
Local Open Scope string_scope.

Inductive err :=
| EBase (text : bytes)
| EWrap (pre post : bytes) (e : err)
| ECode (code : bytes) (e : err)
| ESev (sev : bytes) (e : err)
| EHint (hint : bytes) (e : err)
| EDetail (detail : bytes) (e : err)
| ESource (file : bytes) (line : Z) (fn : bytes) (e : err)
| EConstraint (c : bytes) (e : err).

(* err.Error() *)
Fixpoint err_text (e : err) : bytes :=
  match e with
  | EBase t => t
  | EWrap pre post e' => (pre ++ err_text e' ++ post)%list
  | ECode _ e' | ESev _ e' | EHint _ e' | EDetail _ e'
  | ESource _ _ _ e' | EConstraint _ e' => err_text e'
  end.

(* errors.Unwrap *)
Definition unwrap (e : err) : option err :=
  match e with
  | EBase _ => None
  | EWrap _ _ e' | ECode _ e' | ESev _ e' | EHint _ e' | EDetail _ e'
  | ESource _ _ _ e' | EConstraint _ e' => Some e'
  end.

Definition uncategorized : bytes := bs "XXUUU".
Definition internal_code : bytes := bs "XX000".

Definition has_prefix_XX (c : bytes) : bool :=
  match c with a :: b :: _ => Byte.eqb a x58 && Byte.eqb b x58 | _ => false end.

(* errors/code.go combineCodes *)
Definition combine_codes (inner outer : bytes) : bytes :=
  if bytes_eqb outer uncategorized then inner
  else if has_prefix_XX outer then outer
  else if negb (bytes_eqb inner uncategorized) then inner
  else outer.

(* GetCode: code = Uncategorized; a withCode node returns its code; otherwise
   if Unwrap(err) != nil: code = combineCodes(GetCode(inner), code) *)
Fixpoint get_code (e : err) : bytes :=
  match e with
  | ECode c _ => c
  | EBase _ => uncategorized
  | EWrap _ _ e' | ESev _ e' | EHint _ e' | EDetail _ e'
  | ESource _ _ _ e' | EConstraint _ e' => combine_codes (get_code e') uncategorized
  end.

(* GetSeverity: a withSeverity node returns its severity (even if empty);
   otherwise inner := GetSeverity(unwrapped); if inner != "" return inner; "" *)
Fixpoint get_severity (e : err) : bytes :=
  match e with
  | ESev s _ => s
  | EBase _ => []
  | EWrap _ _ e' | ECode _ e' | EHint _ e' | EDetail _ e'
  | ESource _ _ _ e' | EConstraint _ e' =>
      match get_severity e' with [] => [] | s => s end
  end.

Definition default_severity (s : bytes) : bytes :=
  match s with [] => bs "ERROR" | _ => s end.

Fixpoint get_hint (e : err) : bytes :=
  match e with
  | EHint h _ => h
  | EBase _ => []
  | EWrap _ _ e' | ECode _ e' | ESev _ e' | EDetail _ e'
  | ESource _ _ _ e' | EConstraint _ e' => get_hint e'
  end.

Fixpoint get_detail (e : err) : bytes :=
  match e with
  | EDetail d _ => d
  | EBase _ => []
  | EWrap _ _ e' | ECode _ e' | ESev _ e' | EHint _ e'
  | ESource _ _ _ e' | EConstraint _ e' => get_detail e'
  end.

Fixpoint get_constraint (e : err) : bytes :=
  match e with
  | EConstraint c _ => c
  | EBase _ => []
  | EWrap _ _ e' | ECode _ e' | ESev _ e' | EHint _ e' | EDetail _ e'
  | ESource _ _ _ e' =>
      match get_constraint e' with [] => [] | s => s end
  end.

Fixpoint get_source (e : err) : option (bytes * Z * bytes) :=
  match e with
  | ESource f l fn _ => Some (f, l, fn)
  | EBase _ => None
  | EWrap _ _ e' | ECode _ e' | ESev _ e' | EHint _ e' | EDetail _ e'
  | EConstraint _ e' => get_source e'
  end.

Record flat := {
  f_code : bytes; f_message : bytes; f_detail : bytes; f_hint : bytes;
  f_severity : bytes; f_constraint : bytes; f_source : option (bytes * Z * bytes) }.

(* errors.Flatten; None is the nil error *)
Definition flatten (e : option err) : flat :=
  match e with
  | None => {| f_code := internal_code;
               f_message := bs "unknown error, an internal process attempted to throw an error";
               f_detail := []; f_hint := []; f_severity := bs "FATAL";
               f_constraint := []; f_source := None |}
  | Some e => {| f_code := get_code e; f_message := err_text e; f_detail := get_detail e;
                 f_hint := get_hint e; f_severity := default_severity (get_severity e);
                 f_constraint := get_constraint e; f_source := get_source e |}
  end.

Definition nonempty (b : bytes) : bool := match b with [] => false | _ => true end.

(* the fields writeErrorResponse emits, in order (error.go) *)
Definition err_fields (e : option err) : list (byte * bytes) :=
  let d := flatten e in
  ([(x53, f_severity d); (x43, f_code d); (x4d, f_message d)] ++
   (if nonempty (f_hint d) then [(x48, f_hint d)] else []) ++
   (if nonempty (f_detail d) then [(x44, f_detail d)] else []) ++
   (match f_source d with
    | Some (file, line, fn) => [(x46, file); (x4c, itoa line); (x52, fn)]
    | None => []
    end) ++
   (if nonempty (f_constraint d) then [(x6e, f_constraint d)] else []))%list.

(* pinned behaviour (before the repairs), kept for the refutation lemmas: the
   line was written as four raw bytes followed by NUL, the constraint omitted *)
Definition err_body_pinned (e : option err) : bytes :=
  let d := flatten e in
  ([x53] ++ cstr (f_severity d) ++ [x43] ++ cstr (f_code d) ++ [x4d] ++ cstr (f_message d) ++
   (if nonempty (f_hint d) then x48 :: cstr (f_hint d) else []) ++
   (if nonempty (f_detail d) then x44 :: cstr (f_detail d) else []) ++
   (match f_source d with
    | Some (file, line, fn) => x46 :: cstr file ++ x4c :: be32 line ++ [x00] ++ x52 :: cstr fn
    | None => []
    end) ++ [x00])%list.

(* ---- the library's own error constructors ---- *)
Definition sev_error := bs "ERROR".
Definition sev_fatal := bs "FATAL".

(* a text the model does not determine (produced by fmt %q, pgx or the Go
   runtime); compared as a wildcard by the correspondence check *)
Definition any_text : bytes := [x01].

Definition e_unimplemented (t : byte) : err :=
  ESev sev_fatal (ECode (bs "08003")
    (EBase (bs "unimplemented client message type: " ++ itoa (bZ t))%list)).
Definition e_unknown_stmt (name : bytes) : err :=
  ESev sev_fatal (ECode (bs "42P14") (EBase (bs "unknown executeable: " ++ name)%list)).
Definition e_unknown_portal (name : bytes) : err :=
  ESev sev_error (ECode (bs "34000") (EBase (bs "unknown portal: " ++ name)%list)).
Definition e_undefined_stmt : err :=
  ESev sev_error (ECode (bs "42601") (EBase (bs "no statement has been defined"))).
Definition e_multiple_stmts : err :=
  ESev sev_error (ECode (bs "42601")
    (EBase (bs "cannot insert multiple commands into a prepared statement"))).
Definition e_copy_failed (desc : bytes) : err :=
  ESev sev_error (ECode uncategorized (EBase (bs "client aborted copy: " ++ desc)%list)).
Definition e_size_exceeded (max size : Z) : err :=
  ESev sev_error (ECode (bs "54000")
    (EBase (bs "message size " ++ itoa size ++ bs ", bigger than maximum allowed message size " ++ itoa max)%list)).
Definition e_missing_nul : err :=
  ESev sev_fatal (ECode (bs "XX001") (EBase (bs "NUL terminator not found"))).
Definition e_insufficient (have : Z) : err :=
  ESev sev_fatal (ECode (bs "XX001")
    (EWrap (bs "length: " ++ itoa have ++ bs " ")%list [] (EBase (bs "insufficient data")))).
Definition e_invalid_password : err :=
  ECode (bs "28P01") (EBase (bs "invalid username/password")).
Definition e_closed_writer : err := EBase (bs "closed writer").
Definition e_data_written : err := EBase (bs "data has already been written").
Definition e_arity (ncols nvals : Z) : err :=
  EBase (bs "unexpected columns, " ++ itoa ncols ++
         bs " columns are defined inside the given table but " ++ itoa nvals ++ bs " were given")%list.
Definition e_no_columns : err :=
  EBase (bs "at least one column needs to be defined within the prepared statement").
Definition e_unknown_describe : err := EBase any_text.
Definition e_unknown_close : err := EBase any_text.
Definition e_panic : err := EBase any_text.
Definition e_encode : err := EBase any_text.
Definition e_eof : err := EBase (bs "EOF").
Definition e_unexpected_eof : err := EBase (bs "unexpected EOF").
