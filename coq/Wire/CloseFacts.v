(* CloseFacts.v — the inductive invariant of the repaired shutdown protocol
   and its consequences, stated on the executable semantics of CloseModel.v
   ([exec] / [run]).  Statements for the outside world are in Props/C16.v. *)
From Coq Require Import List Arith ZArith Lia Bool.
Import ListNotations.
From Wire Require Import CloseModel.

Ltac projs :=
  cbn [closing once writer readers chan_closed wg helper_alive panicked returned
       started_after_return handled dropped closers workers budgets] in *.
Ltac unsetters :=
  unfold cgo, wgo, set_closing, set_once, set_writer, set_readers, set_chan, set_wg,
         set_helper, set_panicked, set_returned, set_sar, set_handled, set_dropped,
         set_closers, set_workers, set_budgets in *.

(* ------------------------------------------------------------------ *)
(* counting                                                            *)
Arguments cnt : simpl never.

Lemma cnt_upd {A} (p : A -> bool) l i x y : nth_error l i = Some y ->
  cnt p (upd l i x) + (if p y then 1 else 0) = cnt p l + (if p x then 1 else 0).
Proof.
  revert i. induction l as [|a l IH]; intros [|i] H; simpl in H; try discriminate.
  - injection H as ->. unfold cnt. cbn [upd filter].
    destruct (p x), (p y); cbn [length]; lia.
  - specialize (IH i H). unfold cnt in *. cbn [upd filter].
    destruct (p a); cbn [length]; lia.
Qed.

Lemma cnt_le {A} (p q : A -> bool) l :
  (forall x, p x = true -> q x = true) -> cnt p l <= cnt q l.
Proof.
  intros H. unfold cnt. induction l as [|a l IH]; cbn [filter length]; [lia|].
  destruct (p a) eqn:E; [rewrite (H a E)|destruct (q a)]; cbn [length]; lia.
Qed.

Lemma cnt_pos {A} (p : A -> bool) l i y :
  nth_error l i = Some y -> p y = true -> 1 <= cnt p l.
Proof.
  revert i; induction l as [|a l IH]; intros [|i] H Hp; simpl in H; try discriminate;
    unfold cnt in *; cbn [filter].
  - injection H as ->. rewrite Hp. cbn [length]. lia.
  - specialize (IH i H Hp). destruct (p a); cbn [length]; lia.
Qed.

Lemma cnt_ex {A} (p : A -> bool) l :
  1 <= cnt p l -> exists i y, nth_error l i = Some y /\ p y = true.
Proof.
  unfold cnt. induction l as [|a l IH]; cbn [filter length]; intros H; [lia|].
  destruct (p a) eqn:E.
  - exists 0, a. split; [reflexivity|exact E].
  - destruct (IH H) as (i & y & Hi & Hy). exists (S i), y. split; [exact Hi|exact Hy].
Qed.

Lemma cnt_repeat_false {A} (p : A -> bool) x n : p x = false -> cnt p (repeat x n) = 0.
Proof.
  intros H; unfold cnt; induction n; cbn [repeat filter]; [reflexivity|rewrite H; exact IHn].
Qed.

(* ------------------------------------------------------------------ *)
(* the invariant                                                       *)
Definition w_holds_r (pc : wpc) :=
  match pc with WLoad | WSkipUnlock | WAdd | WRUnlock => true | _ => false end.
Definition w_adding (pc : wpc) := match pc with WAdd => true | _ => false end.
Definition c_in_once (pc : cpc) :=
  match pc with CLock | CStore | CUnlock | CChan => true | _ => false end.
Definition c_writer (pc : cpc) := match pc with CStore | CUnlock => true | _ => false end.
Definition c_after_store (pc : cpc) := match pc with CUnlock | CChan => true | _ => false end.
Definition c_past (pc : cpc) := match pc with CWait | CRet => true | _ => false end.

Definition b2n (b : bool) : nat := if b then 1 else 0.
Definition done_n (o : once_st) : nat := match o with ODone => 1 | _ => 0 end.

Definition Inv (s : st) : Prop :=
  readers s = cnt w_holds_r (workers s) /\
  wg s = (Z.of_nat (cnt w_counted (workers s)) + Z.of_nat (b2n (helper_alive s)))%Z /\
  cnt c_in_once (closers s) = (match once s with ORunning => 1 | _ => 0 end) /\
  cnt c_writer (closers s) = b2n (writer s) /\
  (if writer s then readers s = 0 else True) /\
  cnt c_after_store (closers s) + done_n (once s) = b2n (closing s) /\
  b2n (chan_closed s) = done_n (once s) /\
  (if helper_alive s then True else chan_closed s = true) /\
  (if closing s then cnt w_adding (workers s) = 0 else True) /\
  (if returned s
   then closing s = true /\ cnt w_counted (workers s) = 0 /\ helper_alive s = false
   else True) /\
  panicked s = false /\ started_after_return s = false /\
  (match once s with ODone => True | _ => cnt c_past (closers s) = 0 end).

Lemma adm_le l : cnt w_adding l <= cnt w_holds_r l.
Proof. apply cnt_le. intros []; cbn; congruence. Qed.
Lemma aft_le l : cnt c_after_store l <= cnt c_in_once l.
Proof. apply cnt_le. intros []; cbn; congruence. Qed.
Lemma wr_le l : cnt c_writer l <= cnt c_in_once l.
Proof. apply cnt_le. intros []; cbn; congruence. Qed.
Lemma run_le l : cnt w_running l <= cnt w_counted l.
Proof. apply cnt_le. intros []; cbn; congruence. Qed.

Ltac cbn_preds H :=
  cbn [w_holds_r w_counted w_adding w_running c_in_once c_writer c_after_store c_past] in H.

(* for a thread known to sit at pc y: every counter whose predicate holds of y is >= 1 *)
Ltac pos1 p l i y H :=
  let b := eval cbn in (p y) in
  match b with
  | true => pose proof (cnt_pos p l i y H eq_refl)
  | _ => idtac
  end.
Ltac pos_facts :=
  match goal with
  | H : nth_error ?l ?i = Some ?y |- _ =>
      match type of y with
      | cpc => pos1 c_in_once l i y H; pos1 c_writer l i y H;
               pos1 c_after_store l i y H; pos1 c_past l i y H
      | wpc => pos1 w_holds_r l i y H; pos1 w_counted l i y H; pos1 w_adding l i y H
      end
  | _ => idtac
  end.
Ltac upd_facts :=
  repeat match goal with
  | H : nth_error ?l ?i = Some ?y |- context [cnt ?p (upd ?l ?i ?x)] =>
      lazymatch goal with
      | _ : cnt p (upd l i x) + _ = _ |- _ => fail
      | _ => let F := fresh "F" in pose proof (cnt_upd p l i x y H) as F; cbn_preds F
      end
  end.
Ltac le_facts :=
  repeat match goal with
  | |- context [cnt w_adding ?l] =>
      lazymatch goal with
      | _ : cnt w_adding l <= cnt w_holds_r l |- _ => fail
      | _ => pose proof (adm_le l) end
  | |- context [cnt c_after_store ?l] =>
      lazymatch goal with
      | _ : cnt c_after_store l <= cnt c_in_once l |- _ => fail
      | _ => pose proof (aft_le l) end
  | |- context [cnt c_writer ?l] =>
      lazymatch goal with
      | _ : cnt c_writer l <= cnt c_in_once l |- _ => fail
      | _ => pose proof (wr_le l) end
  end.
(* destruct only flags that occur under a match / b2n / done_n *)
Ltac bools := repeat match goal with
  | H : context [match ?b with true => _ | false => _ end] |- _ => is_var b; destruct b
  | |- context [match ?b with true => _ | false => _ end] => is_var b; destruct b
  | H : context [b2n ?b] |- _ => is_var b; destruct b
  | |- context [b2n ?b] => is_var b; destruct b
  | H : context [done_n ?b] |- _ => is_var b; destruct b
  | |- context [done_n ?b] => is_var b; destruct b
  | H : context [match ?b with OIdle => _ | _ => _ end] |- _ => is_var b; destruct b
  | |- context [match ?b with OIdle => _ | _ => _ end] => is_var b; destruct b
  end.
Ltac fin :=
  bools; cbn [b2n done_n orb] in *; repeat split; intros;
  try discriminate; try congruence; try lia;
  try (intuition (try discriminate; try congruence; try lia)).

(* case analysis on the guards of an [exec ... = Some s'] hypothesis *)
Ltac split_E E :=
  repeat match type of E with
  | (if ?b then _ else _) = _ =>
      first [is_var b; destruct b | let Q := fresh "Q" in destruct b eqn:Q]
  | match ?o with OIdle => _ | _ => _ end = _ => is_var o; destruct o
  | match ?o with Some _ => _ | None => _ end = _ =>
      let Q := fresh "Q" in destruct o as [[|?]|] eqn:Q
  | None = Some _ => discriminate E
  end.

Lemma inv_exec s a s' : Inv s -> exec s a = Some s' -> Inv s'.
Proof.
  intros (Hr & Hwg & Honce & Hw & Hwr & Hcl & Hch & Hh & Hadm & Hret & Hp & Hs & Hpast) E.
  pose proof (adm_le (workers s)) as A1. pose proof (aft_le (closers s)) as A2.
  pose proof (wr_le (closers s)) as A3.
  destruct s as [cl on wr rd ch g ha pa re sa hd dr cs ws bs]; projs.
  destruct a as [i|i|]; cbn [exec] in E; projs.
  - destruct (nth_error cs i) as [pc|] eqn:N; [|discriminate E].
    destruct pc; cbn [closer_step] in E; unsetters; projs; split_E E;
      try discriminate E; injection E as <-; unfold Inv; projs.
    all: try match goal with Q : (_ =? _) = true |- _ => apply Nat.eqb_eq in Q end.
    all: try match goal with Q : (_ =? _)%Z = true |- _ => apply Z.eqb_eq in Q end.
    all: upd_facts; le_facts; pos_facts.
    all: repeat match goal with H : ?x = _ |- _ => is_var x; subst x end.
    all: solve [timeout 120 fin].
  - destruct (nth_error ws i) as [pc|] eqn:N; [|discriminate E].
    destruct pc; cbn [worker_step] in E; unsetters; projs; split_E E;
      try discriminate E; injection E as <-; unfold Inv; projs.
    all: upd_facts; le_facts; pos_facts.
    all: repeat match goal with H : ?x = _ |- _ => is_var x; subst x end.
    all: solve [timeout 120 fin].
  - unfold helper_step in E; unsetters; projs; split_E E; try discriminate E.
    injection E as <-; unfold Inv; projs.
    solve [timeout 120 fin].
Qed.

Lemma inv_init nc bs : Inv (init nc bs).
Proof.
  unfold Inv, init; projs; cbn [b2n done_n].
  rewrite !cnt_repeat_false by reflexivity. repeat split; lia.
Qed.

Lemma run_cons s a sched :
  run s (a :: sched) = run (match exec s a with Some s' => s' | None => s end) sched.
Proof. reflexivity. Qed.

Lemma inv_run sched : forall s, Inv s -> Inv (run s sched).
Proof.
  induction sched as [|a sched IH]; intros s I; [exact I|].
  rewrite run_cons. apply IH. destruct (exec s a) as [s'|] eqn:E; [|exact I].
  exact (inv_exec s a s' I E).
Qed.

Lemma inv_reach nc bs sched : Inv (run (init nc bs) sched).
Proof. apply inv_run, inv_init. Qed.

(* the relational view: [step] is "some thread takes its next atomic step" *)
Definition step (s s' : st) : Prop := exists a, exec s a = Some s'.
Inductive reach (s0 : st) : st -> Prop :=
| R0 : reach s0 s0
| RS s s' : reach s0 s -> step s s' -> reach s0 s'.

Lemma run_app s l1 l2 : run s (l1 ++ l2) = run (run s l1) l2.
Proof. unfold run. apply fold_left_app. Qed.

Lemma reach_run s0 s : reach s0 s <-> exists sched, s = run s0 sched.
Proof.
  split.
  - induction 1 as [|s s' R [sched IH] [a E]].
    + exists []. reflexivity.
    + exists (sched ++ [a]). rewrite run_app, <- IH. cbn. rewrite E. reflexivity.
  - intros [sched ->].
    assert (G : forall l s1, reach s0 s1 -> reach s0 (run s1 l)).
    { induction l as [|a l IH]; intros s1 R; [exact R|].
      rewrite run_cons. apply IH. destruct (exec s1 a) as [s'|] eqn:E; [|exact R].
      eapply RS; [exact R|]. exists a. exact E. }
    intros. apply G. constructor.
Qed.

(* ------------------------------------------------------------------ *)
(* safety consequences                                                 *)
Lemma safe_no_panic nc bs sched :
  let s := run (init nc bs) sched in panicked s = false /\ (0 <= wg s)%Z.
Proof.
  intros s. destruct (inv_reach nc bs sched) as (_&Hwg&_&_&_&_&_&_&_&_&Hp&_&_).
  fold s in Hwg, Hp. split; [exact Hp|]. rewrite Hwg. lia.
Qed.

Lemma safe_final nc bs sched :
  started_after_return (run (init nc bs) sched) = false.
Proof. destruct (inv_reach nc bs sched) as (_&_&_&_&_&_&_&_&_&_&_&Hs&_). exact Hs. Qed.

Lemma safe_waits nc bs sched :
  let s := run (init nc bs) sched in
  returned s = true -> running s = 0 /\ counted s = 0 /\ wg s = 0%Z /\ closing s = true.
Proof.
  intros s R. destruct (inv_reach nc bs sched) as (_&Hwg&_&_&_&_&_&_&_&Hret&_&_&_).
  fold s in Hwg, Hret. rewrite R in Hret. destruct Hret as (Hc & Hn & Hh).
  pose proof (run_le (workers s)) as L. unfold running, counted.
  rewrite Hwg, Hh, Hn. cbn [b2n]. repeat split; try lia. exact Hc.
Qed.

(* ------------------------------------------------------------------ *)
(* progress: a pending Close never depends on new client messages      *)
Lemma en_closer s i pc : nth_error (closers s) i = Some pc ->
  enabled s (ACloser i) = match closer_step s i pc with Some _ => true | None => false end.
Proof. intros H. unfold enabled, exec. rewrite H. reflexivity. Qed.
Lemma en_worker s i pc : nth_error (workers s) i = Some pc ->
  enabled s (AWorker i) = match worker_step s i pc with Some _ => true | None => false end.
Proof. intros H. unfold enabled, exec. rewrite H. reflexivity. Qed.

Definition good (s : st) (a : actor) : Prop := enabled s a = true /\ not_fresh_read s a = true.

Lemma good_worker s k y : nth_error (workers s) k = Some y ->
  (w_holds_r y = true \/ w_counted y = true) -> good s (AWorker k).
Proof.
  intros N Hy. split.
  - rewrite (en_worker s k y N).
    destruct y; cbn in Hy; try (destruct Hy; discriminate); cbn [worker_step]; try reflexivity.
    destruct (closing s); reflexivity.
  - unfold not_fresh_read. rewrite N.
    destruct y; cbn in Hy; try (destruct Hy; discriminate); reflexivity.
Qed.

Lemma progress_once s j pc : Inv s -> nth_error (closers s) j = Some pc ->
  c_in_once pc = true -> exists a, good s a.
Proof.
  intros (Hr & Hwg & Honce & Hw & Hwr & Hcl & Hch & Hh & Hadm & Hret & Hp & Hs & Hpast) N C.
  assert (Always : (closer_step s j pc <> None) -> exists a, good s a).
  { intros G. exists (ACloser j). split; [|reflexivity].
    rewrite (en_closer s j pc N). destruct (closer_step s j pc); [reflexivity|congruence]. }
  destruct pc; try discriminate C; try (apply Always; cbn [closer_step]; discriminate).
  (* CLock *)
  destruct (writer s) eqn:W.
  - cbn [b2n] in Hw. destruct (cnt_ex c_writer (closers s)) as (k & y & Nk & Hy); [lia|].
    exists (ACloser k). split; [|reflexivity]. rewrite (en_closer s k y Nk).
    destruct y; try discriminate Hy; reflexivity.
  - destruct (readers s) as [|n] eqn:R.
    + apply Always. cbn [closer_step]. rewrite W, R. cbn. discriminate.
    + destruct (cnt_ex w_holds_r (workers s)) as (k & y & Nk & Hy); [lia|].
      exists (AWorker k). apply (good_worker s k y Nk). left; exact Hy.
Qed.

Lemma progress s i pc : Inv s -> nth_error (closers s) i = Some pc -> pc <> CRet ->
  exists a, good s a.
Proof.
  intros I N NR.
  pose proof I as (Hr & Hwg & Honce & Hw & Hwr & Hcl & Hch & Hh & Hadm & Hret & Hp & Hs & Hpast).
  destruct pc; try (apply (progress_once s i _ I N); reflexivity); [| |congruence].
  - (* CEnter *)
    destruct (once s) eqn:O.
    + exists (ACloser i). split; [|reflexivity]. rewrite (en_closer s i _ N).
      cbn [closer_step]. rewrite O. reflexivity.
    + destruct (cnt_ex c_in_once (closers s)) as (k & y & Nk & Hy); [lia|].
      exact (progress_once s k y I Nk Hy).
    + exists (ACloser i). split; [|reflexivity]. rewrite (en_closer s i _ N).
      cbn [closer_step]. rewrite O. reflexivity.
  - (* CWait *)
    pose proof (cnt_pos c_past _ _ _ N eq_refl) as P.
    destruct (once s) eqn:O; try lia. cbn [done_n] in Hch.
    destruct (chan_closed s) eqn:Ch; [|discriminate Hch].
    destruct (helper_alive s) eqn:Ha.
    + exists AHelper. split; [|reflexivity]. unfold enabled, exec, helper_step.
      rewrite Ha, Ch. reflexivity.
    + cbn [b2n] in Hwg. destruct (wg s =? 0)%Z eqn:G.
      * exists (ACloser i). split; [|reflexivity]. rewrite (en_closer s i _ N).
        cbn [closer_step]. rewrite G. reflexivity.
      * apply Z.eqb_neq in G.
        destruct (cnt_ex w_counted (workers s)) as (k & y & Nk & Hy); [lia|].
        exists (AWorker k). apply (good_worker s k y Nk). right; exact Hy.
Qed.

Lemma not_stuck nc bs sched i pc :
  let s := run (init nc bs) sched in
  nth_error (closers s) i = Some pc -> pc <> CRet ->
  exists a, enabled s a = true /\ not_fresh_read s a = true.
Proof. intros s N NR. exact (progress s i pc (inv_reach nc bs sched) N NR). Qed.

(* ------------------------------------------------------------------ *)
(* termination measure                                                 *)
Lemma sum_upd {A} (f : A -> nat) l i x y : nth_error l i = Some y ->
  sum f (upd l i x) + f y = sum f l + f x.
Proof.
  revert i. induction l as [|a l IH]; intros [|i] H; simpl in H; try discriminate.
  - injection H as ->. cbn [upd sum fold_right]. lia.
  - specialize (IH i H). unfold sum in *. cbn [upd fold_right]. lia.
Qed.

Lemma mu_step s a s' : exec s a = Some s' ->
  (not_fresh_read s a = true -> mu s' < mu s) /\ mu_total s' < mu_total s.
Proof.
  intros E.
  destruct s as [cl on wr rd ch g ha pa re sa hd dr cs ws bs]; projs.
  destruct a as [i|i|]; cbn [exec not_fresh_read] in *; projs.
  - destruct (nth_error cs i) as [pc|] eqn:N; [|discriminate E].
    destruct pc; cbn [closer_step] in E; unsetters; projs; split_E E;
      try discriminate E; injection E as <-; unfold mu_total, mu; projs.
    all: match goal with N : nth_error ?l ?j = Some _ |- context [sum c_rank (upd ?l ?j ?x)] =>
           pose proof (sum_upd c_rank l j x _ N) as F; cbn [c_rank] in F end.
    all: split; [intros _; lia|lia].
  - destruct (nth_error ws i) as [pc|] eqn:N; [|discriminate E].
    destruct pc; cbn [worker_step] in E; unsetters; projs; split_E E;
      try discriminate E; injection E as <-; unfold mu_total, mu; projs.
    all: match goal with N : nth_error ?l ?j = Some _ |- context [sum w_rank (upd ?l ?j ?x)] =>
           pose proof (sum_upd w_rank l j x _ N) as F; cbn [w_rank] in F end.
    all: try match goal with Q : nth_error ?l ?j = Some (S ?n) |- context [sum ?f (upd ?l ?j ?n)] =>
           pose proof (sum_upd f l j n _ Q) as F'; cbn beta in F' end.
    all: split; [intros NF; try discriminate NF; lia|lia].
  - unfold helper_step in E; unsetters; projs; split_E E; try discriminate E.
    injection E as <-; unfold mu_total, mu; projs. split; [intros _; lia|lia].
Qed.

Lemma mu_decreases s a s' :
  exec s a = Some s' -> not_fresh_read s a = true -> mu s' < mu s.
Proof. intros E NF. exact (proj1 (mu_step s a s' E) NF). Qed.

Lemma mu_total_decreases s a s' : exec s a = Some s' -> mu_total s' < mu_total s.
Proof. intros E. exact (proj2 (mu_step s a s' E)). Qed.

(* a run that reads no new client message has at most [mu s] steps *)
Lemma nonread_bound sched : forall s,
  nonread_sched s sched = true -> length sched + mu (run s sched) <= mu s.
Proof.
  induction sched as [|a sched IH]; intros s G; [cbn; lia|].
  cbn [nonread_sched] in G. rewrite run_cons.
  destruct (exec s a) as [s'|] eqn:E; [|discriminate G].
  apply andb_true_iff in G. destruct G as [NF G].
  specialize (IH s' G). pose proof (mu_decreases s a s' E NF). cbn [length]. lia.
Qed.

Lemma pending_zero s :
  pending s = 0 -> forall i pc, nth_error (closers s) i = Some pc -> pc = CRet.
Proof.
  intros P i pc N. destruct pc; try reflexivity;
    pose proof (cnt_pos c_pending _ _ _ N eq_refl) as Q; unfold pending in P; lia.
Qed.

(* from every state satisfying the invariant, all pending Close calls can be
   brought to return by a schedule that reads no new client message *)
Lemma can_return n : forall s, Inv s -> mu s < n ->
  exists sched, nonread_sched s sched = true /\ pending (run s sched) = 0.
Proof.
  induction n as [|n IH]; intros s I M; [lia|].
  destruct (pending s) as [|p] eqn:P.
  - exists []. split; [reflexivity|exact P].
  - destruct (cnt_ex c_pending (closers s)) as (i & pc & N & Hpc); [unfold pending in P; lia|].
    assert (NR : pc <> CRet) by (intros ->; discriminate Hpc).
    destruct (progress s i pc I N NR) as (a & En & NF).
    unfold enabled in En. destruct (exec s a) as [s'|] eqn:E; [|discriminate En].
    pose proof (mu_decreases s a s' E NF) as D.
    destruct (IH s' (inv_exec s a s' I E)) as (sched & G & Z); [lia|].
    exists (a :: sched). cbn [nonread_sched]. rewrite run_cons, E, NF, G.
    split; [reflexivity|exact Z].
Qed.
