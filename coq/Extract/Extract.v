(* Extraction of the executable model, the specifications and the oracles.
   ExtrOcamlBasic only: bool, option, unit, list, prod, sumbool, sumor are
   mapped to OCaml's; N, Z, positive, nat, byte stay Coq inductives. *)
From Coq Require Import extraction.ExtrOcamlBasic.
Require Import Wire.Bytes Wire.Params Spec.ParamsSpec Spec.OracleC20.

Definition all_bytes : list byte := map byte_of_N (map N.of_nat (seq 0 256)).

Extraction "model.ml"
  all_bytes byte_of_N bN
  parse_parameters_len oracle_C20.
