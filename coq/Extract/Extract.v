(* Extraction of the executable model, the specifications and the oracles.
   ExtrOcamlBasic only: bool, option, unit, list, prod, sumbool, sumor are
   mapped to OCaml's; N, Z, positive, nat, byte stay Coq inductives. *)
From Coq Require Import extraction.ExtrOcamlBasic.
Require Import Wire.Bytes Wire.Params Spec.ParamsSpec Spec.OracleC20 Spec.ErrorFields Spec.OracleC17.
Require Import Wire.WriterModel Wire.ReaderModel Wire.ReaderExec Wire.Copy.
Require Import Spec.BackendSpec Wire.Errors Spec.ErrorSpec Wire.Framing Wire.Session Wire.Codec Wire.Case Spec.Projection Spec.Oracles.

Definition all_bytes : list byte := map byte_of_N (map N.of_nat (seq 0 256)).

Extraction "model.ml"
  all_bytes byte_of_N bN itoa
  parse_parameters_len oracle_C20 oracle_C20_alloc
  parse_bmsg parse_stream enc_bmsg enc_stream wf_msg
  err_text get_code get_severity default_severity err_fields any_text flatten
  e_unimplemented oracle_C17 model_errorcode spec_fields
  decode_all eff_limit wrun xrun x_init frames serve encode_value oracle_C09 decode_value dval_of_value oracle_names names_verdict oracle_C13 oracle_C13_turns oracle_C13_strict oracle_early_end oracle_early_scan oracle_parse_budget query_of oracle_data_budget plain_frame syncs readies oracle_C19 oracle_turns oracle_C05 oracle_C01 oracle_C12 oracle_C10 startup_served turn_verdict
  run_case log_digest log_match strip_consume.

(* the shutdown protocol model: a separate OCaml module *)
Require Wire.CloseModel.
Extraction "closemodel.ml" CloseModel.exec CloseModel.enabled CloseModel.init CloseModel.exec_pinned CloseModel.init_pinned.
