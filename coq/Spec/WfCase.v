(* WfCase.v — well-formedness of a scripted case is decidable, implies [wf_cfg] of its
   configuration (with the concrete value encoder of Wire/Codec.v), hence every message of
   its model run is well formed and the bytes sent parse back to exactly those messages. *)
Require Import Wire.Bytes Wire.BytesFacts Spec.BackendSpec Spec.BackendSpecFacts Wire.Errors Wire.Framing Wire.Session
  Wire.SessionFacts Wire.CommandFacts Wire.RobustFacts Wire.Codec Wire.Case Spec.WfFacts.
From Coq Require Import String.
Local Open Scope string_scope.
Local Open Scope list_scope.
Local Open Scope Z_scope.

(* ---------- sizes of the concrete encodings ---------- *)
Lemma dec_digits_len : forall fuel n acc, (List.length (dec_digits_pos fuel n acc) <= fuel + List.length acc)%nat.
Proof.
  induction fuel as [|f IH]; intros n acc; cbn [dec_digits_pos]; [lia|].
  destruct (n <? 10)%N; [cbn [List.length]; lia|]. specialize (IH (n / 10)%N (byte_of_N (48 + n mod 10) :: acc)). cbn [List.length] in IH. lia.
Qed.
Lemma itoa_len z : lenZ (itoa z) <= 41.
Proof.
  unfold itoa, lenZ. destruct (z <? 0); [cbn [List.length]|];
    match goal with |- context [dec_digits_pos 40 ?n []] => pose proof (dec_digits_len 40 n []) as H end; cbn [List.length] in H; lia.
Qed.
Lemma be32_len z : lenZ (be32 z) = 4.
Proof. reflexivity. Qed.
Lemma be16_len z : lenZ (be16 z) = 2.
Proof. reflexivity. Qed.
Lemma be64_len z : lenZ (be64 z) = 8.
Proof. unfold be64, lenZ. rewrite app_length. reflexivity. Qed.
Lemma hex_len b : List.length (hex_of_bytes b) = (2 * List.length b)%nat.
Proof. unfold hex_of_bytes. induction b as [|x r IH]; [reflexivity|]. cbn [flat_map app List.length]. rewrite IH. lia. Qed.
Lemma uuid_text_len b : (List.length (uuid_text b) <= 2 * List.length b + 24)%nat.
Proof.
  unfold uuid_text. rewrite !app_length. cbn [List.length].
  pose proof (hex_len b) as Hh. set (h := hex_of_bytes b) in *.
  pose proof (firstn_le_length 8 h). pose proof (firstn_le_length 4 (skipn 8 h)).
  pose proof (firstn_le_length 4 (skipn 12 h)). pose proof (firstn_le_length 4 (skipn 16 h)).
  assert (List.length (skipn 20 h) <= List.length h)%nat by (rewrite skipn_length; lia).
  lia.
Qed.

Lemma encode_value_small oid f v b :
  value_small v = true -> encode_value oid f v = EncBytes b -> lenZ b <? 2147483648 = true.
Proof.
  intros Hv H. apply Z.ltb_lt. unfold encode_value in H.
  assert (I : forall z b0, enc_int oid f z = EncBytes b0 -> lenZ b0 <= 41).
  { intros z b0 E. unfold enc_int in E. pose proof (itoa_len z).
    destruct (oid =? oid_int2); [destruct (in_range 16 z); [|discriminate]; injection E as <-; destruct (f =? 0); [lia|rewrite be16_len; lia]|].
    destruct (oid =? oid_int4); [destruct (in_range 32 z); [|discriminate]; injection E as <-; destruct (f =? 0); [lia|rewrite be32_len; lia]|].
    destruct (oid =? oid_int8); [destruct (in_range 64 z); [|discriminate]; injection E as <-; destruct (f =? 0); [lia|rewrite be64_len; lia]|discriminate]. }
  destruct v; try discriminate; destruct (negb ((f =? 0) || (f =? 1))); try discriminate; cbn [value_small] in Hv; try apply Z.ltb_lt in Hv.
  - destruct (f =? 0); [injection H as <-; lia|]. destruct ((oid =? oid_text) || (oid =? oid_varchar)); [injection H as <-; lia|discriminate].
  - apply I in H. lia.
  - apply I in H. lia.
  - apply I in H. lia.
  - destruct (oid =? oid_bool); [|discriminate]. injection H as <-. destruct (f =? 0); destruct b0; cbn; lia.
  - destruct (oid =? oid_bytea); [|discriminate]. injection H as <-. destruct (f =? 0); [|lia].
    unfold lenZ in *. cbn [List.length]. rewrite hex_len. lia.
  - destruct ((oid =? oid_uuid) && (lenZ b0 =? 16)); [|discriminate]. injection H as <-. destruct (f =? 0); [|lia].
    unfold lenZ in *. pose proof (uuid_text_len b0). lia.
  - destruct ((oid =? oid_float4) && (f =? 1)); [|discriminate]. injection H as <-. rewrite be32_len. lia.
  - destruct ((oid =? oid_float8) && (f =? 1)); [|discriminate]. injection H as <-. rewrite be64_len. lia.
Qed.

(* ---------- a decidable well-formedness check for scripted cases ---------- *)
Definition wf_case (sc : scase) : bool :=
  forallb (fun e => match snd e with POk ss => forallb wf_stmt ss | PErr e0 => wf_err e0 end) (sc_parse sc) &&
  forallb (fun kv => nul_free (fst kv) && nul_free (snd kv)) (sc_params sc) &&
  nul_free (sc_version sc).

Lemma wf_case_cfg sc : wf_case sc = true -> wf_cfg (cfg_of_case sc).
Proof.
  unfold wf_case. intros H. apply andb_prop in H as [H H3]. apply andb_prop in H as [H1 H2].
  assert (L : forall q, match lookup_parse (sc_parse sc) q with POk ss => forallb wf_stmt ss = true | PErr e => wf_err e = true end).
  { intros q. unfold lookup_parse. induction (sc_parse sc) as [|[k r] l IH]; cbn [alist_get]; [reflexivity|].
    cbn [forallb snd] in H1. apply andb_prop in H1 as [A B]. destruct (bytes_eqb q k); [destruct r; exact A|apply IH; exact B]. }
  constructor; cbn [cfg_of_case cfg_parse cfg_params cfg_version cfg_encode].
  - intros q ss E. specialize (L q). rewrite E in L. exact L.
  - intros q e E. specialize (L q). rewrite E in L. exact L.
  - exact H2.
  - exact H3.
  - intros oid f v b. apply encode_value_small.
Qed.

(* every message of the run of a well-formed case is well formed ... *)
Theorem case_outs_wf sc : wf_case sc = true -> forallb wf_bmsg (outs (run_case sc)) = true.
Proof. intros H. apply (serve_wf (cfg_of_case sc) (sc_raw sc) (sc_tlsin sc) (wf_case_cfg sc H)). Qed.

(* ... hence, whenever they also fit the 32-bit length field, the byte stream the server sends
   parses under the strict grammar to exactly the messages it meant to send *)
Theorem case_stream_parses sc :
  wf_case sc = true -> forallb wf_size (outs (run_case sc)) = true ->
  parse_stream (enc_stream (outs (run_case sc))) = Some (outs (run_case sc)).
Proof.
  intros H S. apply parse_enc_stream. pose proof (case_outs_wf sc H) as W.
  induction (outs (run_case sc)) as [|m r IH]; [reflexivity|]. cbn [forallb] in *.
  apply andb_prop in W as [W1 W2]. apply andb_prop in S as [S1 S2]. unfold wf_msg at 1. rewrite W1, S1. cbn [andb]. apply IH; assumption.
Qed.
