(* KindFacts.v — which events the command loop can produce at all: no authentication
   message, no ParameterStatus, no validator/middleware callback, no raw byte, no crash
   (for an encoder that does not panic in text format), and the log ends with Closed. *)
Require Import Wire.Bytes Spec.BackendSpec Wire.Errors Wire.Framing Wire.Session
  Wire.SessionFacts Wire.CommandFacts Wire.RobustFacts.
Local Open Scope list_scope.
Local Open Scope Z_scope.

Definition sess_ev (e : ev) : bool :=
  match e with
  | Out (BAuth _) | Out (BParamStatus _ _) => false
  | Out _ | Consume | CbParse _ | CbExec _ _ | CbOp _ => true
  | _ => false
  end.
Definition sess_evs (l : list ev) : bool := forallb sess_ev l.

Lemma sess_evs_app a b : sess_evs (a ++ b) = sess_evs a && sess_evs b.
Proof. apply forallb_app. Qed.

Lemma copy_read_kind L : forall fs tl evs r rest, copy_read L fs tl = (evs, r, rest) -> sess_evs evs = true.
Proof.
  induction fs as [|f fr IH]; intros tl evs r rest H; cbn [copy_read] in H.
  - injection H as <- <- <-. reflexivity.
  - destruct f as [t body|t size [x|]|t size|]; try (injection H as <- <- <-; reflexivity).
    destruct (Byte.eqb t x48 || Byte.eqb t x53).
    + destruct (copy_read L fr tl) as [[evs0 r0] rest0] eqn:E. injection H as <- <- <-. cbn. eapply IH; eauto.
    + destruct (Byte.eqb t x64); [injection H as <- <- <-; reflexivity|].
      destruct (Byte.eqb t x63); [injection H as <- <- <-; reflexivity|].
      destruct (Byte.eqb t x66); [destruct (take_cstr body) as [[d x]|]|]; injection H as <- <- <-; reflexivity.
Qed.

Lemma run_op_kind c cols fmts o w fs tl evs w' fs' st :
  run_op c cols fmts o w fs tl = (evs, w', fs', st) -> sess_evs evs = true.
Proof.
  destruct o as [vs| | |tag|f|]; cbn [run_op]; intros H.
  - destruct (w_closed w); [injection H as <- <- <- <-; reflexivity|].
    destruct (write_row (cfg_encode c) cols fmts vs); injection H as <- <- <- <-; reflexivity.
  - injection H as <- <- <- <-. reflexivity.
  - destruct (w_closed w); [|destruct (negb (w_written w =? 0))]; injection H as <- <- <- <-; reflexivity.
  - destruct (w_closed w); injection H as <- <- <- <-; reflexivity.
  - destruct (w_closed w); [|destruct cols]; injection H as <- <- <- <-; reflexivity.
  - destruct (negb (w_copy w)); [injection H as <- <- <- <-; reflexivity|].
    destruct (copy_read (cfg_limit c) fs tl) as [[evs0 r] rest] eqn:E.
    pose proof (copy_read_kind _ _ _ _ _ _ E) as K.
    destruct r; injection H as <- <- <- <-; rewrite sess_evs_app, K; reflexivity.
Qed.

Lemma run_ops_kind c cols fmts stop : forall ops w fs tl evs w' fs' res,
  run_ops c cols fmts stop ops w fs tl = (evs, w', fs', res) -> sess_evs evs = true.
Proof.
  induction ops as [|o r IH]; intros w fs tl evs w' fs' res H; cbn [run_ops] in H.
  - injection H as <- <- <- <-. reflexivity.
  - destruct (run_op c cols fmts o w fs tl) as [[[evs1 w1] fs1] st] eqn:E1.
    pose proof (run_op_kind _ _ _ _ _ _ _ _ _ _ _ E1) as K1.
    destruct st.
    + destruct (run_ops c cols fmts stop r w1 fs1 tl) as [[[evs2 w2] fs2] res2] eqn:E2.
      injection H as <- <- <- <-. rewrite sess_evs_app, K1. eapply IH; eauto.
    + destruct stop.
      * injection H as <- <- <- <-. exact K1.
      * destruct (run_ops c cols fmts false r w1 fs1 tl) as [[[evs2 w2] fs2] res2] eqn:E2.
        injection H as <- <- <- <-. rewrite sess_evs_app, K1. eapply IH; eauto.
    + injection H as <- <- <- <-. exact K1.
Qed.

Lemma run_stmt_kind c s fmts params fs tl evs fs' res :
  run_stmt c s fmts params fs tl = (evs, fs', res) -> sess_evs evs = true.
Proof.
  unfold run_stmt. intros H.
  destruct (run_ops c (s_cols s) fmts (s_stop s) (s_prog s) w_init fs tl) as [[[evs0 w] fs0] r0] eqn:E.
  injection H as <- <- <-. cbn. eapply run_ops_kind; eauto.
Qed.

Lemma define_kind cols fmts : sess_evs (define_evs cols fmts) = true.
Proof. destruct cols; reflexivity. Qed.

Lemma run_stmts_kind c : forall ss fs tl evs fs' crashed,
  run_stmts c ss fs tl = (evs, fs', crashed) -> crashed = false -> sess_evs evs = true.
Proof.
  induction ss as [|s r IH]; intros fs tl evs fs' crashed H Hc; cbn [run_stmts] in H.
  - injection H as <- <- <-. reflexivity.
  - destruct (run_stmt c s [] [] fs tl) as [[evs1 fs1] res] eqn:E1.
    pose proof (run_stmt_kind _ _ _ _ _ _ _ _ _ E1) as K1.
    destruct res.
    + destruct (run_stmts c r fs1 tl) as [[evs2 fs2] cr] eqn:E2.
      injection H as <- <- <-. rewrite !sess_evs_app, define_kind, K1. eapply IH; eauto.
    + injection H as <- <- <-. rewrite !sess_evs_app, define_kind, K1. reflexivity.
    + injection H as <- <- <-. discriminate.
Qed.

Lemma cmd_kind c st f rest tl evs st' fs' k :
  text_safe c -> cmd c st f rest tl = (evs, st', fs', k) ->
  sess_evs evs = true \/ (evs = [CbTerminate] /\ k = Stop /\ cfg_term c <> None).
Proof.
  intros Hts H. destruct f as [t body|t size [x|]|t size|]; cbn [cmd] in H; [|left|left|left|left].
  - destruct (Byte.eqb t x58) eqn:T58.
    { apply Byte.byte_dec_bl in T58. subst t. cbn in H. rewrite !andb_false_r in H.
      destruct (cfg_term c) eqn:Et; injection H as <- <- <- <-; [right|left; reflexivity].
      split; [reflexivity|]. split; [reflexivity|]. discriminate. }
    left.
    match type of H with (if ?b then _ else _) = _ => destruct b end; [injection H as <- <- <- <-; reflexivity|].
    destruct (Byte.eqb t x51).
    { destruct (simple_query c body rest tl) as [[evs0 fs0] k0] eqn:Q. injection H as <- <- <- <-.
      unfold simple_query in Q. destruct (take_cstr body) as [[q r0]|]; [|injection Q as <- <- <-; reflexivity].
      destruct (is_blank q); [injection Q as <- <- <-; reflexivity|].
      destruct (cfg_parse c q) as [e|[|s1 r]]; try (injection Q as <- <- <-; reflexivity).
      destruct (run_stmts c (s1 :: r) rest tl) as [[evs1 fs1] cr] eqn:E.
      pose proof (run_stmts_no_crash _ _ _ _ _ _ _ Hts E) as Hcr.
      injection Q as <- <- <-. cbn. eapply run_stmts_kind; eauto. }
    destruct (Byte.eqb t x45).
    { unfold do_execute in H. destruct (take_cstr body) as [[name l1]|]; [|injection H as <- <- <- <-; reflexivity].
      destruct (p_u32 l1) as [pu|]; [|injection H as <- <- <- <-; reflexivity].
      destruct (alist_get name (st_portals st)) as [p|]; [|injection H as <- <- <- <-; reflexivity].
      destruct (run_stmt c (p_stmt p) (p_rfmts p) (p_params p) rest tl) as [[evs1 fs1] res] eqn:E.
      pose proof (run_stmt_kind _ _ _ _ _ _ _ _ _ E) as K.
      destruct res; injection H as <- <- <- <-; rewrite ?sess_evs_app, K; reflexivity. }
    destruct (Byte.eqb t x50).
    { destruct (do_parse c st body) as [[evs0 st0] k0] eqn:Q. injection H as <- <- <- <-.
      unfold do_parse in Q. destruct (take_cstr body) as [[name l1]|]; [|injection Q as <- <- <-; reflexivity].
      destruct (take_cstr l1) as [[q l2]|]; [|injection Q as <- <- <-; reflexivity].
      destruct (p_u16 l2) as [pu|]; [|injection Q as <- <- <-; reflexivity].
      destruct (cfg_parse c q) as [e|[|s1 [|s2 r]]]; injection Q as <- <- <-; reflexivity. }
    destruct (Byte.eqb t x44).
    { destruct (do_describe st body) as [[evs0 st0] k0] eqn:Q. injection H as <- <- <- <-.
      unfold do_describe in Q. destruct body as [|kd l1]; [injection Q as <- <- <-; reflexivity|].
      destruct (take_cstr l1) as [[name l2]|]; [|injection Q as <- <- <-; reflexivity].
      destruct (Byte.eqb kd x53).
      - destruct (alist_get name (st_stmts st)) as [s0|]; injection Q as <- <- <-; [|reflexivity].
        unfold describe_cols. destruct (s_cols s0); reflexivity.
      - destruct (Byte.eqb kd x50); [|injection Q as <- <- <-; reflexivity].
        destruct (alist_get name (st_portals st)) as [p|]; injection Q as <- <- <-; [|reflexivity].
        unfold describe_cols. destruct (s_cols (p_stmt p)); reflexivity. }
    destruct (Byte.eqb t x53); [injection H as <- <- <- <-; reflexivity|].
    destruct (Byte.eqb t x42).
    { destruct (do_bind st body) as [[evs0 st0] k0] eqn:Q. injection H as <- <- <- <-.
      unfold do_bind in Q. destruct (decode_bind body) as [b|]; [|injection Q as <- <- <-; reflexivity].
      destruct (alist_get (b_stmt b) (st_stmts st)); injection Q as <- <- <-; reflexivity. }
    destruct (Byte.eqb t x48); [injection H as <- <- <- <-; reflexivity|].
    destruct (Byte.eqb t x64 || Byte.eqb t x63 || Byte.eqb t x66); [injection H as <- <- <- <-; reflexivity|].
    destruct (Byte.eqb t x43).
    { destruct (do_close st body) as [[evs0 st0] k0] eqn:Q. injection H as <- <- <- <-.
      unfold do_close in Q. destruct body as [|kd l1]; [injection Q as <- <- <-; reflexivity|].
      destruct (take_cstr l1) as [[name l2]|]; [|injection Q as <- <- <-; reflexivity].
      destruct (Byte.eqb kd x53); [|destruct (Byte.eqb kd x50)]; injection Q as <- <- <-; reflexivity. }
    injection H as <- <- <- <-. reflexivity.
  - injection H as <- <- <- <-. reflexivity.
  - destruct (do_oversize c st t size) as [evs0 st0] eqn:Q. injection H as <- <- <- <-.
    unfold do_oversize in Q. destruct (st_discard st && negb (Byte.eqb t x53)); [injection Q as <- <-; reflexivity|].
    destruct (is_ext t); [injection Q as <- <-; reflexivity|]. destruct (Byte.eqb t x53); injection Q as <- <-; reflexivity.
  - destruct (do_oversize c st t size) as [evs0 st0] eqn:Q. injection H as <- <- <- <-.
    unfold do_oversize in Q. destruct (st_discard st && negb (Byte.eqb t x53)); [injection Q as <- <-; reflexivity|].
    destruct (is_ext t); [injection Q as <- <-; reflexivity|]. destruct (Byte.eqb t x53); injection Q as <- <-; reflexivity.
  - injection H as <- <- <- <-. reflexivity.
Qed.

(* the log of the command loop: session events only, then — at most once, and only with a
   terminate hook configured — the hook, then the end of the connection *)
Theorem loop_kind c tl : text_safe c -> forall fuel st fs,
  (List.length fs < fuel)%nat ->
  exists body, sess_evs body = true /\
    (loop fuel c st fs tl = body ++ [Closed] \/
     (loop fuel c st fs tl = body ++ [CbTerminate; Closed] /\ cfg_term c <> None)).
Proof.
  intros Hts. induction fuel as [|fuel IH]; intros st fs Hl; [lia|].
  destruct fs as [|f rest]; [exists []; split; [reflexivity|left; reflexivity]|].
  cbn [loop]. destruct (cmd c st f rest tl) as [[[evs st'] fs'] k] eqn:E.
  pose proof (cmd_consumes _ _ _ _ _ _ _ _ _ E) as Hc.
  destruct (cmd_kind _ _ _ _ _ _ _ _ _ Hts E) as [K|(-> & -> & T)].
  - destruct k.
    + destruct (IH st' fs') as (body & B2 & B1); [cbn [List.length] in Hl; lia|].
      exists (Consume :: evs ++ body).
      split; [cbn [sess_evs forallb sess_ev]; fold (sess_evs (evs ++ body)); rewrite sess_evs_app, K, B2; reflexivity|].
      destruct B1 as [B1|[B1 T]]; rewrite B1; [left|right; split; [|exact T]]; cbn [app]; rewrite app_assoc; reflexivity.
    + exists (Consume :: evs). split; [cbn [sess_evs forallb sess_ev]; exact K|]. left. reflexivity.
  - exists [Consume]. split; [reflexivity|]. right. split; [reflexivity|exact T].
Qed.
