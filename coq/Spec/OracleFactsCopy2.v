(* OracleFactsCopy2.v — the model satisfies the second COPY scan [oracle_C13_strict]:
   (A) the first result a handler sees in the turn of a message other than CopyDone/Flush/Sync is
       never end-of-stream; (B) after a CopyInResponse, until the server writes again, the turn of a
       message exceeding the size limit is never silent; (C) between the start of a statement function
       and any result it sees no message other than Flush/Sync passed silently.
       For every configuration and frame list. *)
Require Import Wire.Bytes Spec.BackendSpec Spec.BackendSpecFacts Wire.Errors Wire.Framing Wire.Session
  Wire.SessionFacts Wire.CommandFacts Wire.RobustFacts Wire.Case Spec.KindFacts Spec.Oracles Spec.OracleFacts
  Spec.OracleFactsLife Spec.OracleFactsCopy.
From Coq Require Import String.
Local Open Scope string_scope.
Local Open Scope list_scope.
Local Open Scope Z_scope.

Definition nrun (m : cmon2) (evs : list ev) : cmon2 := fold_left mon2_step evs m.
Lemma nrun_app m a b : nrun m (a ++ b) = nrun (nrun m a) b.
Proof. apply fold_left_app. Qed.

Definition doomed (m : cmon2) : bool := n_live m && n_copy m && n_silent m && is_over (n_cur m).
Definition good (m : cmon2) : Prop := n_ok m = true /\ doomed m = false.
Definition relaxed (m : cmon2) : Prop := n_live m = false \/ n_op m = true \/ eof_exempt (n_cur m) = true.
Definition naligned (m : cmon2) (fs : list frame) : Prop := n_rem m = fs \/ fs = [].
(* the current turn is not a silent one (or is the turn of a Flush / Sync, which may be) *)
Definition spoke (m : cmon2) : Prop := n_live m = false \/ n_silent m = false \/ hs_frame (n_cur m) = true.
Definition is_exec (e : ev) : bool := match e with CbExec _ _ => true | _ => false end.

(* ---------- event lists without Consume markers and handler results ---------- *)
Definition no_cc (e : ev) : bool := match e with Consume | CbOp _ => false | _ => true end.
Definition is_out (e : ev) : bool := match e with Out _ => true | _ => false end.
Definition last_copyin (evs : list ev) (d : bool) : bool :=
  fold_left (fun acc e => match e with Out (BCopyIn _ _) => true | Out _ => false | _ => acc end) evs d.

Lemma plain_run : forall evs m, forallb no_cc evs = true -> n_ok m = true ->
  n_ok (nrun m evs) = true /\ n_rem (nrun m evs) = n_rem m /\ n_cur (nrun m evs) = n_cur m /\
  n_live (nrun m evs) = n_live m /\ n_op (nrun m evs) = n_op m /\
  n_copy (nrun m evs) = last_copyin evs (n_copy m) /\
  n_silent (nrun m evs) = n_silent m && negb (existsb is_out evs) /\
  n_gap (nrun m evs) = n_gap m && negb (existsb is_exec evs).
Proof.
  induction evs as [|e r IH]; intros m P A.
  - cbn. rewrite !andb_true_r. auto 10.
  - cbn [forallb] in P. apply andb_prop in P as [P1 P2].
    cbn [nrun fold_left]. fold (nrun (mon2_step m e) r).
    assert (S : n_ok (mon2_step m e) = true /\ n_rem (mon2_step m e) = n_rem m /\ n_cur (mon2_step m e) = n_cur m /\
                n_live (mon2_step m e) = n_live m /\ n_op (mon2_step m e) = n_op m /\
                n_copy (mon2_step m e) = (match e with Out (BCopyIn _ _) => true | Out _ => false | _ => n_copy m end) /\
                n_silent (mon2_step m e) = n_silent m && negb (is_out e) /\
                n_gap (mon2_step m e) = n_gap m && negb (is_exec e)).
    { unfold mon2_step. rewrite A. cbn [negb]. destruct e; try discriminate; cbn; rewrite ?andb_true_r, ?andb_false_r; auto 12. }
    destruct S as (S1 & S2 & S3 & S4 & S5 & S6 & S7 & S8).
    destruct (IH (mon2_step m e) P2 S1) as (I1 & I2 & I3 & I4 & I5 & I6 & I7 & I8).
    rewrite I2, I3, I4, I5, I6, I7, I8, S2, S3, S4, S5, S6, S7, S8. cbn [existsb last_copyin fold_left].
    rewrite !negb_orb, !andb_assoc. auto 12.
Qed.

Lemma last_copyin_silent : forall evs d, existsb is_out evs = false -> last_copyin evs d = d.
Proof.
  induction evs as [|e r IH]; intros d H; [reflexivity|]. cbn [existsb] in H. apply orb_false_elim in H as [H1 H2].
  unfold last_copyin. cbn [fold_left]. fold (last_copyin r). destruct e; try discriminate; apply IH; exact H2.
Qed.

Lemma plain_good evs m : forallb no_cc evs = true -> good m ->
  good (nrun m evs) /\ n_rem (nrun m evs) = n_rem m /\ (relaxed m -> relaxed (nrun m evs)) /\
  (spoke m -> spoke (nrun m evs)) /\ (n_gap m = false -> n_gap (nrun m evs) = false).
Proof.
  intros P (A & D). destruct (plain_run evs m P A) as (I1 & I2 & I3 & I4 & I5 & I6 & I7 & I8).
  split; [split; [exact I1|]|split; [exact I2|split; [|split]]].
  - unfold doomed in *. rewrite I3, I4, I6, I7. destruct (existsb is_out evs) eqn:O.
    + cbn. rewrite !andb_false_r. reflexivity.
    + rewrite (last_copyin_silent evs _ O). cbn. rewrite andb_true_r. exact D.
  - unfold relaxed. rewrite I3, I4, I5. auto.
  - unfold spoke. rewrite I3, I4, I7. intros [H|[H|H]]; [left; exact H|right; left; rewrite H; reflexivity|right; right; exact H].
  - intros G. rewrite I8, G. reflexivity.
Qed.

(* the handler-level invariant: not failed, not doomed, no silent message passed since the statement function
   started, and the current turn is not a silent one *)
Definition hgood (m : cmon2) : Prop := good m /\ n_gap m = false.

Lemma op_step0 m r : n_ok m = true -> n_gap m = false -> (relaxed m \/ r <> OEof) ->
  hgood (mon2_step m (CbOp r)) /\ n_rem (mon2_step m (CbOp r)) = n_rem m /\ relaxed (mon2_step m (CbOp r)) /\
  spoke (mon2_step m (CbOp r)).
Proof.
  intros A Gp H. unfold mon2_step. rewrite A, Gp. cbn [negb]. rewrite orb_false_r.
  assert (B : n_live m && negb (n_op m) && negb (eof_exempt (n_cur m)) && (match r with OEof => true | _ => false end) = false).
  { destruct H as [[H|[H|H]]|H]; rewrite ?H.
    - reflexivity.
    - destruct (n_live m); reflexivity.
    - destruct (n_live m), (n_op m); reflexivity.
    - destruct r; rewrite ?andb_false_r; try reflexivity. congruence. }
  rewrite B. split; [split; [split; [reflexivity|]|reflexivity]|split; [reflexivity|split; [right; left; reflexivity|right; left; reflexivity]]].
  unfold doomed. cbn. rewrite !andb_false_r. reflexivity.
Qed.

Lemma op_step m r : hgood m -> (relaxed m \/ r <> OEof) ->
  hgood (mon2_step m (CbOp r)) /\ n_rem (mon2_step m (CbOp r)) = n_rem m /\ relaxed (mon2_step m (CbOp r)) /\
  spoke (mon2_step m (CbOp r)).
Proof. intros ((A & _) & G). apply op_step0; assumption. Qed.

(* the state right after the Consume marker of frame [f] *)
Lemma consume_step m f rest : good m -> n_rem m = f :: rest ->
  let m1 := mon2_step m Consume in
  n_ok m1 = true /\ n_rem m1 = rest /\ n_cur m1 = Some f /\ n_live m1 = true /\ n_op m1 = false /\
  n_copy m1 = n_copy m /\ n_silent m1 = true /\
  n_gap m1 = n_gap m || (n_live m && n_silent m && negb (hs_frame (n_cur m))).
Proof.
  intros (A & D) R. unfold mon2_step. rewrite A, R. cbn [negb]. fold (doomed m). rewrite D. cbn. auto 12.
Qed.

Lemma spoke_no_gap m : spoke m -> n_live m && n_silent m && negb (hs_frame (n_cur m)) = false.
Proof.
  intros [H|[H|H]]; rewrite H; [reflexivity|apply andb_false_intro1, andb_false_r|apply andb_false_r].
Qed.

(* ---------- CopyReader.Read ---------- *)
Lemma copy_read_mon2 L : forall fs tl evs r rest m,
  copy_read L fs tl = (evs, r, rest) -> hgood m -> relaxed m -> spoke m -> naligned m fs ->
  hgood (mon2_step (nrun m evs) (CbOp r)) /\ relaxed (mon2_step (nrun m evs) (CbOp r)) /\
  spoke (mon2_step (nrun m evs) (CbOp r)) /\ naligned (mon2_step (nrun m evs) (CbOp r)) rest.
Proof.
  induction fs as [|f fr IH]; intros tl evs r rest m H G Rx Sp Al; cbn [copy_read] in H.
  - injection H as <- <- <-. cbn [nrun fold_left]. destruct (op_step m (rderr_res tl) G (or_introl Rx)) as (X & Y & Z & W).
    split; [exact X|split; [exact Z|split; [exact W|right; reflexivity]]].
  - assert (Rm : n_rem m = f :: fr) by (destruct Al as [Al|Al]; [exact Al|discriminate]).
    destruct G as (G & Gp).
    destruct (consume_step m f fr G Rm) as (A1 & R1 & C1 & L1 & O1 & Cp1 & S1 & Gp1).
    rewrite Gp, (spoke_no_gap m Sp) in Gp1. cbn [orb] in Gp1.
    set (m1 := mon2_step m Consume) in *.
    assert (Simple : forall r0 rest0, (r0 <> OEof \/ eof_exempt (Some f) = true) -> (rest0 = fr \/ rest0 = []) ->
              hgood (mon2_step (nrun m [Consume]) (CbOp r0)) /\ relaxed (mon2_step (nrun m [Consume]) (CbOp r0)) /\
              spoke (mon2_step (nrun m [Consume]) (CbOp r0)) /\ naligned (mon2_step (nrun m [Consume]) (CbOp r0)) rest0).
    { intros r0 rest0 Hr Hrest. cbn [nrun fold_left]. fold m1.
      assert (Hr' : relaxed m1 \/ r0 <> OEof).
      { destruct Hr as [Hr|Hr]; [right; exact Hr|left; right; right; rewrite C1; exact Hr]. }
      destruct (op_step0 m1 r0 A1 Gp1 Hr') as (X & Y & Z & W). split; [exact X|split; [exact Z|split; [exact W|]]].
      destruct Hrest as [->| ->]; [left; rewrite Y; exact R1|right; reflexivity]. }
    destruct f as [t body|t size [x|]|t size|].
    + destruct (Byte.eqb t x48 || Byte.eqb t x53) eqn:Ths.
      * destruct (copy_read L fr tl) as [[evs0 r0] rest0] eqn:E. injection H as <- <- <-.
        change (Consume :: evs0) with ([Consume] ++ evs0). rewrite nrun_app. change (nrun m [Consume]) with m1.
        apply (IH _ _ _ _ m1 E).
        -- split; [split; [exact A1|]|exact Gp1]. unfold doomed. rewrite C1. cbn. rewrite !andb_false_r. reflexivity.
        -- right; right. rewrite C1. cbn [eof_exempt]. rewrite <- orb_assoc, Ths. apply orb_true_r.
        -- right; right. rewrite C1. cbn [hs_frame]. exact Ths.
        -- left; exact R1.
      * destruct (Byte.eqb t x64) eqn:T64; [injection H as <- <- <-; apply Simple; [left; discriminate|left; reflexivity]|].
        destruct (Byte.eqb t x63) eqn:T63.
        { injection H as <- <- <-. apply Simple; [right; cbn; rewrite T63; reflexivity|left; reflexivity]. }
        destruct (Byte.eqb t x66).
        { destruct (take_cstr body) as [[d x]|]; injection H as <- <- <-; (apply Simple; [left; discriminate|left; reflexivity]). }
        injection H as <- <- <-. apply Simple; [left; discriminate|left; reflexivity].
    + injection H as <- <- <-. apply Simple; [right; reflexivity|right; reflexivity].
    + injection H as <- <- <-. apply Simple; [left; discriminate|left; reflexivity].
    + injection H as <- <- <-. apply Simple; [left; discriminate|left; reflexivity].
    + injection H as <- <- <-. apply Simple; [left; discriminate|right; reflexivity].
Qed.

(* ---------- the handler programs ---------- *)
Lemma run_op_mon2 c cols fmts o w fs tl evs w' fs' st m :
  run_op c cols fmts o w fs tl = (evs, w', fs', st) -> hgood m -> (w_copy w = true -> relaxed m /\ spoke m) -> naligned m fs ->
  hgood (nrun m evs) /\ naligned (nrun m evs) fs' /\ (st <> StPanic -> relaxed (nrun m evs) /\ spoke (nrun m evs)).
Proof.
  intros H G Rx Al.
  assert (Op : forall r, r <> OEof -> hgood (nrun m [CbOp r]) /\ naligned (nrun m [CbOp r]) fs /\ (st <> StPanic -> relaxed (nrun m [CbOp r]) /\ spoke (nrun m [CbOp r]))).
  { intros r Hr. cbn [nrun fold_left]. destruct (op_step m r G (or_intror Hr)) as (X & Y & Z & W). split; [exact X|split; [|intros _; split; assumption]].
    destruct Al as [Al|Al]; [left; rewrite Y; exact Al|right; exact Al]. }
  assert (OutOp : forall b r, r <> OEof -> hgood (nrun m [Out b; CbOp r]) /\ naligned (nrun m [Out b; CbOp r]) fs /\ (st <> StPanic -> relaxed (nrun m [Out b; CbOp r]) /\ spoke (nrun m [Out b; CbOp r]))).
  { intros b r Hr. change [Out b; CbOp r] with ([Out b] ++ [CbOp r]). rewrite nrun_app.
    destruct G as (G & Gp).
    destruct (plain_good [Out b] m eq_refl G) as (X & Y & _ & _ & Gp').
    change (nrun (nrun m [Out b]) [CbOp r]) with (mon2_step (nrun m [Out b]) (CbOp r)).
    destruct (op_step _ r (conj X (Gp' Gp)) (or_intror Hr)) as (X2 & Y2 & Z2 & W2).
    split; [exact X2|split; [|intros _; split; assumption]].
    destruct Al as [Al|Al]; [left; rewrite Y2, Y; exact Al|right; exact Al]. }
  destruct o as [vs| | |tag|f|]; cbn [run_op] in H.
  - destruct (w_closed w); [injection H as <- <- <- <-; apply Op; discriminate|].
    destruct (write_row (cfg_encode c) cols fmts vs); injection H as <- <- <- <-.
    + apply OutOp; discriminate.
    + apply Op; discriminate.
    + split; [exact G|split; [exact Al|intros X; congruence]].
  - injection H as <- <- <- <-. apply Op; discriminate.
  - destruct (w_closed w); [|destruct (negb (w_written w =? 0))]; injection H as <- <- <- <-; apply Op; discriminate.
  - destruct (w_closed w); injection H as <- <- <- <-; [apply Op|apply OutOp]; discriminate.
  - destruct (w_closed w); [|destruct cols]; injection H as <- <- <- <-; [apply Op|apply Op|apply OutOp]; discriminate.
  - destruct (w_copy w) eqn:Wc; cbn [negb] in H; [|injection H as <- <- <- <-; apply Op; discriminate].
    destruct (copy_read (cfg_limit c) fs tl) as [[evs0 r] rest] eqn:E.
    destruct (Rx eq_refl) as [Rx1 Rx2].
    destruct (copy_read_mon2 _ _ _ _ _ _ m E G Rx1 Rx2 Al) as (X & Y & W & Z).
    destruct r; injection H as <- <- <- <-; rewrite nrun_app; (split; [exact X|split; [exact Z|intros _; split; assumption]]).
Qed.

Lemma run_ops_mon2 c cols fmts stop : forall ops w fs tl evs w' fs' res m,
  run_ops c cols fmts stop ops w fs tl = (evs, w', fs', res) -> hgood m -> (w_copy w = true -> relaxed m /\ spoke m) -> naligned m fs ->
  hgood (nrun m evs) /\ naligned (nrun m evs) fs'.
Proof.
  induction ops as [|o r IH]; intros w fs tl evs w' fs' res m H G Rx Al; cbn [run_ops] in H.
  - injection H as <- <- <- <-. split; assumption.
  - destruct (run_op c cols fmts o w fs tl) as [[[evs1 w1] fs1] st] eqn:E1.
    destruct (run_op_mon2 _ _ _ _ _ _ _ _ _ _ _ m E1 G Rx Al) as (G1 & A1 & R1).
    destruct st.
    + destruct (run_ops c cols fmts stop r w1 fs1 tl) as [[[evs2 w2] fs2] res2] eqn:E2.
      injection H as <- <- <- <-. rewrite nrun_app. eapply IH; eauto. intros _. apply R1. discriminate.
    + destruct stop.
      * injection H as <- <- <- <-. split; assumption.
      * destruct (run_ops c cols fmts false r w1 fs1 tl) as [[[evs2 w2] fs2] res2] eqn:E2.
        injection H as <- <- <- <-. rewrite nrun_app. eapply IH; eauto. intros _. apply R1. discriminate.
    + injection H as <- <- <- <-. split; assumption.
Qed.

(* the statement function: its CbExec event opens a fresh observation window *)
Lemma run_stmt_mon2 c s fmts params fs tl evs fs' res m :
  run_stmt c s fmts params fs tl = (evs, fs', res) -> good m -> naligned m fs ->
  good (nrun m evs) /\ naligned (nrun m evs) fs'.
Proof.
  unfold run_stmt. intros H G Al.
  destruct (run_ops c (s_cols s) fmts (s_stop s) (s_prog s) w_init fs tl) as [[[evs0 w] fs0] r0] eqn:E.
  injection H as <- <- <-. change (CbExec (s_id s) params :: evs0) with ([CbExec (s_id s) params] ++ evs0). rewrite nrun_app.
  destruct (plain_good [CbExec (s_id s) params] m eq_refl G) as (X & Y & _).
  destruct G as (A & _). destruct (plain_run [CbExec (s_id s) params] m eq_refl A) as (_ & _ & _ & _ & _ & _ & _ & I8).
  cbn [existsb is_exec negb orb] in I8. rewrite andb_false_r in I8.
  destruct (run_ops_mon2 _ _ _ _ _ _ _ _ _ _ _ _ (nrun m [CbExec (s_id s) params]) E (conj X I8)) as ((X2 & _) & Y2).
  - discriminate.
  - destruct Al as [Al|Al]; [left; rewrite Y; exact Al|right; exact Al].
  - split; assumption.
Qed.

Lemma plain_keep evs m fs : forallb no_cc evs = true -> good m -> naligned m fs ->
  good (nrun m evs) /\ naligned (nrun m evs) fs.
Proof.
  intros P G Al. destruct (plain_good evs m P G) as (X & Y & _). split; [exact X|].
  destruct Al as [Al|Al]; [left; rewrite Y; exact Al|right; exact Al].
Qed.

Lemma define_plain cols fmts : forallb no_cc (define_evs cols fmts) = true.
Proof. destruct cols; reflexivity. Qed.

(* a speaking tail: after it nothing is pending *)
Definition settled (m : cmon2) (fs : list frame) : Prop := good m /\ naligned m fs /\ n_copy m = false.

Lemma plain_settled evs m fs : forallb no_cc evs = true -> existsb is_out evs = true ->
  last_copyin evs true = false -> last_copyin evs false = false -> good m -> naligned m fs -> settled (nrun m evs) fs.
Proof.
  intros P O L1 L2 G Al. destruct (plain_keep evs m fs P G Al) as (X & Y). split; [exact X|split; [exact Y|]].
  destruct G as (A & _). destruct (plain_run evs m P A) as (_ & _ & _ & _ & _ & I6 & _). rewrite I6.
  destruct (n_copy m); assumption.
Qed.

Lemma run_stmts_mon2 c : forall ss fs tl evs fs' crashed m,
  run_stmts c ss fs tl = (evs, fs', crashed) -> good m -> naligned m fs ->
  good (nrun m evs) /\ naligned (nrun m evs) fs' /\ (crashed = false -> n_copy (nrun m evs) = false).
Proof.
  induction ss as [|s r IH]; intros fs tl evs fs' crashed m H G Al; cbn [run_stmts] in H.
  - injection H as <- <- <-. destruct (plain_settled [Out ready] m fs eq_refl eq_refl eq_refl eq_refl G Al) as (X & Y & Z). auto.
  - destruct (run_stmt c s [] [] fs tl) as [[evs1 fs1] res] eqn:E1.
    destruct (plain_keep _ m fs (define_plain (s_cols s) []) G Al) as (G0 & A0).
    destruct (run_stmt_mon2 _ _ _ _ _ _ _ _ _ _ E1 G0 A0) as [G1 A1].
    destruct res.
    + destruct (run_stmts c r fs1 tl) as [[evs2 fs2] cr] eqn:E2.
      injection H as <- <- <-. rewrite !nrun_app. eapply IH; eauto.
    + injection H as <- <- <-. rewrite !nrun_app.
      destruct (plain_settled [Out (err_msg (Some e)); Out ready] _ fs1 eq_refl eq_refl eq_refl eq_refl G1 A1) as (X & Y & Z). auto.
    + injection H as <- <- <-. rewrite !nrun_app.
      destruct (plain_keep [Crash] _ fs1 eq_refl G1 A1) as (X & Y). split; [exact X|split; [exact Y|discriminate]].
Qed.

(* ---------- one iteration of the command loop ---------- *)
(* between commands: not failed, not doomed, and a pending CopyInResponse means the skip flag is down *)
Definition between (m : cmon2) (st : sst) (fs : list frame) : Prop :=
  good m /\ naligned m fs /\ (n_copy m = true -> st_discard st = false).

Lemma settled_between m st fs : settled m fs -> between m st fs.
Proof. intros (G & A & C). split; [exact G|split; [exact A|]]. rewrite C. discriminate. Qed.

Lemma cmd_mon2 c st f rest tl evs st' fs' k m :
  cmd c st f rest tl = (evs, st', fs', k) -> between m st (f :: rest) -> n_rem m = f :: rest ->
  n_ok (nrun (mon2_step m Consume) evs) = true /\ (k = Continue -> between (nrun (mon2_step m Consume) evs) st' fs').
Proof.
  intros H (G & _ & Dc) Rm.
  destruct (consume_step m f rest G Rm) as (A1 & R1 & C1 & L1 & O1 & Cp1 & S1 & _).
  set (m1 := mon2_step m Consume) in *.
  assert (Al1 : naligned m1 rest) by (left; exact R1).
  (* a silent command on a message that is not oversized, or with no CopyInResponse pending *)
  assert (Silent : forall evs0 fs0, forallb no_cc evs0 = true -> existsb is_out evs0 = false ->
            (fs0 = rest \/ fs0 = []) -> n_copy m && is_over (Some f) = false ->
            n_ok (nrun m1 evs0) = true /\ (k = Continue -> between (nrun m1 evs0) st fs0)).
  { intros evs0 fs0 P O Hf Hc.
    destruct (plain_run evs0 m1 P A1) as (I1 & I2 & I3 & I4 & I5 & I6 & I7 & _).
    split; [exact I1|]. intros _. split; [split; [exact I1|]|split].
    - unfold doomed. rewrite I3, I4, I6, I7, (last_copyin_silent evs0 _ O), C1, L1, Cp1, S1, O. cbn. rewrite andb_true_r. exact Hc.
    - destruct Hf as [->| ->]; [left; rewrite I2; exact R1|right; reflexivity].
    - rewrite I6, (last_copyin_silent evs0 _ O), Cp1. exact Dc. }
  assert (G1f : forall t body, f = FMsg t body -> good m1).
  { intros t body ->. split; [exact A1|]. unfold doomed. rewrite C1. cbn. rewrite !andb_false_r. reflexivity. }
  (* a speaking command: its last message is not a CopyInResponse *)
  assert (Speak : forall evs0 st0 fs0, forallb no_cc evs0 = true -> existsb is_out evs0 = true ->
            last_copyin evs0 true = false -> last_copyin evs0 false = false -> (fs0 = rest \/ fs0 = []) ->
            n_ok (nrun m1 evs0) = true /\ (k = Continue -> between (nrun m1 evs0) st0 fs0)).
  { intros evs0 st0 fs0 P O La Lb Hf.
    destruct (plain_run evs0 m1 P A1) as (I1 & I2 & I3 & I4 & I5 & I6 & I7 & _).
    split; [exact I1|]. intros _. split; [split; [exact I1|]|split].
    - unfold doomed. rewrite I7, O. cbn. rewrite !andb_false_r. reflexivity.
    - destruct Hf as [->| ->]; [left; rewrite I2; exact R1|right; reflexivity].
    - rewrite I6. destruct (n_copy m1); rewrite ?La, ?Lb; discriminate. }
  assert (ExtErr : forall e evs2 st2 pre, ext_err st e = (evs2, st2) -> forallb no_cc pre = true ->
            n_ok (nrun m1 (pre ++ evs2)) = true /\ (k = Continue -> between (nrun m1 (pre ++ evs2)) st2 rest)).
  { intros e evs2 st2 pre X Pp. unfold ext_err in X. injection X as <- <-. apply Speak.
    - rewrite forallb_app, Pp. reflexivity.
    - rewrite existsb_app. cbn. apply orb_true_r.
    - unfold last_copyin. rewrite fold_left_app. reflexivity.
    - unfold last_copyin. rewrite fold_left_app. reflexivity.
    - left; reflexivity. }
  destruct f as [t body|t size [x|]|t size|]; cbn [cmd] in H.
  - assert (Nov : n_copy m && is_over (Some (FMsg t body)) = false) by apply andb_false_r.
    destruct (st_discard st && negb (Byte.eqb t x53) && negb (Byte.eqb t x58)) eqn:Dk;
      [injection H as <- <- <- <-; apply (Silent [] rest); auto|].
    destruct (Byte.eqb t x51) eqn:T51.
    { apply Byte.byte_dec_bl in T51. subst t. cbn in Dk. rewrite !andb_true_r in Dk.
      destruct (simple_query c body rest tl) as [[evs0 fs0] k0] eqn:Q. injection H as <- <- <- <-.
      unfold simple_query in Q. destruct (take_cstr body) as [[q r0]|]; [|injection Q as <- <- <-; apply (Silent [] rest); auto].
      destruct (is_blank q); [injection Q as <- <- <-; apply Speak; auto|].
      destruct (cfg_parse c q) as [e|[|s1 r]]; try (injection Q as <- <- <-; apply Speak; auto; fail).
      destruct (run_stmts c (s1 :: r) rest tl) as [[evs1 fs1] cr] eqn:E. injection Q as <- <- <-.
      change (CbParse q :: evs1) with ([CbParse q] ++ evs1). rewrite nrun_app.
      destruct (plain_keep [CbParse q] m1 rest eq_refl (G1f _ _ eq_refl) Al1) as (X & Y).
      destruct (run_stmts_mon2 _ _ _ _ _ _ _ _ E X Y) as (X2 & Y2 & Z2).
      split; [apply X2|]. intros Kc. destruct cr; [discriminate|].
      apply settled_between. split; [exact X2|split; [exact Y2|apply Z2; reflexivity]]. }
    destruct (Byte.eqb t x45) eqn:T45.
    { apply Byte.byte_dec_bl in T45. subst t. cbn in Dk. rewrite !andb_true_r in Dk.
      unfold do_execute in H. destruct (take_cstr body) as [[name l1]|]; [|injection H as <- <- <- <-; apply (Silent [] rest); auto].
      destruct (p_u32 l1) as [pu|]; [|injection H as <- <- <- <-; apply (Silent [] rest); auto].
      destruct (alist_get name (st_portals st)) as [p|].
      - destruct (run_stmt c (p_stmt p) (p_rfmts p) (p_params p) rest tl) as [[evs1 fs1] res] eqn:E.
        destruct (run_stmt_mon2 _ _ _ _ _ _ _ _ _ _ E (G1f _ _ eq_refl) Al1) as [X Y].
        assert (After : forall e evs2 st2, ext_err st e = (evs2, st2) ->
                  n_ok (nrun m1 (evs1 ++ evs2)) = true /\ (k = Continue -> between (nrun m1 (evs1 ++ evs2)) st2 fs1)).
        { intros e evs2 st2 Xe. unfold ext_err in Xe. injection Xe as <- <-. rewrite nrun_app.
          destruct (plain_settled [Out (err_msg (Some e))] _ fs1 eq_refl eq_refl eq_refl eq_refl X Y) as (X2 & Y2 & Z2).
          split; [apply X2|]. intros _. apply settled_between. split; [exact X2|split; [exact Y2|exact Z2]]. }
        destruct res.
        + injection H as <- <- <- <-. split; [apply X|]. intros _. split; [exact X|split; [exact Y|]]. intros _. exact Dk.
        + destruct (ext_err st e) as [evs2 st2] eqn:Xe. injection H as <- <- <- <-. eapply After; eauto.
        + destruct (ext_err st e_panic) as [evs2 st2] eqn:Xe. injection H as <- <- <- <-. eapply After; eauto.
      - destruct (ext_err st (e_unknown_portal name)) as [evs2 st2] eqn:Xe. injection H as <- <- <- <-.
        apply (ExtErr _ _ _ [] Xe eq_refl). }
    destruct (Byte.eqb t x50).
    { destruct (do_parse c st body) as [[evs0 st0] k0] eqn:Q. injection H as <- <- <- <-.
      unfold do_parse in Q. destruct (take_cstr body) as [[name l1]|]; [|injection Q as <- <- <-; apply (Silent [] rest); auto].
      destruct (take_cstr l1) as [[q l2]|]; [|injection Q as <- <- <-; apply (Silent [] rest); auto].
      destruct (p_u16 l2) as [pu|]; [|injection Q as <- <- <-; apply (Silent [] rest); auto].
      destruct (cfg_parse c q) as [e|[|s1 [|s2 r]]].
      - destruct (ext_err st e) as [evs2 st2] eqn:X. injection Q as <- <- <-. apply (ExtErr _ _ _ [CbParse q] X eq_refl).
      - destruct (ext_err st e_undefined_stmt) as [evs2 st2] eqn:X. injection Q as <- <- <-. apply (ExtErr _ _ _ [CbParse q] X eq_refl).
      - injection Q as <- <- <-. apply Speak; auto.
      - destruct (ext_err st e_multiple_stmts) as [evs2 st2] eqn:X. injection Q as <- <- <-. apply (ExtErr _ _ _ [CbParse q] X eq_refl). }
    destruct (Byte.eqb t x44).
    { destruct (do_describe st body) as [[evs0 st0] k0] eqn:Q. injection H as <- <- <- <-.
      unfold do_describe in Q. destruct body as [|kd l1]; [injection Q as <- <- <-; apply (Silent [] rest); auto|].
      destruct (take_cstr l1) as [[name l2]|]; [|injection Q as <- <- <-; apply (Silent [] rest); auto].
      destruct (Byte.eqb kd x53).
      - destruct (alist_get name (st_stmts st)) as [s0|].
        + injection Q as <- <- <-. unfold describe_cols. destruct (s_cols s0); apply Speak; auto.
        + destruct (ext_err st (EBase (bs "unknown statement"))) as [evs2 st2] eqn:X. injection Q as <- <- <-. apply (ExtErr _ _ _ [] X eq_refl).
      - destruct (Byte.eqb kd x50).
        + destruct (alist_get name (st_portals st)) as [p|].
          * injection Q as <- <- <-. unfold describe_cols. destruct (s_cols (p_stmt p)); apply Speak; auto.
          * destruct (ext_err st (EBase (bs "unknown portal"))) as [evs2 st2] eqn:X. injection Q as <- <- <-. apply (ExtErr _ _ _ [] X eq_refl).
        + destruct (ext_err st e_unknown_describe) as [evs2 st2] eqn:X. injection Q as <- <- <-. apply (ExtErr _ _ _ [] X eq_refl). }
    destruct (Byte.eqb t x53); [injection H as <- <- <- <-; apply Speak; auto|].
    destruct (Byte.eqb t x42).
    { destruct (do_bind st body) as [[evs0 st0] k0] eqn:Q. injection H as <- <- <- <-.
      unfold do_bind in Q. destruct (decode_bind body) as [b|]; [|injection Q as <- <- <-; apply (Silent [] rest); auto].
      destruct (alist_get (b_stmt b) (st_stmts st)).
      - injection Q as <- <- <-. apply Speak; auto.
      - destruct (ext_err st (e_unknown_stmt (b_stmt b))) as [evs2 st2] eqn:X. injection Q as <- <- <-. apply (ExtErr _ _ _ [] X eq_refl). }
    destruct (Byte.eqb t x48); [injection H as <- <- <- <-; apply (Silent [] rest); auto|].
    match type of H with (if ?b then _ else _) = _ => destruct b end; [injection H as <- <- <- <-; apply (Silent [] rest); auto|].
    destruct (Byte.eqb t x43).
    { destruct (do_close st body) as [[evs0 st0] k0] eqn:Q. injection H as <- <- <- <-.
      unfold do_close in Q. destruct body as [|kd l1]; [injection Q as <- <- <-; apply (Silent [] rest); auto|].
      destruct (take_cstr l1) as [[name l2]|]; [|injection Q as <- <- <-; apply (Silent [] rest); auto].
      destruct (Byte.eqb kd x53); [|destruct (Byte.eqb kd x50)].
      - injection Q as <- <- <-. apply Speak; auto.
      - injection Q as <- <- <-. apply Speak; auto.
      - destruct (ext_err st e_unknown_close) as [evs2 st2] eqn:X. injection Q as <- <- <-. apply (ExtErr _ _ _ [] X eq_refl). }
    destruct (Byte.eqb t x58).
    { destruct (cfg_term c); injection H as <- <- <- <-; [apply (Silent [CbTerminate] rest); auto|apply (Silent [] rest); auto]. }
    injection H as <- <- <- <-. apply Speak; auto.
  - injection H as <- <- <- <-. apply (Silent [] []); auto. apply andb_false_r.
  - destruct (do_oversize c st t size) as [evs0 st0] eqn:Q. injection H as <- <- <- <-.
    unfold do_oversize in Q. destruct (st_discard st && negb (Byte.eqb t x53)) eqn:Dk.
    { injection Q as <- <-. apply (Silent [] rest); auto.
      destruct (n_copy m) eqn:Cm; [|reflexivity]. rewrite (Dc eq_refl) in Dk. discriminate. }
    destruct (is_ext t); [apply (ExtErr _ _ _ [] Q eq_refl)|].
    destruct (Byte.eqb t x53); injection Q as <- <-; apply Speak; auto.
  - destruct (do_oversize c st t size) as [evs0 st0] eqn:Q. injection H as <- <- <- <-.
    unfold do_oversize in Q. destruct (st_discard st && negb (Byte.eqb t x53)) eqn:Dk.
    { injection Q as <- <-. apply (Silent [] rest); auto.
      destruct (n_copy m) eqn:Cm; [|reflexivity]. rewrite (Dc eq_refl) in Dk. discriminate. }
    destruct (is_ext t); [apply (ExtErr _ _ _ [] Q eq_refl)|].
    destruct (Byte.eqb t x53); injection Q as <- <-; apply Speak; auto.
  - injection H as <- <- <- <-. apply (Silent [] []); auto. apply andb_false_r.
Qed.

(* ---------- the command loop and the session ---------- *)
Lemma loop_mon2 c tl : forall fuel st fs m,
  between m st fs -> n_ok (nrun m (loop fuel c st fs tl)) = true.
Proof.
  induction fuel as [|fuel IH]; intros st fs m B.
  - destruct B as ((A & _) & _). cbn [loop nrun fold_left]. unfold mon2_step. rewrite A. exact A.
  - destruct fs as [|f rest].
    + destruct B as ((A & _) & _). cbn [loop nrun fold_left]. unfold mon2_step. rewrite A. exact A.
    + cbn [loop]. destruct (cmd c st f rest tl) as [[[evs st'] fs'] k] eqn:E.
      assert (Rm : n_rem m = f :: rest) by (destruct B as (_ & [Al|Al] & _); [exact Al|discriminate]).
      destruct (cmd_mon2 _ _ _ _ _ _ _ _ _ _ E B Rm) as [A' B'].
      destruct k.
      * change (Consume :: evs ++ loop fuel c st' fs' tl) with ([Consume] ++ evs ++ loop fuel c st' fs' tl).
        rewrite !nrun_app. apply IH. apply B'. reflexivity.
      * change (Consume :: evs ++ [Closed]) with ([Consume] ++ evs ++ [Closed]). rewrite !nrun_app.
        change (nrun (nrun (nrun m [Consume]) evs) [Closed]) with (mon2_step (nrun (nrun m [Consume]) evs) Closed).
        change (nrun m [Consume]) with (mon2_step m Consume). unfold mon2_step at 1. rewrite A'. exact A'.
Qed.

Definition mon2_init (fs : list frame) : cmon2 :=
  {| n_rem := fs; n_cur := None; n_live := false; n_op := false; n_copy := false; n_silent := true; n_gap := false; n_ok := true |}.

(* before the first Consume marker the scan is not live: nothing is judged *)
Lemma mon2_idle : forall pre m, no_consume pre = true -> n_ok m = true -> n_live m = false -> n_gap m = false ->
  n_ok (nrun m pre) = true /\ n_live (nrun m pre) = false /\ n_rem (nrun m pre) = n_rem m /\ n_gap (nrun m pre) = false.
Proof.
  induction pre as [|e r IH]; intros m H A Lv Gp; [auto|]. cbn [no_consume forallb] in H. apply andb_prop in H as [H1 H2].
  cbn [nrun fold_left]. fold (nrun (mon2_step m e) r).
  assert (S : n_ok (mon2_step m e) = true /\ n_live (mon2_step m e) = false /\ n_rem (mon2_step m e) = n_rem m /\ n_gap (mon2_step m e) = false).
  { unfold mon2_step. rewrite A. cbn [negb]. destruct e; try discriminate; cbn; rewrite ?Lv, ?Gp; cbn; auto. }
  destruct S as (S1 & S2 & S3 & S4). destruct (IH _ H2 S1 S2 S4) as (I1 & I2 & I3 & I4). rewrite I3, S3. auto.
Qed.

Lemma session_mon2 c after s fs :
  (forall cparams aevs s', read_params (S (List.length after)) after = Some cparams ->
     auth_phase c cparams s = (aevs, s', true) -> fs = fst (frames (cfg_limit c) s')) ->
  n_ok (nrun (mon2_init fs) (session c after s)) = true.
Proof.
  intros Hfs. unfold session.
  assert (Short : forall pre, no_consume pre = true -> n_ok (nrun (mon2_init fs) (pre ++ [Closed])) = true).
  { intros pre P. rewrite nrun_app. destruct (mon2_idle pre (mon2_init fs) P eq_refl eq_refl eq_refl) as (X & _).
    cbn [nrun fold_left]. unfold mon2_step. rewrite X. exact X. }
  destruct (read_params (S (List.length after)) after) as [cparams|] eqn:Er; [|apply (Short []); reflexivity].
  destruct (auth_phase c cparams s) as [[aevs s'] ok] eqn:Ea.
  pose proof (auth_phase_plain _ _ _ _ _ _ Ea) as Pa.
  destruct ok; cbn [negb]; [|apply Short; exact Pa].
  specialize (Hfs _ _ _ eq_refl Ea).
  pose proof (run_mws_plain (cfg_mws c) 0) as Pm.
  destruct (run_mws (cfg_mws c) 0) as [mevs mok]. cbn [fst] in Pm.
  set (pevs := map (fun kv : bytes * bytes => Out (BParamStatus (fst kv) (snd kv))) (server_params c (param_get (bs "user") cparams))).
  assert (Pp : no_consume pevs = true) by apply pstatus_plain.
  destruct mok; cbn [negb].
  - destruct (frames (cfg_limit c) s') as [fs0 tl] eqn:Ef. cbn [fst] in Hfs. subst fs0.
    rewrite !app_assoc. rewrite nrun_app.
    destruct (mon2_idle (((aevs ++ pevs) ++ mevs) ++ [Out ready]) (mon2_init fs)) as (X & Y & Z & _);
      [rewrite !no_consume_app, Pa, Pp, Pm; reflexivity|reflexivity|reflexivity|reflexivity|].
    apply loop_mon2. split; [split; [exact X|unfold doomed; rewrite Y; reflexivity]|split; [left; rewrite Z; reflexivity|]].
    intros _. reflexivity.
  - rewrite !app_assoc. apply Short. rewrite !no_consume_app, Pa, Pp, Pm. reflexivity.
Qed.

Theorem oracle_C13_strict_model sc :
  (forall v after rest, start (cfg_of_case sc) (sc_raw sc) = Some (v, after, rest) -> v <> version_ssl) ->
  oracle_C13_strict sc (run_case sc) = true.
Proof.
  intros Hssl. unfold oracle_C13_strict. fold (mon2_init (client_frames sc)). fold (nrun (mon2_init (client_frames sc)) (run_case sc)).
  unfold run_case, serve.
  destruct (start (cfg_of_case sc) (sc_raw sc)) as [[[v after] rest]|] eqn:Es; [|reflexivity].
  destruct (v =? version_cancel); [reflexivity|].
  destruct (Z.eqb_spec v version_ssl) as [->|_]; [exfalso; eapply Hssl; eauto|].
  apply session_mon2. intros cparams aevs s' _ Hauth. eapply case_frames; eauto.
Qed.
