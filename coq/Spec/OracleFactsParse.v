(* OracleFactsParse.v — the model satisfies [oracle_parse_budget] for every configuration and client stream:
   the texts handed to the parse function are, in order and each at most once, query texts of complete
   Query / Parse messages the client sent within the limit. *)
Require Import Wire.Bytes Spec.BackendSpec Spec.BackendSpecFacts Wire.Errors Wire.Framing Wire.Session
  Wire.SessionFacts Wire.CommandFacts Wire.RobustFacts Wire.Case Spec.KindFacts Spec.Oracles Spec.OracleFacts
  Spec.OracleFactsLife.
From Coq Require Import String.
Local Open Scope string_scope.
Local Open Scope list_scope.
Local Open Scope Z_scope.

Definition prun (st : option (list frame)) (evs : list ev) : option (list frame) := fold_left pb_step evs st.
Lemma prun_app st a b : prun st (a ++ b) = prun (prun st a) b.
Proof. apply fold_left_app. Qed.

Definition suffix (a b : list frame) : Prop := exists pre, b = pre ++ a.
Lemma suffix_refl a : suffix a a.
Proof. exists []. reflexivity. Qed.
Lemma suffix_cons f a b : suffix (f :: a) b -> suffix a b.
Proof. intros [pre ->]. exists (pre ++ [f]). rewrite <- app_assoc. reflexivity. Qed.
Lemma suffix_trans a b c : suffix a b -> suffix b c -> suffix a c.
Proof. intros [p ->] [q ->]. exists (q ++ p). rewrite app_assoc. reflexivity. Qed.
Lemma suffix_nil b : suffix [] b.
Proof. exists b. rewrite app_nil_r. reflexivity. Qed.

Definition noparse (e : ev) : bool := match e with CbParse _ => false | _ => true end.
Lemma prun_noparse : forall evs st, forallb noparse evs = true -> prun st evs = st.
Proof.
  induction evs as [|e r IH]; intros st H; [reflexivity|]. cbn [forallb] in H. apply andb_prop in H as [H1 H2].
  cbn [prun fold_left]. fold (prun (pb_step st e) r). rewrite IH by exact H2.
  destruct st; destruct e; try discriminate; reflexivity.
Qed.

Lemma match_query_suffix q : forall pre f rest, query_of f = Some q ->
  exists pre', match_query q (pre ++ f :: rest) = Some (pre' ++ rest).
Proof.
  induction pre as [|g pre IH]; intros f rest H; cbn [app match_query].
  - rewrite H, bytes_eqb_refl. exists []. reflexivity.
  - destruct (query_of g) as [q'|].
    + destruct (bytes_eqb q q').
      * exists (pre ++ [f]). rewrite <- app_assoc. reflexivity.
      * apply IH. exact H.
    + apply IH. exact H.
Qed.

(* ---------- what a command leaves of its frames is a suffix of them; handlers never call the parser ---------- *)
Lemma copy_read_p L : forall fs tl evs r rest, copy_read L fs tl = (evs, r, rest) ->
  forallb noparse evs = true /\ suffix rest fs.
Proof.
  induction fs as [|f fr IH]; intros tl evs r rest H; cbn [copy_read] in H.
  - injection H as <- <- <-. split; [reflexivity|apply suffix_refl].
  - destruct f as [t body|t size [x|]|t size|].
    + destruct (Byte.eqb t x48 || Byte.eqb t x53).
      * destruct (copy_read L fr tl) as [[evs0 r0] rest0] eqn:E. injection H as <- <- <-.
        destruct (IH _ _ _ _ E) as [A B]. split; [exact A|]. apply (suffix_trans _ fr); [exact B|]. apply (suffix_cons (FMsg t body)). apply suffix_refl.
      * assert (S : suffix fr (FMsg t body :: fr)) by (apply (suffix_cons (FMsg t body)); apply suffix_refl).
        destruct (Byte.eqb t x64); [injection H as <- <- <-; split; [reflexivity|exact S]|].
        destruct (Byte.eqb t x63); [injection H as <- <- <-; split; [reflexivity|exact S]|].
        destruct (Byte.eqb t x66); [destruct (take_cstr body) as [[d x0]|]|]; injection H as <- <- <-; (split; [reflexivity|exact S]).
    + injection H as <- <- <-. split; [reflexivity|apply suffix_nil].
    + injection H as <- <- <-. split; [reflexivity|]. apply (suffix_cons (FOver t size None)). apply suffix_refl.
    + injection H as <- <- <-. split; [reflexivity|]. apply (suffix_cons (FBad t size)). apply suffix_refl.
    + injection H as <- <- <-. split; [reflexivity|apply suffix_nil].
Qed.

Lemma noparse_app a b : forallb noparse (a ++ b) = forallb noparse a && forallb noparse b.
Proof. apply forallb_app. Qed.

Lemma run_op_p c cols fmts o w fs tl evs w' fs' st :
  run_op c cols fmts o w fs tl = (evs, w', fs', st) -> forallb noparse evs = true /\ suffix fs' fs.
Proof.
  intros H. destruct o as [vs| | |tag|f|]; cbn [run_op] in H.
  - destruct (w_closed w); [injection H as <- <- <- <-; split; [reflexivity|apply suffix_refl]|].
    destruct (write_row (cfg_encode c) cols fmts vs); injection H as <- <- <- <-; (split; [reflexivity|apply suffix_refl]).
  - injection H as <- <- <- <-. split; [reflexivity|apply suffix_refl].
  - destruct (w_closed w); [|destruct (negb (w_written w =? 0))]; injection H as <- <- <- <-; (split; [reflexivity|apply suffix_refl]).
  - destruct (w_closed w); injection H as <- <- <- <-; (split; [reflexivity|apply suffix_refl]).
  - destruct (w_closed w); [|destruct cols]; injection H as <- <- <- <-; (split; [reflexivity|apply suffix_refl]).
  - destruct (negb (w_copy w)); [injection H as <- <- <- <-; split; [reflexivity|apply suffix_refl]|].
    destruct (copy_read (cfg_limit c) fs tl) as [[evs0 r] rest] eqn:E.
    destruct (copy_read_p _ _ _ _ _ _ E) as [A B].
    destruct r; injection H as <- <- <- <-; rewrite noparse_app, A; (split; [reflexivity|exact B]).
Qed.

Lemma run_ops_p c cols fmts stop : forall ops w fs tl evs w' fs' res,
  run_ops c cols fmts stop ops w fs tl = (evs, w', fs', res) -> forallb noparse evs = true /\ suffix fs' fs.
Proof.
  induction ops as [|o r IH]; intros w fs tl evs w' fs' res H; cbn [run_ops] in H.
  - injection H as <- <- <- <-. split; [reflexivity|apply suffix_refl].
  - destruct (run_op c cols fmts o w fs tl) as [[[evs1 w1] fs1] st] eqn:E1.
    destruct (run_op_p _ _ _ _ _ _ _ _ _ _ _ E1) as [A1 B1].
    destruct st.
    + destruct (run_ops c cols fmts stop r w1 fs1 tl) as [[[evs2 w2] fs2] res2] eqn:E2.
      injection H as <- <- <- <-. destruct (IH _ _ _ _ _ _ _ E2) as [A2 B2]. rewrite noparse_app, A1, A2. split; [reflexivity|eapply suffix_trans; eauto].
    + destruct stop.
      * injection H as <- <- <- <-. split; assumption.
      * destruct (run_ops c cols fmts false r w1 fs1 tl) as [[[evs2 w2] fs2] res2] eqn:E2.
        injection H as <- <- <- <-. destruct (IH _ _ _ _ _ _ _ E2) as [A2 B2]. rewrite noparse_app, A1, A2. split; [reflexivity|eapply suffix_trans; eauto].
    + injection H as <- <- <- <-. split; assumption.
Qed.

Lemma run_stmt_p c s fmts params fs tl evs fs' res :
  run_stmt c s fmts params fs tl = (evs, fs', res) -> forallb noparse evs = true /\ suffix fs' fs.
Proof.
  unfold run_stmt. intros H.
  destruct (run_ops c (s_cols s) fmts (s_stop s) (s_prog s) w_init fs tl) as [[[evs0 w] fs0] r0] eqn:E.
  injection H as <- <- <-. destruct (run_ops_p _ _ _ _ _ _ _ _ _ _ _ _ E) as [A B]. split; [exact A|exact B].
Qed.

Lemma define_noparse cols fmts : forallb noparse (define_evs cols fmts) = true.
Proof. destruct cols; reflexivity. Qed.

Lemma run_stmts_p c : forall ss fs tl evs fs' crashed,
  run_stmts c ss fs tl = (evs, fs', crashed) -> forallb noparse evs = true /\ suffix fs' fs.
Proof.
  induction ss as [|s r IH]; intros fs tl evs fs' crashed H; cbn [run_stmts] in H.
  - injection H as <- <- <-. split; [reflexivity|apply suffix_refl].
  - destruct (run_stmt c s [] [] fs tl) as [[evs1 fs1] res] eqn:E1.
    destruct (run_stmt_p _ _ _ _ _ _ _ _ _ E1) as [A1 B1].
    destruct res.
    + destruct (run_stmts c r fs1 tl) as [[evs2 fs2] cr] eqn:E2.
      injection H as <- <- <-. destruct (IH _ _ _ _ _ E2) as [A2 B2].
      rewrite !noparse_app, define_noparse, A1, A2. split; [reflexivity|eapply suffix_trans; eauto].
    + injection H as <- <- <-. rewrite !noparse_app, define_noparse, A1. split; [reflexivity|exact B1].
    + injection H as <- <- <-. rewrite !noparse_app, define_noparse, A1. split; [reflexivity|exact B1].
Qed.

(* ---------- one iteration of the command loop ---------- *)
(* either the parser is not called at all, or it is called once, first, with the query text of this very frame *)
Lemma cmd_p c st f rest tl evs st' fs' k :
  cmd c st f rest tl = (evs, st', fs', k) ->
  suffix fs' rest /\
  (forallb noparse evs = true \/ exists q more, evs = CbParse q :: more /\ forallb noparse more = true /\ query_of f = Some q).
Proof.
  intros H.
  assert (N : forall l, forallb noparse l = true -> suffix rest rest /\ (forallb noparse l = true \/ exists q more, l = CbParse q :: more /\ forallb noparse more = true /\ query_of f = Some q))
    by (intros l Hl; split; [apply suffix_refl|left; exact Hl]).
  destruct f as [t body|t size [x|]|t size|]; cbn [cmd] in H.
  - destruct (st_discard st && negb (Byte.eqb t x53) && negb (Byte.eqb t x58)); [injection H as <- <- <- <-; apply N; reflexivity|].
    destruct (Byte.eqb t x51) eqn:T51.
    { destruct (simple_query c body rest tl) as [[evs0 fs0] k0] eqn:Q. injection H as <- <- <- <-.
      unfold simple_query in Q. destruct (take_cstr body) as [[q r0]|] eqn:Eb; [|injection Q as <- <- <-; apply N; reflexivity].
      assert (Qf : query_of (FMsg t body) = Some q) by (cbn [query_of]; rewrite T51, Eb; reflexivity).
      destruct (is_blank q); [injection Q as <- <- <-; apply N; reflexivity|].
      destruct (cfg_parse c q) as [e|[|s1 r]].
      - injection Q as <- <- <-. split; [apply suffix_refl|right]. eexists. eexists. split; [reflexivity|split; [reflexivity|exact Qf]].
      - injection Q as <- <- <-. split; [apply suffix_refl|right]. eexists. eexists. split; [reflexivity|split; [reflexivity|exact Qf]].
      - destruct (run_stmts c (s1 :: r) rest tl) as [[evs1 fs1] cr] eqn:E. injection Q as <- <- <-.
        destruct (run_stmts_p _ _ _ _ _ _ _ E) as [A B]. split; [exact B|right]. eexists. eexists. split; [reflexivity|split; [exact A|exact Qf]]. }
    destruct (Byte.eqb t x45).
    { unfold do_execute in H. destruct (take_cstr body) as [[name l1]|]; [|injection H as <- <- <- <-; apply N; reflexivity].
      destruct (p_u32 l1) as [pu|]; [|injection H as <- <- <- <-; apply N; reflexivity].
      destruct (alist_get name (st_portals st)) as [p|].
      - destruct (run_stmt c (p_stmt p) (p_rfmts p) (p_params p) rest tl) as [[evs1 fs1] res] eqn:E.
        destruct (run_stmt_p _ _ _ _ _ _ _ _ _ E) as [A B].
        destruct res; unfold ext_err in H; injection H as <- <- <- <-; (split; [exact B|left]); rewrite ?noparse_app, A; reflexivity.
      - unfold ext_err in H. injection H as <- <- <- <-. apply N; reflexivity. }
    destruct (Byte.eqb t x50) eqn:T50.
    { destruct (do_parse c st body) as [[evs0 st0] k0] eqn:Q. injection H as <- <- <- <-.
      unfold do_parse in Q. destruct (take_cstr body) as [[name l1]|] eqn:E1; [|injection Q as <- <- <-; apply N; reflexivity].
      destruct (take_cstr l1) as [[q l2]|] eqn:E2; [|injection Q as <- <- <-; apply N; reflexivity].
      destruct (p_u16 l2) as [pu|] eqn:E3; [|injection Q as <- <- <-; apply N; reflexivity].
      assert (Qf : query_of (FMsg t body) = Some q) by (cbn [query_of]; rewrite T51, T50, E1, E2, E3; reflexivity).
      destruct (cfg_parse c q) as [e|[|s1 [|s2 r]]]; unfold ext_err in Q; injection Q as <- <- <-;
        (split; [apply suffix_refl|right]; eexists; eexists; split; [reflexivity|split; [reflexivity|exact Qf]]). }
    destruct (Byte.eqb t x44).
    { destruct (do_describe st body) as [[evs0 st0] k0] eqn:Q. injection H as <- <- <- <-.
      unfold do_describe in Q. destruct body as [|kd l1]; [injection Q as <- <- <-; apply N; reflexivity|].
      destruct (take_cstr l1) as [[name l2]|]; [|injection Q as <- <- <-; apply N; reflexivity].
      destruct (Byte.eqb kd x53); [destruct (alist_get name (st_stmts st))|destruct (Byte.eqb kd x50); [destruct (alist_get name (st_portals st))|]];
        unfold ext_err in Q; injection Q as <- <- <-; apply N; reflexivity. }
    destruct (Byte.eqb t x53); [injection H as <- <- <- <-; apply N; reflexivity|].
    destruct (Byte.eqb t x42).
    { destruct (do_bind st body) as [[evs0 st0] k0] eqn:Q. injection H as <- <- <- <-.
      unfold do_bind in Q. destruct (decode_bind body) as [b|]; [|injection Q as <- <- <-; apply N; reflexivity].
      destruct (alist_get (b_stmt b) (st_stmts st)); unfold ext_err in Q; injection Q as <- <- <-; apply N; reflexivity. }
    destruct (Byte.eqb t x48); [injection H as <- <- <- <-; apply N; reflexivity|].
    match type of H with (if ?b then _ else _) = _ => destruct b end; [injection H as <- <- <- <-; apply N; reflexivity|].
    destruct (Byte.eqb t x43).
    { destruct (do_close st body) as [[evs0 st0] k0] eqn:Q. injection H as <- <- <- <-.
      unfold do_close in Q. destruct body as [|kd l1]; [injection Q as <- <- <-; apply N; reflexivity|].
      destruct (take_cstr l1) as [[name l2]|]; [|injection Q as <- <- <-; apply N; reflexivity].
      destruct (Byte.eqb kd x53); [|destruct (Byte.eqb kd x50)]; unfold ext_err in Q; injection Q as <- <- <-; apply N; reflexivity. }
    destruct (Byte.eqb t x58); [destruct (cfg_term c)|]; injection H as <- <- <- <-; apply N; reflexivity.
  - injection H as <- <- <- <-. split; [apply suffix_nil|left; reflexivity].
  - destruct (do_oversize c st t size) as [evs0 st0] eqn:Q. injection H as <- <- <- <-. apply N.
    unfold do_oversize in Q. destruct (st_discard st && negb (Byte.eqb t x53)); [injection Q as <- <-; reflexivity|].
    destruct (is_ext t); [unfold ext_err in Q; injection Q as <- <-; reflexivity|].
    destruct (Byte.eqb t x53); injection Q as <- <-; reflexivity.
  - destruct (do_oversize c st t size) as [evs0 st0] eqn:Q. injection H as <- <- <- <-. apply N.
    unfold do_oversize in Q. destruct (st_discard st && negb (Byte.eqb t x53)); [injection Q as <- <-; reflexivity|].
    destruct (is_ext t); [unfold ext_err in Q; injection Q as <- <-; reflexivity|].
    destruct (Byte.eqb t x53); injection Q as <- <-; reflexivity.
  - injection H as <- <- <- <-. split; [apply suffix_nil|left; reflexivity].
Qed.

(* ---------- the loop, the session, the connection ---------- *)
Definition pinv (st : option (list frame)) (fs : list frame) : Prop := exists rem, st = Some rem /\ suffix fs rem.

Lemma loop_p c tl : forall fuel st fs ps, pinv ps fs -> exists rem, prun ps (loop fuel c st fs tl) = Some rem.
Proof.
  induction fuel as [|fuel IH]; intros st fs ps (rem & -> & S); [exists rem; reflexivity|].
  destruct fs as [|f rest]; [exists rem; reflexivity|]. cbn [loop].
  destruct (cmd c st f rest tl) as [[[evs st'] fs'] k] eqn:E.
  destruct (cmd_p _ _ _ _ _ _ _ _ _ E) as [Sf P].
  assert (Step : pinv (prun (Some rem) (Consume :: evs)) fs').
  { cbn [prun fold_left pb_step]. fold (prun (Some rem) evs). destruct S as [pre ->].
    destruct P as [P|(q & more & -> & Pm & Qf)].
    - rewrite prun_noparse by exact P. exists (pre ++ f :: rest). split; [reflexivity|].
      eapply suffix_trans; [exact Sf|]. exists (pre ++ [f]). rewrite <- app_assoc. reflexivity.
    - cbn [prun fold_left pb_step]. destruct (match_query_suffix q pre f rest Qf) as [pre' M]. rewrite M.
      fold (prun (Some (pre' ++ rest)) more). rewrite prun_noparse by exact Pm.
      exists (pre' ++ rest). split; [reflexivity|]. eapply suffix_trans; [exact Sf|]. exists pre'. reflexivity. }
  destruct k.
  - change (Consume :: evs ++ loop fuel c st' fs' tl) with ((Consume :: evs) ++ loop fuel c st' fs' tl).
    rewrite prun_app. apply IH. exact Step.
  - change (Consume :: evs ++ [Closed]) with ((Consume :: evs) ++ [Closed]). rewrite prun_app.
    destruct Step as (rem' & -> & _). exists rem'. reflexivity.
Qed.

Lemma no_consume_noparse_auth c cparams s evs rest ok : auth_phase c cparams s = (evs, rest, ok) -> forallb noparse evs = true.
Proof.
  unfold auth_phase. intros H.
  destruct (cfg_auth c) as [validate|]; [|injection H as <- <- <-; reflexivity].
  destruct s as [|t [|a [|b [|c4 [|d r]]]]]; try (injection H as <- <- <-; reflexivity).
  destruct ((rd32 a b c4 d - 4 <? 0) || (rd32 a b c4 d - 4 >? eff_limit (cfg_limit c))); [injection H as <- <- <-; reflexivity|].
  destruct (takeZ (rd32 a b c4 d - 4) r) as [[body rest0]|]; [|injection H as <- <- <-; reflexivity].
  destruct (negb (Byte.eqb t x70)); [injection H as <- <- <-; reflexivity|].
  destruct (take_cstr body) as [[pw x]|]; [|injection H as <- <- <-; reflexivity].
  destruct (validate _ _ pw); injection H as <- <- <-; reflexivity.
Qed.

Lemma pstatus_noparse l : forallb noparse (map (fun kv : bytes * bytes => Out (BParamStatus (fst kv) (snd kv))) l) = true.
Proof. induction l as [|x r IH]; [reflexivity|]. exact IH. Qed.

Lemma run_mws_noparse : forall mws i, forallb noparse (fst (run_mws mws i)) = true.
Proof.
  induction mws as [|ok r IH]; intros i; [reflexivity|]. cbn [run_mws]. destruct ok; [|reflexivity].
  specialize (IH (i + 1)). destruct (run_mws r (i + 1)) as [evs res]. exact IH.
Qed.

Lemma session_p c after s fs :
  (forall cparams aevs s', read_params (S (List.length after)) after = Some cparams ->
     auth_phase c cparams s = (aevs, s', true) -> fs = fst (frames (cfg_limit c) s')) ->
  exists rem, prun (Some fs) (session c after s) = Some rem.
Proof.
  intros Hfs. unfold session.
  destruct (read_params (S (List.length after)) after) as [cparams|] eqn:Er; [|exists fs; reflexivity].
  destruct (auth_phase c cparams s) as [[aevs s'] ok] eqn:Ea.
  pose proof (no_consume_noparse_auth _ _ _ _ _ _ Ea) as Pa.
  destruct ok; cbn [negb].
  2: { exists fs. rewrite prun_noparse by (rewrite noparse_app, Pa; reflexivity). reflexivity. }
  specialize (Hfs _ _ _ eq_refl Ea).
  pose proof (run_mws_noparse (cfg_mws c) 0) as Pm.
  destruct (run_mws (cfg_mws c) 0) as [mevs mok]. cbn [fst] in Pm.
  destruct mok; cbn [negb].
  - destruct (frames (cfg_limit c) s') as [fs0 tl] eqn:Ef. cbn [fst] in Hfs. subst fs0.
    rewrite !app_assoc. rewrite prun_app.
    rewrite (prun_noparse _ (Some fs)) by (rewrite !noparse_app, Pa, pstatus_noparse, Pm; reflexivity).
    apply loop_p. exists fs. split; [reflexivity|apply suffix_refl].
  - exists fs. rewrite prun_noparse by (rewrite !noparse_app, Pa, pstatus_noparse, Pm; reflexivity). reflexivity.
Qed.

Theorem oracle_parse_budget_model sc :
  (forall v after rest, start (cfg_of_case sc) (sc_raw sc) = Some (v, after, rest) -> v <> version_ssl) ->
  oracle_parse_budget sc (run_case sc) = true.
Proof.
  intros Hssl. unfold oracle_parse_budget. fold (prun (Some (client_frames sc)) (run_case sc)).
  unfold run_case, serve.
  destruct (start (cfg_of_case sc) (sc_raw sc)) as [[[v after] rest]|] eqn:Es; [|reflexivity].
  destruct (v =? version_cancel); [reflexivity|].
  destruct (Z.eqb_spec v version_ssl) as [->|_]; [exfalso; eapply Hssl; eauto|].
  destruct (session_p (cfg_of_case sc) after rest (client_frames sc)) as [rem R].
  - intros cparams aevs s' _ Hauth. eapply case_frames; eauto.
  - rewrite R. reflexivity.
Qed.
