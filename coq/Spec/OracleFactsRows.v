(* OracleFactsRows.v — where the DataRow messages of a connection come from: for every configuration and
   every client byte stream, each DataRow in the log of the whole connection is [write_row] applied to a row
   that a configured statement function writes, with that statement's columns and some result-format list;
   and such a row decodes, field by field and in the format used, to the values written (NULL stays NULL). *)
Require Import Wire.Bytes Spec.BackendSpec Spec.BackendSpecFacts Wire.Errors Wire.Framing Wire.Session
  Wire.SessionFacts Wire.CommandFacts Wire.RobustFacts Wire.Transport Wire.Copy Wire.Codec Wire.CodecFacts Wire.Case Spec.KindFacts
  Spec.Oracles Spec.OracleFacts.
From Coq Require Import String.
Local Open Scope string_scope.
Local Open Scope list_scope.
Local Open Scope Z_scope.

Section Origin.
  Variable sc : scase.
  (* a property of backend messages that every message other than a DataRow has, and every DataRow
     produced by writing a row of a configured statement *)
  Variable Q : bmsg -> Prop.
  Definition configured (s : stmt) : Prop := exists q ss, lookup_parse (sc_parse sc) q = POk ss /\ In s ss.
  (* the library's own errors, and the errors configured callbacks return *)
  Inductive lib_err : err -> Prop :=
  | le_closed : lib_err e_closed_writer | le_ueof : lib_err e_unexpected_eof | le_eof : lib_err e_eof
  | le_size : forall a b, lib_err (e_size_exceeded a b) | le_unimpl : forall t, lib_err (e_unimplemented t)
  | le_undef : lib_err e_undefined_stmt | le_nocols : lib_err e_no_columns | le_written : lib_err e_data_written
  | le_ustmt : forall n, lib_err (e_unknown_stmt n) | le_uportal : forall n, lib_err (e_unknown_portal n)
  | le_udesc : lib_err e_unknown_describe | le_uclose : lib_err e_unknown_close | le_panic : lib_err e_panic
  | le_multi : lib_err e_multiple_stmts | le_nul : lib_err e_missing_nul | le_pw : lib_err e_invalid_password
  | le_encode : lib_err e_encode | le_copyfail : forall d, lib_err (e_copy_failed d) | le_arity : forall a b, lib_err (e_arity a b)
  | le_ustmt2 : lib_err (EBase (bs "unknown statement")) | le_uportal2 : lib_err (EBase (bs "unknown portal")).
  Definition conf_err (e : err) : Prop :=
    (exists q, lookup_parse (sc_parse sc) q = PErr e) \/ (exists s, configured s /\ s_ret s = RetErr e).
  Definition err_src (e : err) : Prop := lib_err e \/ conf_err e.
  Hypothesis Qother : forall m, (match m with BDataRow _ | BError _ | BRowDesc _ | BParamDesc _ => False | _ => True end) -> Q m.
  Hypothesis Qpd : forall s, configured s -> Q (BParamDesc (map (fun o : Z => o mod 4294967296) (s_poids s))).
  Hypothesis Qdesc : forall s fmts, configured s -> Q (row_desc (s_cols s) fmts).
  Hypothesis Qrow : forall s fmts vs fields, configured s -> In (HRow vs) (s_prog s) ->
    write_row encode_value (s_cols s) fmts vs = RowOk fields -> Q (BDataRow fields).
  Hypothesis Qerr : forall e, err_src e -> Q (err_msg (Some e)).

  Definition qall (evs : list ev) : Prop := Forall Q (Oracles.outs evs).
  Lemma qall_app a b : qall a -> qall b -> qall (a ++ b).
  Proof. unfold qall. rewrite oouts_app. intros A B. apply Forall_app. split; assumption. Qed.
  Lemma qall_nil : qall [].
  Proof. constructor. Qed.
  Lemma qall_cons_other e r : (match e with Out (BDataRow _) | Out (BError _) | Out (BRowDesc _) | Out (BParamDesc _) => False | _ => True end) -> qall r -> qall (e :: r).
  Proof.
    intros H R. unfold qall. destruct e; cbn [Oracles.outs flat_map app]; try exact R.
    constructor; [apply Qother; destruct m; try exact I; exact H|exact R].
  Qed.
  Lemma qall_cons_err e r : err_src e -> qall r -> qall (Out (err_msg (Some e)) :: r).
  Proof. intros H R. unfold qall. cbn [Oracles.outs flat_map app]. constructor; [apply Qerr; exact H|exact R]. Qed.
  Local Hint Constructors lib_err : liberr.
  Ltac neutral := repeat first [apply qall_cons_other; [exact I|] | apply qall_cons_err; [solve [left; auto with liberr | assumption]|]]; try apply qall_nil.

  (* the error a handler's DataWriter remembers comes from the library *)
  Definition wl_ok (w : wstate) : Prop := forall e, w_last w = Some e -> err_src e.
  Lemma copy_read_err L : forall fs tl evs e rest, copy_read L fs tl = (evs, OErr e, rest) -> lib_err e.
  Proof.
    induction fs as [|f fr IH]; intros tl evs e rest H; cbn [copy_read] in H.
    - destruct tl; cbn in H; [discriminate|injection H as _ <- _; constructor].
    - destruct f as [t body|t size [x|]|t size|].
      + destruct (Byte.eqb t x48 || Byte.eqb t x53).
        * destruct (copy_read L fr tl) as [[evs0 r0] rest0] eqn:E. injection H as _ -> _. eapply IH; eauto.
        * destruct (Byte.eqb t x64); [discriminate|]. destruct (Byte.eqb t x63); [discriminate|].
          destruct (Byte.eqb t x66); [destruct (take_cstr body) as [[d x]|]|]; injection H as _ <- _; constructor.
      + destruct x; cbn in H; [discriminate|injection H as _ <- _; constructor].
      + injection H as _ <- _; constructor.
      + injection H as _ <- _; constructor.
      + injection H as _ <- _; constructor.
  Qed.

  Lemma copy_read_q L : forall fs tl evs r rest, copy_read L fs tl = (evs, r, rest) -> qall evs.
  Proof.
    intros fs tl evs r rest H. destruct (copy_read_spec _ _ _ _ _ _ H) as (A & _). unfold qall. rewrite outs_eq, A. constructor.
  Qed.

  Lemma write_row_err cols fmts vs e : write_row encode_value cols fmts vs = RowErr e -> lib_err e.
  Proof.
    unfold write_row. destruct (negb (lenZ vs =? lenZ cols)); [intros H; injection H as <-; constructor|].
    generalize 0%nat. revert vs. induction cols as [|c cr IH]; intros vs i H; [cbn in H; discriminate|].
    destruct vs as [|v vr]; cbn [Session.enc_fields] in H; [discriminate|].
    destruct (encode_value (c_oid c) (fmt_for fmts i) v); try discriminate.
    - destruct (Session.enc_fields encode_value cr fmts (S i) vr) eqn:E; try discriminate. injection H as <-. eapply IH; eauto.
    - destruct (Session.enc_fields encode_value cr fmts (S i) vr) eqn:E; try discriminate. injection H as <-. eapply IH; eauto.
    - injection H as <-. constructor.
  Qed.

  Lemma wl_fail w e : err_src e -> wl_ok (w_fail w e).
  Proof. intros H e0 E. cbn in E. injection E as <-. exact H. Qed.

  Lemma run_op_q s fmts o w fs tl evs w' fs' st :
    configured s -> In o (s_prog s) -> wl_ok w ->
    run_op (cfg_of_case sc) (s_cols s) fmts o w fs tl = (evs, w', fs', st) -> qall evs /\ wl_ok w'.
  Proof.
    intros P Ho Wl H.
    assert (LF : forall e, lib_err e -> wl_ok (w_fail w e)) by (intros e He; apply wl_fail; left; exact He).
    destruct o as [vs| | |tag|f|]; cbn [run_op] in H.
    - destruct (w_closed w); [injection H as <- <- <- <-; split; [neutral|apply LF; constructor]|].
      cbn [cfg_of_case cfg_encode] in H.
      destruct (write_row encode_value (s_cols s) fmts vs) as [fields|e|] eqn:E; injection H as <- <- <- <-.
      + split; [|exact Wl]. unfold qall. cbn [Oracles.outs flat_map app]. constructor; [|constructor]. eapply Qrow; eauto.
      + split; [neutral|apply LF; eapply write_row_err; eauto].
      + split; [neutral|exact Wl].
    - injection H as <- <- <- <-. split; [neutral|exact Wl].
    - destruct (w_closed w); [|destruct (negb (w_written w =? 0))]; injection H as <- <- <- <-; (split; [neutral|]); [apply LF; constructor|apply LF; constructor|exact Wl].
    - destruct (w_closed w); injection H as <- <- <- <-; (split; [neutral|]); [apply LF; constructor|exact Wl].
    - destruct (w_closed w); [|destruct (s_cols s)]; injection H as <- <- <- <-; (split; [neutral|]); [apply LF; constructor|apply LF; constructor|exact Wl].
    - destruct (negb (w_copy w)); [injection H as <- <- <- <-; split; [neutral|exact Wl]|].
      destruct (copy_read (cfg_limit (cfg_of_case sc)) fs tl) as [[evs0 r] rest] eqn:E.
      pose proof (copy_read_q _ _ _ _ _ _ E) as K.
      destruct r; injection H as <- <- <- <-; (split; [apply qall_app; [exact K|neutral]|]); try exact Wl.
      apply LF. eapply copy_read_err; eauto.
  Qed.

  Lemma run_ops_q s fmts stop : configured s -> forall ops w fs tl evs w' fs' res,
    (forall o, In o ops -> In o (s_prog s)) -> wl_ok w ->
    run_ops (cfg_of_case sc) (s_cols s) fmts stop ops w fs tl = (evs, w', fs', res) ->
    qall evs /\ wl_ok w' /\ (forall e, res = Some (PErrR e) -> err_src e).
  Proof.
    intros P. induction ops as [|o r IH]; intros w fs tl evs w' fs' res Sub Wl H; cbn [run_ops] in H.
    - injection H as <- <- <- <-. split; [apply qall_nil|split; [exact Wl|discriminate]].
    - destruct (run_op (cfg_of_case sc) (s_cols s) fmts o w fs tl) as [[[evs1 w1] fs1] st] eqn:E1.
      destruct (run_op_q _ _ _ _ _ _ _ _ _ _ P (Sub o (or_introl eq_refl)) Wl E1) as [K1 W1].
      assert (Sub' : forall o0, In o0 r -> In o0 (s_prog s)) by (intros o0 Ho; apply Sub; right; exact Ho).
      destruct st.
      + destruct (run_ops (cfg_of_case sc) (s_cols s) fmts stop r w1 fs1 tl) as [[[evs2 w2] fs2] res2] eqn:E2.
        injection H as <- <- <- <-. destruct (IH _ _ _ _ _ _ _ Sub' W1 E2) as (A & B & C). split; [apply qall_app; assumption|split; assumption].
      + destruct stop.
        * injection H as <- <- <- <-. split; [exact K1|split; [exact W1|]].
          intros e He. destruct (w_last w1) as [e1|] eqn:L; [|discriminate]. injection He as <-. apply W1. exact L.
        * destruct (run_ops (cfg_of_case sc) (s_cols s) fmts false r w1 fs1 tl) as [[[evs2 w2] fs2] res2] eqn:E2.
          injection H as <- <- <- <-. destruct (IH _ _ _ _ _ _ _ Sub' W1 E2) as (A & B & C). split; [apply qall_app; assumption|split; assumption].
      + injection H as <- <- <- <-. split; [exact K1|split; [exact W1|discriminate]].
  Qed.

  Lemma wl_init : wl_ok w_init.
  Proof. intros e H. discriminate. Qed.

  Lemma run_stmt_q s fmts params fs tl evs fs' res :
    configured s -> run_stmt (cfg_of_case sc) s fmts params fs tl = (evs, fs', res) ->
    qall evs /\ (forall e, res = PErrR e -> err_src e).
  Proof.
    unfold run_stmt. intros P H.
    destruct (run_ops (cfg_of_case sc) (s_cols s) fmts (s_stop s) (s_prog s) w_init fs tl) as [[[evs0 w] fs0] r0] eqn:E.
    destruct (run_ops_q _ _ _ P _ _ _ _ _ _ _ _ (fun o Ho => Ho) wl_init E) as (A & B & C).
    injection H as <- <- <-. split; [apply qall_cons_other; [exact I|exact A]|].
    intros e He. destruct r0 as [r|].
    - subst r. apply C. reflexivity.
    - destruct (s_ret s) eqn:R; try discriminate.
      + injection He as <-. right. right. exists s. split; assumption.
      + destruct (w_last w) as [e1|] eqn:L; [|discriminate]. injection He as <-. apply B. exact L.
  Qed.

  Lemma define_q s fmts : configured s -> qall (define_evs (s_cols s) fmts).
  Proof.
    intros C. unfold define_evs, qall. destruct (s_cols s) eqn:E; [constructor|]. rewrite <- E.
    cbn [Oracles.outs flat_map app]. constructor; [apply Qdesc; exact C|constructor].
  Qed.
  Lemma describe_q s fmts r : configured s -> qall r -> qall (Out (describe_cols (s_cols s) fmts) :: r).
  Proof.
    intros C R. unfold describe_cols. destruct (s_cols s) eqn:E; [apply qall_cons_other; [exact I|exact R]|]. rewrite <- E.
    unfold qall. cbn [Oracles.outs flat_map app]. constructor; [apply Qdesc; exact C|exact R].
  Qed.

  Lemma run_stmts_q : forall ss fs tl evs fs' crashed,
    (forall s, In s ss -> configured s) -> run_stmts (cfg_of_case sc) ss fs tl = (evs, fs', crashed) -> qall evs.
  Proof.
    induction ss as [|s r IH]; intros fs tl evs fs' crashed P H; cbn [run_stmts] in H.
    - injection H as <- <- <-. neutral.
    - destruct (run_stmt (cfg_of_case sc) s [] [] fs tl) as [[evs1 fs1] res] eqn:E1.
      destruct (run_stmt_q _ _ _ _ _ _ _ _ (P s (or_introl eq_refl)) E1) as [K1 Ke].
      assert (P' : forall s0, In s0 r -> configured s0) by (intros s0 Hs; apply P; right; exact Hs).
      destruct res.
      + destruct (run_stmts (cfg_of_case sc) r fs1 tl) as [[evs2 fs2] cr] eqn:E2.
        injection H as <- <- <-. apply qall_app; [apply define_q; apply P; left; reflexivity|]. apply qall_app; [exact K1|]. eapply IH; eauto.
      + injection H as <- <- <-. apply qall_app; [apply define_q; apply P; left; reflexivity|]. apply qall_app; [exact K1|].
        apply qall_cons_err; [apply Ke; reflexivity|neutral].
      + injection H as <- <- <-. apply qall_app; [apply define_q; apply P; left; reflexivity|]. apply qall_app; [exact K1|neutral].
  Qed.

  (* every cached statement and every portal's statement comes from the parser table *)
  Definition st_conf (st : sst) : Prop :=
    (forall n s, alist_get n (st_stmts st) = Some s -> configured s) /\
    (forall n p, alist_get n (st_portals st) = Some p -> configured (p_stmt p)).

  Lemma cmd_q st f rest tl evs st' fs' k :
    st_conf st -> cmd (cfg_of_case sc) st f rest tl = (evs, st', fs', k) -> qall evs /\ st_conf st'.
  Proof.
    intros Iv H. pose proof Iv as [I1 I2].
    destruct f as [t body|t size [x|]|t size|]; cbn [cmd] in H.
    - destruct (st_discard st && negb (Byte.eqb t x53) && negb (Byte.eqb t x58)); [injection H as <- <- <- <-; split; [apply qall_nil|exact Iv]|].
      destruct (Byte.eqb t x51).
      { destruct (simple_query (cfg_of_case sc) body rest tl) as [[evs0 fs0] k0] eqn:Qq. injection H as <- <- <- <-. split; [|exact Iv].
        unfold simple_query in Qq. destruct (take_cstr body) as [[q r0]|]; [|injection Qq as <- <- <-; apply qall_nil].
        destruct (is_blank q); [injection Qq as <- <- <-; neutral|].
        cbn [cfg_of_case cfg_parse] in Qq.
        destruct (lookup_parse (sc_parse sc) q) as [e|ss] eqn:Ep.
        { injection Qq as <- <- <-. apply qall_cons_other; [exact I|]. apply qall_cons_err; [right; left; exists q; exact Ep|neutral]. }
        destruct ss as [|s1 r]; [injection Qq as <- <- <-; neutral|].
        destruct (run_stmts (cfg_of_case sc) (s1 :: r) rest tl) as [[evs1 fs1] cr] eqn:E. injection Qq as <- <- <-.
        apply qall_cons_other; [exact I|]. eapply run_stmts_q; eauto.
        intros s Hs. exists q, (s1 :: r). split; assumption. }
      destruct (Byte.eqb t x45).
      { unfold do_execute in H. destruct (take_cstr body) as [[name l1]|]; [|injection H as <- <- <- <-; split; [apply qall_nil|exact Iv]].
        destruct (p_u32 l1) as [pu|]; [|injection H as <- <- <- <-; split; [apply qall_nil|exact Iv]].
        destruct (alist_get name (st_portals st)) as [p|] eqn:G.
        - destruct (run_stmt (cfg_of_case sc) (p_stmt p) (p_rfmts p) (p_params p) rest tl) as [[evs1 fs1] res] eqn:E.
          destruct (run_stmt_q _ _ _ _ _ _ _ _ (I2 _ _ G) E) as [K Ke].
          destruct res; unfold ext_err in H; injection H as <- <- <- <-; (split; [|exact Iv]);
            [exact K|apply qall_app; [exact K|apply qall_cons_err; [apply Ke; reflexivity|apply qall_nil]]|apply qall_app; [exact K|neutral]].
        - unfold ext_err in H. injection H as <- <- <- <-. split; [neutral|exact Iv]. }
      destruct (Byte.eqb t x50).
      { destruct (do_parse (cfg_of_case sc) st body) as [[evs0 st0] k0] eqn:Qq. injection H as <- <- <- <-.
        unfold do_parse in Qq. destruct (take_cstr body) as [[name l1]|]; [|injection Qq as <- <- <-; split; [apply qall_nil|exact Iv]].
        destruct (take_cstr l1) as [[q l2]|]; [|injection Qq as <- <- <-; split; [apply qall_nil|exact Iv]].
        destruct (p_u16 l2) as [pu|]; [|injection Qq as <- <- <-; split; [apply qall_nil|exact Iv]].
        cbn [cfg_of_case cfg_parse] in Qq.
        destruct (lookup_parse (sc_parse sc) q) as [e|[|s1 [|s2 r]]] eqn:Ep; unfold ext_err in Qq; injection Qq as <- <- <-;
          [split; [apply qall_cons_other; [exact I|]; apply qall_cons_err; [right; left; exists q; exact Ep|apply qall_nil]|exact Iv]| | |];
          try (split; [neutral|exact Iv]).
        split; [neutral|]. split; cbn [st_stmts st_portals]; [|exact I2].
        apply alist_get_set_inv; [|exact I1]. exists q, [s1]. split; [exact Ep|left; reflexivity]. }
      destruct (Byte.eqb t x44).
      { destruct (do_describe st body) as [[evs0 st0] k0] eqn:Qq. injection H as <- <- <- <-.
        unfold do_describe in Qq. destruct body as [|kd l1]; [injection Qq as <- <- <-; split; [apply qall_nil|exact Iv]|].
        destruct (take_cstr l1) as [[name l2]|]; [|injection Qq as <- <- <-; split; [apply qall_nil|exact Iv]].
        destruct (Byte.eqb kd x53).
        + destruct (alist_get name (st_stmts st)) as [s0|] eqn:G; unfold ext_err in Qq; injection Qq as <- <- <-; (split; [|exact Iv]); [|neutral].
          unfold qall. cbn [Oracles.outs flat_map app]. constructor; [apply Qpd; eapply I1; eauto|].
          apply (describe_q s0 [] []); [eapply I1; eauto|apply qall_nil].
        + destruct (Byte.eqb kd x50); [|unfold ext_err in Qq; injection Qq as <- <- <-; split; [neutral|exact Iv]].
          destruct (alist_get name (st_portals st)) as [p|] eqn:G; unfold ext_err in Qq; injection Qq as <- <- <-; (split; [|exact Iv]); [|neutral].
          apply describe_q; [eapply I2; eauto|apply qall_nil]. }
      destruct (Byte.eqb t x53); [injection H as <- <- <- <-; split; [neutral|exact Iv]|].
      destruct (Byte.eqb t x42).
      { destruct (do_bind st body) as [[evs0 st0] k0] eqn:Qq. injection H as <- <- <- <-.
        unfold do_bind in Qq. destruct (decode_bind body) as [b|]; [|injection Qq as <- <- <-; split; [apply qall_nil|exact Iv]].
        destruct (alist_get (b_stmt b) (st_stmts st)) as [s0|] eqn:G; unfold ext_err in Qq; injection Qq as <- <- <-; [|split; [neutral|exact Iv]].
        split; [neutral|]. split; cbn [st_stmts st_portals]; [exact I1|].
        apply (alist_get_set_inv (fun p => configured (p_stmt p))); [|exact I2]. cbn. eapply I1; eauto. }
      destruct (Byte.eqb t x48); [injection H as <- <- <- <-; split; [apply qall_nil|exact Iv]|].
      destruct (Byte.eqb t x64 || Byte.eqb t x63 || Byte.eqb t x66); [injection H as <- <- <- <-; split; [apply qall_nil|exact Iv]|].
      destruct (Byte.eqb t x43).
      { destruct (do_close st body) as [[evs0 st0] k0] eqn:Qq. injection H as <- <- <- <-.
        unfold do_close in Qq. destruct body as [|kd l1]; [injection Qq as <- <- <-; split; [apply qall_nil|exact Iv]|].
        destruct (take_cstr l1) as [[name l2]|]; [|injection Qq as <- <- <-; split; [apply qall_nil|exact Iv]].
        destruct (Byte.eqb kd x53); [|destruct (Byte.eqb kd x50)]; unfold ext_err in Qq; injection Qq as <- <- <-.
        - split; [neutral|]. split; cbn [st_stmts st_portals]; [|exact I2]. apply alist_get_del_inv. exact I1.
        - split; [neutral|]. split; cbn [st_stmts st_portals]; [exact I1|]. apply (alist_get_del_inv (fun p => configured (p_stmt p))). exact I2.
        - split; [neutral|exact Iv]. }
      destruct (Byte.eqb t x58); [destruct (cfg_term (cfg_of_case sc))|]; injection H as <- <- <- <-; (split; [neutral|exact Iv]).
    - injection H as <- <- <- <-. split; [apply qall_nil|exact Iv].
    - destruct (do_oversize (cfg_of_case sc) st t size) as [evs0 st0] eqn:Qq. injection H as <- <- <- <-.
      unfold do_oversize in Qq. destruct (st_discard st && negb (Byte.eqb t x53)); [injection Qq as <- <-; split; [apply qall_nil|exact Iv]|].
      destruct (is_ext t); [unfold ext_err in Qq; injection Qq as <- <-; split; [neutral|exact Iv]|].
      destruct (Byte.eqb t x53); injection Qq as <- <-; (split; [neutral|exact Iv]).
    - destruct (do_oversize (cfg_of_case sc) st t size) as [evs0 st0] eqn:Qq. injection H as <- <- <- <-.
      unfold do_oversize in Qq. destruct (st_discard st && negb (Byte.eqb t x53)); [injection Qq as <- <-; split; [apply qall_nil|exact Iv]|].
      destruct (is_ext t); [unfold ext_err in Qq; injection Qq as <- <-; split; [neutral|exact Iv]|].
      destruct (Byte.eqb t x53); injection Qq as <- <-; (split; [neutral|exact Iv]).
    - injection H as <- <- <- <-. split; [apply qall_nil|exact Iv].
  Qed.

  Lemma loop_q tl : forall fuel st fs, st_conf st -> qall (loop fuel (cfg_of_case sc) st fs tl).
  Proof.
    induction fuel as [|fuel IH]; intros st fs Iv; [neutral|].
    destruct fs as [|f rest]; [neutral|]. cbn [loop].
    destruct (cmd (cfg_of_case sc) st f rest tl) as [[[evs st'] fs'] k] eqn:E.
    destruct (cmd_q _ _ _ _ _ _ _ _ Iv E) as [K I'].
    destruct k.
    - apply qall_cons_other; [exact I|]. apply qall_app; [exact K|]. apply IH. exact I'.
    - apply qall_cons_other; [exact I|]. apply qall_app; [exact K|neutral].
  Qed.

  Lemma st_init_conf : st_conf st_init.
  Proof. split; intros n x H; discriminate. Qed.

  Lemma auth_phase_q c cparams s evs rest ok : auth_phase c cparams s = (evs, rest, ok) -> qall evs.
  Proof.
    unfold auth_phase. intros H.
    destruct (cfg_auth c) as [validate|]; [|injection H as <- <- <-; neutral].
    destruct s as [|t [|a [|b [|c4 [|d r]]]]]; try (injection H as <- <- <-; neutral).
    destruct ((rd32 a b c4 d - 4 <? 0) || (rd32 a b c4 d - 4 >? eff_limit (cfg_limit c))); [injection H as <- <- <-; neutral|].
    destruct (takeZ (rd32 a b c4 d - 4) r) as [[body rest0]|]; [|injection H as <- <- <-; neutral].
    destruct (negb (Byte.eqb t x70)); [injection H as <- <- <-; neutral|].
    destruct (take_cstr body) as [[pw x]|]; [|injection H as <- <- <-; neutral].
    destruct (validate _ _ pw); injection H as <- <- <-; neutral.
  Qed.

  Lemma pstatus_q l : qall (map (fun kv : bytes * bytes => Out (BParamStatus (fst kv) (snd kv))) l).
  Proof. induction l as [|x r IH]; [apply qall_nil|]. cbn [map]. apply qall_cons_other; [exact I|exact IH]. Qed.

  Lemma run_mws_q : forall mws i, qall (fst (run_mws mws i)).
  Proof.
    induction mws as [|ok r IH]; intros i; [apply qall_nil|]. cbn [run_mws]. destruct ok; [|neutral].
    specialize (IH (i + 1)). destruct (run_mws r (i + 1)) as [evs res]. cbn [fst] in *. apply qall_cons_other; [exact I|exact IH].
  Qed.

  Lemma session_q after s : qall (session (cfg_of_case sc) after s).
  Proof.
    unfold session.
    destruct (read_params (S (List.length after)) after) as [cparams|]; [|neutral].
    destruct (auth_phase (cfg_of_case sc) cparams s) as [[aevs s'] ok] eqn:Ea.
    pose proof (auth_phase_q _ _ _ _ _ _ Ea) as Pa.
    destruct ok; cbn [negb]; [|apply qall_app; [exact Pa|neutral]].
    pose proof (run_mws_q (cfg_mws (cfg_of_case sc)) 0) as Pm.
    destruct (run_mws (cfg_mws (cfg_of_case sc)) 0) as [mevs mok]. cbn [fst] in Pm.
    destruct mok; cbn [negb].
    - destruct (frames (cfg_limit (cfg_of_case sc)) s') as [fs0 tl].
      apply qall_app; [exact Pa|]. apply qall_app; [apply pstatus_q|]. apply qall_app; [exact Pm|].
      apply qall_app; [neutral|]. apply loop_q. apply st_init_conf.
    - apply qall_app; [exact Pa|]. apply qall_app; [apply pstatus_q|]. apply qall_app; [exact Pm|neutral].
  Qed.

  (* the whole connection, whatever the first packets are (SSLRequest included) *)
  Theorem serve_q : qall (run_case sc).
  Proof.
    unfold run_case, serve.
    destruct (start (cfg_of_case sc) (sc_raw sc)) as [[[v after] rest]|]; [|neutral].
    destruct (v =? version_cancel); [neutral|].
    destruct (v =? version_ssl); [|apply session_q].
    destruct (cfg_tls (cfg_of_case sc)); apply qall_cons_other; try exact I.
    - destruct (sc_tlsin sc) as [plain|]; [|neutral].
      destruct (start (cfg_of_case sc) plain) as [[[v2 after2] rest2]|]; [|neutral].
      destruct (v2 =? version_cancel); [neutral|apply session_q].
    - destruct (start (cfg_of_case sc) rest) as [[[v2 after2] rest2]|]; [|neutral].
      destruct (v2 =? version_cancel); [neutral|apply session_q].
  Qed.
End Origin.

(* ---------- a row that was written decodes to the values written ---------- *)
(* field by field: NULL (no payload) exactly for the three NULL values, otherwise the bytes decode, in the
   format used for that column, to the value; the formats used are admissible *)
Fixpoint fields_decode (cols : list column) (fmts : list Z) (i : nat) (vs : list value) (fs : list (option bytes)) : Prop :=
  match cols, vs, fs with
  | [], _, [] => True
  | _, [], [] => True
  | c :: cr, v :: vr, x :: xr =>
      (fmt_for fmts i = 0 \/ fmt_for fmts i = 1 \/ v = VNil) /\
      (match x with
       | None => v = VNil \/ v = VNilPtr \/ v = VInvalid
       | Some b => typed (c_oid c) v = true -> decode_value (c_oid c) (fmt_for fmts i) b = dval_of_value v /\ dval_of_value v <> Some DNull
       end) /\ fields_decode cr fmts (S i) vr xr
  | _, _, _ => False
  end.

Lemma enc_fields_decode : forall cols fmts i vs fs,
  Session.enc_fields encode_value cols fmts i vs = RowOk fs -> fields_decode cols fmts i vs fs.
Proof.
  induction cols as [|c cr IH]; intros fmts i vs fs H.
  - cbn [Session.enc_fields] in H. injection H as <-. destruct vs; exact I.
  - destruct vs as [|v vr]; cbn [Session.enc_fields] in H; [injection H as <-; exact I|].
    destruct (encode_value (c_oid c) (fmt_for fmts i) v) as [b| | |] eqn:E; try discriminate.
    + destruct (Session.enc_fields encode_value cr fmts (S i) vr) as [fs'| |] eqn:E2; try discriminate. injection H as <-.
      cbn [fields_decode]. split; [|split; [|apply IH; exact E2]].
      * unfold encode_value in E. destruct v; try discriminate;
          (destruct (negb ((fmt_for fmts i =? 0) || (fmt_for fmts i =? 1))) eqn:F; [discriminate|];
           apply negb_false_iff, orb_prop in F as [F|F]; apply Z.eqb_eq in F; auto).
      * intros T.
        assert (F : fmt_for fmts i = 0 \/ fmt_for fmts i = 1).
        { unfold encode_value in E. destruct v; try discriminate;
            (destruct (negb ((fmt_for fmts i =? 0) || (fmt_for fmts i =? 1))) eqn:F; [discriminate|];
             apply negb_false_iff, orb_prop in F as [F|F]; apply Z.eqb_eq in F; auto). }
        split; [apply codec_roundtrip; assumption|].
        destruct v; cbn [dval_of_value]; try discriminate; unfold encode_value in E; try discriminate;
          destruct (negb ((fmt_for fmts i =? 0) || (fmt_for fmts i =? 1))); discriminate.
    + destruct (Session.enc_fields encode_value cr fmts (S i) vr) as [fs'| |] eqn:E2; try discriminate. injection H as <-.
      cbn [fields_decode].
      assert (N : v = VNil \/ v = VNilPtr \/ v = VInvalid).
      { destruct v; auto; exfalso; unfold encode_value in E;
          destruct (negb ((fmt_for fmts i =? 0) || (fmt_for fmts i =? 1))) eqn:F; try discriminate.
        all: revert E; unfold enc_int;
          repeat match goal with |- context [if ?b then _ else _] => destruct b end; discriminate. }
      split; [|split; [exact N|apply IH; exact E2]].
      destruct N as [->|[->| ->]]; [auto|..]; unfold encode_value in E;
        (destruct (negb ((fmt_for fmts i =? 0) || (fmt_for fmts i =? 1))) eqn:F; [discriminate|];
         apply negb_false_iff, orb_prop in F as [F|F]; apply Z.eqb_eq in F; auto).
Qed.

Lemma write_row_decode cols fmts vs fs :
  write_row encode_value cols fmts vs = RowOk fs ->
  List.length vs = List.length cols /\ List.length fs = List.length cols /\ fields_decode cols fmts 0 vs fs.
Proof.
  unfold write_row. destruct (negb (lenZ vs =? lenZ cols)) eqn:L; [discriminate|]. intros H.
  apply negb_false_iff, Z.eqb_eq in L. unfold lenZ in L. assert (Lv : List.length vs = List.length cols) by lia.
  split; [exact Lv|]. split; [|apply enc_fields_decode; exact H].
  clear L. revert vs fs Lv H. generalize 0%nat. induction cols as [|c cr IH]; intros i vs fs Lv H.
  - cbn [Session.enc_fields] in H. injection H as <-. reflexivity.
  - destruct vs as [|v vr]; [discriminate|]. cbn [Session.enc_fields] in H. cbn [List.length] in Lv.
    destruct (encode_value (c_oid c) (fmt_for fmts i) v); try discriminate;
      destruct (Session.enc_fields encode_value cr fmts (S i) vr) as [fs'| |] eqn:E2; try discriminate; injection H as <-;
      cbn [List.length]; f_equal; eapply IH; eauto.
Qed.

(* ---------- the theorem about whole connections ---------- *)
Definition row_from (sc : scase) (m : bmsg) : Prop :=
  match m with
  | BDataRow fields =>
      exists s vs fmts, configured sc s /\ In (HRow vs) (s_prog s) /\
        List.length vs = List.length (s_cols s) /\ List.length fields = List.length (s_cols s) /\
        fields_decode (s_cols s) fmts 0 vs fields
  | _ => True
  end.

Theorem rows_come_from_handlers sc : Forall (row_from sc) (Oracles.outs (run_case sc)).
Proof.
  apply (serve_q sc (row_from sc)).
  - intros m H. destruct m; try exact I. destruct H.
  - intros s _. exact I.
  - intros s fmts _. exact I.
  - intros s fmts vs fields C Hin W. destruct (write_row_decode _ _ _ _ W) as (A & B & D).
    exists s, vs, fmts. auto.
  - intros e _. exact I.
Qed.

(* ---------- where the ErrorResponse messages of a connection come from ---------- *)
(* each one is the rendering [err_fields] of an error value that is either one of the library's own errors or
   the very error a configured callback returned (the parse function for that query text, or the statement
   function of a configured statement): no path of the session adds, drops or recodes a decoration *)
Definition err_from (sc : scase) (m : bmsg) : Prop :=
  match m with
  | BError fs => exists e, err_src sc e /\ fs = err_fields (Some e)
  | _ => True
  end.

Theorem errors_come_from_callbacks sc : Forall (err_from sc) (Oracles.outs (run_case sc)).
Proof.
  apply (serve_q sc (err_from sc)).
  - intros m H. destruct m; try exact I; destruct H.
  - intros s _. exact I.
  - intros s fmts _. exact I.
  - intros s fmts vs fields _ _ _. exact I.
  - intros e H. exists e. split; [exact H|reflexivity].
Qed.

(* ---------- where the RowDescription messages come from ---------- *)
(* each one describes the columns of a configured statement (as many fields as it has columns, in order)
   under some result-format list *)
Definition desc_from (sc : scase) (m : bmsg) : Prop :=
  match m with
  | BRowDesc cds => exists s fmts, configured sc s /\ cds = coldescs (s_cols s) fmts 0 /\ List.length cds = List.length (s_cols s)
  | _ => True
  end.

Lemma coldescs_length : forall cols fmts i, List.length (coldescs cols fmts i) = List.length cols.
Proof. induction cols as [|c cr IH]; intros fmts i; [reflexivity|]. cbn [coldescs List.length]. rewrite IH. reflexivity. Qed.

Theorem rowdescs_come_from_statements sc : Forall (desc_from sc) (Oracles.outs (run_case sc)).
Proof.
  apply (serve_q sc (desc_from sc)).
  - intros m H. destruct m; try exact I; destruct H.
  - intros s _. exact I.
  - intros s fmts C. exists s, fmts. split; [exact C|split; [reflexivity|apply coldescs_length]].
  - intros s fmts vs fields _ _ _. exact I.
  - intros e _. exact I.
Qed.

(* ---------- where the ParameterDescription messages come from ---------- *)
Definition paramdesc_from (sc : scase) (m : bmsg) : Prop :=
  match m with
  | BParamDesc l => exists s, configured sc s /\ l = map (fun o : Z => o mod 4294967296) (s_poids s)
  | _ => True
  end.

Theorem paramdescs_come_from_statements sc : Forall (paramdesc_from sc) (Oracles.outs (run_case sc)).
Proof.
  apply (serve_q sc (paramdesc_from sc)).
  - intros m H. destruct m; try exact I; destruct H.
  - intros s C. exists s. split; [exact C|reflexivity].
  - intros s fmts _. exact I.
  - intros s fmts vs fields _ _ _. exact I.
  - intros e _. exact I.
Qed.
