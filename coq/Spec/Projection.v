(* Projection.v — how a log observed on the implementation is compared with
   the model's log.  Error values are compared by what Flatten makes of them
   (SQLSTATE, severity, text); a text the model leaves open ([any_text]) matches
   every text; ParameterStatus blocks are compared as sets (Go map order);
   [Consume] markers are not part of the comparison (they are compared through
   the lock-step offsets). *)
Require Import Wire.Bytes Spec.BackendSpec Wire.Errors Wire.Framing Wire.Session.
Local Open Scope Z_scope.

Definition has_any (b : bytes) : bool := existsb (fun x => Byte.eqb x x01) b.

(* model text vs implementation text *)
Definition text_match (m i : bytes) : bool := has_any m || bytes_eqb m i.

Definition opt_bytes_eqb (a b : option bytes) : bool :=
  match a, b with
  | None, None => true
  | Some x, Some y => bytes_eqb x y
  | _, _ => false
  end.

Fixpoint list_eqb {A} (eq : A -> A -> bool) (a b : list A) : bool :=
  match a, b with
  | [], [] => true
  | x :: a', y :: b' => eq x y && list_eqb eq a' b'
  | _, _ => false
  end.

Definition efield_match (m i : byte * bytes) : bool :=
  Byte.eqb (fst m) (fst i) &&
  (if Byte.eqb (fst m) x4d then text_match (snd m) (snd i) else bytes_eqb (snd m) (snd i)).

Definition coldesc_eqb (a b : coldesc) : bool :=
  bytes_eqb (cd_name a) (cd_name b) && (cd_table a =? cd_table b) && (cd_attr a =? cd_attr b) &&
  (cd_oid a =? cd_oid b) && (cd_width a =? cd_width b) && (cd_typmod a =? cd_typmod b) &&
  (cd_fmt a =? cd_fmt b).

Definition bmsg_match (m i : bmsg) : bool :=
  match m, i with
  | BAuth a, BAuth b => a =? b
  | BParamStatus k v, BParamStatus k' v' => bytes_eqb k k' && bytes_eqb v v'
  | BReady a, BReady b => Byte.eqb a b
  | BRowDesc a, BRowDesc b => list_eqb coldesc_eqb a b
  | BDataRow a, BDataRow b => list_eqb opt_bytes_eqb a b
  | BComplete a, BComplete b => bytes_eqb a b
  | BEmptyQuery, BEmptyQuery => true
  | BError a, BError b => list_eqb efield_match a b
  | BParseComplete, BParseComplete => true
  | BBindComplete, BBindComplete => true
  | BCloseComplete, BCloseComplete => true
  | BNoData, BNoData => true
  | BParamDesc a, BParamDesc b => list_eqb Z.eqb a b
  | BCopyIn f a, BCopyIn g b => (f =? g) && list_eqb Z.eqb a b
  | _, _ => false
  end.

Definition err_match (m i : err) : bool :=
  bytes_eqb (get_code m) (get_code i) &&
  bytes_eqb (default_severity (get_severity m)) (default_severity (get_severity i)) &&
  text_match (err_text m) (err_text i).

Definition opres_match (m i : opres) : bool :=
  match m, i with
  | OOk, OOk => true
  | OErr a, OErr b => err_match a b
  | OEof, OEof => true
  | OData a, OData b => bytes_eqb a b
  | OWritten a, OWritten b => a =? b
  | ONoReader, ONoReader => true
  | _, _ => false
  end.

Definition param_eqb (a b : Z * option bytes) : bool :=
  (fst a =? fst b) && opt_bytes_eqb (snd a) (snd b).

Definition ev_match (m i : ev) : bool :=
  match m, i with
  | Out a, Out b => bmsg_match a b
  | RawOut a, RawOut b => Byte.eqb a b
  | Consume, Consume => true
  | CbValidate a b c, CbValidate a' b' c' => bytes_eqb a a' && bytes_eqb b b' && bytes_eqb c c'
  | CbMw a, CbMw b => a =? b
  | CbParse a, CbParse b => bytes_eqb a b
  | CbExec s ps, CbExec s' ps' => (s =? s') && list_eqb param_eqb ps ps'
  | CbOp a, CbOp b => opres_match a b
  | CbTerminate, CbTerminate => true
  | Crash, Crash => true
  | Closed, Closed => true
  | OutOfFuel, OutOfFuel => true
  | _, _ => false
  end.

Definition is_consume (e : ev) : bool := match e with Consume => true | _ => false end.
Definition is_pstatus (e : ev) : bool := match e with Out (BParamStatus _ _) => true | _ => false end.

(* remove the first element of [l] matching [m] *)
Fixpoint remove_match (m : ev) (l : list ev) : option (list ev) :=
  match l with
  | [] => None
  | x :: r => if ev_match m x then Some r
              else match remove_match m r with Some r' => Some (x :: r') | None => None end
  end.

(* the model's ParameterStatus block [ms] is a permutation of the prefix of the
   implementation's log of the same length; returns the remaining impl log *)
Fixpoint match_block (ms : list ev) (block : list ev) : bool :=
  match ms with
  | [] => match block with [] => true | _ => false end
  | m :: r => match remove_match m block with Some block' => match_block r block' | None => false end
  end.

Fixpoint span {A} (p : A -> bool) (l : list A) : list A * list A :=
  match l with
  | x :: r => if p x then let (a, b) := span p r in (x :: a, b) else ([], l)
  | [] => ([], [])
  end.

Fixpoint log_match_fuel (fuel : nat) (m i : list ev) : bool :=
  match fuel with
  | O => false
  | S f =>
      match m, i with
      | [], [] => true
      | x :: m', y :: i' =>
          if is_pstatus x then
            let (mb, mr) := span is_pstatus m in
            let (ib, ir) := span is_pstatus i in
            match_block mb ib && log_match_fuel f mr ir
          else ev_match x y && log_match_fuel f m' i'
      | _, _ => false
      end
  end.

Definition strip_consume (l : list ev) : list ev := filter (fun e => negb (is_consume e)) l.

(* [model] and [impl] must both carry Consume markers (lock-step delivery) or
   both not (the caller strips the model's) *)
Definition log_match (model impl : list ev) : bool :=
  log_match_fuel (S (length model)) model impl.
