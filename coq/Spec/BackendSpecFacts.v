(* BackendSpecFacts.v — round-trip theorems for the backend message codec of
   BackendSpec.v:  parse (enc m) = m  for well-formed messages / streams, and
   the converse  enc (parse bs) = bs  (strict parsing is injective). *)
Require Import Wire.Bytes Spec.BackendSpec.
From Coq Require Import ZifyN ZifyNat ZifyBool.
Local Open Scope Z_scope.

Ltac Zify.zify_post_hook ::= Z.div_mod_to_equations.

(* ------------------------------------------------------------------ *)
(* bytes <-> numbers                                                   *)
(* ------------------------------------------------------------------ *)

Lemma bZ_range (b : byte) : 0 <= bZ b < 256.
Proof. unfold bZ. pose proof (Byte.to_N_bounded b) as H. lia. Qed.

Lemma to_N_byte_of_N (n : N) : (n < 256)%N -> Byte.to_N (byte_of_N n) = n.
Proof.
  intros H. unfold byte_of_N. rewrite N.mod_small by exact H.
  destruct (Byte.of_N n) as [b|] eqn:E.
  - apply Byte.to_of_N. exact E.
  - apply Byte.of_N_None_iff in E. lia.
Qed.

Lemma bZ_byte_of_Z (z : Z) : bZ (byte_of_Z z) = z mod 256.
Proof.
  pose proof (Z.mod_pos_bound z 256 ltac:(lia)) as Hb.
  unfold byte_of_Z, bZ. rewrite to_N_byte_of_N.
  - rewrite Z2N.id; [reflexivity | lia].
  - lia.
Qed.

Lemma byte_of_Z_bZ (b : byte) : byte_of_Z (bZ b) = b.
Proof.
  pose proof (Byte.to_N_bounded b) as Hb.
  unfold byte_of_Z, bZ, byte_of_N.
  rewrite Z.mod_small by lia. rewrite N2Z.id.
  rewrite N.mod_small by lia. rewrite Byte.of_to_N. reflexivity.
Qed.

Lemma byte_of_Z_mod (z : Z) : byte_of_Z (z mod 256) = byte_of_Z z.
Proof. unfold byte_of_Z. rewrite Z.mod_mod by lia. reflexivity. Qed.

Lemma byte_of_Z_eq (z : Z) (b : byte) : z mod 256 = bZ b -> byte_of_Z z = b.
Proof. intros H. rewrite <- byte_of_Z_mod, H. apply byte_of_Z_bZ. Qed.

Lemma u16_ok_spec z : u16_ok z = true -> 0 <= z < 65536.
Proof. unfold u16_ok. lia. Qed.

Lemma u32_ok_spec z : u32_ok z = true -> 0 <= z < 4294967296.
Proof. unfold u32_ok. lia. Qed.

Lemma be16_shape z :
  exists a b, be16 z = [a; b] /\ (0 <= z < 65536 -> rd16 a b = z).
Proof.
  unfold be16. cbv zeta. eexists. eexists. split; [reflexivity|].
  intros H. unfold rd16. rewrite !bZ_byte_of_Z. lia.
Qed.

Lemma be32_shape z :
  exists a b c d, be32 z = [a; b; c; d] /\ (0 <= z < 4294967296 -> rd32 a b c d = z).
Proof.
  unfold be32. cbv zeta. do 4 eexists. split; [reflexivity|].
  intros H. unfold rd32. rewrite !bZ_byte_of_Z. lia.
Qed.

Lemma p_u8_enc f r : 0 <= f < 256 -> p_u8 (byte_of_Z f :: r) = Some (f, r).
Proof.
  intros H. unfold p_u8. rewrite bZ_byte_of_Z. rewrite Z.mod_small by lia. reflexivity.
Qed.

Lemma p_u16_be16 z r : 0 <= z < 65536 -> p_u16 (be16 z ++ r) = Some (z, r).
Proof.
  intros H. destruct (be16_shape z) as (a & b & E & R). rewrite E.
  cbn [app]. unfold p_u16. rewrite (R H). reflexivity.
Qed.

Lemma p_u32_be32 z r : 0 <= z < 4294967296 -> p_u32 (be32 z ++ r) = Some (z, r).
Proof.
  intros H. destruct (be32_shape z) as (a & b & c & d & E & R). rewrite E.
  cbn [app]. unfold p_u32. rewrite (R H). reflexivity.
Qed.

Lemma p_u16_ok z r : u16_ok z = true -> p_u16 (be16 z ++ r) = Some (z, r).
Proof. intros H. apply p_u16_be16, u16_ok_spec, H. Qed.

Lemma p_u32_ok z r : u32_ok z = true -> p_u32 (be32 z ++ r) = Some (z, r).
Proof. intros H. apply p_u32_be32, u32_ok_spec, H. Qed.

(* ------------------------------------------------------------------ *)
(* C strings, counted byte strings                                     *)
(* ------------------------------------------------------------------ *)

Lemma take_cstr_app s r : nul_free s = true -> take_cstr (s ++ x00 :: r) = Some (s, r).
Proof.
  induction s as [|b s IH]; intros H.
  - reflexivity.
  - cbn [nul_free] in H. apply andb_prop in H. destruct H as [H1 H2].
    apply negb_true_iff in H1. cbn [app take_cstr]. rewrite H1.
    rewrite (IH H2). reflexivity.
Qed.

Lemma p_cstr_cstr s r : nul_free s = true -> p_cstr (cstr s ++ r) = Some (s, r).
Proof.
  intros H. unfold p_cstr, cstr. rewrite <- app_assoc. cbn [app].
  apply take_cstr_app. exact H.
Qed.

Lemma takeZ_nil n : takeZ n [] = if n <=? 0 then Some ([], []) else None.
Proof. reflexivity. Qed.

Lemma takeZ_cons n x r :
  takeZ n (x :: r) =
  if n <=? 0 then Some ([], x :: r)
  else match takeZ (n - 1) r with
       | Some (a, b) => Some (x :: a, b)
       | None => None
       end.
Proof. reflexivity. Qed.

Lemma takeZ_le0 n l : n <= 0 -> takeZ n l = Some ([], l).
Proof.
  intros H. destruct l as [|x r].
  - rewrite takeZ_nil. destruct (n <=? 0) eqn:E; [reflexivity | lia].
  - rewrite takeZ_cons. destruct (n <=? 0) eqn:E; [reflexivity | lia].
Qed.

Lemma lenZ_cons {A} (x : A) l : lenZ (x :: l) = lenZ l + 1.
Proof. unfold lenZ. cbn [length]. lia. Qed.

Lemma lenZ_nonneg {A} (l : list A) : 0 <= lenZ l.
Proof. unfold lenZ. lia. Qed.

Lemma takeZ_app_gen v r : forall n, n = lenZ v -> takeZ n (v ++ r) = Some (v, r).
Proof.
  induction v as [|x v IH]; intros n Hn.
  - cbn [app]. apply takeZ_le0. unfold lenZ in Hn. cbn [length] in Hn. lia.
  - cbn [app]. rewrite takeZ_cons. rewrite lenZ_cons in Hn.
    pose proof (lenZ_nonneg v) as Hv.
    destruct (n <=? 0) eqn:E; [lia|].
    rewrite (IH (n - 1)) by lia. reflexivity.
Qed.

Lemma takeZ_app v r : takeZ (lenZ v) (v ++ r) = Some (v, r).
Proof. apply takeZ_app_gen. reflexivity. Qed.

(* ------------------------------------------------------------------ *)
(* repetition                                                          *)
(* ------------------------------------------------------------------ *)

Lemma p_rep_flat_map {A} (p : parser A) (enc : A -> bytes) (ok : A -> bool) :
  (forall x r, ok x = true -> p (enc x ++ r) = Some (x, r)) ->
  forall xs r, forallb ok xs = true ->
    p_rep (length xs) p (flat_map enc xs ++ r) = Some (xs, r).
Proof.
  intros Hp. induction xs as [|x xs IH]; intros r H.
  - reflexivity.
  - cbn [forallb] in H. apply andb_prop in H. destruct H as [H1 H2].
    cbn [length flat_map p_rep]. rewrite <- app_assoc.
    rewrite (Hp x _ H1). rewrite (IH r H2). reflexivity.
Qed.

Lemma p_rep_flat_map_nil {A} (p : parser A) (enc : A -> bytes) (ok : A -> bool) :
  (forall x r, ok x = true -> p (enc x ++ r) = Some (x, r)) ->
  forall xs, forallb ok xs = true ->
    p_rep (length xs) p (flat_map enc xs) = Some (xs, []).
Proof.
  intros Hp xs H. rewrite <- (app_nil_r (flat_map enc xs)).
  apply (p_rep_flat_map p enc ok Hp). exact H.
Qed.

Lemma to_nat_lenZ {A} (l : list A) : Z.to_nat (lenZ l) = length l.
Proof. unfold lenZ. apply Nat2Z.id. Qed.

(* ------------------------------------------------------------------ *)
(* single items                                                        *)
(* ------------------------------------------------------------------ *)

Ltac split_andb :=
  repeat match goal with
         | H : _ && _ = true |- _ =>
             let H1 := fresh H in apply andb_prop in H; destruct H as [H H1]
         end.

Lemma p_col_enc c r : wf_col c = true -> p_col (enc_col c ++ r) = Some (c, r).
Proof.
  intros H. unfold wf_col in H. split_andb.
  unfold enc_col, p_col. rewrite <- !app_assoc.
  rewrite p_cstr_cstr by assumption.
  rewrite p_u32_ok by assumption.
  rewrite p_u16_ok by assumption.
  rewrite p_u32_ok by assumption.
  rewrite p_u16_ok by assumption.
  rewrite p_u32_ok by assumption.
  rewrite p_u16_ok by assumption.
  destruct c; reflexivity.
Qed.

Lemma p_field_enc f r : wf_field f = true -> p_field (enc_field f ++ r) = Some (f, r).
Proof.
  intros H. destruct f as [v|]; unfold enc_field, p_field.
  - cbn [wf_field] in H. pose proof (lenZ_nonneg v) as Hv.
    rewrite <- app_assoc. rewrite p_u32_be32 by lia.
    destruct (lenZ v =? 4294967295) eqn:E1; [lia|].
    destruct (lenZ v >=? 2147483648) eqn:E2; [lia|].
    rewrite takeZ_app. reflexivity.
  - rewrite p_u32_be32 by lia. rewrite Z.eqb_refl. reflexivity.
Qed.

(* ------------------------------------------------------------------ *)
(* ErrorResponse fields                                                *)
(* ------------------------------------------------------------------ *)

Lemma p_efields_none_cons b r :
  p_efields None (b :: r) =
  if Byte.eqb b x00 then (match r with [] => Some [] | _ => None end)
  else p_efields (Some (b, [])) r.
Proof. reflexivity. Qed.

Lemma p_efields_some_cons c acc b r :
  p_efields (Some (c, acc)) (b :: r) =
  if Byte.eqb b x00 then
    match p_efields None r with
    | Some fs => Some ((c, rev acc) :: fs)
    | None => None
    end
  else p_efields (Some (c, b :: acc)) r.
Proof. reflexivity. Qed.

Lemma p_efields_value s : forall c acc rest, nul_free s = true ->
  p_efields (Some (c, acc)) (s ++ x00 :: rest) =
  match p_efields None rest with
  | Some fs => Some ((c, rev acc ++ s) :: fs)
  | None => None
  end.
Proof.
  induction s as [|b s IH]; intros c acc rest H.
  - cbn [app]. rewrite p_efields_some_cons. cbn [Byte.eqb]. rewrite app_nil_r.
    reflexivity.
  - cbn [nul_free] in H. apply andb_prop in H. destruct H as [H1 H2].
    apply negb_true_iff in H1. cbn [app]. rewrite p_efields_some_cons. rewrite H1.
    rewrite IH by exact H2. cbn [rev]. rewrite <- app_assoc. reflexivity.
Qed.

Lemma p_efields_enc fs : forallb wf_efield fs = true ->
  p_efields None (flat_map enc_efield fs ++ [x00]) = Some fs.
Proof.
  induction fs as [|[c s] fs IH]; intros H.
  - reflexivity.
  - cbn [forallb] in H. apply andb_prop in H. destruct H as [H1 H2].
    unfold wf_efield in H1. cbn [fst snd] in H1.
    apply andb_prop in H1. destruct H1 as [Hc Hs]. apply negb_true_iff in Hc.
    cbn [flat_map]. unfold enc_efield at 1. cbn [fst snd]. unfold cstr.
    cbn [app]. rewrite <- !app_assoc. cbn [app].
    rewrite p_efields_none_cons. rewrite Hc.
    rewrite (p_efields_value s c [] _ Hs). rewrite (IH H2). reflexivity.
Qed.

(* ------------------------------------------------------------------ *)
(* Theorem 1: one message                                              *)
(* ------------------------------------------------------------------ *)

Ltac pb_red :=
  cbv beta iota zeta delta [parse_bmsg bN Byte.to_N N.eqb Pos.eqb].

Theorem parse_enc_bmsg : forall m, wf_bmsg m = true -> parse_bmsg (msg_type m) (msg_body m) = Some m.
Proof.
  intros m H. destruct m; cbn [msg_type msg_body wf_bmsg] in *; pb_red.
  - (* BAuth *)
    rewrite <- (app_nil_r (be32 code)). rewrite p_u32_be32 by lia.
    cbn [complete]. rewrite H. reflexivity.
  - (* BParamStatus *)
    split_andb. rewrite p_cstr_cstr by assumption.
    rewrite <- (app_nil_r (cstr v)). rewrite p_cstr_cstr by assumption.
    reflexivity.
  - (* BReady *)
    rewrite H. reflexivity.
  - (* BRowDesc *)
    split_andb. rewrite p_u16_be16 by (pose proof (lenZ_nonneg cols); lia).
    rewrite to_nat_lenZ.
    rewrite (p_rep_flat_map_nil p_col enc_col wf_col p_col_enc) by assumption.
    reflexivity.
  - (* BDataRow *)
    split_andb. rewrite p_u16_be16 by (pose proof (lenZ_nonneg fields); lia).
    rewrite to_nat_lenZ.
    rewrite (p_rep_flat_map_nil p_field enc_field wf_field p_field_enc) by assumption.
    reflexivity.
  - (* BComplete *)
    rewrite <- (app_nil_r (cstr tag)). rewrite p_cstr_cstr by assumption.
    reflexivity.
  - reflexivity.
  - (* BError *)
    rewrite (p_efields_enc fields H). reflexivity.
  - reflexivity.
  - reflexivity.
  - reflexivity.
  - reflexivity.
  - (* BParamDesc *)
    split_andb. rewrite p_u16_be16 by (pose proof (lenZ_nonneg oids); lia).
    rewrite to_nat_lenZ.
    rewrite (p_rep_flat_map_nil p_u32 be32 u32_ok p_u32_ok) by assumption.
    reflexivity.
  - (* BCopyIn *)
    split_andb. cbn [app]. rewrite p_u8_enc by lia.
    rewrite p_u16_be16 by (pose proof (lenZ_nonneg cols); lia).
    rewrite to_nat_lenZ.
    rewrite (p_rep_flat_map_nil p_u16 be16 u16_ok p_u16_ok) by assumption.
    reflexivity.
Qed.

(* ------------------------------------------------------------------ *)
(* Theorem 2: streams                                                  *)
(* ------------------------------------------------------------------ *)

Lemma parse_stream_fuel_nil fuel : parse_stream_fuel fuel [] = Some [].
Proof. destruct fuel; reflexivity. Qed.

Lemma parse_stream_fuel_frame f t a b c d r :
  parse_stream_fuel (S f) (t :: a :: b :: c :: d :: r) =
  let n := rd32 a b c d in
  if n <? 4 then None
  else match takeZ (n - 4) r with
       | Some (body, rest) =>
           match parse_bmsg t body with
           | Some m => match parse_stream_fuel f rest with
                       | Some ms => Some (m :: ms)
                       | None => None
                       end
           | None => None
           end
       | None => None
       end.
Proof. reflexivity. Qed.

Lemma parse_stream_fuel_enc : forall ms fuel,
  forallb wf_msg ms = true -> (length ms <= fuel)%nat ->
  parse_stream_fuel fuel (enc_stream ms) = Some ms.
Proof.
  induction ms as [|m ms IH]; intros fuel H Hf.
  - apply parse_stream_fuel_nil.
  - cbn [forallb] in H. apply andb_prop in H. destruct H as [Hm Hms].
    unfold wf_msg in Hm. apply andb_prop in Hm. destruct Hm as [Hwf Hsz].
    unfold wf_size in Hsz. pose proof (lenZ_nonneg (msg_body m)) as Hb.
    destruct fuel as [|f]; [cbn [length] in Hf; lia|].
    unfold enc_stream. cbn [flat_map]. fold (enc_stream ms).
    unfold enc_bmsg, frame_bytes.
    destruct (be32_shape (4 + lenZ (msg_body m))) as (a & b & c & d & E & R).
    rewrite E. cbn [app]. rewrite parse_stream_fuel_frame. cbv zeta.
    rewrite R by lia.
    destruct (4 + lenZ (msg_body m) <? 4) eqn:E4; [lia|].
    replace (4 + lenZ (msg_body m) - 4) with (lenZ (msg_body m)) by lia.
    rewrite takeZ_app. rewrite (parse_enc_bmsg m Hwf).
    rewrite IH; [reflexivity | exact Hms | cbn [length] in Hf; lia].
Qed.

Lemma length_enc_stream ms : (length ms <= length (enc_stream ms))%nat.
Proof.
  induction ms as [|m ms IH].
  - cbn. lia.
  - unfold enc_stream in *. cbn [flat_map length]. rewrite app_length.
    unfold enc_bmsg at 1, frame_bytes. cbn [length]. lia.
Qed.

Theorem parse_enc_stream : forall ms, forallb wf_msg ms = true -> parse_stream (enc_stream ms) = Some ms.
Proof.
  intros ms H. unfold parse_stream. apply parse_stream_fuel_enc.
  - exact H.
  - apply length_enc_stream.
Qed.

(* ------------------------------------------------------------------ *)
(* Converse direction: what parses re-encodes to itself                *)
(* ------------------------------------------------------------------ *)

Lemma rd16_range a b : 0 <= rd16 a b < 65536.
Proof. pose proof (bZ_range a). pose proof (bZ_range b). unfold rd16. lia. Qed.

Lemma rd32_range a b c d : 0 <= rd32 a b c d < 4294967296.
Proof.
  pose proof (bZ_range a). pose proof (bZ_range b).
  pose proof (bZ_range c). pose proof (bZ_range d). unfold rd32. lia.
Qed.

Lemma be16_rd16 a b : be16 (rd16 a b) = [a; b].
Proof.
  pose proof (bZ_range a) as Ha. pose proof (bZ_range b) as Hb.
  unfold be16, rd16. cbv zeta.
  f_equal; [|f_equal]; apply byte_of_Z_eq; lia.
Qed.

Lemma be32_rd32 a b c d : be32 (rd32 a b c d) = [a; b; c; d].
Proof.
  pose proof (bZ_range a) as Ha. pose proof (bZ_range b) as Hb.
  pose proof (bZ_range c) as Hc. pose proof (bZ_range d) as Hd.
  unfold be32, rd32. cbv zeta.
  f_equal; [|f_equal; [|f_equal; [|f_equal]]]; apply byte_of_Z_eq; lia.
Qed.

Lemma p_u8_inv l f r : p_u8 l = Some (f, r) -> l = byte_of_Z f :: r /\ 0 <= f < 256.
Proof.
  destruct l as [|a l]; intros H; [discriminate H|].
  unfold p_u8 in H. injection H as <- <-. rewrite byte_of_Z_bZ.
  split; [reflexivity | apply bZ_range].
Qed.

Lemma p_u16_inv l z r : p_u16 l = Some (z, r) -> l = be16 z ++ r /\ 0 <= z < 65536.
Proof.
  destruct l as [|a [|b l]]; intros H; try discriminate H.
  unfold p_u16 in H. injection H as <- <-. rewrite be16_rd16.
  split; [reflexivity | apply rd16_range].
Qed.

Lemma p_u32_inv l z r : p_u32 l = Some (z, r) -> l = be32 z ++ r /\ 0 <= z < 4294967296.
Proof.
  destruct l as [|a [|b [|c [|d l]]]]; intros H; try discriminate H.
  unfold p_u32 in H. injection H as <- <-. rewrite be32_rd32.
  split; [reflexivity | apply rd32_range].
Qed.

Lemma take_cstr_inv : forall l s r, take_cstr l = Some (s, r) ->
  l = s ++ x00 :: r /\ nul_free s = true.
Proof.
  induction l as [|b l IH]; intros s r H.
  - discriminate H.
  - cbn [take_cstr] in H. destruct (Byte.eqb b x00) eqn:E.
    + apply Byte.byte_dec_bl in E. subst b. injection H as <- <-.
      split; reflexivity.
    + destruct (take_cstr l) as [[s' t]|] eqn:E2; [|discriminate H].
      injection H as <- <-. destruct (IH s' t eq_refl) as [-> Hn].
      split; [reflexivity|]. cbn [nul_free]. rewrite E, Hn. reflexivity.
Qed.

Lemma p_cstr_inv l s r : p_cstr l = Some (s, r) -> l = cstr s ++ r.
Proof.
  intros H. apply take_cstr_inv in H. destruct H as [-> _].
  unfold cstr. rewrite <- app_assoc. reflexivity.
Qed.

Lemma takeZ_inv : forall l n a b, takeZ n l = Some (a, b) ->
  l = a ++ b /\ (0 <= n -> lenZ a = n).
Proof.
  induction l as [|x l IH]; intros n a b H.
  - rewrite takeZ_nil in H. destruct (n <=? 0) eqn:E; [|discriminate H].
    injection H as <- <-. split; [reflexivity|]. unfold lenZ. cbn [length]. lia.
  - rewrite takeZ_cons in H. destruct (n <=? 0) eqn:E.
    + injection H as <- <-. split; [reflexivity|]. unfold lenZ. cbn [length]. lia.
    + destruct (takeZ (n - 1) l) as [[a' b']|] eqn:E2; [|discriminate H].
      injection H as <- <-. destruct (IH _ _ _ E2) as [-> Hl].
      split; [reflexivity|]. intros Hn. rewrite lenZ_cons. lia.
Qed.

Lemma p_rep_inv {A} (p : parser A) (enc : A -> bytes) :
  (forall l x r, p l = Some (x, r) -> l = enc x ++ r) ->
  forall n l xs r, p_rep n p l = Some (xs, r) ->
    l = flat_map enc xs ++ r /\ length xs = n.
Proof.
  intros Hp. induction n as [|n IH]; intros l xs r H.
  - cbn [p_rep] in H. injection H as <- <-. split; reflexivity.
  - cbn [p_rep] in H. destruct (p l) as [[x r0]|] eqn:E; [|discriminate H].
    destruct (p_rep n p r0) as [[xs' r']|] eqn:E2; [|discriminate H].
    injection H as <- <-. apply Hp in E. destruct (IH _ _ _ E2) as [-> Hl].
    subst l. cbn [flat_map length]. rewrite <- app_assoc.
    split; [reflexivity | lia].
Qed.

Lemma complete_inv {A} (r : option (A * bytes)) x : complete r = Some x -> r = Some (x, []).
Proof.
  destruct r as [[y [|b l]]|]; intros H; try discriminate H.
  cbn [complete] in H. injection H as <-. reflexivity.
Qed.

Lemma p_rep_complete_inv {A} (p : parser A) (enc : A -> bytes) k l xs :
  (forall l x r, p l = Some (x, r) -> l = enc x ++ r) ->
  0 <= k < 65536 ->
  complete (p_rep (Z.to_nat k) p l) = Some xs ->
  l = flat_map enc xs /\ lenZ xs = k.
Proof.
  intros Hp Hk H. apply complete_inv in H.
  destruct (p_rep_inv p enc Hp _ _ _ _ H) as [-> Hl].
  rewrite app_nil_r. split; [reflexivity|]. unfold lenZ. lia.
Qed.

Lemma p_u16_inv' l z r : p_u16 l = Some (z, r) -> l = be16 z ++ r.
Proof. intros H. apply p_u16_inv in H. tauto. Qed.

Lemma p_u32_inv' l z r : p_u32 l = Some (z, r) -> l = be32 z ++ r.
Proof. intros H. apply p_u32_inv in H. tauto. Qed.

Lemma p_col_inv l c r : p_col l = Some (c, r) -> l = enc_col c ++ r.
Proof.
  intros H. unfold p_col in H.
  destruct (p_cstr l) as [[name l1]|] eqn:E1; [|discriminate H].
  destruct (p_u32 l1) as [[table l2]|] eqn:E2; [|discriminate H].
  destruct (p_u16 l2) as [[attr l3]|] eqn:E3; [|discriminate H].
  destruct (p_u32 l3) as [[oid l4]|] eqn:E4; [|discriminate H].
  destruct (p_u16 l4) as [[width l5]|] eqn:E5; [|discriminate H].
  destruct (p_u32 l5) as [[typmod l6]|] eqn:E6; [|discriminate H].
  destruct (p_u16 l6) as [[fmt l7]|] eqn:E7; [|discriminate H].
  injection H as <- <-.
  apply p_cstr_inv in E1. apply p_u32_inv' in E2. apply p_u16_inv' in E3.
  apply p_u32_inv' in E4. apply p_u16_inv' in E5. apply p_u32_inv' in E6.
  apply p_u16_inv' in E7. subst.
  unfold enc_col. cbn [cd_name cd_table cd_attr cd_oid cd_width cd_typmod cd_fmt].
  rewrite <- !app_assoc. reflexivity.
Qed.

Lemma p_field_inv l f r : p_field l = Some (f, r) -> l = enc_field f ++ r.
Proof.
  intros H. unfold p_field in H.
  destruct (p_u32 l) as [[n r0]|] eqn:E; [|discriminate H].
  apply p_u32_inv in E. destruct E as [-> Hn].
  destruct (n =? 4294967295) eqn:E1.
  - injection H as <- <-. cbn [enc_field]. f_equal. f_equal. lia.
  - destruct (n >=? 2147483648) eqn:E2; [discriminate H|].
    destruct (takeZ n r0) as [[v r']|] eqn:E3; [|discriminate H].
    injection H as <- <-. apply takeZ_inv in E3. destruct E3 as [-> Hl].
    cbn [enc_field]. rewrite Hl by lia. rewrite <- app_assoc. reflexivity.
Qed.

Lemma p_efields_inv : forall l st fs, p_efields st l = Some fs ->
  match st with
  | None => l = flat_map enc_efield fs ++ [x00]
  | Some (c, acc) =>
      exists s fs', fs = (c, rev acc ++ s) :: fs' /\
                    l = s ++ x00 :: flat_map enc_efield fs' ++ [x00]
  end.
Proof.
  induction l as [|b l IH]; intros st fs H.
  - destruct st as [[c acc]|]; discriminate H.
  - destruct st as [[c acc]|].
    + rewrite p_efields_some_cons in H. destruct (Byte.eqb b x00) eqn:E.
      * apply Byte.byte_dec_bl in E. subst b.
        destruct (p_efields None l) as [fs'|] eqn:E2; [|discriminate H].
        injection H as <-. apply IH in E2. subst l.
        exists [], fs'. rewrite app_nil_r. split; reflexivity.
      * apply IH in H. destruct H as (s & fs' & -> & ->).
        exists (b :: s), fs'. cbn [rev]. rewrite <- app_assoc.
        split; reflexivity.
    + rewrite p_efields_none_cons in H. destruct (Byte.eqb b x00) eqn:E.
      * apply Byte.byte_dec_bl in E. subst b.
        destruct l as [|b' l']; [|discriminate H].
        injection H as <-. reflexivity.
      * apply IH in H. destruct H as (s & fs' & -> & ->).
        cbn [rev flat_map app].
        change (enc_efield (b, s)) with (b :: (s ++ [x00])).
        cbn [app]. rewrite <- !app_assoc. reflexivity.
Qed.

Lemma bN_eqb t k : (bN t =? k)%N = true -> Byte.of_N k = Some t.
Proof.
  intros H. apply N.eqb_eq in H. subst k. unfold bN. apply Byte.of_to_N.
Qed.

Ltac case_type H T :=
  match type of H with
  | (if (?n =? ?k)%N then _ else _) = _ =>
      destruct (n =? k)%N eqn:T;
      [apply bN_eqb in T; vm_compute in T; injection T as <- | clear T]
  end.

Theorem parse_bmsg_inv : forall t body m, parse_bmsg t body = Some m ->
  t = msg_type m /\ body = msg_body m.
Proof.
  intros t body m H. unfold parse_bmsg in H. cbv zeta in H.
  case_type H T.
  { destruct (complete (p_u32 body)) as [c|] eqn:E; [|discriminate H].
    destruct ((c =? 0) || (c =? 3)); [|discriminate H]. injection H as <-.
    apply complete_inv, p_u32_inv' in E. rewrite app_nil_r in E.
    split; [reflexivity | exact E]. }
  case_type H T.
  { destruct (p_cstr body) as [[k r]|] eqn:E; [|discriminate H].
    destruct (complete (p_cstr r)) as [v|] eqn:E2; [|discriminate H].
    injection H as <-. apply complete_inv, p_cstr_inv in E2.
    apply p_cstr_inv in E. rewrite app_nil_r in E2. subst.
    split; reflexivity. }
  case_type H T.
  { destruct body as [|s [|s' body']]; try discriminate H.
    destruct (Byte.eqb s x49 || Byte.eqb s x54 || Byte.eqb s x45); [|discriminate H].
    injection H as <-. split; reflexivity. }
  case_type H T.
  { destruct (p_u16 body) as [[k r]|] eqn:E; [|discriminate H].
    destruct (complete (p_rep (Z.to_nat k) p_col r)) as [cols|] eqn:E2; [|discriminate H].
    injection H as <-. apply p_u16_inv in E. destruct E as [-> Hk].
    apply (p_rep_complete_inv p_col enc_col) in E2; [|exact p_col_inv|exact Hk].
    destruct E2 as [-> <-]. split; reflexivity. }
  case_type H T.
  { destruct (p_u16 body) as [[k r]|] eqn:E; [|discriminate H].
    destruct (complete (p_rep (Z.to_nat k) p_field r)) as [fs|] eqn:E2; [|discriminate H].
    injection H as <-. apply p_u16_inv in E. destruct E as [-> Hk].
    apply (p_rep_complete_inv p_field enc_field) in E2; [|exact p_field_inv|exact Hk].
    destruct E2 as [-> <-]. split; reflexivity. }
  case_type H T.
  { destruct (complete (p_cstr body)) as [tag|] eqn:E; [|discriminate H].
    injection H as <-. apply complete_inv, p_cstr_inv in E.
    rewrite app_nil_r in E. split; [reflexivity | exact E]. }
  case_type H T.
  { destruct body; [|discriminate H]. injection H as <-. split; reflexivity. }
  case_type H T.
  { destruct (p_efields None body) as [fs|] eqn:E; [|discriminate H].
    injection H as <-. apply p_efields_inv in E. split; [reflexivity | exact E]. }
  case_type H T.
  { destruct body; [|discriminate H]. injection H as <-. split; reflexivity. }
  case_type H T.
  { destruct body; [|discriminate H]. injection H as <-. split; reflexivity. }
  case_type H T.
  { destruct body; [|discriminate H]. injection H as <-. split; reflexivity. }
  case_type H T.
  { destruct body; [|discriminate H]. injection H as <-. split; reflexivity. }
  case_type H T.
  { destruct (p_u16 body) as [[k r]|] eqn:E; [|discriminate H].
    destruct (complete (p_rep (Z.to_nat k) p_u32 r)) as [oids|] eqn:E2; [|discriminate H].
    injection H as <-. apply p_u16_inv in E. destruct E as [-> Hk].
    apply (p_rep_complete_inv p_u32 be32) in E2; [|exact p_u32_inv'|exact Hk].
    destruct E2 as [-> <-]. split; reflexivity. }
  case_type H T.
  { destruct (p_u8 body) as [[f r]|] eqn:E0; [|discriminate H].
    destruct (p_u16 r) as [[k r']|] eqn:E; [|discriminate H].
    destruct (complete (p_rep (Z.to_nat k) p_u16 r')) as [cols|] eqn:E2; [|discriminate H].
    injection H as <-. apply p_u8_inv in E0. destruct E0 as [-> Hf].
    apply p_u16_inv in E. destruct E as [-> Hk].
    apply (p_rep_complete_inv p_u16 be16) in E2; [|exact p_u16_inv'|exact Hk].
    destruct E2 as [-> <-]. split; reflexivity. }
  discriminate H.
Qed.

Lemma parse_stream_fuel_inv : forall fuel l ms,
  parse_stream_fuel fuel l = Some ms -> enc_stream ms = l.
Proof.
  induction fuel as [|f IH]; intros l ms H.
  - destruct l as [|t [|a [|b [|c [|d r]]]]]; try discriminate H.
    cbn [parse_stream_fuel] in H. injection H as <-. reflexivity.
  - destruct l as [|t [|a [|b [|c [|d r]]]]]; try discriminate H.
    + cbn [parse_stream_fuel] in H. injection H as <-. reflexivity.
    + rewrite parse_stream_fuel_frame in H. cbv zeta in H.
      pose proof (rd32_range a b c d) as Hr.
      destruct (rd32 a b c d <? 4) eqn:E4; [discriminate H|].
      destruct (takeZ (rd32 a b c d - 4) r) as [[body rest]|] eqn:E1; [|discriminate H].
      destruct (parse_bmsg t body) as [m|] eqn:E2; [|discriminate H].
      destruct (parse_stream_fuel f rest) as [ms'|] eqn:E3; [|discriminate H].
      injection H as <-. apply IH in E3. apply parse_bmsg_inv in E2.
      destruct E2 as [-> ->]. apply takeZ_inv in E1. destruct E1 as [-> Hl].
      unfold enc_stream. cbn [flat_map]. fold (enc_stream ms'). rewrite E3.
      unfold enc_bmsg, frame_bytes.
      replace (4 + lenZ (msg_body m)) with (rd32 a b c d) by lia.
      rewrite be32_rd32. reflexivity.
Qed.

Theorem enc_parse_stream : forall bs ms, parse_stream bs = Some ms -> enc_stream ms = bs.
Proof.
  intros bs ms H. unfold parse_stream in H. apply parse_stream_fuel_inv in H. exact H.
Qed.

(* ------------------------------------------------------------------ *)
(* Whatever the strict parser accepts is well-formed                   *)
(* ------------------------------------------------------------------ *)

Lemma u16_ok_intro z : 0 <= z < 65536 -> u16_ok z = true.
Proof. unfold u16_ok. lia. Qed.

Lemma u32_ok_intro z : 0 <= z < 4294967296 -> u32_ok z = true.
Proof. unfold u32_ok. lia. Qed.

Lemma p_u16_wf l z r : p_u16 l = Some (z, r) -> u16_ok z = true.
Proof. intros H. apply p_u16_inv in H. apply u16_ok_intro. tauto. Qed.

Lemma p_u32_wf l z r : p_u32 l = Some (z, r) -> u32_ok z = true.
Proof. intros H. apply p_u32_inv in H. apply u32_ok_intro. tauto. Qed.

Lemma p_cstr_wf l s r : p_cstr l = Some (s, r) -> nul_free s = true.
Proof. intros H. apply take_cstr_inv in H. tauto. Qed.

Lemma p_col_wf l c r : p_col l = Some (c, r) -> wf_col c = true.
Proof.
  intros H. unfold p_col in H.
  destruct (p_cstr l) as [[name l1]|] eqn:E1; [|discriminate H].
  destruct (p_u32 l1) as [[table l2]|] eqn:E2; [|discriminate H].
  destruct (p_u16 l2) as [[attr l3]|] eqn:E3; [|discriminate H].
  destruct (p_u32 l3) as [[oid l4]|] eqn:E4; [|discriminate H].
  destruct (p_u16 l4) as [[width l5]|] eqn:E5; [|discriminate H].
  destruct (p_u32 l5) as [[typmod l6]|] eqn:E6; [|discriminate H].
  destruct (p_u16 l6) as [[fmt l7]|] eqn:E7; [|discriminate H].
  injection H as <- <-.
  apply p_cstr_wf in E1. apply p_u32_wf in E2. apply p_u16_wf in E3.
  apply p_u32_wf in E4. apply p_u16_wf in E5. apply p_u32_wf in E6.
  apply p_u16_wf in E7.
  unfold wf_col. cbn [cd_name cd_table cd_attr cd_oid cd_width cd_typmod cd_fmt].
  rewrite E1, E2, E3, E4, E5, E6, E7. reflexivity.
Qed.

Lemma p_field_wf l f r : p_field l = Some (f, r) -> wf_field f = true.
Proof.
  intros H. unfold p_field in H.
  destruct (p_u32 l) as [[n r0]|] eqn:E; [|discriminate H].
  apply p_u32_inv in E. destruct E as [-> Hn].
  destruct (n =? 4294967295) eqn:E1.
  - injection H as <- <-. reflexivity.
  - destruct (n >=? 2147483648) eqn:E2; [discriminate H|].
    destruct (takeZ n r0) as [[v r']|] eqn:E3; [|discriminate H].
    injection H as <- <-. apply takeZ_inv in E3. destruct E3 as [_ Hl].
    cbn [wf_field]. specialize (Hl ltac:(lia)). lia.
Qed.

Lemma p_rep_wf {A} (p : parser A) (ok : A -> bool) :
  (forall l x r, p l = Some (x, r) -> ok x = true) ->
  forall n l xs r, p_rep n p l = Some (xs, r) -> forallb ok xs = true.
Proof.
  intros Hp. induction n as [|n IH]; intros l xs r H.
  - cbn [p_rep] in H. injection H as <- <-. reflexivity.
  - cbn [p_rep] in H. destruct (p l) as [[x r0]|] eqn:E; [|discriminate H].
    destruct (p_rep n p r0) as [[xs' r']|] eqn:E2; [|discriminate H].
    injection H as <- <-. cbn [forallb]. rewrite (Hp _ _ _ E).
    rewrite (IH _ _ _ E2). reflexivity.
Qed.

Lemma nul_free_app a b : nul_free (a ++ b) = nul_free a && nul_free b.
Proof.
  induction a as [|x a IH]; [reflexivity|].
  cbn [app nul_free]. rewrite IH. rewrite andb_assoc. reflexivity.
Qed.

Lemma p_efields_wf : forall l st fs, p_efields st l = Some fs ->
  match st with
  | None => forallb wf_efield fs = true
  | Some (c, acc) =>
      Byte.eqb c x00 = false -> nul_free (rev acc) = true -> forallb wf_efield fs = true
  end.
Proof.
  induction l as [|b l IH]; intros st fs H.
  - destruct st as [[c acc]|]; discriminate H.
  - destruct st as [[c acc]|].
    + intros Hc Hacc. rewrite p_efields_some_cons in H.
      destruct (Byte.eqb b x00) eqn:E.
      * destruct (p_efields None l) as [fs'|] eqn:E2; [|discriminate H].
        injection H as <-. apply IH in E2.
        cbn [forallb]. unfold wf_efield at 1. cbn [fst snd].
        rewrite Hc, Hacc, E2. reflexivity.
      * apply IH in H. apply H; [exact Hc|].
        cbn [rev]. rewrite nul_free_app, Hacc. cbn [nul_free]. rewrite E.
        reflexivity.
    + rewrite p_efields_none_cons in H. destruct (Byte.eqb b x00) eqn:E.
      * destruct l as [|b' l']; [|discriminate H]. injection H as <-. reflexivity.
      * apply IH in H. apply H; [exact E | reflexivity].
Qed.

Theorem parse_bmsg_wf : forall t body m, parse_bmsg t body = Some m -> wf_bmsg m = true.
Proof.
  intros t body m H. unfold parse_bmsg in H. cbv zeta in H.
  case_type H T.
  { destruct (complete (p_u32 body)) as [c|] eqn:E; [|discriminate H].
    destruct ((c =? 0) || (c =? 3)) eqn:Ec; [|discriminate H]. injection H as <-.
    exact Ec. }
  case_type H T.
  { destruct (p_cstr body) as [[k r]|] eqn:E; [|discriminate H].
    destruct (complete (p_cstr r)) as [v|] eqn:E2; [|discriminate H].
    injection H as <-. apply complete_inv, p_cstr_wf in E2. apply p_cstr_wf in E.
    cbn [wf_bmsg]. rewrite E, E2. reflexivity. }
  case_type H T.
  { destruct body as [|s [|s' body']]; try discriminate H.
    destruct (Byte.eqb s x49 || Byte.eqb s x54 || Byte.eqb s x45) eqn:Es; [|discriminate H].
    injection H as <-. exact Es. }
  case_type H T.
  { destruct (p_u16 body) as [[k r]|] eqn:E; [|discriminate H].
    destruct (complete (p_rep (Z.to_nat k) p_col r)) as [cols|] eqn:E2; [|discriminate H].
    injection H as <-. apply p_u16_inv in E. destruct E as [_ Hk].
    pose proof (p_rep_complete_inv p_col enc_col _ _ _ p_col_inv Hk E2) as [_ Hl].
    apply complete_inv, (p_rep_wf p_col wf_col p_col_wf) in E2.
    cbn [wf_bmsg]. rewrite E2. lia. }
  case_type H T.
  { destruct (p_u16 body) as [[k r]|] eqn:E; [|discriminate H].
    destruct (complete (p_rep (Z.to_nat k) p_field r)) as [fs|] eqn:E2; [|discriminate H].
    injection H as <-. apply p_u16_inv in E. destruct E as [_ Hk].
    pose proof (p_rep_complete_inv p_field enc_field _ _ _ p_field_inv Hk E2) as [_ Hl].
    apply complete_inv, (p_rep_wf p_field wf_field p_field_wf) in E2.
    cbn [wf_bmsg]. rewrite E2. lia. }
  case_type H T.
  { destruct (complete (p_cstr body)) as [tag|] eqn:E; [|discriminate H].
    injection H as <-. apply complete_inv, p_cstr_wf in E. exact E. }
  case_type H T.
  { destruct body; [|discriminate H]. injection H as <-. reflexivity. }
  case_type H T.
  { destruct (p_efields None body) as [fs|] eqn:E; [|discriminate H].
    injection H as <-. apply p_efields_wf in E. exact E. }
  case_type H T.
  { destruct body; [|discriminate H]. injection H as <-. reflexivity. }
  case_type H T.
  { destruct body; [|discriminate H]. injection H as <-. reflexivity. }
  case_type H T.
  { destruct body; [|discriminate H]. injection H as <-. reflexivity. }
  case_type H T.
  { destruct body; [|discriminate H]. injection H as <-. reflexivity. }
  case_type H T.
  { destruct (p_u16 body) as [[k r]|] eqn:E; [|discriminate H].
    destruct (complete (p_rep (Z.to_nat k) p_u32 r)) as [oids|] eqn:E2; [|discriminate H].
    injection H as <-. apply p_u16_inv in E. destruct E as [_ Hk].
    pose proof (p_rep_complete_inv p_u32 be32 _ _ _ p_u32_inv' Hk E2) as [_ Hl].
    apply complete_inv, (p_rep_wf p_u32 u32_ok p_u32_wf) in E2.
    cbn [wf_bmsg]. rewrite E2. lia. }
  case_type H T.
  { destruct (p_u8 body) as [[f r]|] eqn:E0; [|discriminate H].
    destruct (p_u16 r) as [[k r']|] eqn:E; [|discriminate H].
    destruct (complete (p_rep (Z.to_nat k) p_u16 r')) as [cols|] eqn:E2; [|discriminate H].
    injection H as <-. apply p_u8_inv in E0. destruct E0 as [_ Hf].
    apply p_u16_inv in E. destruct E as [_ Hk].
    pose proof (p_rep_complete_inv p_u16 be16 _ _ _ p_u16_inv' Hk E2) as [_ Hl].
    apply complete_inv, (p_rep_wf p_u16 u16_ok p_u16_wf) in E2.
    cbn [wf_bmsg]. rewrite E2. lia. }
  discriminate H.
Qed.

Lemma parse_stream_fuel_wf : forall fuel l ms,
  parse_stream_fuel fuel l = Some ms -> forallb wf_msg ms = true.
Proof.
  induction fuel as [|f IH]; intros l ms H.
  - destruct l as [|t [|a [|b [|c [|d r]]]]]; try discriminate H.
    cbn [parse_stream_fuel] in H. injection H as <-. reflexivity.
  - destruct l as [|t [|a [|b [|c [|d r]]]]]; try discriminate H.
    + cbn [parse_stream_fuel] in H. injection H as <-. reflexivity.
    + rewrite parse_stream_fuel_frame in H. cbv zeta in H.
      pose proof (rd32_range a b c d) as Hr.
      destruct (rd32 a b c d <? 4) eqn:E4; [discriminate H|].
      destruct (takeZ (rd32 a b c d - 4) r) as [[body rest]|] eqn:E1; [|discriminate H].
      destruct (parse_bmsg t body) as [m|] eqn:E2; [|discriminate H].
      destruct (parse_stream_fuel f rest) as [ms'|] eqn:E3; [|discriminate H].
      injection H as <-. apply IH in E3.
      pose proof (parse_bmsg_wf _ _ _ E2) as Hwf.
      apply parse_bmsg_inv in E2. destruct E2 as [_ ->].
      apply takeZ_inv in E1. destruct E1 as [_ Hl].
      cbn [forallb]. rewrite E3. unfold wf_msg, wf_size. rewrite Hwf.
      specialize (Hl ltac:(lia)). lia.
Qed.

Theorem parse_stream_wf : forall bs ms, parse_stream bs = Some ms -> forallb wf_msg ms = true.
Proof.
  intros bs ms H. unfold parse_stream in H. apply parse_stream_fuel_wf in H. exact H.
Qed.

(* the codec is a bijection between well-formed message lists and the byte
   strings the strict parser accepts *)
Corollary parse_stream_iff : forall bs ms,
  parse_stream bs = Some ms <-> (forallb wf_msg ms = true /\ enc_stream ms = bs).
Proof.
  intros bs ms. split.
  - intros H. split; [apply (parse_stream_wf bs ms H) | apply (enc_parse_stream bs ms H)].
  - intros [Hwf <-]. apply parse_enc_stream. exact Hwf.
Qed.

Print Assumptions parse_enc_bmsg.
Print Assumptions enc_parse_stream.
Print Assumptions parse_stream_iff.
Print Assumptions parse_enc_stream.
