(* ErrorFields.v — the ErrorResponse a given error must produce, stated with
   the "outermost decoration" specification of ErrorSpec.v only. *)
Require Import Wire.Bytes Wire.Errors Spec.ErrorSpec.
From Coq Require Import String.
Local Open Scope string_scope.
Local Open Scope list_scope.

Definition opt_field (code : byte) (o : option bytes) : list (byte * bytes) :=
  match o with
  | Some (b :: r) => [(code, b :: r)]
  | _ => []
  end.

Definition spec_severity (e : err) : bytes :=
  match outer_sev e with Some (b :: r) => b :: r | _ => bs "ERROR" end.
Definition spec_code (e : err) : bytes :=
  match outer_code e with Some c => c | None => bs "XXUUU" end.

Definition spec_fields (e : err) : list (byte * bytes) :=
  [(x53, spec_severity e); (x43, spec_code e); (x4d, err_text e)] ++
  opt_field x48 (outer_hint e) ++
  opt_field x44 (outer_detail e) ++
  (match outer_source e with
   | Some (f, l, fn) => [(x46, f); (x4c, itoa l); (x52, fn)]
   | None => []
   end) ++
  opt_field x6e (outer_constraint e).

Definition nil_fields : list (byte * bytes) :=
  [(x53, bs "FATAL"); (x43, bs "XX000");
   (x4d, bs "unknown error, an internal process attempted to throw an error")].

Definition efield_eqb (a b : byte * bytes) : bool :=
  Byte.eqb (fst a) (fst b) && bytes_eqb (snd a) (snd b).
Fixpoint efields_eqb (a b : list (byte * bytes)) : bool :=
  match a, b with
  | [], [] => true
  | x :: a', y :: b' => efield_eqb x y && efields_eqb a' b'
  | _, _ => false
  end.

(* parse a decimal integer text: optional '-', then digits *)
Definition atoi_text (t : bytes) : option Z :=
  match t with
  | [] => None
  | b :: r =>
      if Byte.eqb b x2d then
        (match r with [] => None | _ => if forallb is_digit r then Some (- dec_val r)%Z else None end)
      else if forallb is_digit t then Some (dec_val t) else None
  end.
