(* OracleFactsSyncs.v — a consequence of the reply discipline, stated over whole streams: in a stream that consists
   of Sync and Flush messages and of REJECTED messages (above the limit and present in full, or with a declared
   length below the minimum), every Sync is answered by its own ReadyForQuery — a rejected message never swallows
   what follows it.  First as a fact about the executable oracle ([turn_fold] accepting the turns), then about the
   model's log of a whole connection. *)
Require Import Wire.Bytes Spec.BackendSpec Spec.BackendSpecFacts Wire.Errors Wire.Framing Wire.Session
  Wire.SessionFacts Wire.CommandFacts Wire.RobustFacts Wire.Case Spec.Oracles Spec.OracleFacts.
From Coq Require Import String Lia.
Local Open Scope string_scope.
Local Open Scope list_scope.
Local Open Scope Z_scope.

Lemma outs_app_ : forall a b, outs (a ++ b) = outs a ++ outs b.
Proof. intros a b; unfold outs; apply flat_map_app. Qed.

Lemma readies_app : forall a b, readies (a ++ b) = (readies a + readies b)%nat.
Proof. intros a b; unfold readies; rewrite outs_app_, filter_app, app_length; reflexivity. Qed.

Lemma outs_filter_closed : forall evs, outs (filter (fun e => negb (is_closed_ev e)) evs) = outs evs.
Proof.
  induction evs as [|e evs IH]; [reflexivity|].
  cbn [filter]. destruct e; cbn [is_closed_ev negb]; unfold outs in *; cbn [flat_map app]; rewrite ?IH; reflexivity.
Qed.

Lemma turn_step_ok_back : forall s f t, t_ok (turn_step s f t) = true -> t_ok s = true.
Proof.
  intros s f t H. unfold turn_step in H. destruct (t_ok s) eqn:E; [reflexivity|].
  cbn [negb] in H. rewrite E in H. exact H.
Qed.

Lemma turn_fold_ok_back : forall fs ts s, t_ok (turn_fold s fs ts) = true -> t_ok s = true.
Proof.
  induction fs as [|f fs IH]; intros ts s H; [destruct ts; exact H|].
  destruct ts as [|t ts]; [exact H|]. cbn [turn_fold] in H.
  apply IH in H. eapply turn_step_ok_back; exact H.
Qed.

Lemma shape_one_ready : forall ms, shape_one is_ready ms = true -> List.length (filter is_ready ms) = 1%nat.
Proof.
  intros [|m [|m' r]] H; cbn [shape_one] in H; try discriminate.
  cbn [filter]. rewrite H. reflexivity.
Qed.

Lemma no_copyin_one : forall p ms, shape_one p ms = true -> (forall m, p m = true -> is_copyin m = false) -> existsb is_copyin ms = false.
Proof.
  intros p [|m [|m' r]] H Hp; cbn [shape_one] in H; try discriminate.
  cbn [existsb]. rewrite (Hp _ H). reflexivity.
Qed.

(* one plain frame: the oracle accepting its turn (no COPY in progress) leaves no COPY in progress, and the turn of a
   Sync holds exactly one ReadyForQuery *)
Lemma plain_turn : forall s f t,
  plain_frame f = true -> t_ok s = true -> t_copy s = false -> t_ok (turn_step s f t) = true ->
  t_copy (turn_step s f t) = false /\ (is_sync_frame f = true -> readies t = 1%nat).
Proof.
  intros s f t Hp Hok Hc H.
  unfold turn_step in *. rewrite Hok in *. cbn [negb] in *. rewrite Hc in *.
  set (evs := filter (fun e => negb (is_closed_ev e)) t) in *.
  assert (Houts : outs evs = outs t) by (apply outs_filter_closed).
  destruct f as [ty body | ty size [e|] | ty size | ]; cbn [plain_frame] in Hp; try discriminate.
  - (* FMsg: Sync or Flush *)
    cbn [frame_type] in *.
    apply Bool.orb_true_iff in Hp. destruct Hp as [Hs | Hf].
    + apply Byte.byte_dec_bl in Hs. subst ty.
      cbn [is_sync_frame]. change (Byte.eqb x53 x53) with true in *. cbn [negb andb] in H |- *.
      rewrite Bool.andb_false_r in H |- *. cbn [andb] in H |- *.
      change (wf_client (FMsg x53 body)) with true in H |- *. cbn [negb] in H |- *.
      change (Byte.eqb x53 x50) with false in *. change (Byte.eqb x53 x42) with false in *.
      change (Byte.eqb x53 x44) with false in *. change (Byte.eqb x53 x45) with false in *.
      change (Byte.eqb x53 x43) with false in *. change (Byte.eqb x53 x48) with false in *.
      cbn [t_ok t_copy] in H |- *.
      apply Bool.andb_true_iff in H. destruct H as [H1 _].
      split.
      * apply (no_copyin_one is_ready); [exact H1|]. intros m Hm; destruct m; try discriminate; reflexivity.
      * intros _. unfold readies. rewrite <- Houts. apply shape_one_ready. exact H1.
    + apply Byte.byte_dec_bl in Hf. subst ty.
      cbn [is_sync_frame]. change (Byte.eqb x48 x53) with false in *.
      split; [|discriminate].
      destruct (t_discard s) eqn:Ed; cbn [negb andb] in H |- *.
      * change (Byte.eqb x48 x58) with false in *. cbn [negb andb] in H |- *. cbn [t_ok t_copy] in H |- *.
        destruct evs; [reflexivity | discriminate].
      * change (wf_client (FMsg x48 body)) with true in H |- *. cbn [negb] in H |- *.
        change (Byte.eqb x48 x50) with false in *. change (Byte.eqb x48 x42) with false in *.
        change (Byte.eqb x48 x44) with false in *. change (Byte.eqb x48 x45) with false in *.
        change (Byte.eqb x48 x43) with false in *. change (Byte.eqb x48 x48) with true in *.
        cbn [t_ok t_copy] in H |- *. destruct evs; [reflexivity | discriminate].
  - (* FOver, complete *)
    cbn [is_sync_frame]. split; [|discriminate].
    cbn [frame_type] in *.
    destruct (t_discard s && negb (Byte.eqb ty x53)) eqn:E1.
    + cbn [t_ok t_copy] in H |- *. destruct evs; [reflexivity | discriminate].
    + destruct (is_ext ty) eqn:E2; cbn [t_ok t_copy] in H |- *.
      * apply Bool.andb_true_iff in H. destruct H as [H _]. apply Bool.andb_true_iff in H. destruct H as [H _].
        apply (no_copyin_one is_error); [exact H|]. intros m Hm; destruct m; try discriminate; reflexivity.
      * apply Bool.andb_true_iff in H. destruct H as [H _].
        destruct (outs evs) as [|a [|b [|c r]]]; try discriminate.
        apply Bool.andb_true_iff in H. destruct H as [H _]. apply Bool.andb_true_iff in H. destruct H as [H _].
        apply Bool.andb_true_iff in H. destruct H as [Ha Hb].
        destruct a; try discriminate. destruct b; try discriminate. reflexivity.
  - (* FBad *)
    cbn [is_sync_frame]. split; [|discriminate].
    cbn [frame_type] in *.
    destruct (t_discard s && negb (Byte.eqb ty x53)) eqn:E1.
    + cbn [t_ok t_copy] in H |- *. destruct evs; [reflexivity | discriminate].
    + destruct (is_ext ty) eqn:E2; cbn [t_ok t_copy] in H |- *.
      * apply Bool.andb_true_iff in H. destruct H as [H _]. apply Bool.andb_true_iff in H. destruct H as [H _].
        apply (no_copyin_one is_error); [exact H|]. intros m Hm; destruct m; try discriminate; reflexivity.
      * apply Bool.andb_true_iff in H. destruct H as [H _].
        destruct (outs evs) as [|a [|b [|c r]]]; try discriminate.
        apply Bool.andb_true_iff in H. destruct H as [H _]. apply Bool.andb_true_iff in H. destruct H as [H _].
        apply Bool.andb_true_iff in H. destruct H as [Ha Hb].
        destruct a; try discriminate. destruct b; try discriminate. reflexivity.
Qed.


(* the oracle accepting one turn per frame: at least one ReadyForQuery per Sync, each in the Sync's own turn *)
Theorem turns_answer_syncs : forall fs ts s,
  forallb plain_frame fs = true -> t_copy s = false ->
  t_ok (turn_fold s fs ts) = true -> (List.length fs <= List.length ts)%nat ->
  (syncs fs <= readies (List.concat (firstn (List.length fs) ts)))%nat.
Proof.
  induction fs as [|f fs IH]; intros ts s Hp Hc Hok Hlen; [cbn; lia|].
  destruct ts as [|t ts]; [cbn in Hlen; lia|].
  cbn [forallb] in Hp. apply Bool.andb_true_iff in Hp. destruct Hp as [Hpf Hpr].
  cbn [turn_fold] in Hok.
  pose proof (turn_fold_ok_back _ _ _ Hok) as Hok1.
  pose proof (turn_step_ok_back _ _ _ Hok1) as Hok0.
  destruct (plain_turn s f t Hpf Hok0 Hc Hok1) as [Hc1 Hsync].
  cbn [List.length firstn List.concat]. rewrite readies_app.
  assert (Hrest : (syncs fs <= readies (List.concat (firstn (List.length fs) ts)))%nat).
  { apply (IH ts (turn_step s f t)); [exact Hpr | exact Hc1 | exact Hok | cbn in Hlen; lia]. }
  unfold syncs in *. cbn [filter]. destruct (is_sync_frame f) eqn:Es.
  - cbn [List.length]. rewrite (Hsync eq_refl). lia.
  - lia.
Qed.

Lemma plain_fold_nocopy : forall fs ts s,
  forallb plain_frame fs = true -> t_copy s = false -> t_ok (turn_fold s fs ts) = true ->
  t_copy (turn_fold s fs ts) = false.
Proof.
  induction fs as [|f fs IH]; intros ts s Hp Hc Hok; [destruct ts; exact Hc|].
  destruct ts as [|t ts]; [exact Hc|].
  cbn [forallb] in Hp. apply Bool.andb_true_iff in Hp. destruct Hp as [Hpf Hpr].
  cbn [turn_fold] in *.
  pose proof (turn_fold_ok_back _ _ _ Hok) as Hok1.
  pose proof (turn_step_ok_back _ _ _ Hok1) as Hok0.
  destruct (plain_turn s f t Hpf Hok0 Hc Hok1) as [Hc1 _].
  apply IH; assumption.
Qed.

Lemma plain_no_end_reason : forall f, plain_frame f = true ->
  Byte.eqb (frame_type f) x58 || negb (wf_client f) = false.
Proof.
  intros f Hp. destruct f as [ty body | ty size [e|] | ty size | ]; cbn [plain_frame] in Hp; try discriminate.
  - apply Bool.orb_true_iff in Hp. destruct Hp as [H | H]; apply Byte.byte_dec_bl in H; subst ty; reflexivity.
  - cbn [frame_type wf_client negb]. rewrite Bool.orb_false_r. apply Bool.negb_true_iff. exact Hp.
  - cbn [frame_type wf_client negb]. rewrite Bool.orb_false_r. apply Bool.negb_true_iff. exact Hp.
Qed.

(* the connection did not end early: as long as at least one command was handled, every frame has its turn *)
Lemma plain_all_turns : forall fs ts,
  forallb plain_frame fs = true -> ts <> [] -> early_end_ok fs ts = true -> (List.length fs <= List.length ts)%nat.
Proof.
  induction fs as [|f fs IH]; intros ts Hp Hne He; [cbn; lia|].
  destruct ts as [|t ts]; [congruence|].
  cbn [forallb] in Hp. apply Bool.andb_true_iff in Hp. destruct Hp as [Hpf Hpr].
  destruct ts as [|t' tr].
  - cbn [early_end_ok] in He. destruct fs as [|f' fr]; [cbn; lia|].
    rewrite (plain_no_end_reason f Hpf) in He. rewrite Bool.andb_false_r in He. discriminate.
  - cbn [early_end_ok] in He. assert (Hne' : t' :: tr <> []) by discriminate.
    specialize (IH (t' :: tr) Hpr Hne' He). cbn [List.length] in *. lia.
Qed.

Lemma readies_firstn_le : forall n (ts : list (list ev)), (readies (List.concat (firstn n ts)) <= readies (List.concat ts))%nat.
Proof.
  induction n as [|n IH]; intros ts; [cbn; lia|].
  destruct ts as [|t ts]; [cbn; lia|].
  cbn [firstn List.concat]. rewrite !readies_app. specialize (IH ts). lia.
Qed.

(* the executable oracle as a whole: a log it accepts answers every Sync of such a stream *)
Theorem oracle_turns_answers_syncs : forall sc log st ts,
  oracle_turns sc log = true -> forallb plain_frame (client_frames sc) = true ->
  turns log = st :: ts -> ts <> [] ->
  (syncs (client_frames sc) <= readies (List.concat ts))%nat.
Proof.
  intros sc log st ts Ho Hp Ht Hne.
  unfold oracle_turns in Ho. apply Bool.andb_true_iff in Ho. destruct Ho as [Ho He].
  apply Bool.andb_true_iff in Ho. destruct Ho as [_ Hok].
  unfold turn_verdict in *. rewrite Ht in *.
  assert (Hnc : t_copy (turn_fold t_init (client_frames sc) ts) = false)
    by (apply plain_fold_nocopy; [exact Hp | reflexivity | exact Hok]).
  rewrite Hnc in He.
  pose proof (plain_all_turns _ _ Hp Hne He) as Hlen.
  eapply Nat.le_trans; [apply (turns_answer_syncs _ ts t_init Hp eq_refl Hok Hlen) | apply readies_firstn_le].
Qed.

(* ---------- exactly one ReadyForQuery per Sync, for EVERY stream ---------- *)
Lemma turn_step_copy_stays : forall s f t, t_copy s = true -> turn_step s f t = s.
Proof. intros s f t H. unfold turn_step. destruct (t_ok s); cbn [negb]; [rewrite H|]; reflexivity. Qed.

Lemma turn_fold_copy_stays : forall fs ts s, t_copy s = true -> turn_fold s fs ts = s.
Proof.
  induction fs as [|f fs IH]; intros ts s H; [destruct ts; reflexivity|].
  destruct ts as [|t ts]; [reflexivity|]. cbn [turn_fold]. rewrite (turn_step_copy_stays s f t H). apply IH; exact H.
Qed.

Lemma turn_fold_nocopy_back : forall fs ts s, t_copy (turn_fold s fs ts) = false -> t_copy s = false.
Proof.
  intros fs ts s H. destruct (t_copy s) eqn:E; [|reflexivity].
  rewrite (turn_fold_copy_stays fs ts s E) in H. congruence.
Qed.

(* the accepted turn of a Sync (no COPY in progress): exactly one ReadyForQuery *)
Lemma sync_turn : forall s body t,
  t_ok s = true -> t_copy s = false -> t_ok (turn_step s (FMsg x53 body) t) = true -> readies t = 1%nat.
Proof.
  intros s body t Hok Hc H.
  destruct (plain_turn s (FMsg x53 body) t eq_refl Hok Hc H) as [_ Hs]. exact (Hs eq_refl).
Qed.

Theorem sync_turns_one_ready : forall fs ts s,
  t_ok (turn_fold s fs ts) = true -> t_copy (turn_fold s fs ts) = false ->
  forall i f t, nth_error fs i = Some f -> nth_error ts i = Some t -> is_sync_frame f = true -> readies t = 1%nat.
Proof.
  induction fs as [|f0 fs IH]; intros ts s Hok Hc i f t Hf Ht Hs; [destruct i; discriminate|].
  destruct ts as [|t0 ts]; [destruct i; discriminate|].
  cbn [turn_fold] in Hok, Hc.
  pose proof (turn_fold_ok_back _ _ _ Hok) as Hok1.
  pose proof (turn_step_ok_back _ _ _ Hok1) as Hok0.
  pose proof (turn_fold_nocopy_back _ _ _ Hc) as Hc1.
  assert (Hc0 : t_copy s = false).
  { destruct (t_copy s) eqn:E; [|reflexivity]. rewrite (turn_step_copy_stays s f0 t0 E) in Hc1. congruence. }
  destruct i as [|i].
  - cbn [nth_error] in Hf, Ht. injection Hf as <-. injection Ht as <-.
    destruct f0 as [ty body | | | ]; cbn [is_sync_frame] in Hs; try discriminate.
    apply Byte.byte_dec_bl in Hs. subst ty. eapply sync_turn; eassumption.
  - cbn [nth_error] in Hf, Ht. eapply IH; eassumption.
Qed.

(* for a whole log the oracle accepts (sessions whose handlers use no COPY: the verdict's COPY flag is off) *)
Theorem oracle_turns_one_ready_per_sync : forall sc log st ts,
  oracle_turns sc log = true -> t_copy (turn_verdict sc log) = false -> turns log = st :: ts ->
  forall i f t, nth_error (client_frames sc) i = Some f -> nth_error ts i = Some t -> is_sync_frame f = true ->
  readies t = 1%nat.
Proof.
  intros sc log st ts Ho Hc Ht i f t Hf Hti Hs.
  unfold oracle_turns in Ho. apply Bool.andb_true_iff in Ho. destruct Ho as [Ho _].
  apply Bool.andb_true_iff in Ho. destruct Ho as [_ Hok].
  unfold turn_verdict in *. rewrite Ht in *.
  eapply sync_turns_one_ready; eassumption.
Qed.

(* the model: no COPY flag in the verdict of a case whose handlers use no COPY *)
Theorem turn_verdict_nocopy_model sc :
  case_nocopy sc = true ->
  (forall v after rest, start (cfg_of_case sc) (sc_raw sc) = Some (v, after, rest) -> v <> version_ssl) ->
  t_copy (turn_verdict sc (run_case sc)) = false.
Proof.
  intros Hn Hssl.
  assert (V : verdict_ok (client_frames sc) (run_case sc)).
  { unfold run_case, serve.
    destruct (start (cfg_of_case sc) (sc_raw sc)) as [[[v after] rest]|] eqn:Es; [|apply (verdict_short _ []); reflexivity].
    destruct (v =? version_cancel); [apply (verdict_short _ []); reflexivity|].
    destruct (Z.eqb_spec v version_ssl) as [->|_]; [exfalso; eapply Hssl; eauto|].
    apply session_turns; [apply case_cfg_nocopy; exact Hn|apply case_text_safe|].
    intros cparams aevs s' _ Hauth. eapply case_frames; eauto. }
  destruct V as [V1 V2]. unfold turn_verdict.
  destruct (turns (run_case sc)) as [|t0 ts]; [contradiction|].
  destruct V2 as (V2 & V3 & V4). exact V3.
Qed.

(* exactly one ReadyForQuery per Sync, in the Sync's own turn: the model's log of every scriptable case without COPY
   handlers, whatever else the stream contains *)
Theorem model_one_ready_per_sync : forall sc st ts,
  case_nocopy sc = true ->
  (forall v after rest, start (cfg_of_case sc) (sc_raw sc) = Some (v, after, rest) -> v <> version_ssl) ->
  turns (run_case sc) = st :: ts ->
  forall i f t, nth_error (client_frames sc) i = Some f -> nth_error ts i = Some t -> is_sync_frame f = true ->
  readies t = 1%nat.
Proof.
  intros sc st ts Hn Hs Ht.
  exact (oracle_turns_one_ready_per_sync sc (run_case sc) st ts (oracle_turns_model_auth sc Hn Hs)
           (turn_verdict_nocopy_model sc Hn Hs) Ht).
Qed.

(* ---------- ... and none in the turn of any other extended-protocol message ---------- *)
Definition ext_frame (f : frame) : bool :=
  match f with
  | FMsg t _ => is_ext t && wf_client f
  | FOver t _ None => is_ext t
  | FBad t _ => is_ext t
  | _ => false
  end.

Lemma shape_one_no_ready : forall p ms, shape_one p ms = true -> (forall m, p m = true -> is_ready m = false) ->
  filter is_ready ms = [].
Proof.
  intros p [|m [|m' r]] H Hp; cbn [shape_one] in H; try discriminate.
  cbn [filter]. rewrite (Hp _ H). reflexivity.
Qed.

Lemma shape_execute_no_ready : forall ms, shape_execute ms = true -> filter is_ready ms = [].
Proof.
  induction ms as [|m ms IH]; intros H; [reflexivity|].
  destruct m; cbn [shape_execute] in H; try discriminate; cbn [filter is_ready];
    try (apply IH; exact H).
  - (* CommandComplete: last, or followed by one ErrorResponse *)
    destruct ms as [|m2 ms2]; [reflexivity|]. destruct m2; try discriminate.
    destruct ms2; [reflexivity|discriminate].
  - (* ErrorResponse: last *)
    destruct ms; [reflexivity|discriminate].
Qed.

Ltac beq :=
  repeat match goal with
  | H : context [Byte.eqb ?a ?b] |- _ =>
      let v := eval vm_compute in (Byte.eqb a b) in
      match v with true => idtac | false => idtac end; change (Byte.eqb a b) with v in H
  | |- context [Byte.eqb ?a ?b] =>
      let v := eval vm_compute in (Byte.eqb a b) in
      match v with true => idtac | false => idtac end; change (Byte.eqb a b) with v
  end.

Ltac one_no_ready H :=
  erewrite shape_one_no_ready; [reflexivity | exact H | intros m Hm; destruct m; try discriminate; reflexivity].

Lemma ext_turn : forall s f t,
  ext_frame f = true -> t_ok s = true -> t_copy s = false -> t_ok (turn_step s f t) = true -> readies t = 0%nat.
Proof.
  intros s f t He Hok Hc H.
  unfold turn_step in H. rewrite Hok in H. cbn [negb] in H. rewrite Hc in H.
  unfold readies. rewrite <- (outs_filter_closed t).
  set (evs := filter (fun e => negb (is_closed_ev e)) t) in *.
  destruct f as [ty body | ty size [e|] | ty size | ]; cbn [ext_frame] in He; try discriminate.
  - apply Bool.andb_true_iff in He. destruct He as [Hx Hwf].
    cbn [frame_type] in H. rewrite Hwf in H. cbn [negb] in H.
    unfold is_ext in Hx.
    assert (Hcases : ty = x50 \/ ty = x42 \/ ty = x44 \/ ty = x45 \/ ty = x43 \/ ty = x48).
    { repeat (apply Bool.orb_true_iff in Hx; destruct Hx as [Hx | Hx]);
        apply Byte.byte_dec_bl in Hx; subst ty; tauto. }
    destruct (t_discard s) eqn:Ed.
    + (* skipping: the turn is silent *)
      assert (Hd : negb (Byte.eqb ty x53) && negb (Byte.eqb ty x58) = true)
        by (destruct Hcases as [-> | [-> | [-> | [-> | [-> | ->]]]]]; reflexivity).
      cbn [andb] in H. rewrite Hd in H. cbn [t_ok] in H. destruct evs; [reflexivity | discriminate].
    + cbn [andb] in H.
      destruct Hcases as [-> | [-> | [-> | [-> | [-> | ->]]]]]; beq; cbn [t_ok] in H.
      * apply Bool.orb_true_iff in H. destruct H as [H | H]; one_no_ready H.
      * apply Bool.andb_true_iff in H. destruct H as [H _].
        apply Bool.orb_true_iff in H. destruct H as [H | H]; one_no_ready H.
      * apply Bool.andb_true_iff in H. destruct H as [H _].
        destruct body as [|k body']; [discriminate|].
        destruct (Byte.eqb k x53).
        { apply Bool.orb_true_iff in H. destruct H as [H | H]; [|one_no_ready H].
          destruct (outs evs) as [|a [|b [|c r]]]; try discriminate.
          apply Bool.andb_true_iff in H. destruct H as [Ha Hb].
          destruct a; try discriminate. destruct b; try discriminate; reflexivity. }
        destruct (Byte.eqb k x50).
        { apply Bool.orb_true_iff in H. destruct H as [H | H]; one_no_ready H. }
        one_no_ready H.
      * rewrite (shape_execute_no_ready _ H). reflexivity.
      * apply Bool.andb_true_iff in H. destruct H as [H _].
        apply Bool.orb_true_iff in H. destruct H as [H | H]; one_no_ready H.
      * destruct evs; [reflexivity | discriminate].
  - cbn [frame_type] in H.
    destruct (t_discard s && negb (Byte.eqb ty x53)) eqn:E1.
    + cbn [t_ok] in H. destruct evs; [reflexivity | discriminate].
    + rewrite He in H. cbn [t_ok] in H.
      apply Bool.andb_true_iff in H. destruct H as [H _]. apply Bool.andb_true_iff in H. destruct H as [H _].
      one_no_ready H.
  - cbn [frame_type] in H.
    destruct (t_discard s && negb (Byte.eqb ty x53)) eqn:E1.
    + cbn [t_ok] in H. destruct evs; [reflexivity | discriminate].
    + rewrite He in H. cbn [t_ok] in H.
      apply Bool.andb_true_iff in H. destruct H as [H _]. apply Bool.andb_true_iff in H. destruct H as [H _].
      one_no_ready H.
Qed.

Theorem ext_turns_no_ready : forall fs ts s,
  t_ok (turn_fold s fs ts) = true -> t_copy (turn_fold s fs ts) = false ->
  forall i f t, nth_error fs i = Some f -> nth_error ts i = Some t -> ext_frame f = true -> readies t = 0%nat.
Proof.
  induction fs as [|f0 fs IH]; intros ts s Hok Hc i f t Hf Ht Hs; [destruct i; discriminate|].
  destruct ts as [|t0 ts]; [destruct i; discriminate|].
  cbn [turn_fold] in Hok, Hc.
  pose proof (turn_fold_ok_back _ _ _ Hok) as Hok1.
  pose proof (turn_step_ok_back _ _ _ Hok1) as Hok0.
  pose proof (turn_fold_nocopy_back _ _ _ Hc) as Hc1.
  assert (Hc0 : t_copy s = false).
  { destruct (t_copy s) eqn:E; [|reflexivity]. rewrite (turn_step_copy_stays s f0 t0 E) in Hc1. congruence. }
  destruct i as [|i].
  - cbn [nth_error] in Hf, Ht. injection Hf as <-. injection Ht as <-. eapply ext_turn; eassumption.
  - cbn [nth_error] in Hf, Ht. eapply IH; eassumption.
Qed.

Theorem oracle_turns_no_ready_for_extended : forall sc log st ts,
  oracle_turns sc log = true -> t_copy (turn_verdict sc log) = false -> turns log = st :: ts ->
  forall i f t, nth_error (client_frames sc) i = Some f -> nth_error ts i = Some t -> ext_frame f = true ->
  readies t = 0%nat.
Proof.
  intros sc log st ts Ho Hc Ht i f t Hf Hti Hs.
  unfold oracle_turns in Ho. apply Bool.andb_true_iff in Ho. destruct Ho as [Ho _].
  apply Bool.andb_true_iff in Ho. destruct Ho as [_ Hok].
  unfold turn_verdict in *. rewrite Ht in *.
  eapply ext_turns_no_ready; eassumption.
Qed.

Theorem model_no_ready_for_extended : forall sc st ts,
  case_nocopy sc = true ->
  (forall v after rest, start (cfg_of_case sc) (sc_raw sc) = Some (v, after, rest) -> v <> version_ssl) ->
  turns (run_case sc) = st :: ts ->
  forall i f t, nth_error (client_frames sc) i = Some f -> nth_error ts i = Some t -> ext_frame f = true ->
  readies t = 0%nat.
Proof.
  intros sc st ts Hn Hs Ht.
  exact (oracle_turns_no_ready_for_extended sc (run_case sc) st ts (oracle_turns_model_auth sc Hn Hs)
           (turn_verdict_nocopy_model sc Hn Hs) Ht).
Qed.
