(* OracleFactsData.v — the model satisfies [oracle_data_budget] for every configuration and client stream: the
   payloads handed to COPY handlers are, in order and each at most once, bodies of CopyData messages sent. *)
Require Import Wire.Bytes Spec.BackendSpec Spec.BackendSpecFacts Wire.Errors Wire.Framing Wire.Session
  Wire.SessionFacts Wire.CommandFacts Wire.RobustFacts Wire.Case Spec.KindFacts Spec.Oracles Spec.OracleFacts
  Spec.OracleFactsLife Spec.OracleFactsParse.
From Coq Require Import String.
Local Open Scope string_scope.
Local Open Scope list_scope.
Local Open Scope Z_scope.

Definition drun (st : option (list frame)) (evs : list ev) : option (list frame) := fold_left db_step evs st.
Lemma drun_app st a b : drun st (a ++ b) = drun (drun st a) b.
Proof. apply fold_left_app. Qed.

Definition nodata (e : ev) : bool := match e with CbOp (OData _) => false | _ => true end.
Lemma drun_nodata : forall evs st, forallb nodata evs = true -> drun st evs = st.
Proof.
  induction evs as [|e r IH]; intros st H; [reflexivity|]. cbn [forallb] in H. apply andb_prop in H as [H1 H2].
  cbn [drun fold_left]. fold (drun (db_step st e) r). rewrite IH by exact H2.
  destruct st; destruct e as [| | | | | | |r0| | | |]; try reflexivity. destruct r0; try discriminate; reflexivity.
Qed.

Lemma match_data_suffix b : forall pre f rest, data_of f = Some b ->
  exists pre', match_data b (pre ++ f :: rest) = Some (pre' ++ rest).
Proof.
  induction pre as [|g pre IH]; intros f rest H; cbn [app match_data].
  - rewrite H, bytes_eqb_refl. exists []. reflexivity.
  - destruct (data_of g) as [b'|].
    + destruct (bytes_eqb b b').
      * exists (pre ++ [f]). rewrite <- app_assoc. reflexivity.
      * apply IH. exact H.
    + apply IH. exact H.
Qed.

(* the scan has at least the frames the session still has *)
Definition dinv (st : option (list frame)) (fs : list frame) : Prop := exists rem, st = Some rem /\ suffix fs rem.
Lemma dinv_weaken st a b : dinv st b -> suffix a b -> dinv st a.
Proof. intros (rem & -> & S) S2. exists rem. split; [reflexivity|eapply suffix_trans; eauto]. Qed.

(* ---------- CopyReader.Read together with the result the handler sees ---------- *)
Lemma copy_read_d L : forall fs tl evs r rest st,
  copy_read L fs tl = (evs, r, rest) -> dinv st fs -> dinv (drun st (evs ++ [CbOp r])) rest.
Proof.
  induction fs as [|f fr IH]; intros tl evs r rest st H D; cbn [copy_read] in H.
  - injection H as <- <- <-. cbn [app drun fold_left]. destruct tl; cbn [rderr_res db_step]; destruct st; exact D.
  - assert (Sfr : suffix fr (f :: fr)) by (apply (suffix_cons f); apply suffix_refl).
    assert (Plain : forall r0, nodata (CbOp r0) = true -> forall rest0, suffix rest0 (f :: fr) -> dinv (drun st ([Consume] ++ [CbOp r0])) rest0).
    { intros r0 N rest0 S. rewrite drun_nodata by (cbn [app forallb]; rewrite N; reflexivity). eapply dinv_weaken; eauto. }
    destruct f as [t body|t size [x|]|t size|].
    + destruct (Byte.eqb t x48 || Byte.eqb t x53).
      * destruct (copy_read L fr tl) as [[evs0 r0] rest0] eqn:E. injection H as <- <- <-.
        change ((Consume :: evs0) ++ [CbOp r0]) with ([Consume] ++ (evs0 ++ [CbOp r0])). rewrite drun_app.
        rewrite (drun_nodata [Consume]) by reflexivity. apply (IH _ _ _ _ _ E). eapply dinv_weaken; eauto.
      * destruct (Byte.eqb t x64) eqn:T64.
        { injection H as <- <- <-. destruct D as (rem & -> & [pre ->]).
          assert (Df : data_of (FMsg t body) = Some body) by (cbn [data_of]; rewrite T64; reflexivity).
          destruct (match_data_suffix body pre (FMsg t body) fr Df) as [pre' M].
          cbn [app drun fold_left db_step]. rewrite M. exists (pre' ++ fr). split; [reflexivity|exists pre'; reflexivity]. }
        destruct (Byte.eqb t x63); [injection H as <- <- <-; apply Plain; [reflexivity|exact Sfr]|].
        destruct (Byte.eqb t x66); [destruct (take_cstr body) as [[d x0]|]|]; injection H as <- <- <-; (apply Plain; [reflexivity|exact Sfr]).
    + injection H as <- <- <-. apply Plain; [destruct x; reflexivity|apply suffix_nil].
    + injection H as <- <- <-. apply Plain; [reflexivity|exact Sfr].
    + injection H as <- <- <-. apply Plain; [reflexivity|exact Sfr].
    + injection H as <- <- <-. apply Plain; [reflexivity|apply suffix_nil].
Qed.

(* ---------- the handler programs ---------- *)
Lemma run_op_d c cols fmts o w fs tl evs w' fs' st0 st :
  run_op c cols fmts o w fs tl = (evs, w', fs', st0) -> dinv st fs -> dinv (drun st evs) fs'.
Proof.
  intros H D.
  assert (Q : forall l, forallb nodata l = true -> dinv (drun st l) fs) by (intros l Hl; rewrite drun_nodata by exact Hl; exact D).
  destruct o as [vs| | |tag|f|]; cbn [run_op] in H.
  - destruct (w_closed w); [injection H as <- <- <- <-; apply Q; reflexivity|].
    destruct (write_row (cfg_encode c) cols fmts vs); injection H as <- <- <- <-; apply Q; reflexivity.
  - injection H as <- <- <- <-. apply Q; reflexivity.
  - destruct (w_closed w); [|destruct (negb (w_written w =? 0))]; injection H as <- <- <- <-; apply Q; reflexivity.
  - destruct (w_closed w); injection H as <- <- <- <-; apply Q; reflexivity.
  - destruct (w_closed w); [|destruct cols]; injection H as <- <- <- <-; apply Q; reflexivity.
  - destruct (negb (w_copy w)); [injection H as <- <- <- <-; apply Q; reflexivity|].
    destruct (copy_read (cfg_limit c) fs tl) as [[evs0 r] rest] eqn:E.
    pose proof (copy_read_d _ _ _ _ _ _ st E D) as K.
    destruct r; injection H as <- <- <- <-; exact K.
Qed.

Lemma run_ops_d c cols fmts stop : forall ops w fs tl evs w' fs' res st,
  run_ops c cols fmts stop ops w fs tl = (evs, w', fs', res) -> dinv st fs -> dinv (drun st evs) fs'.
Proof.
  induction ops as [|o r IH]; intros w fs tl evs w' fs' res st H D; cbn [run_ops] in H.
  - injection H as <- <- <- <-. exact D.
  - destruct (run_op c cols fmts o w fs tl) as [[[evs1 w1] fs1] st1] eqn:E1.
    pose proof (run_op_d _ _ _ _ _ _ _ _ _ _ _ st E1 D) as D1.
    destruct st1.
    + destruct (run_ops c cols fmts stop r w1 fs1 tl) as [[[evs2 w2] fs2] res2] eqn:E2.
      injection H as <- <- <- <-. rewrite drun_app. eapply IH; eauto.
    + destruct stop.
      * injection H as <- <- <- <-. exact D1.
      * destruct (run_ops c cols fmts false r w1 fs1 tl) as [[[evs2 w2] fs2] res2] eqn:E2.
        injection H as <- <- <- <-. rewrite drun_app. eapply IH; eauto.
    + injection H as <- <- <- <-. exact D1.
Qed.

Lemma run_stmt_d c s fmts params fs tl evs fs' res st :
  run_stmt c s fmts params fs tl = (evs, fs', res) -> dinv st fs -> dinv (drun st evs) fs'.
Proof.
  unfold run_stmt. intros H D.
  destruct (run_ops c (s_cols s) fmts (s_stop s) (s_prog s) w_init fs tl) as [[[evs0 w] fs0] r0] eqn:E.
  injection H as <- <- <-. cbn [drun fold_left db_step]. destruct st; eapply run_ops_d; eauto.
Qed.

Lemma nodata_keep st fs l : forallb nodata l = true -> dinv st fs -> dinv (drun st l) fs.
Proof. intros Hl D. rewrite drun_nodata by exact Hl. exact D. Qed.

Lemma define_nodata cols fmts : forallb nodata (define_evs cols fmts) = true.
Proof. destruct cols; reflexivity. Qed.

Lemma run_stmts_d c : forall ss fs tl evs fs' crashed st,
  run_stmts c ss fs tl = (evs, fs', crashed) -> dinv st fs -> dinv (drun st evs) fs'.
Proof.
  induction ss as [|s r IH]; intros fs tl evs fs' crashed st H D; cbn [run_stmts] in H.
  - injection H as <- <- <-. apply nodata_keep; [reflexivity|exact D].
  - destruct (run_stmt c s [] [] fs tl) as [[evs1 fs1] res] eqn:E1.
    pose proof (nodata_keep st fs _ (define_nodata (s_cols s) []) D) as D0.
    pose proof (run_stmt_d _ _ _ _ _ _ _ _ _ _ E1 D0) as D1.
    destruct res.
    + destruct (run_stmts c r fs1 tl) as [[evs2 fs2] cr] eqn:E2.
      injection H as <- <- <-. rewrite !drun_app. eapply IH; eauto.
    + injection H as <- <- <-. rewrite !drun_app. apply nodata_keep; [reflexivity|exact D1].
    + injection H as <- <- <-. rewrite !drun_app. apply nodata_keep; [reflexivity|exact D1].
Qed.

(* ---------- one iteration of the command loop ---------- *)
Lemma cmd_d c st f rest tl evs st' fs' k ps :
  cmd c st f rest tl = (evs, st', fs', k) -> dinv ps rest -> dinv (drun ps evs) fs'.
Proof.
  intros H D.
  assert (N : forall l, forallb nodata l = true -> dinv (drun ps l) rest) by (intros l Hl; apply nodata_keep; assumption).
  assert (NE : forall l, forallb nodata l = true -> dinv (drun ps l) []) by (intros l Hl; eapply dinv_weaken; [apply N; exact Hl|apply suffix_nil]).
  destruct f as [t body|t size [x|]|t size|]; cbn [cmd] in H.
  - destruct (st_discard st && negb (Byte.eqb t x53) && negb (Byte.eqb t x58)); [injection H as <- <- <- <-; apply N; reflexivity|].
    destruct (Byte.eqb t x51).
    { destruct (simple_query c body rest tl) as [[evs0 fs0] k0] eqn:Q. injection H as <- <- <- <-.
      unfold simple_query in Q. destruct (take_cstr body) as [[q r0]|]; [|injection Q as <- <- <-; apply N; reflexivity].
      destruct (is_blank q); [injection Q as <- <- <-; apply N; reflexivity|].
      destruct (cfg_parse c q) as [e|[|s1 r]]; try (injection Q as <- <- <-; apply N; reflexivity).
      destruct (run_stmts c (s1 :: r) rest tl) as [[evs1 fs1] cr] eqn:E. injection Q as <- <- <-.
      change (CbParse q :: evs1) with ([CbParse q] ++ evs1). rewrite drun_app. eapply run_stmts_d; [exact E|]. apply N. reflexivity. }
    destruct (Byte.eqb t x45).
    { unfold do_execute in H. destruct (take_cstr body) as [[name l1]|]; [|injection H as <- <- <- <-; apply N; reflexivity].
      destruct (p_u32 l1) as [pu|]; [|injection H as <- <- <- <-; apply N; reflexivity].
      destruct (alist_get name (st_portals st)) as [p|].
      - destruct (run_stmt c (p_stmt p) (p_rfmts p) (p_params p) rest tl) as [[evs1 fs1] res] eqn:E.
        pose proof (run_stmt_d _ _ _ _ _ _ _ _ _ ps E D) as D1.
        destruct res; unfold ext_err in H; injection H as <- <- <- <-; rewrite ?drun_app; try exact D1; (apply nodata_keep; [reflexivity|exact D1]).
      - unfold ext_err in H. injection H as <- <- <- <-. apply N; reflexivity. }
    destruct (Byte.eqb t x50).
    { destruct (do_parse c st body) as [[evs0 st0] k0] eqn:Q. injection H as <- <- <- <-. apply N.
      unfold do_parse in Q. destruct (take_cstr body) as [[name l1]|]; [|injection Q as <- <- <-; reflexivity].
      destruct (take_cstr l1) as [[q l2]|]; [|injection Q as <- <- <-; reflexivity].
      destruct (p_u16 l2) as [pu|]; [|injection Q as <- <- <-; reflexivity].
      destruct (cfg_parse c q) as [e|[|s1 [|s2 r]]]; unfold ext_err in Q; injection Q as <- <- <-; reflexivity. }
    destruct (Byte.eqb t x44).
    { destruct (do_describe st body) as [[evs0 st0] k0] eqn:Q. injection H as <- <- <- <-. apply N.
      unfold do_describe in Q. destruct body as [|kd l1]; [injection Q as <- <- <-; reflexivity|].
      destruct (take_cstr l1) as [[name l2]|]; [|injection Q as <- <- <-; reflexivity].
      destruct (Byte.eqb kd x53); [destruct (alist_get name (st_stmts st))|destruct (Byte.eqb kd x50); [destruct (alist_get name (st_portals st))|]];
        unfold ext_err in Q; injection Q as <- <- <-; reflexivity. }
    destruct (Byte.eqb t x53); [injection H as <- <- <- <-; apply N; reflexivity|].
    destruct (Byte.eqb t x42).
    { destruct (do_bind st body) as [[evs0 st0] k0] eqn:Q. injection H as <- <- <- <-. apply N.
      unfold do_bind in Q. destruct (decode_bind body) as [b|]; [|injection Q as <- <- <-; reflexivity].
      destruct (alist_get (b_stmt b) (st_stmts st)); unfold ext_err in Q; injection Q as <- <- <-; reflexivity. }
    destruct (Byte.eqb t x48); [injection H as <- <- <- <-; apply N; reflexivity|].
    match type of H with (if ?b then _ else _) = _ => destruct b end; [injection H as <- <- <- <-; apply N; reflexivity|].
    destruct (Byte.eqb t x43).
    { destruct (do_close st body) as [[evs0 st0] k0] eqn:Q. injection H as <- <- <- <-. apply N.
      unfold do_close in Q. destruct body as [|kd l1]; [injection Q as <- <- <-; reflexivity|].
      destruct (take_cstr l1) as [[name l2]|]; [|injection Q as <- <- <-; reflexivity].
      destruct (Byte.eqb kd x53); [|destruct (Byte.eqb kd x50)]; unfold ext_err in Q; injection Q as <- <- <-; reflexivity. }
    destruct (Byte.eqb t x58); [destruct (cfg_term c)|]; injection H as <- <- <- <-; apply N; reflexivity.
  - injection H as <- <- <- <-. apply NE; reflexivity.
  - destruct (do_oversize c st t size) as [evs0 st0] eqn:Q. injection H as <- <- <- <-. apply N.
    unfold do_oversize in Q. destruct (st_discard st && negb (Byte.eqb t x53)); [injection Q as <- <-; reflexivity|].
    destruct (is_ext t); [unfold ext_err in Q; injection Q as <- <-; reflexivity|].
    destruct (Byte.eqb t x53); injection Q as <- <-; reflexivity.
  - destruct (do_oversize c st t size) as [evs0 st0] eqn:Q. injection H as <- <- <- <-. apply N.
    unfold do_oversize in Q. destruct (st_discard st && negb (Byte.eqb t x53)); [injection Q as <- <-; reflexivity|].
    destruct (is_ext t); [unfold ext_err in Q; injection Q as <- <-; reflexivity|].
    destruct (Byte.eqb t x53); injection Q as <- <-; reflexivity.
  - injection H as <- <- <- <-. apply NE; reflexivity.
Qed.

(* ---------- the loop, the session, the connection ---------- *)
Lemma loop_d c tl : forall fuel st fs ps, dinv ps fs -> exists rem, drun ps (loop fuel c st fs tl) = Some rem.
Proof.
  induction fuel as [|fuel IH]; intros st fs ps D; [destruct D as (rem & -> & _); exists rem; reflexivity|].
  destruct fs as [|f rest]; [destruct D as (rem & -> & _); exists rem; reflexivity|]. cbn [loop].
  destruct (cmd c st f rest tl) as [[[evs st'] fs'] k] eqn:E.
  assert (D1 : dinv (drun ps [Consume]) rest).
  { rewrite drun_nodata by reflexivity. eapply dinv_weaken; [exact D|]. apply (suffix_cons f). apply suffix_refl. }
  pose proof (cmd_d _ _ _ _ _ _ _ _ _ _ E D1) as D2.
  destruct k.
  - change (Consume :: evs ++ loop fuel c st' fs' tl) with ([Consume] ++ evs ++ loop fuel c st' fs' tl).
    rewrite !drun_app. apply IH. exact D2.
  - change (Consume :: evs ++ [Closed]) with ([Consume] ++ evs ++ [Closed]). rewrite !drun_app.
    destruct D2 as (rem' & -> & _). exists rem'. reflexivity.
Qed.

Lemma auth_nodata c cparams s evs rest ok : auth_phase c cparams s = (evs, rest, ok) -> forallb nodata evs = true.
Proof.
  unfold auth_phase. intros H.
  destruct (cfg_auth c) as [validate|]; [|injection H as <- <- <-; reflexivity].
  destruct s as [|t [|a [|b [|c4 [|d r]]]]]; try (injection H as <- <- <-; reflexivity).
  destruct ((rd32 a b c4 d - 4 <? 0) || (rd32 a b c4 d - 4 >? eff_limit (cfg_limit c))); [injection H as <- <- <-; reflexivity|].
  destruct (takeZ (rd32 a b c4 d - 4) r) as [[body rest0]|]; [|injection H as <- <- <-; reflexivity].
  destruct (negb (Byte.eqb t x70)); [injection H as <- <- <-; reflexivity|].
  destruct (take_cstr body) as [[pw x]|]; [|injection H as <- <- <-; reflexivity].
  destruct (validate _ _ pw); injection H as <- <- <-; reflexivity.
Qed.

Lemma pstatus_nodata l : forallb nodata (map (fun kv : bytes * bytes => Out (BParamStatus (fst kv) (snd kv))) l) = true.
Proof. induction l as [|x r IH]; [reflexivity|]. exact IH. Qed.

Lemma run_mws_nodata : forall mws i, forallb nodata (fst (run_mws mws i)) = true.
Proof.
  induction mws as [|ok r IH]; intros i; [reflexivity|]. cbn [run_mws]. destruct ok; [|reflexivity].
  specialize (IH (i + 1)). destruct (run_mws r (i + 1)) as [evs res]. exact IH.
Qed.

Lemma nodata_app a b : forallb nodata (a ++ b) = forallb nodata a && forallb nodata b.
Proof. apply forallb_app. Qed.

Lemma session_d c after s fs :
  (forall cparams aevs s', read_params (S (List.length after)) after = Some cparams ->
     auth_phase c cparams s = (aevs, s', true) -> fs = fst (frames (cfg_limit c) s')) ->
  exists rem, drun (Some fs) (session c after s) = Some rem.
Proof.
  intros Hfs. unfold session.
  destruct (read_params (S (List.length after)) after) as [cparams|] eqn:Er; [|exists fs; reflexivity].
  destruct (auth_phase c cparams s) as [[aevs s'] ok] eqn:Ea.
  pose proof (auth_nodata _ _ _ _ _ _ Ea) as Pa.
  destruct ok; cbn [negb].
  2: { exists fs. rewrite drun_nodata by (rewrite nodata_app, Pa; reflexivity). reflexivity. }
  specialize (Hfs _ _ _ eq_refl Ea).
  pose proof (run_mws_nodata (cfg_mws c) 0) as Pm.
  destruct (run_mws (cfg_mws c) 0) as [mevs mok]. cbn [fst] in Pm.
  destruct mok; cbn [negb].
  - destruct (frames (cfg_limit c) s') as [fs0 tl] eqn:Ef. cbn [fst] in Hfs. subst fs0.
    rewrite !app_assoc. rewrite drun_app.
    rewrite (drun_nodata _ (Some fs)) by (rewrite !nodata_app, Pa, pstatus_nodata, Pm; reflexivity).
    apply loop_d. exists fs. split; [reflexivity|apply suffix_refl].
  - exists fs. rewrite drun_nodata by (rewrite !nodata_app, Pa, pstatus_nodata, Pm; reflexivity). reflexivity.
Qed.

Theorem oracle_data_budget_model sc :
  (forall v after rest, start (cfg_of_case sc) (sc_raw sc) = Some (v, after, rest) -> v <> version_ssl) ->
  oracle_data_budget sc (run_case sc) = true.
Proof.
  intros Hssl. unfold oracle_data_budget. fold (drun (Some (client_frames sc)) (run_case sc)).
  unfold run_case, serve.
  destruct (start (cfg_of_case sc) (sc_raw sc)) as [[[v after] rest]|] eqn:Es; [|reflexivity].
  destruct (v =? version_cancel); [reflexivity|].
  destruct (Z.eqb_spec v version_ssl) as [->|_]; [exfalso; eapply Hssl; eauto|].
  destruct (session_d (cfg_of_case sc) after rest (client_frames sc)) as [rem R].
  - intros cparams aevs s' _ Hauth. eapply case_frames; eauto.
  - rewrite R. reflexivity.
Qed.
