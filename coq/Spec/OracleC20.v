(* Executable oracle for C20: evaluated on what the implementation returned. *)
Require Import Wire.Bytes Spec.ParamsSpec.
Local Open Scope Z_scope.

Definition oracle_C20 (q : bytes) (len : Z) (panicked : bool) : bool :=
  negb panicked && (0 <=? len) && (len <=? 65535) &&
  (if has_qmark q then true else len =? Z.min 65535 (max_index_fast q)) &&
  (if has_dollar_index_fast q then true else len =? Z.min 65535 (count_qmark q)).

Definition oracle_C20_alloc (q : bytes) (allocated : Z) : bool := allocated <=? alloc_budget q.
