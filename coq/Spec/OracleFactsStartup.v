(* OracleFactsStartup.v — the model satisfies the startup-negotiation oracle [oracle_C12]. *)
Require Import Wire.Bytes Spec.BackendSpec Spec.BackendSpecFacts Wire.Errors Wire.Framing Wire.Session
  Wire.SessionFacts Wire.CommandFacts Wire.RobustFacts Wire.Case Spec.KindFacts Spec.Oracles Spec.OracleFacts
  Spec.OracleFactsAuth Spec.OracleFactsLife.
From Coq Require Import String.
Local Open Scope string_scope.
Local Open Scope list_scope.
Local Open Scope Z_scope.

(* ---------- association lists as sets of pairs ---------- *)
Definition has_key (k : bytes) (l : list (bytes * bytes)) : bool := existsb (fun x => bytes_eqb k (fst x)) l.

Lemma pair_in_app kv a b : pair_in kv (a ++ b) = pair_in kv a || pair_in kv b.
Proof. apply existsb_app. Qed.
Lemma has_key_app k a b : has_key k (a ++ b) = has_key k a || has_key k b.
Proof. apply existsb_app. Qed.

Lemma pair_in_self kv l : In kv l -> pair_in kv l = true.
Proof.
  intros H. unfold pair_in. apply existsb_exists. exists kv. split; [exact H|]. rewrite !bytes_eqb_refl. reflexivity.
Qed.

Lemma keys_distinct_app a b :
  keys_distinct a = true -> keys_distinct b = true -> (forall kv, In kv a -> has_key (fst kv) b = false) ->
  keys_distinct (a ++ b) = true.
Proof.
  induction a as [|[k v] r IH]; intros Ha Hb Hd; [exact Hb|].
  cbn [app keys_distinct] in *. apply andb_prop in Ha as [H1 H2].
  fold (has_key k (r ++ b)). rewrite has_key_app. fold (has_key k r) in H1. apply negb_true_iff in H1. rewrite H1.
  pose proof (Hd (k, v) (or_introl eq_refl)) as Hk. cbn [fst] in Hk. rewrite Hk. cbn. apply IH; auto. intros kv Hin. apply Hd. right. exact Hin.
Qed.

Lemma has_key_filter k p l : has_key k l = false -> has_key k (filter p l) = false.
Proof.
  induction l as [|x r IH]; [reflexivity|]. cbn [has_key existsb filter]. intros H. apply orb_false_iff in H as [H1 H2].
  destruct (p x); cbn [existsb]; [rewrite H1|]; apply IH; exact H2.
Qed.

Lemma keys_distinct_filter p l : keys_distinct l = true -> keys_distinct (filter p l) = true.
Proof.
  induction l as [|[k v] r IH]; [reflexivity|]. cbn [keys_distinct filter]. intros H. apply andb_prop in H as [H1 H2].
  destruct (p (k, v)); [|apply IH; exact H2]. cbn [keys_distinct]. rewrite (IH H2), andb_true_r.
  apply negb_true_iff. apply negb_true_iff in H1. apply (has_key_filter k p r H1).
Qed.

(* ---------- the server's parameter set against the expected set ---------- *)
Definition forced_exp (version user : bytes) : list (bytes * bytes) :=
  [(bs "server_encoding", bs "UTF8"); (bs "client_encoding", bs "UTF8");
   (bs "is_superuser", bs "off"); (bs "session_authorization", user)] ++
  (match version with [] => [] | v => [(bs "server_version", v)] end).

Lemma forced_keys c user k :
  has_key k (forced_params c user) = has_key k (forced_exp (cfg_version c) user).
Proof.
  unfold forced_params, forced_exp, has_key. destruct (cfg_version c); cbn [app existsb fst];
    repeat match goal with |- context [bytes_eqb k ?x] => destruct (bytes_eqb k x) end; reflexivity.
Qed.

Lemma forced_pairs c user kv :
  pair_in kv (forced_params c user) = pair_in kv (forced_exp (cfg_version c) user).
Proof.
  unfold forced_params, forced_exp, pair_in. destruct (cfg_version c); cbn [app existsb fst snd];
    repeat match goal with |- context [bytes_eqb (fst kv) ?x && bytes_eqb (snd kv) ?y] => destruct (bytes_eqb (fst kv) x && bytes_eqb (snd kv) y) end; reflexivity.
Qed.

Lemma forced_distinct c user : keys_distinct (forced_params c user) = true.
Proof. unfold forced_params. destruct (cfg_version c); reflexivity. Qed.

Lemma filter_ext_in' {A} (p q : A -> bool) l : (forall x, p x = q x) -> filter p l = filter q l.
Proof. intros H. induction l as [|x r IH]; [reflexivity|]. cbn. rewrite H, IH. reflexivity. Qed.

Lemma expected_params_eq sc user :
  expected_params sc user =
  forced_exp (sc_version sc) user ++
  filter (fun kv => negb (existsb (fun f => bytes_eqb (fst kv) (fst f)) (forced_exp (sc_version sc) user))) (sc_params sc).
Proof. unfold expected_params, forced_exp. destruct (sc_version sc); reflexivity. Qed.

Lemma server_params_sets sc user :
  keys_distinct (sc_params sc) = true ->
  let ps := server_params (cfg_of_case sc) user in
  keys_distinct ps = true /\
  all_b (fun kv => pair_in kv ps) (expected_params sc user) = true /\
  all_b (fun kv => pair_in kv (expected_params sc user)) ps = true.
Proof.
  intros Hd ps. unfold ps, server_params. rewrite expected_params_eq.
  change (cfg_params (cfg_of_case sc)) with (sc_params sc).
  set (c := cfg_of_case sc). change (sc_version sc) with (cfg_version c).
  set (F := forced_params c user). set (F' := forced_exp (cfg_version c) user).
  assert (Flt : filter (fun kv => negb (existsb (fun f => bytes_eqb (fst kv) (fst f)) F)) (sc_params sc) =
                filter (fun kv => negb (existsb (fun f => bytes_eqb (fst kv) (fst f)) F')) (sc_params sc)).
  { apply filter_ext_in'. intros x. f_equal. apply (forced_keys c user (fst x)). }
  set (A := filter (fun kv => negb (existsb (fun f => bytes_eqb (fst kv) (fst f)) F)) (sc_params sc)) in *.
  rewrite <- Flt. clear Flt.
  split; [|split].
  - apply keys_distinct_app; [apply keys_distinct_filter; exact Hd|apply forced_distinct|].
    intros kv Hin. unfold A in Hin. apply filter_In in Hin as [_ Hp]. apply negb_true_iff in Hp. exact Hp.
  - unfold all_b. apply forallb_forall. intros kv Hin. rewrite pair_in_app. apply in_app_or in Hin as [Hin|Hin].
    + unfold F. rewrite forced_pairs. fold F'. rewrite (pair_in_self _ _ Hin). apply orb_true_r.
    + rewrite (pair_in_self _ _ Hin). reflexivity.
  - unfold all_b. apply forallb_forall. intros kv Hin. rewrite pair_in_app. apply in_app_or in Hin as [Hin|Hin].
    + rewrite (pair_in_self _ _ Hin). apply orb_true_r.
    + unfold F'. rewrite <- forced_pairs. fold F. rewrite (pair_in_self _ _ Hin). reflexivity.
Qed.

(* ---------- the shape of a session's log as far as ParameterStatus is concerned ---------- *)
Definition pst (kv : bytes * bytes) : ev := Out (BParamStatus (fst kv) (snd kv)).
Definition is_bauth (m : bmsg) : bool := match m with BAuth _ => true | _ => false end.
Definition is_pstatus (m : bmsg) : bool := match m with BParamStatus _ _ => true | _ => false end.

Lemma pstatus_of_app a b : pstatus_of (a ++ b) = pstatus_of a ++ pstatus_of b.
Proof. unfold pstatus_of. rewrite oouts_app, flat_map_app. reflexivity. Qed.

Lemma pstatus_of_block pp : pstatus_of (map pst pp) = pp.
Proof. induction pp as [|[k v] r IH]; [reflexivity|]. unfold pstatus_of in *. cbn [map pst Oracles.outs flat_map fst snd app]. fold (Oracles.outs (map pst r)). rewrite IH. reflexivity. Qed.

Lemma outs_block pp : Oracles.outs (map pst pp) = map (fun kv => BParamStatus (fst kv) (snd kv)) pp.
Proof. induction pp as [|x r IH]; [reflexivity|]. cbn. unfold Oracles.outs in IH. rewrite IH. reflexivity. Qed.

Lemma sess_no_pstatus l : sess_evs l = true -> pstatus_of l = [] /\ existsb crashp l = false.
Proof.
  induction l as [|e r IH]; [auto|]. cbn [sess_evs forallb]. intros H. apply andb_prop in H as [H1 H2].
  destruct (IH H2) as [A B]. unfold pstatus_of in *. cbn [Oracles.outs flat_map existsb].
  destruct e as [m| | | | | | | | | | |]; try destruct m; cbn in *; try discriminate; rewrite ?A, ?B; auto.
Qed.

Lemma mw_no_pstatus : forall mws i, pstatus_of (fst (run_mws mws i)) = [] /\ existsb crashp (fst (run_mws mws i)) = false /\
  Oracles.outs (fst (run_mws mws i)) = [].
Proof.
  induction mws as [|ok r IH]; intros i; cbn [run_mws]; [auto|].
  destruct ok; [|auto]. specialize (IH (i + 1)). destruct (run_mws r (i + 1)). exact IH.
Qed.

Lemma auth_phase_c12 c cparams s evs rest ok :
  auth_phase c cparams s = (evs, rest, ok) ->
  pstatus_of evs = [] /\ existsb crashp evs = false /\ (ok = true -> forallb is_bauth (Oracles.outs evs) = true).
Proof.
  unfold auth_phase. intros H.
  destruct (cfg_auth c) as [validate|]; [|injection H as <- <- <-; repeat split].
  destruct s as [|t [|a [|b [|c4 [|d r]]]]]; try (injection H as <- <- <-; repeat split; discriminate).
  destruct ((rd32 a b c4 d - 4 <? 0) || (rd32 a b c4 d - 4 >? eff_limit (cfg_limit c))); [injection H as <- <- <-; repeat split; discriminate|].
  destruct (takeZ (rd32 a b c4 d - 4) r) as [[body rest0]|]; [|injection H as <- <- <-; repeat split; discriminate].
  destruct (negb (Byte.eqb t x70)); [injection H as <- <- <-; repeat split; discriminate|].
  destruct (take_cstr body) as [[pw x]|]; [|injection H as <- <- <-; repeat split; discriminate].
  destruct (validate _ _ pw); injection H as <- <- <-; repeat split; discriminate.
Qed.

Lemma session_c12 c after s cparams : text_safe c ->
  read_params (S (List.length after)) after = Some cparams ->
  let pp := server_params c (param_get (bs "user") cparams) in
  (exists aevs, session c after s = aevs ++ [Closed] /\ pstatus_of aevs = [] /\ existsb crashp aevs = false) \/
  (exists aevs R, session c after s = aevs ++ map pst pp ++ R /\
     pstatus_of aevs = [] /\ existsb crashp aevs = false /\ forallb is_bauth (Oracles.outs aevs) = true /\
     pstatus_of R = [] /\ existsb crashp R = false /\ (Oracles.outs R = [] \/ exists r, Oracles.outs R = ready :: r)).
Proof.
  intros Hts Er pp. unfold session. rewrite Er.
  destruct (auth_phase c cparams s) as [[aevs s'] ok] eqn:Ea.
  destruct (auth_phase_c12 _ _ _ _ _ _ Ea) as (A1 & A2 & A3).
  destruct ok; cbn [negb]; [right|left; exists aevs; auto].
  destruct (mw_no_pstatus (cfg_mws c) 0) as (M1 & M2 & M3).
  destruct (run_mws (cfg_mws c) 0) as [mevs mok]. cbn [fst] in M1, M2, M3.
  exists aevs. fold pp. change (map (fun kv : bytes * bytes => Out (BParamStatus (fst kv) (snd kv))) pp) with (map pst pp).
  destruct mok; cbn [negb].
  - destruct (frames (cfg_limit c) s') as [fs tl].
    destruct (loop_kind c tl Hts (S (List.length fs)) st_init fs (Nat.lt_succ_diag_r _)) as (body & B1 & B2).
    destruct (sess_no_pstatus _ B1) as [B3 B4].
    exists (mevs ++ [Out ready] ++ loop (S (List.length fs)) c st_init fs tl).
    split; [reflexivity|]. split; [exact A1|]. split; [exact A2|]. split; [apply A3; reflexivity|].
    rewrite !pstatus_of_app, !existsb_app, !oouts_app, M1, M2, M3.
    destruct B2 as [-> | [-> _]]; rewrite !pstatus_of_app, !existsb_app, B3, B4; cbn; (split; [reflexivity|]); (split; [reflexivity|]); right; eexists; reflexivity.
  - exists (mevs ++ [Closed]).
    split; [reflexivity|]. split; [exact A1|]. split; [exact A2|]. split; [apply A3; reflexivity|].
    rewrite !pstatus_of_app, !existsb_app, !oouts_app, M1, M2, M3. cbn. auto.
Qed.

(* ---------- spans ---------- *)
Lemma span_app_all {A} (p : A -> bool) a b :
  forallb p a = true -> span p (a ++ b) = (a ++ fst (span p b), snd (span p b)).
Proof.
  induction a as [|x r IH]; intros H; cbn [app span forallb] in *; [destruct (span p b); reflexivity|].
  apply andb_prop in H as [H1 H2]. rewrite H1, (IH H2). reflexivity.
Qed.
Lemma span_head {A} (p : A -> bool) l :
  match l with [] => True | x :: _ => p x = false end -> span p l = ([], l).
Proof. destruct l as [|x r]; [reflexivity|]. intros H. cbn [span]. rewrite H. reflexivity. Qed.

Lemma block_all_pstatus pp : forallb is_pstatus (map (fun kv : bytes * bytes => BParamStatus (fst kv) (snd kv)) pp) = true.
Proof. induction pp; [reflexivity|assumption]. Qed.

Lemma start_packet_pairs c raw v after rest :
  start c raw = Some (v, after, rest) ->
  packet_pairs (cfg_limit c) raw = Some (v, read_params (S (List.length after)) after, rest).
Proof.
  unfold start, packet_pairs. destruct (untyped (cfg_limit c) raw) as [[body r0]|]; [|discriminate].
  destruct body as [|a [|b [|c4 [|d body]]]]; try discriminate. cbn [p_u32]. intros H. injection H as <- <- <-. reflexivity.
Qed.
Lemma start_none_packet c raw : start c raw = None -> packet_pairs (cfg_limit c) raw = None.
Proof.
  unfold start, packet_pairs. destruct (untyped (cfg_limit c) raw) as [[body r0]|]; [|reflexivity].
  destruct body as [|a [|b [|c4 [|d body]]]]; try reflexivity. cbn [p_u32]. discriminate.
Qed.

Theorem oracle_C12_model sc :
  keys_distinct (sc_params sc) = true ->
  (forall v after rest, start (cfg_of_case sc) (sc_raw sc) = Some (v, after, rest) -> v <> version_ssl) ->
  oracle_C12 sc (run_case sc) = true.
Proof.
  intros Hd Hssl. unfold oracle_C12, startup_pairs, run_case, serve.
  change (sc_limit sc) with (cfg_limit (cfg_of_case sc)).
  destruct (start (cfg_of_case sc) (sc_raw sc)) as [[[v after] rest]|] eqn:Es.
  2: { rewrite (start_none_packet _ _ Es). reflexivity. }
  rewrite (start_packet_pairs _ _ _ _ _ Es).
  change 80877102 with version_cancel. change 80877103 with version_ssl.
  destruct (v =? version_cancel); [reflexivity|].
  destruct (Z.eqb_spec v version_ssl) as [->|_]; [exfalso; eapply Hssl; eauto|].
  destruct (read_params (S (List.length after)) after) as [cparams|] eqn:Er.
  2: { unfold session. rewrite Er. reflexivity. }
  destruct (session_c12 (cfg_of_case sc) after rest cparams (case_text_safe sc) Er) as
    [(aevs & -> & A1 & A2)|(aevs & R & -> & A1 & A2 & A3 & R1 & R2 & R3)].
  - unfold no_crash. change (existsb _ (aevs ++ [Closed])) with (existsb crashp (aevs ++ [Closed])).
    rewrite existsb_app, A2, pstatus_of_app, A1. reflexivity.
  - set (user := param_get (bs "user") cparams) in *.
    set (pp := server_params (cfg_of_case sc) user) in *.
    destruct (server_params_sets sc user Hd) as (S1 & S2 & S3). fold pp in S1, S2, S3.
    unfold no_crash. change (existsb _ (aevs ++ map pst pp ++ R)) with (existsb crashp (aevs ++ map pst pp ++ R)).
    assert (Cp : existsb crashp (map pst pp) = false) by (clear; induction pp; [reflexivity|assumption]).
    rewrite !existsb_app, A2, Cp, R2, !pstatus_of_app, A1, R1, pstatus_of_block, app_nil_r. cbn [app orb negb andb].
    assert (Ne : pp <> []).
    { unfold pp, server_params, forced_params. intros E. apply app_eq_nil in E as [_ E]. discriminate. }
    destruct pp as [|p0 pr] eqn:Epp; [contradiction|]. rewrite <- Epp in *.
    rewrite S1, S2, S3. cbn [andb].
    rewrite !oouts_app, outs_block.
    rewrite (span_app_all _ _ _ A3).
    rewrite (span_head is_bauth
               (map (fun kv : bytes * bytes => BParamStatus (fst kv) (snd kv)) pp ++ Oracles.outs R))
      by (rewrite Epp; reflexivity).
    cbn [fst snd].
    rewrite (span_app_all _ _ _ (block_all_pstatus pp)).
    rewrite (span_head is_pstatus (Oracles.outs R))
      by (destruct R3 as [-> | [r ->]]; [exact I|reflexivity]).
    cbn [fst snd]. rewrite app_nil_r. unfold lenZ. rewrite map_length, Z.eqb_refl. cbn [andb].
    destruct R3 as [-> | [r ->]]; reflexivity.
Qed.

(* ---------- C10: a startup packet within the limit is served ---------- *)
Lemma run_mws_all_ok : forall mws i, forallb (fun ok : bool => ok) mws = true -> snd (run_mws mws i) = true.
Proof.
  induction mws as [|ok r IH]; intros i H; [reflexivity|]. cbn [forallb] in H. apply andb_prop in H as [-> H2].
  cbn [run_mws]. specialize (IH (i + 1) H2). destruct (run_mws r (i + 1)). exact IH.
Qed.

Theorem startup_served_model sc :
  (forall v after rest, start (cfg_of_case sc) (sc_raw sc) = Some (v, after, rest) -> v <> version_ssl) ->
  startup_served sc (run_case sc) = true.
Proof.
  intros Hssl. unfold startup_served, startup_pairs, run_case, serve.
  change (sc_limit sc) with (cfg_limit (cfg_of_case sc)).
  destruct (start (cfg_of_case sc) (sc_raw sc)) as [[[v after] rest]|] eqn:Es.
  2: { rewrite (start_none_packet _ _ Es). reflexivity. }
  rewrite (start_packet_pairs _ _ _ _ _ Es).
  change 80877102 with version_cancel. change 80877103 with version_ssl.
  destruct (v =? version_cancel); [reflexivity|].
  destruct (Z.eqb_spec v version_ssl) as [->|_]; [exfalso; eapply Hssl; eauto|].
  destruct (read_params (S (List.length after)) after) as [cparams|] eqn:Er; [|reflexivity].
  destruct (sc_auth sc) as [[m pw]|] eqn:Ha; [reflexivity|].
  destruct (forallb (fun ok : bool => ok) (sc_mws sc)) eqn:Hm; [|reflexivity].
  unfold session. rewrite Er. unfold auth_phase. cbn [cfg_of_case cfg_auth]. rewrite Ha. cbn [negb].
  pose proof (run_mws_all_ok (sc_mws sc) 0 Hm) as Hok. cbn [cfg_of_case cfg_mws].
  destruct (run_mws (sc_mws sc) 0) as [mevs mok]. cbn [snd] in Hok. subst mok. cbn [negb].
  destruct (frames _ rest) as [fs tl].
  rewrite !oouts_app. rewrite !existsb_app. cbn. rewrite !orb_true_r. reflexivity.
Qed.

Theorem oracle_C10_model sc :
  case_nocopy sc = true ->
  (forall v after rest, start (cfg_of_case sc) (sc_raw sc) = Some (v, after, rest) -> v <> version_ssl) ->
  oracle_C10 sc (run_case sc) = true.
Proof.
  intros Hn Hssl. unfold oracle_C10. rewrite (oracle_turns_model_auth sc Hn Hssl), (startup_served_model sc Hssl). reflexivity.
Qed.
