(* WfFacts.v — every message the session model sends is well formed ([wf_bmsg]: counts
   within 16 bits, strings NUL-free, field lengths within 31 bits), for configurations
   whose handler-supplied strings are NUL-free and whose tables are within the protocol's
   counts.  With the codec theorem of BackendSpecFacts this gives: the bytes sent parse,
   under the strict grammar, to exactly the messages meant. *)
Require Import Wire.Bytes Wire.BytesFacts Spec.BackendSpec Spec.BackendSpecFacts Wire.Errors Wire.Framing Wire.Session
  Wire.SessionFacts Wire.CommandFacts Wire.RobustFacts.
From Coq Require Import String.
Local Open Scope string_scope.
Local Open Scope list_scope.
Local Open Scope Z_scope.

(* ---------- NUL-free strings ---------- *)
Lemma nul_free_app a b : nul_free (a ++ b) = nul_free a && nul_free b.
Proof. induction a as [|x r IH]; [reflexivity|]. cbn. rewrite IH, andb_assoc. reflexivity. Qed.

Lemma take_cstr_nul_free l : forall s r, take_cstr l = Some (s, r) -> nul_free s = true.
Proof.
  induction l as [|b t IH]; intros s r H; cbn [take_cstr] in H; [discriminate|].
  destruct (Byte.eqb b x00) eqn:E; [injection H as <- <-; reflexivity|].
  destruct (take_cstr t) as [[s0 t0]|]; [|discriminate]. injection H as <- <-.
  cbn. rewrite E, (IH _ _ eq_refl). reflexivity.
Qed.

Lemma digit_nonzero n : (n < 10)%N -> Byte.eqb (byte_of_N (48 + n)) x00 = false.
Proof.
  intros H. destruct n as [|p]; [reflexivity|].
  do 4 (destruct p as [p|p|]; try reflexivity; try lia).
Qed.

Lemma dec_digits_nul_free : forall fuel n acc, nul_free acc = true -> nul_free (dec_digits_pos fuel n acc) = true.
Proof.
  induction fuel as [|f IH]; intros n acc H; cbn [dec_digits_pos]; [exact H|].
  assert (D : nul_free (byte_of_N (48 + n mod 10) :: acc) = true).
  { cbn [nul_free]. rewrite digit_nonzero by (apply N.mod_lt; discriminate). exact H. }
  destruct (n <? 10)%N; [exact D|]. apply IH. exact D.
Qed.

Lemma itoa_nul_free z : nul_free (itoa z) = true.
Proof.
  unfold itoa. destruct (z <? 0); [cbn [nul_free]|]; rewrite dec_digits_nul_free; reflexivity.
Qed.

(* ---------- error trees ---------- *)
Fixpoint wf_err (e : err) : bool :=
  match e with
  | EBase t => nul_free t
  | EWrap pre post e' => nul_free pre && nul_free post && wf_err e'
  | ECode c e' => nul_free c && wf_err e'
  | ESev s e' => nul_free s && wf_err e'
  | EHint h e' => nul_free h && wf_err e'
  | EDetail d e' => nul_free d && wf_err e'
  | ESource f _ fn e' => nul_free f && nul_free fn && wf_err e'
  | EConstraint c e' => nul_free c && wf_err e'
  end.

Lemma combine_unc x : combine_codes x uncategorized = x.
Proof. reflexivity. Qed.

Ltac wf_split H := repeat (apply andb_prop in H; let H2 := fresh "W" in destruct H as [H H2]).

Lemma wf_err_text e : wf_err e = true -> nul_free (err_text e) = true.
Proof.
  induction e; cbn [wf_err err_text]; intros H; auto; wf_split H; auto.
  rewrite !nul_free_app, H, W0, (IHe W). reflexivity.
Qed.
Lemma wf_err_code e : wf_err e = true -> nul_free (get_code e) = true.
Proof. induction e; cbn [wf_err get_code]; intros H; rewrite ?combine_unc; auto; wf_split H; auto. Qed.
Lemma sev_id e : match get_severity e with [] => [] | s => s end = get_severity e.
Proof. destruct (get_severity e); reflexivity. Qed.
Lemma wf_err_sev e : wf_err e = true -> nul_free (get_severity e) = true.
Proof. induction e; cbn [wf_err get_severity]; intros H; rewrite ?sev_id; auto; wf_split H; auto. Qed.
Lemma wf_err_hint e : wf_err e = true -> nul_free (get_hint e) = true.
Proof. induction e; cbn [wf_err get_hint]; intros H; auto; wf_split H; auto. Qed.
Lemma wf_err_detail e : wf_err e = true -> nul_free (get_detail e) = true.
Proof. induction e; cbn [wf_err get_detail]; intros H; auto; wf_split H; auto. Qed.
Lemma con_id e : match get_constraint e with [] => [] | s => s end = get_constraint e.
Proof. destruct (get_constraint e); reflexivity. Qed.
Lemma wf_err_constraint e : wf_err e = true -> nul_free (get_constraint e) = true.
Proof. induction e; cbn [wf_err get_constraint]; intros H; rewrite ?con_id; auto; wf_split H; auto. Qed.
Lemma wf_err_source e : wf_err e = true ->
  match get_source e with Some (f, _, fn) => nul_free f = true /\ nul_free fn = true | None => True end.
Proof. induction e; cbn [wf_err get_source]; intros H; auto; wf_split H; auto; apply IHe; assumption. Qed.

Lemma wf_efield_ok c t : Byte.eqb c x00 = false -> nul_free t = true -> wf_efield (c, t) = true.
Proof. intros A B. unfold wf_efield. cbn [fst snd]. rewrite A, B. reflexivity. Qed.

Lemma wf_err_msg e : wf_err e = true -> wf_bmsg (err_msg (Some e)) = true.
Proof.
  intros H. unfold err_msg, wf_bmsg, err_fields, flatten.
  cbn [f_severity f_code f_message f_hint f_detail f_source f_constraint].
  assert (S : nul_free (default_severity (get_severity e)) = true).
  { unfold default_severity. pose proof (wf_err_sev e H). destruct (get_severity e); [reflexivity|assumption]. }
  rewrite !forallb_app. cbn [forallb].
  rewrite !wf_efield_ok by (auto using wf_err_code, wf_err_text).
  assert (A1 : forallb wf_efield (if nonempty (get_hint e) then [(x48, get_hint e)] else []) = true)
    by (destruct (nonempty (get_hint e)); [cbn [forallb]; rewrite wf_efield_ok by (auto using wf_err_hint)|]; reflexivity).
  assert (A2 : forallb wf_efield (if nonempty (get_detail e) then [(x44, get_detail e)] else []) = true)
    by (destruct (nonempty (get_detail e)); [cbn [forallb]; rewrite wf_efield_ok by (auto using wf_err_detail)|]; reflexivity).
  assert (A3 : forallb wf_efield (if nonempty (get_constraint e) then [(x6e, get_constraint e)] else []) = true)
    by (destruct (nonempty (get_constraint e)); [cbn [forallb]; rewrite wf_efield_ok by (auto using wf_err_constraint)|]; reflexivity).
  rewrite A1, A2, A3. pose proof (wf_err_source e H) as Sx.
  destruct (get_source e) as [[[f l] fn]|]; [|reflexivity].
  destruct Sx as [S1 S2]. cbn [forallb]. rewrite !wf_efield_ok by (auto using itoa_nul_free). reflexivity.
Qed.

Lemma wf_nil_msg : wf_bmsg (err_msg None) = true.
Proof. reflexivity. Qed.

(* ---------- the library's own errors ---------- *)
Lemma wf_lib_errors :
  (forall t, wf_err (e_unimplemented t) = true) /\
  (forall name, nul_free name = true -> wf_err (e_unknown_stmt name) = true) /\
  (forall name, nul_free name = true -> wf_err (e_unknown_portal name) = true) /\
  wf_err e_undefined_stmt = true /\ wf_err e_multiple_stmts = true /\
  (forall d, nul_free d = true -> wf_err (e_copy_failed d) = true) /\
  (forall a b, wf_err (e_size_exceeded a b) = true) /\
  wf_err e_missing_nul = true /\ wf_err e_invalid_password = true /\
  wf_err e_closed_writer = true /\ wf_err e_data_written = true /\
  (forall a b, wf_err (e_arity a b) = true) /\ wf_err e_no_columns = true /\
  wf_err e_unknown_describe = true /\ wf_err e_unknown_close = true /\ wf_err e_panic = true /\
  wf_err e_encode = true /\ wf_err e_eof = true /\ wf_err e_unexpected_eof = true.
Proof.
  repeat split; intros; cbn [wf_err e_unimplemented e_unknown_stmt e_unknown_portal e_copy_failed e_size_exceeded e_arity];
    rewrite ?nul_free_app, ?itoa_nul_free; try reflexivity; try (rewrite H; reflexivity).
Qed.

(* ---------- configurations whose handler-supplied data has an encoding ---------- *)
Definition wf_column (c : column) : bool := nul_free (c_name c).

(* values whose encodings fit the 31-bit field length with a wide margin *)
Definition value_small (v : value) : bool :=
  match v with VText s | VBytea s | VUuid s => lenZ s <? 1000000000 | _ => true end.

Definition wf_hop (o : hop) : bool :=
  match o with HComplete tag => nul_free tag | HRow vs => forallb value_small vs | _ => true end.

Definition wf_ret (r : retc) : bool := match r with RetErr e => wf_err e | _ => true end.

Definition wf_stmt (s : stmt) : bool :=
  (lenZ (s_cols s) <? 65536) && forallb wf_column (s_cols s) && (lenZ (s_poids s) <? 65536) &&
  forallb wf_hop (s_prog s) && wf_ret (s_ret s).

Record wf_cfg (c : cfg) : Prop := {
  wc_parse_ok : forall q ss, cfg_parse c q = POk ss -> forallb wf_stmt ss = true;
  wc_parse_err : forall q e, cfg_parse c q = PErr e -> wf_err e = true;
  wc_params : forallb (fun kv => nul_free (fst kv) && nul_free (snd kv)) (cfg_params c) = true;
  wc_version : nul_free (cfg_version c) = true;
  (* the encoder's results fit the 31-bit field length *)
  wc_encode : forall oid f v b, value_small v = true -> cfg_encode c oid f v = EncBytes b -> lenZ b <? 2147483648 = true }.

Definition wf_outs (evs : list ev) : bool := forallb wf_bmsg (outs evs).
Lemma wf_outs_app a b : wf_outs (a ++ b) = wf_outs a && wf_outs b.
Proof. unfold wf_outs. rewrite outs_app. apply forallb_app. Qed.

(* ---------- rows ---------- *)
Lemma enc_fields_wf c cols fmts : wf_cfg c -> forall vs i fs, forallb value_small vs = true ->
  enc_fields (cfg_encode c) cols fmts i vs = RowOk fs ->
  forallb wf_field fs = true /\ (List.length fs <= List.length cols)%nat.
Proof.
  intros Hc. revert fmts. induction cols as [|col cr IH]; intros fmts vs i fs Hv H; cbn [enc_fields] in H.
  - injection H as <-. split; [reflexivity|cbn; lia].
  - destruct vs as [|v vr]; [injection H as <-; split; [reflexivity|cbn; lia]|].
    cbn [forallb] in Hv. apply andb_prop in Hv as [Hv1 Hv2].
    destruct (cfg_encode c (c_oid col) (fmt_for fmts i) v) as [b| | |] eqn:E; try discriminate.
    + destruct (enc_fields (cfg_encode c) cr fmts (S i) vr) as [fs0| |] eqn:E2; try discriminate.
      injection H as <-. destruct (IH _ _ _ _ Hv2 E2) as [A B]. cbn [forallb wf_field List.length].
      rewrite (wc_encode c Hc _ _ _ _ Hv1 E), A. split; [reflexivity|lia].
    + destruct (enc_fields (cfg_encode c) cr fmts (S i) vr) as [fs0| |] eqn:E2; try discriminate.
      injection H as <-. destruct (IH _ _ _ _ Hv2 E2) as [A B]. cbn [forallb wf_field List.length].
      rewrite A. split; [reflexivity|lia].
Qed.

Lemma coldescs_wf cols fmts : forallb wf_column cols = true -> forall i, forallb wf_col (coldescs cols fmts i) = true.
Proof.
  induction cols as [|c r IH]; intros H i; [reflexivity|]. cbn [forallb] in H. apply andb_prop in H as [H1 H2].
  cbn [coldescs forallb]. rewrite (IH H2). unfold wf_col, coldesc_of. cbn [cd_name cd_table cd_attr cd_oid cd_width cd_typmod cd_fmt].
  unfold wf_column in H1. rewrite H1. unfold u32_ok, u16_ok.
  pose proof (Z.mod_pos_bound (c_table c) 4294967296 eq_refl). pose proof (Z.mod_pos_bound (c_attrno c) 65536 eq_refl).
  pose proof (Z.mod_pos_bound (c_oid c) 4294967296 eq_refl). pose proof (Z.mod_pos_bound (c_width c) 65536 eq_refl).
  pose proof (Z.mod_pos_bound (fmt_for fmts i) 65536 eq_refl).
  repeat match goal with |- context [?a <=? ?b] => replace (a <=? b) with true by (symmetry; apply Z.leb_le; lia) end.
  repeat match goal with |- context [?a <? ?b] => replace (a <? b) with true by (symmetry; apply Z.ltb_lt; lia) end.
  reflexivity.
Qed.

Lemma coldescs_len cols fmts : forall i, List.length (coldescs cols fmts i) = List.length cols.
Proof. induction cols as [|c r IH]; intros i; [reflexivity|]. cbn. rewrite IH. reflexivity. Qed.

Lemma row_desc_wf s fmts : wf_stmt s = true -> wf_bmsg (row_desc (s_cols s) fmts) = true.
Proof.
  unfold wf_stmt. intros H. wf_split H. unfold row_desc, wf_bmsg. unfold lenZ in *. rewrite coldescs_len.
  rewrite H, (coldescs_wf _ fmts W2). reflexivity.
Qed.

(* ---------- the result writer and the handler programs ---------- *)
Definition wlast_ok (w : wstate) : Prop := forall e, w_last w = Some e -> wf_err e = true.

Lemma copy_read_wf L : forall fs tl evs r rest,
  copy_read L fs tl = (evs, r, rest) -> outs evs = [] /\ (forall e, r = OErr e -> wf_err e = true).
Proof.
  destruct wf_lib_errors as (L1 & L2 & L3 & L4 & L5 & L6 & L7 & L8 & L9 & L10 & L11 & L12 & L13 & L14 & L15 & L16 & L17 & L18 & L19).
  induction fs as [|f fr IH]; intros tl evs r rest H; cbn [copy_read] in H.
  - injection H as <- <- <-. split; [reflexivity|]. intros e He. destruct tl; cbn in He; [discriminate|]. injection He as <-. exact L19.
  - destruct f as [t body|t size [x|]|t size|].
    + destruct (Byte.eqb t x48 || Byte.eqb t x53).
      * destruct (copy_read L fr tl) as [[evs0 r0] rest0] eqn:E. injection H as <- <- <-.
        destruct (IH _ _ _ _ E) as [A B]. split; [exact A|exact B].
      * destruct (Byte.eqb t x64); [injection H as <- <- <-; split; [reflexivity|discriminate]|].
        destruct (Byte.eqb t x63); [injection H as <- <- <-; split; [reflexivity|discriminate]|].
        destruct (Byte.eqb t x66).
        -- destruct (take_cstr body) as [[d x]|] eqn:Ec; injection H as <- <- <-; (split; [reflexivity|]); intros e He; injection He as <-.
           ++ apply L6. eapply take_cstr_nul_free; eauto.
           ++ exact L8.
        -- injection H as <- <- <-. split; [reflexivity|]. intros e He. injection He as <-. apply L1.
    + injection H as <- <- <-. split; [reflexivity|]. intros e He. destruct x; cbn in He; [discriminate|]. injection He as <-. exact L19.
    + injection H as <- <- <-. split; [reflexivity|]. intros e He. injection He as <-. apply L7.
    + injection H as <- <- <-. split; [reflexivity|]. intros e He. injection He as <-. apply L7.
    + injection H as <- <- <-. split; [reflexivity|]. intros e He. injection He as <-. exact L19.
Qed.

Lemma repeatZ_wf n z : 0 <= z < 65536 -> forallb u16_ok (repeatZ n z) = true /\ List.length (repeatZ n z) = n.
Proof.
  intros Hz. induction n as [|n [IH1 IH2]]; [split; reflexivity|]. cbn [repeatZ forallb List.length]. rewrite IH1, IH2.
  unfold u16_ok. replace (0 <=? z) with true by (symmetry; apply Z.leb_le; lia).
  replace (z <? 65536) with true by (symmetry; apply Z.ltb_lt; lia). split; reflexivity.
Qed.

Lemma run_op_wf c s fmts o w fs tl evs w' fs' st :
  wf_cfg c -> wf_stmt s = true -> wf_hop o = true -> wlast_ok w ->
  run_op c (s_cols s) fmts o w fs tl = (evs, w', fs', st) ->
  wf_outs evs = true /\ wlast_ok w'.
Proof.
  destruct wf_lib_errors as (L1 & L2 & L3 & L4 & L5 & L6 & L7 & L8 & L9 & L10 & L11 & L12 & L13 & L14 & L15 & L16 & L17 & L18 & L19).
  intros Hc Hs Ho Hw H. unfold wf_stmt in Hs. wf_split Hs.
  assert (Fail : forall e, wf_err e = true -> wlast_ok (w_fail w e)).
  { intros e He e0 H0. cbn in H0. injection H0 as <-. exact He. }
  destruct o as [vs| | |tag|f|]; cbn [run_op] in H.
  - destruct (w_closed w); [injection H as <- <- <- <-; split; [reflexivity|apply Fail; exact L10]|].
    unfold write_row in H. destruct (negb (lenZ vs =? lenZ (s_cols s))).
    + injection H as <- <- <- <-. split; [reflexivity|apply Fail; apply L12].
    + destruct (enc_fields (cfg_encode c) (s_cols s) fmts 0 vs) as [fields|e|] eqn:E.
      * injection H as <- <- <- <-. destruct (enc_fields_wf c _ _ Hc _ _ _ Ho E) as [A B].
        split; [|exact Hw]. unfold wf_outs. cbn [outs flat_map app forallb wf_bmsg]. rewrite A.
        unfold lenZ in *. replace (Z.of_nat (List.length fields) <? 65536) with true; [reflexivity|].
        symmetry. apply Z.ltb_lt. apply Z.ltb_lt in Hs. lia.
      * injection H as <- <- <- <-. split; [reflexivity|]. apply Fail.
        clear -E L17. revert E. generalize 0%nat. generalize vs. induction (s_cols s) as [|col cr IH]; intros vs0 i E; cbn [enc_fields] in E; [discriminate|].
        destruct vs0 as [|v vr]; [discriminate|].
        destruct (cfg_encode c (c_oid col) (fmt_for fmts i) v); try discriminate.
        -- destruct (enc_fields (cfg_encode c) cr fmts (S i) vr) eqn:E2; try discriminate. injection E as <-. eapply IH; eauto.
        -- destruct (enc_fields (cfg_encode c) cr fmts (S i) vr) eqn:E2; try discriminate. injection E as <-. eapply IH; eauto.
        -- injection E as <-. exact L17.
      * injection H as <- <- <- <-. split; [reflexivity|exact Hw].
  - injection H as <- <- <- <-. split; [reflexivity|exact Hw].
  - destruct (w_closed w); [|destruct (negb (w_written w =? 0))]; injection H as <- <- <- <-; (split; [reflexivity|]);
      try (apply Fail; assumption). intros e He. cbn in He. apply Hw. exact He.
  - cbn [wf_hop] in Ho. destruct (w_closed w); injection H as <- <- <- <-.
    + split; [reflexivity|apply Fail; exact L10].
    + split; [unfold wf_outs; cbn; rewrite Ho; reflexivity|]. intros e He. cbn in He. apply Hw. exact He.
  - destruct (w_closed w); [injection H as <- <- <- <-; split; [reflexivity|apply Fail; exact L10]|].
    destruct (s_cols s) as [|c0 cr] eqn:Ec; injection H as <- <- <- <-; [split; [reflexivity|apply Fail; exact L13]|].
    split; [|intros e He; cbn in He; apply Hw; exact He].
    unfold wf_outs. cbn [outs flat_map app forallb wf_bmsg].
    pose proof (Z.mod_pos_bound f 256 eq_refl). pose proof (Z.mod_pos_bound f 65536 eq_refl) as H65.
    destruct (repeatZ_wf (List.length cr) (f mod 65536) H65) as [R1 R2]. rewrite R1.
    unfold lenZ in *. cbn [List.length] in *. rewrite R2. unfold u16_ok.
    replace (0 <=? f mod 256) with true by (symmetry; apply Z.leb_le; lia).
    replace (f mod 256 <? 256) with true by (symmetry; apply Z.ltb_lt; lia).
    replace (0 <=? f mod 65536) with true by (symmetry; apply Z.leb_le; lia).
    replace (f mod 65536 <? 65536) with true by (symmetry; apply Z.ltb_lt; lia).
    rewrite Hs. reflexivity.
  - destruct (negb (w_copy w)); [injection H as <- <- <- <-; split; [reflexivity|exact Hw]|].
    destruct (copy_read (cfg_limit c) fs tl) as [[evs0 r] rest] eqn:E.
    destruct (copy_read_wf _ _ _ _ _ _ E) as [A B].
    assert (O : wf_outs (evs0 ++ [CbOp r]) = true) by (unfold wf_outs; rewrite outs_app, A; reflexivity).
    destruct r; injection H as <- <- <- <-; (split; [exact O|]); try exact Hw. apply Fail. apply B. reflexivity.
Qed.

Lemma run_ops_wf c s fmts stop : wf_cfg c -> wf_stmt s = true -> forall ops w fs tl evs w' fs' res,
  forallb wf_hop ops = true -> wlast_ok w ->
  run_ops c (s_cols s) fmts stop ops w fs tl = (evs, w', fs', res) ->
  wf_outs evs = true /\ wlast_ok w' /\ (forall e, res = Some (PErrR e) -> wf_err e = true).
Proof.
  intros Hc Hs. induction ops as [|o r IH]; intros w fs tl evs w' fs' res Ho Hw H; cbn [run_ops forallb] in *.
  - injection H as <- <- <- <-. split; [reflexivity|]. split; [exact Hw|discriminate].
  - apply andb_prop in Ho as [Ho1 Ho2].
    destruct (run_op c (s_cols s) fmts o w fs tl) as [[[evs1 w1] fs1] st] eqn:E1.
    destruct (run_op_wf _ _ _ _ _ _ _ _ _ _ _ Hc Hs Ho1 Hw E1) as [A1 W1].
    destruct st.
    + destruct (run_ops c (s_cols s) fmts stop r w1 fs1 tl) as [[[evs2 w2] fs2] res2] eqn:E2.
      injection H as <- <- <- <-. destruct (IH _ _ _ _ _ _ _ Ho2 W1 E2) as (A2 & W2 & R2).
      rewrite wf_outs_app, A1, A2. auto.
    + destruct stop.
      * injection H as <- <- <- <-. split; [exact A1|]. split; [exact W1|].
        intros e He. destruct (w_last w1) as [e1|] eqn:El; [|discriminate]. injection He as <-. apply W1. exact El.
      * destruct (run_ops c (s_cols s) fmts false r w1 fs1 tl) as [[[evs2 w2] fs2] res2] eqn:E2.
        injection H as <- <- <- <-. destruct (IH _ _ _ _ _ _ _ Ho2 W1 E2) as (A2 & W2 & R2).
        rewrite wf_outs_app, A1, A2. auto.
    + injection H as <- <- <- <-. split; [exact A1|]. split; [exact W1|discriminate].
Qed.

Lemma run_stmt_wf c s fmts params fs tl evs fs' res :
  wf_cfg c -> wf_stmt s = true ->
  run_stmt c s fmts params fs tl = (evs, fs', res) ->
  wf_outs evs = true /\ (forall e, res = PErrR e -> wf_err e = true).
Proof.
  intros Hc Hs. unfold run_stmt. intros H.
  destruct (run_ops c (s_cols s) fmts (s_stop s) (s_prog s) w_init fs tl) as [[[evs0 w] fs0] r0] eqn:E.
  pose proof Hs as Hs'. unfold wf_stmt in Hs'. wf_split Hs'.
  destruct (run_ops_wf c s fmts (s_stop s) Hc Hs _ _ _ _ _ _ _ _ W0 (fun e (H0 : w_last w_init = Some e) => ltac:(discriminate H0)) E) as (A & Wl & R).
  injection H as <- <- <-. split; [exact A|].
  intros e He. destruct r0 as [r1|].
  - apply R. rewrite He. reflexivity.
  - destruct (s_ret s) as [|e1|] eqn:Er; try discriminate.
    + injection He as <-. exact W.
    + destruct (w_last w) as [e1|] eqn:El; [|discriminate]. injection He as <-. apply Wl. exact El.
Qed.

Lemma define_wf s fmts : wf_stmt s = true -> wf_outs (define_evs (s_cols s) fmts) = true.
Proof.
  intros Hs. unfold define_evs. pose proof (row_desc_wf s fmts Hs) as R. destruct (s_cols s); [reflexivity|].
  unfold wf_outs. cbn [outs flat_map app forallb]. rewrite R. reflexivity.
Qed.

Lemma wf_err_out e : wf_err e = true -> wf_outs [Out (err_msg (Some e))] = true.
Proof. intros H. unfold wf_outs. cbn [outs flat_map app forallb]. rewrite (wf_err_msg e H). reflexivity. Qed.

Lemma run_stmts_wf c : wf_cfg c -> forall ss fs tl evs fs' crashed,
  forallb wf_stmt ss = true -> run_stmts c ss fs tl = (evs, fs', crashed) -> wf_outs evs = true.
Proof.
  intros Hc. induction ss as [|s r IH]; intros fs tl evs fs' crashed Hs H; cbn [run_stmts forallb] in *.
  - injection H as <- <- <-. reflexivity.
  - apply andb_prop in Hs as [Hs1 Hs2].
    destruct (run_stmt c s [] [] fs tl) as [[evs1 fs1] res] eqn:E1.
    destruct (run_stmt_wf _ _ _ _ _ _ _ _ _ Hc Hs1 E1) as [A1 R1].
    destruct res.
    + destruct (run_stmts c r fs1 tl) as [[evs2 fs2] cr] eqn:E2.
      injection H as <- <- <-. rewrite !wf_outs_app, (define_wf s [] Hs1), A1, (IH _ _ _ _ _ Hs2 E2). reflexivity.
    + injection H as <- <- <-. rewrite !wf_outs_app, (define_wf s [] Hs1), A1.
      change [Out (err_msg (Some e)); Out ready] with ([Out (err_msg (Some e))] ++ [Out ready]).
      rewrite wf_outs_app, (wf_err_out e (R1 e eq_refl)). reflexivity.
    + injection H as <- <- <-. rewrite !wf_outs_app, (define_wf s [] Hs1), A1. reflexivity.
Qed.

(* ---------- the command loop ---------- *)
Definition st_wf (st : sst) : Prop :=
  (forall n s, alist_get n (st_stmts st) = Some s -> wf_stmt s = true) /\
  (forall n p, alist_get n (st_portals st) = Some p -> wf_stmt (p_stmt p) = true).

Lemma alist_set_inv {A} (P : A -> Prop) k (v : A) l :
  P v -> (forall n x, alist_get n l = Some x -> P x) -> forall n x, alist_get n (alist_set k v l) = Some x -> P x.
Proof.
  intros Hv Hl n x H. destruct (bytes_eqb n k) eqn:E.
  - apply bytes_eqb_eq in E. subst n. rewrite alist_get_set_same in H. injection H as <-. exact Hv.
  - rewrite alist_get_set_other in H by exact E. eapply Hl; eauto.
Qed.
Lemma alist_del_inv {A} (P : A -> Prop) k (l : list (bytes * A)) :
  (forall n x, alist_get n l = Some x -> P x) -> forall n x, alist_get n (alist_del k l) = Some x -> P x.
Proof.
  intros Hl n x H. destruct (bytes_eqb n k) eqn:E.
  - apply bytes_eqb_eq in E. subst n. rewrite alist_get_del_same in H. discriminate.
  - rewrite alist_get_del_other in H by exact E. eapply Hl; eauto.
Qed.

Lemma describe_wf s fmts : wf_stmt s = true -> wf_bmsg (describe_cols (s_cols s) fmts) = true.
Proof. intros Hs. unfold describe_cols. pose proof (row_desc_wf s fmts Hs). destruct (s_cols s); [reflexivity|assumption]. Qed.

Lemma paramdesc_wf s : wf_stmt s = true -> wf_bmsg (BParamDesc (map (fun o => o mod 4294967296) (s_poids s))) = true.
Proof.
  unfold wf_stmt. intros H. wf_split H. unfold wf_bmsg, lenZ in *. rewrite map_length, W1. cbn [andb].
  induction (s_poids s) as [|o r IH]; [reflexivity|]. cbn [map forallb]. rewrite IH by (cbn [List.length] in W1; apply Z.ltb_lt; apply Z.ltb_lt in W1; lia).
  unfold u32_ok. pose proof (Z.mod_pos_bound o 4294967296 eq_refl).
  replace (0 <=? o mod 4294967296) with true by (symmetry; apply Z.leb_le; lia).
  replace (o mod 4294967296 <? 4294967296) with true by (symmetry; apply Z.ltb_lt; lia). reflexivity.
Qed.

Lemma cmd_wf c st f rest tl evs st' fs' k :
  wf_cfg c -> st_wf st -> cmd c st f rest tl = (evs, st', fs', k) -> wf_outs evs = true /\ st_wf st'.
Proof.
  destruct wf_lib_errors as (L1 & L2 & L3 & L4 & L5 & L6 & L7 & L8 & L9 & L10 & L11 & L12 & L13 & L14 & L15 & L16 & L17 & L18 & L19).
  intros Hc I H. pose proof I as [I1 I2].
  assert (EE : forall e, wf_err e = true -> wf_outs [Out (err_msg (Some e))] = true /\ wf_outs [Out (err_msg (Some e)); Out ready] = true).
  { intros e He. pose proof (wf_err_out e He) as X. split; [exact X|].
    change [Out (err_msg (Some e)); Out ready] with ([Out (err_msg (Some e))] ++ [Out ready]). rewrite wf_outs_app, X. reflexivity. }
  assert (OV : forall t size evs0 st0, do_oversize c st t size = (evs0, st0) -> wf_outs evs0 = true /\ st_wf st0).
  { intros t size evs0 st0 E. unfold do_oversize in E. destruct (EE _ (L7 (eff_limit (cfg_limit c)) size)) as [X Y].
    destruct (st_discard st && negb (Byte.eqb t x53)); [injection E as <- <-; split; [reflexivity|exact I]|].
    destruct (is_ext t); [unfold ext_err in E; injection E as <- <-; split; [exact X|exact I]|].
    destruct (Byte.eqb t x53); injection E as <- <-; split; auto. }
  destruct f as [t body|t size [x|]|t size|]; cbn [cmd] in H.
  - destruct (st_discard st && negb (Byte.eqb t x53) && negb (Byte.eqb t x58)); [injection H as <- <- <- <-; split; [reflexivity|exact I]|].
    destruct (Byte.eqb t x51).
    { destruct (simple_query c body rest tl) as [[evs0 fs0] k0] eqn:Q. injection H as <- <- <- <-. split; [|exact I].
      unfold simple_query in Q. destruct (take_cstr body) as [[q r0]|]; [|injection Q as <- <- <-; reflexivity].
      destruct (is_blank q); [injection Q as <- <- <-; reflexivity|].
      destruct (cfg_parse c q) as [e|ss] eqn:Ep.
      - injection Q as <- <- <-. apply (EE e). eapply wc_parse_err; eauto.
      - destruct ss as [|s1 r]; [injection Q as <- <- <-; apply (EE _ L4)|].
        destruct (run_stmts c (s1 :: r) rest tl) as [[evs1 fs1] cr] eqn:E. injection Q as <- <- <-.
        change (wf_outs (CbParse q :: evs1)) with (wf_outs evs1). eapply run_stmts_wf; eauto. eapply wc_parse_ok; eauto. }
    destruct (Byte.eqb t x45).
    { unfold do_execute in H. destruct (take_cstr body) as [[name l1]|] eqn:Et; [|injection H as <- <- <- <-; split; [reflexivity|exact I]].
      destruct (p_u32 l1) as [pu|]; [|injection H as <- <- <- <-; split; [reflexivity|exact I]].
      destruct (alist_get name (st_portals st)) as [p|] eqn:G.
      - destruct (run_stmt c (p_stmt p) (p_rfmts p) (p_params p) rest tl) as [[evs1 fs1] res] eqn:E.
        destruct (run_stmt_wf _ _ _ _ _ _ _ _ _ Hc (I2 _ _ G) E) as [A R].
        destruct res; unfold ext_err in H; injection H as <- <- <- <-; (split; [|exact I]); rewrite ?wf_outs_app, A; try reflexivity.
        rewrite (wf_err_out e (R e eq_refl)). reflexivity.
      - unfold ext_err in H. injection H as <- <- <- <-. split; [|exact I]. apply wf_err_out. apply L3. eapply take_cstr_nul_free; eauto. }
    destruct (Byte.eqb t x50).
    { destruct (do_parse c st body) as [[evs0 st0] k0] eqn:Q. injection H as <- <- <- <-.
      unfold do_parse in Q. destruct (take_cstr body) as [[name l1]|]; [|injection Q as <- <- <-; split; [reflexivity|exact I]].
      destruct (take_cstr l1) as [[q l2]|]; [|injection Q as <- <- <-; split; [reflexivity|exact I]].
      destruct (p_u16 l2) as [pu|]; [|injection Q as <- <- <-; split; [reflexivity|exact I]].
      destruct (cfg_parse c q) as [e|ss] eqn:Ep.
      - unfold ext_err in Q. injection Q as <- <- <-. split; [|exact I].
        change (wf_outs [CbParse q; Out (err_msg (Some e))]) with (wf_outs [Out (err_msg (Some e))]). apply wf_err_out. eapply wc_parse_err; eauto.
      - destruct ss as [|s1 [|s2 r]]; unfold ext_err in Q; injection Q as <- <- <-.
        + split; [|exact I]. change (wf_outs [CbParse q; Out (err_msg (Some e_undefined_stmt))]) with (wf_outs [Out (err_msg (Some e_undefined_stmt))]). apply wf_err_out. exact L4.
        + split; [reflexivity|]. split; cbn [st_stmts st_portals]; [|exact I2].
          apply alist_set_inv; [|exact I1]. pose proof (wc_parse_ok c Hc _ _ Ep) as F. cbn in F. rewrite andb_true_r in F. exact F.
        + split; [|exact I]. change (wf_outs [CbParse q; Out (err_msg (Some e_multiple_stmts))]) with (wf_outs [Out (err_msg (Some e_multiple_stmts))]). apply wf_err_out. exact L5. }
    destruct (Byte.eqb t x44).
    { destruct (do_describe st body) as [[evs0 st0] k0] eqn:Q. injection H as <- <- <- <-.
      unfold do_describe in Q. destruct body as [|kd l1]; [injection Q as <- <- <-; split; [reflexivity|exact I]|].
      destruct (take_cstr l1) as [[name l2]|]; [|injection Q as <- <- <-; split; [reflexivity|exact I]].
      destruct (Byte.eqb kd x53).
      - destruct (alist_get name (st_stmts st)) as [s0|] eqn:G; unfold ext_err in Q; injection Q as <- <- <-; (split; [|exact I]).
        + unfold wf_outs. cbn [outs flat_map app forallb]. rewrite (paramdesc_wf s0 (I1 _ _ G)), (describe_wf s0 [] (I1 _ _ G)). reflexivity.
        + reflexivity.
      - destruct (Byte.eqb kd x50).
        + destruct (alist_get name (st_portals st)) as [p|] eqn:G; unfold ext_err in Q; injection Q as <- <- <-; (split; [|exact I]).
          * unfold wf_outs. cbn [outs flat_map app forallb]. rewrite (describe_wf _ (p_rfmts p) (I2 _ _ G)). reflexivity.
          * reflexivity.
        + unfold ext_err in Q. injection Q as <- <- <-. split; [|exact I]. apply wf_err_out. exact L14. }
    destruct (Byte.eqb t x53); [injection H as <- <- <- <-; split; [reflexivity|exact I]|].
    destruct (Byte.eqb t x42).
    { destruct (do_bind st body) as [[evs0 st0] k0] eqn:Q. injection H as <- <- <- <-.
      unfold do_bind in Q. destruct (decode_bind body) as [b|] eqn:Eb; [|injection Q as <- <- <-; split; [reflexivity|exact I]].
      destruct (alist_get (b_stmt b) (st_stmts st)) as [s0|] eqn:G; unfold ext_err in Q; injection Q as <- <- <-.
      - split; [reflexivity|]. split; cbn [st_stmts st_portals]; [exact I1|].
        apply (alist_set_inv (fun p => wf_stmt (p_stmt p) = true)); [|exact I2]. cbn. eapply I1; eauto.
      - split; [|exact I]. apply wf_err_out. apply L2.
        unfold decode_bind in Eb. destruct (decode_bind_raw body) as [r0|] eqn:Er; [|discriminate]. injection Eb as <-. cbn [b_stmt].
        unfold decode_bind_raw in Er.
        destruct (take_cstr body) as [[pn l1]|]; [|discriminate]. destruct (take_cstr l1) as [[sn l2]|] eqn:Es; [|discriminate].
        destruct (p_u16 l2) as [[nf l3]|]; [|discriminate]. destruct (p_u16s (Z.to_nat nf) l3) as [[pf l4]|]; [|discriminate].
        destruct (p_u16 l4) as [[np l5]|]; [|discriminate]. destruct (p_pvalues (Z.to_nat np) l5) as [[vs l6]|]; [|discriminate].
        destruct (p_u16 l6) as [[nr l7]|]; [|discriminate]. destruct (p_u16s (Z.to_nat nr) l7) as [[rf l8]|]; [|discriminate].
        injection Er as <-. cbn [br_stmt]. eapply take_cstr_nul_free; eauto. }
    destruct (Byte.eqb t x48); [injection H as <- <- <- <-; split; [reflexivity|exact I]|].
    destruct (Byte.eqb t x64 || Byte.eqb t x63 || Byte.eqb t x66); [injection H as <- <- <- <-; split; [reflexivity|exact I]|].
    destruct (Byte.eqb t x43).
    { destruct (do_close st body) as [[evs0 st0] k0] eqn:Q. injection H as <- <- <- <-.
      unfold do_close in Q. destruct body as [|kd l1]; [injection Q as <- <- <-; split; [reflexivity|exact I]|].
      destruct (take_cstr l1) as [[name l2]|]; [|injection Q as <- <- <-; split; [reflexivity|exact I]].
      destruct (Byte.eqb kd x53); [|destruct (Byte.eqb kd x50)]; unfold ext_err in Q; injection Q as <- <- <-.
      - split; [reflexivity|]. split; cbn [st_stmts st_portals]; [|exact I2]. apply alist_del_inv. exact I1.
      - split; [reflexivity|]. split; cbn [st_stmts st_portals]; [exact I1|]. apply (alist_del_inv (fun p => wf_stmt (p_stmt p) = true)). exact I2.
      - split; [|exact I]. apply wf_err_out. exact L15. }
    destruct (Byte.eqb t x58); [destruct (cfg_term c)|]; injection H as <- <- <- <-; (split; [|exact I]); try reflexivity.
    apply (EE _ (L1 t)).
  - injection H as <- <- <- <-. split; [reflexivity|exact I].
  - destruct (do_oversize c st t size) as [evs0 st0] eqn:E. injection H as <- <- <- <-. eapply OV; eauto.
  - destruct (do_oversize c st t size) as [evs0 st0] eqn:E. injection H as <- <- <- <-. eapply OV; eauto.
  - injection H as <- <- <- <-. split; [reflexivity|exact I].
Qed.

Lemma loop_wf c tl : wf_cfg c -> forall fuel st fs, st_wf st -> wf_outs (loop fuel c st fs tl) = true.
Proof.
  intros Hc. induction fuel as [|fuel IH]; intros st fs I; [reflexivity|].
  destruct fs as [|f rest]; [reflexivity|]. cbn [loop].
  destruct (cmd c st f rest tl) as [[[evs st'] fs'] k] eqn:E.
  destruct (cmd_wf _ _ _ _ _ _ _ _ _ Hc I E) as [A I'].
  destruct k.
  - change (wf_outs (Consume :: evs ++ loop fuel c st' fs' tl)) with (wf_outs (evs ++ loop fuel c st' fs' tl)).
    rewrite wf_outs_app, A, (IH _ _ I'). reflexivity.
  - change (wf_outs (Consume :: evs ++ [Closed])) with (wf_outs (evs ++ [Closed])). rewrite wf_outs_app, A. reflexivity.
Qed.

(* ---------- startup ---------- *)
Lemma read_params_nul_free : forall fuel l ps, read_params fuel l = Some ps ->
  forallb (fun kv : bytes * bytes => nul_free (fst kv) && nul_free (snd kv)) ps = true.
Proof.
  induction fuel as [|f IH]; intros l ps H; cbn [read_params] in H; [discriminate|].
  destruct (take_cstr l) as [[k l1]|] eqn:E1; [|discriminate].
  destruct k as [|k0 kr]; [injection H as <-; reflexivity|].
  destruct (take_cstr l1) as [[v l2]|] eqn:E2; [|discriminate].
  destruct (read_params f l2) as [ps0|] eqn:E3; [|discriminate]. injection H as <-.
  cbn [forallb fst snd]. rewrite (take_cstr_nul_free _ _ _ E1), (take_cstr_nul_free _ _ _ E2), (IH _ _ E3). reflexivity.
Qed.

Lemma param_get_nul_free k : forall ps,
  forallb (fun kv : bytes * bytes => nul_free (fst kv) && nul_free (snd kv)) ps = true -> nul_free (param_get k ps) = true.
Proof.
  induction ps as [|[k' v] r IH]; intros H; [reflexivity|]. cbn [forallb fst snd] in H. wf_split H.
  cbn [param_get]. destruct (existsb _ r); [apply IH; exact W|]. destruct (bytes_eqb k k'); [exact W0|reflexivity].
Qed.

Lemma server_params_wf c user : wf_cfg c -> nul_free user = true ->
  wf_outs (map (fun kv : bytes * bytes => Out (BParamStatus (fst kv) (snd kv))) (server_params c user)) = true.
Proof.
  intros Hc Hu.
  assert (G : forall l, forallb (fun kv : bytes * bytes => nul_free (fst kv) && nul_free (snd kv)) l = true ->
              wf_outs (map (fun kv : bytes * bytes => Out (BParamStatus (fst kv) (snd kv))) l) = true).
  { induction l as [|[k v] r IH]; intros H; [reflexivity|]. cbn [forallb fst snd] in H. apply andb_prop in H as [H1 H2].
    unfold wf_outs in *. cbn [map outs flat_map app forallb wf_bmsg fst snd]. rewrite H1. apply IH. exact H2. }
  apply G. unfold server_params. rewrite forallb_app. apply andb_true_intro. split.
  - pose proof (wc_params c Hc) as P. clear -P. induction (cfg_params c) as [|x r IH]; [reflexivity|].
    cbn [forallb] in P. apply andb_prop in P as [P1 P2]. cbn [filter]. destruct (negb _); [cbn [forallb]; rewrite P1|]; apply IH; exact P2.
  - unfold forced_params. pose proof (wc_version c Hc) as V. destruct (cfg_version c); cbn; rewrite ?Hu; cbn in V |- *; rewrite ?V; reflexivity.
Qed.

Lemma auth_phase_wf c cparams s evs rest ok : auth_phase c cparams s = (evs, rest, ok) -> wf_outs evs = true.
Proof.
  unfold auth_phase. intros H.
  destruct (cfg_auth c) as [validate|]; [|injection H as <- <- <-; reflexivity].
  destruct s as [|t [|a [|b [|c4 [|d r]]]]]; try (injection H as <- <- <-; reflexivity).
  destruct ((rd32 a b c4 d - 4 <? 0) || (rd32 a b c4 d - 4 >? eff_limit (cfg_limit c))); [injection H as <- <- <-; reflexivity|].
  destruct (takeZ (rd32 a b c4 d - 4) r) as [[body rest0]|]; [|injection H as <- <- <-; reflexivity].
  destruct (negb (Byte.eqb t x70)); [injection H as <- <- <-; reflexivity|].
  destruct (take_cstr body) as [[pw x]|]; [|injection H as <- <- <-; reflexivity].
  destruct (validate _ _ pw); injection H as <- <- <-; reflexivity.
Qed.

Lemma mws_wf : forall mws i, wf_outs (fst (run_mws mws i)) = true.
Proof.
  induction mws as [|ok r IH]; intros i; cbn [run_mws]; [reflexivity|].
  destruct ok; [|reflexivity]. specialize (IH (i + 1)). destruct (run_mws r (i + 1)). exact IH.
Qed.

Lemma st_init_wf : st_wf st_init.
Proof. split; intros n x H; discriminate H. Qed.

Theorem session_wf c after s : wf_cfg c -> wf_outs (session c after s) = true.
Proof.
  intros Hc. unfold session.
  destruct (read_params (S (List.length after)) after) as [cparams|] eqn:Er; [|reflexivity].
  destruct (auth_phase c cparams s) as [[aevs s'] ok] eqn:Ea.
  pose proof (auth_phase_wf _ _ _ _ _ _ Ea) as A.
  destruct ok; cbn [negb]; [|rewrite wf_outs_app, A; reflexivity].
  pose proof (server_params_wf c (param_get (bs "user") cparams) Hc (param_get_nul_free _ _ (read_params_nul_free _ _ _ Er))) as P.
  pose proof (mws_wf (cfg_mws c) 0) as M. destruct (run_mws (cfg_mws c) 0) as [mevs mok]. cbn [fst] in M.
  destruct mok; cbn [negb].
  - destruct (frames (cfg_limit c) s') as [fs tl].
    rewrite !wf_outs_app, A, P, M, (loop_wf c tl Hc _ _ _ st_init_wf). reflexivity.
  - rewrite !wf_outs_app, A, P, M. reflexivity.
Qed.

(* every message of every connection: any raw byte stream, any TLS plaintext *)
Theorem serve_wf c raw tls : wf_cfg c -> wf_outs (serve c raw tls) = true.
Proof.
  intros Hc. unfold serve.
  destruct (start c raw) as [[[v after] rest]|]; [|reflexivity].
  destruct (v =? version_cancel); [reflexivity|].
  destruct (v =? version_ssl); [|apply session_wf; exact Hc].
  destruct (cfg_tls c).
  - change (wf_outs (RawOut x53 :: ?l)) with (wf_outs l).
    destruct tls as [plain|]; [|reflexivity].
    destruct (start c plain) as [[[v2 after2] rest2]|]; [|reflexivity].
    destruct (v2 =? version_cancel); [reflexivity|apply session_wf; exact Hc].
  - destruct (start c rest) as [[[v2 after2] rest2]|]; [|reflexivity].
    destruct (v2 =? version_cancel); [reflexivity|]. apply (session_wf c after2 rest2 Hc).
Qed.
