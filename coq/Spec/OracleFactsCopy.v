(* OracleFactsCopy.v — the model satisfies the COPY-in oracle [oracle_C13]: the scan
   [copy_mon] never fails on the log of a session, for every configuration, handler
   programs with COPY included, every frame list. *)
Require Import Wire.Bytes Spec.BackendSpec Spec.BackendSpecFacts Wire.Errors Wire.Framing Wire.Session
  Wire.SessionFacts Wire.CommandFacts Wire.RobustFacts Wire.Case Spec.KindFacts Spec.Oracles Spec.OracleFacts Spec.OracleFactsLife.
From Coq Require Import String.
Local Open Scope string_scope.
Local Open Scope list_scope.
Local Open Scope Z_scope.

Definition mrun (m : cmon) (evs : list ev) : cmon := fold_left mon_step evs m.
Lemma mrun_app m a b : mrun m (a ++ b) = mrun (mrun m a) b.
Proof. apply fold_left_app. Qed.

Definition is_f (c : option frame) : bool := match c with Some (FMsg t _) => Byte.eqb t x66 | _ => false end.

(* inside a command, before its closing ErrorResponse / ReadyForQuery *)
Definition calm (m : cmon) : Prop :=
  m_ok m = true /\ (m_live m = true -> m_err m = false /\ m_rdy m = false /\ (is_f (m_cur m) = true -> m_op m = true)).
(* the scan and the session agree on the frames still to come (or the session has none left) *)
Definition aligned (m : cmon) (fs : list frame) : Prop := m_rem m = fs \/ fs = [].

(* messages a handler can cause and the callbacks around them leave a calm scan calm *)
Definition quiet_out (b : bmsg) : bool := negb (Oracles.is_error b) && negb (Oracles.is_ready b).
Lemma calm_out m b : calm m -> quiet_out b = true -> mon_step m (Out b) = m.
Proof.
  intros (A & B) Q. unfold mon_step. rewrite A. cbn [negb]. destruct (m_live m) eqn:L; [|reflexivity]. cbn [negb].
  destruct (B eq_refl) as (E & R & _). rewrite R. unfold quiet_out in Q. apply andb_prop in Q as [Q1 Q2].
  apply negb_true_iff in Q1, Q2. rewrite Q1, Q2. reflexivity.
Qed.

(* the weaker condition that suffices when the next result is neither success-with-data nor end-of-stream *)
Definition precalm (m : cmon) : Prop := m_ok m = true /\ (m_live m = true -> m_err m = false /\ m_rdy m = false).
Lemma calm_precalm m : calm m -> precalm m.
Proof. intros (A & B). split; [exact A|]. intros L. destruct (B L) as (E & R & _). auto. Qed.

Lemma calm_op m r : precalm m -> (match r with OEof | OData _ => false | _ => true end) = true ->
  calm (mon_step m (CbOp r)) /\ m_rem (mon_step m (CbOp r)) = m_rem m.
Proof.
  intros (A & B) Hr. unfold mon_step. rewrite A. cbn [negb]. destruct (m_live m) eqn:L; [|cbn [negb]; split; [split; [exact A|intros X; congruence]|reflexivity]].
  cbn [negb]. destruct (B eq_refl) as (E & R).
  assert (X : (match r with OEof | OData _ => true | _ => false end) = false) by (destruct r; try discriminate; reflexivity).
  rewrite X, andb_false_r. cbn [orb].
  assert (Y : match r, m_cur m with OData b, Some (FMsg t body) => negb (Byte.eqb t x64 && bytes_eqb b body && negb (m_data m)) | _, _ => false end = false)
    by (destruct r; try discriminate; reflexivity).
  rewrite Y. split; [|reflexivity]. split; [reflexivity|]. cbn. intros _. auto.
Qed.

Lemma calm_other m e : (match e with Consume | Out _ | CbOp _ => false | _ => true end) = true -> mon_step m e = m.
Proof. intros H. unfold mon_step. destruct (negb (m_ok m)); [reflexivity|]. destruct e; try discriminate; reflexivity. Qed.

(* the state right after the Consume marker of frame [f] *)
Definition fresh (m : cmon) (f : frame) : Prop :=
  m_ok m = true /\ (m_live m = true -> m_cur m = Some f /\ m_err m = false /\ m_rdy m = false /\ m_data m = false /\ m_op m = false).

Lemma consume_fresh m f rest : m_ok m = true -> m_rem m = f :: rest ->
  fresh (mon_step m Consume) f /\ m_rem (mon_step m Consume) = rest.
Proof. intros A R. unfold mon_step. rewrite A, R. cbn. split; [split; auto|reflexivity]. Qed.

Lemma fresh_calm m f : fresh m f -> is_f (Some f) = false -> calm m.
Proof. intros (A & B) F. split; [exact A|]. intros L. destruct (B L) as (C & E & R & _ & _). rewrite C, F. repeat split; auto. discriminate. Qed.

(* ---------- CopyReader.Read ---------- *)
Lemma copy_read_mon L : forall fs tl evs r rest m,
  copy_read L fs tl = (evs, r, rest) -> calm m -> aligned m fs ->
  calm (mon_step (mrun m evs) (CbOp r)) /\ aligned (mon_step (mrun m evs) (CbOp r)) rest.
Proof.
  induction fs as [|f fr IH]; intros tl evs r rest m H C Al; cbn [copy_read] in H.
  - injection H as <- <- <-. cbn [mrun fold_left].
    assert (Hr : (match rderr_res tl with OEof | OData _ => false | _ => true end) = true \/ rderr_res tl = OEof)
      by (destruct tl; cbn; auto).
    destruct Hr as [Hr|Hr].
    + destruct (calm_op m _ (calm_precalm m C) Hr) as [X Y]. split; [exact X|right; reflexivity].
    + rewrite Hr. split; [|right; reflexivity].
      destruct C as (A & B). unfold mon_step. rewrite A. cbn [negb]. destruct (m_live m) eqn:Lv; [|cbn [negb]; split; [exact A|intros X; congruence]].
      cbn [negb]. destruct (B eq_refl) as (E & R & F).
      destruct (is_f (m_cur m)) eqn:Fc.
      * rewrite (F eq_refl). cbn. split; [reflexivity|]. cbn. auto.
      * unfold is_f in Fc. destruct (m_cur m) as [[t b| | |]|]; cbn; rewrite ?Fc, ?andb_false_r; cbn; (split; [reflexivity|cbn; intros _; repeat split; auto]).
  - assert (Rm : m_rem m = f :: fr) by (destruct Al as [Al|Al]; [exact Al|discriminate]).
    destruct C as (A & B).
    destruct (consume_fresh m f fr A Rm) as [Fr Rr].
    set (m1 := mon_step m Consume) in *.
    assert (Simple : forall r0, (match r0 with OEof | OData _ => false | _ => true end) = true -> is_f (Some f) = false \/ True ->
              forall rest0, (rest0 = fr \/ rest0 = []) ->
              calm (mon_step (mrun m [Consume]) (CbOp r0)) /\ aligned (mon_step (mrun m [Consume]) (CbOp r0)) rest0).
    { intros r0 Hr _ rest0 Hrest. cbn [mrun fold_left]. fold m1.
      assert (P1 : precalm m1).
      { destruct Fr as (A1 & B1). split; [exact A1|]. intros Lv. destruct (B1 Lv) as (_ & E1 & R1 & _). auto. }
      destruct (calm_op m1 r0 P1 Hr) as [X Y]. split; [exact X|].
      destruct Hrest as [->| ->]; [left; rewrite Y; exact Rr|right; reflexivity]. }
    destruct f as [t body|t size [x|]|t size|].
    + destruct (Byte.eqb t x48 || Byte.eqb t x53) eqn:Ths.
      * destruct (copy_read L fr tl) as [[evs0 r0] rest0] eqn:E. injection H as <- <- <-.
        change (Consume :: evs0) with ([Consume] ++ evs0). rewrite mrun_app. change (mrun m [Consume]) with m1.
        apply (IH _ _ _ _ m1 E); [|left; exact Rr].
        apply (fresh_calm m1 _ Fr). cbn. destruct (Byte.eqb t x66) eqn:T; [|reflexivity].
        apply Byte.byte_dec_bl in T. subst t. discriminate Ths.
      * destruct (Byte.eqb t x64) eqn:T64.
        { injection H as <- <- <-. apply Byte.byte_dec_bl in T64. subst t. cbn [mrun fold_left]. fold m1.
          destruct Fr as (A1 & B1). unfold mon_step. rewrite A1. cbn [negb].
          destruct (m_live m1) eqn:Lv; [|cbn [negb]; split; [split; [exact A1|intros X; congruence]|left; exact Rr]].
          cbn [negb]. destruct (B1 eq_refl) as (C1 & E1 & R1 & D1 & O1). rewrite C1, D1, O1. cbn [negb andb Byte.eqb].
          rewrite bytes_eqb_refl. cbn. split; [split; [reflexivity|cbn; intros _; auto]|left; exact Rr]. }
        destruct (Byte.eqb t x63) eqn:T63.
        { injection H as <- <- <-. apply Byte.byte_dec_bl in T63. subst t. cbn [mrun fold_left]. fold m1.
          destruct Fr as (A1 & B1). unfold mon_step. rewrite A1. cbn [negb].
          destruct (m_live m1) eqn:Lv; [|cbn [negb]; split; [split; [exact A1|intros X; congruence]|left; exact Rr]].
          cbn [negb]. destruct (B1 eq_refl) as (C1 & E1 & R1 & D1 & O1). rewrite C1, O1, D1. cbn.
          split; [split; [reflexivity|cbn; intros _; auto]|left; exact Rr]. }
        destruct (Byte.eqb t x66).
        { destruct (take_cstr body) as [[d x]|]; injection H as <- <- <-.
          - refine (Simple _ _ (or_intror I) fr _); [reflexivity|left; reflexivity].
          - refine (Simple _ _ (or_intror I) fr _); [reflexivity|left; reflexivity]. }
        injection H as <- <- <-. refine (Simple _ _ (or_intror I) fr _); [reflexivity|left; reflexivity].
    + injection H as <- <- <-.
      destruct x.
      2: { refine (Simple _ _ (or_intror I) [] _); [reflexivity|right; reflexivity]. }
      (* the truncated oversized message ends the input: end-of-stream *)
      cbn [rderr_res mrun fold_left]. fold m1.
      destruct Fr as (A1 & B1). unfold mon_step. rewrite A1. cbn [negb].
      destruct (m_live m1) eqn:Lv; [|cbn [negb]; split; [split; [exact A1|intros X; congruence]|right; reflexivity]].
      cbn [negb]. destruct (B1 eq_refl) as (C1 & E1 & R1 & D1 & O1). rewrite C1, O1, D1. cbn.
      split; [split; [reflexivity|cbn; intros _; auto]|right; reflexivity].
    + injection H as <- <- <-. refine (Simple _ _ (or_intror I) fr _); [reflexivity|left; reflexivity].
    + injection H as <- <- <-. refine (Simple _ _ (or_intror I) fr _); [reflexivity|left; reflexivity].
    + injection H as <- <- <-. refine (Simple _ _ (or_intror I) [] _); [reflexivity|right; reflexivity].
Qed.

(* ---------- the handler programs ---------- *)
Ltac step_out := rewrite calm_out by (assumption || reflexivity).

Lemma run_op_mon c cols fmts o w fs tl evs w' fs' st m :
  run_op c cols fmts o w fs tl = (evs, w', fs', st) -> calm m -> aligned m fs ->
  calm (mrun m evs) /\ aligned (mrun m evs) fs'.
Proof.
  intros H C Al.
  assert (Op : forall r, (match r with OEof | OData _ => false | _ => true end) = true ->
               calm (mrun m [CbOp r]) /\ aligned (mrun m [CbOp r]) fs).
  { intros r Hr. cbn [mrun fold_left]. destruct (calm_op m r (calm_precalm m C) Hr) as [X Y]. split; [exact X|].
    destruct Al as [Al|Al]; [left; rewrite Y; exact Al|right; exact Al]. }
  assert (OutOp : forall b r, quiet_out b = true -> (match r with OEof | OData _ => false | _ => true end) = true ->
               calm (mrun m [Out b; CbOp r]) /\ aligned (mrun m [Out b; CbOp r]) fs).
  { intros b r Hb Hr. cbn [mrun fold_left]. rewrite (calm_out m b C Hb). apply (Op r Hr). }
  destruct o as [vs| | |tag|f|]; cbn [run_op] in H.
  - destruct (w_closed w); [injection H as <- <- <- <-; apply Op; reflexivity|].
    destruct (write_row (cfg_encode c) cols fmts vs); injection H as <- <- <- <-.
    + apply OutOp; reflexivity.
    + apply Op; reflexivity.
    + split; assumption.
  - injection H as <- <- <- <-. apply Op; reflexivity.
  - destruct (w_closed w); [|destruct (negb (w_written w =? 0))]; injection H as <- <- <- <-; apply Op; reflexivity.
  - destruct (w_closed w); injection H as <- <- <- <-; [apply Op|apply OutOp]; reflexivity.
  - destruct (w_closed w); [|destruct cols]; injection H as <- <- <- <-; [apply Op|apply Op|apply OutOp]; reflexivity.
  - destruct (negb (w_copy w)); [injection H as <- <- <- <-; apply Op; reflexivity|].
    destruct (copy_read (cfg_limit c) fs tl) as [[evs0 r] rest] eqn:E.
    pose proof (copy_read_mon _ _ _ _ _ _ m E C Al) as X.
    destruct r; injection H as <- <- <- <-; rewrite mrun_app; exact X.
Qed.

Lemma run_ops_mon c cols fmts stop : forall ops w fs tl evs w' fs' res m,
  run_ops c cols fmts stop ops w fs tl = (evs, w', fs', res) -> calm m -> aligned m fs ->
  calm (mrun m evs) /\ aligned (mrun m evs) fs'.
Proof.
  induction ops as [|o r IH]; intros w fs tl evs w' fs' res m H C Al; cbn [run_ops] in H.
  - injection H as <- <- <- <-. split; assumption.
  - destruct (run_op c cols fmts o w fs tl) as [[[evs1 w1] fs1] st] eqn:E1.
    destruct (run_op_mon _ _ _ _ _ _ _ _ _ _ _ m E1 C Al) as [C1 A1].
    destruct st.
    + destruct (run_ops c cols fmts stop r w1 fs1 tl) as [[[evs2 w2] fs2] res2] eqn:E2.
      injection H as <- <- <- <-. rewrite mrun_app. eapply IH; eauto.
    + destruct stop.
      * injection H as <- <- <- <-. split; assumption.
      * destruct (run_ops c cols fmts false r w1 fs1 tl) as [[[evs2 w2] fs2] res2] eqn:E2.
        injection H as <- <- <- <-. rewrite mrun_app. eapply IH; eauto.
    + injection H as <- <- <- <-. split; assumption.
Qed.

Lemma run_stmt_mon c s fmts params fs tl evs fs' res m :
  run_stmt c s fmts params fs tl = (evs, fs', res) -> calm m -> aligned m fs ->
  calm (mrun m evs) /\ aligned (mrun m evs) fs'.
Proof.
  unfold run_stmt. intros H C Al.
  destruct (run_ops c (s_cols s) fmts (s_stop s) (s_prog s) w_init fs tl) as [[[evs0 w] fs0] r0] eqn:E.
  injection H as <- <- <-. cbn [mrun fold_left]. rewrite (calm_other m (CbExec (s_id s) params) eq_refl).
  eapply run_ops_mon; eauto.
Qed.

Lemma define_mon cols fmts m : calm m -> mrun m (define_evs cols fmts) = m.
Proof. intros C. destruct cols; [reflexivity|]. cbn [define_evs mrun fold_left]. apply calm_out; [exact C|reflexivity]. Qed.

(* the closing messages of a command, from a calm scan: still not failed, frames untouched *)
Lemma tail_err_ready m e : calm m ->
  m_ok (mrun m [Out (err_msg (Some e)); Out ready]) = true /\ m_rem (mrun m [Out (err_msg (Some e)); Out ready]) = m_rem m /\
  m_ok (mrun m [Out (err_msg (Some e))]) = true /\ m_rem (mrun m [Out (err_msg (Some e))]) = m_rem m /\
  m_ok (mrun m [Out ready]) = true /\ m_rem (mrun m [Out ready]) = m_rem m.
Proof.
  intros (A & B). cbn [mrun fold_left]. unfold mon_step. rewrite A. cbn [negb].
  destruct (m_live m) eqn:L; [|cbn [negb]; rewrite A; cbn [negb]; rewrite L; cbn; auto 10].
  cbn [negb]. destruct (B eq_refl) as (E & R & _). rewrite R, E. cbn. auto 10.
Qed.

Definition okal (m : cmon) (fs : list frame) : Prop := m_ok m = true /\ aligned m fs.

Lemma calm_okal m fs : calm m -> aligned m fs -> okal m fs.
Proof. intros (A & _) Al. split; assumption. Qed.

Lemma aligned_same m m' fs : m_rem m' = m_rem m -> aligned m fs -> aligned m' fs.
Proof. intros E [A|A]; [left; rewrite E; exact A|right; exact A]. Qed.

Lemma run_stmts_mon c : forall ss fs tl evs fs' crashed m,
  run_stmts c ss fs tl = (evs, fs', crashed) -> calm m -> aligned m fs -> okal (mrun m evs) fs'.
Proof.
  induction ss as [|s r IH]; intros fs tl evs fs' crashed m H C Al; cbn [run_stmts] in H.
  - injection H as <- <- <-. destruct (tail_err_ready m e_eof C) as (_ & _ & _ & _ & X & Y). split; [exact X|]. eapply aligned_same; eauto.
  - destruct (run_stmt c s [] [] fs tl) as [[evs1 fs1] res] eqn:E1.
    assert (C0 : calm (mrun m (define_evs (s_cols s) []))) by (rewrite define_mon; assumption).
    assert (A0 : aligned (mrun m (define_evs (s_cols s) [])) fs) by (rewrite define_mon; assumption).
    destruct (run_stmt_mon _ _ _ _ _ _ _ _ _ _ E1 C0 A0) as [C1 A1].
    destruct res.
    + destruct (run_stmts c r fs1 tl) as [[evs2 fs2] cr] eqn:E2.
      injection H as <- <- <-. rewrite !mrun_app. eapply IH; eauto.
    + injection H as <- <- <-. rewrite !mrun_app.
      destruct (tail_err_ready _ e C1) as (X & Y & _). split; [exact X|]. eapply aligned_same; eauto.
    + injection H as <- <- <-. rewrite !mrun_app.
      change (mrun (mrun (mrun m (define_evs (s_cols s) [])) evs1) [Crash]) with (mon_step (mrun (mrun m (define_evs (s_cols s) [])) evs1) Crash).
      rewrite calm_other by reflexivity. apply calm_okal; assumption.
Qed.

Lemma ext_err_mon st e evs st' m fs : ext_err st e = (evs, st') -> calm m -> aligned m fs -> okal (mrun m evs) fs.
Proof.
  unfold ext_err. intros H C Al. injection H as <- <-.
  destruct (tail_err_ready m e C) as (_ & _ & X & Y & _). split; [exact X|]. eapply aligned_same; eauto.
Qed.

Lemma one_out_mon m b fs : calm m -> aligned m fs -> quiet_out b = true -> okal (mrun m [Out b]) fs.
Proof. intros C Al Q. cbn [mrun fold_left]. rewrite (calm_out m b C Q). apply calm_okal; assumption. Qed.

(* one iteration of the command loop, from the state right after its Consume marker *)
Lemma cmd_mon c st f rest tl evs st' fs' k m :
  cmd c st f rest tl = (evs, st', fs', k) -> fresh m f -> aligned m rest -> okal (mrun m evs) fs'.
Proof.
  intros H Fr Al.
  assert (Nil : okal (mrun m []) rest) by (destruct Fr as (A & _); split; assumption).
  assert (NilE : okal (mrun m []) []) by (destruct Fr as (A & _); split; [assumption|right; reflexivity]).
  destruct f as [t body|t size [x|]|t size|]; cbn [cmd] in H.
  - destruct (st_discard st && negb (Byte.eqb t x53) && negb (Byte.eqb t x58)); [injection H as <- <- <- <-; exact Nil|].
    destruct (Byte.eqb t x66) eqn:T66.
    { (* a stray CopyFail: ignored *)
      apply Byte.byte_dec_bl in T66. subst t. cbn in H. injection H as <- <- <- <-. exact Nil. }
    assert (C : calm m) by (apply (fresh_calm m _ Fr); cbn; exact T66).
    assert (EE : forall e, okal (mrun m [Out (err_msg (Some e)); Out ready]) rest).
    { intros e. destruct (tail_err_ready m e C) as (X & Y & _). split; [exact X|]. eapply aligned_same; eauto. }
    destruct (Byte.eqb t x51).
    { destruct (simple_query c body rest tl) as [[evs0 fs0] k0] eqn:Q. injection H as <- <- <- <-.
      unfold simple_query in Q. destruct (take_cstr body) as [[q r0]|]; [|injection Q as <- <- <-; exact Nil].
      destruct (is_blank q).
      { injection Q as <- <- <-. cbn [mrun fold_left]. rewrite (calm_out m BEmptyQuery C eq_refl).
        destruct (tail_err_ready m e_eof C) as (_ & _ & _ & _ & X & Y). split; [exact X|]. eapply aligned_same; eauto. }
      destruct (cfg_parse c q) as [e|[|s1 r]].
      - injection Q as <- <- <-. cbn [mrun fold_left]. rewrite (calm_other m (CbParse q) eq_refl). apply EE.
      - injection Q as <- <- <-. cbn [mrun fold_left]. rewrite (calm_other m (CbParse q) eq_refl). apply EE.
      - destruct (run_stmts c (s1 :: r) rest tl) as [[evs1 fs1] cr] eqn:E. injection Q as <- <- <-.
        cbn [mrun fold_left]. rewrite (calm_other m (CbParse q) eq_refl). eapply run_stmts_mon; eauto. }
    destruct (Byte.eqb t x45).
    { unfold do_execute in H. destruct (take_cstr body) as [[name l1]|]; [|injection H as <- <- <- <-; exact Nil].
      destruct (p_u32 l1) as [pu|]; [|injection H as <- <- <- <-; exact Nil].
      destruct (alist_get name (st_portals st)) as [p|].
      - destruct (run_stmt c (p_stmt p) (p_rfmts p) (p_params p) rest tl) as [[evs1 fs1] res] eqn:E.
        destruct (run_stmt_mon _ _ _ _ _ _ _ _ _ _ E C Al) as [C1 A1].
        destruct res.
        + injection H as <- <- <- <-. apply calm_okal; assumption.
        + destruct (ext_err st e) as [evs2 st2] eqn:X. injection H as <- <- <- <-. rewrite mrun_app. eapply ext_err_mon; eauto.
        + destruct (ext_err st e_panic) as [evs2 st2] eqn:X. injection H as <- <- <- <-. rewrite mrun_app. eapply ext_err_mon; eauto.
      - destruct (ext_err st (e_unknown_portal name)) as [evs2 st2] eqn:X. injection H as <- <- <- <-. eapply ext_err_mon; eauto. }
    destruct (Byte.eqb t x50).
    { destruct (do_parse c st body) as [[evs0 st0] k0] eqn:Q. injection H as <- <- <- <-.
      unfold do_parse in Q. destruct (take_cstr body) as [[name l1]|]; [|injection Q as <- <- <-; exact Nil].
      destruct (take_cstr l1) as [[q l2]|]; [|injection Q as <- <- <-; exact Nil].
      destruct (p_u16 l2) as [pu|]; [|injection Q as <- <- <-; exact Nil].
      assert (PE : forall e evs2 st2, ext_err st e = (evs2, st2) -> okal (mrun m (CbParse q :: evs2)) rest).
      { intros e evs2 st2 X. cbn [mrun fold_left]. rewrite (calm_other m (CbParse q) eq_refl). eapply ext_err_mon; eauto. }
      destruct (cfg_parse c q) as [e|[|s1 [|s2 r]]].
      - destruct (ext_err st e) as [evs2 st2] eqn:X. injection Q as <- <- <-. eapply PE; eauto.
      - destruct (ext_err st e_undefined_stmt) as [evs2 st2] eqn:X. injection Q as <- <- <-. eapply PE; eauto.
      - injection Q as <- <- <-. cbn [mrun fold_left]. rewrite (calm_other m (CbParse q) eq_refl). apply (one_out_mon m BParseComplete rest C Al eq_refl).
      - destruct (ext_err st e_multiple_stmts) as [evs2 st2] eqn:X. injection Q as <- <- <-. eapply PE; eauto. }
    destruct (Byte.eqb t x44).
    { destruct (do_describe st body) as [[evs0 st0] k0] eqn:Q. injection H as <- <- <- <-.
      unfold do_describe in Q. destruct body as [|kd l1]; [injection Q as <- <- <-; exact Nil|].
      destruct (take_cstr l1) as [[name l2]|]; [|injection Q as <- <- <-; exact Nil].
      assert (DQ : forall cols fmts, quiet_out (describe_cols cols fmts) = true) by (intros cols fmts; destruct cols; reflexivity).
      destruct (Byte.eqb kd x53).
      - destruct (alist_get name (st_stmts st)) as [s0|].
        + injection Q as <- <- <-. cbn [mrun fold_left]. rewrite (calm_out m (BParamDesc (map (fun o : Z => o mod 4294967296) (s_poids s0))) C eq_refl). apply (one_out_mon m _ rest C Al (DQ _ _)).
        + destruct (ext_err st (EBase (bs "unknown statement"))) as [evs2 st2] eqn:X. injection Q as <- <- <-. eapply ext_err_mon; eauto.
      - destruct (Byte.eqb kd x50).
        + destruct (alist_get name (st_portals st)) as [p|].
          * injection Q as <- <- <-. apply (one_out_mon m _ rest C Al (DQ _ _)).
          * destruct (ext_err st (EBase (bs "unknown portal"))) as [evs2 st2] eqn:X. injection Q as <- <- <-. eapply ext_err_mon; eauto.
        + destruct (ext_err st e_unknown_describe) as [evs2 st2] eqn:X. injection Q as <- <- <-. eapply ext_err_mon; eauto. }
    destruct (Byte.eqb t x53).
    { injection H as <- <- <- <-. destruct (tail_err_ready m e_eof C) as (_ & _ & _ & _ & X & Y). split; [exact X|]. eapply aligned_same; eauto. }
    destruct (Byte.eqb t x42).
    { destruct (do_bind st body) as [[evs0 st0] k0] eqn:Q. injection H as <- <- <- <-.
      unfold do_bind in Q. destruct (decode_bind body) as [b|]; [|injection Q as <- <- <-; exact Nil].
      destruct (alist_get (b_stmt b) (st_stmts st)).
      - injection Q as <- <- <-. apply (one_out_mon m BBindComplete rest C Al eq_refl).
      - destruct (ext_err st (e_unknown_stmt (b_stmt b))) as [evs2 st2] eqn:X. injection Q as <- <- <-. eapply ext_err_mon; eauto. }
    destruct (Byte.eqb t x48); [injection H as <- <- <- <-; exact Nil|].
    match type of H with (if ?b then _ else _) = _ => destruct b end; [injection H as <- <- <- <-; exact Nil|].
    destruct (Byte.eqb t x43).
    { destruct (do_close st body) as [[evs0 st0] k0] eqn:Q. injection H as <- <- <- <-.
      unfold do_close in Q. destruct body as [|kd l1]; [injection Q as <- <- <-; exact Nil|].
      destruct (take_cstr l1) as [[name l2]|]; [|injection Q as <- <- <-; exact Nil].
      destruct (Byte.eqb kd x53); [|destruct (Byte.eqb kd x50)].
      - injection Q as <- <- <-. apply (one_out_mon m BCloseComplete rest C Al eq_refl).
      - injection Q as <- <- <-. apply (one_out_mon m BCloseComplete rest C Al eq_refl).
      - destruct (ext_err st e_unknown_close) as [evs2 st2] eqn:X. injection Q as <- <- <-. eapply ext_err_mon; eauto. }
    destruct (Byte.eqb t x58).
    { destruct (cfg_term c); injection H as <- <- <- <-; [|exact Nil].
      cbn [mrun fold_left]. rewrite (calm_other m CbTerminate eq_refl). exact Nil. }
    injection H as <- <- <- <-. apply EE.
  - injection H as <- <- <- <-. exact NilE.
  - assert (C : calm m) by (apply (fresh_calm m _ Fr); reflexivity).
    destruct (do_oversize c st t size) as [evs0 st0] eqn:Q. injection H as <- <- <- <-.
    unfold do_oversize in Q. destruct (st_discard st && negb (Byte.eqb t x53)); [injection Q as <- <-; exact Nil|].
    destruct (is_ext t); [eapply ext_err_mon; eauto|].
    destruct (tail_err_ready m (e_size_exceeded (eff_limit (cfg_limit c)) size) C) as (X & Y & _).
    destruct (Byte.eqb t x53); injection Q as <- <-; (split; [exact X|eapply aligned_same; eauto]).
  - assert (C : calm m) by (apply (fresh_calm m _ Fr); reflexivity).
    destruct (do_oversize c st t size) as [evs0 st0] eqn:Q. injection H as <- <- <- <-.
    unfold do_oversize in Q. destruct (st_discard st && negb (Byte.eqb t x53)); [injection Q as <- <-; exact Nil|].
    destruct (is_ext t); [eapply ext_err_mon; eauto|].
    destruct (tail_err_ready m (e_size_exceeded (eff_limit (cfg_limit c)) size) C) as (X & Y & _).
    destruct (Byte.eqb t x53); injection Q as <- <-; (split; [exact X|eapply aligned_same; eauto]).
  - injection H as <- <- <- <-. exact NilE.
Qed.

(* ---------- the command loop and the session ---------- *)
Lemma loop_mon c tl : forall fuel st fs m,
  m_ok m = true -> aligned m fs -> m_ok (mrun m (loop fuel c st fs tl)) = true.
Proof.
  induction fuel as [|fuel IH]; intros st fs m A Al.
  - cbn [loop mrun fold_left]. rewrite calm_other by reflexivity. exact A.
  - destruct fs as [|f rest].
    + cbn [loop mrun fold_left]. rewrite calm_other by reflexivity. exact A.
    + cbn [loop]. destruct (cmd c st f rest tl) as [[[evs st'] fs'] k] eqn:E.
      assert (Rm : m_rem m = f :: rest) by (destruct Al as [Al|Al]; [exact Al|discriminate]).
      destruct (consume_fresh m f rest A Rm) as [Fr Rr].
      destruct (cmd_mon _ _ _ _ _ _ _ _ _ _ E Fr (or_introl Rr)) as [A' Al'].
      destruct k.
      * change (Consume :: evs ++ loop fuel c st' fs' tl) with ([Consume] ++ evs ++ loop fuel c st' fs' tl).
        rewrite !mrun_app. apply IH; assumption.
      * change (Consume :: evs ++ [Closed]) with ([Consume] ++ evs ++ [Closed]). rewrite !mrun_app.
        change (mrun (mrun (mrun m [Consume]) evs) [Closed]) with (mon_step (mrun (mrun m [Consume]) evs) Closed).
        rewrite calm_other by reflexivity. exact A'.
Qed.

(* before the first Consume marker nothing is judged *)
Lemma mon_idle fs pre : no_consume pre = true -> mrun (mon_init fs) pre = mon_init fs.
Proof.
  induction pre as [|e r IH]; intros H; [reflexivity|]. cbn [no_consume forallb] in H. apply andb_prop in H as [H1 H2].
  cbn [mrun fold_left]. fold (mrun (mon_step (mon_init fs) e) r).
  assert (S : mon_step (mon_init fs) e = mon_init fs) by (destruct e; try discriminate; reflexivity).
  rewrite S. apply IH. exact H2.
Qed.

Lemma session_mon c after s fs :
  (forall cparams aevs s', read_params (S (List.length after)) after = Some cparams ->
     auth_phase c cparams s = (aevs, s', true) -> fs = fst (frames (cfg_limit c) s')) ->
  m_ok (copy_mon fs (session c after s)) = true.
Proof.
  intros Hfs. unfold copy_mon. fold (mrun (mon_init fs) (session c after s)). unfold session.
  assert (Short : forall pre, no_consume pre = true -> m_ok (mrun (mon_init fs) (pre ++ [Closed])) = true).
  { intros pre P. rewrite mrun_app, (mon_idle fs pre P). reflexivity. }
  destruct (read_params (S (List.length after)) after) as [cparams|] eqn:Er; [|apply (Short []); reflexivity].
  destruct (auth_phase c cparams s) as [[aevs s'] ok] eqn:Ea.
  pose proof (auth_phase_plain _ _ _ _ _ _ Ea) as Pa.
  destruct ok; cbn [negb]; [|apply Short; exact Pa].
  specialize (Hfs _ _ _ eq_refl Ea).
  pose proof (run_mws_plain (cfg_mws c) 0) as Pm.
  destruct (run_mws (cfg_mws c) 0) as [mevs mok]. cbn [fst] in Pm.
  set (pevs := map (fun kv : bytes * bytes => Out (BParamStatus (fst kv) (snd kv))) (server_params c (param_get (bs "user") cparams))).
  assert (Pp : no_consume pevs = true) by apply pstatus_plain.
  destruct mok; cbn [negb].
  - destruct (frames (cfg_limit c) s') as [fs0 tl] eqn:Ef. cbn [fst] in Hfs. subst fs0.
    rewrite !app_assoc. rewrite mrun_app.
    rewrite mon_idle by (rewrite !no_consume_app, Pa, Pp, Pm; reflexivity).
    apply loop_mon; [reflexivity|left; reflexivity].
  - rewrite !app_assoc. apply Short. rewrite !no_consume_app, Pa, Pp, Pm. reflexivity.
Qed.

(* ---------- every CopyInResponse answers a CopyIn call of a configured statement ---------- *)
Definition stmt_req (sc : scase) (s : stmt) : Prop :=
  forall f0, In (HCopyIn f0) (s_prog s) -> In (List.length (s_cols s), f0) (copy_requests sc).

Lemma table_req sc q ss s : lookup_parse (sc_parse sc) q = POk ss -> In s ss -> stmt_req sc s.
Proof.
  unfold lookup_parse, stmt_req, copy_requests. intros H Hs f0 Hf.
  induction (sc_parse sc) as [|[k r] l IH]; cbn [alist_get] in H; [discriminate|].
  cbn [flat_map]. apply in_or_app. destruct (bytes_eqb q k).
  - left. subst r. cbn [snd]. apply in_flat_map. exists s. split; [exact Hs|].
    apply in_flat_map. exists (HCopyIn f0). split; [exact Hf|]. left. reflexivity.
  - right. apply IH. exact H.
Qed.

Definition cin_ok (sc : scase) (evs : list ev) : bool := forallb (copyin_ok sc) (Oracles.outs evs).
Lemma cin_app sc a b : cin_ok sc (a ++ b) = cin_ok sc a && cin_ok sc b.
Proof. unfold cin_ok. rewrite oouts_app. apply forallb_app. Qed.

Lemma repeatZ_all n z : forallb (fun c => c =? z) (repeatZ n z) = true /\ List.length (repeatZ n z) = n.
Proof. induction n as [|n [A B]]; [split; reflexivity|]. cbn. rewrite Z.eqb_refl, A, B. split; reflexivity. Qed.

Lemma copy_read_cin sc L : forall fs tl evs r rest, copy_read L fs tl = (evs, r, rest) -> cin_ok sc evs = true.
Proof.
  intros fs tl evs r rest H. destruct (copy_read_spec _ _ _ _ _ _ H) as (A & _). unfold cin_ok. rewrite outs_eq, A. reflexivity.
Qed.

Lemma run_op_cin sc c s fmts o w fs tl evs w' fs' st :
  stmt_req sc s -> In o (s_prog s) ->
  run_op c (s_cols s) fmts o w fs tl = (evs, w', fs', st) -> cin_ok sc evs = true.
Proof.
  intros P Ho H. destruct o as [vs| | |tag|f|]; cbn [run_op] in H.
  - destruct (w_closed w); [injection H as <- <- <- <-; reflexivity|].
    destruct (write_row (cfg_encode c) (s_cols s) fmts vs); injection H as <- <- <- <-; reflexivity.
  - injection H as <- <- <- <-. reflexivity.
  - destruct (w_closed w); [|destruct (negb (w_written w =? 0))]; injection H as <- <- <- <-; reflexivity.
  - destruct (w_closed w); injection H as <- <- <- <-; reflexivity.
  - destruct (w_closed w); [injection H as <- <- <- <-; reflexivity|].
    pose proof (P _ Ho) as Pin.
    destruct (s_cols s) as [|c0 cr]; [injection H as <- <- <- <-; reflexivity|].
    remember (List.length (c0 :: cr)) as n eqn:En. clear En. injection H as <- <- <- <-.
    destruct (repeatZ_all n (f mod 65536)) as [A B].
    unfold cin_ok. change (copyin_ok sc (BCopyIn (f mod 256) (repeatZ n (f mod 65536))) && true = true).
    rewrite andb_true_r. unfold copyin_ok.
    apply existsb_exists. exists (n, f). split; [exact Pin|].
    cbn [fst snd]. rewrite Z.eqb_refl, B, Nat.eqb_refl, A. reflexivity.
  - destruct (negb (w_copy w)); [injection H as <- <- <- <-; reflexivity|].
    destruct (copy_read (cfg_limit c) fs tl) as [[evs0 r] rest] eqn:E.
    pose proof (copy_read_cin sc _ _ _ _ _ _ E) as K.
    destruct r; injection H as <- <- <- <-; rewrite cin_app, K; reflexivity.
Qed.

Lemma run_ops_cin sc c s fmts stop : stmt_req sc s -> forall ops w fs tl evs w' fs' res,
  (forall o, In o ops -> In o (s_prog s)) ->
  run_ops c (s_cols s) fmts stop ops w fs tl = (evs, w', fs', res) -> cin_ok sc evs = true.
Proof.
  intros P. induction ops as [|o r IH]; intros w fs tl evs w' fs' res Sub H; cbn [run_ops] in H.
  - injection H as <- <- <- <-. reflexivity.
  - destruct (run_op c (s_cols s) fmts o w fs tl) as [[[evs1 w1] fs1] st] eqn:E1.
    pose proof (run_op_cin sc _ _ _ _ _ _ _ _ _ _ _ P (Sub o (or_introl eq_refl)) E1) as K1.
    assert (Sub' : forall o0, In o0 r -> In o0 (s_prog s)) by (intros o0 Ho; apply Sub; right; exact Ho).
    destruct st.
    + destruct (run_ops c (s_cols s) fmts stop r w1 fs1 tl) as [[[evs2 w2] fs2] res2] eqn:E2.
      injection H as <- <- <- <-. rewrite cin_app, K1. eapply IH; eauto.
    + destruct stop.
      * injection H as <- <- <- <-. exact K1.
      * destruct (run_ops c (s_cols s) fmts false r w1 fs1 tl) as [[[evs2 w2] fs2] res2] eqn:E2.
        injection H as <- <- <- <-. rewrite cin_app, K1. eapply IH; eauto.
    + injection H as <- <- <- <-. exact K1.
Qed.

Lemma run_stmt_cin sc c s fmts params fs tl evs fs' res :
  stmt_req sc s -> run_stmt c s fmts params fs tl = (evs, fs', res) -> cin_ok sc evs = true.
Proof.
  unfold run_stmt. intros P H.
  destruct (run_ops c (s_cols s) fmts (s_stop s) (s_prog s) w_init fs tl) as [[[evs0 w] fs0] r0] eqn:E.
  injection H as <- <- <-. change (cin_ok sc (CbExec (s_id s) params :: evs0)) with (cin_ok sc evs0).
  eapply run_ops_cin; eauto.
Qed.

Lemma define_cin sc cols fmts : cin_ok sc (define_evs cols fmts) = true.
Proof. destruct cols; reflexivity. Qed.

Lemma run_stmts_cin sc c : forall ss fs tl evs fs' crashed,
  (forall s, In s ss -> stmt_req sc s) -> run_stmts c ss fs tl = (evs, fs', crashed) -> cin_ok sc evs = true.
Proof.
  induction ss as [|s r IH]; intros fs tl evs fs' crashed P H; cbn [run_stmts] in H.
  - injection H as <- <- <-. reflexivity.
  - destruct (run_stmt c s [] [] fs tl) as [[evs1 fs1] res] eqn:E1.
    pose proof (run_stmt_cin sc _ _ _ _ _ _ _ _ _ (P s (or_introl eq_refl)) E1) as K1.
    assert (P' : forall s0, In s0 r -> stmt_req sc s0) by (intros s0 Hs; apply P; right; exact Hs).
    destruct res.
    + destruct (run_stmts c r fs1 tl) as [[evs2 fs2] cr] eqn:E2.
      injection H as <- <- <-. rewrite !cin_app, define_cin, K1. eapply IH; eauto.
    + injection H as <- <- <-. rewrite !cin_app, define_cin, K1. reflexivity.
    + injection H as <- <- <-. rewrite !cin_app, define_cin, K1. reflexivity.
Qed.

Definition st_req (sc : scase) (st : sst) : Prop :=
  (forall n s, alist_get n (st_stmts st) = Some s -> stmt_req sc s) /\
  (forall n p, alist_get n (st_portals st) = Some p -> stmt_req sc (p_stmt p)).

Lemma cmd_cin sc st f rest tl evs st' fs' k :
  st_req sc st -> cmd (cfg_of_case sc) st f rest tl = (evs, st', fs', k) -> cin_ok sc evs = true /\ st_req sc st'.
Proof.
  intros I H. pose proof I as [I1 I2].
  destruct f as [t body|t size [x|]|t size|]; cbn [cmd] in H.
  - destruct (st_discard st && negb (Byte.eqb t x53) && negb (Byte.eqb t x58)); [injection H as <- <- <- <-; split; [reflexivity|exact I]|].
    destruct (Byte.eqb t x51).
    { destruct (simple_query (cfg_of_case sc) body rest tl) as [[evs0 fs0] k0] eqn:Q. injection H as <- <- <- <-. split; [|exact I].
      unfold simple_query in Q. destruct (take_cstr body) as [[q r0]|]; [|injection Q as <- <- <-; reflexivity].
      destruct (is_blank q); [injection Q as <- <- <-; reflexivity|].
      cbn [cfg_of_case cfg_parse] in Q.
      destruct (lookup_parse (sc_parse sc) q) as [e|ss] eqn:Ep; [injection Q as <- <- <-; reflexivity|].
      destruct ss as [|s1 r]; [injection Q as <- <- <-; reflexivity|].
      destruct (run_stmts (cfg_of_case sc) (s1 :: r) rest tl) as [[evs1 fs1] cr] eqn:E. injection Q as <- <- <-.
      change (cin_ok sc (CbParse q :: evs1)) with (cin_ok sc evs1). eapply run_stmts_cin; eauto.
      intros s Hs. eapply table_req; eauto. }
    destruct (Byte.eqb t x45).
    { unfold do_execute in H. destruct (take_cstr body) as [[name l1]|]; [|injection H as <- <- <- <-; split; [reflexivity|exact I]].
      destruct (p_u32 l1) as [pu|]; [|injection H as <- <- <- <-; split; [reflexivity|exact I]].
      destruct (alist_get name (st_portals st)) as [p|] eqn:G.
      - destruct (run_stmt (cfg_of_case sc) (p_stmt p) (p_rfmts p) (p_params p) rest tl) as [[evs1 fs1] res] eqn:E.
        pose proof (run_stmt_cin sc _ _ _ _ _ _ _ _ _ (I2 _ _ G) E) as K.
        destruct res; unfold ext_err in H; injection H as <- <- <- <-; (split; [|exact I]); rewrite ?cin_app, K; reflexivity.
      - unfold ext_err in H. injection H as <- <- <- <-. split; [reflexivity|exact I]. }
    destruct (Byte.eqb t x50).
    { destruct (do_parse (cfg_of_case sc) st body) as [[evs0 st0] k0] eqn:Q. injection H as <- <- <- <-.
      unfold do_parse in Q. destruct (take_cstr body) as [[name l1]|]; [|injection Q as <- <- <-; split; [reflexivity|exact I]].
      destruct (take_cstr l1) as [[q l2]|]; [|injection Q as <- <- <-; split; [reflexivity|exact I]].
      destruct (p_u16 l2) as [pu|]; [|injection Q as <- <- <-; split; [reflexivity|exact I]].
      cbn [cfg_of_case cfg_parse] in Q.
      destruct (lookup_parse (sc_parse sc) q) as [e|[|s1 [|s2 r]]] eqn:Ep; unfold ext_err in Q; injection Q as <- <- <-; try (split; [reflexivity|exact I]).
      split; [reflexivity|]. split; cbn [st_stmts st_portals]; [|exact I2].
      apply alist_get_set_inv; [|exact I1]. eapply table_req; eauto. left. reflexivity. }
    destruct (Byte.eqb t x44).
    { destruct (do_describe st body) as [[evs0 st0] k0] eqn:Q. injection H as <- <- <- <-. split.
      - unfold do_describe in Q. destruct body as [|kd l1]; [injection Q as <- <- <-; reflexivity|].
        destruct (take_cstr l1) as [[name l2]|]; [|injection Q as <- <- <-; reflexivity].
        destruct (Byte.eqb kd x53).
        + destruct (alist_get name (st_stmts st)) as [s0|]; unfold ext_err in Q; injection Q as <- <- <-; [|reflexivity].
          unfold describe_cols. destruct (s_cols s0); reflexivity.
        + destruct (Byte.eqb kd x50); [|unfold ext_err in Q; injection Q as <- <- <-; reflexivity].
          destruct (alist_get name (st_portals st)) as [p|]; unfold ext_err in Q; injection Q as <- <- <-; [|reflexivity].
          unfold describe_cols. destruct (s_cols (p_stmt p)); reflexivity.
      - pose proof (do_describe_reply st body evs0 st0 k0 Q) as _.
        unfold do_describe in Q. destruct body as [|kd l1]; [injection Q as <- <- <-; exact I|].
        destruct (take_cstr l1) as [[name l2]|]; [|injection Q as <- <- <-; exact I].
        destruct (Byte.eqb kd x53); [destruct (alist_get name (st_stmts st))|destruct (Byte.eqb kd x50); [destruct (alist_get name (st_portals st))|]];
          unfold ext_err in Q; injection Q as <- <- <-; exact I. }
    destruct (Byte.eqb t x53); [injection H as <- <- <- <-; split; [reflexivity|exact I]|].
    destruct (Byte.eqb t x42).
    { destruct (do_bind st body) as [[evs0 st0] k0] eqn:Q. injection H as <- <- <- <-.
      unfold do_bind in Q. destruct (decode_bind body) as [b|]; [|injection Q as <- <- <-; split; [reflexivity|exact I]].
      destruct (alist_get (b_stmt b) (st_stmts st)) as [s0|] eqn:G; unfold ext_err in Q; injection Q as <- <- <-; [|split; [reflexivity|exact I]].
      split; [reflexivity|]. split; cbn [st_stmts st_portals]; [exact I1|].
      apply (alist_get_set_inv (fun p => stmt_req sc (p_stmt p))); [|exact I2]. cbn. eapply I1; eauto. }
    destruct (Byte.eqb t x48); [injection H as <- <- <- <-; split; [reflexivity|exact I]|].
    destruct (Byte.eqb t x64 || Byte.eqb t x63 || Byte.eqb t x66); [injection H as <- <- <- <-; split; [reflexivity|exact I]|].
    destruct (Byte.eqb t x43).
    { destruct (do_close st body) as [[evs0 st0] k0] eqn:Q. injection H as <- <- <- <-.
      unfold do_close in Q. destruct body as [|kd l1]; [injection Q as <- <- <-; split; [reflexivity|exact I]|].
      destruct (take_cstr l1) as [[name l2]|]; [|injection Q as <- <- <-; split; [reflexivity|exact I]].
      destruct (Byte.eqb kd x53); [|destruct (Byte.eqb kd x50)]; unfold ext_err in Q; injection Q as <- <- <-.
      - split; [reflexivity|]. split; cbn [st_stmts st_portals]; [|exact I2]. apply alist_get_del_inv. exact I1.
      - split; [reflexivity|]. split; cbn [st_stmts st_portals]; [exact I1|]. apply (alist_get_del_inv (fun p => stmt_req sc (p_stmt p))). exact I2.
      - split; [reflexivity|exact I]. }
    destruct (Byte.eqb t x58); [destruct (cfg_term (cfg_of_case sc))|]; injection H as <- <- <- <-; split; try reflexivity; exact I.
  - injection H as <- <- <- <-. split; [reflexivity|exact I].
  - destruct (do_oversize (cfg_of_case sc) st t size) as [evs0 st0] eqn:Q. injection H as <- <- <- <-.
    unfold do_oversize in Q. destruct (st_discard st && negb (Byte.eqb t x53)); [injection Q as <- <-; split; [reflexivity|exact I]|].
    destruct (is_ext t); [unfold ext_err in Q; injection Q as <- <-; split; [reflexivity|exact I]|].
    destruct (Byte.eqb t x53); injection Q as <- <-; split; try reflexivity; exact I.
  - destruct (do_oversize (cfg_of_case sc) st t size) as [evs0 st0] eqn:Q. injection H as <- <- <- <-.
    unfold do_oversize in Q. destruct (st_discard st && negb (Byte.eqb t x53)); [injection Q as <- <-; split; [reflexivity|exact I]|].
    destruct (is_ext t); [unfold ext_err in Q; injection Q as <- <-; split; [reflexivity|exact I]|].
    destruct (Byte.eqb t x53); injection Q as <- <-; split; try reflexivity; exact I.
  - injection H as <- <- <- <-. split; [reflexivity|exact I].
Qed.

Lemma loop_cin sc tl : forall fuel st fs, st_req sc st -> cin_ok sc (loop fuel (cfg_of_case sc) st fs tl) = true.
Proof.
  induction fuel as [|fuel IH]; intros st fs I; [reflexivity|].
  destruct fs as [|f rest]; [reflexivity|]. cbn [loop].
  destruct (cmd (cfg_of_case sc) st f rest tl) as [[[evs st'] fs'] k] eqn:E.
  destruct (cmd_cin _ _ _ _ _ _ _ _ _ I E) as [K I'].
  destruct k.
  - change (Consume :: evs ++ loop fuel (cfg_of_case sc) st' fs' tl) with ([Consume] ++ evs ++ loop fuel (cfg_of_case sc) st' fs' tl).
    rewrite !cin_app, K, IH by exact I'. reflexivity.
  - change (Consume :: evs ++ [Closed]) with ([Consume] ++ evs ++ [Closed]). rewrite !cin_app, K. reflexivity.
Qed.

Lemma st_init_req sc : st_req sc st_init.
Proof. split; intros n x H; discriminate. Qed.

Lemma auth_phase_cin sc c cparams s evs rest ok : auth_phase c cparams s = (evs, rest, ok) -> cin_ok sc evs = true.
Proof.
  unfold auth_phase. intros H.
  destruct (cfg_auth c) as [validate|]; [|injection H as <- <- <-; reflexivity].
  destruct s as [|t [|a [|b [|c4 [|d r]]]]]; try (injection H as <- <- <-; reflexivity).
  destruct ((rd32 a b c4 d - 4 <? 0) || (rd32 a b c4 d - 4 >? eff_limit (cfg_limit c))); [injection H as <- <- <-; reflexivity|].
  destruct (takeZ (rd32 a b c4 d - 4) r) as [[body rest0]|]; [|injection H as <- <- <-; reflexivity].
  destruct (negb (Byte.eqb t x70)); [injection H as <- <- <-; reflexivity|].
  destruct (take_cstr body) as [[pw x]|]; [|injection H as <- <- <-; reflexivity].
  destruct (validate _ _ pw); injection H as <- <- <-; reflexivity.
Qed.

Lemma pstatus_cin sc l : cin_ok sc (map (fun kv : bytes * bytes => Out (BParamStatus (fst kv) (snd kv))) l) = true.
Proof. induction l as [|x r IH]; [reflexivity|]. exact IH. Qed.

Lemma run_mws_cin sc : forall mws i, cin_ok sc (fst (run_mws mws i)) = true.
Proof.
  induction mws as [|ok r IH]; intros i; [reflexivity|]. cbn [run_mws]. destruct ok; [|reflexivity].
  specialize (IH (i + 1)). destruct (run_mws r (i + 1)) as [evs res]. exact IH.
Qed.

Lemma session_cin sc after s : cin_ok sc (session (cfg_of_case sc) after s) = true.
Proof.
  unfold session.
  destruct (read_params (S (List.length after)) after) as [cparams|]; [|reflexivity].
  destruct (auth_phase (cfg_of_case sc) cparams s) as [[aevs s'] ok] eqn:Ea.
  pose proof (auth_phase_cin sc _ _ _ _ _ _ Ea) as Pa.
  destruct ok; cbn [negb]; [|rewrite cin_app, Pa; reflexivity].
  pose proof (run_mws_cin sc (cfg_mws (cfg_of_case sc)) 0) as Pm.
  destruct (run_mws (cfg_mws (cfg_of_case sc)) 0) as [mevs mok]. cbn [fst] in Pm.
  destruct mok; cbn [negb].
  - destruct (frames (cfg_limit (cfg_of_case sc)) s') as [fs0 tl].
    rewrite !cin_app, Pa, pstatus_cin, Pm, loop_cin by apply st_init_req. reflexivity.
  - rewrite !cin_app, Pa, pstatus_cin, Pm. reflexivity.
Qed.

(* the whole oracle holds of the model's own log: for every configuration and every client byte stream whose
   first packet is not an SSLRequest (the scan is anchored at the frames after that first packet) *)
Theorem oracle_C13_model sc :
  (forall v after rest, start (cfg_of_case sc) (sc_raw sc) = Some (v, after, rest) -> v <> version_ssl) ->
  oracle_C13 sc (run_case sc) = true.
Proof.
  intros Hssl. unfold oracle_C13.
  assert (N : no_crash (run_case sc) = true).
  { unfold no_crash, run_case. destruct (serve_no_crash (cfg_of_case sc) (sc_raw sc) (sc_tlsin sc) (case_text_safe sc)) as [A _].
    unfold crashp in A. rewrite A. reflexivity. }
  rewrite N. cbn [andb]. unfold run_case, serve.
  destruct (start (cfg_of_case sc) (sc_raw sc)) as [[[v after] rest]|] eqn:Es; [|reflexivity].
  destruct (v =? version_cancel); [reflexivity|].
  destruct (Z.eqb_spec v version_ssl) as [->|_]; [exfalso; eapply Hssl; eauto|].
  fold (cin_ok sc (session (cfg_of_case sc) after rest)). rewrite session_cin. cbn [andb].
  apply session_mon. intros cparams aevs s' _ Hauth. eapply case_frames; eauto.
Qed.
