(* BackendSpec.v — SPECIFICATION of well-formed PostgreSQL v3 backend output.

   [bmsg] is the abstract syntax of the backend messages this server can emit,
   [enc_bmsg] their wire encoding, [parse_bmsg]/[parse_stream] a STRICT parser:
   known type byte, length = 4 + body, every declared count matched by exactly
   that many items, every string NUL-terminated, an ErrorResponse is a list of
   (non-zero code, C string) pairs closed by one zero byte, nothing left over.
   It is written independently of the model of the library's writer and is the
   decoder through which the harness observations are read (extracted). *)
Require Import Wire.Bytes.
Local Open Scope Z_scope.

Record coldesc := {
  cd_name : bytes; cd_table : Z; cd_attr : Z; cd_oid : Z; cd_width : Z;
  cd_typmod : Z; cd_fmt : Z }.

Inductive bmsg :=
| BAuth (code : Z)                          (* 'R': 0 = Ok, 3 = CleartextPassword *)
| BParamStatus (k v : bytes)                (* 'S' *)
| BReady (status : byte)                    (* 'Z' *)
| BRowDesc (cols : list coldesc)            (* 'T' *)
| BDataRow (fields : list (option bytes))   (* 'D' *)
| BComplete (tag : bytes)                   (* 'C' *)
| BEmptyQuery                               (* 'I' *)
| BError (fields : list (byte * bytes))     (* 'E' *)
| BParseComplete                            (* '1' *)
| BBindComplete                             (* '2' *)
| BCloseComplete                            (* '3' *)
| BNoData                                   (* 'n' *)
| BParamDesc (oids : list Z)                (* 't' *)
| BCopyIn (fmt : Z) (cols : list Z).        (* 'G' *)

(* ---------- encoding ---------- *)
Definition enc_col (c : coldesc) : bytes :=
  cstr (cd_name c) ++ be32 (cd_table c) ++ be16 (cd_attr c) ++ be32 (cd_oid c) ++
  be16 (cd_width c) ++ be32 (cd_typmod c) ++ be16 (cd_fmt c).

Definition enc_field (f : option bytes) : bytes :=
  match f with
  | None => be32 4294967295
  | Some v => be32 (lenZ v) ++ v
  end.

Definition enc_efield (f : byte * bytes) : bytes := fst f :: cstr (snd f).

Definition msg_type (m : bmsg) : byte :=
  match m with
  | BAuth _ => x52 | BParamStatus _ _ => x53 | BReady _ => x5a | BRowDesc _ => x54
  | BDataRow _ => x44 | BComplete _ => x43 | BEmptyQuery => x49 | BError _ => x45
  | BParseComplete => x31 | BBindComplete => x32 | BCloseComplete => x33
  | BNoData => x6e | BParamDesc _ => x74 | BCopyIn _ _ => x47
  end.

Definition msg_body (m : bmsg) : bytes :=
  match m with
  | BAuth c => be32 c
  | BParamStatus k v => cstr k ++ cstr v
  | BReady s => [s]
  | BRowDesc cols => be16 (lenZ cols) ++ flat_map enc_col cols
  | BDataRow fs => be16 (lenZ fs) ++ flat_map enc_field fs
  | BComplete tag => cstr tag
  | BError fs => flat_map enc_efield fs ++ [x00]
  | BParamDesc oids => be16 (lenZ oids) ++ flat_map be32 oids
  | BCopyIn f cols => [byte_of_Z f] ++ be16 (lenZ cols) ++ flat_map be16 cols
  | _ => []
  end.

Definition frame_bytes (t : byte) (body : bytes) : bytes := t :: be32 (4 + lenZ body) ++ body.
Definition enc_bmsg (m : bmsg) : bytes := frame_bytes (msg_type m) (msg_body m).
Definition enc_stream (ms : list bmsg) : bytes := flat_map enc_bmsg ms.

(* ---------- strict parsing ---------- *)
Definition parser (A : Type) := bytes -> option (A * bytes).

Definition p_u8 : parser Z := fun l => match l with a :: r => Some (bZ a, r) | _ => None end.
Definition p_u16 : parser Z := fun l => match l with a :: b :: r => Some (rd16 a b, r) | _ => None end.
Definition p_u32 : parser Z :=
  fun l => match l with a :: b :: c :: d :: r => Some (rd32 a b c d, r) | _ => None end.
Definition p_cstr : parser bytes := take_cstr.

(* take n bytes, n from the wire (structural on the list, no unary numbers) *)
Fixpoint takeZ (n : Z) (l : bytes) {struct l} : option (bytes * bytes) :=
  if n <=? 0 then Some ([], l)
  else match l with
       | [] => None
       | x :: r => match takeZ (n - 1) r with
                   | Some (a, b) => Some (x :: a, b)
                   | None => None
                   end
       end.

Fixpoint p_rep {A} (n : nat) (p : parser A) : parser (list A) :=
  fun l => match n with
           | O => Some ([], l)
           | S n' => match p l with
                     | Some (x, r) => match p_rep n' p r with
                                      | Some (xs, r') => Some (x :: xs, r')
                                      | None => None
                                      end
                     | None => None
                     end
           end.

Definition p_col : parser coldesc := fun l =>
  match p_cstr l with Some (name, l1) =>
  match p_u32 l1 with Some (table, l2) =>
  match p_u16 l2 with Some (attr, l3) =>
  match p_u32 l3 with Some (oid, l4) =>
  match p_u16 l4 with Some (width, l5) =>
  match p_u32 l5 with Some (typmod, l6) =>
  match p_u16 l6 with Some (fmt, l7) =>
    Some ({| cd_name := name; cd_table := table; cd_attr := attr; cd_oid := oid;
             cd_width := width; cd_typmod := typmod; cd_fmt := fmt |}, l7)
  | None => None end | None => None end | None => None end | None => None end
  | None => None end | None => None end | None => None end.

Definition p_field : parser (option bytes) := fun l =>
  match p_u32 l with
  | Some (n, r) =>
      if n =? 4294967295 then Some (None, r)
      else if n >=? 2147483648 then None
      else match takeZ n r with
           | Some (v, r') => Some (Some v, r')
           | None => None
           end
  | None => None
  end.

(* ErrorResponse body: (code <> 0, cstring)* 0, then nothing *)
Fixpoint p_efields (st : option (byte * bytes)) (l : bytes) : option (list (byte * bytes)) :=
  match l with
  | [] => None
  | b :: r =>
      match st with
      | None =>
          if Byte.eqb b x00 then (match r with [] => Some [] | _ => None end)
          else p_efields (Some (b, [])) r
      | Some (c, acc) =>
          if Byte.eqb b x00 then
            match p_efields None r with
            | Some fs => Some ((c, rev acc) :: fs)
            | None => None
            end
          else p_efields (Some (c, b :: acc)) r
      end
  end.

(* a parser result is accepted only if it consumed the whole body *)
Definition complete {A} (r : option (A * bytes)) : option A :=
  match r with Some (x, []) => Some x | _ => None end.

Definition parse_bmsg (t : byte) (body : bytes) : option bmsg :=
  let n := bN t in
  if (n =? 82)%N then                                   (* R *)
    match complete (p_u32 body) with
    | Some c => if (c =? 0) || (c =? 3) then Some (BAuth c) else None
    | None => None end
  else if (n =? 83)%N then                              (* S *)
    match p_cstr body with
    | Some (k, r) => match complete (p_cstr r) with Some v => Some (BParamStatus k v) | None => None end
    | None => None end
  else if (n =? 90)%N then                              (* Z *)
    match body with
    | [s] => if Byte.eqb s x49 || Byte.eqb s x54 || Byte.eqb s x45 then Some (BReady s) else None
    | _ => None end
  else if (n =? 84)%N then                              (* T *)
    match p_u16 body with
    | Some (k, r) => match complete (p_rep (Z.to_nat k) p_col r) with
                     | Some cols => Some (BRowDesc cols) | None => None end
    | None => None end
  else if (n =? 68)%N then                              (* D *)
    match p_u16 body with
    | Some (k, r) => match complete (p_rep (Z.to_nat k) p_field r) with
                     | Some fs => Some (BDataRow fs) | None => None end
    | None => None end
  else if (n =? 67)%N then                              (* C *)
    match complete (p_cstr body) with Some tag => Some (BComplete tag) | None => None end
  else if (n =? 73)%N then match body with [] => Some BEmptyQuery | _ => None end
  else if (n =? 69)%N then                              (* E *)
    match p_efields None body with Some fs => Some (BError fs) | None => None end
  else if (n =? 49)%N then match body with [] => Some BParseComplete | _ => None end
  else if (n =? 50)%N then match body with [] => Some BBindComplete | _ => None end
  else if (n =? 51)%N then match body with [] => Some BCloseComplete | _ => None end
  else if (n =? 110)%N then match body with [] => Some BNoData | _ => None end
  else if (n =? 116)%N then                             (* t *)
    match p_u16 body with
    | Some (k, r) => match complete (p_rep (Z.to_nat k) p_u32 r) with
                     | Some oids => Some (BParamDesc oids) | None => None end
    | None => None end
  else if (n =? 71)%N then                              (* G *)
    match p_u8 body with
    | Some (f, r) =>
        match p_u16 r with
        | Some (k, r') => match complete (p_rep (Z.to_nat k) p_u16 r') with
                          | Some cols => Some (BCopyIn f cols) | None => None end
        | None => None end
    | None => None end
  else None.

(* a stream: type byte, length = 4 + |body|, body; nothing may trail *)
Fixpoint parse_stream_fuel (fuel : nat) (l : bytes) : option (list bmsg) :=
  match l with
  | [] => Some []
  | t :: a :: b :: c :: d :: r =>
      match fuel with
      | O => None
      | S f =>
          let n := rd32 a b c d in
          if n <? 4 then None
          else match takeZ (n - 4) r with
               | Some (body, rest) =>
                   match parse_bmsg t body with
                   | Some m => match parse_stream_fuel f rest with
                               | Some ms => Some (m :: ms)
                               | None => None
                               end
                   | None => None
                   end
               | None => None
               end
      end
  | _ => None
  end.

Definition parse_stream (l : bytes) : option (list bmsg) := parse_stream_fuel (length l) l.

(* ---------- well-formedness of abstract messages (what has an encoding) ---------- *)
Definition u16_ok (z : Z) : bool := (0 <=? z) && (z <? 65536).
Definition u32_ok (z : Z) : bool := (0 <=? z) && (z <? 4294967296).

Definition wf_col (c : coldesc) : bool :=
  nul_free (cd_name c) && u32_ok (cd_table c) && u16_ok (cd_attr c) && u32_ok (cd_oid c) &&
  u16_ok (cd_width c) && u32_ok (cd_typmod c) && u16_ok (cd_fmt c).
Definition wf_field (f : option bytes) : bool :=
  match f with None => true | Some v => lenZ v <? 2147483648 end.
Definition wf_efield (f : byte * bytes) : bool :=
  negb (Byte.eqb (fst f) x00) && nul_free (snd f).

Definition wf_bmsg (m : bmsg) : bool :=
  match m with
  | BAuth c => (c =? 0) || (c =? 3)
  | BParamStatus k v => nul_free k && nul_free v
  | BReady s => Byte.eqb s x49 || Byte.eqb s x54 || Byte.eqb s x45
  | BRowDesc cols => (lenZ cols <? 65536) && forallb wf_col cols
  | BDataRow fs => (lenZ fs <? 65536) && forallb wf_field fs
  | BComplete tag => nul_free tag
  | BError fs => forallb wf_efield fs
  | BParamDesc oids => (lenZ oids <? 65536) && forallb u32_ok oids
  | BCopyIn f cols => (0 <=? f) && (f <? 256) && (lenZ cols <? 65536) && forallb u16_ok cols
  | _ => true
  end.

(* total size must fit the 32-bit length field *)
Definition wf_size (m : bmsg) : bool := 4 + lenZ (msg_body m) <? 4294967296.
Definition wf_msg (m : bmsg) : bool := wf_bmsg m && wf_size m.
