(* OracleFactsNames.v — the model satisfies the namespace oracle [oracle_names] (C07, C08):
   the abstract namespace the oracle replays (functions from names) is refined by the
   session's caches, message by message. *)
Require Import Wire.Bytes Spec.BackendSpec Spec.BackendSpecFacts Wire.Errors Wire.Framing Wire.Session
  Wire.SessionFacts Wire.CommandFacts Wire.WireFacts Wire.RobustFacts Wire.Case Spec.KindFacts Spec.Oracles Spec.OracleFacts.
From Coq Require Import String.
Local Open Scope string_scope.
Local Open Scope list_scope.
Local Open Scope Z_scope.

(* ---------- format rules: the model's [fmt_for]/[param_fmt] against the oracle's [rule_fmt] ---------- *)
Lemma rule_fmt_for rf n i e :
  (i < n)%nat -> rule_fmt rf n i = Some e -> fmt_for rf i = e.
Proof.
  unfold rule_fmt, fmt_for. intros Hi.
  destruct rf as [|f0 [|f1 r]].
  - intros H. injection H as <-. reflexivity.
  - intros H. injection H as <-. destruct i as [|[|i]]; reflexivity.
  - destruct (Nat.eqb_spec (List.length (f0 :: f1 :: r)) n) as [E|]; [|discriminate].
    intros H. rewrite H. reflexivity.
Qed.

Lemma rowdesc_ok rf n : forall cols i, n = (i + List.length cols)%nat ->
  rowdesc_fmts_ok rf n i (coldescs cols rf i) = true.
Proof.
  induction cols as [|c r IH]; intros i Hn; [reflexivity|].
  cbn [coldescs rowdesc_fmts_ok]. rewrite IH by (cbn [List.length] in Hn; lia). rewrite andb_true_r.
  destruct (rule_fmt rf n i) as [e|] eqn:E; [|reflexivity].
  rewrite (rule_fmt_for rf n i e) by (auto; cbn [List.length] in Hn; lia). cbn. apply Z.eqb_refl.
Qed.

Lemma names_ok cols rf : forall i, list_names_ok cols (coldescs cols rf i) = true.
Proof.
  induction cols as [|c r IH]; intros i; [reflexivity|].
  cbn [coldescs list_names_ok coldesc_of cd_name cd_oid]. rewrite bytes_eqb_refl, Z.eqb_refl, IH. reflexivity.
Qed.

Lemma coldescs_length cols rf : forall i, List.length (coldescs cols rf i) = List.length cols.
Proof. induction cols as [|c r IH]; intros i; [reflexivity|]. cbn. rewrite IH. reflexivity. Qed.

Definition sdef_of (s : stmt) : sdef := {| sd_sid := s_id s; sd_cols := s_cols s; sd_poids := s_poids s |}.

Lemma describe_cols_ok s rf : describe_ok (sdef_of s) rf (describe_cols (s_cols s) rf) = true.
Proof.
  unfold describe_ok, describe_cols, sdef_of. cbn [sd_cols]. destruct (s_cols s) as [|c r] eqn:E; [reflexivity|].
  unfold row_desc. rewrite names_ok. unfold lenZ. rewrite ?coldescs_length, ?Z.eqb_refl. cbn [andb].
  apply rowdesc_ok. rewrite ?coldescs_length. reflexivity.
Qed.

Lemma rule_param_fmt pf n i e : (i < n)%nat -> rule_fmt pf n i = Some e -> param_fmt pf i = e.
Proof.
  unfold rule_fmt, param_fmt. intros Hi.
  destruct pf as [|f0 [|f1 r]].
  - intros H. injection H as <-. destruct i; reflexivity.
  - intros H. injection H as <-. destruct i as [|[|i]]; reflexivity.
  - destruct (Nat.eqb_spec (List.length (f0 :: f1 :: r)) n) as [E|]; [|discriminate].
    intros H. rewrite H. reflexivity.
Qed.

Lemma params_tagged_ok pf n : forall vals i, n = (i + List.length vals)%nat ->
  params_ok pf n i vals (tag_params pf i vals) = true.
Proof.
  induction vals as [|v r IH]; intros i Hn; [reflexivity|].
  cbn [tag_params params_ok]. rewrite IH by (cbn [List.length] in Hn; lia). rewrite andb_true_r.
  assert (V : match v with None => match v with None => true | Some _ => false end | Some a => match v with Some b => bytes_eqb a b | None => false end end = true)
    by (destruct v; [apply bytes_eqb_refl|reflexivity]).
  destruct v as [a|]; cbn; rewrite ?bytes_eqb_refl; cbn;
    (destruct (rule_fmt pf n i) as [e|] eqn:E; [|reflexivity]);
    rewrite (rule_param_fmt pf n i e) by (auto; cbn [List.length] in Hn; lia); apply Z.eqb_refl.
Qed.

Lemma list_z_eqb_refl l : list_z_eqb l l = true.
Proof. induction l as [|x r IH]; [reflexivity|]. cbn. rewrite Z.eqb_refl, IH. reflexivity. Qed.

(* ---------- the refinement: abstract namespace vs the session's caches ---------- *)
Definition pdef_ok (pd : pdef) (p : portal) : Prop :=
  pd_stmt pd = sdef_of (p_stmt p) /\ pd_rf pd = p_rfmts p /\ p_params p = tag_params (pd_pf pd) 0 (pd_vals pd).

Definition nmatch (n : nspace) (st : sst) : Prop :=
  ns_ok n = true /\
  (forall name, ns_stmt n name = option_map sdef_of (alist_get name (st_stmts st))) /\
  (forall name, match alist_get name (st_portals st), ns_portal n name with
                | Some p, Some pd => pdef_ok pd p
                | None, None => True
                | _, _ => False
                end).

Lemma nmatch_discard n st d : nmatch n st -> nmatch n (set_discard st d).
Proof. intros H. exact H. Qed.

Lemma upd_set {A B} (f : A -> B) (g : bytes -> option B) k v l :
  (forall x, g x = option_map f (alist_get x l)) ->
  forall x, upd g k (Some (f v)) x = option_map f (alist_get x (alist_set k v l)).
Proof.
  intros H x. unfold upd. destruct (bytes_eqb x k) eqn:E.
  - apply bytes_eqb_eq in E. subst. rewrite alist_get_set_same. reflexivity.
  - rewrite alist_get_set_other by exact E. apply H.
Qed.
Lemma upd_del {A B} (f : A -> B) (g : bytes -> option B) k (l : list (bytes * A)) :
  (forall x, g x = option_map f (alist_get x l)) ->
  forall x, upd g k None x = option_map f (alist_get x (alist_del k l)).
Proof.
  intros H x. unfold upd. destruct (bytes_eqb x k) eqn:E.
  - apply bytes_eqb_eq in E. subst. rewrite alist_get_del_same. reflexivity.
  - rewrite alist_get_del_other by exact E. apply H.
Qed.

Ltac nstart A Hc P :=
  unfold ns_step; rewrite filter_turn by (auto; reflexivity); rewrite A; cbn [negb].

Lemma ns_quiet sc n st f cl : nmatch n st -> all_closed cl = true -> nmatch (ns_step sc n f ([] ++ cl)) st.
Proof.
  intros M Hc. pose proof M as (A & _). unfold ns_step. rewrite filter_turn by (auto; reflexivity). rewrite A. exact M.
Qed.

Lemma ns_parse sc n st body evs st' k cl :
  nmatch n st -> all_closed cl = true ->
  do_parse (cfg_of_case sc) st body = (evs, st', k) ->
  nmatch (ns_step sc n (FMsg x50 body) (evs ++ cl)) st'.
Proof.
  intros M Hc H. pose proof M as (A & S & P). unfold do_parse in H.
  destruct (take_cstr body) as [[name l1]|] eqn:E1; [|injection H as <- <- <-; apply ns_quiet; auto].
  destruct (take_cstr l1) as [[q l2]|] eqn:E2; [|injection H as <- <- <-; apply ns_quiet; auto].
  destruct (p_u16 l2) as [x|] eqn:E3; [|injection H as <- <- <-; apply ns_quiet; auto].
  assert (W : wf_client (FMsg x50 body) = true) by (cbn; rewrite E1, E2, E3; reflexivity).
  cbn [cfg_of_case cfg_parse] in H.
  destruct (lookup_parse (sc_parse sc) q) as [e|ss] eqn:Ep.
  - unfold ext_err in H. injection H as <- <- <-. unfold ns_step. rewrite filter_turn by (auto; reflexivity).
    rewrite A, W. cbn. rewrite E1, E2. exact M.
  - destruct ss as [|s1 [|s2 r]].
    + unfold ext_err in H. injection H as <- <- <-. unfold ns_step. rewrite filter_turn by (auto; reflexivity).
      rewrite A, W. cbn. rewrite E1, E2. exact M.
    + injection H as <- <- <-. unfold ns_step. rewrite filter_turn by (auto; reflexivity).
      rewrite A, W. cbn. rewrite E1, E2, Ep. split; [reflexivity|]. cbn [ns_stmt ns_portal st_stmts st_portals]. split; [|exact P].
      apply (upd_set sdef_of). exact S.
    + unfold ext_err in H. injection H as <- <- <-. unfold ns_step. rewrite filter_turn by (auto; reflexivity).
      rewrite A, W. cbn. rewrite E1, E2. exact M.
Qed.

Lemma ns_bind sc n st body evs st' k cl :
  nmatch n st -> all_closed cl = true ->
  do_bind st body = (evs, st', k) ->
  nmatch (ns_step sc n (FMsg x42 body) (evs ++ cl)) st'.
Proof.
  intros M Hc H. pose proof M as (A & S & P). unfold do_bind, decode_bind in H.
  destruct (decode_bind_raw body) as [b|] eqn:E1; [|injection H as <- <- <-; apply ns_quiet; auto].
  assert (W : wf_client (FMsg x42 body) = true) by (cbn; unfold decode_bind; rewrite E1; reflexivity).
  cbn [b_stmt b_portal b_params b_rfmts] in H.
  pose proof (S (br_stmt b)) as Sb.
  destruct (alist_get (br_stmt b) (st_stmts st)) as [s|] eqn:G; cbn [option_map] in Sb.
  - injection H as <- <- <-. unfold ns_step. rewrite filter_turn by (auto; reflexivity).
    rewrite A, W. cbn. rewrite E1, Sb. split; [reflexivity|]. cbn [ns_stmt ns_portal st_stmts st_portals]. split; [exact S|].
    intros name. unfold upd. destruct (bytes_eqb name (br_portal b)) eqn:E.
    + apply bytes_eqb_eq in E. subst name. rewrite alist_get_set_same. repeat split.
    + rewrite alist_get_set_other by exact E. apply P.
  - unfold ext_err in H. injection H as <- <- <-. unfold ns_step. rewrite filter_turn by (auto; reflexivity).
    rewrite A, W. cbn. rewrite E1, Sb. exact M.
Qed.

Lemma ns_describe sc n st body evs st' k cl :
  nmatch n st -> all_closed cl = true ->
  do_describe st body = (evs, st', k) ->
  nmatch (ns_step sc n (FMsg x44 body) (evs ++ cl)) st'.
Proof.
  intros M Hc H. pose proof M as (A & S & P). unfold do_describe in H.
  destruct body as [|kd l1]; [injection H as <- <- <-; apply ns_quiet; auto|].
  destruct (take_cstr l1) as [[name l2]|] eqn:E1; [|injection H as <- <- <-; apply ns_quiet; auto].
  assert (W : wf_client (FMsg x44 (kd :: l1)) = true) by (cbn; rewrite E1; reflexivity).
  destruct (Byte.eqb kd x53) eqn:K1.
  - pose proof (S name) as Sn.
    destruct (alist_get name (st_stmts st)) as [s|] eqn:G; cbn [option_map] in Sn.
    + injection H as <- <- <-. unfold ns_step. rewrite filter_turn by (auto; reflexivity).
      rewrite A, W. cbn. rewrite E1, K1, Sn. cbn [sdef_of sd_poids]. rewrite list_z_eqb_refl.
      pose proof (describe_cols_ok s []) as D. cbn [sdef_of] in D. rewrite D. exact M.
    + unfold ext_err in H. injection H as <- <- <-. unfold ns_step. rewrite filter_turn by (auto; reflexivity).
      rewrite A, W. cbn. rewrite E1, K1, Sn. exact M.
  - destruct (Byte.eqb kd x50) eqn:K2.
    + pose proof (P name) as Pn.
      destruct (alist_get name (st_portals st)) as [p|] eqn:G.
      * destruct (ns_portal n name) as [pd|] eqn:Np; [|contradiction]. destruct Pn as (P1 & P2 & P3).
        injection H as <- <- <-. unfold ns_step. rewrite filter_turn by (auto; reflexivity).
        rewrite A, W. cbn. rewrite E1, K1, K2, Np, P1, P2.
        pose proof (describe_cols_ok (p_stmt p) (p_rfmts p)) as D. rewrite D. exact M.
      * destruct (ns_portal n name) as [pd|] eqn:Np; [contradiction|].
        unfold ext_err in H. injection H as <- <- <-. unfold ns_step. rewrite filter_turn by (auto; reflexivity).
        rewrite A, W. cbn. rewrite E1, K1, K2, Np. exact M.
    + unfold ext_err in H. injection H as <- <- <-. unfold ns_step. rewrite filter_turn by (auto; reflexivity).
      rewrite A, W. cbn. rewrite E1, K1, K2. exact M.
Qed.

Lemma ns_close sc n st body evs st' k cl :
  nmatch n st -> all_closed cl = true ->
  do_close st body = (evs, st', k) ->
  nmatch (ns_step sc n (FMsg x43 body) (evs ++ cl)) st'.
Proof.
  intros M Hc H. pose proof M as (A & S & P). unfold do_close in H.
  destruct body as [|kd l1]; [injection H as <- <- <-; apply ns_quiet; auto|].
  destruct (take_cstr l1) as [[name l2]|] eqn:E1; [|injection H as <- <- <-; apply ns_quiet; auto].
  assert (W : wf_client (FMsg x43 (kd :: l1)) = true) by (cbn; rewrite E1; reflexivity).
  destruct (Byte.eqb kd x53) eqn:K1; [|destruct (Byte.eqb kd x50) eqn:K2].
  - injection H as <- <- <-. unfold ns_step. rewrite filter_turn by (auto; reflexivity).
    rewrite A, W. cbn. rewrite E1, K1. split; [reflexivity|]. cbn [ns_stmt ns_portal st_stmts st_portals]. split; [|exact P].
    apply (upd_del sdef_of). exact S.
  - injection H as <- <- <-. unfold ns_step. rewrite filter_turn by (auto; reflexivity).
    rewrite A, W. cbn. rewrite E1, K1, K2. split; [reflexivity|]. cbn [ns_stmt ns_portal st_stmts st_portals]. split; [exact S|].
    intros x. unfold upd. destruct (bytes_eqb x name) eqn:E.
    + apply bytes_eqb_eq in E. subst x. rewrite alist_get_del_same. exact I.
    + rewrite alist_get_del_other by exact E. apply P.
  - unfold ext_err in H. injection H as <- <- <-. unfold ns_step. rewrite filter_turn by (auto; reflexivity).
    rewrite A, W. cbn. rewrite E1. exact M.
Qed.

(* ---------- Execute: the bound statement runs exactly once, with the Bind's tagged parameters ---------- *)
Lemma execs_app a b : execs (a ++ b) = execs a ++ execs b.
Proof. unfold execs. apply flat_map_app. Qed.

Lemma copy_read_no_exec L : forall fs tl evs r rest, copy_read L fs tl = (evs, r, rest) -> execs evs = [].
Proof.
  induction fs as [|f fr IH]; intros tl evs r rest H; cbn [copy_read] in H.
  - injection H as <- <- <-. reflexivity.
  - destruct f as [t body|t size [x|]|t size|]; try (injection H as <- <- <-; reflexivity).
    destruct (Byte.eqb t x48 || Byte.eqb t x53).
    + destruct (copy_read L fr tl) as [[evs0 r0] rest0] eqn:E. injection H as <- <- <-. cbn. eapply IH; eauto.
    + destruct (Byte.eqb t x64); [injection H as <- <- <-; reflexivity|].
      destruct (Byte.eqb t x63); [injection H as <- <- <-; reflexivity|].
      destruct (Byte.eqb t x66); [destruct (take_cstr body) as [[d x]|]|]; injection H as <- <- <-; reflexivity.
Qed.

Lemma run_op_no_exec c cols fmts o w fs tl evs w' fs' st :
  run_op c cols fmts o w fs tl = (evs, w', fs', st) -> execs evs = [].
Proof.
  destruct o as [vs| | |tag|f|]; cbn [run_op]; intros H.
  - destruct (w_closed w); [injection H as <- <- <- <-; reflexivity|].
    destruct (write_row (cfg_encode c) cols fmts vs); injection H as <- <- <- <-; reflexivity.
  - injection H as <- <- <- <-. reflexivity.
  - destruct (w_closed w); [|destruct (negb (w_written w =? 0))]; injection H as <- <- <- <-; reflexivity.
  - destruct (w_closed w); injection H as <- <- <- <-; reflexivity.
  - destruct (w_closed w); [|destruct cols]; injection H as <- <- <- <-; reflexivity.
  - destruct (negb (w_copy w)); [injection H as <- <- <- <-; reflexivity|].
    destruct (copy_read (cfg_limit c) fs tl) as [[evs0 r] rest] eqn:E.
    pose proof (copy_read_no_exec _ _ _ _ _ _ E) as K.
    destruct r; injection H as <- <- <- <-; rewrite execs_app, K; reflexivity.
Qed.

Lemma run_ops_no_exec c cols fmts stop : forall ops w fs tl evs w' fs' res,
  run_ops c cols fmts stop ops w fs tl = (evs, w', fs', res) -> execs evs = [].
Proof.
  induction ops as [|o r IH]; intros w fs tl evs w' fs' res H; cbn [run_ops] in H.
  - injection H as <- <- <- <-. reflexivity.
  - destruct (run_op c cols fmts o w fs tl) as [[[evs1 w1] fs1] st] eqn:E1.
    pose proof (run_op_no_exec _ _ _ _ _ _ _ _ _ _ _ E1) as K1.
    destruct st.
    + destruct (run_ops c cols fmts stop r w1 fs1 tl) as [[[evs2 w2] fs2] res2] eqn:E2.
      injection H as <- <- <- <-. rewrite execs_app, K1. eapply IH; eauto.
    + destruct stop.
      * injection H as <- <- <- <-. exact K1.
      * destruct (run_ops c cols fmts false r w1 fs1 tl) as [[[evs2 w2] fs2] res2] eqn:E2.
        injection H as <- <- <- <-. rewrite execs_app, K1. eapply IH; eauto.
    + injection H as <- <- <- <-. exact K1.
Qed.

Lemma run_stmt_execs c s fmts params fs tl evs fs' res :
  run_stmt c s fmts params fs tl = (evs, fs', res) ->
  execs evs = [(s_id s, params)] /\ exists e0 r0, evs = e0 :: r0.
Proof.
  unfold run_stmt. intros H.
  destruct (run_ops c (s_cols s) fmts (s_stop s) (s_prog s) w_init fs tl) as [[[evs0 w] fs0] r0] eqn:E.
  injection H as <- <- <-. cbn [execs flat_map app]. fold (execs evs0). rewrite (run_ops_no_exec _ _ _ _ _ _ _ _ _ _ _ _ E).
  split; [reflexivity|]. do 2 eexists. reflexivity.
Qed.

Lemma ns_execute sc n st body rest tl evs st' fs' k cl :
  nmatch n st -> all_closed cl = true -> no_consume evs = true ->
  do_execute (cfg_of_case sc) st body rest tl = (evs, st', fs', k) ->
  nmatch (ns_step sc n (FMsg x45 body) (evs ++ cl)) st'.
Proof.
  intros M Hc Pe H. pose proof M as (A & S & P). unfold do_execute in H.
  destruct (take_cstr body) as [[name l1]|] eqn:E1; [|injection H as <- <- <- <-; apply ns_quiet; auto].
  destruct (p_u32 l1) as [x|] eqn:E2; [|injection H as <- <- <- <-; apply ns_quiet; auto].
  assert (W : wf_client (FMsg x45 body) = true) by (cbn; rewrite E1, E2; reflexivity).
  pose proof (P name) as Pn.
  destruct (alist_get name (st_portals st)) as [p|] eqn:G.
  - destruct (ns_portal n name) as [pd|] eqn:Np; [|contradiction]. destruct Pn as (P1 & P2 & P3).
    destruct (run_stmt (cfg_of_case sc) (p_stmt p) (p_rfmts p) (p_params p) rest tl) as [[evs1 fs1] res] eqn:E.
    destruct (run_stmt_execs _ _ _ _ _ _ _ _ _ E) as (X & e0 & r0 & ->).
    assert (Fin : forall tailevs st2, st_stmts st2 = st_stmts st -> st_portals st2 = st_portals st ->
              execs tailevs = [] -> no_consume ((e0 :: r0) ++ tailevs) = true ->
              nmatch (ns_step sc n (FMsg x45 body) (((e0 :: r0) ++ tailevs) ++ cl)) st2).
    { intros tailevs st2 Hs Hp Ht Pt. unfold ns_step. rewrite filter_turn by (auto; reflexivity).
      rewrite A, W. cbn [negb app]. cbn [Byte.eqb]. rewrite E1, Np. change (e0 :: r0 ++ tailevs) with ((e0 :: r0) ++ tailevs).
      rewrite execs_app, X, Ht. cbn [app]. rewrite P1. cbn [sdef_of sd_sid]. rewrite Z.eqb_refl, P3.
      rewrite params_tagged_ok by reflexivity. cbn. split; [exact A|]. rewrite Hs, Hp. auto. }
    destruct res.
    + injection H as <- <- <- <-. rewrite <- (app_nil_r (e0 :: r0)) at 1. apply Fin; auto. rewrite app_nil_r. exact Pe.
    + unfold ext_err in H. injection H as <- <- <- <-. apply Fin; auto.
    + unfold ext_err in H. injection H as <- <- <- <-. apply Fin; auto.
  - destruct (ns_portal n name) as [pd|] eqn:Np; [contradiction|].
    unfold ext_err in H. injection H as <- <- <- <-. unfold ns_step. rewrite filter_turn by (auto; reflexivity).
    rewrite A, W. cbn. rewrite E1, Np. exact M.
Qed.

(* ---------- every other message leaves the abstract namespace alone ---------- *)
Lemma ns_other sc n t body evs0 :
  Byte.eqb t x50 = false -> Byte.eqb t x42 = false -> Byte.eqb t x44 = false ->
  Byte.eqb t x45 = false -> Byte.eqb t x43 = false ->
  ns_step sc n (FMsg t body) evs0 = n.
Proof.
  intros H50 H42 H44 H45 H43. unfold ns_step.
  destruct (negb (ns_ok n)); [reflexivity|].
  destruct (filter (fun e : ev => negb (is_closed_ev e)) evs0); [reflexivity|].
  destruct (negb (wf_client (FMsg t body))); [reflexivity|].
  rewrite H50, H42, H44, H45, H43. reflexivity.
Qed.

Lemma ns_notmsg sc n f evs0 : (forall t body, f <> FMsg t body) -> ns_step sc n f evs0 = n.
Proof.
  intros H. unfold ns_step. destruct (negb (ns_ok n)); [reflexivity|].
  destruct (filter (fun e : ev => negb (is_closed_ev e)) evs0); [reflexivity|].
  destruct f; try reflexivity. exfalso. eapply H. reflexivity.
Qed.

Lemma nmatch_same n st st' : st_stmts st' = st_stmts st -> st_portals st' = st_portals st -> nmatch n st -> nmatch n st'.
Proof. intros Hs Hp (A & S & P). unfold nmatch. rewrite Hs, Hp. auto. Qed.

Lemma ns_cmd sc n st f rest tl evs st' fs' k cl :
  nmatch n st -> all_closed cl = true -> no_consume evs = true ->
  cmd (cfg_of_case sc) st f rest tl = (evs, st', fs', k) ->
  nmatch (ns_step sc n f (evs ++ cl)) st'.
Proof.
  intros M Hc Pe H.
  destruct f as [t body|t size [r|]|t size|]; cbn [cmd] in H.
  - destruct (st_discard st && negb (Byte.eqb t x53) && negb (Byte.eqb t x58)) eqn:DD.
    { injection H as <- <- <- <-. apply ns_quiet; auto. }
    destruct (Byte.eqb t x51) eqn:T51.
    { apply Byte.byte_dec_bl in T51. subst t.
      destruct (simple_query (cfg_of_case sc) body rest tl) as [[evs0 fs0] k0]. injection H as <- <- <- <-.
      rewrite ns_other by reflexivity. exact M. }
    destruct (Byte.eqb t x45) eqn:T45.
    { apply Byte.byte_dec_bl in T45. subst t. eapply ns_execute; eauto. }
    destruct (Byte.eqb t x50) eqn:T50.
    { apply Byte.byte_dec_bl in T50. subst t.
      destruct (do_parse (cfg_of_case sc) st body) as [[evs0 st0] k0] eqn:E. injection H as <- <- <- <-. eapply ns_parse; eauto. }
    destruct (Byte.eqb t x44) eqn:T44.
    { apply Byte.byte_dec_bl in T44. subst t.
      destruct (do_describe st body) as [[evs0 st0] k0] eqn:E. injection H as <- <- <- <-. eapply ns_describe; eauto. }
    destruct (Byte.eqb t x53) eqn:T53.
    { injection H as <- <- <- <-. rewrite ns_other by (auto; apply Byte.byte_dec_bl in T53; subst t; reflexivity).
      apply nmatch_discard. exact M. }
    destruct (Byte.eqb t x42) eqn:T42.
    { apply Byte.byte_dec_bl in T42. subst t.
      destruct (do_bind st body) as [[evs0 st0] k0] eqn:E. injection H as <- <- <- <-. eapply ns_bind; eauto. }
    destruct (Byte.eqb t x48) eqn:T48; [injection H as <- <- <- <-; apply ns_quiet; auto|].
    destruct (Byte.eqb t x64 || Byte.eqb t x63 || Byte.eqb t x66); [injection H as <- <- <- <-; apply ns_quiet; auto|].
    destruct (Byte.eqb t x43) eqn:T43.
    { apply Byte.byte_dec_bl in T43. subst t.
      destruct (do_close st body) as [[evs0 st0] k0] eqn:E. injection H as <- <- <- <-. eapply ns_close; eauto. }
    rewrite ns_other by assumption.
    destruct (Byte.eqb t x58); [destruct (cfg_term (cfg_of_case sc))|]; injection H as <- <- <- <-; exact M.
  - injection H as <- <- <- <-. rewrite ns_notmsg by discriminate. exact M.
  - destruct (do_oversize (cfg_of_case sc) st t size) as [evs0 st0] eqn:E. injection H as <- <- <- <-.
    rewrite ns_notmsg by discriminate.
    unfold do_oversize in E. destruct (st_discard st && negb (Byte.eqb t x53)); [injection E as <- <-; exact M|].
    destruct (is_ext t); [unfold ext_err in E; injection E as <- <-; exact M|].
    destruct (Byte.eqb t x53); injection E as <- <-; exact M.
  - destruct (do_oversize (cfg_of_case sc) st t size) as [evs0 st0] eqn:E. injection H as <- <- <- <-.
    rewrite ns_notmsg by discriminate.
    unfold do_oversize in E. destruct (st_discard st && negb (Byte.eqb t x53)); [injection E as <- <-; exact M|].
    destruct (is_ext t); [unfold ext_err in E; injection E as <- <-; exact M|].
    destruct (Byte.eqb t x53); injection E as <- <-; exact M.
  - injection H as <- <- <- <-. rewrite ns_notmsg by discriminate. exact M.
Qed.

(* ---------- the whole loop, the whole connection ---------- *)
Lemma run_rel_names sc tl : forall st fs ts n,
  run_rel (cfg_of_case sc) tl st fs ts -> nmatch n st -> ns_ok (ns_fold sc n fs ts) = true.
Proof.
  intros st fs ts n R. revert n. induction R as [st|st f rest evs st' fs' E P|st f rest evs st' ts E P I' R IH]; intros n M.
  - destruct M as (A & _). exact A.
  - cbn [ns_fold]. assert (X : nmatch (ns_step sc n f (evs ++ [Closed])) st') by (eapply ns_cmd; eauto).
    destruct X as (A & _). destruct rest; exact A.
  - cbn [ns_fold]. apply IH. eapply ns_cmd; eauto. apply endmark_closed.
Qed.

Lemma ns0_match : nmatch ns0 st_init.
Proof. split; [reflexivity|]. split; intros name; reflexivity. Qed.

Definition names_verdict_ok (sc : scase) (fs : list frame) (log : list ev) : Prop :=
  match turns log with _ :: ts => ns_ok (ns_fold sc ns0 fs ts) = true | [] => True end.

Lemma names_short sc fs pre : no_consume pre = true -> names_verdict_ok sc fs (pre ++ [Closed]).
Proof.
  intros P. unfold names_verdict_ok, turns. rewrite split_plain by exact P. cbn [split_consume].
  destruct fs; reflexivity.
Qed.

Lemma session_names sc after s : cfg_nocopy (cfg_of_case sc) ->
  forall fs, (forall cparams aevs s', read_params (S (List.length after)) after = Some cparams ->
               auth_phase (cfg_of_case sc) cparams s = (aevs, s', true) -> fs = fst (frames (cfg_limit (cfg_of_case sc)) s')) ->
  names_verdict_ok sc fs (session (cfg_of_case sc) after s).
Proof.
  intros Hcfg fs Hfs. set (c := cfg_of_case sc) in *. pose proof (case_text_safe sc) as Hts. fold c in Hts. unfold session.
  destruct (read_params (S (List.length after)) after) as [cparams|] eqn:Er; [|apply (names_short sc fs []); reflexivity].
  destruct (auth_phase c cparams s) as [[aevs s'] ok] eqn:Ea.
  pose proof (auth_phase_plain _ _ _ _ _ _ Ea) as Pa.
  destruct ok; cbn [negb]; [|apply names_short; exact Pa].
  specialize (Hfs _ _ _ eq_refl Ea).
  pose proof (run_mws_plain (cfg_mws c) 0) as Pm.
  destruct (run_mws (cfg_mws c) 0) as [mevs mok]. cbn [fst] in Pm.
  set (pevs := map (fun kv : bytes * bytes => Out (BParamStatus (fst kv) (snd kv))) (server_params c (param_get (bs "user") cparams))).
  assert (Pp : no_consume pevs = true) by apply pstatus_plain.
  destruct mok; cbn [negb].
  - destruct (frames (cfg_limit c) s') as [fs0 tl] eqn:Ef. cbn [fst] in Hfs. subst fs0.
    rewrite !app_assoc.
    set (pre := ((aevs ++ pevs) ++ mevs) ++ [Out ready]).
    assert (Ppre : no_consume pre = true) by (unfold pre; rewrite !no_consume_app, Pa, Pp, Pm; reflexivity).
    destruct (loop_run_rel c tl Hcfg Hts (S (List.length fs)) st_init fs pre st_init_nocopy Ppre (Nat.lt_succ_diag_r _))
      as (ts & S1 & S2).
    unfold names_verdict_ok, turns. rewrite split_plain by exact Ppre. rewrite app_nil_r, S1.
    eapply run_rel_names; eauto. exact ns0_match.
  - rewrite !app_assoc. apply names_short. rewrite !no_consume_app, Pa, Pp, Pm. reflexivity.
Qed.

Theorem oracle_names_model sc :
  case_nocopy sc = true ->
  (forall v after rest, start (cfg_of_case sc) (sc_raw sc) = Some (v, after, rest) -> v <> version_ssl) ->
  oracle_names sc (run_case sc) = true.
Proof.
  intros Hn Hssl. unfold oracle_names. rewrite (oracle_turns_model_auth sc Hn Hssl). cbn [andb].
  assert (V : names_verdict_ok sc (client_frames sc) (run_case sc)).
  { unfold run_case, serve.
    destruct (start (cfg_of_case sc) (sc_raw sc)) as [[[v after] rest]|] eqn:Es; [|apply (names_short sc _ []); reflexivity].
    destruct (v =? version_cancel); [apply (names_short sc _ []); reflexivity|].
    destruct (Z.eqb_spec v version_ssl) as [->|_]; [exfalso; eapply Hssl; eauto|].
    apply session_names; [apply case_cfg_nocopy; exact Hn|].
    intros cparams aevs s' _ Hauth. eapply case_frames; eauto. }
  unfold names_verdict_ok in V. unfold names_verdict. destruct (turns (run_case sc)) as [|t0 ts]; [reflexivity|exact V].
Qed.
